/-
  Helper lemmas for C19 (self-validating operators): the three binomial fusion operators
  `BOp.cfuse` / `BOp.afuse` / `BOp.wfuse` (src/bi.rs, renormalised since repair df72a91; SLV/Model/Bi.lean) on finite operands:
  (`BOp.norm_one`, the "s = 1" lifting step, is shared with `mul` / `comul` / `deduce`, renormalised since repair d46c983:
  SLV/Refine/C12Lemmas.lean, SLV/Refine/C14Lemmas.lean)
  * the guards at value level (`GV` ≙ `is_one`, `GD` ≙ `is_zero`);
  * rational closed forms and their algebra (denominators non-zero, non-negativity, sum one, base rate a
    convex combination);
  * the checked constructor on finite data whose sum is within the `is_one` band (not exactly one);
  * the lift of each operator, arm by arm, to `.ok` of the closed form.
  No property statements here.
-/
import SLV.Refine.Lift
import SLV.Refine.C10Lemmas
import SLV.Props.C10
import SLV.Model.Bi

namespace SLV
open Scalar
open SLV.Props.C10 (BWF)

variable {f : Fmt}

namespace C19

/-- value-level `is_one(u)`: `1-2ε ≤ u ≤ 1+4ε` -/
def GV (f : Fmt) (u : ℚ) : Prop := 1 - 2 * f.eps ≤ u ∧ u ≤ 1 + 4 * f.eps
/-- value-level `is_zero(u)`: `|u| ≤ ε` -/
def GD (f : Fmt) (u : ℚ) : Prop := |u| ≤ f.eps

instance (u : ℚ) : Decidable (GV f u) := by unfold GV; infer_instance
instance (u : ℚ) : Decidable (GD f u) := by unfold GD; infer_instance

theorem eps_lt (f : Fmt) : f.eps < 1 / 16 := by
  cases f <;> norm_num [Fmt.eps, Fmt.mant]

theorem GV_iff {u : ℚ} (h1 : u ≤ 1) : GV f u ↔ 1 - 2 * f.eps ≤ u := by
  have := XQ.eps_pos f
  exact ⟨fun h => h.1, fun h => ⟨h, by linarith⟩⟩

theorem GD_iff {u : ℚ} (h0 : 0 ≤ u) : GD f u ↔ u ≤ f.eps := by
  unfold GD; rw [abs_of_nonneg h0]

theorem GD_zero : GD f 0 := by
  unfold GD; rw [abs_zero]; exact (XQ.eps_pos f).le

theorem GV_one : GV f 1 := by
  have := XQ.eps_pos f
  constructor <;> linarith

theorem not_GV_zero : ¬ GV f 0 := by
  have := eps_lt f
  rintro ⟨h, _⟩; linarith

theorem not_GD_one : ¬ GD f 1 := by
  have := eps_lt f
  unfold GD; rw [abs_one]; linarith

theorem isOne_and (u₁ u₂ : ℚ) :
    (Scalar.isOne (XQ.fin u₁ : XQ f) && Scalar.isOne (XQ.fin u₂ : XQ f)) = decide (GV f u₁ ∧ GV f u₂) := by
  rw [XQ.isOne_fin, XQ.isOne_fin, ← Bool.decide_and]; rfl

theorem isZero_and (u₁ u₂ : ℚ) :
    (Scalar.isZero (XQ.fin u₁ : XQ f) && Scalar.isZero (XQ.fin u₂ : XQ f)) = decide (GD f u₁ ∧ GD f u₂) := by
  rw [XQ.isZero_fin, XQ.isZero_fin, ← Bool.decide_and]; rfl

/-! ### closed forms -/

/-- `κ = u₁ + u₂ - u₁u₂` of cumulative fusion -/
def kap (u₁ u₂ : ℚ) : ℚ := u₁ + u₂ - u₁ * u₂

/-- belief (and, with `d` for `b`, disbelief) of `cfuse` -/
def cfB (b₁ u₁ b₂ u₂ : ℚ) : ℚ := (b₁ * u₂ + b₂ * u₁) / kap u₁ u₂
def cfU (u₁ u₂ : ℚ) : ℚ := u₁ * u₂ / kap u₁ u₂
/-- base rate of `cfuse`: the mean in the guard arm (both `is_one`), else the confidence-weighted mean -/
def cfA (f : Fmt) (u₁ a₁ u₂ a₂ : ℚ) : ℚ :=
  if GV f u₁ ∧ GV f u₂ then (a₁ + a₂) / 2
  else (a₁ * u₂ * (1 - u₁) + a₂ * u₁ * (1 - u₂)) / (u₂ * (1 - u₁) + u₁ * (1 - u₂))

/-- `afuse`, formula arm -/
def afB (b₁ u₁ b₂ u₂ : ℚ) : ℚ := (b₁ * u₂ + b₂ * u₁) / (u₁ + u₂)
def afU (u₁ u₂ : ℚ) : ℚ := 2 * u₁ * u₂ / (u₁ + u₂)

/-- the `γ`-weighted mean of the both-dogmatic arm of `afuse` / `wfuse` -/
def gmix (γ x₁ x₂ : ℚ) : ℚ := γ * x₁ + (1 - γ) * x₂

/-- `wfuse`, formula arm -/
def wfDen (u₁ u₂ : ℚ) : ℚ := (1 - u₁) * u₂ + (1 - u₂) * u₁
def wfB (b₁ u₁ b₂ u₂ : ℚ) : ℚ := (b₁ * (1 - u₁) * u₂ + b₂ * (1 - u₂) * u₁) / wfDen u₁ u₂
def wfU (u₁ u₂ : ℚ) : ℚ := ((1 - u₁) + (1 - u₂)) * u₁ * u₂ / wfDen u₁ u₂
def wfA (u₁ a₁ u₂ a₂ : ℚ) : ℚ := (a₁ * (1 - u₁) + a₂ * (1 - u₂)) / ((1 - u₁) + (1 - u₂))

variable {b₁ d₁ u₁ a₁ b₂ d₂ u₂ a₂ γ : ℚ}

theorem BWF.u_le_one {b d u a : ℚ} (h : BWF b d u a) : u ≤ 1 := by linarith [h.hs, h.hb, h.hd]
theorem BWF.bd {b d u a : ℚ} (h : BWF b d u a) : b + d = 1 - u := by linarith [h.hs]

/-! ### denominators -/

/-- `κ ≥ 0`, and `κ = 0` iff both uncertainties are exactly 0 -/
theorem kap_nonneg (h₁ : BWF b₁ d₁ u₁ a₁) (h₂ : BWF b₂ d₂ u₂ a₂) : 0 ≤ kap u₁ u₂ := by
  unfold kap
  nlinarith [mul_nonneg h₂.hu (sub_nonneg.mpr (BWF.u_le_one h₁)), h₁.hu]

theorem kap_eq_zero_iff (h₁ : BWF b₁ d₁ u₁ a₁) (h₂ : BWF b₂ d₂ u₂ a₂) :
    kap u₁ u₂ = 0 ↔ u₁ = 0 ∧ u₂ = 0 := by
  unfold kap
  constructor
  · intro h
    have t := mul_nonneg h₂.hu (sub_nonneg.mpr (BWF.u_le_one h₁))
    have t' := mul_nonneg h₁.hu (sub_nonneg.mpr (BWF.u_le_one h₂))
    exact ⟨le_antisymm (by nlinarith [h₁.hu]) h₁.hu, le_antisymm (by nlinarith [h₂.hu]) h₂.hu⟩
  · rintro ⟨rfl, rfl⟩; ring

theorem kap_pos (h₁ : BWF b₁ d₁ u₁ a₁) (h₂ : BWF b₂ d₂ u₂ a₂) (hnd : ¬ (u₁ = 0 ∧ u₂ = 0)) :
    0 < kap u₁ u₂ :=
  lt_of_le_of_ne (kap_nonneg h₁ h₂) (fun h => hnd ((kap_eq_zero_iff h₁ h₂).mp h.symm))

/-- for uncertainties in [0,1]: `u₂(1-u₁) + u₁(1-u₂) = 0` iff `(u₁,u₂) ∈ {(0,0), (1,1)}` -/
theorem cross_eq_zero_iff (h₁ : BWF b₁ d₁ u₁ a₁) (h₂ : BWF b₂ d₂ u₂ a₂) :
    u₂ * (1 - u₁) + u₁ * (1 - u₂) = 0 ↔ (u₁ = 0 ∧ u₂ = 0) ∨ (u₁ = 1 ∧ u₂ = 1) := by
  have t := mul_nonneg h₂.hu (sub_nonneg.mpr (BWF.u_le_one h₁))
  have t' := mul_nonneg h₁.hu (sub_nonneg.mpr (BWF.u_le_one h₂))
  constructor
  · intro h
    have e1 : u₂ * (1 - u₁) = 0 := by linarith
    have e2 : u₁ * (1 - u₂) = 0 := by linarith
    rcases mul_eq_zero.mp e1 with h2 | h1
    · rcases mul_eq_zero.mp e2 with h1' | h2'
      · exact Or.inl ⟨h1', h2⟩
      · exfalso; rw [h2] at h2'; norm_num at h2'
    · rcases mul_eq_zero.mp e2 with h1' | h2'
      · exfalso; rw [h1'] at h1; norm_num at h1
      · exact Or.inr ⟨by linarith, by linarith⟩
  · rintro (⟨rfl, rfl⟩ | ⟨rfl, rfl⟩) <;> ring

theorem cross_pos (h₁ : BWF b₁ d₁ u₁ a₁) (h₂ : BWF b₂ d₂ u₂ a₂)
    (hnd : ¬ (u₁ = 0 ∧ u₂ = 0)) (hnv : ¬ (u₁ = 1 ∧ u₂ = 1)) :
    0 < u₂ * (1 - u₁) + u₁ * (1 - u₂) := by
  have t := mul_nonneg h₂.hu (sub_nonneg.mpr (BWF.u_le_one h₁))
  have t' := mul_nonneg h₁.hu (sub_nonneg.mpr (BWF.u_le_one h₂))
  refine lt_of_le_of_ne (by linarith) (fun h => ?_)
  rcases (cross_eq_zero_iff h₁ h₂).mp h.symm with h | h
  · exact hnd h
  · exact hnv h

/-- the formula arm of the base rate of `cfuse` (guard `is_one ∧ is_one` false): divisor positive -/
theorem cross_pos_of_guard (h₁ : BWF b₁ d₁ u₁ a₁) (h₂ : BWF b₂ d₂ u₂ a₂)
    (hnd : ¬ (u₁ = 0 ∧ u₂ = 0)) (hg : ¬ (GV f u₁ ∧ GV f u₂)) :
    0 < u₂ * (1 - u₁) + u₁ * (1 - u₂) :=
  cross_pos h₁ h₂ hnd (fun h => hg (by rw [h.1, h.2]; exact ⟨GV_one, GV_one⟩))

theorem wfDen_eq (u₁ u₂ : ℚ) : wfDen u₁ u₂ = u₂ * (1 - u₁) + u₁ * (1 - u₂) := by
  unfold wfDen; ring

/-- in the formula arm of `wfuse` (not both `is_zero`, not both `is_one`) both divisors are positive -/
theorem wfDen_pos (h₁ : BWF b₁ d₁ u₁ a₁) (h₂ : BWF b₂ d₂ u₂ a₂)
    (hd : ¬ (GD f u₁ ∧ GD f u₂)) (hg : ¬ (GV f u₁ ∧ GV f u₂)) : 0 < wfDen u₁ u₂ := by
  rw [wfDen_eq]
  exact cross_pos_of_guard h₁ h₂ (fun h => hd (by rw [h.1, h.2]; exact ⟨GD_zero, GD_zero⟩)) hg

theorem conf_pos (h₁ : BWF b₁ d₁ u₁ a₁) (h₂ : BWF b₂ d₂ u₂ a₂) (hg : ¬ (GV f u₁ ∧ GV f u₂)) :
    0 < (1 - u₁) + (1 - u₂) := by
  have l1 := BWF.u_le_one h₁
  have l2 := BWF.u_le_one h₂
  refine lt_of_le_of_ne (by linarith) (fun h => hg ?_)
  have e1 : u₁ = 1 := by linarith
  have e2 : u₂ = 1 := by linarith
  rw [e1, e2]; exact ⟨GV_one, GV_one⟩

/-- in the formula arm of `afuse` (not both `is_zero`) the divisor `u₁ + u₂` is positive -/
theorem upu_pos (h₁ : BWF b₁ d₁ u₁ a₁) (h₂ : BWF b₂ d₂ u₂ a₂) (hd : ¬ (GD f u₁ ∧ GD f u₂)) :
    0 < u₁ + u₂ := by
  refine lt_of_le_of_ne (add_nonneg h₁.hu h₂.hu) (fun h => hd ?_)
  have e1 : u₁ = 0 := by linarith [h₁.hu, h₂.hu]
  have e2 : u₂ = 0 := by linarith [h₁.hu, h₂.hu]
  rw [e1, e2]; exact ⟨GD_zero, GD_zero⟩

/-! ### well-formedness of the closed forms -/

theorem mean_unit (h₁ : BWF b₁ d₁ u₁ a₁) (h₂ : BWF b₂ d₂ u₂ a₂) :
    0 ≤ (a₁ + a₂) / 2 ∧ (a₁ + a₂) / 2 ≤ 1 := by
  constructor <;> linarith [h₁.ha0, h₂.ha0, h₁.ha1, h₂.ha1]

/-- a weighted mean of two values of [0,1] with non-negative weights of positive sum lies in [0,1] -/
theorem wmean_unit {x₁ x₂ w₁ w₂ N D : ℚ} (h10 : 0 ≤ x₁) (h11 : x₁ ≤ 1) (h20 : 0 ≤ x₂) (h21 : x₂ ≤ 1)
    (hw1 : 0 ≤ w₁) (hw2 : 0 ≤ w₂) (hD : 0 < D) (eD : D = w₁ + w₂) (eN : N = x₁ * w₁ + x₂ * w₂) :
    0 ≤ N / D ∧ N / D ≤ 1 := by
  subst eD eN
  constructor
  · exact div_nonneg (add_nonneg (mul_nonneg h10 hw1) (mul_nonneg h20 hw2)) hD.le
  · rw [div_le_one hD]
    nlinarith [mul_nonneg (sub_nonneg.mpr h11) hw1, mul_nonneg (sub_nonneg.mpr h21) hw2]

theorem cfA_unit (f : Fmt) (h₁ : BWF b₁ d₁ u₁ a₁) (h₂ : BWF b₂ d₂ u₂ a₂) (hnd : ¬ (u₁ = 0 ∧ u₂ = 0)) :
    0 ≤ cfA f u₁ a₁ u₂ a₂ ∧ cfA f u₁ a₁ u₂ a₂ ≤ 1 := by
  unfold cfA
  split_ifs with hg
  · exact mean_unit h₁ h₂
  · exact wmean_unit (w₁ := u₂ * (1 - u₁)) (w₂ := u₁ * (1 - u₂)) h₁.ha0 h₁.ha1 h₂.ha0 h₂.ha1
      (mul_nonneg h₂.hu (sub_nonneg.mpr (BWF.u_le_one h₁)))
      (mul_nonneg h₁.hu (sub_nonneg.mpr (BWF.u_le_one h₂)))
      (cross_pos_of_guard h₁ h₂ hnd hg) rfl (by ring)

/-- the closed-form cumulative fusion of well-formed operands, not both exactly dogmatic, is well-formed -/
theorem cfuse_bwf (f : Fmt) (h₁ : BWF b₁ d₁ u₁ a₁) (h₂ : BWF b₂ d₂ u₂ a₂) (hnd : ¬ (u₁ = 0 ∧ u₂ = 0)) :
    BWF (cfB b₁ u₁ b₂ u₂) (cfB d₁ u₁ d₂ u₂) (cfU u₁ u₂) (cfA f u₁ a₁ u₂ a₂) := by
  have hk := kap_pos h₁ h₂ hnd
  obtain ⟨a0, a1⟩ := cfA_unit f h₁ h₂ hnd
  refine ⟨?_, ?_, ?_, ?_, a0, a1⟩
  · exact div_nonneg (add_nonneg (mul_nonneg h₁.hb h₂.hu) (mul_nonneg h₂.hb h₁.hu)) hk.le
  · exact div_nonneg (add_nonneg (mul_nonneg h₁.hd h₂.hu) (mul_nonneg h₂.hd h₁.hu)) hk.le
  · exact div_nonneg (mul_nonneg h₁.hu h₂.hu) hk.le
  · unfold cfB cfU
    rw [← add_div, ← add_div, div_eq_one_iff_eq hk.ne']
    have e1 := BWF.bd h₁
    have e2 := BWF.bd h₂
    have : b₁ * u₂ + b₂ * u₁ + (d₁ * u₂ + d₂ * u₁) + u₁ * u₂
        = (b₁ + d₁) * u₂ + (b₂ + d₂) * u₁ + u₁ * u₂ := by ring
    rw [this, e1, e2]; unfold kap; ring

/-- the closed-form averaging fusion (formula arm) is well-formed -/
theorem afuse_bwf (h₁ : BWF b₁ d₁ u₁ a₁) (h₂ : BWF b₂ d₂ u₂ a₂) (hp : 0 < u₁ + u₂) :
    BWF (afB b₁ u₁ b₂ u₂) (afB d₁ u₁ d₂ u₂) (afU u₁ u₂) ((a₁ + a₂) / 2) := by
  obtain ⟨a0, a1⟩ := mean_unit h₁ h₂
  refine ⟨?_, ?_, ?_, ?_, a0, a1⟩
  · exact div_nonneg (add_nonneg (mul_nonneg h₁.hb h₂.hu) (mul_nonneg h₂.hb h₁.hu)) hp.le
  · exact div_nonneg (add_nonneg (mul_nonneg h₁.hd h₂.hu) (mul_nonneg h₂.hd h₁.hu)) hp.le
  · exact div_nonneg (mul_nonneg (mul_nonneg (by norm_num) h₁.hu) h₂.hu) hp.le
  · unfold afB afU
    rw [← add_div, ← add_div, div_eq_one_iff_eq hp.ne']
    have e1 := BWF.bd h₁
    have e2 := BWF.bd h₂
    have : b₁ * u₂ + b₂ * u₁ + (d₁ * u₂ + d₂ * u₁) + 2 * u₁ * u₂
        = (b₁ + d₁) * u₂ + (b₂ + d₂) * u₁ + 2 * u₁ * u₂ := by ring
    rw [this, e1, e2]; ring

/-- the closed-form weighted fusion (formula arm) is well-formed -/
theorem wfuse_bwf (h₁ : BWF b₁ d₁ u₁ a₁) (h₂ : BWF b₂ d₂ u₂ a₂)
    (hd : ¬ (GD f u₁ ∧ GD f u₂)) (hg : ¬ (GV f u₁ ∧ GV f u₂)) :
    BWF (wfB b₁ u₁ b₂ u₂) (wfB d₁ u₁ d₂ u₂) (wfU u₁ u₂) (wfA u₁ a₁ u₂ a₂) := by
  have hD := wfDen_pos h₁ h₂ hd hg
  have hC := conf_pos h₁ h₂ hg
  have c1 := sub_nonneg.mpr (BWF.u_le_one h₁)
  have c2 := sub_nonneg.mpr (BWF.u_le_one h₂)
  obtain ⟨a0, a1⟩ := wmean_unit (N := a₁ * (1 - u₁) + a₂ * (1 - u₂)) h₁.ha0 h₁.ha1 h₂.ha0 h₂.ha1
    c1 c2 hC rfl rfl
  refine ⟨?_, ?_, ?_, ?_, a0, a1⟩
  · exact div_nonneg (add_nonneg (mul_nonneg (mul_nonneg h₁.hb c1) h₂.hu)
      (mul_nonneg (mul_nonneg h₂.hb c2) h₁.hu)) hD.le
  · exact div_nonneg (add_nonneg (mul_nonneg (mul_nonneg h₁.hd c1) h₂.hu)
      (mul_nonneg (mul_nonneg h₂.hd c2) h₁.hu)) hD.le
  · exact div_nonneg (mul_nonneg (mul_nonneg hC.le h₁.hu) h₂.hu) hD.le
  · unfold wfB wfU
    rw [← add_div, ← add_div, div_eq_one_iff_eq hD.ne']
    have e1 := BWF.bd h₁
    have e2 := BWF.bd h₂
    have : b₁ * (1 - u₁) * u₂ + b₂ * (1 - u₂) * u₁ + (d₁ * (1 - u₁) * u₂ + d₂ * (1 - u₂) * u₁)
          + ((1 - u₁) + (1 - u₂)) * u₁ * u₂
        = (b₁ + d₁) * (1 - u₁) * u₂ + (b₂ + d₂) * (1 - u₂) * u₁ + ((1 - u₁) + (1 - u₂)) * u₁ * u₂ := by
      ring
    rw [this, e1, e2]; unfold wfDen; ring

/-- the `γ`-weighted mean of the both-dogmatic arm: non-negative masses, `u := 0`, base rate in [0,1];
    the sum of the masses is `1 - (γu₁ + (1-γ)u₂)`, which is within `ε` of 1 (not exactly 1 unless both
    uncertainties are exactly 0) -/
theorem gmix_facts (h₁ : BWF b₁ d₁ u₁ a₁) (h₂ : BWF b₂ d₂ u₂ a₂) (hγ0 : 0 ≤ γ) (hγ1 : γ ≤ 1) :
    0 ≤ gmix γ b₁ b₂ ∧ 0 ≤ gmix γ d₁ d₂ ∧ 0 ≤ gmix γ a₁ a₂ ∧ gmix γ a₁ a₂ ≤ 1 ∧
    gmix γ b₁ b₂ + gmix γ d₁ d₂ + 0 = 1 - gmix γ u₁ u₂ ∧ 0 ≤ gmix γ u₁ u₂ := by
  have g := sub_nonneg.mpr hγ1
  unfold gmix
  refine ⟨add_nonneg (mul_nonneg hγ0 h₁.hb) (mul_nonneg g h₂.hb),
    add_nonneg (mul_nonneg hγ0 h₁.hd) (mul_nonneg g h₂.hd),
    add_nonneg (mul_nonneg hγ0 h₁.ha0) (mul_nonneg g h₂.ha0), ?_, ?_,
    add_nonneg (mul_nonneg hγ0 h₁.hu) (mul_nonneg g h₂.hu)⟩
  · nlinarith [mul_nonneg hγ0 (sub_nonneg.mpr h₁.ha1), mul_nonneg g (sub_nonneg.mpr h₂.ha1)]
  · have e1 := BWF.bd h₁
    have e2 := BWF.bd h₂
    have : γ * b₁ + (1 - γ) * b₂ + (γ * d₁ + (1 - γ) * d₂) + 0
        = γ * (b₁ + d₁) + (1 - γ) * (b₂ + d₂) := by ring
    rw [this, e1, e2]; ring

theorem gmix_small (h₁ : BWF b₁ d₁ u₁ a₁) (h₂ : BWF b₂ d₂ u₂ a₂) (hγ0 : 0 ≤ γ) (hγ1 : γ ≤ 1)
    (hd : GD f u₁ ∧ GD f u₂) : gmix γ u₁ u₂ ≤ f.eps := by
  have l1 := (GD_iff h₁.hu).mp hd.1
  have l2 := (GD_iff h₂.hu).mp hd.2
  unfold gmix
  nlinarith [mul_le_mul_of_nonneg_left l1 hγ0, mul_le_mul_of_nonneg_left l2 (sub_nonneg.mpr hγ1)]

end C19

/-! ### the checked constructor with a tolerated sum -/

namespace BOp
open C19

/-- the checked binomial constructor accepts finite non-negative data whose sum lies in `[1-2ε, 1]` -/
theorem tryNew_fin_band {b d u a : ℚ} (hb : 0 ≤ b) (hd : 0 ≤ d) (hu : 0 ≤ u)
    (hs1 : 1 - 2 * f.eps ≤ b + d + u) (hs2 : b + d + u ≤ 1) (ha0 : 0 ≤ a) (ha1 : a ≤ 1) :
    BOp.tryNew (XQ.fin b : XQ f) (XQ.fin d) (XQ.fin u) (XQ.fin a)
      = .ok ⟨XQ.fin b, XQ.fin d, XQ.fin u, XQ.fin a⟩ := by
  have he := XQ.eps_pos f
  unfold BOp.tryNew BOp.checkSimplex
  rw [checkUnit_fin_ok' _ ha0 ha1]
  simp only [XQ.add_fin]
  unfold checkOne
  rw [XQ.isOne_fin, if_pos (by rw [decide_eq_true_eq]; exact ⟨hs1, by linarith⟩)]
  rw [checkUnit_fin_ok' _ hb (by linarith), checkUnit_fin_ok' _ hd (by linarith),
    checkUnit_fin_ok' _ hu (by linarith)]

/-- a NaN base rate is rejected first, with the base-rate label -/
theorem tryNew_nan_a (b d u : XQ f) : BOp.tryNew b d u (XQ.nan : XQ f) = .error .ba := rfl

variable {b₁ d₁ u₁ a₁ b₂ d₂ u₂ a₂ γ : ℚ}

/-! ### `cfuse`

  Since repair df72a91 the three fusions divide `(b, d, u)` by `s = b + d + u` before the checked constructor.  On exactly
  well-formed operands the un-normalised masses add up to exactly 1 (`cfuse_bwf`, `afuse_bwf`, `wfuse_bwf`), so the
  division changes nothing: one lifting step `s = 1` per operator (`norm_one`) and the closed forms are the ones of the
  un-normalised operators.  The exception is the both-`is_zero` arm of `afuse` / `wfuse` on operands with `0 < u ≤ ε`,
  where `s = 1 - (γu₁ + (1-γ)u₂) < 1` (`afuse_fin_dog`). -/

/-- the renormalisation step on masses that already add up to 1 -/
theorem norm_one {b d u : ℚ} (hs : b + d + u = 1) (a : XQ f) :
    BOp.tryNew ((XQ.fin b : XQ f) / (XQ.fin b + XQ.fin d + XQ.fin u)) (XQ.fin d / (XQ.fin b + XQ.fin d + XQ.fin u))
        (XQ.fin u / (XQ.fin b + XQ.fin d + XQ.fin u)) a
      = BOp.tryNew (XQ.fin b) (XQ.fin d) (XQ.fin u) a := by
  simp only [XQ.add_fin, hs, XQ.div_fin_one]

/-- lift of `cfuse` on finite operands with `κ ≠ 0`, (in the formula arm) a non-zero base-rate divisor, and
    un-normalised masses that add up to 1: the checked constructor applied to the closed forms. -/
theorem cfuse_fin (hk : kap u₁ u₂ ≠ 0)
    (hD : ¬ (GV f u₁ ∧ GV f u₂) → u₂ * (1 - u₁) + u₁ * (1 - u₂) ≠ 0)
    (hs : cfB b₁ u₁ b₂ u₂ + cfB d₁ u₁ d₂ u₂ + cfU u₁ u₂ = 1) :
    BOp.cfuse (⟨XQ.fin b₁, XQ.fin d₁, XQ.fin u₁, XQ.fin a₁⟩ : BOp (XQ f))
        ⟨XQ.fin b₂, XQ.fin d₂, XQ.fin u₂, XQ.fin a₂⟩
      = BOp.tryNew (XQ.fin (cfB b₁ u₁ b₂ u₂)) (XQ.fin (cfB d₁ u₁ d₂ u₂)) (XQ.fin (cfU u₁ u₂))
          (XQ.fin (cfA f u₁ a₁ u₂ a₂)) := by
  have hk' : u₁ + u₂ - u₁ * u₂ ≠ 0 := hk
  rw [← norm_one hs]
  unfold BOp.cfuse
  simp only [isOne_and]
  by_cases hg : GV f u₁ ∧ GV f u₂
  · simp only [hg, and_self, decide_true, if_true, XQ.one_def, XQ.mul_fin, XQ.sub_fin, XQ.add_fin,
      XQ.two_def, XQ.div_fin _ _ hk', XQ.div_fin _ _ (two_ne_zero (α := ℚ))]
    unfold cfB cfU cfA kap
    rw [if_pos hg]
  · simp only [hg, decide_false, Bool.false_eq_true, if_false, XQ.one_def, XQ.mul_fin, XQ.sub_fin,
      XQ.add_fin, XQ.div_fin _ _ hk', XQ.div_fin _ _ (hD hg)]
    unfold cfB cfU cfA kap
    rw [if_neg hg]

/-- `cfuse` of well-formed operands, not both exactly dogmatic, is accepted with the closed forms -/
theorem cfuse_fin_ok (h₁ : BWF b₁ d₁ u₁ a₁) (h₂ : BWF b₂ d₂ u₂ a₂) (hnd : ¬ (u₁ = 0 ∧ u₂ = 0)) :
    BOp.cfuse (⟨XQ.fin b₁, XQ.fin d₁, XQ.fin u₁, XQ.fin a₁⟩ : BOp (XQ f))
        ⟨XQ.fin b₂, XQ.fin d₂, XQ.fin u₂, XQ.fin a₂⟩
      = .ok ⟨XQ.fin (cfB b₁ u₁ b₂ u₂), XQ.fin (cfB d₁ u₁ d₂ u₂), XQ.fin (cfU u₁ u₂),
          XQ.fin (cfA f u₁ a₁ u₂ a₂)⟩ := by
  have w := cfuse_bwf f h₁ h₂ hnd
  rw [cfuse_fin (kap_pos h₁ h₂ hnd).ne' (fun hg => (cross_pos_of_guard h₁ h₂ hnd hg).ne') w.hs]
  exact tryNew_fin_ok w.hb w.hd w.hu w.hs w.ha0 w.ha1

/-- both uncertainties exactly 0: every quotient is `0/0 = NaN`; the constructor rejects the NaN base
    rate first.  Any rational masses and base rates. -/
theorem cfuse_dogmatic_error (b₁ d₁ a₁ b₂ d₂ a₂ : ℚ) :
    BOp.cfuse (⟨XQ.fin b₁, XQ.fin d₁, XQ.fin 0, XQ.fin a₁⟩ : BOp (XQ f))
        ⟨XQ.fin b₂, XQ.fin d₂, XQ.fin 0, XQ.fin a₂⟩ = .error .ba := by
  unfold BOp.cfuse
  simp only [isOne_and]
  have hg : ¬ (GV f 0 ∧ GV f 0) := fun h => not_GV_zero h.1
  have hz : ((XQ.fin 0 : XQ f) / XQ.fin 0) = XQ.nan := by
    show XQ.div (XQ.fin 0) (XQ.fin 0) = XQ.nan
    simp [XQ.div]
  simp only [hg, decide_false, Bool.false_eq_true, if_false, XQ.one_def, XQ.mul_fin, XQ.sub_fin,
    XQ.add_fin, mul_zero, add_zero, sub_zero, sub_self, mul_one, hz]
  rfl

/-! ### `afuse` -/

/-- both `is_zero`: the `γ`-weighted mean with `u := 0`, renormalised by the sum of its masses
    `s = 1 - (γu₁ + (1-γ)u₂) ∈ [1-ε, 1]` (repair df72a91: the result now adds up to exactly 1) -/
theorem afuse_fin_dog (h₁ : BWF b₁ d₁ u₁ a₁) (h₂ : BWF b₂ d₂ u₂ a₂) (hγ0 : 0 ≤ γ) (hγ1 : γ ≤ 1)
    (hd : GD f u₁ ∧ GD f u₂) :
    BOp.afuse (⟨XQ.fin b₁, XQ.fin d₁, XQ.fin u₁, XQ.fin a₁⟩ : BOp (XQ f))
        ⟨XQ.fin b₂, XQ.fin d₂, XQ.fin u₂, XQ.fin a₂⟩ (XQ.fin γ)
      = .ok ⟨XQ.fin (gmix γ b₁ b₂ / (1 - gmix γ u₁ u₂)), XQ.fin (gmix γ d₁ d₂ / (1 - gmix γ u₁ u₂)), XQ.fin 0,
          XQ.fin (gmix γ a₁ a₂)⟩ := by
  obtain ⟨g1, g2, g3, g4, g5, g6⟩ := gmix_facts h₁ h₂ hγ0 hγ1
  have gs := gmix_small h₁ h₂ hγ0 hγ1 hd
  have he := eps_lt f
  have hs : 0 < 1 - gmix γ u₁ u₂ := by linarith
  have g5' : γ * b₁ + (1 - γ) * b₂ + (γ * d₁ + (1 - γ) * d₂) + 0 = 1 - gmix γ u₁ u₂ := g5
  unfold BOp.afuse
  simp only [isZero_and, hd, and_self, decide_true, if_true, XQ.one_def, XQ.zero_def, XQ.mul_fin,
    XQ.sub_fin, XQ.add_fin, g5', XQ.div_fin _ _ hs.ne', zero_div]
  refine tryNew_fin_ok (div_nonneg g1 hs.le) (div_nonneg g2 hs.le) (le_refl _) ?_ g3 g4
  rw [add_zero, ← add_div, div_eq_one_iff_eq hs.ne']
  unfold gmix at g5 ⊢; linarith

/-- both exactly dogmatic (`u₁ = u₂ = 0`): `s = 1`, the `γ`-weighted mean itself -/
theorem afuse_fin_dog0 (h₁ : BWF b₁ d₁ 0 a₁) (h₂ : BWF b₂ d₂ 0 a₂) (hγ0 : 0 ≤ γ) (hγ1 : γ ≤ 1) :
    BOp.afuse (⟨XQ.fin b₁, XQ.fin d₁, XQ.fin 0, XQ.fin a₁⟩ : BOp (XQ f))
        ⟨XQ.fin b₂, XQ.fin d₂, XQ.fin 0, XQ.fin a₂⟩ (XQ.fin γ)
      = .ok ⟨XQ.fin (gmix γ b₁ b₂), XQ.fin (gmix γ d₁ d₂), XQ.fin 0, XQ.fin (gmix γ a₁ a₂)⟩ := by
  rw [afuse_fin_dog h₁ h₂ hγ0 hγ1 ⟨GD_zero, GD_zero⟩]
  have e : (1 : ℚ) - gmix γ 0 0 = 1 := by unfold gmix; ring
  rw [e, div_one, div_one]

/-- not both `is_zero`: the formula arm, divisor `u₁ + u₂ > 0` -/
theorem afuse_fin_formula (h₁ : BWF b₁ d₁ u₁ a₁) (h₂ : BWF b₂ d₂ u₂ a₂)
    (hd : ¬ (GD f u₁ ∧ GD f u₂)) (ga : XQ f) :
    BOp.afuse (⟨XQ.fin b₁, XQ.fin d₁, XQ.fin u₁, XQ.fin a₁⟩ : BOp (XQ f))
        ⟨XQ.fin b₂, XQ.fin d₂, XQ.fin u₂, XQ.fin a₂⟩ ga
      = .ok ⟨XQ.fin (afB b₁ u₁ b₂ u₂), XQ.fin (afB d₁ u₁ d₂ u₂), XQ.fin (afU u₁ u₂),
          XQ.fin ((a₁ + a₂) / 2)⟩ := by
  have hp := upu_pos h₁ h₂ hd
  have w := afuse_bwf h₁ h₂ hp
  rw [← tryNew_fin_ok w.hb w.hd w.hu w.hs w.ha0 w.ha1, ← norm_one w.hs]
  unfold BOp.afuse
  simp only [isZero_and, hd, decide_false, Bool.false_eq_true, if_false, XQ.two_def, XQ.mul_fin,
    XQ.add_fin, XQ.div_fin _ _ hp.ne', XQ.div_fin _ _ (two_ne_zero (α := ℚ))]
  rfl

/-! ### `wfuse` -/

theorem wfuse_fin_dog (h₁ : BWF b₁ d₁ u₁ a₁) (h₂ : BWF b₂ d₂ u₂ a₂) (hγ0 : 0 ≤ γ) (hγ1 : γ ≤ 1)
    (hd : GD f u₁ ∧ GD f u₂) :
    BOp.wfuse (⟨XQ.fin b₁, XQ.fin d₁, XQ.fin u₁, XQ.fin a₁⟩ : BOp (XQ f))
        ⟨XQ.fin b₂, XQ.fin d₂, XQ.fin u₂, XQ.fin a₂⟩ (XQ.fin γ)
      = .ok ⟨XQ.fin (gmix γ b₁ b₂ / (1 - gmix γ u₁ u₂)), XQ.fin (gmix γ d₁ d₂ / (1 - gmix γ u₁ u₂)), XQ.fin 0,
          XQ.fin (gmix γ a₁ a₂)⟩ := by
  obtain ⟨g1, g2, g3, g4, g5, g6⟩ := gmix_facts h₁ h₂ hγ0 hγ1
  have gs := gmix_small h₁ h₂ hγ0 hγ1 hd
  have he := eps_lt f
  have hs : 0 < 1 - gmix γ u₁ u₂ := by linarith
  have g5' : γ * b₁ + (1 - γ) * b₂ + (γ * d₁ + (1 - γ) * d₂) + 0 = 1 - gmix γ u₁ u₂ := g5
  unfold BOp.wfuse
  simp only [isZero_and, hd, and_self, decide_true, if_true, XQ.one_def, XQ.zero_def, XQ.mul_fin,
    XQ.sub_fin, XQ.add_fin, g5', XQ.div_fin _ _ hs.ne', zero_div]
  refine tryNew_fin_ok (div_nonneg g1 hs.le) (div_nonneg g2 hs.le) (le_refl _) ?_ g3 g4
  rw [add_zero, ← add_div, div_eq_one_iff_eq hs.ne']
  unfold gmix at g5 ⊢; linarith

theorem wfuse_fin_dog0 (h₁ : BWF b₁ d₁ 0 a₁) (h₂ : BWF b₂ d₂ 0 a₂) (hγ0 : 0 ≤ γ) (hγ1 : γ ≤ 1) :
    BOp.wfuse (⟨XQ.fin b₁, XQ.fin d₁, XQ.fin 0, XQ.fin a₁⟩ : BOp (XQ f))
        ⟨XQ.fin b₂, XQ.fin d₂, XQ.fin 0, XQ.fin a₂⟩ (XQ.fin γ)
      = .ok ⟨XQ.fin (gmix γ b₁ b₂), XQ.fin (gmix γ d₁ d₂), XQ.fin 0, XQ.fin (gmix γ a₁ a₂)⟩ := by
  rw [wfuse_fin_dog h₁ h₂ hγ0 hγ1 ⟨GD_zero, GD_zero⟩]
  have e : (1 : ℚ) - gmix γ 0 0 = 1 := by unfold gmix; ring
  rw [e, div_one, div_one]

/-- both `is_one` (and not both `is_zero`, which is automatic for values in [0,1]): the vacuous opinion
    with the mean base rate -/
theorem wfuse_fin_vac (h₁ : BWF b₁ d₁ u₁ a₁) (h₂ : BWF b₂ d₂ u₂ a₂)
    (hd : ¬ (GD f u₁ ∧ GD f u₂)) (hg : GV f u₁ ∧ GV f u₂) (ga : XQ f) :
    BOp.wfuse (⟨XQ.fin b₁, XQ.fin d₁, XQ.fin u₁, XQ.fin a₁⟩ : BOp (XQ f))
        ⟨XQ.fin b₂, XQ.fin d₂, XQ.fin u₂, XQ.fin a₂⟩ ga
      = .ok ⟨XQ.fin 0, XQ.fin 0, XQ.fin 1, XQ.fin ((a₁ + a₂) / 2)⟩ := by
  obtain ⟨a0, a1⟩ := mean_unit h₁ h₂
  unfold BOp.wfuse
  simp only [isZero_and, isOne_and, hd, hg, and_self, decide_false, decide_true, Bool.false_eq_true,
    if_false, if_true, XQ.one_def, XQ.zero_def, XQ.two_def, XQ.add_fin, zero_add, XQ.div_fin_one,
    XQ.div_fin _ _ (two_ne_zero (α := ℚ))]
  exact tryNew_fin_ok (le_refl _) (le_refl _) zero_le_one (by norm_num) a0 a1

theorem wfuse_fin_formula (h₁ : BWF b₁ d₁ u₁ a₁) (h₂ : BWF b₂ d₂ u₂ a₂)
    (hd : ¬ (GD f u₁ ∧ GD f u₂)) (hg : ¬ (GV f u₁ ∧ GV f u₂)) (ga : XQ f) :
    BOp.wfuse (⟨XQ.fin b₁, XQ.fin d₁, XQ.fin u₁, XQ.fin a₁⟩ : BOp (XQ f))
        ⟨XQ.fin b₂, XQ.fin d₂, XQ.fin u₂, XQ.fin a₂⟩ ga
      = .ok ⟨XQ.fin (wfB b₁ u₁ b₂ u₂), XQ.fin (wfB d₁ u₁ d₂ u₂), XQ.fin (wfU u₁ u₂),
          XQ.fin (wfA u₁ a₁ u₂ a₂)⟩ := by
  have hD : (1 - u₁) * u₂ + (1 - u₂) * u₁ ≠ 0 := (wfDen_pos h₁ h₂ hd hg).ne'
  have hC := (conf_pos h₁ h₂ hg).ne'
  have w := wfuse_bwf h₁ h₂ hd hg
  rw [← tryNew_fin_ok w.hb w.hd w.hu w.hs w.ha0 w.ha1, ← norm_one w.hs]
  unfold BOp.wfuse
  simp only [isZero_and, isOne_and, hd, hg, decide_false, Bool.false_eq_true, if_false, XQ.one_def,
    XQ.mul_fin, XQ.sub_fin, XQ.add_fin, XQ.div_fin _ _ hD, XQ.div_fin _ _ hC]
  rfl

end BOp
end SLV
