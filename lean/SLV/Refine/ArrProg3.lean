/-
  C17 programs, part 3: lemmas shared by the labelled kind instances.
-/
import SLV.Refine.ArrProg2

namespace SLV.MArr

variable {V : Type}

theorem idx1_eq (d0 : Nat) : idx1 d0 = lexList [d0] := (keys_lex d0 0 0).1
theorem idx2_eq (d0 d1 : Nat) : idx2 d0 d1 = lexList [d0, d1] := (keys_lex d0 d1 0).2.1
theorem idx3_eq (d0 d1 d2 : Nat) : idx3 d0 d1 d2 = lexList [d0, d1, d2] := (keys_lex d0 d1 d2).2.2

theorem fn1_map (d0 : Nat) (f : List Nat → Nat) : (keys d0).map (fn1 f) = (lexList [d0]).map f := by
  rw [← idx1_eq, idx1, List.map_map]; rfl
theorem fn2_map (d0 d1 : Nat) (f : List Nat → Nat) : (keysD2 d0 d1).map (fn2 f) = (lexList [d0, d1]).map f := by
  rw [← idx2_eq, idx2, List.map_map]; rfl
theorem fn3_map (d0 d1 d2 : Nat) (f : List Nat → Nat) :
    (keysD3 d0 d1 d2).map (fn3 f) = (lexList [d0, d1, d2]).map f := by
  rw [← idx3_eq, idx3, List.map_map]; rfl

/-! ### out-of-shape indices, labelled -/

theorem L1.oob {d0 : Nat} {a : MArrD1 V} (h : Shape1 d0 a.toU) (i : Nat) (hi : ¬ i < d0) (v : V) :
    a.index i = none ∧ a.indexMut i v = none := by
  have := U1.oob h i hi v
  rw [← L1.index_toU, ← L1.indexMut_toU] at this
  exact ⟨this.1, by simpa using this.2⟩

theorem L2.oob {d0 d1 : Nat} {a : MArrD2 V} (h : Shape2 d0 d1 a.toU) (i j : Nat) (hij : ¬ (i < d0 ∧ j < d1))
    (v : V) : a.index i j = none ∧ a.indexMut i j v = none := by
  have := U2.oob h i j hij v
  rw [← L2.index_toU, ← L2.indexMut_toU] at this
  exact ⟨this.1, by simpa using this.2⟩

theorem L3.oob {d0 d1 d2 : Nat} {a : MArrD3 V} (h : Shape3 d0 d1 d2 a.toU) (i j k : Nat)
    (hijk : ¬ (i < d0 ∧ j < d1 ∧ k < d2)) (v : V) : a.index i j k = none ∧ a.indexMut i j k v = none := by
  have := U3.oob h i j k hijk v
  rw [← L3.index_toU, ← L3.indexMut_toU] at this
  exact ⟨this.1, by simpa using this.2⟩

/-! ### dumps -/

theorem L1.dump_eq {d0 : Nat} {a : MArrD1 Nat} (h : Shape1 d0 a.toU) : L1.dump d0 a = specDump (flat1 a.toU) := by
  have hl : (lexList [d0]).length = (flat1 a.toU).length := by rw [flat1_length h]; simp [lexList_length]
  refine mkDump_eq sliceLL trivial rfl (Nat.le_refl _) ?_
  rw [idx1_eq, L1.idx_eq, L1.idx'_toU]
  exact mapM_getElem _ _ _ hl (U1.idx_lex h)

theorem L2.dump_eq {d0 d1 : Nat} {a : MArrD2 Nat} (h : Shape2 d0 d1 a.toU) :
    L2.dump d0 d1 a = specDump (flat2 a.toU) := by
  obtain ⟨hg, hc⟩ := L2.iter_init h
  have hl : (lexList [d0, d1]).length = (flat2 a.toU).length := by rw [flat2_length h]; simp [lexList_length]
  refine mkDump_eq (L2.LL d1) hg hc (by rw [flat2_length h, cellCount2 h]) ?_
  rw [idx2_eq, L2.idx_eq, L2.idx'_toU]
  exact mapM_getElem _ _ _ hl (U2.idx_lex h)

theorem L3.dump_eq {d0 d1 d2 : Nat} {a : MArrD3 Nat} (h : Shape3 d0 d1 d2 a.toU) :
    L3.dump d0 d1 d2 a = specDump (flat3 a.toU) := by
  obtain ⟨hg, hc⟩ := L3.iter_init h
  have hl : (lexList [d0, d1, d2]).length = (flat3 a.toU).length := by
    rw [flat3_length h]; simp [lexList_length, Nat.mul_assoc]
  refine mkDump_eq (L3.LL d1 d2) hg hc (by rw [flat3_length h, cellCount3 h]) ?_
  rw [idx3_eq, L3.idx_eq, L3.idx'_toU]
  exact mapM_getElem _ _ _ hl (U3.idx_lex h)

/-! ### `from_multi_iter` succeeds exactly on nested input of the declared shape -/

theorem mapPanic_ok {A B : Type} (f : A → Option B) (g : A → B) : ∀ l : List A,
    (∀ x ∈ l, f x = some (g x)) → mapPanic f l = some (l.map g) := by
  intro l
  induction l with
  | nil => intro _; rfl
  | cons x xs ih =>
    intro h
    simp [mapPanic, h x (by simp), ih (fun y hy => h y (List.mem_cons_of_mem _ hy))]

theorem L2.fromMultiIter_ok {d0 d1 : Nat} {v : List (List V)} (h : Shape2 d0 d1 v) :
    MArrD2.fromMultiIter d0 d1 v = some ⟨⟨v.map MArrD1.mk⟩⟩ := by
  have := mapPanic_ok (MArrD1.fromIter d1) MArrD1.mk v
    (fun r hr => by simp [MArrD1.fromIter, MArrD1.new, h.2 r hr])
  simp [MArrD2.fromMultiIter, this, MArrD1.fromIter, MArrD1.new, h.1]

theorem L2.fromMultiIter_none {d0 d1 : Nat} {v : List (List V)} (h : ¬ Shape2 d0 d1 v) :
    MArrD2.fromMultiIter d0 d1 v = none := by
  cases hm : MArrD2.fromMultiIter d0 d1 v with
  | none => rfl
  | some a =>
    obtain ⟨h1, h2⟩ := L2.fromMultiIter_shape hm
    exact absurd (h2 ▸ h1) h

theorem L3.fromMultiIter_ok {d0 d1 d2 : Nat} {v : List (List (List V))} (h : Shape3 d0 d1 d2 v) :
    MArrD3.fromMultiIter d0 d1 d2 v = some ⟨⟨v.map fun p => ⟨⟨p.map MArrD1.mk⟩⟩⟩⟩ := by
  have := mapPanic_ok (MArrD2.fromMultiIter d1 d2) (fun p => (⟨⟨p.map MArrD1.mk⟩⟩ : MArrD2 V)) v
    (fun p hp => L2.fromMultiIter_ok (h.2 p hp))
  simp [MArrD3.fromMultiIter, this, MArrD1.fromIter, MArrD1.new, h.1]

theorem L3.fromMultiIter_none {d0 d1 d2 : Nat} {v : List (List (List V))} (h : ¬ Shape3 d0 d1 d2 v) :
    MArrD3.fromMultiIter d0 d1 d2 v = none := by
  cases hm : MArrD3.fromMultiIter d0 d1 d2 v with
  | none => rfl
  | some a =>
    obtain ⟨h1, h2⟩ := L3.fromMultiIter_shape hm
    exact absurd (h2 ▸ h1) h

theorem toU_mk2 (v : List (List V)) : (MArrD2.mk ⟨v.map MArrD1.mk⟩).toU = v := by
  show (v.map MArrD1.mk).map MArrD1.toU = v
  rw [List.map_map]; exact map_eq_self _ (fun _ => rfl) v

theorem toU_mk3 (v : List (List (List V))) :
    (MArrD3.mk ⟨v.map fun p => ⟨⟨p.map MArrD1.mk⟩⟩⟩).toU = v := by
  show (v.map fun p => (⟨⟨p.map MArrD1.mk⟩⟩ : MArrD2 V)).map MArrD2.toU = v
  rw [List.map_map]; exact map_eq_self _ (fun p => toU_mk2 p) v

/-! ### a successful labelled `try_from` has the declared shape -/

theorem collectT_ok {T A E : Type} (f : T → TRes E A) : ∀ (l : List T) (as : List A),
    collectT f l = .ok as → List.Forall₂ (fun x a => f x = .ok a) l as := by
  intro l
  induction l with
  | nil => intro as h; simp [collectT] at h; subst h; exact List.Forall₂.nil
  | cons x xs ih =>
    intro as h
    simp only [collectT] at h
    cases hx : f x with
    | err e => simp [hx] at h
    | panic => simp [hx] at h
    | ok a =>
      simp only [hx] at h
      cases hr : collectT f xs with
      | err e => simp [hr] at h
      | panic => simp [hr] at h
      | ok as' =>
        simp only [hr] at h
        cases h
        exact List.Forall₂.cons hx (ih as' hr)

theorem L1.tryFrom_ok_shape {T U E : Type} {cv : T → Except E U} {d0 : Nat} {v : List T} {a : MArrD1 U}
    (h : MArrD1.tryFrom cv d0 v = .ok a) : Shape1 d0 a.toU := by
  unfold MArrD1.tryFrom at h
  cases ht : tryCells cv v with
  | error e => simp [ht] at h
  | ok us =>
    simp only [ht] at h
    cases hn : MArrD1.new d0 us with
    | none => simp [hn] at h
    | some a' => simp [hn] at h; subst h; exact (L1.new_shape hn).1

theorem L2.tryFrom_ok_shape {T U E : Type} {cv : T → Except E U} {d0 d1 : Nat} {v : List (List T)}
    {a : MArrD2 U} (h : MArrD2.tryFrom cv d0 d1 v = .ok a) : Shape2 d0 d1 a.toU := by
  unfold MArrD2.tryFrom at h
  cases ht : collectT (MArrD1.tryFrom cv d1) v with
  | err e => simp [ht] at h
  | panic => simp [ht] at h
  | ok rows =>
    simp only [ht] at h
    cases hn : MArrD2.new d0 rows with
    | none => simp [hn] at h
    | some a' =>
      simp [hn] at h; subst h
      exact L2.new_shape (forall₂_right (fun _ _ hxr => L1.tryFrom_ok_shape hxr) (collectT_ok _ v rows ht)) hn

theorem L3.tryFrom_ok_shape {T U E : Type} {cv : T → Except E U} {d0 d1 d2 : Nat} {v : List (List (List T))}
    {a : MArrD3 U} (h : MArrD3.tryFrom cv d0 d1 d2 v = .ok a) : Shape3 d0 d1 d2 a.toU := by
  unfold MArrD3.tryFrom at h
  cases ht : collectT (MArrD2.tryFrom cv d1 d2) v with
  | err e => simp [ht] at h
  | panic => simp [ht] at h
  | ok ps =>
    simp only [ht] at h
    cases hn : MArrD3.new d0 ps with
    | none => simp [hn] at h
    | some a' =>
      simp [hn] at h; subst h
      exact L3.new_shape (forall₂_right (fun _ _ hxr => L2.tryFrom_ok_shape hxr) (collectT_ok _ v ps ht)) hn

/-- what the harness prints for a converted labelled array = its flat list -/
theorem L1.dump_it {d0 : Nat} {a : MArrD1 Nat} (h : Shape1 d0 a.toU) : (L1.dump d0 a).it = a.inner := by
  rw [L1.dump_eq h]; rfl
theorem L2.dump_it {d0 d1 : Nat} {a : MArrD2 Nat} (h : Shape2 d0 d1 a.toU) :
    (L2.dump d0 d1 a).it = (a.inner.inner.map (·.inner)).flatten := by
  rw [L2.dump_eq h]; rfl
theorem L3.dump_it {d0 d1 d2 : Nat} {a : MArrD3 Nat} (h : Shape3 d0 d1 d2 a.toU) :
    (L3.dump d0 d1 d2 a).it = ((a.inner.inner.map fun p => p.inner.inner.map (·.inner)).flatten).flatten := by
  rw [L3.dump_eq h, flat3_eq]; rfl

end SLV.MArr
