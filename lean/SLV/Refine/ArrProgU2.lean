/-
  C17 programs: the unlabelled rank-2 kind refines the flat specification.
-/
import SLV.Refine.ArrProg2

namespace SLV.MArr

def RU2 (k0 k1 : Nat) (a : MArr2 Nat) (fl : List Nat) : Prop := Shape2 k0 k1 a ∧ flat2 a = fl

theorem cells2_eq {k0 k1 : Nat} {a : MArr2 Nat} (h : Shape2 k0 k1 a) : cells2 a = k0 * k1 := by
  rw [cells2, ← List.length_flatten]; exact flat2_length h

theorem U2.dump_eq {k0 k1 : Nat} {a : MArr2 Nat} {fl : List Nat} (h : RU2 k0 k1 a fl) :
    (kindU2 k0 k1).dump a = specDump fl := by
  obtain ⟨hs, hf⟩ := h
  obtain ⟨hg, hc⟩ := U2.iter_init hs
  have hl : (lexList [k0, k1]).length = (flat2 a).length := by rw [flat2_length hs]; simp [lexList_length]
  refine mkDump_eq (U2.LL k1) hg (hc.trans hf) (by rw [← hf, flat2_length hs, cells2_eq hs]) ?_
  rw [toList_eq_lexList, U2.idx_eq, ← hf]
  exact mapM_getElem _ _ _ hl (U2.idx_lex hs)

theorem shape2_of_all {k0 k1 : Nat} {v : List (List Nat)} (h0 : v.length = k0)
    (h1 : (v.all fun r => r.length == k1) = true) : Shape2 k0 k1 v :=
  ⟨h0, fun r hr => by simpa using List.all_eq_true.mp h1 r hr⟩

theorem refinesU2 (k0 k1 : Nat) : Refines (kindU2 k0 k1) (kindSpec false false [k0, k1]) (RU2 k0 k1) where
  labelled := rfl
  newtype := rfl
  dims := rfl
  zeros := ⟨(U2.zeros_ok 0 k0 k1).1, by rw [(U2.zeros_ok 0 k0 k1).2]; simp [prodDims]⟩
  dflt := ⟨(U2.zeros_ok 0 k0 k1).1, by rw [(U2.zeros_ok 0 k0 k1).2]; simp [prodDims]⟩
  fromFn f := by
    obtain ⟨a, h1, h2, h3⟩ := U2.fromFn_ok k0 k1 f
    exact OutR.ofOpt_some h1 ⟨h2, h3⟩
  fromIter v _ := by
    have hS : (kindSpec false false [k0, k1]).fromIter v =
        if k0 * k1 ≤ v.length then .ok (v.take (k0 * k1)) else .panic := by simp [kindSpec, prodDims]
    rw [hS]
    by_cases h : k0 * k1 ≤ v.length
    · obtain ⟨a, h1, h2, h3⟩ := U2.fromIter_ok k0 k1 v h
      rw [if_pos h]; exact OutR.ofOpt_some h1 ⟨h2, h3⟩
    · rw [if_neg h]; exact OutR.ofOpt_none (U2.fromIter_short k0 k1 v (by omega))
  fromNested t hne := by
    cases t with
    | n1 v => simp [kindSpec, kindU2, Nested.rank, OutR]
    | n3 v => simp [kindSpec, kindU2, Nested.rank, OutR]
    | n2 rows =>
      by_cases h0 : rows.length = k0
      · by_cases h1 : (rows.all fun r => r.length == k1) = true
        · have hS : (kindSpec false false [k0, k1]).fromNested (.n2 rows) = .ok (flatten2 rows) := by
            simp [kindSpec, Nested.rank, Nested.outerOk, Nested.innerOk, h0, Nested.flat]
            simpa using h1
          rw [hS]
          simp only [kindU2, h0, if_true]
          rw [show rows.map MArr1.fromIter = rows from map_eq_self _ (fun _ => rfl) rows]
          exact ⟨shape2_of_all h0 h1, rfl⟩
        · exfalso; apply hne
          simp [kindSpec, Nested.rank, Nested.outerOk, Nested.innerOk, h0]
          simpa using h1
      · simp [kindSpec, kindU2, Nested.rank, Nested.outerOk, h0, OutR]
  index a fl idx h := by
    obtain ⟨hs, hf⟩ := h
    match idx with
    | [] => simp [kindSpec, kindU2]
    | [_] => simp [kindSpec, kindU2]
    | _ :: _ :: _ :: _ => simp [kindSpec, kindU2]
    | [i, j] =>
      by_cases hij : i < k0 ∧ j < k1
      · simp [kindSpec, kindU2, inShape, hij.1, hij.2, U2.index_eq hs i j hij.2, hf]
      · have := (U2.oob hs i j hij 0).1
        have hsh : inShape [k0, k1] [i, j] = false := by
          simp [inShape]; omega
        simp [kindSpec, kindU2, this, hsh, Out.ofOpt]
  indexMut a fl idx v h := by
    obtain ⟨hs, hf⟩ := h
    match idx with
    | [] => simp [kindSpec, kindU2, OutR]
    | [_] => simp [kindSpec, kindU2, OutR]
    | _ :: _ :: _ :: _ => simp [kindSpec, kindU2, OutR]
    | [i, j] =>
      by_cases hij : i < k0 ∧ j < k1
      · obtain ⟨a', h1, h2, h3⟩ := U2.write hs i j hij.1 hij.2 v
        have hS : (kindSpec false false [k0, k1]).indexMut fl [i, j] v = .ok (fl.set (i * k1 + j) v) := by
          simp [kindSpec, inShape, hij.1, hij.2]
        rw [hS]
        exact OutR.ofOpt_some h1 ⟨h2, by rw [h3, hf]⟩
      · have := (U2.oob hs i j hij v).2
        have hsh : inShape [k0, k1] [i, j] = false := by
          simp [inShape]; omega
        have hS : (kindSpec false false [k0, k1]).indexMut fl [i, j] v = .panic := by
          simp [kindSpec, hsh]
        rw [hS]
        exact OutR.ofOpt_none this
  dump a fl h := U2.dump_eq h
  iterMutAdd a fl c _ := by simp [kindSpec, kindU2, OutR]
  downDump a fl i _ := by simp [kindSpec, kindU2]
  downMutSet a fl i idx v _ := by simp [kindSpec, kindU2, OutR]
  downMutFn a fl i f _ := by simp [kindSpec, kindU2, OutR]
  beq a fl b fl' ha hb := by
    show (a == b) = (fl == fl')
    rw [Bool.eq_iff_iff, beq_iff_eq, beq_iff_eq, ← ha.2, ← hb.2]
    exact ⟨fun h => h ▸ rfl, ha.1.eq_of_flat hb.1⟩
  clone a fl h := h
  conv a fl _ := by simp [kindSpec, kindU2]
  asRef a fl _ := by simp [kindSpec, kindU2]
  product ws := by
    match ws with
    | [] => simp [kindSpec, kindU2, specProduct, OutR]
    | [_] => simp [kindSpec, kindU2, specProduct, OutR]
    | _ :: _ :: _ :: _ => simp [kindSpec, kindU2, specProduct, OutR]
    | [w0, w1] =>
      by_cases hl : w0.length = k0 ∧ w1.length = k1
      · obtain ⟨a, h1, h2, h3⟩ := U2.product_ok mulU 0 w0 w1
        have hS : (kindSpec false false [k0, k1]).product [w0, w1] = .ok (outerList [w0, w1]) := by
          simp [kindSpec, specProduct, hl.1, hl.2]
        rw [hS]
        simp only [kindU2, hl, and_self, if_true]
        rw [hl.1, hl.2] at h2
        exact OutR.ofOpt_some h1 ⟨h2, by rw [h3]; rfl⟩
      · have hS : (kindSpec false false [k0, k1]).product [w0, w1] = .na := by
          simp [kindSpec, specProduct]; intro h0; exact fun h1 => hl ⟨h0, h1⟩
        rw [hS]
        simp [kindU2, hl, OutR]
  productIter ws := by simp [kindSpec, kindU2]
  tryFrom t := by
    cases t with
    | n1 v => simp [kindSpec, kindU2, Nested.rank]
    | n3 v => simp [kindSpec, kindU2, Nested.rank]
    | n2 v =>
      by_cases hsh : v.length = k0 ∧ ∀ r ∈ v, r.length = k1
      · have hb : (v.all fun r => r.length == k1) = true := by simpa using hsh.2
        have hshape : Shape2 k0 k1 v := hsh
        have hS : (kindSpec false false [k0, k1]).tryFrom (.n2 v) = firstErr (flat2 v) := by
          simp [kindSpec, Nested.rank, Nested.shapeOk, Nested.outerOk, Nested.innerOk, hsh.1, Nested.flat,
            flatten2, flat2]
          intro x hx hc; exact absurd (hsh.2 x hx) hc
        rw [hS, firstErr_eq]
        simp only [kindU2, hsh.1, hb, and_self, if_true, tryFrom2_even]
        cases hfe : firstErrE (flat2 v) with
        | error e => rfl
        | ok l =>
          obtain ⟨hg, hc⟩ := U2.iter_init hshape
          obtain ⟨s', h1, _⟩ := (U2.LL k1).drain (cells2 v + 1) (MArr2.iter v) hg
            (by rw [hc, flat2_length hshape, cells2_eq hshape]; omega)
          have hl : l = flat2 v := by
            unfold firstErrE at hfe
            cases hfind : (flat2 v).find? (fun v => v % 2 == 1) with
            | some x => simp [hfind] at hfe
            | none => simp [hfind] at hfe; exact hfe.symm
          simp [onOk, exceptOut, Out.map, h1, hc, hl]
      · have hS : (kindSpec false false [k0, k1]).tryFrom (.n2 v) = .na := by
          simp [kindSpec, Nested.rank, Nested.shapeOk, Nested.outerOk, Nested.innerOk]
          intro h0 h1; exact absurd ⟨h0, h1⟩ hsh
        rw [hS]
        simp [kindU2]
        intro h0 h1; exact absurd ⟨h0, h1⟩ hsh
  iterWith a fl h := by
    obtain ⟨hs, hf⟩ := h
    have hl : (lexList [k0, k1]).length = (flat2 a).length := by rw [flat2_length hs]; simp [lexList_length]
    have := iterWith_of _ _ _ hl (U2.idx_lex hs)
    simp [kindU2, kindSpec, mkIterWith, toList_eq_lexList, U2.idx_eq, this, Out.ofOpt, hf]
  indexes := mrEnum_eq _
  keys := rfl
  len := by simp [kindU2, kindSpec, prodDims]
  resumeIdx := mrResume_eq _
  resumeKeys := rfl

end SLV.MArr
