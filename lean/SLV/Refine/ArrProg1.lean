/-
  C17 programs, part 1: a generic simulation theorem.  If every operation of a kind `K` refines the corresponding
  operation of the flat specification `S` through an abstraction relation `R`, then every program without a
  ragged-storage constructor produces the same observation trace on `K` and on `S`.
-/
import SLV.Refine.ArrLemmas8

namespace SLV.MArr

/-- outcomes related through the abstraction (`unspec` is related to nothing) -/
def OutR {A : Type} (R : A → List Nat → Prop) : Out A → Out (List Nat) → Prop
  | .ok a, .ok fl => R a fl
  | .panic, .panic => True
  | .na, .na => True
  | .err e, .err e' => e = e'
  | _, _ => False

theorem OutR.ofOpt_some {A : Type} {R : A → List Nat → Prop} {o : Option A} {a : A} {fl : List Nat}
    (h : o = some a) (hr : R a fl) : OutR R (Out.ofOpt o) (.ok fl) := by subst h; exact hr
theorem OutR.ofOpt_none {A : Type} {R : A → List Nat → Prop} {o : Option A} (h : o = none) :
    OutR R (Out.ofOpt o) .panic := by subst h; trivial

structure Refines {A : Type} (K : Kind A) (S : Kind (List Nat)) (R : A → List Nat → Prop) : Prop where
  labelled : K.labelled = S.labelled
  newtype : K.newtype = S.newtype
  dims : K.dims = S.dims
  zeros : OutR R K.zeros S.zeros
  dflt : OutR R K.dflt S.dflt
  fromFn : ∀ f, OutR R (K.fromFn f) (S.fromFn f)
  fromIter : ∀ v, S.fromIter v ≠ .unspec → OutR R (K.fromIter v) (S.fromIter v)
  fromNested : ∀ t, S.fromNested t ≠ .unspec → OutR R (K.fromNested t) (S.fromNested t)
  index : ∀ a fl idx, R a fl → K.index a idx = S.index fl idx
  indexMut : ∀ a fl idx v, R a fl → OutR R (K.indexMut a idx v) (S.indexMut fl idx v)
  dump : ∀ a fl, R a fl → K.dump a = S.dump fl
  iterMutAdd : ∀ a fl c, R a fl → OutR R (K.iterMutAdd c a) (S.iterMutAdd c fl)
  downDump : ∀ a fl i, R a fl → K.downDump a i = S.downDump fl i
  downMutSet : ∀ a fl i idx v, R a fl → OutR R (K.downMutSet a i idx v) (S.downMutSet fl i idx v)
  downMutFn : ∀ a fl i f, R a fl → OutR R (K.downMutFn a i f) (S.downMutFn fl i f)
  beq : ∀ a fl b fl', R a fl → R b fl' → K.beq a b = S.beq fl fl'
  clone : ∀ a fl, R a fl → R (K.clone a) (S.clone fl)
  conv : ∀ a fl, R a fl → K.conv a = S.conv fl
  asRef : ∀ a fl, R a fl → K.asRef a = S.asRef fl
  product : ∀ ws, OutR R (K.product ws) (S.product ws)
  productIter : ∀ ws, K.productIter ws = S.productIter ws
  tryFrom : ∀ t, K.tryFrom t = S.tryFrom t
  iterWith : ∀ a fl, R a fl → K.iterWith a = S.iterWith fl
  indexes : K.indexes = S.indexes
  keys : K.keys = S.keys
  len : K.len = S.len
  resumeIdx : K.resumeIdx = S.resumeIdx
  resumeKeys : K.resumeKeys = S.resumeKeys

/-- the op does not take the specification out of its domain (no ragged unlabelled storage is built) -/
def Op.safe (S : Kind (List Nat)) : Op → Prop
  | .flat v => S.fromIter v ≠ .unspec
  | .nest t => S.fromNested t ≠ .unspec
  | _ => True

/-- related states -/
def StR {A : Type} (R : A → List Nat → Prop) (s : St A) (t : St (List Nat)) : Prop := R s.a t.a ∧ R s.b t.b

theorem setA_sim {A : Type} {K : Kind A} {S : Kind (List Nat)} {R : A → List Nat → Prop} (h : Refines K S R)
    {s : St A} {t : St (List Nat)} (hs : StR R s t) {o : Out A} {o' : Out (List Nat)} (ho : OutR R o o') :
    (K.setA s o).2 = (S.setA t o').2 ∧ StR R (K.setA s o).1 (S.setA t o').1 := by
  cases o <;> cases o' <;> simp only [OutR] at ho
  · exact ⟨by simp [Kind.setA, h.dump _ _ ho], ho, hs.2⟩
  · exact ⟨rfl, hs⟩
  · exact ⟨rfl, hs⟩
  · subst ho; exact ⟨rfl, hs⟩

theorem step_sim {A : Type} {K : Kind A} {S : Kind (List Nat)} {R : A → List Nat → Prop} (h : Refines K S R)
    {s : St A} {t : St (List Nat)} (hs : StR R s t) (op : Op) (hop : op.safe S) :
    (K.step s op).2 = (S.step t op).2 ∧ StR R (K.step s op).1 (S.step t op).1 := by
  cases op <;> simp only [Kind.step]
  case zeros => exact setA_sim h hs h.zeros
  case dflt => exact setA_sim h hs h.dflt
  case fn seed => exact setA_sim h hs (h.fromFn _)
  case flat v => exact setA_sim h hs (h.fromIter v hop)
  case nest t' => exact setA_sim h hs (h.fromNested t' hop)
  case get idx => exact ⟨by rw [h.index _ _ idx hs.1], hs⟩
  case set idx v => exact setA_sim h hs (h.indexMut _ _ idx v hs.1)
  case imadd c => exact setA_sim h hs (h.iterMutAdd _ _ c hs.1)
  case dmset i idx v => exact setA_sim h hs (h.downMutSet _ _ i idx v hs.1)
  case dmfn i seed => exact setA_sim h hs (h.downMutFn _ _ i _ hs.1)
  case down i => exact ⟨by rw [h.downDump _ _ i hs.1], hs⟩
  case clone =>
    have hc := h.clone _ _ hs.1
    exact ⟨by simp [h.dump _ _ hc], hs.1, hc⟩
  case eq => exact ⟨by rw [h.beq _ _ _ _ hs.1 hs.2], hs⟩
  case swap => exact ⟨trivial, hs.2, hs.1⟩
  case conv => exact ⟨by rw [h.conv _ _ hs.1], hs⟩
  case asref => exact ⟨by rw [h.asRef _ _ hs.1], hs⟩
  case prod ws => exact setA_sim h hs (h.product ws)
  case prodit ws => exact ⟨by rw [h.productIter ws], hs⟩
  case tryf t' => exact ⟨by rw [h.tryFrom t'], hs⟩
  case iter => exact ⟨by rw [h.dump _ _ hs.1], hs⟩
  case index => exact ⟨by rw [h.dump _ _ hs.1], hs⟩
  case iterWith => exact ⟨by rw [h.iterWith _ _ hs.1], hs⟩
  case indexes => exact ⟨by rw [h.indexes], hs⟩
  case keys => exact ⟨by rw [h.keys], hs⟩
  case dkeys => exact ⟨by rw [h.labelled, h.newtype, h.dims], hs⟩
  case len => exact ⟨by rw [h.len], hs⟩
  case resume k => exact ⟨by rw [h.dims, h.resumeIdx, h.resumeKeys], hs⟩
  case bad => exact ⟨trivial, hs⟩

theorem go_sim {A : Type} {K : Kind A} {S : Kind (List Nat)} {R : A → List Nat → Prop} (h : Refines K S R) :
    ∀ (prog : List Op) (s : St A) (t : St (List Nat)), StR R s t → (∀ op ∈ prog, op.safe S) →
      K.go s prog = S.go t prog := by
  intro prog
  induction prog with
  | nil => intro _ _ _ _; rfl
  | cons op ops ih =>
    intro s t hs hsafe
    obtain ⟨h1, h2⟩ := step_sim h hs op (hsafe op (by simp))
    simp only [Kind.go, h1]
    rw [ih _ _ h2 (fun o ho => hsafe o (List.mem_cons_of_mem _ ho))]

theorem staticToks_sim {A : Type} {K : Kind A} {S : Kind (List Nat)} {R : A → List Nat → Prop} (h : Refines K S R)
    (op : Op) : K.staticToks op = S.staticToks op := by
  cases op <;> simp [Kind.staticToks, h.indexes, h.keys, h.labelled, h.newtype, h.dims, h.resumeIdx, h.resumeKeys]

/-- every safe program has the same observation trace on the kind and on the flat specification -/
theorem run_sim {A : Type} {K : Kind A} {S : Kind (List Nat)} {R : A → List Nat → Prop} (h : Refines K S R)
    (prog : List Op) (hsafe : ∀ op ∈ prog, op.safe S) : K.run prog = S.run prog := by
  have hz := h.zeros
  unfold Kind.run
  cases hk : K.zeros <;> cases hsz : S.zeros <;> rw [hk, hsz] at hz <;> simp only [OutR] at hz
  · exact go_sim h prog _ _ ⟨hz, hz⟩ hsafe
  all_goals simp [staticToks_sim h]

end SLV.MArr
