/-
  Helper lemmas for C14 (binomial deduction, `BOp.deduce` / `BOp.deduceK`, src/bi.rs:259-346).
  * rational closed forms (`mixq`, `pyxq`, `rII`, `rIII`, `Kq`) and their algebra;
  * the lift of `deduceK` (repair b163717: `k = 0` in Case I, `k = min ka kb` in Case II / III) on finite inputs with
    `0 < ay < 1` -- the only divisors are `ay` and `1 - ay` --, per case and per active bound (`Kq_tie`: the closed form
    `Kq` is 0 at a tie).  The lift of the earlier nine-branch operator is in SLV/Refine/C14Nine.lean;
  * acceptance of the result by the checked constructor.  Since repair d46c983 `deduce` divides `(b, d, u)` by
    `s = b + d + u` before the checked constructor; `s = bI + dI + uI` whatever the correction term (`ay k + (1-ay) k = k`
    cancels), which is 1 when antecedent and conditionals add up to 1 (`mixq_sum`): one lifting step `BOp.norm_one`
    (`deduce_fin_of_K`), the closed forms are the ones of the un-normalised operator.  Since repair cf81fd9 the belief and
    the disbelief are clamped at zero before that division; on the domain both are `≥ 0` (`res_nonneg`), so the clamp is the
    identity (`XQ.clamp_fin_nonneg`); `deduce_notNeg` / `deduce_ok_wf`: what the clamp guarantees for ALL operands.
  No property statements here.
-/
import SLV.Props.C10
import SLV.Refine.C19Lemmas
import SLV.Refine.ClampLemmas
import Mathlib.Order.Lattice
import Mathlib.Algebra.Order.Field.Basic

namespace SLV
open Scalar
open SLV.Props.C10 (BWF)

variable {f : Fmt}

/-- well-formed rational binomial simplex (a conditional opinion `y|x` without base rate) -/
structure SWF3 (b d u : ℚ) : Prop where
  hb : 0 ≤ b
  hd : 0 ≤ d
  hu : 0 ≤ u
  hs : b + d + u = 1

/-- the open domain of C14: antecedent `(b,d,u;a)` well-formed with `0 < a < 1` and projected probability
    `0 < b + a u < 1`; conditionals `(b0,d0,u0)` for `y|x` and `(b1,d1,u1)` for `y|¬x` well-formed;
    consequent base rate `0 < ay < 1`. -/
structure Dom14 (b d u a b0 d0 u0 b1 d1 u1 ay : ℚ) : Prop where
  x : BWF b d u a
  ha0 : 0 < a
  ha1 : a < 1
  hP0 : 0 < b + a * u
  hP1 : b + a * u < 1
  c0 : SWF3 b0 d0 u0
  c1 : SWF3 b1 d1 u1
  hy0 : 0 < ay
  hy1 : ay < 1

/-- lifted binomial opinion -/
abbrev liftB (b d u a : ℚ) : BOp (XQ f) := ⟨XQ.fin b, XQ.fin d, XQ.fin u, XQ.fin a⟩
/-- lifted binomial simplex -/
abbrev liftS (b d u : ℚ) : XQ f × XQ f × XQ f := (XQ.fin b, XQ.fin d, XQ.fin u)

/-- `bi`, `di`, `ui` of the Rust text: `x0`, `x1` the component of `y|x`, `y|¬x` -/
def mixq (b d u a x0 x1 : ℚ) : ℚ := b * x0 + d * x1 + u * (x0 * a + x1 * (1 - a))

/-- `pyx` of the Rust text -/
def pyxq (a b0 u0 b1 u1 ay : ℚ) : ℚ := b0 * a + b1 * (1 - a) + ay * (u0 * a + u1 * (1 - a))
/-- the threshold `r` when `b0 > b1` (Case II) -/
def rII (d0 b1 ay : ℚ) : ℚ := b1 + ay * (1 - b1 - d0)
/-- the threshold `r` otherwise (Case III) -/
def rIII (b0 d1 ay : ℚ) : ℚ := b0 + ay * (1 - b0 - d1)

/-- closed form of the correction term `k`:
    Case I (`b0 > b1` and `d0 > d1` agree): 0;
    Case II: `u · min (a (b0-b1)/ay) ((1-a)(d1-d0)/(1-ay))` (the first entry is the A-form, the second the
    B-form); Case III: `u · min ((1-a)(b1-b0)/ay) (a (d0-d1)/(1-ay))`. -/
def Kq (u a b0 d0 b1 d1 ay : ℚ) : ℚ :=
  if (b1 < b0 ↔ d1 < d0) then 0
  else if b1 < b0 then u * min (a * (b0 - b1) / ay) ((1 - a) * (d1 - d0) / (1 - ay))
  else u * min ((1 - a) * (b1 - b0) / ay) (a * (d0 - d1) / (1 - ay))

variable {b d u a b0 d0 u0 b1 d1 u1 ay : ℚ}

/-! ### algebra -/

theorem mixq_eq (hs : b + d + u = 1) (x0 x1 : ℚ) :
    mixq b d u a x0 x1 = (b + a * u) * x0 + (1 - (b + a * u)) * x1 := by
  have e : d = 1 - b - u := by linarith
  subst e; unfold mixq; ring

theorem mixq_nonneg (hx : BWF b d u a) {x0 x1 : ℚ} (h0 : 0 ≤ x0) (h1 : 0 ≤ x1) :
    0 ≤ mixq b d u a x0 x1 := by
  unfold mixq
  have := hx.hb; have := hx.hd; have := hx.hu; have := hx.ha0
  have : 0 ≤ 1 - a := sub_nonneg.mpr hx.ha1
  positivity

theorem mixq_sum (hx : b + d + u = 1) (h0 : b0 + d0 + u0 = 1) (h1 : b1 + d1 + u1 = 1) :
    mixq b d u a b0 b1 + mixq b d u a d0 d1 + mixq b d u a u0 u1 = 1 := by
  have e0 : u0 = 1 - b0 - d0 := by linarith
  have e1 : u1 = 1 - b1 - d1 := by linarith
  have e : d = 1 - b - u := by linarith
  subst e0 e1 e; unfold mixq; ring

/-- `pyx - r` in Case II: the A-branch (`pyx ≤ r`) says `a (b0-b1)(1-ay) ≤ ay (1-a)(d1-d0)` -/
theorem pyx_sub_rII (h0 : b0 + d0 + u0 = 1) (h1 : b1 + d1 + u1 = 1) :
    pyxq a b0 u0 b1 u1 ay - rII d0 b1 ay
      = a * (b0 - b1) * (1 - ay) - ay * (1 - a) * (d1 - d0) := by
  have e0 : u0 = 1 - b0 - d0 := by linarith
  have e1 : u1 = 1 - b1 - d1 := by linarith
  subst e0 e1; unfold pyxq rII; ring

/-- `pyx - r` in Case III: the A-branch says `(1-a)(b1-b0)(1-ay) ≤ ay a (d0-d1)` -/
theorem pyx_sub_rIII (h0 : b0 + d0 + u0 = 1) (h1 : b1 + d1 + u1 = 1) :
    pyxq a b0 u0 b1 u1 ay - rIII b0 d1 ay
      = (1 - a) * (b1 - b0) * (1 - ay) - ay * a * (d0 - d1) := by
  have e0 : u0 = 1 - b0 - d0 := by linarith
  have e1 : u1 = 1 - b1 - d1 := by linarith
  subst e0 e1; unfold pyxq rIII; ring

/-! ### closed forms of `Kq` per branch -/

theorem Kq_I (h : b1 < b0 ↔ d1 < d0) : Kq u a b0 d0 b1 d1 ay = 0 := by
  unfold Kq; rw [if_pos h]

theorem Kq_II (hb : b1 < b0) (hd : d0 ≤ d1) :
    Kq u a b0 d0 b1 d1 ay = u * min (a * (b0 - b1) / ay) ((1 - a) * (d1 - d0) / (1 - ay)) := by
  unfold Kq
  rw [if_neg (fun h => absurd (h.mp hb) (not_lt.mpr hd)), if_pos hb]

theorem Kq_III (hb : b0 ≤ b1) (hd : d1 < d0) :
    Kq u a b0 d0 b1 d1 ay = u * min ((1 - a) * (b1 - b0) / ay) (a * (d0 - d1) / (1 - ay)) := by
  unfold Kq
  rw [if_neg (fun h => absurd (h.mpr hd) (not_lt.mpr hb)), if_neg (not_lt.mpr hb)]

theorem Kq_IIA (hy0 : 0 < ay) (hy1 : ay < 1) (hb : b1 < b0) (hd : d0 ≤ d1)
    (hA : a * (b0 - b1) * (1 - ay) ≤ ay * (1 - a) * (d1 - d0)) :
    Kq u a b0 d0 b1 d1 ay = a * u * (b0 - b1) / ay := by
  rw [Kq_II hb hd, min_eq_left]
  · ring
  · rw [div_le_div_iff₀ hy0 (sub_pos.mpr hy1)]; linarith

theorem Kq_IIB (hy0 : 0 < ay) (hy1 : ay < 1) (hb : b1 < b0) (hd : d0 ≤ d1)
    (hB : ay * (1 - a) * (d1 - d0) ≤ a * (b0 - b1) * (1 - ay)) :
    Kq u a b0 d0 b1 d1 ay = (1 - a) * u * (d1 - d0) / (1 - ay) := by
  rw [Kq_II hb hd, min_eq_right]
  · ring
  · rw [div_le_div_iff₀ (sub_pos.mpr hy1) hy0]; linarith

theorem Kq_IIIA (hy0 : 0 < ay) (hy1 : ay < 1) (hb : b0 ≤ b1) (hd : d1 < d0)
    (hA : (1 - a) * (b1 - b0) * (1 - ay) ≤ ay * a * (d0 - d1)) :
    Kq u a b0 d0 b1 d1 ay = (1 - a) * u * (b1 - b0) / ay := by
  rw [Kq_III hb hd, min_eq_left]
  · ring
  · rw [div_le_div_iff₀ hy0 (sub_pos.mpr hy1)]; linarith

theorem Kq_IIIB (hy0 : 0 < ay) (hy1 : ay < 1) (hb : b0 ≤ b1) (hd : d1 < d0)
    (hB : ay * a * (d0 - d1) ≤ (1 - a) * (b1 - b0) * (1 - ay)) :
    Kq u a b0 d0 b1 d1 ay = a * u * (d0 - d1) / (1 - ay) := by
  rw [Kq_III hb hd, min_eq_right]
  · ring
  · rw [div_le_div_iff₀ (sub_pos.mpr hy1) hy0]; linarith

/-- a dogmatic antecedent has no correction -/
theorem Kq_dogmatic : Kq 0 a b0 d0 b1 d1 ay = 0 := by
  unfold Kq; split_ifs <;> simp

/-! ### bounds on `Kq` (what makes the result a simplex) -/

section bounds
variable (ha0 : 0 ≤ a) (ha1 : a ≤ 1) (hu : 0 ≤ u) (hy0 : 0 < ay) (hy1 : ay < 1)
include ha0 ha1 hu hy0 hy1

theorem Kq_nonneg : 0 ≤ Kq u a b0 d0 b1 d1 ay := by
  have h1a : 0 ≤ 1 - a := sub_nonneg.mpr ha1
  have h1y : 0 < 1 - ay := sub_pos.mpr hy1
  unfold Kq
  split_ifs with h1 h2
  · exact le_refl _
  · have hd : d0 ≤ d1 := not_lt.mp (fun h => h1 ⟨fun _ => h, fun _ => h2⟩)
    refine mul_nonneg hu (le_min ?_ ?_)
    · exact div_nonneg (mul_nonneg ha0 (sub_nonneg.mpr h2.le)) hy0.le
    · exact div_nonneg (mul_nonneg h1a (sub_nonneg.mpr hd)) h1y.le
  · have hb : b0 ≤ b1 := not_lt.mp h2
    have hd : d1 < d0 := by
      by_contra hc
      exact h1 ⟨fun h => absurd h h2, fun h => absurd h hc⟩
    refine mul_nonneg hu (le_min ?_ ?_)
    · exact div_nonneg (mul_nonneg h1a (sub_nonneg.mpr hb)) hy0.le
    · exact div_nonneg (mul_nonneg ha0 (sub_nonneg.mpr hd.le)) h1y.le

omit ha0 ha1 in
theorem Kq_le_II (hb : b1 < b0) (hd : d0 ≤ d1) :
    ay * Kq u a b0 d0 b1 d1 ay ≤ a * u * (b0 - b1) ∧
    (1 - ay) * Kq u a b0 d0 b1 d1 ay ≤ (1 - a) * u * (d1 - d0) := by
  have h1y : 0 < 1 - ay := sub_pos.mpr hy1
  rw [Kq_II hb hd]
  constructor
  · calc ay * (u * min (a * (b0 - b1) / ay) ((1 - a) * (d1 - d0) / (1 - ay)))
        ≤ ay * (u * (a * (b0 - b1) / ay)) :=
          mul_le_mul_of_nonneg_left (mul_le_mul_of_nonneg_left (min_le_left _ _) hu) hy0.le
      _ = a * u * (b0 - b1) := by field_simp
  · calc (1 - ay) * (u * min (a * (b0 - b1) / ay) ((1 - a) * (d1 - d0) / (1 - ay)))
        ≤ (1 - ay) * (u * ((1 - a) * (d1 - d0) / (1 - ay))) :=
          mul_le_mul_of_nonneg_left (mul_le_mul_of_nonneg_left (min_le_right _ _) hu) h1y.le
      _ = (1 - a) * u * (d1 - d0) := by field_simp

omit ha0 ha1 in
theorem Kq_le_III (hb : b0 ≤ b1) (hd : d1 < d0) :
    ay * Kq u a b0 d0 b1 d1 ay ≤ (1 - a) * u * (b1 - b0) ∧
    (1 - ay) * Kq u a b0 d0 b1 d1 ay ≤ a * u * (d0 - d1) := by
  have h1y : 0 < 1 - ay := sub_pos.mpr hy1
  rw [Kq_III hb hd]
  constructor
  · calc ay * (u * min ((1 - a) * (b1 - b0) / ay) (a * (d0 - d1) / (1 - ay)))
        ≤ ay * (u * ((1 - a) * (b1 - b0) / ay)) :=
          mul_le_mul_of_nonneg_left (mul_le_mul_of_nonneg_left (min_le_left _ _) hu) hy0.le
      _ = (1 - a) * u * (b1 - b0) := by field_simp
  · calc (1 - ay) * (u * min ((1 - a) * (b1 - b0) / ay) (a * (d0 - d1) / (1 - ay)))
        ≤ (1 - ay) * (u * (a * (d0 - d1) / (1 - ay))) :=
          mul_le_mul_of_nonneg_left (mul_le_mul_of_nonneg_left (min_le_right _ _) hu) h1y.le
      _ = a * u * (d0 - d1) := by field_simp

end bounds

/-- trichotomy of the outer `match`: Case I, Case II or Case III -/
theorem case_split (b0 d0 b1 d1 : ℚ) :
    (b1 < b0 ↔ d1 < d0) ∨ (b1 < b0 ∧ d0 ≤ d1) ∨ (b0 ≤ b1 ∧ d1 < d0) := by
  by_cases hb : b1 < b0 <;> by_cases hd : d1 < d0
  · exact Or.inl ⟨fun _ => hd, fun _ => hb⟩
  · exact Or.inr (Or.inl ⟨hb, not_lt.mp hd⟩)
  · exact Or.inr (Or.inr ⟨not_lt.mp hb, hd⟩)
  · exact Or.inl ⟨fun h => absurd h hb, fun h => absurd h hd⟩

/-- at a tie `b0 = b1` or `d0 = d1` the closed form is 0: in Case I by definition, in Case II (`d0 = d1`) and in
    Case III (`b0 = b1`) one entry of the `min` is 0 and the other is non-negative.  (This is why the tie arm of
    repair 4d5bbb1 does not change the exact-arithmetic result.) -/
theorem Kq_tie (ha0 : 0 ≤ a) (hy0 : 0 ≤ ay) (hy1 : ay ≤ 1) (ht : b0 = b1 ∨ d0 = d1) :
    Kq u a b0 d0 b1 d1 ay = 0 := by
  have h1y : 0 ≤ 1 - ay := sub_nonneg.mpr hy1
  rcases case_split b0 d0 b1 d1 with hI | ⟨hb, hd⟩ | ⟨hb, hd⟩
  · exact Kq_I hI
  · rcases ht with e | e
    · exact absurd e hb.ne'
    · subst e
      rw [Kq_II hb (le_refl _), sub_self, mul_zero, zero_div, min_eq_right, mul_zero]
      exact div_nonneg (mul_nonneg ha0 (sub_nonneg.mpr hb.le)) hy0
  · rcases ht with e | e
    · subst e
      rw [Kq_III (le_refl _) hd, sub_self, mul_zero, zero_div, min_eq_left, mul_zero]
      exact div_nonneg (mul_nonneg ha0 (sub_nonneg.mpr hd.le)) h1y
    · exact absurd e hd.ne'

/-- the belief and disbelief of the result are non-negative (they dominate a convex combination of
    the conditionals' components) -/
theorem res_nonneg (hx : BWF b d u a) (h0 : SWF3 b0 d0 u0) (h1 : SWF3 b1 d1 u1)
    (hy0 : 0 < ay) (hy1 : ay < 1) :
    0 ≤ mixq b d u a b0 b1 - ay * Kq u a b0 d0 b1 d1 ay ∧
    0 ≤ mixq b d u a d0 d1 - (1 - ay) * Kq u a b0 d0 b1 d1 ay := by
  have hb := hx.hb; have hd := hx.hd; have hu := hx.hu
  have hb0 := h0.hb; have hd0 := h0.hd; have hb1 := h1.hb; have hd1 := h1.hd
  rcases case_split b0 d0 b1 d1 with hI | ⟨hb', hd'⟩ | ⟨hb', hd'⟩
  · rw [Kq_I hI, mul_zero, mul_zero, sub_zero, sub_zero]
    exact ⟨mixq_nonneg hx hb0 hb1, mixq_nonneg hx hd0 hd1⟩
  · obtain ⟨k1, k2⟩ := Kq_le_II (a := a) hu hy0 hy1 hb' hd'
    have e1 : mixq b d u a b0 b1 - a * u * (b0 - b1) = b * b0 + d * b1 + u * b1 := by
      unfold mixq; ring
    have e2 : mixq b d u a d0 d1 - (1 - a) * u * (d1 - d0) = b * d0 + d * d1 + u * d0 := by
      unfold mixq; ring
    have p1 : 0 ≤ b * b0 + d * b1 + u * b1 := by positivity
    have p2 : 0 ≤ b * d0 + d * d1 + u * d0 := by positivity
    constructor <;> linarith
  · obtain ⟨k1, k2⟩ := Kq_le_III (a := a) hu hy0 hy1 hb' hd'
    have e1 : mixq b d u a b0 b1 - (1 - a) * u * (b1 - b0) = b * b0 + d * b1 + u * b0 := by
      unfold mixq; ring
    have e2 : mixq b d u a d0 d1 - a * u * (d0 - d1) = b * d0 + d * d1 + u * d1 := by
      unfold mixq; ring
    have p1 : 0 ≤ b * b0 + d * b1 + u * b0 := by positivity
    have p2 : 0 ≤ b * d0 + d * d1 + u * d1 := by positivity
    constructor <;> linarith

/-- the closed-form result is a well-formed binomial opinion -/
theorem res_bwf (hx : BWF b d u a) (h0 : SWF3 b0 d0 u0) (h1 : SWF3 b1 d1 u1)
    (hy0 : 0 < ay) (hy1 : ay < 1) :
    BWF (mixq b d u a b0 b1 - ay * Kq u a b0 d0 b1 d1 ay)
      (mixq b d u a d0 d1 - (1 - ay) * Kq u a b0 d0 b1 d1 ay)
      (mixq b d u a u0 u1 + Kq u a b0 d0 b1 d1 ay) ay := by
  obtain ⟨p1, p2⟩ := res_nonneg hx h0 h1 hy0 hy1
  refine ⟨p1, p2, ?_, ?_, hy0.le, hy1.le⟩
  · exact add_nonneg (mixq_nonneg hx h0.hu h1.hu) (Kq_nonneg hx.ha0 hx.ha1 hx.hu hy0 hy1)
  · have := mixq_sum (a := a) hx.hs h0.hs h1.hs
    linarith

/-! ### the checked constructor -/

/-- `try_new` returns its arguments or fails (all semantics) -/
theorem BOp.tryNew_ok_inv {α : Type} [Scalar α] {b d u a : α} {r : BOp α}
    (h : BOp.tryNew b d u a = .ok r) : r = ⟨b, d, u, a⟩ := by
  unfold BOp.tryNew at h
  split at h
  · cases h
  · split at h
    · cases h
    · cases h; rfl

/-! ### lift of `deduceK` (repair b163717: `k = 0` in Case I, `min ka kb` otherwise)

  Only two divisions are evaluated, by `ay` and by `1 - ay`: the lift needs `0 < ay < 1` and nothing about the antecedent
  (no `0 < P < 1`, no `0 < a < 1`); `0 ≤ u` is needed to identify `min (u·x) (u·y)` with the closed form `u · min x y`. -/

/-- the model's `ka`, `kb` (factor `u` inside) against the closed form `Kq` (factor `u` outside) -/
theorem Kq_II' (hu : 0 ≤ u) (hb : b1 < b0) (hd : d0 ≤ d1) :
    Kq u a b0 d0 b1 d1 ay = min (a * u * (b0 - b1) / ay) ((1 - a) * u * (d1 - d0) / (1 - ay)) := by
  rw [Kq_II hb hd, mul_min_of_nonneg _ _ hu]
  congr 1 <;> ring

theorem Kq_III' (hu : 0 ≤ u) (hb : b0 ≤ b1) (hd : d1 < d0) :
    Kq u a b0 d0 b1 d1 ay = min ((1 - a) * u * (b1 - b0) / ay) (a * u * (d0 - d1) / (1 - ay)) := by
  rw [Kq_III hb hd, mul_min_of_nonneg _ _ hu]
  congr 1 <;> ring

/-- unfold `deduceK` on finite inputs down to the comparisons -/
local macro "unfold_deduceK" : tactic => `(tactic|
  (unfold BOp.deduceK BOp.minTakesRight Scalar.gt
   simp only [XQ.one_def, XQ.sub_fin, XQ.mul_fin, XQ.add_fin, XQ.lt_fin, XQ.zero_def]))

/-- Case I: no division at all, every finite input -/
theorem deduceK_I0 (hI : b1 < b0 ↔ d1 < d0) :
    BOp.deduceK (liftB (f := f) b d u a) (liftS b0 d0 u0) (liftS b1 d1 u1) (XQ.fin ay)
      = (XQ.fin 0, .I) := by
  unfold_deduceK
  by_cases hb : b1 < b0
  · simp only [decide_eq_true hb, decide_eq_true (hI.mp hb)]
  · simp only [decide_eq_false hb, decide_eq_false (fun h => hb (hI.mpr h))]

theorem deduceK_I (hI : b1 < b0 ↔ d1 < d0) :
    BOp.deduceK (liftB (f := f) b d u a) (liftS b0 d0 u0) (liftS b1 d1 u1) (XQ.fin ay)
      = (XQ.fin (Kq u a b0 d0 b1 d1 ay), .I) := by
  rw [Kq_I hI, deduceK_I0 hI]

/-- Case II on finite inputs with `0 < ay < 1`: both bounds are finite, `k` is their minimum, and the tag says which
    operand `ka.min(kb)` returned (`kb` iff `kb < ka`) -/
theorem deduceK_II0 (hy0 : 0 < ay) (hy1 : ay < 1) (hb : b1 < b0) (hd : d0 ≤ d1) :
    BOp.deduceK (liftB (f := f) b d u a) (liftS b0 d0 u0) (liftS b1 d1 u1) (XQ.fin ay)
      = (XQ.fin (min (a * u * (b0 - b1) / ay) ((1 - a) * u * (d1 - d0) / (1 - ay))),
          if (1 - a) * u * (d1 - d0) / (1 - ay) < a * u * (b0 - b1) / ay then .IIB else .IIA) := by
  unfold_deduceK
  simp only [decide_eq_true hb, decide_eq_false (not_lt.mpr hd)]
  rw [XQ.div_fin _ _ hy0.ne', XQ.div_fin _ _ (sub_pos.mpr hy1).ne']
  simp only [XQ.min_fin, XQ.isNaN_fin, XQ.lt_fin, Bool.not_false, Bool.true_and, Bool.false_or,
    decide_eq_true_eq]

/-- Case III, mirrored -/
theorem deduceK_III0 (hy0 : 0 < ay) (hy1 : ay < 1) (hb : b0 ≤ b1) (hd : d1 < d0) :
    BOp.deduceK (liftB (f := f) b d u a) (liftS b0 d0 u0) (liftS b1 d1 u1) (XQ.fin ay)
      = (XQ.fin (min ((1 - a) * u * (b1 - b0) / ay) (a * u * (d0 - d1) / (1 - ay))),
          if a * u * (d0 - d1) / (1 - ay) < (1 - a) * u * (b1 - b0) / ay then .IIIB else .IIIA) := by
  unfold_deduceK
  simp only [decide_eq_false (not_lt.mpr hb), decide_eq_true hd]
  rw [XQ.div_fin _ _ hy0.ne', XQ.div_fin _ _ (sub_pos.mpr hy1).ne']
  simp only [XQ.min_fin, XQ.isNaN_fin, XQ.lt_fin, Bool.not_false, Bool.true_and, Bool.false_or,
    decide_eq_true_eq]

section bound
variable (hu : 0 ≤ u) (hy0 : 0 < ay) (hy1 : ay < 1)
include hu hy0 hy1

/-- the correction term is the finite closed form `Kq` — Case I, Case II and Case III, ties included; any antecedent
    with `0 ≤ u`, any conditionals, `0 < ay < 1` -/
theorem deduceK_fst' :
    (BOp.deduceK (liftB (f := f) b d u a) (liftS b0 d0 u0) (liftS b1 d1 u1) (XQ.fin ay)).1
      = XQ.fin (Kq u a b0 d0 b1 d1 ay) := by
  rcases case_split b0 d0 b1 d1 with hI | ⟨hb, hd⟩ | ⟨hb, hd⟩
  · rw [deduceK_I hI]
  · rw [deduceK_II0 hy0 hy1 hb hd, Kq_II' hu hb hd]
  · rw [deduceK_III0 hy0 hy1 hb hd, Kq_III' hu hb hd]

/-- Case II, the belief bound is active (`ka ≤ kb`, i.e. sub-case A of the operator's definition): tag `.IIA` -/
theorem deduceK_IIA (hb : b1 < b0) (hd : d0 ≤ d1)
    (hA : a * (b0 - b1) * (1 - ay) ≤ ay * (1 - a) * (d1 - d0)) :
    BOp.deduceK (liftB (f := f) b d u a) (liftS b0 d0 u0) (liftS b1 d1 u1) (XQ.fin ay)
      = (XQ.fin (Kq u a b0 d0 b1 d1 ay), .IIA) := by
  have hle : a * u * (b0 - b1) / ay ≤ (1 - a) * u * (d1 - d0) / (1 - ay) := by
    rw [div_le_div_iff₀ hy0 (sub_pos.mpr hy1)]
    nlinarith [mul_le_mul_of_nonneg_left hA hu]
  rw [deduceK_II0 hy0 hy1 hb hd, Kq_II' hu hb hd, if_neg (not_lt.mpr hle)]

/-- Case II, the disbelief bound is strictly smaller (`kb < ka`, sub-case B; needs `0 < u`: for a dogmatic antecedent
    both bounds are 0 and `min` returns its left operand): tag `.IIB` -/
theorem deduceK_IIB (hup : 0 < u) (hb : b1 < b0) (hd : d0 ≤ d1)
    (hB : ay * (1 - a) * (d1 - d0) < a * (b0 - b1) * (1 - ay)) :
    BOp.deduceK (liftB (f := f) b d u a) (liftS b0 d0 u0) (liftS b1 d1 u1) (XQ.fin ay)
      = (XQ.fin (Kq u a b0 d0 b1 d1 ay), .IIB) := by
  have hlt : (1 - a) * u * (d1 - d0) / (1 - ay) < a * u * (b0 - b1) / ay := by
    rw [div_lt_div_iff₀ (sub_pos.mpr hy1) hy0]
    nlinarith [mul_lt_mul_of_pos_left hB hup]
  rw [deduceK_II0 hy0 hy1 hb hd, Kq_II' hu hb hd, if_pos hlt]

/-- Case III, belief bound active: tag `.IIIA` -/
theorem deduceK_IIIA (hb : b0 ≤ b1) (hd : d1 < d0)
    (hA : (1 - a) * (b1 - b0) * (1 - ay) ≤ ay * a * (d0 - d1)) :
    BOp.deduceK (liftB (f := f) b d u a) (liftS b0 d0 u0) (liftS b1 d1 u1) (XQ.fin ay)
      = (XQ.fin (Kq u a b0 d0 b1 d1 ay), .IIIA) := by
  have hle : (1 - a) * u * (b1 - b0) / ay ≤ a * u * (d0 - d1) / (1 - ay) := by
    rw [div_le_div_iff₀ hy0 (sub_pos.mpr hy1)]
    nlinarith [mul_le_mul_of_nonneg_left hA hu]
  rw [deduceK_III0 hy0 hy1 hb hd, Kq_III' hu hb hd, if_neg (not_lt.mpr hle)]

/-- Case III, disbelief bound strictly smaller: tag `.IIIB` -/
theorem deduceK_IIIB (hup : 0 < u) (hb : b0 ≤ b1) (hd : d1 < d0)
    (hB : ay * a * (d0 - d1) < (1 - a) * (b1 - b0) * (1 - ay)) :
    BOp.deduceK (liftB (f := f) b d u a) (liftS b0 d0 u0) (liftS b1 d1 u1) (XQ.fin ay)
      = (XQ.fin (Kq u a b0 d0 b1 d1 ay), .IIIB) := by
  have hlt : a * u * (d0 - d1) / (1 - ay) < (1 - a) * u * (b1 - b0) / ay := by
    rw [div_lt_div_iff₀ (sub_pos.mpr hy1) hy0]
    nlinarith [mul_lt_mul_of_pos_left hB hup]
  rw [deduceK_III0 hy0 hy1 hb hd, Kq_III' hu hb hd, if_pos hlt]

end bound

section branches
variable (h : Dom14 b d u a b0 d0 u0 b1 d1 u1 ay)
include h

theorem Dom14.d_eq : d = 1 - b - u := by linarith [h.x.hs]

/-- in Case II sub-case A (`pyx ≤ r`) forces `d0 < d1` -/
theorem Dom14.IIA_strict (hb : b1 < b0) (hA : pyxq a b0 u0 b1 u1 ay ≤ rII d0 b1 ay) : d0 < d1 := by
  have e := pyx_sub_rII (a := a) (ay := ay) h.c0.hs h.c1.hs
  have p1 : 0 < a * (b0 - b1) * (1 - ay) :=
    mul_pos (mul_pos h.ha0 (sub_pos.mpr hb)) (sub_pos.mpr h.hy1)
  have p2 : 0 < ay * (1 - a) := mul_pos h.hy0 (sub_pos.mpr h.ha1)
  by_contra hc
  have : ay * (1 - a) * (d1 - d0) ≤ 0 :=
    mul_nonpos_of_nonneg_of_nonpos p2.le (sub_nonpos.mpr (not_lt.mp hc))
  linarith

/-- in Case III sub-case B (`pyx > r`) forces `b0 < b1` -/
theorem Dom14.IIIB_strict (hd : d1 < d0) (hB : rIII b0 d1 ay < pyxq a b0 u0 b1 u1 ay) : b0 < b1 := by
  have e := pyx_sub_rIII (a := a) (ay := ay) h.c0.hs h.c1.hs
  have p1 : 0 < ay * a * (d0 - d1) := mul_pos (mul_pos h.hy0 h.ha0) (sub_pos.mpr hd)
  have p2 : 0 < (1 - a) * (1 - ay) := mul_pos (sub_pos.mpr h.ha1) (sub_pos.mpr h.hy1)
  by_contra hc
  have : (1 - a) * (1 - ay) * (b1 - b0) ≤ 0 :=
    mul_nonpos_of_nonneg_of_nonpos p2.le (sub_nonpos.mpr (not_lt.mp hc))
  nlinarith

/-- on the open domain `deduceK` returns the finite closed form `Kq` -/
theorem deduceK_fst :
    (BOp.deduceK (liftB (f := f) b d u a) (liftS b0 d0 u0) (liftS b1 d1 u1) (XQ.fin ay)).1
      = XQ.fin (Kq u a b0 d0 b1 d1 ay) :=
  deduceK_fst' h.x.hu h.hy0 h.hy1

end branches

/-! ### lift of `deduce` -/

/-- `deduce` on finite inputs, given the value of the correction term `K`, `bI + dI + uI = 1` (then the normaliser
    `s = (bI - ay K) + (dI - (1-ay) K) + (uI + K)` of repair d46c983 is 1 for every `K`) and the un-clamped belief
    `bI - ay K` and disbelief `dI - (1-ay) K` non-negative (then the clamps of repair cf81fd9 are the identity) -/
theorem deduce_fin_of_K {K : ℚ}
    (hs : mixq b d u a b0 b1 + mixq b d u a d0 d1 + mixq b d u a u0 u1 = 1)
    (hb : 0 ≤ mixq b d u a b0 b1 - ay * K) (hd : 0 ≤ mixq b d u a d0 d1 - (1 - ay) * K)
    (hK : (BOp.deduceK (liftB (f := f) b d u a) (liftS b0 d0 u0) (liftS b1 d1 u1) (XQ.fin ay)).1
      = XQ.fin K) :
    BOp.deduce (liftB (f := f) b d u a) (liftS b0 d0 u0) (liftS b1 d1 u1) (XQ.fin ay)
      = (BOp.tryNew (XQ.fin (mixq b d u a b0 b1 - ay * K)) (XQ.fin (mixq b d u a d0 d1 - (1 - ay) * K))
          (XQ.fin (mixq b d u a u0 u1 + K)) (XQ.fin ay),
        (BOp.deduceK (liftB (f := f) b d u a) (liftS b0 d0 u0) (liftS b1 d1 u1) (XQ.fin ay)).2) := by
  have hs' : (mixq b d u a b0 b1 - ay * K) + (mixq b d u a d0 d1 - (1 - ay) * K) + (mixq b d u a u0 u1 + K) = 1 := by
    linarith
  rw [← BOp.norm_one hs']
  unfold BOp.deduce
  unfold mixq at hb hd
  simp only [hK, XQ.one_def, XQ.sub_fin, XQ.mul_fin, XQ.add_fin, XQ.clamp_fin_nonneg _ hb, XQ.clamp_fin_nonneg _ hd, mixq]

/-- `deduce` is accepted and returns the closed form for EVERY well-formed antecedent (absolute, dogmatic, vacuous,
    `a = 0`, `a = 1`, `P = 0`, `P = 1` included), well-formed conditionals and `0 < ay < 1` -/
theorem deduce_ok' (hx : BWF b d u a) (h0 : SWF3 b0 d0 u0) (h1 : SWF3 b1 d1 u1) (hy0 : 0 < ay) (hy1 : ay < 1) :
    BOp.deduce (liftB (f := f) b d u a) (liftS b0 d0 u0) (liftS b1 d1 u1) (XQ.fin ay)
      = (.ok ⟨XQ.fin (mixq b d u a b0 b1 - ay * Kq u a b0 d0 b1 d1 ay),
              XQ.fin (mixq b d u a d0 d1 - (1 - ay) * Kq u a b0 d0 b1 d1 ay),
              XQ.fin (mixq b d u a u0 u1 + Kq u a b0 d0 b1 d1 ay), XQ.fin ay⟩,
        (BOp.deduceK (liftB (f := f) b d u a) (liftS b0 d0 u0) (liftS b1 d1 u1) (XQ.fin ay)).2) := by
  have w := res_bwf hx h0 h1 hy0 hy1
  rw [deduce_fin_of_K (mixq_sum hx.hs h0.hs h1.hs) w.hb w.hd (deduceK_fst' hx.hu hy0 hy1)]
  rw [BOp.tryNew_fin_ok w.hb w.hd w.hu w.hs w.ha0 w.ha1]

/-- on the open domain `deduce` is accepted and returns the closed form -/
theorem deduce_ok (h : Dom14 b d u a b0 d0 u0 b1 d1 u1 ay) :
    BOp.deduce (liftB (f := f) b d u a) (liftS b0 d0 u0) (liftS b1 d1 u1) (XQ.fin ay)
      = (.ok ⟨XQ.fin (mixq b d u a b0 b1 - ay * Kq u a b0 d0 b1 d1 ay),
              XQ.fin (mixq b d u a d0 d1 - (1 - ay) * Kq u a b0 d0 b1 d1 ay),
              XQ.fin (mixq b d u a u0 u1 + Kq u a b0 d0 b1 d1 ay), XQ.fin ay⟩,
        (BOp.deduceK (liftB (f := f) b d u a) (liftS b0 d0 u0) (liftS b1 d1 u1) (XQ.fin ay)).2) := by
  have w := res_bwf h.x h.c0 h.c1 h.hy0 h.hy1
  rw [deduce_fin_of_K (mixq_sum h.x.hs h.c0.hs h.c1.hs) w.hb w.hd (deduceK_fst h)]
  rw [BOp.tryNew_fin_ok w.hb w.hd w.hu w.hs w.ha0 w.ha1]

/-- a branch lemma for `deduceK` plus the closed form of `Kq` in that branch give the full statement
    for `deduce` in that branch -/
theorem deduce_case (h : Dom14 b d u a b0 d0 u0 b1 d1 u1 ay) {c : BOp.DCase} {K : ℚ}
    (hc : BOp.deduceK (liftB (f := f) b d u a) (liftS b0 d0 u0) (liftS b1 d1 u1) (XQ.fin ay)
      = (XQ.fin (Kq u a b0 d0 b1 d1 ay), c))
    (hK : Kq u a b0 d0 b1 d1 ay = K) :
    BOp.deduce (liftB (f := f) b d u a) (liftS b0 d0 u0) (liftS b1 d1 u1) (XQ.fin ay)
      = (.ok (liftB (mixq b d u a b0 b1 - ay * K) (mixq b d u a d0 d1 - (1 - ay) * K)
          (mixq b d u a u0 u1 + K) ay), c) ∧
    0 ≤ K ∧
    BWF (mixq b d u a b0 b1 - ay * K) (mixq b d u a d0 d1 - (1 - ay) * K) (mixq b d u a u0 u1 + K) ay := by
  subst hK
  refine ⟨?_, Kq_nonneg h.x.ha0 h.x.ha1 h.x.hu h.hy0 h.hy1, res_bwf h.x h.c0 h.c1 h.hy0 h.hy1⟩
  rw [deduce_ok h, hc]

/-- the negated antecedent with the conditionals exchanged lies in the open domain again -/
theorem Dom14.swap_x (h : Dom14 b d u a b0 d0 u0 b1 d1 u1 ay) :
    Dom14 d b u (1 - a) b1 d1 u1 b0 d0 u0 ay := by
  have hs := h.x.hs
  refine ⟨⟨h.x.hd, h.x.hb, h.x.hu, by linarith, by linarith [h.ha1], by linarith [h.ha0]⟩,
    by linarith [h.ha1], by linarith [h.ha0], ?_, ?_, h.c1, h.c0, h.hy0, h.hy1⟩
  · have : d + (1 - a) * u = 1 - (b + a * u) := by
      have e : d = 1 - b - u := by linarith
      subst e; ring
    linarith [h.hP1]
  · have : d + (1 - a) * u = 1 - (b + a * u) := by
      have e : d = 1 - b - u := by linarith
      subst e; ring
    linarith [h.hP0]

/-- `y ↔ ¬y`: conditionals' belief and disbelief exchanged, base rate negated -/
theorem Dom14.swap_y (h : Dom14 b d u a b0 d0 u0 b1 d1 u1 ay) :
    Dom14 b d u a d0 b0 u0 d1 b1 u1 (1 - ay) := by
  refine ⟨h.x, h.ha0, h.ha1, h.hP0, h.hP1, ⟨h.c0.hd, h.c0.hb, h.c0.hu, by linarith [h.c0.hs]⟩,
    ⟨h.c1.hd, h.c1.hb, h.c1.hu, by linarith [h.c1.hs]⟩, by linarith [h.hy1], by linarith [h.hy0]⟩

theorem mixq_swap_x (x0 x1 : ℚ) : mixq d b u (1 - a) x1 x0 = mixq b d u a x0 x1 := by
  unfold mixq; ring

/-- `Kq` is invariant under `x ↔ ¬x` (Case II ↔ Case III; the degenerate ties fall into Case I on one
    side and into a zero `min` on the other) -/
theorem Kq_swap_x (ha0 : 0 ≤ a) (ha1 : a ≤ 1) (hy0 : 0 < ay) (hy1 : ay < 1) :
    Kq u (1 - a) b1 d1 b0 d0 ay = Kq u a b0 d0 b1 d1 ay := by
  have h1a : 0 ≤ 1 - a := sub_nonneg.mpr ha1
  have h1y : 0 < 1 - ay := sub_pos.mpr hy1
  have e : (1 : ℚ) - (1 - a) = a := by ring
  rcases lt_trichotomy b0 b1 with hb | hb | hb <;> rcases lt_trichotomy d0 d1 with hd | hd | hd
  · rw [Kq_I ⟨fun _ => hd, fun _ => hb⟩,
      Kq_I ⟨fun h' => absurd h' (not_lt.mpr hb.le), fun h' => absurd h' (not_lt.mpr hd.le)⟩]
  · subst hd
    rw [Kq_II hb (le_refl _), Kq_I ⟨fun h' => absurd h' (not_lt.mpr hb.le), fun h' => absurd h' (lt_irrefl _)⟩,
      sub_self, mul_zero, zero_div, min_eq_right, mul_zero]
    exact div_nonneg (mul_nonneg h1a (sub_nonneg.mpr hb.le)) hy0.le
  · rw [Kq_II hb hd.le, Kq_III hb.le hd, e]
  · subst hb
    rw [Kq_III (le_refl _) hd, Kq_I ⟨fun h' => absurd h' (lt_irrefl _), fun h' => absurd h' (not_lt.mpr hd.le)⟩,
      sub_self, mul_zero, zero_div, min_eq_left, mul_zero]
    exact div_nonneg (mul_nonneg h1a (sub_nonneg.mpr hd.le)) h1y.le
  · subst hb hd
    rw [Kq_I ⟨fun h' => absurd h' (lt_irrefl _), fun h' => absurd h' (lt_irrefl _)⟩,
      Kq_I ⟨fun h' => absurd h' (lt_irrefl _), fun h' => absurd h' (lt_irrefl _)⟩]
  · subst hb
    rw [Kq_I ⟨fun h' => absurd h' (lt_irrefl _), fun h' => absurd h' (not_lt.mpr hd.le)⟩,
      Kq_III (le_refl _) hd, sub_self, mul_zero, zero_div, min_eq_left, mul_zero]
    exact div_nonneg (mul_nonneg ha0 (sub_nonneg.mpr hd.le)) h1y.le
  · rw [Kq_III hb.le hd, Kq_II hb hd.le, e]
  · subst hd
    rw [Kq_I ⟨fun h' => absurd h' (not_lt.mpr hb.le), fun h' => absurd h' (lt_irrefl _)⟩,
      Kq_II hb (le_refl _), sub_self, mul_zero, zero_div, min_eq_right, mul_zero]
    exact div_nonneg (mul_nonneg ha0 (sub_nonneg.mpr hb.le)) hy0.le
  · rw [Kq_I ⟨fun h' => absurd h' (not_lt.mpr hb.le), fun h' => absurd h' (not_lt.mpr hd.le)⟩,
      Kq_I ⟨fun _ => hd, fun _ => hb⟩]

/-- `Kq` is invariant under `y ↔ ¬y` (Case II ↔ Case III with the A- and B-forms exchanged: the two
    entries of the `min` trade places, so a tie `pyx = r` is harmless) — every rational input -/
theorem Kq_swap_y : Kq u a d0 b0 d1 b1 (1 - ay) = Kq u a b0 d0 b1 d1 ay := by
  have e : (1 : ℚ) - (1 - ay) = ay := by ring
  rcases case_split b0 d0 b1 d1 with hI | ⟨hb, hd⟩ | ⟨hb, hd⟩
  · rw [Kq_I hI, Kq_I hI.symm]
  · rw [Kq_II hb hd, Kq_III hd hb, e, min_comm]
  · rw [Kq_III hb hd, Kq_II hd hb, e, min_comm]


/-! ### repair cf81fd9: what the clamps of `b` and `d` guarantee for ALL operands (no well-formedness, no finiteness) -/

theorem XQ.inUnit_finite {v : XQ f} (h : Scalar.inUnit v = true) : ∃ q : ℚ, v = XQ.fin q := by
  cases v with
  | fin q => exact ⟨q, rfl⟩
  | pinf => rw [XQ.inUnit_pinf] at h; cases h
  | ninf => rw [XQ.inUnit_ninf] at h; cases h
  | nan => rw [XQ.inUnit_nan] at h; cases h

/-- `try_new` accepted: the three masses passed the range check -/
theorem BOp.tryNew_ok_inUnit {b d u a : XQ f} {r : BOp (XQ f)} (h : BOp.tryNew b d u a = .ok r) :
    Scalar.inUnit b = true ∧ Scalar.inUnit d = true ∧ Scalar.inUnit u = true := by
  unfold BOp.tryNew BOp.checkSimplex checkUnit checkOne at h
  by_cases h1 : Scalar.inUnit a = true <;> by_cases h2 : Scalar.isOne (b + d + u) = true <;>
    by_cases hb : Scalar.inUnit b = true <;> by_cases hd : Scalar.inUnit d = true <;>
    by_cases hu : Scalar.inUnit u = true <;> simp_all

/-- three finite quotients by the common sum: the operands are finite, the sum is not 0 -/
theorem XQ.norm3_fin {b d u : XQ f} {p q t : ℚ} (hb : b / (b + d + u) = XQ.fin p)
    (hd : d / (b + d + u) = XQ.fin q) (hu : u / (b + d + u) = XQ.fin t) :
    ∃ b' d' u' : ℚ, b = XQ.fin b' ∧ d = XQ.fin d' ∧ u = XQ.fin u' ∧ b' + d' + u' ≠ 0 ∧
      p = b' / (b' + d' + u') ∧ q = d' / (b' + d' + u') ∧ t = u' / (b' + d' + u') := by
  change XQ.div b (XQ.add (XQ.add b d) u) = XQ.fin p at hb
  change XQ.div d (XQ.add (XQ.add b d) u) = XQ.fin q at hd
  change XQ.div u (XQ.add (XQ.add b d) u) = XQ.fin t at hu
  rcases b with b' | _ | _ | _ <;> rcases d with d' | _ | _ | _ <;> rcases u with u' | _ | _ | _ <;>
    simp [XQ.add, XQ.div] at hb hd hu
  by_cases hs : b' + d' + u' = 0
  · rw [if_pos hs] at hb
    split_ifs at hb
  · rw [if_neg hs] at hb hd hu
    exact ⟨b', d', u', rfl, rfl, rfl, hs, (XQ.fin.inj hb).symm, (XQ.fin.inj hd).symm, (XQ.fin.inj hu).symm⟩

/-- the renormalisation `(b/s, d/s, u/s)`, `s = b + d + u`, keeps "no value below zero" -/
theorem XQ.notNeg_norm3 {b d u : XQ f} (hb : XQ.NotNeg b) (hd : XQ.NotNeg d) (hu : XQ.NotNeg u) :
    XQ.NotNeg (b / (b + d + u)) ∧ XQ.NotNeg (d / (b + d + u)) ∧ XQ.NotNeg (u / (b + d + u)) := by
  have hs : XQ.NotNeg (b + d + u) := XQ.notNeg_add (XQ.notNeg_add hb hd) hu
  exact ⟨XQ.notNeg_div hb hs, XQ.notNeg_div hd hs, XQ.notNeg_div hu hs⟩

/-- the un-normalised uncertainty `ui + k` of `deduce` (not clamped by the code) -/
def BOp.deduceRawU (w : BOp (XQ f)) (c0 c1 : XQ f × XQ f × XQ f) (ay : XQ f) : XQ f :=
  w.b * c0.2.2 + w.d * c1.2.2 + w.u * (c0.2.2 * w.a + c1.2.2 * (Scalar.one - w.a)) + (BOp.deduceK w c0 c1 ay).1

/-- `deduce` passes to the checked constructor the quotients `b/s`, `d/s`, `u/s`, `s = b + d + u`, of two clamped values
    `b`, `d` (none below zero: finite `≥ 0`, `+∞` or NaN) and of the raw uncertainty; whenever that is not below zero
    either, none of the three quotients is -/
theorem BOp.deduce_notNeg (w : BOp (XQ f)) (c0 c1 : XQ f × XQ f × XQ f) (ay : XQ f) :
    ∃ b d : XQ f,
      (BOp.deduce w c0 c1 ay).1
        = BOp.tryNew (b / (b + d + BOp.deduceRawU w c0 c1 ay)) (d / (b + d + BOp.deduceRawU w c0 c1 ay))
            (BOp.deduceRawU w c0 c1 ay / (b + d + BOp.deduceRawU w c0 c1 ay)) ay ∧
      XQ.NotNeg b ∧ XQ.NotNeg d ∧
      (XQ.NotNeg (BOp.deduceRawU w c0 c1 ay) →
        XQ.NotNeg (b / (b + d + BOp.deduceRawU w c0 c1 ay)) ∧ XQ.NotNeg (d / (b + d + BOp.deduceRawU w c0 c1 ay)) ∧
        XQ.NotNeg (BOp.deduceRawU w c0 c1 ay / (b + d + BOp.deduceRawU w c0 c1 ay))) := by
  unfold BOp.deduce BOp.deduceRawU
  refine ⟨_, _, rfl, XQ.notNeg_clamp _, XQ.notNeg_clamp _, fun hu => ?_⟩
  exact XQ.notNeg_norm3 (XQ.notNeg_clamp _) (XQ.notNeg_clamp _) hu

/-- an ACCEPTED result of `deduce` whose raw uncertainty is not below zero is an exactly well-formed simplex: finite
    masses, each `≥ 0`, adding up to exactly 1 (so `u ≤ 1`), whatever the operands -/
theorem BOp.deduce_ok_wf (w : BOp (XQ f)) (c0 c1 : XQ f × XQ f × XQ f) (ay : XQ f) {r : BOp (XQ f)}
    (hr : (BOp.deduce w c0 c1 ay).1 = .ok r) (hu : XQ.NotNeg (BOp.deduceRawU w c0 c1 ay)) :
    ∃ p q t : ℚ, r.b = XQ.fin p ∧ r.d = XQ.fin q ∧ r.u = XQ.fin t ∧ 0 ≤ p ∧ 0 ≤ q ∧ 0 ≤ t ∧ p + q + t = 1 ∧ t ≤ 1 := by
  obtain ⟨b, d, e, -, -, hn⟩ := BOp.deduce_notNeg w c0 c1 ay
  obtain ⟨nb, nd, nu⟩ := hn hu
  rw [e] at hr
  obtain ⟨ib, id, iu⟩ := BOp.tryNew_ok_inUnit hr
  obtain ⟨p, hp⟩ := XQ.inUnit_finite ib
  obtain ⟨q, hq⟩ := XQ.inUnit_finite id
  obtain ⟨t, ht⟩ := XQ.inUnit_finite iu
  have hr' := BOp.tryNew_ok_inv hr
  rw [hp] at nb; rw [hq] at nd; rw [ht] at nu
  rw [XQ.notNeg_fin] at nb nd nu
  obtain ⟨b', d', u', -, -, -, hs, ep, eq, et⟩ := XQ.norm3_fin hp hq ht
  have hsum : p + q + t = 1 := by rw [ep, eq, et]; field_simp
  refine ⟨p, q, t, ?_, ?_, ?_, nb, nd, nu, hsum, by linarith⟩
  · rw [hr']; exact hp
  · rw [hr']; exact hq
  · rw [hr']; exact ht

end SLV
