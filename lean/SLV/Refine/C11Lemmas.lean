/-
  Helper lemmas for C11 (merging conditionals X1->Y and X2->Y on the joint antecedent X1×X2,
  `mergeCond2`): the rational closed form of every stage (marginal base rates, the two inverted
  tables, the product cells, the marginal base rate of the joint variable, the final inversion), the
  staged lift of the model, and the behaviour of the closed forms under a relabelling of the joint
  domain by a bijection (used for the transposition `X1 ↔ X2`).  No property statements here.
  Composes the finished lifts of C05 (`inverse_lift`), C06 (`product2Raw_lift`, accepted by
  `Opinion::new`), C08 (`mbr_lift`) and the decomposition `mergeCond2_eq` of C15Lemmas.
-/
import SLV.Refine.Lift
import SLV.Refine.C15Lemmas
import SLV.Props.C05
import SLV.Props.C06
import SLV.Props.C08
import Mathlib.Logic.Equiv.Prod
import Mathlib.Logic.Equiv.Fin.Basic

namespace SLV.C11
open SLV Scalar SLV.Props.C09
open SLV.C04 (Pc condTab condTab_get)
open SLV.C05
open SLV.C06 (flat2 idx2_flat2 flat2_idx2 P2 A2 B2 bJ2 uhat2 bJ cell2 sum_outer2 outer2_lift)
open SLV.C08 (HypM AllVac S may raw mbr_lift may_nonneg sum_may)
open SLV.C15 (mCells mFinish mergeCond2_eq sequenceE_ok_iff)

variable {f : Fmt} {n n1 n2 m : Nat}

/-! ### `mbr(..).unwrap_or(d)` -/

/-- closed form of `mbr(ax, conds).unwrap_or(d)`: the fallback `d` when `mbr` is absent, the marginal
    base rate otherwise -/
def ayOf (f : Fmt) (ax : Fin n → ℚ) (cb : Fin n → Fin m → ℚ) (cu : Fin n → ℚ) (d : Fin m → ℚ) :
    Fin m → ℚ :=
  if AllVac f cu ∨ S ax cu = 0 then d else may ax cb cu

theorem getD_mbr_lift {ax : Fin n → ℚ} {cb : Fin n → Fin m → ℚ} {cu : Fin n → ℚ}
    (h : HypM ax cb cu) (d : Fin m → ℚ) :
    (mbr (liftT ax : Tab (XQ f) n) (condTab cb cu f)).getD (liftT d) = liftT (ayOf f ax cb cu d) := by
  rw [mbr_lift h]
  unfold ayOf
  split <;> rfl

theorem ayOf_nonneg {ax : Fin n → ℚ} {cb : Fin n → Fin m → ℚ} {cu : Fin n → ℚ}
    (h : HypM ax cb cu) {d : Fin m → ℚ} (hd : ∀ y, 0 ≤ d y) (y : Fin m) :
    0 ≤ ayOf f ax cb cu d y := by
  unfold ayOf
  split
  · exact hd y
  · exact may_nonneg h y

theorem ayOf_sum {ax : Fin n → ℚ} {cb : Fin n → Fin m → ℚ} {cu : Fin n → ℚ}
    (h : HypM ax cb cu) {d : Fin m → ℚ} (hd : ∑ y, d y = 1) :
    ∑ y, ayOf f ax cb cu d y = 1 := by
  unfold ayOf
  split
  · exact hd
  · rename_i hc
    exact sum_may h (fun hS => hc (Or.inr hS))

/-! ### rational data of a merge -/

/-- the rational inputs of `merge_cond2`: conditionals `Y|X1` (`c1b x1 y`, `c1u x1`), `Y|X2`, and the
    three base rates -/
structure MIn (n1 n2 m : Nat) where
  c1b : Fin n1 → Fin m → ℚ
  c1u : Fin n1 → ℚ
  c2b : Fin n2 → Fin m → ℚ
  c2u : Fin n2 → ℚ
  ax1 : Fin n1 → ℚ
  ax2 : Fin n2 → ℚ
  ay : Fin m → ℚ

/-- the same inputs with the roles of X1 and X2 exchanged -/
def MIn.swap (D : MIn n1 n2 m) : MIn n2 n1 m :=
  ⟨D.c2b, D.c2u, D.c1b, D.c1u, D.ax2, D.ax1, D.ay⟩

/-- well-formedness of the inputs: every conditional a simplex, the three base rates strictly
    positive distributions -/
structure MHyp (D : MIn n1 n2 m) : Prop where
  h1b : ∀ x y, 0 ≤ D.c1b x y
  h1u : ∀ x, 0 ≤ D.c1u x
  h1s : ∀ x, ∑ y, D.c1b x y + D.c1u x = 1
  h2b : ∀ x y, 0 ≤ D.c2b x y
  h2u : ∀ x, 0 ≤ D.c2u x
  h2s : ∀ x, ∑ y, D.c2b x y + D.c2u x = 1
  hax1 : ∀ x, 0 < D.ax1 x
  sax1 : ∑ x, D.ax1 x = 1
  hax2 : ∀ x, 0 < D.ax2 x
  sax2 : ∑ x, D.ax2 x = 1
  hay : ∀ y, 0 < D.ay y
  say : ∑ y, D.ay y = 1

theorem MHyp.swap {D : MIn n1 n2 m} (h : MHyp D) : MHyp D.swap :=
  ⟨h.h2b, h.h2u, h.h2s, h.h1b, h.h1u, h.h1s, h.hax2, h.sax2, h.hax1, h.sax1, h.hay, h.say⟩

section defs
variable (f : Fmt) (D : MIn n1 n2 m)

/-- stage 1: base rate on Y used to invert `Y|X1`: its marginal base rate, `ay` if that is absent -/
def ay1 : Fin m → ℚ := ayOf f D.ax1 D.c1b D.c1u D.ay
def ay2 : Fin m → ℚ := ayOf f D.ax2 D.c2b D.c2u D.ay

/-- stage 2: the inverted tables `X1|Y`, `X2|Y` (C05's closed form) -/
def x1b (y : Fin m) (i : Fin n1) : ℚ := bI f D.c1b D.c1u D.ax1 (ay1 f D) y i
def x1u (y : Fin m) : ℚ := uI f D.c1b D.c1u D.ax1 (ay1 f D) y
def x2b (y : Fin m) (j : Fin n2) : ℚ := bI f D.c2b D.c2u D.ax2 (ay2 f D) y j
def x2u (y : Fin m) : ℚ := uI f D.c2b D.c2u D.ax2 (ay2 f D) y

/-- stage 3: the product cells `X1×X2 | y` (C06's closed form), a table `Y -> X1×X2` -/
def b12 (y : Fin m) (k : Fin (n1 * n2)) : ℚ :=
  bJ2 (x1b f D y) (x1u f D y) D.ax1 (x2b f D y) (x2u f D y) D.ax2 k
def u12 (y : Fin m) : ℚ := uhat2 (x1b f D y) (x1u f D y) D.ax1 (x2b f D y) (x2u f D y) D.ax2

/-- stage 4: base rate of the joint variable: the marginal base rate of `X1×X2|Y` under `ay`, the
    outer product of `ax1`, `ax2` if that is absent -/
def ax12 : Fin (n1 * n2) → ℚ := ayOf f D.ay (b12 f D) (u12 f D) (A2 D.ax1 D.ax2)

/-- stage 5: the merged table `Y|X1×X2` (C05's closed form of the inversion back) -/
def bM (k : Fin (n1 * n2)) (y : Fin m) : ℚ := bI f (b12 f D) (u12 f D) D.ay (ax12 f D) k y
def uM (k : Fin (n1 * n2)) : ℚ := uI f (b12 f D) (u12 f D) D.ay (ax12 f D) k

end defs

variable {D : MIn n1 n2 m}

/-! ### the hypotheses of every stage -/

theorem MHyp.hypM1 (h : MHyp D) : HypM D.ax1 D.c1b D.c1u :=
  ⟨fun x => le_of_lt (h.hax1 x), h.sax1, h.h1b, h.h1u, h.h1s⟩

theorem MHyp.hypM2 (h : MHyp D) : HypM D.ax2 D.c2b D.c2u :=
  ⟨fun x => le_of_lt (h.hax2 x), h.sax2, h.h2b, h.h2u, h.h2s⟩

theorem ay1_nonneg (h : MHyp D) (y : Fin m) : 0 ≤ ay1 f D y :=
  ayOf_nonneg h.hypM1 (fun y => le_of_lt (h.hay y)) y

theorem ay1_sum (h : MHyp D) : ∑ y, ay1 f D y = 1 := ayOf_sum h.hypM1 h.say

theorem ay2_nonneg (h : MHyp D) (y : Fin m) : 0 ≤ ay2 f D y :=
  ayOf_nonneg h.hypM2 (fun y => le_of_lt (h.hay y)) y

theorem ay2_sum (h : MHyp D) : ∑ y, ay2 f D y = 1 := ayOf_sum h.hypM2 h.say

theorem MHyp.inv1 (h : MHyp D) : InvHyp D.c1b D.c1u D.ax1 (ay1 f D) :=
  ⟨h.h1b, h.h1u, h.h1s, h.hax1, h.sax1, ay1_nonneg h, ay1_sum h⟩

theorem MHyp.inv2 (h : MHyp D) : InvHyp D.c2b D.c2u D.ax2 (ay2 f D) :=
  ⟨h.h2b, h.h2u, h.h2s, h.hax2, h.sax2, ay2_nonneg h, ay2_sum h⟩

theorem wf1 (h : MHyp D) (y : Fin m) : WF (x1b f D y) (x1u f D y) D.ax1 :=
  SLV.Props.C05.C05_wf_opinion h.inv1 y

theorem wf2 (h : MHyp D) (y : Fin m) : WF (x2b f D y) (x2u f D y) D.ax2 :=
  SLV.Props.C05.C05_wf_opinion h.inv2 y

theorem wf12 (h : MHyp D) (y : Fin m) : WF (b12 f D y) (u12 f D y) (A2 D.ax1 D.ax2) :=
  SLV.Props.C06.C06_wf_opinion (wf1 h y) (wf2 h y)

theorem MHyp.hypM12 (h : MHyp D) : HypM D.ay (b12 f D) (u12 f D) :=
  ⟨fun y => le_of_lt (h.hay y), h.say, fun y => (wf12 h y).hb, fun y => (wf12 h y).hu,
    fun y => (wf12 h y).hs⟩

theorem A2_pos (h : MHyp D) (k : Fin (n1 * n2)) : 0 < A2 D.ax1 D.ax2 k :=
  mul_pos (h.hax1 _) (h.hax2 _)

theorem A2_sum (h : MHyp D) : ∑ k, A2 D.ax1 D.ax2 k = 1 := by
  unfold A2
  rw [sum_outer2, h.sax1, h.sax2, one_mul]

theorem ax12_nonneg (h : MHyp D) (k : Fin (n1 * n2)) : 0 ≤ ax12 f D k :=
  ayOf_nonneg h.hypM12 (fun k => le_of_lt (A2_pos h k)) k

theorem ax12_sum (h : MHyp D) : ∑ k, ax12 f D k = 1 := ayOf_sum h.hypM12 (A2_sum h)

theorem MHyp.inv12 (h : MHyp D) : InvHyp (b12 f D) (u12 f D) D.ay (ax12 f D) :=
  ⟨fun y => (wf12 h y).hb, fun y => (wf12 h y).hu, fun y => (wf12 h y).hs, h.hay, h.say,
    ax12_nonneg h, ax12_sum h⟩

/-! ### staged lift of `merge_cond2` -/

/-- stage 1 on the model -/
theorem stage1_lift (h : MHyp D) :
    (mbr (liftT D.ax1 : Tab (XQ f) n1) (condTab D.c1b D.c1u f)).getD (liftT D.ay) = liftT (ay1 f D) ∧
    (mbr (liftT D.ax2 : Tab (XQ f) n2) (condTab D.c2b D.c2u f)).getD (liftT D.ay) = liftT (ay2 f D) :=
  ⟨getD_mbr_lift h.hypM1 _, getD_mbr_lift h.hypM2 _⟩

/-- stage 2 on the model -/
theorem stage2_lift (h : MHyp D) :
    inverse (condTab D.c1b D.c1u f) (liftT D.ax1) (liftT (ay1 f D)) = condTab (x1b f D) (x1u f D) f ∧
    inverse (condTab D.c2b D.c2u f) (liftT D.ax2) (liftT (ay2 f D)) = condTab (x2b f D) (x2u f D) f :=
  ⟨inverse_lift h.inv1, inverse_lift h.inv2⟩

/-- stage 3 on the model: both families return the same accepted cell -/
theorem stage3_lift (h : MHyp D) (y : Fin m) :
    product2U (Opinion.mk' (condTab (x1b f D) (x1u f D) f)[y] (liftT D.ax1))
        (Opinion.mk' (condTab (x2b f D) (x2u f D) f)[y] (liftT D.ax2))
      = .ok ⟨liftT (b12 f D y), XQ.fin (u12 f D y), liftT (A2 D.ax1 D.ax2)⟩ ∧
    product2L (Opinion.mk' (condTab (x1b f D) (x1u f D) f)[y] (liftT D.ax1))
        (Opinion.mk' (condTab (x2b f D) (x2u f D) f)[y] (liftT D.ax2))
      = ⟨liftT (b12 f D y), XQ.fin (u12 f D y), liftT (A2 D.ax1 D.ax2)⟩ := by
  rw [condTab_get, condTab_get]
  exact ⟨SLV.Props.C06.C06_unlabelled_accepts (wf1 h y) (wf2 h y),
    SLV.Props.C06.C06_labelled (wf1 h y) (wf2 h y)⟩

/-- one cell of the joint inverted table, either family -/
theorem cell_lift (h : MHyp D) (v : Bool) (y : Fin m) :
    (mCells v (condTab D.c1b D.c1u f) (condTab D.c2b D.c2u f) (liftT D.ax1) (liftT D.ax2)
        (liftT D.ay))[y] = .ok ⟨liftT (b12 f D y), XQ.fin (u12 f D y)⟩ := by
  have e1 := (stage3_lift (f := f) h y).1
  have e2 := (stage3_lift (f := f) h y).2
  simp only [Fin.getElem_fin] at e1 e2
  unfold mCells
  simp only [Fin.getElem_fin, Vector.getElem_ofFn]
  rw [(stage1_lift h).1, (stage1_lift h).2, (stage2_lift h).1, (stage2_lift h).2, e1, e2]
  cases v <;> rfl

/-- the joint inverted table `X1×X2|Y` -/
theorem cells_lift (h : MHyp D) (v : Bool) :
    sequenceE (mCells v (condTab D.c1b D.c1u f) (condTab D.c2b D.c2u f) (liftT D.ax1) (liftT D.ax2)
        (liftT D.ay)) = .ok (condTab (b12 f D) (u12 f D) f) := by
  rw [sequenceE_ok_iff]
  intro y
  rw [cell_lift h v y, condTab_get]

/-- stage 4 on the model -/
theorem stage4_lift (h : MHyp D) :
    (mbr (liftT D.ay : Tab (XQ f) m) (condTab (b12 f D) (u12 f D) f)).getD
        (outer2 (liftT D.ax1) (liftT D.ax2)) = liftT (ax12 f D) := by
  rw [outer2_lift]
  exact getD_mbr_lift h.hypM12 _

/-- stage 5 on the model -/
theorem stage5_lift (h : MHyp D) :
    inverse (condTab (b12 f D) (u12 f D) f) (liftT D.ay) (liftT (ax12 f D))
      = condTab (bM f D) (uM f D) f :=
  inverse_lift h.inv12

/-- rows of the two inverted tables exactly as the model computes them (stages 1 and 2 composed) -/
theorem stage_rows (h : MHyp D) (y : Fin m) :
    (inverse (condTab D.c1b D.c1u f) (liftT D.ax1)
        ((mbr (liftT D.ax1) (condTab D.c1b D.c1u f)).getD (liftT D.ay)))[y]
      = ⟨liftT (x1b f D y), XQ.fin (x1u f D y)⟩ ∧
    (inverse (condTab D.c2b D.c2u f) (liftT D.ax2)
        ((mbr (liftT D.ax2) (condTab D.c2b D.c2u f)).getD (liftT D.ay)))[y]
      = ⟨liftT (x2b f D y), XQ.fin (x2u f D y)⟩ := by
  rw [(stage1_lift h).1, (stage1_lift h).2, (stage2_lift h).1, (stage2_lift h).2, condTab_get,
    condTab_get]
  exact ⟨rfl, rfl⟩

/-- the whole merge -/
theorem merge_lift (h : MHyp D) (v : Bool) :
    mergeCond2 v (condTab D.c1b D.c1u f) (condTab D.c2b D.c2u f) (liftT D.ax1) (liftT D.ax2)
        (liftT D.ay) = .ok (condTab (bM f D) (uM f D) f) := by
  rw [mergeCond2_eq, cells_lift h v]
  show Except.ok (mFinish _ _ _ _) = _
  unfold mFinish
  rw [stage4_lift h, stage5_lift h]

/-! ### the joint base rate as a model-level value (used to check `ax12 k = 0` on concrete data) -/

/-- the base rate of the joint variable computed by `merge_cond2` (stages 1–4 of the model) -/
def jointBaseRate {α : Type} [Scalar α] (v : Bool) (yx1 : CondTab α n1 m) (yx2 : CondTab α n2 m)
    (ax1 : Tab α n1) (ax2 : Tab α n2) (ay : Tab α m) : Except Label (Tab α (n1 * n2)) :=
  (sequenceE (mCells v yx1 yx2 ax1 ax2 ay)).map fun x12y => (mbr ay x12y).getD (outer2 ax1 ax2)

theorem jointBaseRate_lift (h : MHyp D) (v : Bool) :
    jointBaseRate v (condTab D.c1b D.c1u f) (condTab D.c2b D.c2u f) (liftT D.ax1) (liftT D.ax2)
        (liftT D.ay) = .ok (liftT (ax12 f D)) := by
  unfold jointBaseRate
  rw [cells_lift h v]
  show Except.ok ((mbr _ _).getD _) = _
  rw [stage4_lift h]

/-! ### impossible joint values -/

/-- the joint base rate of `k` is zero exactly when `mbr` is present and no `y` puts belief mass on `k` -/
theorem ax12_eq_zero_iff (h : MHyp D) (k : Fin (n1 * n2)) :
    ax12 f D k = 0 ↔
      ¬ (AllVac f (u12 f D) ∨ S D.ay (u12 f D) = 0) ∧ ∀ y, b12 f D y k = 0 := by
  unfold ax12 ayOf
  by_cases hc : AllVac f (u12 f D) ∨ S D.ay (u12 f D) = 0
  · rw [if_pos hc]
    constructor
    · intro h0; exact absurd h0 (ne_of_gt (A2_pos h k))
    · rintro ⟨h1, _⟩; exact absurd hc h1
  · rw [if_neg hc]
    have hS : S D.ay (u12 f D) ≠ 0 := fun e => hc (Or.inr e)
    unfold may
    rw [div_eq_zero_iff]
    simp only [hS, or_false]
    unfold raw
    rw [Finset.sum_eq_zero_iff_of_nonneg
      (fun y _ => mul_nonneg (le_of_lt (h.hay y)) ((wf12 h y).hb k))]
    constructor
    · intro hz
      refine ⟨fun hv => hc (Or.inl hv), fun y => ?_⟩
      rcases mul_eq_zero.mp (hz y (Finset.mem_univ y)) with e | e
      · exact absurd e (ne_of_gt (h.hay y))
      · exact e
    · rintro ⟨_, hz⟩ y _
      rw [hz y, mul_zero]

/-- … and then the whole column of projected probabilities `P(k|y)` of the joint table is zero -/
theorem zero_column (h : MHyp D) (k : Fin (n1 * n2)) (hk : ax12 f D k = 0) (y : Fin m) :
    b12 f D y k + ax12 f D k * u12 f D y = 0 := by
  rw [hk, ((ax12_eq_zero_iff h k).mp hk).2 y]; ring

/-- the projected probability of the product cell is the product of the inverted projections -/
theorem b12_le (h : MHyp D) (y : Fin m) (k : Fin (n1 * n2)) :
    b12 f D y k ≤ post f D.c1b D.c1u D.ax1 (ay1 f D) y (idx2 k).1
      * post f D.c2b D.c2u D.ax2 (ay2 f D) y (idx2 k).2 := by
  have hA : 0 ≤ A2 D.ax1 D.ax2 k * u12 f D y :=
    mul_nonneg (le_of_lt (A2_pos h k)) (wf12 h y).hu
  have e : b12 f D y k + A2 D.ax1 D.ax2 k * u12 f D y
      = post f D.c1b D.c1u D.ax1 (ay1 f D) y (idx2 k).1
        * post f D.c2b D.c2u D.ax2 (ay2 f D) y (idx2 k).2 := by
    rw [← proj_bI, ← proj_bI]
    exact SLV.Props.C06.C06_outer _ _ _ _ _ _ k
  linarith

/-! ### relabelling the values of `Y` (in C05's naming) by a bijection -/

section relabel
variable {m' : Nat} (e : Fin m' ≃ Fin m)

theorem foldMin_equiv (t : Fin m → ℚ) (c : ℚ) : foldMin (fun i => t (e i)) c = foldMin t c := by
  obtain ⟨a1, a2, a3⟩ := foldMin_spec (fun i => t (e i)) c
  obtain ⟨b1, b2, b3⟩ := foldMin_spec t c
  apply le_antisymm
  · rcases b3 with hb | ⟨j, hj⟩
    · rw [hb]; exact a1
    · rw [hj]
      have := a2 (e.symm j)
      simpa using this
  · rcases a3 with ha | ⟨i, hi⟩
    · rw [ha]; exact b1
    · rw [hi]; exact b2 (e i)

variable (cb : Fin n → Fin m → ℚ) (cu : Fin n → ℚ) (ax : Fin n → ℚ) (ay : Fin m → ℚ)

theorem uyx_relabel :
    uyx f (fun x y' => cb x (e y')) cu (fun y' => ay (e y')) = uyx f cb cu ay := by
  funext x
  exact foldMin_equiv e (cand f (cb x) ay (cu x)) 1

theorem maxUyx_relabel :
    maxUyx f (fun x y' => cb x (e y')) cu (fun y' => ay (e y')) = maxUyx f cb cu ay := by
  funext x
  obtain ⟨s1', s2'⟩ := maxUyx_spec (f := f) (cb := fun x y' => cb x (e y')) (cu := cu)
    (ay := fun y' => ay (e y')) x
  obtain ⟨s1, s2⟩ := maxUyx_spec (f := f) (cb := cb) (cu := cu) (ay := ay) x
  rcases s2 with ⟨hall, hM⟩ | ⟨y, hy, hM⟩
  · rcases s2' with ⟨_, hM'⟩ | ⟨y', hy', _⟩
    · rw [hM, hM']
    · exact absurd (hall (e y')) hy'
  · rcases s2' with ⟨hall', _⟩ | ⟨y', hy', hM'⟩
    · have := hall' (e.symm y)
      simp only [Equiv.apply_symm_apply] at this
      exact absurd this hy
    · apply le_antisymm
      · rw [hM]
        have := s1' (e.symm y) (by simpa using hy)
        unfold Pc at this ⊢
        simpa using this
      · rw [hM']
        exact s1 (e y') hy'

theorem wprop_relabel :
    wprop f (fun x y' => cb x (e y')) cu (fun y' => ay (e y')) = wprop f cb cu ay := by
  unfold wprop weightedU weights uyxSum
  rw [uyx_relabel, maxUyx_relabel]

theorem uI_relabel (y' : Fin m') :
    uI f (fun x y' => cb x (e y')) cu ax (fun y' => ay (e y')) y' = uI f cb cu ax ay (e y') := by
  unfold uI phi
  rw [wprop_relabel]
  rfl

theorem bI_relabel (y' : Fin m') (x : Fin n) :
    bI f (fun x y' => cb x (e y')) cu ax (fun y' => ay (e y')) y' x = bI f cb cu ax ay (e y') x := by
  unfold bI
  rw [uI_relabel]
  rfl

theorem ayOf_relabel (d : Fin m → ℚ) (y' : Fin m') :
    ayOf f ax (fun x y' => cb x (e y')) cu (fun y' => d (e y')) y' = ayOf f ax cb cu d (e y') := by
  unfold ayOf
  split <;> rfl

end relabel

/-! ### exchanging the parents -/

/-- transposition of the flattened joint domain: cell `(j, i)` of `X2×X1` is cell `(i, j)` of `X1×X2` -/
def tr (n1 n2 : Nat) : Fin (n2 * n1) ≃ Fin (n1 * n2) :=
  (finProdFinEquiv.symm.trans (Equiv.prodComm _ _)).trans finProdFinEquiv

theorem tr_apply (k' : Fin (n2 * n1)) : tr n1 n2 k' = flat2 (idx2 k').2 (idx2 k').1 := rfl

@[simp] theorem tr_flat2 (j : Fin n2) (i : Fin n1) : tr n1 n2 (flat2 j i) = flat2 i j := by
  rw [tr_apply, idx2_flat2]

@[simp] theorem idx2_tr (k' : Fin (n2 * n1)) :
    idx2 (tr n1 n2 k') = ((idx2 k').2, (idx2 k').1) := by
  rw [tr_apply, idx2_flat2]

theorem u12_swap (h : MHyp D) : u12 f D.swap = u12 f D := by
  funext y
  exact SLV.Props.C06.C06_transpose_u (wf1 h y) (wf2 h y)

theorem A2_swap (a1 : Fin n1 → ℚ) (a2 : Fin n2 → ℚ) :
    A2 a2 a1 = fun k' => A2 a1 a2 (tr n1 n2 k') := by
  funext k'
  unfold A2
  rw [idx2_tr]
  exact mul_comm _ _

theorem bJ2_swap {b0 a0 : Fin n1 → ℚ} {u0 : ℚ} {b1 a1 : Fin n2 → ℚ} {u1 : ℚ}
    (h0 : WF b0 u0 a0) (h1 : WF b1 u1 a1) :
    bJ2 b1 u1 a1 b0 u0 a0 = fun k' => bJ2 b0 u0 a0 b1 u1 a1 (tr n1 n2 k') := by
  funext k'
  have hu := SLV.Props.C06.C06_transpose_u h0 h1
  unfold uhat2 at hu
  show bJ (P2 b1 u1 a1 b0 u0 a0) (A2 a1 a0) (B2 b1 b0) k'
    = bJ (P2 b0 u0 a0 b1 u1 a1) (A2 a0 a1) (B2 b0 b1) (tr n1 n2 k')
  unfold bJ
  rw [hu]
  unfold P2 A2
  rw [idx2_tr]
  ring

theorem b12_swap (h : MHyp D) : b12 f D.swap = fun y k' => b12 f D y (tr n1 n2 k') := by
  funext y
  exact bJ2_swap (wf1 h y) (wf2 h y)

theorem ax12_swap (h : MHyp D) : ax12 f D.swap = fun k' => ax12 f D (tr n1 n2 k') := by
  funext k'
  unfold ax12
  rw [b12_swap h, u12_swap h]
  show ayOf f D.ay _ _ (A2 D.ax2 D.ax1) k' = _
  rw [A2_swap]
  exact ayOf_relabel (tr n1 n2) (b12 f D) (u12 f D) D.ay (A2 D.ax1 D.ax2) k'

theorem uM_swap (h : MHyp D) (k' : Fin (n2 * n1)) : uM f D.swap k' = uM f D (tr n1 n2 k') := by
  unfold uM
  rw [b12_swap h, u12_swap h, ax12_swap h]
  exact uI_relabel (tr n1 n2) (b12 f D) (u12 f D) D.ay (ax12 f D) k'

theorem bM_swap (h : MHyp D) (k' : Fin (n2 * n1)) (y : Fin m) :
    bM f D.swap k' y = bM f D (tr n1 n2 k') y := by
  unfold bM
  rw [b12_swap h, u12_swap h, ax12_swap h]
  exact bI_relabel (tr n1 n2) (b12 f D) (u12 f D) D.ay (ax12 f D) k' y

/-! ### relabelling the values of the antecedent of a deduction (C04's closed form) by a bijection -/

section relabelX
open SLV.C04 (Px pyhx ptot bmin ucand uRes bRes bmin_spec bmin_unique)
variable {n' : Nat} (e : Fin n' ≃ Fin n)
variable (bx ax : Fin n → ℚ) (ux : ℚ) (cb : Fin n → Fin m → ℚ) (cu : Fin n → ℚ) (ay : Fin m → ℚ)

theorem pyhx_relabelX (y : Fin m) :
    pyhx (fun x' => ax (e x')) (fun x' => cb (e x')) (fun x' => cu (e x')) ay y
      = pyhx ax cb cu ay y := by
  unfold pyhx
  exact Equiv.sum_comp e (fun x => ax x * Pc cb cu ay x y)

theorem ptot_relabelX (y : Fin m) :
    ptot (fun x' => bx (e x')) (fun x' => ax (e x')) ux (fun x' => cb (e x'))
        (fun x' => cu (e x')) ay y = ptot bx ax ux cb cu ay y := by
  unfold ptot
  exact Equiv.sum_comp e (fun x => Px bx ax ux x * Pc cb cu ay x y)

theorem bmin_relabelX (hn : 0 < n) (y : Fin m) :
    bmin (fun x' => cb (e x')) y = bmin cb y := by
  have hn' : 0 < n' := Fin.pos (e.symm ⟨0, hn⟩)
  obtain ⟨s1, x0, s2⟩ := bmin_spec hn' (fun x' => cb (e x')) y
  apply bmin_unique hn cb y
  · intro x
    have := s1 (e.symm x)
    simpa using this
  · exact ⟨e x0, s2⟩

theorem uhat_relabelX (hn : 0 < n) :
    SLV.C04.uhat (fun x' => ax (e x')) (fun x' => cb (e x')) (fun x' => cu (e x')) ay
      = SLV.C04.uhat ax cb cu ay := by
  have hu : ucand (fun x' => ax (e x')) (fun x' => cb (e x')) (fun x' => cu (e x')) ay
      = ucand ax cb cu ay := by
    funext y
    unfold ucand
    rw [pyhx_relabelX, bmin_relabelX e cb hn]
  unfold SLV.C04.uhat
  simp only [hu]

theorem uRes_relabelX (hn : 0 < n) :
    uRes (fun x' => bx (e x')) (fun x' => ax (e x')) ux (fun x' => cb (e x'))
        (fun x' => cu (e x')) ay = uRes bx ax ux cb cu ay := by
  unfold uRes
  rw [uhat_relabelX e ax cb cu ay hn]
  congr 1
  exact Equiv.sum_comp e (fun x => bx x * cu x)

theorem bRes_relabelX (hn : 0 < n) :
    bRes (fun x' => bx (e x')) (fun x' => ax (e x')) ux (fun x' => cb (e x'))
        (fun x' => cu (e x')) ay = bRes bx ax ux cb cu ay := by
  funext y
  unfold bRes
  rw [uRes_relabelX e bx ax ux cb cu ay hn, ptot_relabelX]

end relabelX

end SLV.C11
