/-
  Helper lemmas for C17 (part 8): mutable iteration.  The references yielded by `iter_mut()` are the storage addresses
  in row-major order, so writing `g p x` through the p-th reference maps `g` over the flat list by position.
-/
import SLV.Refine.ArrLemmas7

namespace SLV.MArr

variable {V : Type}

/-- the cells at positions `≥ p` are updated by `g` -/
def updFrom (g : Nat → V → V) (p : Nat) (fl : List V) : List V :=
  fl.mapIdx fun q x => if p ≤ q then g q x else x

theorem updFrom_zero (g : Nat → V → V) (fl : List V) : updFrom g 0 fl = fl.mapIdx g := by
  simp [updFrom]

theorem updFrom_ge (g : Nat → V → V) (p : Nat) (fl : List V) (h : fl.length ≤ p) : updFrom g p fl = fl := by
  apply List.ext_getElem (by simp [updFrom])
  intro q h1 h2
  simp [updFrom] at h1 ⊢
  intro hpq; omega

theorem updFrom_step (g : Nat → V → V) (p : Nat) (fl : List V) (hp : p < fl.length) :
    updFrom g (p + 1) (fl.set p (g p fl[p])) = updFrom g p fl := by
  apply List.ext_getElem (by simp [updFrom])
  intro q h1 h2
  simp only [updFrom, List.getElem_mapIdx, List.getElem_set]
  by_cases hq : p = q
  · subst hq; simp
  · by_cases hlt : p ≤ q
    · have : p + 1 ≤ q := by omega
      simp [hq, hlt, this]
    · have : ¬ p + 1 ≤ q := by omega
      simp [hq, hlt, this]

theorem applyRefs_spec {A : Type} (rd : A → List Nat → Option V) (wr : A → List Nat → V → Option A)
    (g : Nat → V → V) (R : A → List V → Prop) (ps : List (List Nat))
    (hrd : ∀ a fl p (hp : p < ps.length), R a fl → rd a ps[p] = fl[p]?)
    (hwr : ∀ a fl p (hp : p < ps.length) v, R a fl → ∃ a', wr a ps[p] v = some a' ∧ R a' (fl.set p v))
    (hlen : ∀ a fl, R a fl → fl.length = ps.length) :
    ∀ (rest : List (List Nat)) (p : Nat) (a : A) (fl : List V), ps.drop p = rest → R a fl →
      R (applyRefs rd wr g p rest a) (updFrom g p fl) := by
  intro rest
  induction rest with
  | nil =>
    intro p a fl hd hr
    have : ps.length ≤ p := by
      by_contra hc
      have := congrArg List.length hd
      simp at this; omega
    rw [updFrom_ge g p fl (by rw [hlen a fl hr]; exact this)]
    exact hr
  | cons r rest ih =>
    intro p a fl hd hr
    have hp : p < ps.length := by
      by_contra hc
      rw [List.drop_eq_nil_of_le (by omega)] at hd; cases hd
    rw [List.drop_eq_getElem_cons hp] at hd
    obtain ⟨rfl, hd'⟩ := List.cons.inj hd
    have hpf : p < fl.length := by rw [hlen a fl hr]; exact hp
    have h1 := hrd a fl p hp hr
    rw [List.getElem?_eq_getElem hpf] at h1
    obtain ⟨a', h2, h3⟩ := hwr a fl p hp (g p fl[p]) hr
    simp only [applyRefs, h1, h2]
    rw [← updFrom_step g p fl hpf]
    exact ih (p + 1) a' _ hd' h3

/-! ### the addresses -/

theorem L1.refs {d0 : Nat} {a : MArrD1 V} (h : Shape1 d0 a.toU) : a.iterMutRefs = lexList [d0] := by
  have hl : a.inner.length = d0 := h
  obtain ⟨s, hs, _⟩ := sliceLL.complete (MArrD1.addr [] a).iter trivial (a.cellCount + 1)
    (by simp [MArrD1.iter, MArrD1.addr, MArrD1.cellCount])
  rw [MArrD1.iterMutRefs, hs]
  simp [MArrD1.iter, MArrD1.addr, hl, ← (keys_lex d0 0 0).1, keys]

theorem addr2_toU {d0 d1 : Nat} (pre : List Nat) {a : MArrD2 V} (h : Shape2 d0 d1 a.toU) :
    (MArrD2.addr pre a).toU = (List.range d0).map fun i => (List.range d1).map fun j => pre ++ [i] ++ [j] := by
  have hl : a.inner.inner.length = d0 := by simpa [MArrD2.toU] using h.1
  apply List.ext_getElem (by simp [MArrD2.addr, MArrD2.toU, hl])
  intro i h1 h2
  have hi : i < a.inner.inner.length := by simpa [MArrD2.addr, MArrD2.toU] using h1
  have hr : a.inner.inner[i].inner.length = d1 := h.2 _ (List.mem_map_of_mem (List.getElem_mem hi))
  simp [MArrD2.addr, MArrD2.toU, MArrD1.addr, MArrD1.toU, hr]

theorem cellCount2 {d0 d1 : Nat} {a : MArrD2 V} (h : Shape2 d0 d1 a.toU) : a.cellCount = d0 * d1 := by
  have := flat2_length h
  rw [flat2, List.length_flatten] at this
  rw [← this, MArrD2.cellCount, MArrD2.toU, List.map_map]; rfl

theorem L2.refs {d0 d1 : Nat} {a : MArrD2 V} (h : Shape2 d0 d1 a.toU) : a.iterMutRefs = lexList [d0, d1] := by
  have ha := addr2_toU [] h
  have hs : Shape2 d0 d1 (MArrD2.addr [] a).toU := by
    rw [ha]; refine ⟨by simp, fun r hr => ?_⟩
    obtain ⟨i, _, rfl⟩ := List.mem_map.mp hr; simp
  obtain ⟨hg, hc⟩ := L2.iter_init hs
  obtain ⟨s, hd, _⟩ := (L2.LL d1).complete (MArrD2.addr [] a).iter hg (a.cellCount + 1)
    (by rw [hc, flat2_length hs, cellCount2 h]; omega)
  rw [MArrD2.iterMutRefs, hd, hc, ha, flat2]
  have e := lex2_map d0 d1 (id : List Nat → List Nat)
  simp only [List.map_id, id] at e
  rw [e]; simp [List.flatMap_def]

theorem cellCount3 {d0 d1 d2 : Nat} {a : MArrD3 V} (h : Shape3 d0 d1 d2 a.toU) : a.cellCount = d0 * d1 * d2 := by
  have hl : a.inner.inner.length = d0 := by simpa [MArrD3.toU] using h.1
  have : ∀ p ∈ a.inner.inner, p.cellCount = d1 * d2 := fun p hp => cellCount2 (h.2 _ (List.mem_map_of_mem hp))
  rw [MArrD3.cellCount, List.map_congr_left this, List.map_const', hl]
  have : ∀ n c : Nat, (List.replicate n c).sum = n * c := by
    intro n c; induction n with
    | zero => simp
    | succ n ih => simp [List.replicate_succ, ih, Nat.add_mul, Nat.add_comm]
  rw [this, Nat.mul_assoc]

theorem L3.refs {d0 d1 d2 : Nat} {a : MArrD3 V} (h : Shape3 d0 d1 d2 a.toU) :
    a.iterMutRefs = lexList [d0, d1, d2] := by
  have hl : a.inner.inner.length = d0 := by simpa [MArrD3.toU] using h.1
  have ha : (MArrD3.addr a).toU = (List.range d0).map fun i => (List.range d1).map fun j =>
      (List.range d2).map fun k => [i, j, k] := by
    apply List.ext_getElem (by simp [MArrD3.addr, MArrD3.toU, hl])
    intro i h1 h2
    have hi : i < a.inner.inner.length := by simpa [MArrD3.addr, MArrD3.toU] using h1
    have hp : Shape2 d1 d2 a.inner.inner[i].toU := h.2 _ (List.mem_map_of_mem (List.getElem_mem hi))
    simp [MArrD3.addr, MArrD3.toU, addr2_toU [i] hp]
  have hs : Shape3 d0 d1 d2 (MArrD3.addr a).toU := by
    rw [ha]; refine ⟨by simp, fun p hp => ?_⟩
    obtain ⟨i, _, rfl⟩ := List.mem_map.mp hp
    refine ⟨by simp, fun r hr => ?_⟩
    obtain ⟨j, _, rfl⟩ := List.mem_map.mp hr; simp
  obtain ⟨hg, hc⟩ := L3.iter_init hs
  obtain ⟨s, hd, _⟩ := (L3.LL d1 d2).complete (MArrD3.addr a).iter hg (a.cellCount + 1)
    (by rw [hc, flat3_length hs, cellCount3 h]; omega)
  rw [MArrD3.iterMutRefs, hd, hc, ha, flat3]
  have e := lex3_map d0 d1 d2 (id : List Nat → List Nat)
  simp only [List.map_id, id] at e
  rw [e]; simp [List.flatMap_def, Function.comp_def]

/-! ### labelled writes (transfer of `U*.write` through the erasure) -/

theorem L1.write {d0 : Nat} {a : MArrD1 V} (h : Shape1 d0 a.toU) (i : Nat) (hi : i < d0) (v : V) :
    ∃ a', a.indexMut i v = some a' ∧ Shape1 d0 a'.toU ∧ flat1 a'.toU = (flat1 a.toU).set i v := by
  obtain ⟨u, hu, hs, hf⟩ := U1.write h i hi v
  rw [← L1.indexMut_toU] at hu
  cases hm : a.indexMut i v with
  | none => simp [hm] at hu
  | some a' => simp [hm] at hu; exact ⟨a', rfl, hu ▸ hs, hu ▸ hf⟩

theorem L2.write {d0 d1 : Nat} {a : MArrD2 V} (h : Shape2 d0 d1 a.toU) (i j : Nat) (hi : i < d0) (hj : j < d1)
    (v : V) : ∃ a', a.indexMut i j v = some a' ∧ Shape2 d0 d1 a'.toU ∧
      flat2 a'.toU = (flat2 a.toU).set (i * d1 + j) v := by
  obtain ⟨u, hu, hs, hf⟩ := U2.write h i j hi hj v
  rw [← L2.indexMut_toU] at hu
  cases hm : a.indexMut i j v with
  | none => simp [hm] at hu
  | some a' => simp [hm] at hu; exact ⟨a', rfl, hu ▸ hs, hu ▸ hf⟩

theorem L3.write {d0 d1 d2 : Nat} {a : MArrD3 V} (h : Shape3 d0 d1 d2 a.toU) (i j k : Nat)
    (hi : i < d0) (hj : j < d1) (hk : k < d2) (v : V) :
    ∃ a', a.indexMut i j k v = some a' ∧ Shape3 d0 d1 d2 a'.toU ∧
      flat3 a'.toU = (flat3 a.toU).set ((i * d1 + j) * d2 + k) v := by
  obtain ⟨u, hu, hs, hf⟩ := U3.write h i j k hi hj hk v
  rw [← L3.indexMut_toU] at hu
  cases hm : a.indexMut i j k v with
  | none => simp [hm] at hu
  | some a' => simp [hm] at hu; exact ⟨a', rfl, hu ▸ hs, hu ▸ hf⟩

theorem MArrD1.rd_eq (a : MArrD1 V) : MArrD1.rd a = L1.idx' a := by
  funext k
  match k with
  | [] => rfl
  | [_] => rfl
  | _ :: _ :: _ => rfl
theorem MArrD2.rd_eq (a : MArrD2 V) : MArrD2.rd a = L2.idx' a := by
  funext k
  match k with
  | [] => rfl
  | [_] => rfl
  | [_, _] => rfl
  | _ :: _ :: _ :: _ => rfl
theorem MArrD3.rd_eq (a : MArrD3 V) : MArrD3.rd a = L3.idx' a := by
  funext k
  match k with
  | [] => rfl
  | [_] => rfl
  | [_, _] => rfl
  | [_, _, _] => rfl
  | _ :: _ :: _ :: _ :: _ => rfl

/-! ### `iter_mut`: writing `g p x` through the p-th reference = `mapIdx g` on the flat list -/

theorem L1.iterMutApply_ok (g : Nat → V → V) {d0 : Nat} {a : MArrD1 V} (h : Shape1 d0 a.toU) :
    Shape1 d0 (a.iterMutApply g).toU ∧ flat1 (a.iterMutApply g).toU = (flat1 a.toU).mapIdx g := by
  have key := applyRefs_spec MArrD1.rd MArrD1.wr g
    (fun (a : MArrD1 V) fl => Shape1 d0 a.toU ∧ flat1 a.toU = fl) (lexList [d0])
    (fun a fl p hp hr => by
      rw [MArrD1.rd_eq, L1.idx'_toU, U1.idx_lex hr.1 p hp, hr.2])
    (fun a fl p hp v hr => by
      have hp' : p < d0 := by simpa [lexList_length] using hp
      have e := lexList1_getElem? d0 p hp'
      rw [List.getElem?_eq_getElem hp] at e
      rw [Option.some.inj e]
      obtain ⟨a', h1, h2, h3⟩ := L1.write hr.1 p hp' v
      exact ⟨a', h1, h2, by rw [h3, hr.2]⟩)
    (fun a fl hr => by rw [← hr.2, flat1_length hr.1]; simp [lexList_length])
    (lexList [d0]) 0 a (flat1 a.toU) rfl ⟨h, rfl⟩
  rw [updFrom_zero] at key
  rw [MArrD1.iterMutApply, L1.refs h]
  exact key

theorem L2.iterMutApply_ok (g : Nat → V → V) {d0 d1 : Nat} {a : MArrD2 V} (h : Shape2 d0 d1 a.toU) :
    Shape2 d0 d1 (a.iterMutApply g).toU ∧ flat2 (a.iterMutApply g).toU = (flat2 a.toU).mapIdx g := by
  have key := applyRefs_spec MArrD2.rd MArrD2.wr g
    (fun (a : MArrD2 V) fl => Shape2 d0 d1 a.toU ∧ flat2 a.toU = fl) (lexList [d0, d1])
    (fun a fl p hp hr => by
      rw [MArrD2.rd_eq, L2.idx'_toU, U2.idx_lex hr.1 p hp, hr.2])
    (fun a fl p hp v hr => by
      have hp' : p < d0 * d1 := by simpa [lexList_length] using hp
      have hd1 : 0 < d1 := by
        rcases Nat.eq_zero_or_pos d1 with h0 | h0
        · rw [h0] at hp'; simp at hp'
        · exact h0
      have e := lexList2_getElem? d0 d1 p hp'
      rw [List.getElem?_eq_getElem hp] at e
      rw [Option.some.inj e]
      obtain ⟨a', h1, h2, h3⟩ := L2.write hr.1 (p / d1) (p % d1)
        ((Nat.div_lt_iff_lt_mul hd1).mpr hp') (Nat.mod_lt _ hd1) v
      exact ⟨a', h1, h2, by rw [h3, hr.2, Nat.div_add_mod']⟩)
    (fun a fl hr => by rw [← hr.2, flat2_length hr.1]; simp [lexList_length])
    (lexList [d0, d1]) 0 a (flat2 a.toU) rfl ⟨h, rfl⟩
  rw [updFrom_zero] at key
  rw [MArrD2.iterMutApply, L2.refs h]
  exact key

theorem L3.iterMutApply_ok (g : Nat → V → V) {d0 d1 d2 : Nat} {a : MArrD3 V} (h : Shape3 d0 d1 d2 a.toU) :
    Shape3 d0 d1 d2 (a.iterMutApply g).toU ∧ flat3 (a.iterMutApply g).toU = (flat3 a.toU).mapIdx g := by
  have key := applyRefs_spec MArrD3.rd MArrD3.wr g
    (fun (a : MArrD3 V) fl => Shape3 d0 d1 d2 a.toU ∧ flat3 a.toU = fl) (lexList [d0, d1, d2])
    (fun a fl p hp hr => by
      rw [MArrD3.rd_eq, L3.idx'_toU, U3.idx_lex hr.1 p hp, hr.2])
    (fun a fl p hp v hr => by
      have hp' : p < d0 * d1 * d2 := by simpa [lexList_length, Nat.mul_assoc] using hp
      have hP : 0 < d1 * d2 := by
        rcases Nat.eq_zero_or_pos (d1 * d2) with h0 | h0
        · rw [Nat.mul_assoc, h0] at hp'; simp at hp'
        · exact h0
      have hd2 : 0 < d2 := Nat.pos_of_mul_pos_left hP
      have e := lexList3_getElem? d0 d1 d2 p hp'
      rw [List.getElem?_eq_getElem hp] at e
      rw [Option.some.inj e]
      obtain ⟨a', h1, h2, h3⟩ := L3.write hr.1 (p / (d1 * d2)) (p % (d1 * d2) / d2) (p % (d1 * d2) % d2)
        ((Nat.div_lt_iff_lt_mul hP).mpr (by rw [← Nat.mul_assoc]; exact hp'))
        ((Nat.div_lt_iff_lt_mul hd2).mpr (Nat.mod_lt _ hP)) (Nat.mod_lt _ hd2) v
      refine ⟨a', h1, h2, ?_⟩
      rw [h3, hr.2]
      congr 1
      have e1 : p % (d1 * d2) / d2 * d2 + p % (d1 * d2) % d2 = p % (d1 * d2) := Nat.div_add_mod' _ _
      have e2 : p / (d1 * d2) * (d1 * d2) + p % (d1 * d2) = p := Nat.div_add_mod' _ _
      calc (p / (d1 * d2) * d1 + p % (d1 * d2) / d2) * d2 + p % (d1 * d2) % d2
          = p / (d1 * d2) * (d1 * d2) + (p % (d1 * d2) / d2 * d2 + p % (d1 * d2) % d2) := by ring
        _ = p := by rw [e1, e2])
    (fun a fl hr => by rw [← hr.2, flat3_length hr.1]; simp [lexList_length, Nat.mul_assoc])
    (lexList [d0, d1, d2]) 0 a (flat3 a.toU) rfl ⟨h, rfl⟩
  rw [updFrom_zero] at key
  rw [MArrD3.iterMutApply, L3.refs h]
  exact key

end SLV.MArr
