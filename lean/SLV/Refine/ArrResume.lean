/-
  Helper lemmas for C18 `resume`: an enumeration that is advanced by `k` calls of `next()` and then drained.
  Generic part (any iterator state machine `next : σ → Option α × σ`), the list iterator, sortedness of `lexList`
  and the answers of `min` / `max` / `step_by(2)` on a sorted remainder.
-/
import SLV.Refine.ArrLemmas

namespace SLV.MArr

/-! ### `nextN` / `drain` on an arbitrary state machine -/

theorem nextN_length {σ α : Type} (nx : σ → Option α × σ) : ∀ (n : Nat) (s : σ), (nextN nx n s).1.length = n := by
  intro n
  induction n with
  | zero => intro s; rfl
  | succ n ih => intro s; simp [nextN, ih]

theorem nextN_add {σ α : Type} (nx : σ → Option α × σ) : ∀ (a b : Nat) (s : σ),
    nextN nx (a + b) s
      = ((nextN nx a s).1 ++ (nextN nx b (nextN nx a s).2).1, (nextN nx b (nextN nx a s).2).2) := by
  intro a
  induction a with
  | zero => intro b s; simp [nextN]
  | succ a ih =>
    intro b s
    rw [show a + 1 + b = (a + b) + 1 by omega]
    simp only [nextN, ih, List.cons_append]

/-- once `next()` returns `None` without changing the state it does so forever -/
theorem nextN_end {σ α : Type} (nx : σ → Option α × σ) (e : σ) (he : nx e = (none, e)) :
    ∀ n, nextN nx n e = (List.replicate n none, e) := by
  intro n
  induction n with
  | zero => rfl
  | succ n ih => simp [nextN, he, ih, List.replicate_succ]

/-- if the next `|l|` calls return exactly the items `l` and the call after them returns `None`, a draining consumer
    (with enough fuel to see that `None`) collects `l` -/
theorem drain_of_nextN {σ α : Type} (nx : σ → Option α × σ) : ∀ (l : List α) (s s' : σ) (fuel : Nat),
    nextN nx l.length s = (l.map some, s') → (nx s').1 = none → l.length < fuel →
    drain nx fuel s = (l, (nx s').2) := by
  intro l
  induction l with
  | nil =>
    intro s s' fuel h hn hf
    obtain ⟨f, rfl⟩ : ∃ f, fuel = f + 1 := ⟨fuel - 1, by simp at hf; omega⟩
    simp only [List.length_nil, nextN, List.map_nil, Prod.mk.injEq, true_and] at h
    subst h
    rcases hs : nx s with ⟨o, s''⟩
    rw [hs] at hn
    simp only at hn
    subst hn
    simp [drain, hs]
  | cons a l ih =>
    intro s s' fuel h hn hf
    obtain ⟨f, rfl⟩ : ∃ f, fuel = f + 1 := ⟨fuel - 1, by simp at hf; omega⟩
    simp only [List.length_cons, nextN, List.map_cons, Prod.mk.injEq, List.cons.injEq] at h
    obtain ⟨⟨h1, h2⟩, h3⟩ := h
    rcases hs : nx s with ⟨o, s1⟩
    rw [hs] at h1 h2 h3
    simp only at h1 h2 h3
    subst h1
    have := ih s1 s' f (Prod.ext h2 h3) hn (by simp at hf; omega)
    simp [drain, hs, this]

/-- RESUME, generic form.  Let `s` be an iterator state whose next `|l|` calls return the items of `l` and lead to
    a state `e` in which `next()` returns `None` and stays there.  Then `k` calls return the first `k` items of `l`
    (`None` beyond the end) and a draining consumer of the advanced iterator sees exactly `l.drop k`. -/
theorem resume_of_nextN {σ α : Type} (nx : σ → Option α × σ) (s e : σ) (l : List α)
    (h : nextN nx l.length s = (l.map some, e)) (he : nx e = (none, e)) (k fuel : Nat) (hf : l.length - k < fuel) :
    (nextN nx k s).1 = (l.take k).map some ++ List.replicate (k - l.length) none ∧
    drain nx fuel (nextN nx k s).2 = (l.drop k, e) := by
  have he1 : (nx e).1 = none := by rw [he]
  have he2 : (nx e).2 = e := by rw [he]
  by_cases hk : k ≤ l.length
  · obtain ⟨j, hj⟩ : ∃ j, l.length = k + j := ⟨l.length - k, by omega⟩
    rw [hj, nextN_add] at h
    simp only [Prod.mk.injEq] at h
    obtain ⟨h1, h2⟩ := h
    have hlen := nextN_length nx k s
    have hsplit : l.map some = (l.take k).map some ++ (l.drop k).map some := by
      rw [← List.map_append, List.take_append_drop]
    rw [hsplit] at h1
    obtain ⟨hA, hB⟩ := List.append_inj h1 (by simp [hlen]; omega)
    have hdl : (l.drop k).length = j := by simp; omega
    have hB' : nextN nx (l.drop k).length (nextN nx k s).2 = ((l.drop k).map some, e) := by
      rw [hdl]; exact Prod.ext hB h2
    refine ⟨?_, ?_⟩
    · rw [hA, show k - l.length = 0 by omega]; simp
    · have := drain_of_nextN nx (l.drop k) _ e fuel hB' he1 (by simp; omega)
      rw [this, he2]
  · obtain ⟨m, hm⟩ : ∃ m, k = l.length + m := ⟨k - l.length, by omega⟩
    subst hm
    rw [nextN_add, h]
    simp only [nextN_end nx e he]
    obtain ⟨f, rfl⟩ : ∃ f, fuel = f + 1 := ⟨fuel - 1, by omega⟩
    refine ⟨?_, ?_⟩
    · rw [List.take_of_length_le (by omega)]; simp
    · rw [List.drop_of_length_le (by omega)]; simp [drain, he]

/-! ### the two iterators of the model -/

/-- the statement of `C18_multirange` (kept here so that the program-level instances can use it) -/
theorem nextN_lexList (size : List Nat) :
    nextN MultiRange.next (lexList size).length (MultiRange.new size)
      = ((lexList size).map some, ⟨none, size⟩) := by
  rcases pos_or_zero size with h | h
  · obtain ⟨rest, hlex, hch⟩ := lexList_chain size h
    have hlen : ∀ x ∈ List.replicate size.length 0 :: rest, x.length = size.length := by
      intro x hx; exact lexList_length_mem size x (by rw [hlex]; exact hx)
    rw [new_pos size h, hlex]
    exact nextN_chain size rest _ hlen hch
  · rw [new_zero size h, lexList_eq_nil_of_zero size h]; rfl

theorem nextN_slice {V : Type} : ∀ l : List V, nextN SliceIter.next l.length l = (l.map some, []) := by
  intro l
  induction l with
  | nil => rfl
  | cons a l ih => simp [nextN, SliceIter.next, ih]

/-- the model's `indexes()` resumed after `k` calls -/
theorem multirange_resume (size : List Nat) (k : Nat) :
    MultiRange.resume size k
      = (((lexList size).take k).map some ++ List.replicate (k - (lexList size).length) none,
         (lexList size).drop k) := by
  have hl : (lexList size).length - k < size.foldl (· * ·) 1 + 1 := by
    rw [lexList_length, ← List.prod_eq_foldl_nat]; omega
  obtain ⟨h1, h2⟩ := resume_of_nextN MultiRange.next _ _ _ (nextN_lexList size) rfl k _ hl
  simp only [MultiRange.resume, resumeRun, h1, h2]

/-- a list iterator resumed after `k` calls -/
theorem slice_resume {V : Type} (l : List V) (k : Nat) :
    resumeRun SliceIter.next k (l.length + 1) l
      = ((l.take k).map some ++ List.replicate (k - l.length) none, l.drop k) := by
  obtain ⟨h1, h2⟩ := resume_of_nextN SliceIter.next l [] l (nextN_slice l) rfl k (l.length + 1) (by omega)
  simp only [resumeRun, h1, h2]

/-! ### the enumeration is strictly increasing in the lexicographic order of the tuples -/

theorem lexList_sorted : ∀ size : List Nat, (lexList size).Pairwise (· < ·) := by
  intro size
  induction size with
  | nil => simp [lexList]
  | cons s ss ih =>
    rw [lexList, List.pairwise_flatMap]
    refine ⟨fun i _ => ?_, ?_⟩
    · rw [List.pairwise_map]
      exact ih.imp fun {a b} hab => List.cons_lt_cons_iff.mpr (Or.inr ⟨rfl, hab⟩)
    · refine List.pairwise_lt_range.imp fun {i j} hij => ?_
      intro x hx y hy
      obtain ⟨a, _, rfl⟩ := List.mem_map.mp hx
      obtain ⟨b, _, rfl⟩ := List.mem_map.mp hy
      exact List.cons_lt_cons_iff.mpr (Or.inl hij)

theorem lexList_drop_sorted (size : List Nat) (k : Nat) : ((lexList size).drop k).Pairwise (· < ·) :=
  (lexList_sorted size).sublist (List.drop_sublist k _)

/-! ### `min` / `max` / `step_by(2)` on a strictly increasing remainder -/

theorem minLex_sorted (l : List (List Nat)) (h : l.Pairwise (· < ·)) : minLex l = l.head? := by
  cases l with
  | nil => rfl
  | cons a l =>
    have key : ∀ (l : List (List Nat)), (∀ x ∈ l, a < x) →
        l.foldl (fun acc x => match acc with
          | none => some x
          | some a => if x < a then some x else some a) (some a) = some a := by
      intro l
      induction l with
      | nil => intro _; rfl
      | cons x l ih =>
        intro hx
        have hax : a < x := hx x (by simp)
        have : ¬ x < a := fun hxa => List.lt_irrefl a (List.lt_trans hax hxa)
        simp only [List.foldl_cons, this, if_false]
        exact ih fun y hy => hx y (List.mem_cons_of_mem _ hy)
    simp only [minLex, List.foldl_cons, List.head?_cons]
    exact key l fun x hx => List.rel_of_pairwise_cons h hx

theorem maxLex_sorted (l : List (List Nat)) (h : l.Pairwise (· < ·)) : maxLex l = l.getLast? := by
  cases l with
  | nil => rfl
  | cons a l =>
    have key : ∀ (l : List (List Nat)) (a : List Nat), (a :: l).Pairwise (· < ·) →
        l.foldl (fun acc x => match acc with
          | none => some x
          | some a => if x < a then some a else some x) (some a) = (a :: l).getLast? := by
      intro l
      induction l with
      | nil => intro a _; rfl
      | cons x l ih =>
        intro a hp
        have hax : a < x := List.rel_of_pairwise_cons hp (by simp)
        have : ¬ x < a := fun hxa => List.lt_irrefl a (List.lt_trans hax hxa)
        simp only [List.foldl_cons, this, if_false]
        rw [ih x hp.of_cons, List.getLast?_cons_cons]
    simp only [maxLex, List.foldl_cons]
    exact key l a h

/-- `step_by(2)`: the `i`-th item is the `2 i`-th item of the remainder -/
theorem stepBy2_getElem? {α : Type} : ∀ (l : List α) (i : Nat), (stepBy2 l)[i]? = l[2 * i]? := by
  intro l
  induction l using stepBy2.induct with
  | case1 => intro i; simp [stepBy2]
  | case2 a => intro i; cases i <;> simp [stepBy2]
  | case3 a b t ih =>
    intro i
    cases i with
    | zero => simp [stepBy2]
    | succ i => simp [stepBy2, ih i, show 2 * (i + 1) = 2 * i + 1 + 1 by omega]

end SLV.MArr
