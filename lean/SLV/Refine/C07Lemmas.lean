/-
  Helper lemmas for C07 (algebraic laws of the fusion operators; SLV/Props/C07.lean).
  Everything here is about the rational closed forms of SLV/Refine/FuseLemmas.lean
  (`FuseQ.simplexQ`, `FuseQ.baseRateQ`, `FuseQ.fuseQ`, `acmB/acmU`, …).  No property statements.   ε = f.eps.

  INDEX
  symmetry      `XQ.ulpsEq_comm`, `sc_comm`, `simplexQ_comm` (all arms, any rationals), `short_swap`, `baseRateQ_comm`
                (all arms, any rationals, unconditional since repair c8a7116), `baseRateQ_comm_within`, `fuseQ_comm`.
  idempotence   `simplexQ_idem_avg/_wgh`, `simplexQ_idem_within`, `baseRateQ_idem`.
  neutral       `simplexQ_neutral_right/left`, `baseRateQ_neutral_right/left`.
  uncertainty   `acmU_le_left/right`, `avgU_between`, `wghU_between`, `simplexQ_acm_u_le`, `…_avg_u`, `…_wgh_u`.
  evidence      `NV` (u = 1 ∨ ε < u < 1-2ε), `evQ`, `ofEvQ`, `ofEv_ev`, `ev_ofEv`, `acm_ofEv`, `fuse_acm_nv`,
                `FTree`, `FTree.eval`, `FTree.leaves`, `evSum`, `eval_closed`.
-/
import SLV.Refine.FuseLemmas
import Mathlib.Algebra.BigOperators.Pi
import Mathlib.Algebra.BigOperators.Group.List.Basic
import Mathlib.Data.List.Perm.Basic

namespace SLV
open Scalar FuseQ
open SLV.Props.C09 (WF)

set_option linter.unusedSimpArgs false

variable {f : Fmt} {n : Nat}

/-! ### symmetry of `ulps_eq!` -/

theorem XQ.ulpsEq_comm (x y : ℚ) :
    XQ.ulpsEq (XQ.fin x : XQ f) (XQ.fin y) = XQ.ulpsEq (XQ.fin y : XQ f) (XQ.fin x) := by
  simp only [XQ.ulpsEq, XQ.absQ_eq_abs]
  rw [abs_sub_comm x y, abs_sub_comm (ulpIdx f x) (ulpIdx f y)]
  have : decide ((0 ≤ x) ↔ (0 ≤ y)) = decide ((0 ≤ y) ↔ (0 ≤ x)) := decide_eq_decide.mpr iff_comm
  rw [this]

namespace C07

theorem sc_comm (a1 a2 : Fin n → ℚ) (i : Fin n) : sc f a1 a2 i = sc f a2 a1 i := by
  unfold sc; exact decide_eq_decide.mpr eq_comm

/-! ### commutativity of the belief ladder (no well-formedness needed) -/

theorem dog_pair_comm (b1 b2 : Fin n → ℚ) (u1 u2 : ℚ) :
    (dogB b1 u1 b2 u2, (0 : ℚ)) = (dogB b2 u2 b1 u1, 0) := by
  congr 1; funext i; unfold dogB
  rw [add_comm (b1 i), show 2 - u1 - u2 = 2 - u2 - u1 by ring]

theorem acm_pair_comm (b1 b2 : Fin n → ℚ) (u1 u2 : ℚ) :
    (acmB b1 u1 b2 u2, acmU u1 u2) = (acmB b2 u2 b1 u1, acmU u2 u1) := by
  refine Prod.ext (funext fun i => ?_) ?_
  · show (b1 i * u2 + b2 i * u1) / (u1 + u2 - u1 * u2) = (b2 i * u1 + b1 i * u2) / (u2 + u1 - u2 * u1)
    congr 1 <;> ring
  · show u1 * u2 / (u1 + u2 - u1 * u2) = u2 * u1 / (u2 + u1 - u2 * u1)
    congr 1 <;> ring

theorem avg_pair_comm (b1 b2 : Fin n → ℚ) (u1 u2 : ℚ) :
    (avgB b1 u1 b2 u2, avgU u1 u2) = (avgB b2 u2 b1 u1, avgU u2 u1) := by
  refine Prod.ext (funext fun i => ?_) ?_
  · show (b1 i * u2 + b2 i * u1) / (u1 + u2) = (b2 i * u1 + b1 i * u2) / (u2 + u1)
    congr 1 <;> ring
  · show 2 * u1 * u2 / (u1 + u2) = 2 * u2 * u1 / (u2 + u1)
    congr 1 <;> ring

theorem wgh_pair_comm (b1 b2 : Fin n → ℚ) (u1 u2 : ℚ) :
    (wghB b1 u1 b2 u2, wghU u1 u2) = (wghB b2 u2 b1 u1, wghU u2 u1) := by
  refine Prod.ext (funext fun i => ?_) ?_
  · show (b1 i * (1 - u1) * u2 + b2 i * (1 - u2) * u1) / (u2 * (1 - u1) + u1 * (1 - u2))
      = (b2 i * (1 - u2) * u1 + b1 i * (1 - u1) * u2) / (u1 * (1 - u2) + u2 * (1 - u1))
    congr 1 <;> ring
  · show ((1 - u1) + (1 - u2)) * u1 * u2 / (u2 * (1 - u1) + u1 * (1 - u2))
      = ((1 - u2) + (1 - u1)) * u2 * u1 / (u1 * (1 - u2) + u2 * (1 - u1))
    congr 1 <;> ring

/-- the guard ladder of `compute_simlex` is symmetric in its operands, in EVERY arm, for every operator:
    the asymmetric-looking clone arms never overlap (an uncertainty cannot be guard-vacuous and
    guard-dogmatic at once, and both-vacuous / both-dogmatic are tested before) -/
theorem simplexQ_comm (f : Fmt) (op : FuseOp) (b1 : Fin n → ℚ) (u1 : ℚ) (b2 : Fin n → ℚ) (u2 : ℚ) :
    simplexQ f op b1 u1 b2 u2 = simplexQ f op b2 u2 b1 u1 := by
  unfold simplexQ
  by_cases d1 : GDog f u1 <;> by_cases d2 : GDog f u2 <;> by_cases v1 : GVac f u1 <;>
    by_cases v2 : GVac f u2 <;>
    first
    | exact absurd v1 d1.not_GVac
    | exact absurd v2 d2.not_GVac
    | (cases op <;>
        simp only [d1, d2, v1, v2, and_self, and_true, true_and, and_false, false_and, or_self, or_true,
          true_or, or_false, false_or, if_true, if_false] <;>
        first
        | rfl
        | exact dog_pair_comm _ _ _ _
        | exact acm_pair_comm _ _ _ _
        | exact avg_pair_comm _ _ _ _
        | exact wgh_pair_comm _ _ _ _)

/-! ### commutativity of the base-rate ladder -/

theorem meanA_comm (a1 a2 : Fin n → ℚ) : meanA a1 a2 = meanA a2 a1 := by
  funext i; unfold meanA; rw [add_comm]

theorem acmA_comm (a1 a2 : Fin n → ℚ) (u1 u2 : ℚ) : acmA a1 u1 a2 u2 = acmA a2 u2 a1 u1 := by
  funext i
  show (a1 i * u2 * (1 - u1) + a2 i * u1 * (1 - u2)) / (u2 * (1 - u1) + u1 * (1 - u2))
    = (a2 i * u1 * (1 - u2) + a1 i * u2 * (1 - u1)) / (u1 * (1 - u2) + u2 * (1 - u1))
  congr 1 <;> ring

theorem wghA_comm (a1 a2 : Fin n → ℚ) (u1 u2 : ℚ) : wghA a1 u1 a2 u2 = wghA a2 u2 a1 u1 := by
  funext i
  show (a1 i * (1 - u1) + a2 i * (1 - u2)) / ((1 - u1) + (1 - u2))
    = (a2 i * (1 - u2) + a1 i * (1 - u1)) / ((1 - u2) + (1 - u1))
  congr 1 <;> ring

/-- bound used below: the two orders differ at entry `i` by at most the gap of a shortcut entry -/
def gap (f : Fmt) (a1 a2 : Fin n → ℚ) (i : Fin n) : ℚ := if sc f a1 a2 i then |a1 i - a2 i| else 0

theorem gap_nonneg (a1 a2 : Fin n → ℚ) (i : Fin n) : 0 ≤ gap f a1 a2 i := by
  unfold gap; split
  · exact abs_nonneg _
  · exact le_refl _

theorem within_refl (a1 a2 : Fin n → ℚ) (x : ℚ) (i : Fin n) : |x - x| ≤ gap f a1 a2 i := by
  rw [sub_self, abs_zero]; exact gap_nonneg a1 a2 i

/-- the shortcut with swapped operands returns the other operand's entry -- the SAME value, the shortcut being taken
    at equal entries only (since repair c8a7116) -/
theorem short_swap (a1 a2 g : Fin n → ℚ) : short f a1 a2 g = short f a2 a1 g := by
  funext i
  unfold short; rw [sc_comm a2 a1]; split
  · exact sc_iff.mp ‹_›
  · rfl

theorem short_swap_within (a1 a2 g : Fin n → ℚ) (i : Fin n) :
    |short f a1 a2 g i - short f a2 a1 g i| ≤ gap f a1 a2 i := by
  rw [short_swap a2 a1, sub_self, abs_zero]; exact gap_nonneg a1 a2 i

/-- the guard ladder of `compute_base_rate` is symmetric in its operands, in EVERY arm, for every operator, for all
    rational operands: the clone arms never overlap, the weighted formulas are symmetric, and the per-entry
    shortcut is taken at equal entries only -/
theorem baseRateQ_comm (f : Fmt) (op : FuseOp) (a1 : Fin n → ℚ) (u1 : ℚ) (a2 : Fin n → ℚ) (u2 : ℚ) :
    baseRateQ f op false a1 u1 a2 u2 = baseRateQ f op false a2 u2 a1 u1 := by
  unfold baseRateQ
  simp only [Bool.false_eq_true, if_false]
  rw [meanA_comm a2 a1, acmA_comm a2 a1 u2 u1, wghA_comm a2 a1 u2 u1]
  by_cases d1 : GDog f u1 <;> by_cases d2 : GDog f u2 <;> by_cases v1 : GVac f u1 <;>
    by_cases v2 : GVac f u2 <;>
    first
    | exact absurd v1 d1.not_GVac
    | exact absurd v2 d2.not_GVac
    | (cases op <;>
        simp only [d1, d2, v1, v2, and_self, and_true, true_and, and_false, false_and, or_self, or_true,
          true_or, or_false, false_or, if_true, if_false] <;>
        first
        | rfl
        | exact short_swap a1 a2 _)

/-- (kept from the `ulps_eq!` shortcut, whose two orders differed by `|a1 i - a2 i|` at a shortcut entry; now a
    consequence of `baseRateQ_comm`) -/
theorem baseRateQ_comm_within (f : Fmt) (op : FuseOp) (a1 : Fin n → ℚ) (u1 : ℚ) (a2 : Fin n → ℚ) (u2 : ℚ)
    (i : Fin n) :
    |baseRateQ f op false a1 u1 a2 u2 i - baseRateQ f op false a2 u2 a1 u1 i| ≤ gap f a1 a2 i := by
  rw [baseRateQ_comm f op a2 u2 a1 u1, sub_self, abs_zero]; exact gap_nonneg a1 a2 i

/-- the statement "shortcut only at equal entries" is symmetric (and true: `FuseQ.hsc`) -/
theorem hsc_symm {a1 a2 : Fin n → ℚ} (hsc : ∀ i, sc f a1 a2 i = true → a1 i = a2 i) :
    ∀ i, sc f a2 a1 i = true → a2 i = a1 i := fun i h => (hsc i (by rw [sc_comm]; exact h)).symm

/-! ### the MODEL's `compute_base_rate` commutes for ALL operands (any extended values: finite, ±∞, NaN) -/

theorem XQ.add_comm_all (a b : XQ f) : (a + b : XQ f) = b + a := by
  show XQ.add a b = XQ.add b a
  cases a <;> cases b <;> simp [XQ.add, add_comm]

/-- IEEE `==` on the extended rationals is symmetric … -/
theorem XQ.eq_comm_all (a b : XQ f) : Scalar.eq a b = Scalar.eq b a := by
  show XQ.eq a b = XQ.eq b a
  cases a <;> cases b <;> simp [XQ.eq, eq_comm]

/-- … and (no signed zeros in `XQ`) true only of identical values -/
theorem XQ.eq_of_eq_true {a b : XQ f} (h : Scalar.eq a b = true) : a = b := by
  change XQ.eq a b = true at h
  cases a <;> cases b <;> simp_all [XQ.eq]

/-- no value is both `is_one` and `is_zero` -/
theorem XQ.isZero_of_isOne {u : XQ f} (h : isOne u = true) : isZero u = false := by
  change XQ.isOne u = true at h
  show XQ.isZero u = false
  have he := XQ.eps_lt f
  have h0 := XQ.eps_pos f
  cases u <;> simp_all [XQ.isOne, XQ.isZero, XQ.absQ_eq_abs]
  rename_i q
  rw [abs_of_nonneg (by linarith [h.1])]; linarith [h.1]

/-- the per-entry shortcut with swapped operands and a symmetric fall-back value -/
theorem brEntry_comm (x y g g' : XQ f) (hg : g = g') : brEntry x y g = brEntry y x g' := by
  unfold brEntry
  rw [XQ.eq_comm_all y x]
  split
  · exact XQ.eq_of_eq_true ‹_›
  · exact hg

/-- `compute_base_rate` (distinct base-rate objects) is commutative for ALL operands: every guard arm, every
    operator, finite or not, shortcut or not.  The clone arms never overlap (a value is not `is_one` and `is_zero`
    at once; both-vacuous / both-dogmatic are tested first), the three formulas are symmetric up to commutativity
    of `+` on the extended rationals, and the shortcut is taken at identical entries only. -/
theorem computeBaseRate_comm (op : FuseOp) (l r : Opinion (XQ f) n) :
    computeBaseRate op false l r = computeBaseRate op false r l := by
  have hl : l.isVacuous = true → l.isDogmatic = false := XQ.isZero_of_isOne
  have hr : r.isVacuous = true → r.isDogmatic = false := XQ.isZero_of_isOne
  have mean : (Vector.ofFn fun i : Fin n => brEntry l.a[i] r.a[i] ((l.a[i] + r.a[i]) / two) : Tab (XQ f) n)
      = Vector.ofFn fun i : Fin n => brEntry r.a[i] l.a[i] ((r.a[i] + l.a[i]) / two) := by
    congr 1; funext i; exact brEntry_comm _ _ _ _ (by rw [XQ.add_comm_all])
  have dog : (Vector.ofFn fun i : Fin n => (l.a[i] + r.a[i]) / two : Tab (XQ f) n)
      = Vector.ofFn fun i : Fin n => (r.a[i] + l.a[i]) / two := by
    congr 1; funext i; rw [XQ.add_comm_all]
  have acm : (Vector.ofFn fun i : Fin n => brEntry l.a[i] r.a[i]
        ((l.a[i] * r.u * (Scalar.one - l.u) + r.a[i] * l.u * (Scalar.one - r.u))
          / (r.u * (Scalar.one - l.u) + l.u * (Scalar.one - r.u))) : Tab (XQ f) n)
      = Vector.ofFn fun i : Fin n => brEntry r.a[i] l.a[i]
        ((r.a[i] * l.u * (Scalar.one - r.u) + l.a[i] * r.u * (Scalar.one - l.u))
          / (l.u * (Scalar.one - r.u) + r.u * (Scalar.one - l.u))) := by
    congr 1; funext i
    exact brEntry_comm _ _ _ _ (by rw [XQ.add_comm_all (l.a[i] * r.u * _), XQ.add_comm_all (r.u * _)])
  have wgh : (Vector.ofFn fun i : Fin n => brEntry l.a[i] r.a[i]
        ((l.a[i] * (Scalar.one - l.u) + r.a[i] * (Scalar.one - r.u))
          / ((Scalar.one - l.u) + (Scalar.one - r.u))) : Tab (XQ f) n)
      = Vector.ofFn fun i : Fin n => brEntry r.a[i] l.a[i]
        ((r.a[i] * (Scalar.one - r.u) + l.a[i] * (Scalar.one - l.u))
          / ((Scalar.one - r.u) + (Scalar.one - l.u))) := by
    congr 1; funext i
    exact brEntry_comm _ _ _ _ (by rw [XQ.add_comm_all (l.a[i] * _), XQ.add_comm_all (Scalar.one - l.u)])
  unfold computeBaseRate
  simp only [Bool.false_eq_true, if_false]
  rw [mean, dog, acm, wgh]
  cases hd1 : l.isDogmatic <;> cases hd2 : r.isDogmatic <;> cases hv1 : l.isVacuous <;> cases hv2 : r.isVacuous <;>
    first
    | (rw [hl hv1] at hd1; exact absurd hd1 (by decide))
    | (rw [hr hv2] at hd2; exact absurd hd2 (by decide))
    | (cases op <;> simp)

/-- the whole closed form of `fuse` commutes (ECm included: its belief part is a function of the ACm
    simplex and the fused base rate) -/
theorem fuseQ_comm (f : Fmt) (op : FuseOp) (b1 : Fin n → ℚ) (u1 : ℚ) (a1 : Fin n → ℚ) (b2 : Fin n → ℚ)
    (u2 : ℚ) (a2 : Fin n → ℚ) :
    fuseQ f op false b1 u1 a1 b2 u2 a2 = fuseQ f op false b2 u2 a2 b1 u1 a1 := by
  unfold fuseQ
  rw [simplexQ_comm f op b1 u1 b2 u2, baseRateQ_comm f op a1 u1 a2 u2]

theorem fuseQ_comm_same (f : Fmt) (op : FuseOp) (b1 : Fin n → ℚ) (u1 : ℚ) (a : Fin n → ℚ) (b2 : Fin n → ℚ)
    (u2 : ℚ) : fuseQ f op true b1 u1 a b2 u2 a = fuseQ f op true b2 u2 a b1 u1 a := by
  unfold fuseQ
  rw [simplexQ_comm f op b1 u1 b2 u2, baseRateQ_same, baseRateQ_same]

/-! ### idempotence (Avg, Wgh) -/

theorem meanA_self (b : Fin n → ℚ) : meanA b b = b := by funext i; unfold meanA; ring

/-- Avg of an opinion with itself, `u = 0 ∨ ε < u` (the vacuous band included: Avg has no vacuity test) -/
theorem simplexQ_idem_avg {b : Fin n → ℚ} {u : ℚ} (h : SWF b u) (p : PlainD f u) :
    simplexQ f .avg b u b u = (b, u) := by
  rw [simplexQ_avg_plainD h h p p]
  unfold idealS
  by_cases z : u = 0
  · subst z; simp [meanA_self]
  · simp only [z, and_self, if_false]
    have hd : u + u ≠ 0 := fun e => z (by linarith)
    refine Prod.ext (funext fun i => ?_) ?_
    · show (b i * u + b i * u) / (u + u) = b i
      rw [div_eq_iff hd]; ring
    · show 2 * u * u / (u + u) = u
      rw [div_eq_iff hd]; ring

/-- Wgh of an opinion with itself, `u` outside both tolerance bands -/
theorem simplexQ_idem_wgh {b : Fin n → ℚ} {u : ℚ} (h : SWF b u) (p : Plain f u) :
    simplexQ f .wgh b u b u = (b, u) := by
  rw [simplexQ_plain_ideal .wgh h h p p]
  unfold idealS
  by_cases z : u = 0
  · subst z; simp [meanA_self]
  simp only [z, and_self, if_false]
  by_cases o : u = 1
  · subst o
    simp only [and_self, if_true]
    exact Prod.ext (funext fun i => (h.b_eq_zero i).symm) rfl
  · simp only [o, and_self, if_false]
    have h1 : 1 - u ≠ 0 := fun e => o (by linarith)
    have hd : u * (1 - u) + u * (1 - u) ≠ 0 := by
      have : u * (1 - u) ≠ 0 := mul_ne_zero z h1
      intro e; apply this; linarith
    refine Prod.ext (funext fun i => ?_) ?_
    · show (b i * (1 - u) * u + b i * (1 - u) * u) / (u * (1 - u) + u * (1 - u)) = b i
      rw [div_eq_iff hd]; ring
    · show ((1 - u) + (1 - u)) * u * u / (u * (1 - u) + u * (1 - u)) = u
      rw [div_eq_iff hd]; ring

theorem dogB_self (b : Fin n → ℚ) (u : ℚ) (i : Fin n) : dogB b u b u i = b i / (1 - u) := by
  unfold dogB
  rw [show (b i + b i) / 2 = b i by ring, show (2 - u - u) / 2 = 1 - u by ring]

/-- in the dogmatic band the self-fusion is the normalised dogmatic opinion `(b/(1-u), 0)` -/
theorem simplexQ_self_dog (op : FuseOp) {b : Fin n → ℚ} {u : ℚ} (d : GDog f u) :
    simplexQ f op b u b u = (fun i => b i / (1 - u), 0) := by
  unfold simplexQ; rw [if_pos ⟨d, d⟩]
  exact Prod.ext (funext fun i => dogB_self b u i) rfl

/-- in the vacuous band the Wgh self-fusion is the vacuous simplex -/
theorem simplexQ_self_vac_wgh {b : Fin n → ℚ} {u : ℚ} (v : GVac f u) :
    simplexQ f .wgh b u b u = (fun _ => 0, 1) := by
  have nd : ¬ GDog f u := fun d => d.not_GVac v
  unfold simplexQ; simp only [nd, v, and_self, if_false, if_true]

/-- Avg / Wgh of ANY well-formed opinion with itself is within `2ε` of the opinion, componentwise -/
theorem simplexQ_idem_within {op : FuseOp} (hop : op = .avg ∨ op = .wgh) {b : Fin n → ℚ} {u : ℚ}
    (h : SWF b u) :
    (∀ i, |(simplexQ f op b u b u).1 i - b i| ≤ 2 * f.eps) ∧ |(simplexQ f op b u b u).2 - u| ≤ 2 * f.eps := by
  have he := XQ.eps_pos f
  have hl := XQ.eps_lt f
  have exact : simplexQ f op b u b u = (b, u) →
      (∀ i, |(simplexQ f op b u b u).1 i - b i| ≤ 2 * f.eps) ∧
        |(simplexQ f op b u b u).2 - u| ≤ 2 * f.eps := by
    intro e; rw [e]; simp only [sub_self, abs_zero]
    exact ⟨fun _ => by linarith, by linarith⟩
  by_cases d : GDog f u
  · have hu := (GDog_iff h.hu).mp d
    have h1 : 0 < 1 - u := by linarith
    rw [simplexQ_self_dog op d]
    refine ⟨fun i => ?_, ?_⟩
    · show |b i / (1 - u) - b i| ≤ 2 * f.eps
      have e : b i / (1 - u) - b i = b i * u / (1 - u) := by
        rw [div_sub' (ne_of_gt h1)]; congr 1; ring
      have hb := h.b_le i
      have hb0 := h.hb i
      rw [e, abs_of_nonneg (div_nonneg (mul_nonneg hb0 h.hu) h1.le), div_le_iff₀ h1]
      nlinarith [mul_nonneg h.hu (sub_nonneg.mpr hb)]
    · show |0 - u| ≤ 2 * f.eps
      rw [zero_sub, abs_neg, abs_of_nonneg h.hu]; linarith
  · have pu := pos_of_not_GDog h.hu d
    rcases hop with rfl | rfl
    · exact exact (simplexQ_idem_avg h (Or.inr pu))
    · by_cases v : GVac f u
      · rw [simplexQ_self_vac_wgh v]
        have hv := v.1
        have hu1 := h.u_le_one
        refine ⟨fun i => ?_, ?_⟩
        · show |0 - b i| ≤ 2 * f.eps
          rw [zero_sub, abs_neg, abs_of_nonneg (h.hb i)]; linarith [h.b_le i]
        · show |1 - u| ≤ 2 * f.eps
          rw [abs_of_nonneg (by linarith)]; linarith
      · exact exact (simplexQ_idem_wgh h (Or.inr (Or.inr ⟨pu, lt_of_not_GVac h.u_le_one v⟩)))

/-- the base rate of a self-fusion is the base rate (every operator, every arm: mean of equal entries, or the
    reflexive shortcut) -/
theorem baseRateQ_idem (f : Fmt) (op : FuseOp) (same : Bool) (a : Fin n → ℚ) {u1 u2 : ℚ}
    (h10 : 0 ≤ u1) (h11 : u1 ≤ 1) (h20 : 0 ≤ u2) (h21 : u2 ≤ 1) :
    baseRateQ f op same a u1 a u2 = a :=
  funext fun _ => baseRateQ_of_eq f op same a a h10 h11 h20 h21 rfl

/-! ### a guard-vacuous operand is neutral (ACm, ECm's ACm stage, Wgh) -/

theorem simplexQ_neutral_right {op : FuseOp} (hop : op ≠ .avg) (b1 b2 : Fin n → ℚ) {u1 u2 : ℚ}
    (nv1 : ¬ GVac f u1) (v2 : GVac f u2) : simplexQ f op b1 u1 b2 u2 = (b1, u1) := by
  have nd2 : ¬ GDog f u2 := fun d => d.not_GVac v2
  unfold simplexQ
  cases op <;> first | exact absurd rfl hop | simp only [nv1, v2, nd2, and_false, false_and, or_self,
    true_or, if_false, if_true]

theorem simplexQ_neutral_left {op : FuseOp} (hop : op ≠ .avg) (b1 b2 : Fin n → ℚ) {u1 u2 : ℚ}
    (nv1 : ¬ GVac f u1) (v2 : GVac f u2) : simplexQ f op b2 u2 b1 u1 = (b1, u1) := by
  rw [simplexQ_comm]; exact simplexQ_neutral_right hop b1 b2 nv1 v2

theorem baseRateQ_neutral_right {op : FuseOp} (hop : op ≠ .avg) (a1 a2 : Fin n → ℚ) {u1 u2 : ℚ}
    (nv1 : ¬ GVac f u1) (v2 : GVac f u2) : baseRateQ f op false a1 u1 a2 u2 = a1 := by
  have nd2 : ¬ GDog f u2 := fun d => d.not_GVac v2
  unfold baseRateQ
  cases op <;> first | exact absurd rfl hop | simp only [nv1, v2, nd2, and_false, false_and, or_self,
    true_or, if_false, if_true, Bool.false_eq_true]

theorem baseRateQ_neutral_left {op : FuseOp} (hop : op ≠ .avg) (a1 a2 : Fin n → ℚ) {u1 u2 : ℚ}
    (nv1 : ¬ GVac f u1) (v2 : GVac f u2) : baseRateQ f op false a2 u2 a1 u1 = a1 := by
  have nd2 : ¬ GDog f u2 := fun d => d.not_GVac v2
  unfold baseRateQ
  cases op <;> first | exact absurd rfl hop | simp only [nv1, v2, nd2, and_false, false_and, or_self,
    true_or, or_true, if_false, if_true, Bool.false_eq_true]

/-! ### the fused uncertainty -/

theorem acmU_le_left {u1 u2 : ℚ} (p1 : 0 < u1) (h11 : u1 ≤ 1) (h20 : 0 ≤ u2) (h21 : u2 ≤ 1) :
    acmU u1 u2 ≤ u1 := by
  unfold acmU
  rw [div_le_iff₀ (acm_temp_pos p1 h11 h20)]
  nlinarith [mul_nonneg (mul_nonneg p1.le p1.le) (sub_nonneg.mpr h21)]

theorem acmU_le_right {u1 u2 : ℚ} (p1 : 0 < u1) (h11 : u1 ≤ 1) (h20 : 0 ≤ u2) :
    acmU u1 u2 ≤ u2 := by
  unfold acmU
  rw [div_le_iff₀ (acm_temp_pos p1 h11 h20)]
  nlinarith [mul_nonneg (mul_nonneg h20 h20) (sub_nonneg.mpr h11)]

theorem avgU_between {u1 u2 : ℚ} (p1 : 0 < u1) (p2 : 0 < u2) :
    min u1 u2 ≤ avgU u1 u2 ∧ avgU u1 u2 ≤ max u1 u2 := by
  have hs : 0 < u1 + u2 := by linarith
  unfold avgU
  rw [le_div_iff₀ hs, div_le_iff₀ hs]
  rcases le_total u1 u2 with h | h
  · rw [min_eq_left h, max_eq_right h]
    constructor <;> nlinarith [mul_nonneg p1.le (sub_nonneg.mpr h), mul_nonneg p2.le (sub_nonneg.mpr h)]
  · rw [min_eq_right h, max_eq_left h]
    constructor <;> nlinarith [mul_nonneg p1.le (sub_nonneg.mpr h), mul_nonneg p2.le (sub_nonneg.mpr h)]

theorem wghU_between {u1 u2 : ℚ} (p1 : 0 < u1) (l1 : u1 < 1) (p2 : 0 < u2) (l2 : u2 < 1) :
    min u1 u2 ≤ wghU u1 u2 ∧ wghU u1 u2 ≤ max u1 u2 := by
  have hs : 0 < u2 * (1 - u1) + u1 * (1 - u2) := wgh_temp_pos l1 p1.le p2 l2.le
  have c1 : 0 ≤ 1 - u1 := by linarith
  have c2 : 0 ≤ 1 - u2 := by linarith
  unfold wghU
  rw [le_div_iff₀ hs, div_le_iff₀ hs]
  rcases le_total u1 u2 with h | h
  · rw [min_eq_left h, max_eq_right h]
    constructor
    · nlinarith [mul_nonneg (mul_nonneg p1.le c2) (sub_nonneg.mpr h)]
    · nlinarith [mul_nonneg (mul_nonneg p2.le c1) (sub_nonneg.mpr h)]
  · rw [min_eq_right h, max_eq_left h]
    constructor
    · nlinarith [mul_nonneg (mul_nonneg p2.le c1) (sub_nonneg.mpr h)]
    · nlinarith [mul_nonneg (mul_nonneg p1.le c2) (sub_nonneg.mpr h)]

/-- a clone arm returns one of the operands' uncertainties -/
theorem between_left (u1 u2 : ℚ) : min u1 u2 ≤ u1 ∧ u1 ≤ max u1 u2 := ⟨min_le_left _ _, le_max_left _ _⟩
theorem between_right (u1 u2 : ℚ) : min u1 u2 ≤ u2 ∧ u2 ≤ max u1 u2 := ⟨min_le_right _ _, le_max_right _ _⟩

/-- ACm / ECm's ACm stage: unless BOTH operands are guard-vacuous (result: exactly vacuous), the fused
    uncertainty is at most the smaller operand uncertainty — every other arm -/
theorem simplexQ_acm_u_le {op : FuseOp} (hop : op = .acm ∨ op = .ecm) {b1 b2 : Fin n → ℚ} {u1 u2 : ℚ}
    (h1 : SWF b1 u1) (h2 : SWF b2 u2) (hv : ¬ (GVac f u1 ∧ GVac f u2)) :
    (simplexQ f op b1 u1 b2 u2).2 ≤ min u1 u2 := by
  have he := XQ.eps_pos f
  have key : (if GDog f u1 ∧ GDog f u2 then (dogB b1 u1 b2 u2, (0 : ℚ))
      else if GVac f u1 ∧ GVac f u2 then ((fun _ => 0 : Fin n → ℚ), (1 : ℚ))
      else if GVac f u1 ∨ GDog f u2 then (b2, u2)
      else if GVac f u2 ∨ GDog f u1 then (b1, u1)
      else (acmB b1 u1 b2 u2, acmU u1 u2)).2 ≤ min u1 u2 := by
    by_cases hd : GDog f u1 ∧ GDog f u2
    · rw [if_pos hd]; exact le_min h1.hu h2.hu
    rw [if_neg hd, if_neg hv]
    by_cases hr : GVac f u1 ∨ GDog f u2
    · rw [if_pos hr]
      refine le_min ?_ (le_refl _)
      rcases hr with v1 | d2
      · have := lt_of_not_GVac h2.u_le_one (fun v2 => hv ⟨v1, v2⟩)
        have := v1.1
        show u2 ≤ u1; linarith
      · have := pos_of_not_GDog h1.hu (fun d1 => hd ⟨d1, d2⟩)
        have := (GDog_iff h2.hu).mp d2
        show u2 ≤ u1; linarith
    rw [if_neg hr]
    by_cases hl : GVac f u2 ∨ GDog f u1
    · rw [if_pos hl]
      refine le_min (le_refl _) ?_
      rcases hl with v2 | d1
      · have := lt_of_not_GVac h1.u_le_one (fun v1 => hv ⟨v1, v2⟩)
        have := v2.1
        show u1 ≤ u2; linarith
      · have := pos_of_not_GDog h2.hu (fun d2 => hd ⟨d1, d2⟩)
        have := (GDog_iff h1.hu).mp d1
        show u1 ≤ u2; linarith
    rw [if_neg hl]
    have p1 := pos_of_not_GDog h1.hu (fun d => hl (Or.inr d))
    exact le_min (acmU_le_left (by linarith) h1.u_le_one h2.hu h2.u_le_one)
      (acmU_le_right (by linarith) h1.u_le_one h2.hu)
  rcases hop with rfl | rfl <;> exact key

/-- both guard-vacuous (ACm, ECm's ACm stage, Wgh): exactly the vacuous simplex -/
theorem simplexQ_both_vac {op : FuseOp} (hop : op ≠ .avg) (b1 b2 : Fin n → ℚ) {u1 u2 : ℚ}
    (v1 : GVac f u1) (v2 : GVac f u2) : simplexQ f op b1 u1 b2 u2 = (fun _ => 0, 1) := by
  have nd1 : ¬ GDog f u1 := fun d => d.not_GVac v1
  unfold simplexQ
  cases op <;> first | exact absurd rfl hop | simp only [nd1, v1, v2, false_and, and_self, if_false, if_true]

/-- both guard-dogmatic (every operator): uncertainty exactly 0 -/
theorem simplexQ_both_dog_u (op : FuseOp) (b1 b2 : Fin n → ℚ) {u1 u2 : ℚ}
    (d1 : GDog f u1) (d2 : GDog f u2) : (simplexQ f op b1 u1 b2 u2).2 = 0 := by
  unfold simplexQ; rw [if_pos ⟨d1, d2⟩]

/-- Avg: unless BOTH operands are guard-dogmatic, the fused uncertainty lies between the operands' -/
theorem simplexQ_avg_u {b1 b2 : Fin n → ℚ} {u1 u2 : ℚ} (h1 : SWF b1 u1) (h2 : SWF b2 u2)
    (hd : ¬ (GDog f u1 ∧ GDog f u2)) :
    min u1 u2 ≤ (simplexQ f .avg b1 u1 b2 u2).2 ∧ (simplexQ f .avg b1 u1 b2 u2).2 ≤ max u1 u2 := by
  have he := XQ.eps_pos f
  unfold simplexQ
  rw [if_neg hd]; dsimp only
  by_cases d1 : GDog f u1
  · rw [if_pos d1]; exact between_left u1 u2
  rw [if_neg d1]
  by_cases d2 : GDog f u2
  · rw [if_pos d2]; exact between_right u1 u2
  rw [if_neg d2]
  exact avgU_between (by linarith [pos_of_not_GDog h1.hu d1]) (by linarith [pos_of_not_GDog h2.hu d2])

/-- Wgh: unless both operands are guard-dogmatic or both guard-vacuous, the fused uncertainty lies between
    the operands' -/
theorem simplexQ_wgh_u {b1 b2 : Fin n → ℚ} {u1 u2 : ℚ} (h1 : SWF b1 u1) (h2 : SWF b2 u2)
    (hd : ¬ (GDog f u1 ∧ GDog f u2)) (hv : ¬ (GVac f u1 ∧ GVac f u2)) :
    min u1 u2 ≤ (simplexQ f .wgh b1 u1 b2 u2).2 ∧ (simplexQ f .wgh b1 u1 b2 u2).2 ≤ max u1 u2 := by
  have he := XQ.eps_pos f
  unfold simplexQ
  rw [if_neg hd]; dsimp only
  rw [if_neg hv]
  by_cases hr : GVac f u1 ∨ GDog f u2
  · rw [if_pos hr]; exact between_right u1 u2
  rw [if_neg hr]
  by_cases hl : GVac f u2 ∨ GDog f u1
  · rw [if_pos hl]; exact between_left u1 u2
  rw [if_neg hl]
  have p1 := pos_of_not_GDog h1.hu (fun d => hl (Or.inr d))
  have p2 := pos_of_not_GDog h2.hu (fun d => hr (Or.inr d))
  have l1 := lt_of_not_GVac h1.u_le_one (fun v => hr (Or.inl v))
  have l2 := lt_of_not_GVac h2.u_le_one (fun v => hl (Or.inl v))
  exact wghU_between (by linarith) (by linarith) (by linarith) (by linarith)

/-! ### evidence representation of non-dogmatic opinions; ACm is addition of evidence -/

/-- non-dogmatic and outside both tolerance bands: exactly vacuous, or `ε < u < 1-2ε` -/
def NV (f : Fmt) (u : ℚ) : Prop := u = 1 ∨ (f.eps < u ∧ u < 1 - 2 * f.eps)

theorem NV.plain {u : ℚ} (h : NV f u) : Plain f u :=
  h.elim (fun e => Or.inr (Or.inl e)) (fun e => Or.inr (Or.inr e))

theorem NV.eps_lt {u : ℚ} (h : NV f u) : f.eps < u := by
  have := XQ.eps_lt f
  rcases h with rfl | h
  · linarith
  · exact h.1

theorem NV.pos {u : ℚ} (h : NV f u) : 0 < u := lt_trans (XQ.eps_pos f) h.eps_lt
theorem NV.ne_zero {u : ℚ} (h : NV f u) : u ≠ 0 := ne_of_gt h.pos
theorem NV.one : NV f 1 := Or.inl rfl

theorem acmU_one_left (u : ℚ) : acmU 1 u = u := by unfold acmU; simp
theorem acmU_one_right (u : ℚ) : acmU u 1 = u := by unfold acmU; simp

/-- the ACm uncertainty of two such operands is again outside the bands, provided it stays above `ε` -/
theorem NV.acm {u1 u2 : ℚ} (n1 : NV f u1) (n2 : NV f u2) (h : f.eps < acmU u1 u2) : NV f (acmU u1 u2) := by
  have he := XQ.eps_pos f
  rcases n1 with rfl | ⟨p1, l1⟩
  · rw [acmU_one_left]; exact n2
  rcases n2 with rfl | ⟨p2, l2⟩
  · rw [acmU_one_right]; exact Or.inr ⟨p1, l1⟩
  refine Or.inr ⟨h, lt_of_le_of_lt (acmU_le_left (by linarith) (by linarith) (by linarith) (by linarith)) l1⟩

/-- evidence of a non-dogmatic opinion (up to the constant prior weight `W`): `r_i = b_i / u` -/
def evQ (b : Fin n → ℚ) (u : ℚ) : Fin n → ℚ := fun i => b i / u

/-- the opinion of an evidence vector: `b_i = r_i / (1 + Σr)`, `u = 1 / (1 + Σr)` -/
def ofEvQ (r : Fin n → ℚ) : (Fin n → ℚ) × ℚ := (fun i => r i / (1 + ∑ j, r j), 1 / (1 + ∑ j, r j))

theorem evQ_nonneg {b : Fin n → ℚ} {u : ℚ} (h : SWF b u) (i : Fin n) : 0 ≤ evQ b u i :=
  div_nonneg (h.hb i) h.hu

theorem sum_evQ {b : Fin n → ℚ} {u : ℚ} (h : SWF b u) (hu : u ≠ 0) : ∑ i, evQ b u i = 1 / u - 1 := by
  unfold evQ
  rw [← Finset.sum_div, h.sum_b, sub_div, div_self hu]

theorem ofEv_ev {b : Fin n → ℚ} {u : ℚ} (h : SWF b u) (hu : u ≠ 0) : ofEvQ (evQ b u) = (b, u) := by
  unfold ofEvQ
  rw [sum_evQ h hu, show 1 + (1 / u - 1) = 1 / u by ring]
  refine Prod.ext (funext fun i => ?_) ?_
  · show b i / u / (1 / u) = b i
    field_simp
  · show 1 / (1 / u) = u
    field_simp

theorem ofEv_den_pos {r : Fin n → ℚ} (hr : ∀ i, 0 ≤ r i) : 0 < 1 + ∑ j, r j := by
  have := Finset.sum_nonneg (fun i (_ : i ∈ Finset.univ) => hr i); linarith

theorem ofEv_swf {r : Fin n → ℚ} (hr : ∀ i, 0 ≤ r i) : SWF (ofEvQ r).1 (ofEvQ r).2 := by
  have hp := ofEv_den_pos hr
  refine ⟨fun i => div_nonneg (hr i) hp.le, div_nonneg zero_le_one hp.le, ?_⟩
  show ∑ i, r i / (1 + ∑ j, r j) + 1 / (1 + ∑ j, r j) = 1
  rw [← Finset.sum_div, ← add_div, add_comm, div_self (ne_of_gt hp)]

theorem ofEv_u_pos {r : Fin n → ℚ} (hr : ∀ i, 0 ≤ r i) : 0 < (ofEvQ r).2 :=
  div_pos one_pos (ofEv_den_pos hr)

theorem ev_ofEv {r : Fin n → ℚ} (hr : ∀ i, 0 ≤ r i) : evQ (ofEvQ r).1 (ofEvQ r).2 = r := by
  have hp := ne_of_gt (ofEv_den_pos hr)
  funext i
  show r i / (1 + ∑ j, r j) / (1 / (1 + ∑ j, r j)) = r i
  field_simp

/-- more evidence, less uncertainty -/
theorem ofEv_u_anti {r r' : Fin n → ℚ} (hr : ∀ i, 0 ≤ r i) (hle : ∀ i, r i ≤ r' i) :
    (ofEvQ r').2 ≤ (ofEvQ r).2 := by
  have hp := ofEv_den_pos hr
  have hs : ∑ j, r j ≤ ∑ j, r' j := Finset.sum_le_sum fun i _ => hle i
  show 1 / (1 + ∑ j, r' j) ≤ 1 / (1 + ∑ j, r j)
  exact one_div_le_one_div_of_le hp (by linarith)

/-- ACm's formula arm adds evidence -/
theorem acm_ofEv {r1 r2 : Fin n → ℚ} (h1 : ∀ i, 0 ≤ r1 i) (h2 : ∀ i, 0 ≤ r2 i) :
    (acmB (ofEvQ r1).1 (ofEvQ r1).2 (ofEvQ r2).1 (ofEvQ r2).2, acmU (ofEvQ r1).2 (ofEvQ r2).2)
      = ofEvQ (r1 + r2) := by
  have p1 := ofEv_den_pos h1
  have p2 := ofEv_den_pos h2
  have hs : ∑ j, (r1 + r2) j = ∑ j, r1 j + ∑ j, r2 j := by
    simp only [Pi.add_apply, Finset.sum_add_distrib]
  have q1 := Finset.sum_nonneg (fun i (_ : i ∈ Finset.univ) => h1 i)
  have q2 := Finset.sum_nonneg (fun i (_ : i ∈ Finset.univ) => h2 i)
  have p12 : 0 < 1 + (∑ j, r1 j + ∑ j, r2 j) := by linarith
  unfold ofEvQ acmB acmU
  rw [hs]
  generalize ∑ j, r1 j = s1 at *
  generalize ∑ j, r2 j = s2 at *
  have e1 := ne_of_gt p1
  have e2 := ne_of_gt p2
  have e12 := ne_of_gt p12
  have ht : 1 / (1 + s1) + 1 / (1 + s2) - 1 / (1 + s1) * (1 / (1 + s2))
      = (1 + (s1 + s2)) / ((1 + s1) * (1 + s2)) := by
    field_simp; ring
  refine Prod.ext (funext fun i => ?_) ?_
  · show (r1 i / (1 + s1) * (1 / (1 + s2)) + r2 i / (1 + s2) * (1 / (1 + s1)))
        / (1 / (1 + s1) + 1 / (1 + s2) - 1 / (1 + s1) * (1 / (1 + s2))) = (r1 i + r2 i) / (1 + (s1 + s2))
    rw [ht]; field_simp
  · show 1 / (1 + s1) * (1 / (1 + s2))
        / (1 / (1 + s1) + 1 / (1 + s2) - 1 / (1 + s1) * (1 / (1 + s2))) = 1 / (1 + (s1 + s2))
    rw [ht]; field_simp

/-- a lifted opinion over the base rate `a` -/
def opQ (a : Fin n → ℚ) (p : (Fin n → ℚ) × ℚ) : Opinion (XQ f) n := ⟨liftT p.1, XQ.fin p.2, liftT a⟩

/-- ACm of two well-formed `NV` operands with the same base rate (shared object or equal values): the
    formula arm (a vacuous operand is the special case `acmB/acmU` at `u = 1`), base rate unchanged -/
theorem fuse_acm_nv (same : Bool) (a : Fin n → ℚ) {b1 b2 : Fin n → ℚ} {u1 u2 : ℚ}
    (h1 : SWF b1 u1) (h2 : SWF b2 u2) (n1 : NV f u1) (n2 : NV f u2) :
    fuse .acm same (opQ a (b1, u1) : Opinion (XQ f) n) (opQ a (b2, u2))
      = opQ a (acmB b1 u1 b2 u2, acmU u1 u2) := by
  unfold opQ
  rw [fuse_lift (by decide) same h1 h2 a a, simplexQ_plain_ideal .acm h1 h2 n1.plain n2.plain,
    baseRateQ_idem f .acm same a h1.hu h1.u_le_one h2.hu h2.u_le_one]
  unfold idealS
  simp only [n1.ne_zero, n2.ne_zero, and_self, if_false]

/-- the same in evidence space -/
theorem fuse_acm_ev (same : Bool) (a : Fin n → ℚ) {r1 r2 : Fin n → ℚ}
    (h1 : ∀ i, 0 ≤ r1 i) (h2 : ∀ i, 0 ≤ r2 i) (n1 : NV f (ofEvQ r1).2) (n2 : NV f (ofEvQ r2).2) :
    fuse .acm same (opQ a (ofEvQ r1) : Opinion (XQ f) n) (opQ a (ofEvQ r2)) = opQ a (ofEvQ (r1 + r2)) := by
  rw [← acm_ofEv h1 h2]
  exact fuse_acm_nv same a (ofEv_swf h1) (ofEv_swf h2) n1 n2

/-! ### arbitrary groupings: fusion trees -/

/-- a grouping of a sequence of opinions `(b, u)`: a binary tree whose leaves are the operands -/
inductive FTree (n : Nat) where
  | leaf (p : (Fin n → ℚ) × ℚ)
  | node (l r : FTree n)

/-- the operands of a grouping, left to right -/
def FTree.leaves : FTree n → List ((Fin n → ℚ) × ℚ)
  | .leaf p => [p]
  | .node l r => l.leaves ++ r.leaves

/-- evaluate a grouping with the MODEL's ACm `fuse` (all operands carry the base rate `a`) -/
def FTree.eval (f : Fmt) (same : Bool) (a : Fin n → ℚ) : FTree n → Opinion (XQ f) n
  | .leaf p => opQ a p
  | .node l r => fuse .acm same (l.eval f same a) (r.eval f same a)

/-- total evidence of a list of operands -/
def evSum (L : List ((Fin n → ℚ) × ℚ)) : Fin n → ℚ := (L.map fun p => evQ p.1 p.2).sum

/-- every operand is a well-formed simplex with `u = 1` or `ε < u < 1-2ε` -/
def Good (f : Fmt) (L : List ((Fin n → ℚ) × ℚ)) : Prop := ∀ p ∈ L, SWF p.1 p.2 ∧ NV f p.2

theorem evSum_nil : evSum ([] : List ((Fin n → ℚ) × ℚ)) = 0 := rfl

theorem evSum_cons (p : (Fin n → ℚ) × ℚ) (L : List ((Fin n → ℚ) × ℚ)) :
    evSum (p :: L) = evQ p.1 p.2 + evSum L := by
  unfold evSum; rw [List.map_cons, List.sum_cons]

theorem evSum_append (L L' : List ((Fin n → ℚ) × ℚ)) : evSum (L ++ L') = evSum L + evSum L' := by
  unfold evSum; rw [List.map_append, List.sum_append]

theorem evSum_perm {L L' : List ((Fin n → ℚ) × ℚ)} (h : L.Perm L') : evSum L = evSum L' := by
  unfold evSum; exact (h.map _).sum_eq

theorem Good.cons {p : (Fin n → ℚ) × ℚ} {L : List ((Fin n → ℚ) × ℚ)} (h : Good f (p :: L)) :
    (SWF p.1 p.2 ∧ NV f p.2) ∧ Good f L :=
  ⟨h p (List.mem_cons_self ..), fun q hq => h q (List.mem_cons_of_mem _ hq)⟩

theorem Good.append {L L' : List ((Fin n → ℚ) × ℚ)} (h : Good f (L ++ L')) : Good f L ∧ Good f L' :=
  ⟨fun q hq => h q (List.mem_append_left _ hq), fun q hq => h q (List.mem_append_right _ hq)⟩

theorem Good.perm {L L' : List ((Fin n → ℚ) × ℚ)} (hp : L.Perm L') (h : Good f L) : Good f L' :=
  fun q hq => h q (hp.mem_iff.mpr hq)

theorem evSum_nonneg {L : List ((Fin n → ℚ) × ℚ)} (h : Good f L) (i : Fin n) : 0 ≤ evSum L i := by
  induction L with
  | nil => exact le_refl _
  | cons p L ih =>
    rw [evSum_cons]
    exact add_nonneg (evQ_nonneg h.cons.1.1 i) (ih h.cons.2)

/-- the total uncertainty `1 / (1 + Σ_k (1/u_k - 1))` -/
theorem evSum_total {L : List ((Fin n → ℚ) × ℚ)} (h : Good f L) :
    (ofEvQ (evSum L)).2 = 1 / (1 + (L.map fun p => 1 / p.2 - 1).sum) := by
  have : ∑ j, evSum L j = (L.map fun p => 1 / p.2 - 1).sum := by
    induction L with
    | nil => simp [evSum_nil]
    | cons p L ih =>
      rw [evSum_cons, List.map_cons, List.sum_cons, ← ih h.cons.2,
        ← sum_evQ h.cons.1.1 h.cons.1.2.ne_zero, ← Finset.sum_add_distrib]
      rfl
  show 1 / (1 + ∑ j, evSum L j) = _
  rw [this]

/-- if the total uncertainty stays above `ε`, it is again `NV` -/
theorem nv_evSum {L : List ((Fin n → ℚ) × ℚ)} (h : Good f L) (htot : f.eps < (ofEvQ (evSum L)).2) :
    NV f (ofEvQ (evSum L)).2 := by
  induction L with
  | nil => left; simp [evSum_nil, ofEvQ]
  | cons p L ih =>
    obtain ⟨⟨hp, np⟩, hL⟩ := h.cons
    have hnn := evSum_nonneg hL
    have hmono : (ofEvQ (evSum (p :: L))).2 ≤ (ofEvQ (evSum L)).2 :=
      ofEv_u_anti hnn (fun i => by rw [evSum_cons]; exact le_add_of_nonneg_left (evQ_nonneg hp i))
    have nL := ih hL (lt_of_lt_of_le htot hmono)
    have e := acm_ofEv (evQ_nonneg hp) hnn
    rw [ofEv_ev hp np.ne_zero, ← evSum_cons] at e
    have e2 : (ofEvQ (evSum (p :: L))).2 = acmU p.2 (ofEvQ (evSum L)).2 := by rw [← e]
    rw [e2] at htot ⊢
    exact np.acm nL htot

theorem FTree.leaves_ne_nil (t : FTree n) : t.leaves ≠ [] := by
  induction t with
  | leaf p => simp [FTree.leaves]
  | node l r ihl _ => simp [FTree.leaves, ihl]

/-- CLOSED FORM.  Any grouping of well-formed `NV` operands over one base rate whose total uncertainty stays
    above `ε` evaluates (with the model's `fuse`) to the opinion of the total evidence. -/
theorem eval_closed (same : Bool) (a : Fin n → ℚ) (t : FTree n) (h : Good f t.leaves)
    (htot : f.eps < (ofEvQ (evSum t.leaves)).2) :
    t.eval f same a = opQ a (ofEvQ (evSum t.leaves)) := by
  induction t with
  | leaf p =>
    have hp := h p (by simp [FTree.leaves])
    show opQ a p = opQ a (ofEvQ (evSum [p]))
    rw [evSum_cons, evSum_nil, add_zero, ofEv_ev hp.1 hp.2.ne_zero]
  | node l r ihl ihr =>
    obtain ⟨hl, hr⟩ := Good.append (show Good f (l.leaves ++ r.leaves) from h)
    have nnl := evSum_nonneg hl
    have nnr := evSum_nonneg hr
    have htot' : f.eps < (ofEvQ (evSum (l.leaves ++ r.leaves))).2 := htot
    have ml : (ofEvQ (evSum (l.leaves ++ r.leaves))).2 ≤ (ofEvQ (evSum l.leaves)).2 :=
      ofEv_u_anti nnl (fun i => by rw [evSum_append]; exact le_add_of_nonneg_right (nnr i))
    have mr : (ofEvQ (evSum (l.leaves ++ r.leaves))).2 ≤ (ofEvQ (evSum r.leaves)).2 :=
      ofEv_u_anti nnr (fun i => by rw [evSum_append]; exact le_add_of_nonneg_left (nnl i))
    have tl := lt_of_lt_of_le htot' ml
    have tr := lt_of_lt_of_le htot' mr
    show fuse .acm same (l.eval f same a) (r.eval f same a) = opQ a (ofEvQ (evSum (l.leaves ++ r.leaves)))
    rw [ihl hl tl, ihr hr tr, evSum_append]
    exact fuse_acm_ev same a nnl nnr (nv_evSum hl tl) (nv_evSum hr tr)

/-- left fold as a grouping -/
def combL : FTree n → List ((Fin n → ℚ) × ℚ) → FTree n
  | t, [] => t
  | t, x :: L => combL (.node t (.leaf x)) L

/-- right fold as a grouping -/
def combR : List ((Fin n → ℚ) × ℚ) → FTree n → FTree n
  | [], t => t
  | x :: L, t => .node (.leaf x) (combR L t)

theorem leaves_combL (t : FTree n) (L : List ((Fin n → ℚ) × ℚ)) : (combL t L).leaves = t.leaves ++ L := by
  induction L generalizing t with
  | nil => simp [combL]
  | cons x L ih => rw [combL, ih]; simp [FTree.leaves]

theorem leaves_combR (L : List ((Fin n → ℚ) × ℚ)) (t : FTree n) : (combR L t).leaves = L ++ t.leaves := by
  induction L with
  | nil => simp [combR]
  | cons x L ih => simp [combR, FTree.leaves, ih]

theorem foldl_eq_eval (same : Bool) (a : Fin n → ℚ) (t : FTree n) (L : List ((Fin n → ℚ) × ℚ)) :
    (L.map (opQ a)).foldl (fuse .acm same) (t.eval f same a) = (combL t L).eval f same a := by
  induction L generalizing t with
  | nil => rfl
  | cons x L ih =>
    rw [List.map_cons, List.foldl_cons, combL, ← ih]
    rfl

theorem foldr_eq_eval (same : Bool) (a : Fin n → ℚ) (t : FTree n) (L : List ((Fin n → ℚ) × ℚ)) :
    (L.map (opQ a)).foldr (fuse .acm same) (t.eval f same a) = (combR L t).eval f same a := by
  induction L with
  | nil => rfl
  | cons x L ih =>
    rw [List.map_cons, List.foldr_cons, combR, ih]
    rfl

/-! ### miscellaneous -/

theorem liftT_inj {g g' : Fin n → ℚ} (h : (liftT g : Tab (XQ f) n) = liftT g') : g = g' := by
  funext i
  have := congrArg (fun v : Tab (XQ f) n => v[i]) h
  simp only [liftT_getElem] at this
  exact XQ.fin.inj this

theorem opinion_lift_inj {b b' a a' : Fin n → ℚ} {u u' : ℚ}
    (h : (⟨liftT b, XQ.fin u, liftT a⟩ : Opinion (XQ f) n) = ⟨liftT b', XQ.fin u', liftT a'⟩) :
    b = b' ∧ u = u' ∧ a = a' := by
  rw [Opinion.mk.injEq] at h
  exact ⟨liftT_inj h.1, XQ.fin.inj h.2.1, liftT_inj h.2.2⟩

theorem acmU_pos {u1 u2 : ℚ} (p1 : 0 < u1) (h11 : u1 ≤ 1) (p2 : 0 < u2) : 0 < acmU u1 u2 :=
  div_pos (mul_pos p1 p2) (acm_temp_pos p1 h11 p2.le)

/-- ACm adds the "evidence totals" `1/u - 1` -/
theorem inv_acmU {u1 u2 : ℚ} (p1 : 0 < u1) (h11 : u1 ≤ 1) (p2 : 0 < u2) :
    1 / acmU u1 u2 - 1 = (1 / u1 - 1) + (1 / u2 - 1) := by
  have ht := ne_of_gt (acm_temp_pos p1 h11 p2.le)
  have e1 := ne_of_gt p1
  have e2 := ne_of_gt p2
  unfold acmU
  rw [one_div_div]
  field_simp
  ring

theorem eq_inv_form (x : ℚ) : x = 1 / (1 + (1 / x - 1)) := by
  rw [show 1 + (1 / x - 1) = 1 / x by ring, one_div_one_div]

/-- the total uncertainty of three operands is the uncertainty of the nested ACm fusion -/
theorem total3 {p1 p2 p3 : (Fin n → ℚ) × ℚ} (h : Good f [p1, p2, p3]) :
    (ofEvQ (evSum [p1, p2, p3])).2 = acmU (acmU p1.2 p2.2) p3.2 := by
  have g1 := h p1 (by simp)
  have g2 := h p2 (by simp)
  have g3 := h p3 (by simp)
  have q12 := acmU_pos g1.2.pos g1.1.u_le_one g2.2.pos
  have l12 : acmU p1.2 p2.2 ≤ 1 :=
    le_trans (acmU_le_left g1.2.pos g1.1.u_le_one g2.1.hu g2.1.u_le_one) g1.1.u_le_one
  rw [evSum_total h, eq_inv_form (acmU (acmU p1.2 p2.2) p3.2), inv_acmU q12 l12 g3.2.pos,
    inv_acmU g1.2.pos g1.1.u_le_one g2.2.pos]
  simp only [List.map_cons, List.map_nil, List.sum_cons, List.sum_nil]
  congr 1; ring

end C07
end SLV
