/-
  The nine-branch `BOpinion::deduce` that was in the crate after repair 4d5bbb1 and before repair b163717
  (`Pinned.deduceKNineBranch`, SLV/Model/Pinned.lean: Case I, the tie arm, and the eight closed forms II.A.1 .. III.B.2
  selected by the comparisons `pyx > r`, `px > a`): on the open domain `Dom14` every divisor of every branch is non-zero
  and the branch taken returns the closed form `Kq` (one lemma per branch; these lemmas were the lift of `BOp.deduceK`
  until repair b163717 and are kept, retargeted, as the justification of that repair:
  `nineK_fst` + `deduceK_fst` ⇒ `SLV.Props.C14.C14_K_eq_nine_branch`).
  No property statements here.
-/
import SLV.Refine.C14Lemmas
import SLV.Model.Pinned

namespace SLV
open Scalar
open SLV.Props.C10 (BWF)

variable {f : Fmt} {b d u a b0 d0 u0 b1 d1 u1 ay : ℚ}

/-! ### lift of `Pinned.deduceKNineBranch`, branch by branch -/

/-- unfold `deduceK` on finite inputs down to the comparisons -/
local macro "unfold_nineK" : tactic => `(tactic|
  (unfold Pinned.deduceKNineBranch BOp.projection Scalar.gt
   simp only [XQ.one_def, XQ.sub_fin, XQ.mul_fin, XQ.add_fin, XQ.lt_fin, XQ.eq_fin, XQ.zero_def]))

theorem nineK_I (hI : b1 < b0 ↔ d1 < d0) :
    Pinned.deduceKNineBranch (liftB (f := f) b d u a) (liftS b0 d0 u0) (liftS b1 d1 u1) (XQ.fin ay)
      = (XQ.fin (Kq u a b0 d0 b1 d1 ay), .I) := by
  rw [Kq_I hI]
  unfold_nineK
  have e : (decide (b1 < b0) == decide (d1 < d0)) = true := by
    rw [beq_iff_eq, decide_eq_decide]; exact hI
  rw [if_pos e]

/-- the tie arm (repair 4d5bbb1): outside Case I, `b0 = b1` or `d0 = d1` gives `k = 0` with tag `.Tie` -- no
    comparison of `pyx` with `r`, no division; every finite input -/
theorem nineK_Tie0 (hI : ¬(b1 < b0 ↔ d1 < d0)) (ht : b0 = b1 ∨ d0 = d1) :
    Pinned.deduceKNineBranch (liftB (f := f) b d u a) (liftS b0 d0 u0) (liftS b1 d1 u1) (XQ.fin ay)
      = (XQ.fin 0, .Tie) := by
  unfold_nineK
  have e : ¬ (decide (b1 < b0) == decide (d1 < d0)) = true := by
    rw [beq_iff_eq, decide_eq_decide]; exact hI
  have e2 : (decide (b0 = b1) || decide (d0 = d1)) = true := by
    rw [Bool.or_eq_true, decide_eq_true_eq, decide_eq_true_eq]; exact ht
  rw [if_neg e, if_pos e2]

/-- … which is the closed form `Kq` (closed domain: `0 ≤ a`, `0 ≤ ay ≤ 1`) -/
theorem nineK_Tie (ha0 : 0 ≤ a) (hy0 : 0 ≤ ay) (hy1 : ay ≤ 1) (hI : ¬(b1 < b0 ↔ d1 < d0))
    (ht : b0 = b1 ∨ d0 = d1) :
    Pinned.deduceKNineBranch (liftB (f := f) b d u a) (liftS b0 d0 u0) (liftS b1 d1 u1) (XQ.fin ay)
      = (XQ.fin (Kq u a b0 d0 b1 d1 ay), .Tie) := by
  rw [Kq_tie ha0 hy0 hy1 ht, nineK_Tie0 hI ht]

section branches
variable (h : Dom14 b d u a b0 d0 u0 b1 d1 u1 ay)
include h

theorem nineK_IIA1 (hb : b1 < b0) (hd : d0 ≤ d1) (hA : pyxq a b0 u0 b1 u1 ay ≤ rII d0 b1 ay)
    (hP : b + a * u ≤ a) :
    Pinned.deduceKNineBranch (liftB (f := f) b d u a) (liftS b0 d0 u0) (liftS b1 d1 u1) (XQ.fin ay)
      = (XQ.fin (Kq u a b0 d0 b1 d1 ay), .IIA1) := by
  have hy0 := h.hy0; have hP0 := h.hP0
  have hds : d0 < d1 := h.IIA_strict hb hA
  rw [Kq_IIA h.hy0 h.hy1 hb hd (by linarith [pyx_sub_rII (a := a) (ay := ay) h.c0.hs h.c1.hs])]
  unfold pyxq rII at hA
  unfold_nineK
  simp only [decide_eq_true hb, decide_eq_false (not_lt.mpr hd), decide_eq_false (not_lt.mpr hA),
    decide_eq_false (not_lt.mpr hP), decide_eq_false hb.ne', decide_eq_false hds.ne, Bool.or_self,
    Bool.false_eq_true, if_false, if_true, XQ.lt_fin]
  rw [if_neg (by decide), XQ.div_fin _ _ (mul_ne_zero hP0.ne' hy0.ne')]
  have e := h.d_eq; subst e
  congr 2; field_simp; ring

theorem nineK_IIA2 (hb : b1 < b0) (hd : d0 ≤ d1) (hA : pyxq a b0 u0 b1 u1 ay ≤ rII d0 b1 ay)
    (hP : a < b + a * u) :
    Pinned.deduceKNineBranch (liftB (f := f) b d u a) (liftS b0 d0 u0) (liftS b1 d1 u1) (XQ.fin ay)
      = (XQ.fin (Kq u a b0 d0 b1 d1 ay), .IIA2) := by
  have hy0 := h.hy0; have hP1 : 0 < 1 - (b + a * u) := sub_pos.mpr h.hP1
  have hds : d0 < d1 := h.IIA_strict hb hA
  have hd' : 0 < d1 - d0 := sub_pos.mpr hds
  rw [Kq_IIA h.hy0 h.hy1 hb hd (by linarith [pyx_sub_rII (a := a) (ay := ay) h.c0.hs h.c1.hs])]
  unfold pyxq rII at hA
  unfold_nineK
  simp only [decide_eq_true hb, decide_eq_false (not_lt.mpr hd), decide_eq_false (not_lt.mpr hA),
    decide_eq_true hP, decide_eq_false hb.ne', decide_eq_false hds.ne, Bool.or_self,
    Bool.false_eq_true, if_false, if_true, XQ.lt_fin]
  rw [if_neg (by decide), XQ.div_fin _ _ (mul_ne_zero (mul_ne_zero hP1.ne' hy0.ne') hd'.ne')]
  have e := h.d_eq; subst e
  congr 2; field_simp; ring

theorem nineK_IIB1 (hb : b1 < b0) (hd : d0 < d1) (hB : rII d0 b1 ay < pyxq a b0 u0 b1 u1 ay)
    (hP : b + a * u ≤ a) :
    Pinned.deduceKNineBranch (liftB (f := f) b d u a) (liftS b0 d0 u0) (liftS b1 d1 u1) (XQ.fin ay)
      = (XQ.fin (Kq u a b0 d0 b1 d1 ay), .IIB1) := by
  have hy1 : 0 < 1 - ay := sub_pos.mpr h.hy1; have hP0 := h.hP0
  have hb' : 0 < b0 - b1 := sub_pos.mpr hb
  rw [Kq_IIB h.hy0 h.hy1 hb hd.le (by linarith [pyx_sub_rII (a := a) (ay := ay) h.c0.hs h.c1.hs])]
  unfold pyxq rII at hB
  unfold_nineK
  simp only [decide_eq_true hb, decide_eq_false (not_lt.mpr hd.le), decide_eq_true hB,
    decide_eq_false (not_lt.mpr hP), decide_eq_false hb.ne', decide_eq_false hd.ne, Bool.or_self,
    Bool.false_eq_true, if_false, if_true, XQ.lt_fin]
  rw [if_neg (by decide), XQ.div_fin _ _ (mul_ne_zero (mul_ne_zero hP0.ne' hy1.ne') hb'.ne')]
  have e := h.d_eq; subst e
  congr 2; field_simp; ring

theorem nineK_IIB2 (hb : b1 < b0) (hd : d0 < d1) (hB : rII d0 b1 ay < pyxq a b0 u0 b1 u1 ay)
    (hP : a < b + a * u) :
    Pinned.deduceKNineBranch (liftB (f := f) b d u a) (liftS b0 d0 u0) (liftS b1 d1 u1) (XQ.fin ay)
      = (XQ.fin (Kq u a b0 d0 b1 d1 ay), .IIB2) := by
  have hy1 : 0 < 1 - ay := sub_pos.mpr h.hy1; have hP1 : 0 < 1 - (b + a * u) := sub_pos.mpr h.hP1
  rw [Kq_IIB h.hy0 h.hy1 hb hd.le (by linarith [pyx_sub_rII (a := a) (ay := ay) h.c0.hs h.c1.hs])]
  unfold pyxq rII at hB
  unfold_nineK
  simp only [decide_eq_true hb, decide_eq_false (not_lt.mpr hd.le), decide_eq_true hB,
    decide_eq_true hP, decide_eq_false hb.ne', decide_eq_false hd.ne, Bool.or_self,
    Bool.false_eq_true, if_false, if_true, XQ.lt_fin]
  rw [if_neg (by decide), XQ.div_fin _ _ (mul_ne_zero hP1.ne' hy1.ne')]
  have e := h.d_eq; subst e
  congr 2; field_simp; ring

theorem nineK_IIIA1 (hb : b0 < b1) (hd : d1 < d0) (hA : pyxq a b0 u0 b1 u1 ay ≤ rIII b0 d1 ay)
    (hP : b + a * u ≤ a) :
    Pinned.deduceKNineBranch (liftB (f := f) b d u a) (liftS b0 d0 u0) (liftS b1 d1 u1) (XQ.fin ay)
      = (XQ.fin (Kq u a b0 d0 b1 d1 ay), .IIIA1) := by
  have hy0 := h.hy0; have hP0 := h.hP0
  have hd' : 0 < d0 - d1 := sub_pos.mpr hd
  rw [Kq_IIIA h.hy0 h.hy1 hb.le hd (by linarith [pyx_sub_rIII (a := a) (ay := ay) h.c0.hs h.c1.hs])]
  unfold pyxq rIII at hA
  unfold_nineK
  simp only [decide_eq_false (not_lt.mpr hb.le), decide_eq_true hd, decide_eq_false (not_lt.mpr hA),
    decide_eq_false (not_lt.mpr hP), decide_eq_false hb.ne, decide_eq_false hd.ne', Bool.or_self,
    Bool.false_eq_true, if_false, XQ.lt_fin]
  rw [if_neg (by decide), XQ.div_fin _ _ (mul_ne_zero (mul_ne_zero hP0.ne' hy0.ne') hd'.ne')]
  have e := h.d_eq; subst e
  congr 2; field_simp; ring

theorem nineK_IIIA2 (hb : b0 < b1) (hd : d1 < d0) (hA : pyxq a b0 u0 b1 u1 ay ≤ rIII b0 d1 ay)
    (hP : a < b + a * u) :
    Pinned.deduceKNineBranch (liftB (f := f) b d u a) (liftS b0 d0 u0) (liftS b1 d1 u1) (XQ.fin ay)
      = (XQ.fin (Kq u a b0 d0 b1 d1 ay), .IIIA2) := by
  have hy0 := h.hy0; have hP1 : 0 < 1 - (b + a * u) := sub_pos.mpr h.hP1
  rw [Kq_IIIA h.hy0 h.hy1 hb.le hd (by linarith [pyx_sub_rIII (a := a) (ay := ay) h.c0.hs h.c1.hs])]
  unfold pyxq rIII at hA
  unfold_nineK
  simp only [decide_eq_false (not_lt.mpr hb.le), decide_eq_true hd, decide_eq_false (not_lt.mpr hA),
    decide_eq_true hP, decide_eq_false hb.ne, decide_eq_false hd.ne', Bool.or_self,
    Bool.false_eq_true, if_false, XQ.lt_fin]
  rw [if_neg (by decide), XQ.div_fin _ _ (mul_ne_zero hP1.ne' hy0.ne')]
  have e := h.d_eq; subst e
  congr 2; field_simp; ring

theorem nineK_IIIB1 (hb : b0 ≤ b1) (hd : d1 < d0) (hB : rIII b0 d1 ay < pyxq a b0 u0 b1 u1 ay)
    (hP : b + a * u ≤ a) :
    Pinned.deduceKNineBranch (liftB (f := f) b d u a) (liftS b0 d0 u0) (liftS b1 d1 u1) (XQ.fin ay)
      = (XQ.fin (Kq u a b0 d0 b1 d1 ay), .IIIB1) := by
  have hy1 : 0 < 1 - ay := sub_pos.mpr h.hy1; have hP0 := h.hP0
  have hbs : b0 < b1 := h.IIIB_strict hd hB
  rw [Kq_IIIB h.hy0 h.hy1 hb hd (by linarith [pyx_sub_rIII (a := a) (ay := ay) h.c0.hs h.c1.hs])]
  unfold pyxq rIII at hB
  unfold_nineK
  simp only [decide_eq_false (not_lt.mpr hb), decide_eq_true hd, decide_eq_true hB,
    decide_eq_false (not_lt.mpr hP), decide_eq_false hbs.ne, decide_eq_false hd.ne', Bool.or_self,
    Bool.false_eq_true, if_false, XQ.lt_fin]
  rw [if_neg (by decide), XQ.div_fin _ _ (mul_ne_zero hP0.ne' hy1.ne')]
  have e := h.d_eq; subst e
  congr 2; field_simp; ring

theorem nineK_IIIB2 (hb : b0 ≤ b1) (hd : d1 < d0) (hB : rIII b0 d1 ay < pyxq a b0 u0 b1 u1 ay)
    (hP : a < b + a * u) :
    Pinned.deduceKNineBranch (liftB (f := f) b d u a) (liftS b0 d0 u0) (liftS b1 d1 u1) (XQ.fin ay)
      = (XQ.fin (Kq u a b0 d0 b1 d1 ay), .IIIB2) := by
  have hy1 : 0 < 1 - ay := sub_pos.mpr h.hy1; have hP1 : 0 < 1 - (b + a * u) := sub_pos.mpr h.hP1
  have hbs : b0 < b1 := h.IIIB_strict hd hB
  have hb' : 0 < b1 - b0 := sub_pos.mpr hbs
  rw [Kq_IIIB h.hy0 h.hy1 hb hd (by linarith [pyx_sub_rIII (a := a) (ay := ay) h.c0.hs h.c1.hs])]
  unfold pyxq rIII at hB
  unfold_nineK
  simp only [decide_eq_false (not_lt.mpr hb), decide_eq_true hd, decide_eq_true hB,
    decide_eq_true hP, decide_eq_false hbs.ne, decide_eq_false hd.ne', Bool.or_self,
    Bool.false_eq_true, if_false, XQ.lt_fin]
  rw [if_neg (by decide), XQ.div_fin _ _ (mul_ne_zero (mul_ne_zero hP1.ne' hy1.ne') hb'.ne')]
  have e := h.d_eq; subst e
  congr 2; field_simp; ring

/-- on the open domain `deduceK` returns the finite closed form `Kq` — in every branch (ten: Case I, the tie arm,
    and the eight sub-cases of Case II / III) -/
theorem nineK_fst :
    (Pinned.deduceKNineBranch (liftB (f := f) b d u a) (liftS b0 d0 u0) (liftS b1 d1 u1) (XQ.fin ay)).1
      = XQ.fin (Kq u a b0 d0 b1 d1 ay) := by
  rcases case_split b0 d0 b1 d1 with hI | ⟨hb, hd⟩ | ⟨hb, hd⟩
  · rw [nineK_I hI]
  · rcases hd.eq_or_lt with ht | hds
    · rw [nineK_Tie h.x.ha0 h.hy0.le h.hy1.le
        (fun hI => absurd (hI.mp hb) (not_lt.mpr hd)) (Or.inr ht)]
    by_cases hA : pyxq a b0 u0 b1 u1 ay ≤ rII d0 b1 ay <;> by_cases hP : b + a * u ≤ a
    · rw [nineK_IIA1 h hb hd hA hP]
    · rw [nineK_IIA2 h hb hd hA (not_le.mp hP)]
    · rw [nineK_IIB1 h hb hds (not_le.mp hA) hP]
    · rw [nineK_IIB2 h hb hds (not_le.mp hA) (not_le.mp hP)]
  · rcases hb.eq_or_lt with ht | hbs
    · rw [nineK_Tie h.x.ha0 h.hy0.le h.hy1.le
        (fun hI => absurd (hI.mpr hd) (not_lt.mpr hb)) (Or.inl ht)]
    by_cases hA : pyxq a b0 u0 b1 u1 ay ≤ rIII b0 d1 ay <;> by_cases hP : b + a * u ≤ a
    · rw [nineK_IIIA1 h hbs hd hA hP]
    · rw [nineK_IIIA2 h hbs hd hA (not_le.mp hP)]
    · rw [nineK_IIIB1 h hb hd (not_le.mp hA) hP]
    · rw [nineK_IIIB2 h hb hd (not_le.mp hA) (not_le.mp hP)]

end branches


end SLV
