/-
  Lifting lemmas: the model at the exact semantics `XQ f`, applied to finite rational inputs,
  computes what the corresponding ℚ-level expression says.  (Imports Mathlib; not linked into the driver.)
-/
import SLV.Model.Basic
import SLV.Num.XQ
import Mathlib.Tactic.Ring
import Mathlib.Tactic.Linarith
import Mathlib.Tactic.FieldSimp
import Mathlib.Tactic.Positivity
import Mathlib.Algebra.Order.Field.Rat
import Mathlib.Algebra.BigOperators.Fin
import Mathlib.Algebra.BigOperators.Ring.Finset
import Mathlib.Algebra.Order.BigOperators.Group.Finset

namespace SLV
open Scalar

variable {f : Fmt}

/-- lift a rational table into the exact model -/
def liftT {n : Nat} (g : Fin n → ℚ) : Tab (XQ f) n := Vector.ofFn fun i => XQ.fin (g i)

@[simp] theorem liftT_getElem {n} (g : Fin n → ℚ) (i : Fin n) :
    (liftT g : Tab (XQ f) n)[i] = XQ.fin (g i) := by
  simp [liftT]

@[simp] theorem liftT_getElem' {n} (g : Fin n → ℚ) (i : Nat) (h : i < n) :
    (liftT g : Tab (XQ f) n)[i]'h = XQ.fin (g ⟨i, h⟩) := by
  simp [liftT]

namespace XQ

@[simp] theorem zero_def : (Scalar.zero : XQ f) = fin 0 := rfl
@[simp] theorem one_def : (Scalar.one : XQ f) = fin 1 := rfl
@[simp] theorem sumInit_def : (Scalar.sumInit : XQ f) = fin 0 := rfl
@[simp] theorem two_def : (Scalar.two : XQ f) = fin 2 := by
  show XQ.add (fin 1) (fin 1) = fin 2
  simp [XQ.add]; norm_num

@[simp] theorem sadd_fin (a b : ℚ) : Scalar.add (fin a : XQ f) (fin b) = fin (a + b) := rfl
@[simp] theorem add_fin (a b : ℚ) : (fin a : XQ f) + fin b = fin (a + b) := rfl
@[simp] theorem sub_fin (a b : ℚ) : (fin a : XQ f) - fin b = fin (a - b) := by
  show XQ.add (fin a) (XQ.neg (fin b)) = _
  simp [XQ.add, XQ.neg, sub_eq_add_neg]
@[simp] theorem ssub_fin (a b : ℚ) : Scalar.sub (fin a : XQ f) (fin b) = fin (a - b) := sub_fin a b
@[simp] theorem mul_fin (a b : ℚ) : (fin a : XQ f) * fin b = fin (a * b) := rfl
@[simp] theorem smul_fin (a b : ℚ) : Scalar.mul (fin a : XQ f) (fin b) = fin (a * b) := rfl
theorem div_fin (a b : ℚ) (hb : b ≠ 0) : (fin a : XQ f) / fin b = fin (a / b) := by
  show XQ.div (fin a) (fin b) = _
  simp [XQ.div, hb]
theorem sdiv_fin (a b : ℚ) (hb : b ≠ 0) : Scalar.div (fin a : XQ f) (fin b) = fin (a / b) :=
  div_fin a b hb
@[simp] theorem div_fin_one (a : ℚ) : (fin a : XQ f) / fin 1 = fin a := by
  rw [div_fin _ _ one_ne_zero]; simp

@[simp] theorem isNaN_fin (a : ℚ) : Scalar.isNaN (fin a : XQ f) = false := rfl
@[simp] theorem lt_fin (a b : ℚ) : Scalar.lt (fin a : XQ f) (fin b) = decide (a < b) := rfl
@[simp] theorem le_fin (a b : ℚ) : Scalar.le (fin a : XQ f) (fin b) = decide (a ≤ b) := rfl
@[simp] theorem eq_fin (a b : ℚ) : Scalar.eq (fin a : XQ f) (fin b) = decide (a = b) := rfl

@[simp] theorem min_fin (a b : ℚ) : Scalar.min (fin a : XQ f) (fin b) = fin (min a b) := by
  unfold Scalar.min
  simp only [isNaN_fin, lt_fin, Bool.false_eq_true, if_false]
  by_cases h : b < a
  · simp [h, min_eq_right (le_of_lt h)]
  · simp [h, min_eq_left (not_lt.mp h)]

@[simp] theorem max_fin (a b : ℚ) : Scalar.max (fin a : XQ f) (fin b) = fin (max a b) := by
  unfold Scalar.max
  simp only [isNaN_fin, lt_fin, Bool.false_eq_true, if_false]
  by_cases h : a < b
  · simp [h, max_eq_right (le_of_lt h)]
  · simp [h, max_eq_left (not_lt.mp h)]

theorem eps_pos (f : Fmt) : 0 < f.eps := by
  unfold Fmt.eps
  positivity

theorem absQ_eq_abs (q : ℚ) : XQ.absQ q = |q| := by
  unfold XQ.absQ
  split
  · rw [abs_of_neg ‹_›]
  · rw [abs_of_nonneg (not_lt.mp ‹_›)]

@[simp] theorem isZero_fin (a : ℚ) : Scalar.isZero (fin a : XQ f) = decide (|a| ≤ f.eps) := by
  show XQ.isZero (fin a) = _
  simp [XQ.isZero, absQ_eq_abs]

@[simp] theorem isOne_fin (a : ℚ) :
    Scalar.isOne (fin a : XQ f) = decide (1 - 2 * f.eps ≤ a ∧ a ≤ 1 + 4 * f.eps) := rfl

end XQ

/-! ### folds -/

theorem foldl_add_fin {n : Nat} (g : Fin n → ℚ) (c : ℚ) :
    (List.ofFn fun i => (XQ.fin (g i) : XQ f)).foldl Scalar.add (XQ.fin c) = XQ.fin (c + ∑ i, g i) := by
  induction n generalizing c with
  | zero => simp
  | succ n ih =>
    rw [List.ofFn_succ, List.foldl_cons, XQ.sadd_fin, ih, Fin.sum_univ_succ]
    congr 1; ring

@[simp] theorem sumIter_liftT {n : Nat} (g : Fin n → ℚ) :
    Tab.sumIter (liftT g : Tab (XQ f) n) = XQ.fin (∑ i, g i) := by
  unfold Tab.sumIter liftT
  rw [← Vector.foldl_toList, Vector.toList_ofFn]
  simpa using foldl_add_fin (f := f) g 0

@[simp] theorem sumLoop_liftT {n : Nat} (g : Fin n → ℚ) :
    Tab.sumLoop (liftT g : Tab (XQ f) n) = XQ.fin (∑ i, g i) := by
  unfold Tab.sumLoop liftT
  rw [← Vector.foldl_toList, Vector.toList_ofFn]
  simpa using foldl_add_fin (f := f) g 0

@[simp] theorem sumIter_ofFn_fin {n : Nat} (g : Fin n → ℚ) :
    Tab.sumIter (Vector.ofFn fun i => (XQ.fin (g i) : XQ f)) = XQ.fin (∑ i, g i) :=
  sumIter_liftT g

@[simp] theorem sumLoop_ofFn_fin {n : Nat} (g : Fin n → ℚ) :
    Tab.sumLoop (Vector.ofFn fun i => (XQ.fin (g i) : XQ f)) = XQ.fin (∑ i, g i) :=
  sumLoop_liftT g

theorem liftT_map {n : Nat} (g : Fin n → ℚ) (h : XQ f → XQ f) (h' : ℚ → ℚ)
    (hh : ∀ q, h (XQ.fin q) = XQ.fin (h' q)) :
    (liftT g : Tab (XQ f) n).map h = liftT (fun i => h' (g i)) := by
  apply Vector.ext
  intro i hi
  simp [liftT, hh]

theorem ofFn_fin_eq_liftT {n : Nat} (g : Fin n → ℚ) :
    (Vector.ofFn fun i => (XQ.fin (g i) : XQ f)) = liftT g := rfl

/-- running minimum over a finite family, as the Rust loops compute it -/
def foldMin {n : Nat} (t : Fin n → ℚ) (c : ℚ) : ℚ :=
  (List.finRange n).foldl (fun acc i => min acc (t i)) c

theorem foldMin_spec {n : Nat} (t : Fin n → ℚ) (c : ℚ) :
    foldMin t c ≤ c ∧ (∀ i, foldMin t c ≤ t i) ∧ (foldMin t c = c ∨ ∃ i, foldMin t c = t i) := by
  unfold foldMin
  induction n generalizing c with
  | zero => simp
  | succ n ih =>
    rw [List.finRange_succ, List.foldl_cons, List.foldl_map]
    obtain ⟨h1, h2, h3⟩ := ih (fun i => t i.succ) (min c (t 0))
    refine ⟨le_trans h1 (min_le_left _ _), ?_, ?_⟩
    · intro i
      refine Fin.cases ?_ ?_ i
      · exact le_trans h1 (min_le_right _ _)
      · intro j; exact h2 j
    · rcases h3 with h | ⟨j, hj⟩
      · rcases min_choice c (t 0) with hc | hc
        · left; rw [h, hc]
        · right; exact ⟨0, by rw [h, hc]⟩
      · right; exact ⟨j.succ, hj⟩

theorem foldl_min_fin {n : Nat} (t : Fin n → ℚ) (c : ℚ) :
    (List.finRange n).foldl (fun (acc : XQ f) i => Scalar.min acc (XQ.fin (t i))) (XQ.fin c)
      = XQ.fin (foldMin t c) := by
  unfold foldMin
  induction n generalizing c with
  | zero => simp
  | succ n ih =>
    rw [List.finRange_succ, List.foldl_cons, List.foldl_cons, List.foldl_map, List.foldl_map,
      XQ.min_fin]
    exact ih (fun i => t i.succ) (min c (t 0))

end SLV
