/-
  C17 programs, part 2: lemmas shared by the six kind instances.
-/
import SLV.Refine.ArrProg1
import SLV.Refine.ArrResume

namespace SLV.MArr

/-! ### dumps -/

theorem mkDump_eq {A σ : Type} {iter : A → σ} {nx : σ → Option Nat × σ} {content : σ → List Nat}
    {Good : σ → Prop} (hLL : ListLike nx content Good) {fuel : A → Nat} {idxs : List (List Nat)}
    {index : A → List Nat → Option Nat} {a : A} {fl : List Nat}
    (hg : Good (iter a)) (hc : content (iter a) = fl) (hf : fl.length ≤ fuel a)
    (hix : idxs.mapM (index a) = some fl) :
    mkDump iter nx fuel idxs index a = specDump fl := by
  obtain ⟨s', h1, h2, h3⟩ := hLL.drain (fuel a + 1) (iter a) hg (by rw [hc]; omega)
  have h4 := hLL.nextN_nil 2 s' h2 h3
  simp only [mkDump, h1, h4, hix, hc, specDump]
  rfl

theorem prodDims_eq (dims : List Nat) : prodDims dims = dims.prod := by
  rw [prodDims, List.prod_eq_foldl_nat]

/-- `indexes()` of the unlabelled family, drained, then three further `next()` -/
theorem mrEnum_eq (size : List Nat) : mrEnum size = (lexList size, [none, none, none]) := by
  have key : drain MultiRange.next (prodDims size + 1) (MultiRange.new size) = (lexList size, ⟨none, size⟩) := by
    rcases pos_or_zero size with h | h
    · obtain ⟨rest, hlex, hch⟩ := lexList_chain size h
      have hlen : ∀ x ∈ List.replicate size.length 0 :: rest, x.length = size.length := by
        intro x hx; exact lexList_length_mem size x (by rw [hlex]; exact hx)
      have hl := lexList_length size
      rw [hlex] at hl
      rw [new_pos size h, drain_chain size rest _ _ hlen hch (by rw [prodDims_eq]; simp at hl; omega), hlex]
    · rw [new_zero size h, lexList_eq_nil_of_zero size h]
      simp [drain, MultiRange.next]
  simp only [mrEnum, key, nextN_none]
  rfl

/-- `indexes()` of the unlabelled family resumed after `k` calls of `next()` -/
theorem mrResume_eq (size : List Nat) : MultiRange.resume size = specResume (lexList size) := by
  funext k; rw [multirange_resume]; rfl

/-- a labelled enumeration (list iterator over the `iproduct!` items) resumed after `k` calls of `next()` -/
theorem listResume_eq (l : List (List Nat)) : listResume l = specResume l := by
  funext k; exact slice_resume l k

theorem U1.idx_eq (a : MArr1 Nat) : U1.idx a = U1.idx' a := by
  funext k
  match k with
  | [] => rfl
  | [_] => rfl
  | _ :: _ :: _ => rfl
theorem U2.idx_eq (a : MArr2 Nat) : U2.idx a = U2.idx' a := by
  funext k
  match k with
  | [] => rfl
  | [_] => rfl
  | [_, _] => rfl
  | _ :: _ :: _ :: _ => rfl
theorem U3.idx_eq (a : MArr3 Nat) : U3.idx a = U3.idx' a := by
  funext k
  match k with
  | [] => rfl
  | [_] => rfl
  | [_, _] => rfl
  | [_, _, _] => rfl
  | _ :: _ :: _ :: _ :: _ => rfl
theorem L1.idx_eq (a : MArrD1 Nat) : L1.idx a = L1.idx' a := by
  funext k
  match k with
  | [] => rfl
  | [_] => rfl
  | _ :: _ :: _ => rfl
theorem L2.idx_eq (a : MArrD2 Nat) : L2.idx a = L2.idx' a := by
  funext k
  match k with
  | [] => rfl
  | [_] => rfl
  | [_, _] => rfl
  | _ :: _ :: _ :: _ => rfl
theorem L3.idx_eq (a : MArrD3 Nat) : L3.idx a = L3.idx' a := by
  funext k
  match k with
  | [] => rfl
  | [_] => rfl
  | [_, _] => rfl
  | [_, _, _] => rfl
  | _ :: _ :: _ :: _ :: _ => rfl

/-! ### the harness' fallible conversion: even numbers only -/

/-- first odd cell, else the cells -/
def firstErrE (cells : List Nat) : Except Nat (List Nat) :=
  match cells.find? (fun v => v % 2 == 1) with
  | some v => .error v
  | none => .ok cells

theorem firstErr_eq (cells : List Nat) : firstErr cells = exceptOut (firstErrE cells) := by
  unfold firstErr firstErrE
  cases cells.find? (fun v => v % 2 == 1) <;> rfl

/-- the outcome of `firstErrE` with the payload replaced -/
def onOk {β : Type} (b : β) : Except Nat (List Nat) → Except Nat β
  | .error e => .error e
  | .ok _ => .ok b

theorem firstErrE_append (l1 l2 : List Nat) :
    firstErrE (l1 ++ l2) = match firstErrE l1 with
      | .error e => .error e
      | .ok _ => match firstErrE l2 with | .error e => .error e | .ok _ => .ok (l1 ++ l2) := by
  unfold firstErrE
  rw [List.find?_append]
  cases l1.find? (fun v => v % 2 == 1) with
  | some x => rfl
  | none => cases l2.find? (fun v => v % 2 == 1) <;> rfl

/-- lifting through one level of nesting -/
theorem tryCells_lift {T : Type} (g : T → Except Nat T) (fl : T → List Nat)
    (hg : ∀ r, g r = onOk r (firstErrE (fl r))) :
    ∀ v : List T, tryCells g v = onOk v (firstErrE ((v.map fl).flatten)) := by
  intro v
  induction v with
  | nil => rfl
  | cons r rs ih =>
    simp only [tryCells, hg r, ih, List.map_cons, List.flatten_cons, firstErrE_append]
    cases firstErrE (fl r) with
    | error e => rfl
    | ok _ => cases firstErrE ((rs.map fl).flatten) <;> rfl

theorem cvEven_eq (x : Nat) : cvEven x = onOk x (firstErrE [x]) := by
  unfold cvEven firstErrE
  by_cases h : x % 2 = 1 <;> simp [h, onOk]

theorem tryFrom1_even (v : List Nat) : MArr1.tryFrom cvEven v = onOk v (firstErrE (flat1 v)) := by
  have := tryCells_lift cvEven (fun x => [x]) cvEven_eq v
  simpa [MArr1.tryFrom, flat1, flatMap_singleton_map, ← List.flatMap_def] using this

theorem tryFrom2_even (v : List (List Nat)) : MArr2.tryFrom cvEven v = onOk v (firstErrE (flat2 v)) := by
  have := tryCells_lift (MArr1.tryFrom cvEven) flat1 tryFrom1_even v
  rw [show (v.map flat1) = v from map_eq_self _ (fun _ => rfl) v] at this
  exact this

theorem tryFrom3_even (v : List (List (List Nat))) : MArr3.tryFrom cvEven v = onOk v (firstErrE (flat3 v)) := by
  exact tryCells_lift (MArr2.tryFrom cvEven) flat2 tryFrom2_even v

end SLV.MArr
