/-
  The clamp `if v < 0 { 0 } else { v }` of repair 9ec2d8b (deduce_of, inverse) at the exact semantics.
  On a finite non-negative value it is the identity; on every value (incl. infinities, NaN) the result is
  not below zero: `Scalar.lt (clamp v) 0 = false`.
-/
import SLV.Refine.Lift
namespace SLV
open Scalar

variable {f : Fmt}

namespace XQ

/-- the clamp written as in the model -/
def clamp0 (v : XQ f) : XQ f := if Scalar.lt v Scalar.zero then Scalar.zero else v

theorem clamp0_def (v : XQ f) : (if Scalar.lt v Scalar.zero then Scalar.zero else v) = clamp0 v := rfl

/-- clamp of a finite value: `max q 0` -/
theorem clamp_fin (q : ℚ) :
    (if Scalar.lt (fin q : XQ f) Scalar.zero then Scalar.zero else fin q) = (fin (max q 0) : XQ f) := by
  rw [zero_def, lt_fin]
  by_cases h : q < 0
  · simp [h, max_eq_right (le_of_lt h)]
  · simp [h, max_eq_left (not_lt.mp h)]

/-- clamp of a non-negative finite value is itself -/
theorem clamp_fin_nonneg (q : ℚ) (h : 0 ≤ q) :
    (if Scalar.lt (fin q : XQ f) Scalar.zero then Scalar.zero else fin q) = (fin q : XQ f) := by
  rw [clamp_fin, max_eq_left h]

/-- the clamped value is never below zero, whatever the operand (NaN passes through: `<` is false on NaN) -/
theorem clamp_not_lt_zero (v : XQ f) :
    Scalar.lt (if Scalar.lt v Scalar.zero then Scalar.zero else v) (Scalar.zero : XQ f) = false := by
  by_cases h : Scalar.lt v (Scalar.zero : XQ f) = true
  · rw [if_pos h]; simp
  · rw [if_neg h]; simpa using h

/-- a finite clamped value is `≥ 0` -/
theorem clamp_eq_fin_nonneg (v : XQ f) (q : ℚ)
    (h : (if Scalar.lt v Scalar.zero then Scalar.zero else v) = (fin q : XQ f)) : 0 ≤ q := by
  have := clamp_not_lt_zero v
  rw [h, zero_def, lt_fin] at this
  simpa using this

/-- the clamp is the identity on NaN (like Rust's `if b < 0 { 0 } else { b }`) -/
theorem clamp_nan : (if Scalar.lt (nan : XQ f) Scalar.zero then Scalar.zero else nan) = (nan : XQ f) := rfl

end XQ
end SLV

/-! ### no value below zero survives `Simplex.normalized` of clamped masses

`NotNeg v` : `v < 0` is false, i.e. `v` is a finite value `≥ 0`, `+∞` or NaN.  The class is closed under `+`
and under `x / s`, hence under `Simplex.normalized`; every clamped value is in it. -/
namespace SLV
open Scalar
variable {f : Fmt}

/-- `v < 0` is false (finite `≥ 0`, `+∞` or NaN) -/
def XQ.NotNeg (v : XQ f) : Prop := Scalar.lt v (Scalar.zero : XQ f) = false

namespace XQ

theorem notNeg_fin {q : ℚ} : NotNeg (fin q : XQ f) ↔ 0 ≤ q := by
  unfold NotNeg; rw [zero_def, lt_fin]; simp

theorem notNeg_pinf : NotNeg (pinf : XQ f) := rfl
theorem notNeg_nan : NotNeg (nan : XQ f) := rfl
theorem not_notNeg_ninf : ¬ NotNeg (ninf : XQ f) := by
  intro h; cases h

theorem notNeg_iff (v : XQ f) : NotNeg v ↔ v = nan ∨ v = pinf ∨ ∃ q : ℚ, 0 ≤ q ∧ v = fin q := by
  cases v with
  | fin a =>
    rw [notNeg_fin]
    constructor
    · intro h; right; right; exact ⟨a, h, rfl⟩
    · rintro (h | h | ⟨q, hq, h⟩)
      · cases h
      · cases h
      · cases h; exact hq
  | pinf => exact ⟨fun _ => Or.inr (Or.inl rfl), fun _ => rfl⟩
  | ninf =>
    constructor
    · intro h; exact absurd h not_notNeg_ninf
    · rintro (h | h | ⟨q, _, h⟩) <;> cases h
  | nan => exact ⟨fun _ => Or.inl rfl, fun _ => rfl⟩

theorem notNeg_clamp (v : XQ f) : NotNeg (if Scalar.lt v Scalar.zero then Scalar.zero else v) :=
  clamp_not_lt_zero v

theorem notNeg_add {a b : XQ f} (ha : NotNeg a) (hb : NotNeg b) : NotNeg (Scalar.add a b) := by
  show NotNeg (XQ.add a b)
  cases a with
  | nan => cases b <;> exact notNeg_nan
  | ninf => exact absurd ha not_notNeg_ninf
  | pinf =>
    cases b with
    | nan => exact notNeg_nan
    | ninf => exact absurd hb not_notNeg_ninf
    | pinf => exact notNeg_pinf
    | fin q => exact notNeg_pinf
  | fin p =>
    cases b with
    | nan => exact notNeg_nan
    | ninf => exact absurd hb not_notNeg_ninf
    | pinf => exact notNeg_pinf
    | fin q =>
      show NotNeg (fin (p + q))
      rw [notNeg_fin] at *
      exact add_nonneg ha hb

theorem notNeg_div {a s : XQ f} (ha : NotNeg a) (hs : NotNeg s) : NotNeg (a / s) := by
  show NotNeg (XQ.div a s)
  cases a with
  | nan => cases s <;> exact notNeg_nan
  | ninf => exact absurd ha not_notNeg_ninf
  | pinf =>
    cases s with
    | nan => exact notNeg_nan
    | ninf => exact absurd hs not_notNeg_ninf
    | pinf => exact notNeg_nan
    | fin q =>
      rw [notNeg_fin] at hs
      show NotNeg (if 0 ≤ q then pinf else ninf)
      rw [if_pos hs]; exact notNeg_pinf
  | fin p =>
    cases s with
    | nan => exact notNeg_nan
    | ninf => exact absurd hs not_notNeg_ninf
    | pinf => exact notNeg_fin.mpr (le_refl 0)
    | fin q =>
      rw [notNeg_fin] at ha hs
      show NotNeg (if q = 0 then (if p = 0 then nan else if 0 < p then pinf else ninf) else fin (p / q))
      by_cases hz : q = 0
      · rw [if_pos hz]
        by_cases hp0 : p = 0
        · rw [if_pos hp0]; exact notNeg_nan
        · rw [if_neg hp0, if_pos (lt_of_le_of_ne ha (Ne.symm hp0))]; exact notNeg_pinf
      · rw [if_neg hz]; exact notNeg_fin.mpr (div_nonneg ha hs)

theorem notNeg_foldl (l : List (XQ f)) (c : XQ f) (hc : NotNeg c) (hl : ∀ v ∈ l, NotNeg v) :
    NotNeg (l.foldl Scalar.add c) := by
  induction l generalizing c with
  | nil => exact hc
  | cons x xs ih =>
    rw [List.foldl_cons]
    exact ih _ (notNeg_add hc (hl x (List.mem_cons_self ..)))
      (fun v hv => hl v (List.mem_cons_of_mem _ hv))

theorem notNeg_sumIter {n : Nat} (v : Tab (XQ f) n) (h : ∀ i : Fin n, NotNeg v[i]) :
    NotNeg (Tab.sumIter v) := by
  unfold Tab.sumIter
  rw [← Vector.foldl_toList]
  apply notNeg_foldl
  · exact (notNeg_fin (q := 0)).mpr (le_refl 0)
  · intro x hx
    obtain ⟨i, hi, rfl⟩ := List.getElem_of_mem hx
    have hi' : i < n := by simpa using hi
    simpa using h ⟨i, hi'⟩

/-- `Simplex::normalized` keeps "no value below zero" -/
theorem notNeg_normalized {n : Nat} (b : Tab (XQ f) n) (u : XQ f) (hb : ∀ i : Fin n, NotNeg b[i])
    (hu : NotNeg u) :
    (∀ i : Fin n, NotNeg (Simplex.normalized b u).b[i]) ∧ NotNeg (Simplex.normalized b u).u := by
  have hs : NotNeg (Tab.sumIter b + u) := notNeg_add (notNeg_sumIter b hb) hu
  unfold Simplex.normalized
  refine ⟨fun i => ?_, notNeg_div hu hs⟩
  simp only [Fin.getElem_fin, Vector.getElem_map]
  exact notNeg_div (hb i) hs

/-! ### more closure properties, for `uncertainty_maximized` (repair 8520ade) -/

theorem notNeg_zero : NotNeg (Scalar.zero : XQ f) := (notNeg_fin (q := 0)).mpr (le_refl 0)
theorem notNeg_one : NotNeg (Scalar.one : XQ f) := (notNeg_fin (q := 1)).mpr zero_le_one

theorem notNeg_mul {a b : XQ f} (ha : NotNeg a) (hb : NotNeg b) : NotNeg (a * b) := by
  show NotNeg (XQ.mul a b)
  cases a with
  | nan => cases b <;> exact notNeg_nan
  | ninf => exact absurd ha not_notNeg_ninf
  | pinf =>
    cases b with
    | nan => exact notNeg_nan
    | ninf => exact absurd hb not_notNeg_ninf
    | pinf => exact notNeg_pinf
    | fin q =>
      rw [notNeg_fin] at hb
      by_cases hq : q = 0
      · subst hq; exact notNeg_nan
      · have : XQ.mul (pinf : XQ f) (fin q) = pinf := by
          simp [XQ.mul, XQ.isZeroFin, XQ.nonneg, hq, hb]
        rw [this]; exact notNeg_pinf
  | fin p =>
    cases b with
    | nan => exact notNeg_nan
    | ninf => exact absurd hb not_notNeg_ninf
    | pinf =>
      rw [notNeg_fin] at ha
      by_cases hp : p = 0
      · subst hp; exact notNeg_nan
      · have : XQ.mul (fin p : XQ f) pinf = pinf := by
          simp [XQ.mul, XQ.isZeroFin, XQ.nonneg, hp, ha]
        rw [this]; exact notNeg_pinf
    | fin q =>
      show NotNeg (fin (p * q))
      rw [notNeg_fin] at *
      exact mul_nonneg ha hb

/-- `min` (NaN operands skipped) returns one of its operands -/
theorem min_eq_or (a b : XQ f) : Scalar.min a b = a ∨ Scalar.min a b = b := by
  unfold Scalar.min
  split
  · exact Or.inr rfl
  · split
    · exact Or.inl rfl
    · split
      · exact Or.inr rfl
      · exact Or.inl rfl

theorem notNeg_min {a b : XQ f} (ha : NotNeg a) (hb : NotNeg b) : NotNeg (Scalar.min a b) := by
  rcases min_eq_or a b with h | h <;> rw [h] <;> assumption

theorem notNeg_sumLoop {n : Nat} (v : Tab (XQ f) n) (h : ∀ i : Fin n, NotNeg v[i]) :
    NotNeg (Tab.sumLoop v) := notNeg_sumIter v h

/-- the uncertainty of `Simplex::normalized(b, u)` never compares above one when neither the total of the masses nor
    `u` compares below zero: `u / (S + u)` is NaN (`0/0`, `∞/∞`, NaN operands), `0` (`S = +∞`) or a quotient `≤ 1` -/
theorem not_one_lt_div_add {S u : XQ f} (hS : NotNeg S) (hu : NotNeg u) :
    Scalar.lt (Scalar.one : XQ f) (u / (S + u)) = false := by
  show XQ.lt (fin 1) (XQ.div u (XQ.add S u)) = false
  cases u with
  | nan => cases S <;> rfl
  | ninf => exact absurd hu not_notNeg_ninf
  | pinf =>
    cases S with
    | nan => rfl
    | ninf => exact absurd hS not_notNeg_ninf
    | pinf => rfl
    | fin s => rfl
  | fin q =>
    cases S with
    | nan => rfl
    | ninf => exact absurd hS not_notNeg_ninf
    | pinf => show XQ.lt (fin 1) (fin 0) = false; simp [XQ.lt]
    | fin s =>
      rw [notNeg_fin] at hS hu
      show XQ.lt (fin 1) (XQ.div (fin q) (fin (s + q))) = false
      by_cases hz : s + q = 0
      · have hq : q = 0 := by linarith
        subst hq
        simp [XQ.div, hz, XQ.lt]
      · have hpos : 0 < s + q := lt_of_le_of_ne (add_nonneg hS hu) (Ne.symm hz)
        have : q / (s + q) ≤ 1 := by rw [div_le_one hpos]; linarith
        simp [XQ.div, hz, XQ.lt, this]

end XQ
end SLV
