/-
  Helper lemmas for C20 (comparisons): the `CmpScalar (XQ f)` operations on finite values, closed forms of
  `absDiffEq` / `relativeEq` / `ulpsEq` at `XQ f`, symmetry of every scalar comparison over all of `XQ f`
  (specials included), the NaN facts, `tabEq` as a `∀ i : Fin n`, and the bit-level symmetry of the native
  `ulpsWithin`.
-/
import SLV.Refine.Lift
import SLV.Model.Eq
import Mathlib.Algebra.Order.AbsoluteValue.Basic
import Mathlib.Order.Lattice

namespace SLV
open Scalar

variable {f : Fmt}

namespace XQ

/-! ### `CmpScalar (XQ f)` on finite values -/

@[simp] theorem abs_fin (a : ℚ) : CmpScalar.abs (fin a : XQ f) = fin |a| := by
  show (fin (XQ.absQ a) : XQ f) = _
  rw [absQ_eq_abs]

@[simp] theorem isInf_fin (a : ℚ) : CmpScalar.isInf (fin a : XQ f) = false := rfl

theorem ulpsWithin_fin (a b : ℚ) (k : Nat) :
    CmpScalar.ulpsWithin (fin a : XQ f) (fin b) k
      = (decide ((0 ≤ a) ↔ (0 ≤ b)) && decide (|ulpIdx f a - ulpIdx f b| ≤ (k : ℚ))) := by
  show (decide ((0 ≤ a) ↔ (0 ≤ b)) && decide (XQ.absQ (ulpIdx f a - ulpIdx f b) ≤ (k : ℚ))) = _
  rw [absQ_eq_abs]

/-! ### NaN -/

@[simp] theorem sle_nan_left (e : XQ f) : Scalar.le (nan : XQ f) e = false := by
  cases e <;> rfl
@[simp] theorem seq_nan_left (b : XQ f) : Scalar.eq (nan : XQ f) b = false := by
  cases b <;> rfl
@[simp] theorem seq_nan_right (a : XQ f) : Scalar.eq a (nan : XQ f) = false := by
  cases a <;> rfl
@[simp] theorem ssub_nan_left (b : XQ f) : Scalar.sub (nan : XQ f) b = nan := by
  cases b <;> rfl
@[simp] theorem ssub_nan_right (a : XQ f) : Scalar.sub a (nan : XQ f) = nan := by
  cases a <;> rfl
@[simp] theorem abs_nan : CmpScalar.abs (nan : XQ f) = nan := rfl
@[simp] theorem isInf_nan : CmpScalar.isInf (nan : XQ f) = false := rfl
@[simp] theorem ulpsWithin_nan_left (b : XQ f) (k : Nat) :
    CmpScalar.ulpsWithin (nan : XQ f) b k = false := by
  cases b <;> rfl
@[simp] theorem ulpsWithin_nan_right (a : XQ f) (k : Nat) :
    CmpScalar.ulpsWithin a (nan : XQ f) k = false := by
  cases a <;> rfl

/-! ### symmetry of the scalar building blocks, over all of `XQ f` -/

theorem seq_symm (a b : XQ f) : Scalar.eq a b = Scalar.eq b a := by
  cases a <;> cases b <;> first | rfl | skip
  simp only [eq_fin]
  exact decide_eq_decide.mpr eq_comm

/-- `|a - b| = |b - a|`, including the special values (`|∞ - x| = ∞ = |x - ∞|`, `∞ - ∞ = NaN`). -/
theorem abs_sub_symm (a b : XQ f) :
    CmpScalar.abs (Scalar.sub a b) = CmpScalar.abs (Scalar.sub b a) := by
  cases a <;> cases b <;> first | rfl | skip
  simp only [ssub_fin, abs_fin, abs_sub_comm]

theorem isInf_or_symm (a b : XQ f) :
    (CmpScalar.isInf a || CmpScalar.isInf b) = (CmpScalar.isInf b || CmpScalar.isInf a) :=
  Bool.or_comm _ _

theorem ulpsWithin_symm (a b : XQ f) (k : Nat) :
    CmpScalar.ulpsWithin a b k = CmpScalar.ulpsWithin b a k := by
  cases a <;> cases b <;> first | rfl | skip
  simp only [ulpsWithin_fin]
  rw [abs_sub_comm]
  congr 1
  exact decide_eq_decide.mpr Iff.comm

/-- the `largest` of `relative_eq` on finite values is `max |a| |b|` -/
theorem largest_fin (a b : ℚ) :
    (if Scalar.gt (CmpScalar.abs (fin b : XQ f)) (CmpScalar.abs (fin a : XQ f))
      then CmpScalar.abs (fin b : XQ f) else CmpScalar.abs (fin a : XQ f)) = fin (max |a| |b|) := by
  simp only [Scalar.gt, abs_fin, lt_fin]
  by_cases h : |a| < |b|
  · simp [h, max_eq_right (le_of_lt h)]
  · simp [h, max_eq_left (not_lt.mp h)]

end XQ

namespace Cmp

/-! ### closed forms at `XQ f` on finite values -/

theorem absDiffEq_fin (a b e : ℚ) :
    Cmp.absDiffEq (XQ.fin a : XQ f) (XQ.fin b) (XQ.fin e) = decide (|a - b| ≤ e) := by
  simp [Cmp.absDiffEq]

theorem relativeEq_fin (a b e r : ℚ) :
    Cmp.relativeEq (XQ.fin a : XQ f) (XQ.fin b) (XQ.fin e) (XQ.fin r)
      = decide (a = b ∨ |a - b| ≤ e ∨ |a - b| ≤ max |a| |b| * r) := by
  unfold Cmp.relativeEq
  simp only [XQ.largest_fin]
  simp only [XQ.eq_fin, XQ.isInf_fin, XQ.ssub_fin, XQ.abs_fin, XQ.le_fin, XQ.smul_fin,
    Bool.or_self, Bool.false_eq_true, if_false, decide_eq_true_eq]
  by_cases h1 : a = b
  · simp [h1]
  · by_cases h2 : |a - b| ≤ e
    · simp [h1, h2]
    · simp [h1, h2]

theorem ulpsEq_fin (a b e : ℚ) (k : Nat) :
    Cmp.ulpsEq (XQ.fin a : XQ f) (XQ.fin b) (XQ.fin e) k
      = (decide (|a - b| ≤ e)
          || (decide ((0 ≤ a) ↔ (0 ≤ b)) && decide (|ulpIdx f a - ulpIdx f b| ≤ (k : ℚ)))) := by
  unfold Cmp.ulpsEq
  rw [absDiffEq_fin, XQ.ulpsWithin_fin]
  by_cases h : |a - b| ≤ e <;> simp [h]

/-! ### symmetry of the scalar comparisons, all values and all parameters -/

theorem absDiffEq_symm (a b eps : XQ f) : Cmp.absDiffEq a b eps = Cmp.absDiffEq b a eps := by
  unfold Cmp.absDiffEq
  rw [XQ.abs_sub_symm]

/-- With a NaN operand the two `largest` differ (`largest` keeps `|self|` when the `>` is unordered), but
    then `abs_diff` is NaN and the final `<=` is false either way; with an infinite operand the function
    has returned before `largest` is computed.  On finite operands `largest = max |a| |b|`. -/
theorem relativeEq_symm (a b eps maxRel : XQ f) :
    Cmp.relativeEq a b eps maxRel = Cmp.relativeEq b a eps maxRel := by
  cases a <;> cases b <;>
    first
    | rfl
    | (simp [Cmp.relativeEq]; done)
    | skip
  rename_i a b
  unfold Cmp.relativeEq
  simp only [XQ.largest_fin]
  rw [XQ.seq_symm (XQ.fin a) (XQ.fin b), XQ.abs_sub_symm (XQ.fin a) (XQ.fin b), max_comm |a| |b|]
  simp only [XQ.isInf_fin]

theorem ulpsEq_symm (a b eps : XQ f) (k : Nat) : Cmp.ulpsEq a b eps k = Cmp.ulpsEq b a eps k := by
  unfold Cmp.ulpsEq
  rw [absDiffEq_symm, XQ.ulpsWithin_symm]

theorem scalarCmp_symm (kind : Nat) (eps maxRel : XQ f) (k : Nat) (a b : XQ f) :
    Cmp.scalarCmp kind eps maxRel k a b = Cmp.scalarCmp kind eps maxRel k b a := by
  unfold Cmp.scalarCmp
  split
  · exact XQ.seq_symm a b
  · exact absDiffEq_symm a b eps
  · exact relativeEq_symm a b eps maxRel
  · exact ulpsEq_symm a b eps k

/-! ### a NaN operand: every comparison is false -/

theorem scalarCmp_nan_left (kind : Nat) (eps maxRel : XQ f) (k : Nat) (b : XQ f) :
    Cmp.scalarCmp kind eps maxRel k (XQ.nan : XQ f) b = false := by
  unfold Cmp.scalarCmp
  split <;> simp [Cmp.absDiffEq, Cmp.relativeEq, Cmp.ulpsEq]

theorem scalarCmp_nan_right (kind : Nat) (eps maxRel : XQ f) (k : Nat) (a : XQ f) :
    Cmp.scalarCmp kind eps maxRel k a (XQ.nan : XQ f) = false := by
  rw [scalarCmp_symm]; exact scalarCmp_nan_left kind eps maxRel k a

/-! ### reflexivity on finite values -/

theorem scalarCmp_refl_fin (kind : Nat) (e : ℚ) (he : 0 ≤ e) (maxRel : XQ f) (k : Nat) (a : ℚ) :
    Cmp.scalarCmp kind (XQ.fin e) maxRel k (XQ.fin a : XQ f) (XQ.fin a) = true := by
  unfold Cmp.scalarCmp
  split
  · simp
  · simp [Cmp.absDiffEq, he]
  · simp [Cmp.relativeEq]
  · simp [Cmp.ulpsEq, Cmp.absDiffEq, he]

/-! ### cell-wise equality of containers -/

variable {α : Type} [CmpScalar α]

theorem tabEq_iff {n : Nat} (x y : Tab α n) :
    Cmp.tabEq x y = true ↔ ∀ i : Fin n, Scalar.eq x[i] y[i] = true := by
  unfold Cmp.tabEq
  rw [List.all_eq_true]
  constructor
  · intro h i
    have hm : (x[i], y[i]) ∈ List.zip x.toList y.toList := by
      rw [List.mem_iff_getElem]
      exact ⟨i, by simp, by simp⟩
    exact h _ hm
  · intro h p hp
    obtain ⟨i, hi, rfl⟩ := List.mem_iff_getElem.mp hp
    have hi' : i < n := by simpa using hi
    simpa using h ⟨i, hi'⟩

theorem tabEq_false_of_cell {n : Nat} (x y : Tab α n) (i : Fin n)
    (h : Scalar.eq x[i] y[i] = false) : Cmp.tabEq x y = false := by
  rw [← Bool.not_eq_true, tabEq_iff]
  intro hall
  rw [hall i] at h
  exact Bool.noConfusion h

end Cmp

/-! ### finite tables at `XQ f` -/

/-- every entry of the table is a finite rational -/
def FinTab {n : Nat} (t : Tab (XQ f) n) : Prop := ∀ i : Fin n, ∃ q : ℚ, t[i] = XQ.fin q

theorem finTab_liftT {n : Nat} (g : Fin n → ℚ) : FinTab (liftT g : Tab (XQ f) n) :=
  fun i => ⟨g i, by simp⟩

theorem XQ.seq_fin_left_iff (a : ℚ) (z : XQ f) : Scalar.eq (XQ.fin a : XQ f) z = true ↔ z = XQ.fin a := by
  cases z with
  | fin b =>
    simp only [XQ.eq_fin, decide_eq_true_eq, XQ.fin.injEq]
    exact eq_comm
  | pinf => exact ⟨fun h => Bool.noConfusion h, fun h => by cases h⟩
  | ninf => exact ⟨fun h => Bool.noConfusion h, fun h => by cases h⟩
  | nan => exact ⟨fun h => Bool.noConfusion h, fun h => by cases h⟩

/-- on a finite left table, cell-wise `==` is equality of the tables -/
theorem Cmp.tabEq_iff_eq_of_fin {n : Nat} (x y : Tab (XQ f) n) (hx : FinTab x) :
    Cmp.tabEq x y = true ↔ x = y := by
  rw [Cmp.tabEq_iff]
  constructor
  · intro h
    apply Vector.ext
    intro i hi
    obtain ⟨q, hq⟩ := hx ⟨i, hi⟩
    have := h ⟨i, hi⟩
    simp only [Fin.getElem_fin] at hq this
    rw [hq] at this ⊢
    exact ((XQ.seq_fin_left_iff q _).mp this).symm
  · rintro rfl i
    obtain ⟨q, hq⟩ := hx i
    rw [hq]
    simp

theorem Cmp.tabEq_liftT {n : Nat} (g h : Fin n → ℚ) :
    Cmp.tabEq (liftT g : Tab (XQ f) n) (liftT h) = true ↔ g = h := by
  rw [Cmp.tabEq_iff]
  simp only [liftT_getElem, XQ.eq_fin, decide_eq_true_eq]
  exact ⟨fun h => funext h, fun h i => congrFun h i⟩

/-! ### native instances: the bit-level clause of `ulps_eq` is symmetric

  `Float.isNaN`, `Float.toBits`, `F64.signBit` are opaque to the kernel, but the clause only combines their
  results with Boolean and `Nat` arithmetic, which is symmetric whatever those results are. -/

private theorem ulpsBits_symm (p q s t : Bool) (ia ib k : Nat) :
    (if (p || q) = true then false
      else if (s != t) = true then false
      else if ia ≤ ib then decide (ib - ia ≤ k) else decide (ia - ib ≤ k))
    = (if (q || p) = true then false
      else if (t != s) = true then false
      else if ib ≤ ia then decide (ia - ib ≤ k) else decide (ib - ia ≤ k)) := by
  cases p <;> cases q <;> cases s <;> cases t <;> simp
  all_goals
    by_cases h1 : ia ≤ ib <;> by_cases h2 : ib ≤ ia <;> simp [h1, h2]
    all_goals omega

theorem ulpsWithin_float_symm (a b : Float) (k : Nat) :
    CmpScalar.ulpsWithin a b k = CmpScalar.ulpsWithin b a k :=
  ulpsBits_symm a.isNaN b.isNaN (F64.signBit a) (F64.signBit b) a.toBits.toNat b.toBits.toNat k

theorem ulpsWithin_float32_symm (a b : Float32) (k : Nat) :
    CmpScalar.ulpsWithin a b k = CmpScalar.ulpsWithin b a k :=
  ulpsBits_symm a.isNaN b.isNaN (F32.signBit a) (F32.signBit b) a.toBits.toNat b.toBits.toNat k

end SLV
