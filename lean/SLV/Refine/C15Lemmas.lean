/-
  Helper lemmas for C15 (equivariance of the operators under a permutation of the value order).
  * `XQ` algebra on ALL values (finite, ±inf, NaN): `Scalar.add`, `Scalar.min`, `Scalar.max` are
    commutative and associative, hence every fold the model uses is invariant under a permutation.
  * the action of a permutation on tables / simplexes / opinions / conditional tables
    (`permT`, `permS`, `permO`, `permC`) and the factor-wise permutation of a flattened joint domain
    (`prodPerm`, `prodPerm3`).
  * combinator lemmas: `sumIter`, `sumLoop`, `reduceMin`, `reduceMax`, `reduceL` over a filtered index
    range, the running `min` fold over `List.finRange`, `List.all` and the validation loop
    `checkEntries` do not see the order; `sequenceE` (first error wins) is characterised.
  * `deduceOf`, `inverse`, `mergeCond2` cut into named pieces (`d*`, `i*`, `m*`; `deduceOf_eq`,
    `inverse_eq`, `mergeCond2_eq` say the model functions are exactly these compositions).
  * the proofs of the operator statements (`*_eqv`); the property statements `C15_*` in
    SLV/Props/C15.lean are these, one to one.
-/
import SLV.Refine.Lift
import SLV.Refine.MinLemmas
import SLV.Model.Fuse
import SLV.Model.Prod
import Mathlib.Data.List.FinRange
import Mathlib.Data.List.Perm.Basic
import Mathlib.Logic.Equiv.Fin.Basic
import Mathlib.Logic.Equiv.Prod
import Mathlib.Tactic.SplitIfs

namespace SLV.C15
open SLV Scalar

variable {f : Fmt} {β : Type} {n m : Nat}

/-! ### `XQ` algebra on all values -/

section tables
variable (q : ℚ)
theorem min_nf : Scalar.min (XQ.ninf : XQ f) (XQ.fin q) = XQ.ninf := rfl
theorem min_fn : Scalar.min (XQ.fin q : XQ f) XQ.ninf = XQ.ninf := rfl
theorem min_nn : Scalar.min (XQ.ninf : XQ f) XQ.ninf = XQ.ninf := rfl
theorem min_pn : Scalar.min (XQ.pinf : XQ f) XQ.ninf = XQ.ninf := rfl
theorem min_np : Scalar.min (XQ.ninf : XQ f) XQ.pinf = XQ.ninf := rfl
theorem max_pf : Scalar.max (XQ.pinf : XQ f) (XQ.fin q) = XQ.pinf := rfl
theorem max_fp : Scalar.max (XQ.fin q : XQ f) XQ.pinf = XQ.pinf := rfl
theorem max_pp : Scalar.max (XQ.pinf : XQ f) XQ.pinf = XQ.pinf := rfl
theorem max_nf : Scalar.max (XQ.ninf : XQ f) (XQ.fin q) = XQ.fin q := rfl
theorem max_fn : Scalar.max (XQ.fin q : XQ f) XQ.ninf = XQ.fin q := rfl
theorem max_nn : Scalar.max (XQ.ninf : XQ f) XQ.ninf = XQ.ninf := rfl
theorem max_pn : Scalar.max (XQ.pinf : XQ f) XQ.ninf = XQ.pinf := rfl
theorem max_np : Scalar.max (XQ.ninf : XQ f) XQ.pinf = XQ.pinf := rfl
theorem max_nan_left (x : XQ f) : Scalar.max (XQ.nan : XQ f) x = x := rfl
theorem max_nan_right (x : XQ f) : Scalar.max x (XQ.nan : XQ f) = x := by cases x <;> rfl
end tables

/-- `+` is commutative on all of `XQ` (NaN absorbs, `+inf + -inf = NaN` both ways) -/
theorem xq_add_comm (a b : XQ f) : Scalar.add a b = Scalar.add b a := by
  show XQ.add a b = XQ.add b a
  cases a <;> cases b <;> simp [XQ.add, add_comm]

/-- `+` is associative on all of `XQ` -/
theorem xq_add_assoc (a b c : XQ f) :
    Scalar.add (Scalar.add a b) c = Scalar.add a (Scalar.add b c) := by
  show XQ.add (XQ.add a b) c = XQ.add a (XQ.add b c)
  cases a <;> cases b <;> cases c <;> simp [XQ.add, add_assoc]

/-- NaN-skipping `min` is commutative on all of `XQ` (there is no signed zero in `XQ`) -/
theorem xq_min_comm (a b : XQ f) : Scalar.min a b = Scalar.min b a := by
  cases a <;> cases b <;> simp [XQ.min_fin, min_comm, min_nf, min_fn, min_pn, min_np]

/-- NaN-skipping `min` is associative on all of `XQ` -/
theorem xq_min_assoc (a b c : XQ f) :
    Scalar.min (Scalar.min a b) c = Scalar.min a (Scalar.min b c) := by
  cases a <;> cases b <;> cases c <;>
    simp [XQ.min_fin, min_assoc, min_nf, min_fn, min_pn, min_np, min_nn]

theorem xq_max_comm (a b : XQ f) : Scalar.max a b = Scalar.max b a := by
  cases a <;> cases b <;>
    simp [XQ.max_fin, max_comm, max_pf, max_fp, max_nf, max_fn, max_pn, max_np, max_nan_left,
      max_nan_right]

theorem xq_max_assoc (a b c : XQ f) :
    Scalar.max (Scalar.max a b) c = Scalar.max a (Scalar.max b c) := by
  cases a <;> cases b <;> cases c <;>
    simp [XQ.max_fin, max_assoc, max_pf, max_fp, max_nf, max_fn, max_pn, max_np, max_pp, max_nn,
      max_nan_left, max_nan_right]

instance : RightCommutative (Scalar.add : XQ f → XQ f → XQ f) :=
  ⟨fun a b c => by rw [xq_add_assoc, xq_add_comm b c, ← xq_add_assoc]⟩

instance : RightCommutative (Scalar.min : XQ f → XQ f → XQ f) :=
  ⟨fun a b c => by rw [xq_min_assoc, xq_min_comm b c, ← xq_min_assoc]⟩

/-! ### the action of a permutation -/

/-- the action of a permutation of the value order on a table: entry `i` of the result is entry
    `σ i` of the operand -/
def permT (σ : Equiv.Perm (Fin n)) (v : Vector β n) : Vector β n := Vector.ofFn fun i => v[σ i]

@[simp] theorem permT_getElem (σ : Equiv.Perm (Fin n)) (v : Vector β n) (i : Fin n) :
    (permT σ v)[i] = v[σ i] := by simp [permT]

@[simp] theorem permT_getElem' (σ : Equiv.Perm (Fin n)) (v : Vector β n) (i : Nat) (h : i < n) :
    (permT σ v)[i]'h = v[σ ⟨i, h⟩] := by simp [permT]

theorem permT_ofFn (σ : Equiv.Perm (Fin n)) (g : Fin n → β) :
    permT σ (Vector.ofFn g) = Vector.ofFn fun i => g (σ i) := by
  apply Vector.ext; intro i hi; simp

/-- a table built entry-wise from permuted data is the permuted table -/
theorem ofFn_eq_permT (σ : Equiv.Perm (Fin n)) {g' g : Fin n → β} (h : ∀ i, g' i = g (σ i)) :
    Vector.ofFn g' = permT σ (Vector.ofFn g) := by
  apply Vector.ext; intro i hi; simp [h]

theorem permT_map {γ : Type} (σ : Equiv.Perm (Fin n)) (v : Vector β n) (h : β → γ) :
    (permT σ v).map h = permT σ (v.map h) := by
  apply Vector.ext; intro i hi; simp

theorem permT_replicate (σ : Equiv.Perm (Fin n)) (c : β) :
    permT σ (Vector.replicate n c) = Vector.replicate n c := by
  apply Vector.ext; intro i hi; simp

theorem permT_refl (v : Vector β n) : permT (Equiv.refl _) v = v := by
  apply Vector.ext; intro i hi; simp

theorem permT_trans (σ τ : Equiv.Perm (Fin n)) (v : Vector β n) :
    permT σ (permT τ v) = permT (σ.trans τ) v := by
  apply Vector.ext; intro i hi; simp

theorem permT_toList_perm (σ : Equiv.Perm (Fin n)) (v : Vector β n) :
    (permT σ v).toList.Perm v.toList := by
  have h1 : (permT σ v).toList = List.ofFn ((fun i : Fin n => v[i]) ∘ σ) := by
    simp [permT, Vector.toList_ofFn]; rfl
  have h2 : v.toList = List.ofFn (fun i : Fin n => v[i]) := by
    apply List.ext_getElem <;> simp
  rw [h1, h2]
  exact σ.ofFn_comp_perm _

variable {α : Type}

/-- on simplexes: belief masses permuted, uncertainty untouched -/
def permS (σ : Equiv.Perm (Fin n)) (s : Simplex α n) : Simplex α n := ⟨permT σ s.b, s.u⟩

/-- on opinions: belief masses and base rate permuted -/
def permO (σ : Equiv.Perm (Fin n)) (w : Opinion α n) : Opinion α n :=
  ⟨permT σ w.b, w.u, permT σ w.a⟩

/-- on conditional tables: `σ` on the rows (the values of X), `ρ` inside every row (the values of Y) -/
def permC (σ : Equiv.Perm (Fin n)) (ρ : Equiv.Perm (Fin m)) (c : CondTab α n m) : CondTab α n m :=
  Vector.ofFn fun x => permS ρ c[σ x]

@[simp] theorem permS_b (σ : Equiv.Perm (Fin n)) (s : Simplex α n) : (permS σ s).b = permT σ s.b := rfl
@[simp] theorem permS_u (σ : Equiv.Perm (Fin n)) (s : Simplex α n) : (permS σ s).u = s.u := rfl
@[simp] theorem permO_b (σ : Equiv.Perm (Fin n)) (w : Opinion α n) : (permO σ w).b = permT σ w.b := rfl
@[simp] theorem permO_u (σ : Equiv.Perm (Fin n)) (w : Opinion α n) : (permO σ w).u = w.u := rfl
@[simp] theorem permO_a (σ : Equiv.Perm (Fin n)) (w : Opinion α n) : (permO σ w).a = permT σ w.a := rfl
@[simp] theorem permO_simplex (σ : Equiv.Perm (Fin n)) (w : Opinion α n) :
    (permO σ w).simplex = permS σ w.simplex := rfl
@[simp] theorem permO_mk' (σ : Equiv.Perm (Fin n)) (s : Simplex α n) (a : Tab α n) :
    Opinion.mk' (permS σ s) (permT σ a) = permO σ (Opinion.mk' s a) := rfl
@[simp] theorem permC_getElem (σ : Equiv.Perm (Fin n)) (ρ : Equiv.Perm (Fin m)) (c : CondTab α n m)
    (x : Fin n) : (permC σ ρ c)[x] = permS ρ c[σ x] := by simp [permC]
@[simp] theorem permC_getElem' (σ : Equiv.Perm (Fin n)) (ρ : Equiv.Perm (Fin m)) (c : CondTab α n m)
    (x : Nat) (h : x < n) : (permC σ ρ c)[x]'h = permS ρ c[σ ⟨x, h⟩] := by simp [permC]

theorem permC_eq (σ : Equiv.Perm (Fin n)) (ρ : Equiv.Perm (Fin m)) (c : CondTab α n m) :
    permC σ ρ c = permT σ (c.map (permS ρ)) := by
  apply Vector.ext; intro i hi; simp

/-! ### folds do not see the order -/

theorem sumIter_permT (σ : Equiv.Perm (Fin n)) (v : Tab (XQ f) n) :
    Tab.sumIter (permT σ v) = Tab.sumIter v := by
  unfold Tab.sumIter
  rw [← Vector.foldl_toList, ← Vector.foldl_toList]
  exact (permT_toList_perm σ v).foldl_eq _

theorem sumLoop_permT (σ : Equiv.Perm (Fin n)) (v : Tab (XQ f) n) :
    Tab.sumLoop (permT σ v) = Tab.sumLoop v := by
  unfold Tab.sumLoop
  rw [← Vector.foldl_toList, ← Vector.foldl_toList]
  exact (permT_toList_perm σ v).foldl_eq _

/-- `reduce` on a list: fold the tail from the head -/
def redL (g : β → β → β) (d : β) : List β → β
  | [] => d
  | x :: t => t.foldl g x

theorem redL_perm (g : β → β → β) (hc : ∀ a b, g a b = g b a)
    (ha : ∀ a b c, g (g a b) c = g a (g b c)) (d : β) {l1 l2 : List β} (p : l1.Perm l2) :
    redL g d l1 = redL g d l2 := by
  have : RightCommutative g := ⟨fun a b c => by rw [ha, hc b c, ← ha]⟩
  induction p with
  | nil => rfl
  | cons x p _ => exact p.foldl_eq x
  | swap x y l => simp [redL, hc]
  | trans _ _ h1 h2 => exact h1.trans h2

theorem reduce_eq_redL (g : α → α → α) (v : Vector α n) (d : α) :
    Tab.reduce g v d = redL g d v.toList := by
  unfold Tab.reduce
  split
  · rename_i h
    have hl : v.toList = v[0] :: v.toList.tail := by
      have hne : v.toList ≠ [] := by
        intro h; have := congrArg List.length h; simp at this; omega
      rw [← List.cons_head_tail hne]
      simp [List.head_eq_getElem]
    conv_rhs => rw [hl]
    rfl
  · rename_i h
    have : v.toList = [] := by
      apply List.eq_nil_of_length_eq_zero; simp; omega
    rw [this]; rfl

/-- `iter.reduce(g)` of a commutative, associative `g` does not depend on which element comes first -/
theorem reduce_permT (g : α → α → α) (hc : ∀ a b, g a b = g b a)
    (ha : ∀ a b c, g (g a b) c = g a (g b c)) (σ : Equiv.Perm (Fin n)) (v : Vector α n) (d : α) :
    Tab.reduce g (permT σ v) d = Tab.reduce g v d := by
  rw [reduce_eq_redL, reduce_eq_redL]
  exact redL_perm g hc ha d (permT_toList_perm σ v)

theorem reduceMin_permT (σ : Equiv.Perm (Fin n)) (v : Tab (XQ f) n) :
    Tab.reduceMin (permT σ v) = Tab.reduceMin v :=
  reduce_permT _ xq_min_comm xq_min_assoc σ v _

theorem reduceMax_permT (σ : Equiv.Perm (Fin n)) (v : Tab (XQ f) n) :
    Tab.reduceMax (permT σ v) = Tab.reduceMax v :=
  reduce_permT _ xq_max_comm xq_max_assoc σ v _

theorem all_toList_permT (σ : Equiv.Perm (Fin n)) (v : Vector β n) (p : β → Bool) :
    (permT σ v).toList.all p = v.toList.all p := by
  rw [Bool.eq_iff_iff, List.all_eq_true, List.all_eq_true]
  have := (permT_toList_perm σ v)
  constructor
  · intro h x hx; exact h x (this.mem_iff.mpr hx)
  · intro h x hx; exact h x (this.mem_iff.mp hx)

theorem reduceL_eq_redL (g : β → β → β) (l : List β) (d : β) : Tab.reduceL g l d = redL g d l := by
  cases l <;> rfl

/-- `filter(..).map(..).reduce(g).unwrap_or(d)` over the index range does not see the order -/
theorem reduceL_filter_congr (op : β → β → β) (hc : ∀ a b, op a b = op b a)
    (ha : ∀ a b c, op (op a b) c = op a (op b c)) (ρ : Equiv.Perm (Fin m))
    {p' p : Fin m → Bool} {g' g : Fin m → β} (hp : ∀ y, p' y = p (ρ y)) (hg : ∀ y, g' y = g (ρ y))
    (d : β) :
    Tab.reduceL op (((List.finRange m).filter p').map g') d
      = Tab.reduceL op (((List.finRange m).filter p).map g) d := by
  rw [reduceL_eq_redL, reduceL_eq_redL]
  apply redL_perm op hc ha
  have e1 : p' = p ∘ ρ := funext hp
  have e2 : g' = g ∘ ρ := funext hg
  rw [e1, e2, ← List.map_map, ← List.filter_map]
  exact ((ρ.map_finRange_perm).filter p).map g

/-! #### congruence forms: the entries are given by functions related through `σ` -/

theorem sumIter_congr (σ : Equiv.Perm (Fin n)) {g' g : Fin n → XQ f} (h : ∀ x, g' x = g (σ x)) :
    Tab.sumIter (Vector.ofFn g') = Tab.sumIter (Vector.ofFn g) := by
  rw [ofFn_eq_permT σ h, sumIter_permT]

theorem sumLoop_congr (σ : Equiv.Perm (Fin n)) {g' g : Fin n → XQ f} (h : ∀ x, g' x = g (σ x)) :
    Tab.sumLoop (Vector.ofFn g') = Tab.sumLoop (Vector.ofFn g) := by
  rw [ofFn_eq_permT σ h, sumLoop_permT]

theorem reduceMin_congr (σ : Equiv.Perm (Fin n)) {g' g : Fin n → XQ f} (h : ∀ x, g' x = g (σ x)) :
    Tab.reduceMin (Vector.ofFn g') = Tab.reduceMin (Vector.ofFn g) := by
  rw [ofFn_eq_permT σ h, reduceMin_permT]

theorem reduceMax_congr (σ : Equiv.Perm (Fin n)) {g' g : Fin n → XQ f} (h : ∀ x, g' x = g (σ x)) :
    Tab.reduceMax (Vector.ofFn g') = Tab.reduceMax (Vector.ofFn g) := by
  rw [ofFn_eq_permT σ h, reduceMax_permT]

/-- the running minimum of `max_uncertainty` -/
theorem foldMin_congr (σ : Equiv.Perm (Fin n)) {g' g : Fin n → XQ f} (h : ∀ x, g' x = g (σ x))
    (c : XQ f) :
    (List.finRange n).foldl (fun u i => Scalar.min u (g' i)) c
      = (List.finRange n).foldl (fun u i => Scalar.min u (g i)) c := by
  have e : ∀ k : Fin n → XQ f, (List.finRange n).foldl (fun u i => Scalar.min u (k i)) c
      = (List.ofFn k).foldl Scalar.min c := by
    intro k; rw [List.ofFn_eq_map, List.foldl_map]
  rw [e, e]
  have : g' = g ∘ σ := funext h
  rw [this]
  exact (σ.ofFn_comp_perm g).foldl_eq _

theorem allFin_congr (σ : Equiv.Perm (Fin n)) {p' p : Fin n → Bool} (h : ∀ x, p' x = p (σ x)) :
    (List.finRange n).all p' = (List.finRange n).all p := by
  rw [Bool.eq_iff_iff, List.all_eq_true, List.all_eq_true]
  constructor
  · intro hh x _
    have := hh (σ.symm x) (List.mem_finRange _)
    rwa [h, Equiv.apply_symm_apply] at this
  · intro hh x _
    rw [h]; exact hh _ (List.mem_finRange _)

section pieces
variable [Scalar α]

/-! ### `deduce_of` in pieces -/

/-- `Σ_x w[x] * P(y|x)` as a table over Y (used with `w = a_X` and with `w = P_X`) -/
def dMix (w : Tab α n) (conds : CondTab α n m) (ay : Tab α m) : Tab α m :=
  Vector.ofFn fun y => Tab.sumIter (Vector.ofFn fun x : Fin n => w[x] * ((projections conds ay)[x])[y])

def dUyhx (wx : Opinion α n) (conds : CondTab α n m) (ay : Tab α m) : α :=
  Tab.reduceMin (Vector.ofFn fun y : Fin m =>
    ((dMix wx.a conds ay)[y] - Tab.reduceMin (Vector.ofFn fun x : Fin n => (conds[x]).b[y])) / ay[y])

/-- the clamp of repair 9ec2d8b: `if v < 0 { 0 } else { v }` -/
def clampZ (v : α) : α := if Scalar.lt v Scalar.zero then Scalar.zero else v

/-- the uncertainty before the clamp -/
def dUraw (wx : Opinion α n) (conds : CondTab α n m) (ay : Tab α m) : α :=
  dUyhx wx conds ay
    - Tab.sumIter (Vector.ofFn fun x : Fin n => (dUyhx wx conds ay - (conds[x]).u) * wx.b[x])

def dU (wx : Opinion α n) (conds : CondTab α n m) (ay : Tab α m) : α :=
  clampZ (dUraw wx conds ay)

def dB (wx : Opinion α n) (conds : CondTab α n m) (ay : Tab α m) : Tab α m :=
  Vector.ofFn fun y => clampZ ((dMix wx.projection conds ay)[y] - ay[y] * dU wx conds ay)

theorem deduceOf_eq (wx : Opinion α n) (conds : CondTab α n m) (ay : Tab α m) :
    deduceOf wx conds ay = Opinion.mk' (Simplex.normalized (dB wx conds ay) (dU wx conds ay)) ay := by
  unfold deduceOf dB dU dUraw dUyhx dMix clampZ
  simp

/-! ### `inverse` in pieces -/

def iUyx (conds : CondTab α n m) (ay : Tab α m) : Tab α n :=
  Vector.ofFn fun x => (conds[x]).maxUncertainty ay

def iTemp (conds : CondTab α n m) (ax : Tab α n) (ay : Tab α m) : Vector (Tab α n) m :=
  Vector.ofFn fun y =>
    if (List.finRange n).all fun x => isZero ((projections conds ay)[x])[y] then
      Vector.replicate n Scalar.one
    else
      Vector.ofFn fun x => ((projections conds ay)[x])[y]
        / Tab.sumIter (Vector.ofFn fun x : Fin n => ax[x] * ((projections conds ay)[x])[y])

def iIrrel (conds : CondTab α n m) (ay : Tab α m) : Tab α m :=
  Vector.ofFn fun y =>
    Scalar.one - Tab.reduceMax (Vector.ofFn fun x : Fin n => ((projections conds ay)[x])[y])
      + Tab.reduceMin (Vector.ofFn fun x : Fin n => ((projections conds ay)[x])[y])

def iWeights (conds : CondTab α n m) (ay : Tab α m) : Tab α n :=
  if Scalar.eq (Tab.sumIter (iUyx conds ay)) Scalar.zero then Vector.replicate n Scalar.zero
  else Vector.ofFn fun x => (iUyx conds ay)[x] / Tab.sumIter (iUyx conds ay)

def iMaxUyx (conds : CondTab α n m) (ay : Tab α m) : Tab α n :=
  Vector.ofFn fun x => Tab.reduceL Scalar.min
    (((List.finRange m).filter fun y => !isZero ay[y]).map fun y =>
      ((projections conds ay)[x])[y] / ay[y]) Scalar.one

def iWprop (conds : CondTab α n m) (ay : Tab α m) : α :=
  Tab.sumIter (Vector.ofFn fun x : Fin n =>
    if isZero (iMaxUyx conds ay)[x] then Scalar.zero
    else (iWeights conds ay)[x] * (iUyx conds ay)[x] / (iMaxUyx conds ay)[x])

def iU (conds : CondTab α n m) (ax : Tab α n) (ay : Tab α m) (y : Fin m) : α :=
  Tab.reduceMin ((iTemp conds ax ay)[y])
    * (iWprop conds ay + (iIrrel conds ay)[y] - iWprop conds ay * (iIrrel conds ay)[y])

theorem inverse_eq (conds : CondTab α n m) (ax : Tab α n) (ay : Tab α m) :
    inverse conds ax ay = Vector.ofFn fun y =>
      Simplex.normalized
        (Vector.ofFn fun x => clampZ (((iTemp conds ax ay)[y])[x] * ax[x] - iU conds ax ay y * ax[x]))
        (iU conds ax ay y) := by
  unfold inverse iU iWprop iMaxUyx iWeights iIrrel iTemp iUyx projections clampZ
  simp

end pieces

theorem ofFn_eq_permC (σ : Equiv.Perm (Fin n)) (ρ : Equiv.Perm (Fin m))
    {g' g : Fin n → Simplex α m} (h : ∀ x, g' x = permS ρ (g (σ x))) :
    Vector.ofFn g' = permC σ ρ (Vector.ofFn g) := by
  apply Vector.ext; intro i hi; simp [h]

/-! ### joint domains -/

section joint
variable {n0 n1 n2 : Nat}

/-- factor-wise permutation of the row-major flattened joint domain:
    cell `(i, j)` goes to cell `(σ0 i, σ1 j)` -/
def prodPerm (σ0 : Equiv.Perm (Fin n0)) (σ1 : Equiv.Perm (Fin n1)) : Equiv.Perm (Fin (n0 * n1)) :=
  (finProdFinEquiv.symm.trans (Equiv.prodCongr σ0 σ1)).trans finProdFinEquiv

theorem idx2_eq_symm (k : Fin (n0 * n1)) : idx2 k = finProdFinEquiv.symm k := rfl

theorem prodPerm_apply (σ0 : Equiv.Perm (Fin n0)) (σ1 : Equiv.Perm (Fin n1)) (k : Fin (n0 * n1)) :
    prodPerm σ0 σ1 k = finProdFinEquiv (σ0 (idx2 k).1, σ1 (idx2 k).2) := rfl

@[simp] theorem idx2_prodPerm (σ0 : Equiv.Perm (Fin n0)) (σ1 : Equiv.Perm (Fin n1))
    (k : Fin (n0 * n1)) : idx2 (prodPerm σ0 σ1 k) = (σ0 (idx2 k).1, σ1 (idx2 k).2) := by
  rw [prodPerm_apply, idx2_eq_symm, Equiv.symm_apply_apply]

/-- three factors: cell `(i, j, l)` goes to `(σ0 i, σ1 j, σ2 l)` -/
def prodPerm3 (σ0 : Equiv.Perm (Fin n0)) (σ1 : Equiv.Perm (Fin n1)) (σ2 : Equiv.Perm (Fin n2)) :
    Equiv.Perm (Fin (n0 * n1 * n2)) := prodPerm (prodPerm σ0 σ1) σ2

@[simp] theorem idx3_prodPerm3 (σ0 : Equiv.Perm (Fin n0)) (σ1 : Equiv.Perm (Fin n1))
    (σ2 : Equiv.Perm (Fin n2)) (k : Fin (n0 * n1 * n2)) :
    idx3 (prodPerm3 σ0 σ1 σ2 k) = (σ0 (idx3 k).1, σ1 (idx3 k).2.1, σ2 (idx3 k).2.2) := by
  unfold idx3 prodPerm3
  simp

variable [Scalar α]

/-- the computation shared by `product2Raw` and `product3Raw` once the cell tables are built; `c k` is the
    candidate for the joint uncertainty contributed by cell `k` (`prodCand2` / `prodCand3` at the cell's
    coordinates since repair abca806); every joint mass is clamped at zero since repair b817f74 (cell by cell, so the
    clamp commutes with every relabelling) -/
def rawOf {N : Nat} (p a : Tab α N) (c : Fin N → α) : Opinion α N :=
  let u := Tab.reduceL Scalar.min
    (((List.finRange N).filter fun k => Scalar.gt a[k] Scalar.zero).map c)
    (Tab.nanOf α)
  let b : Tab α N := Vector.ofFn fun k =>
    let b := p[k] - a[k] * u
    if Scalar.lt b Scalar.zero then Scalar.zero else b
  ⟨b, u, a⟩

theorem product2Raw_eq (w0 : Opinion α n0) (w1 : Opinion α n1) :
    product2Raw w0 w1
      = rawOf (outer2 w0.projection w1.projection) (outer2 w0.a w1.a)
          (fun k => prodCand2 w0 w1 (idx2 k)) := rfl

theorem product3Raw_eq (w0 : Opinion α n0) (w1 : Opinion α n1) (w2 : Opinion α n2) :
    product3Raw w0 w1 w2
      = rawOf (outer3 w0.projection w1.projection w2.projection) (outer3 w0.a w1.a w2.a)
          (fun k => prodCand3 w0 w1 w2 (idx3 k)) := rfl

end joint

/-! ### validation -/

section validation
variable [Scalar α]

/-- the accumulate-and-check loop: the label carries no index, so only "all in range" and the sum matter -/
theorem checkEntries_eq (l : Label) (xs : List α) (acc : α) :
    checkEntries l xs acc
      = if xs.all inUnit then .ok (xs.foldl Scalar.add acc) else .error l := by
  induction xs generalizing acc with
  | nil => rfl
  | cons x xs ih =>
    unfold checkEntries
    by_cases h : inUnit x
    · simp [h, ih]
    · simp [h]

end validation

theorem checkEntries_permT (l : Label) (σ : Equiv.Perm (Fin n)) (v : Tab (XQ f) n) (acc : XQ f) :
    checkEntries l (permT σ v).toList acc = checkEntries l v.toList acc := by
  rw [checkEntries_eq, checkEntries_eq, all_toList_permT, (permT_toList_perm σ v).foldl_eq]

theorem checkSimplex_permT (σ : Equiv.Perm (Fin n)) (b : Tab (XQ f) n) (u : XQ f) :
    checkSimplex (permT σ b) u = checkSimplex b u := by
  unfold checkSimplex; rw [checkEntries_permT]

theorem checkBaseRate_permT (σ : Equiv.Perm (Fin n)) (a : Tab (XQ f) n) :
    checkBaseRate (permT σ a) = checkBaseRate a := by
  unfold checkBaseRate; rw [checkEntries_permT]

/-! ### `sequenceE` (collecting the validated cells of `merge_cond2`) -/

section seq
variable {ε β γ : Type} {k : Nat}

theorem mapM_id_ok_iff (l : List (Except ε β)) (r : List β) :
    l.mapM id = .ok r ↔ l = r.map .ok := by
  induction l generalizing r with
  | nil =>
    cases r <;> simp [pure, Except.pure]
  | cons x xs ih =>
    rw [List.mapM_cons]
    cases x with
    | error e => cases r <;> simp [bind, Except.bind]
    | ok a =>
      cases hxs : xs.mapM id with
      | error e =>
        have : ∀ r' : List β, xs ≠ r'.map .ok := by
          intro r' h'; rw [← ih] at h'; rw [hxs] at h'; cases h'
        cases r with
        | nil => simp [bind, Except.bind]
        | cons b r' => simp [bind, Except.bind, this r']
      | ok r0 =>
        have h0 := (ih r0).mp hxs
        cases r with
        | nil => simp [bind, Except.bind, pure, Except.pure]
        | cons b r' =>
          simp only [bind, Except.bind, pure, Except.pure, id, List.map_cons, List.cons.injEq,
            Except.ok.injEq]
          constructor
          · rintro ⟨rfl, rfl⟩; exact ⟨rfl, h0⟩
          · rintro ⟨rfl, h1⟩
            refine ⟨rfl, ?_⟩
            have := (ih r').mpr h1
            rw [hxs] at this; cases this; rfl

theorem sequenceE_ok_iff (v : Vector (Except ε β) k) (r : Vector β k) :
    sequenceE v = .ok r ↔ ∀ i : Fin k, v[i] = .ok r[i] := by
  have h1 : Vector.toArray <$> v.mapM id = v.toArray.mapM id := Vector.toArray_mapM
  rw [Array.mapM_eq_mapM_toList] at h1
  have key : sequenceE v = .ok r ↔ v.toList.mapM id = .ok r.toList := by
    unfold sequenceE
    show _ ↔ v.toArray.toList.mapM id = _
    cases h : v.mapM id with
    | error e =>
      rw [h] at h1
      cases h2 : v.toArray.toList.mapM id with
      | error e' => simp
      | ok r' => rw [h2] at h1; simp [Functor.map, Except.map] at h1
    | ok r0 =>
      rw [h] at h1
      cases h2 : v.toArray.toList.mapM id with
      | error e' => rw [h2] at h1; simp [Functor.map, Except.map] at h1
      | ok r' =>
        rw [h2] at h1
        simp only [Functor.map, Except.map, Except.ok.injEq] at h1
        simp only [Except.ok.injEq]
        constructor
        · rintro rfl
          show r' = r0.toArray.toList
          rw [h1]
        · intro h3
          apply Vector.toArray_inj.mp
          rw [h1, h3]; rfl
  rw [key, mapM_id_ok_iff]
  constructor
  · intro h i
    have := congrArg (fun l => l[i.val]?) h
    simp at this
    simpa using this
  · intro h
    apply List.ext_getElem
    · simp
    · intro i h1 h2
      simp at h1
      simpa using h ⟨i, h1⟩

theorem sequenceE_error_iff (v : Vector (Except ε β) k) :
    (∃ e, sequenceE v = .error e) ↔ ∃ (i : Fin k) (e : ε), v[i] = .error e := by
  constructor
  · rintro ⟨e, he⟩
    by_contra hne
    push Not at hne
    have hok : ∀ i : Fin k, ∃ x, v[i] = .ok x := by
      intro i
      cases h : v[i] with
      | error e' => exact absurd h (hne i e')
      | ok x => exact ⟨x, rfl⟩
    choose g hg using hok
    have := (sequenceE_ok_iff v (Vector.ofFn g)).mpr (fun i => by rw [hg i]; simp)
    rw [he] at this; cases this
  · rintro ⟨i, e, hi⟩
    cases h : sequenceE v with
    | error e' => exact ⟨e', rfl⟩
    | ok r =>
      have := (sequenceE_ok_iff v r).mp h i
      rw [hi] at this; cases this

theorem sequenceE_toList (v : Vector (Except ε β) k) :
    (sequenceE v).map Vector.toList = v.toList.mapM id := by
  have h1 : Vector.toArray <$> v.mapM id = v.toArray.mapM id := Vector.toArray_mapM
  rw [Array.mapM_eq_mapM_toList] at h1
  unfold sequenceE
  show _ = v.toArray.toList.mapM id
  cases h : v.mapM id with
  | error e =>
    rw [h] at h1
    cases h2 : v.toArray.toList.mapM id with
    | error e' => rw [h2] at h1; simp [Functor.map, Except.map] at h1; simp [Except.map, h1]
    | ok r' => rw [h2] at h1; simp [Functor.map, Except.map] at h1
  | ok r0 =>
    rw [h] at h1
    cases h2 : v.toArray.toList.mapM id with
    | error e' => rw [h2] at h1; simp [Functor.map, Except.map] at h1
    | ok r' =>
      rw [h2] at h1
      simp only [Functor.map, Except.map, Except.ok.injEq] at h1
      simp only [Except.map, Except.ok.injEq]
      show r0.toArray.toList = r'
      rw [h1]

theorem mapM_id_map (g : β → γ) (l : List (Except ε β)) :
    (l.map (Except.map g)).mapM id = (l.mapM id).map (List.map g) := by
  induction l with
  | nil => rfl
  | cons x xs ih =>
    rw [List.map_cons, List.mapM_cons, List.mapM_cons, ih]
    cases x with
    | error e => rfl
    | ok a => cases xs.mapM id <;> rfl

/-- mapping inside every cell commutes with collecting (the first error stays the first error) -/
theorem sequenceE_map (g : β → γ) (v : Vector (Except ε β) k) :
    sequenceE (v.map (Except.map g)) = (sequenceE v).map (Vector.map g) := by
  have h := sequenceE_toList (v.map (Except.map g))
  rw [Vector.toList_map, mapM_id_map, ← sequenceE_toList] at h
  cases h1 : sequenceE (v.map (Except.map g)) with
  | error e =>
    cases h2 : sequenceE v with
    | error e' => rw [h1, h2] at h; simp [Except.map] at h; simp [Except.map, h]
    | ok r => rw [h1, h2] at h; simp [Except.map] at h
  | ok r =>
    cases h2 : sequenceE v with
    | error e' => rw [h1, h2] at h; simp [Except.map] at h
    | ok r' =>
      rw [h1, h2] at h
      simp only [Except.map, Except.ok.injEq] at h ⊢
      apply Vector.toList_inj.mp
      rw [h, Vector.toList_map]

end seq

/-! ### `merge_cond2` in pieces -/

section merge
variable [Scalar α] {n1 n2 : Nat}

/-- the joint inverted cells, one (possibly rejected) simplex over X1×X2 per value of Y -/
def mCells (validate : Bool) (yx1 : CondTab α n1 m) (yx2 : CondTab α n2 m)
    (ax1 : Tab α n1) (ax2 : Tab α n2) (ay : Tab α m) :
    Vector (Except Label (Simplex α (n1 * n2))) m :=
  Vector.ofFn fun y =>
    if validate then
      (product2U (Opinion.mk' (inverse yx1 ax1 ((mbr ax1 yx1).getD ay))[y] ax1)
        (Opinion.mk' (inverse yx2 ax2 ((mbr ax2 yx2).getD ay))[y] ax2)).map Opinion.simplex
    else
      .ok (product2L (Opinion.mk' (inverse yx1 ax1 ((mbr ax1 yx1).getD ay))[y] ax1)
        (Opinion.mk' (inverse yx2 ax2 ((mbr ax2 yx2).getD ay))[y] ax2)).simplex

/-- the final inversion back to conditionals on Y given X1×X2 -/
def mFinish (ax1 : Tab α n1) (ax2 : Tab α n2) (ay : Tab α m) (x12y : CondTab α m (n1 * n2)) :
    CondTab α (n1 * n2) m :=
  inverse x12y ay ((mbr ay x12y).getD (outer2 ax1 ax2))

theorem mergeCond2_eq (validate : Bool) (yx1 : CondTab α n1 m) (yx2 : CondTab α n2 m)
    (ax1 : Tab α n1) (ax2 : Tab α n2) (ay : Tab α m) :
    mergeCond2 validate yx1 yx2 ax1 ax2 ay
      = (sequenceE (mCells validate yx1 yx2 ax1 ax2 ay)).map (mFinish ax1 ax2 ay) := by
  unfold mergeCond2
  simp only []
  generalize hA : (Vector.ofFn _ : Vector (Except Label (Simplex α (n1 * n2))) m) = A
  have hc : A = mCells validate yx1 yx2 ax1 ax2 ay := by
    rw [← hA]
    unfold mCells
    congr 1
    funext y
    split
    · split <;> simp_all [Except.map]
    · rfl
  rw [hc]
  unfold mFinish
  cases sequenceE (mCells validate yx1 yx2 ax1 ax2 ay) with
  | error e => rfl
  | ok x =>
    simp only [Except.map]
    congr 2
    cases mbr ay x <;> rfl

end merge

/-! ### equivariance of the operators (the property statements `C15_*` in SLV/Props/C15.lean are these) -/

section operators
variable {f : Fmt} {n m : Nat}

theorem normalizeProbDist_eqv (σ : Equiv.Perm (Fin n)) (p : Tab (XQ f) n) :
    normalizeProbDist (permT σ p) = permT σ (normalizeProbDist p) := by
  unfold normalizeProbDist
  simp only [sumLoop_permT, permT_map]

theorem normalized_eqv (σ : Equiv.Perm (Fin n)) (b : Tab (XQ f) n) (u : XQ f) :
    Simplex.normalized (permT σ b) u = permS σ (Simplex.normalized b u) := by
  unfold Simplex.normalized
  simp only [sumIter_permT, permT_map]
  rfl

theorem projection_eqv (σ : Equiv.Perm (Fin n)) (b : Tab (XQ f) n) (u : XQ f) (a : Tab (XQ f) n) :
    projection (permT σ b) u (permT σ a) = permT σ (projection b u a) := by
  unfold projection
  rw [← normalizeProbDist_eqv]
  congr 1
  exact ofFn_eq_permT σ (fun i => by simp)

theorem projection_simplex_eqv (σ : Equiv.Perm (Fin n)) (s : Simplex (XQ f) n) (a : Tab (XQ f) n) :
    (permS σ s).projection (permT σ a) = permT σ (s.projection a) :=
  projection_eqv σ s.b s.u a

theorem projection_opinion_eqv (σ : Equiv.Perm (Fin n)) (w : Opinion (XQ f) n) :
    (permO σ w).projection = permT σ w.projection :=
  projection_eqv σ w.b w.u w.a

theorem maxUncertainty_eqv (σ : Equiv.Perm (Fin n)) (s : Simplex (XQ f) n) (a : Tab (XQ f) n) :
    (permS σ s).maxUncertainty (permT σ a) = s.maxUncertainty a := by
  unfold Simplex.maxUncertainty
  rw [projection_simplex_eqv]
  exact foldMin_congr σ (fun i => by simp) _

theorem uncertaintyMaximized_eqv (σ : Equiv.Perm (Fin n)) (s : Simplex (XQ f) n) (a : Tab (XQ f) n) :
    (permS σ s).uncertaintyMaximized (permT σ a) = permS σ (s.uncertaintyMaximized a) := by
  unfold Simplex.uncertaintyMaximized
  rw [projection_simplex_eqv, maxUncertainty_eqv, ← normalized_eqv]
  dsimp only
  congr 1
  exact ofFn_eq_permT σ (fun i => by simp)

theorem vacuous_eqv (σ : Equiv.Perm (Fin n)) :
    permS σ (Simplex.vacuous : Simplex (XQ f) n) = Simplex.vacuous := by
  simp [permS, Simplex.vacuous, permT_replicate]

theorem discount_eqv (σ : Equiv.Perm (Fin n)) (s : Simplex (XQ f) n) (t : XQ f) :
    (permS σ s).discount t = permS σ (s.discount t) := by
  unfold Simplex.discount
  have : (permS σ s).isVacuous = s.isVacuous := rfl
  rw [this]
  split
  · rw [vacuous_eqv]
  · simp [permS, permT_map]

theorem discount_opinion_eqv (σ : Equiv.Perm (Fin n)) (w : Opinion (XQ f) n) (t : XQ f) :
    (permO σ w).discount t = permO σ (w.discount t) := by
  unfold Opinion.discount
  rw [permO_simplex, discount_eqv]
  rfl
theorem normalized_ofFn (σ : Equiv.Perm (Fin n)) {g' g : Fin n → XQ f} (h : ∀ i, g' i = g (σ i)) (u : XQ f) :
    Simplex.normalized (Vector.ofFn g') u = permS σ (Simplex.normalized (Vector.ofFn g) u) := by
  rw [ofFn_eq_permT σ h, normalized_eqv]

theorem computeSimplex_eqv (σ : Equiv.Perm (Fin n)) (op : FuseOp) (l r : Simplex (XQ f) n) :
    computeSimplex op (permS σ l) (permS σ r) = permS σ (computeSimplex op l r) := by
  have hd : ∀ s : Simplex (XQ f) n, (permS σ s).isDogmatic = s.isDogmatic := fun _ => rfl
  have hv : ∀ s : Simplex (XQ f) n, (permS σ s).isVacuous = s.isVacuous := fun _ => rfl
  unfold computeSimplex
  simp only [hd, hv, permS_u]
  cases op <;> simp only [] <;> split_ifs <;>
    first
    | rfl
    | exact (vacuous_eqv σ).symm
    | exact normalized_ofFn σ (fun i => by simp) _

theorem computeBaseRate_eqv (σ : Equiv.Perm (Fin n)) (op : FuseOp) (same : Bool) (l r : Opinion (XQ f) n) :
    computeBaseRate op same (permO σ l) (permO σ r) = permT σ (computeBaseRate op same l r) := by
  have hd : ∀ s : Opinion (XQ f) n, (permO σ s).isDogmatic = s.isDogmatic := fun _ => rfl
  have hv : ∀ s : Opinion (XQ f) n, (permO σ s).isVacuous = s.isVacuous := fun _ => rfl
  unfold computeBaseRate
  simp only [hd, hv, permO_u, permO_a]
  cases op <;> simp only [] <;> split_ifs <;>
    first
    | rfl
    | exact ofFn_eq_permT σ (fun i => by simp)

theorem fuse_eqv (σ : Equiv.Perm (Fin n)) (op : FuseOp) (same : Bool) (l r : Opinion (XQ f) n) :
    fuse op same (permO σ l) (permO σ r) = permO σ (fuse op same l r) := by
  unfold fuse
  simp only [permO_simplex, computeSimplex_eqv, computeBaseRate_eqv]
  split
  · rw [uncertaintyMaximized_eqv, permO_mk']
  · rw [permO_mk']

theorem fuseSimplex_eqv (σ : Equiv.Perm (Fin n)) (op : FuseOp) (l : Opinion (XQ f) n)
    (r : Simplex (XQ f) n) :
    fuseSimplex op (permO σ l) (permS σ r) = permO σ (fuseSimplex op l r) := by
  unfold fuseSimplex
  rw [permO_a, permO_mk', fuse_eqv]

theorem fuseSS_eqv (σ : Equiv.Perm (Fin n)) (op : FuseOp) (l r : Simplex (XQ f) n) :
    fuseSS op (permS σ l) (permS σ r) = (fuseSS op l r).map (permS σ) := by
  unfold fuseSS
  split <;> simp [computeSimplex_eqv]

/-! ### conditional tables -/

theorem mbr_eqv (σ : Equiv.Perm (Fin n)) (ρ : Equiv.Perm (Fin m)) (ax : Tab (XQ f) n)
    (conds : CondTab (XQ f) n m) :
    mbr (permT σ ax) (permC σ ρ conds) = (mbr ax conds).map (permT ρ) := by
  unfold mbr
  have h1 : (permC σ ρ conds).toList.all (fun c => c.isVacuous)
      = conds.toList.all (fun c => c.isVacuous) := by
    rw [permC_eq, all_toList_permT]
    simp only [Vector.toList_map, List.all_map]
    rfl
  have h2 : (Vector.ofFn fun y => Tab.sumIter (Vector.ofFn fun x : Fin n =>
        (permT σ ax)[x] * ((permC σ ρ conds)[x]).b[y]) : Tab (XQ f) m)
      = permT ρ (Vector.ofFn fun y => Tab.sumIter (Vector.ofFn fun x : Fin n =>
        ax[x] * (conds[x]).b[y])) := by
    apply ofFn_eq_permT ρ
    intro y
    exact sumIter_congr σ (fun x => by simp)
  simp only [h1, h2, sumLoop_permT, permT_map]
  split_ifs <;> rfl

theorem projections_perm (σ : Equiv.Perm (Fin n)) (ρ : Equiv.Perm (Fin m))
    (conds : CondTab (XQ f) n m) (ay : Tab (XQ f) m) (x : Fin n) :
    (projections (permC σ ρ conds) (permT ρ ay))[x] = permT ρ ((projections conds ay)[σ x]) := by
  simp [projections, projection_simplex_eqv]

theorem dMix_perm (σ : Equiv.Perm (Fin n)) (ρ : Equiv.Perm (Fin m)) (w : Tab (XQ f) n)
    (conds : CondTab (XQ f) n m) (ay : Tab (XQ f) m) :
    dMix (permT σ w) (permC σ ρ conds) (permT ρ ay) = permT ρ (dMix w conds ay) := by
  unfold dMix
  apply ofFn_eq_permT ρ
  intro y
  apply sumIter_congr σ
  intro x
  rw [projections_perm]; simp

theorem dUyhx_perm (σ : Equiv.Perm (Fin n)) (ρ : Equiv.Perm (Fin m)) (wx : Opinion (XQ f) n)
    (conds : CondTab (XQ f) n m) (ay : Tab (XQ f) m) :
    dUyhx (permO σ wx) (permC σ ρ conds) (permT ρ ay) = dUyhx wx conds ay := by
  unfold dUyhx
  rw [permO_a, dMix_perm]
  apply reduceMin_congr ρ
  intro y
  rw [reduceMin_congr σ (g := fun x => (conds[x]).b[ρ y]) (fun x => by simp)]
  simp

theorem dU_perm (σ : Equiv.Perm (Fin n)) (ρ : Equiv.Perm (Fin m)) (wx : Opinion (XQ f) n)
    (conds : CondTab (XQ f) n m) (ay : Tab (XQ f) m) :
    dU (permO σ wx) (permC σ ρ conds) (permT ρ ay) = dU wx conds ay := by
  unfold dU dUraw
  rw [dUyhx_perm]
  congr 2
  exact sumIter_congr σ (fun x => by simp)

theorem dB_perm (σ : Equiv.Perm (Fin n)) (ρ : Equiv.Perm (Fin m)) (wx : Opinion (XQ f) n)
    (conds : CondTab (XQ f) n m) (ay : Tab (XQ f) m) :
    dB (permO σ wx) (permC σ ρ conds) (permT ρ ay) = permT ρ (dB wx conds ay) := by
  unfold dB
  rw [projection_opinion_eqv, dMix_perm, dU_perm]
  exact ofFn_eq_permT ρ (fun y => by simp)

theorem deduceOf_eqv (σ : Equiv.Perm (Fin n)) (ρ : Equiv.Perm (Fin m)) (wx : Opinion (XQ f) n)
    (conds : CondTab (XQ f) n m) (ay : Tab (XQ f) m) :
    deduceOf (permO σ wx) (permC σ ρ conds) (permT ρ ay) = permO ρ (deduceOf wx conds ay) := by
  rw [deduceOf_eq, deduceOf_eq, dB_perm, dU_perm, normalized_eqv, permO_mk']

theorem deduce_eqv (σ : Equiv.Perm (Fin n)) (ρ : Equiv.Perm (Fin m)) (wx : Opinion (XQ f) n)
    (conds : CondTab (XQ f) n m) :
    deduce (permO σ wx) (permC σ ρ conds) = (deduce wx conds).map (permO ρ) := by
  unfold deduce
  rw [permO_a, mbr_eqv]
  cases mbr wx.a conds with
  | none => rfl
  | some ay => simp [deduceOf_eqv]

theorem deduceWith_eqv (σ : Equiv.Perm (Fin n)) (ρ : Equiv.Perm (Fin m)) (wx : Opinion (XQ f) n)
    (conds : CondTab (XQ f) n m) (fallback : Unit → Tab (XQ f) m) :
    deduceWith (permO σ wx) (permC σ ρ conds) (fun u => permT ρ (fallback u))
      = ((fun r : Opinion (XQ f) m × Bool => (permO ρ r.1, r.2)) (deduceWith wx conds fallback)) := by
  unfold deduceWith
  rw [permO_a, mbr_eqv]
  cases mbr wx.a conds with
  | none => simp [deduceOf_eqv]
  | some ay => simp [deduceOf_eqv]

theorem proj_entry_perm (σ : Equiv.Perm (Fin n)) (ρ : Equiv.Perm (Fin m))
    (conds : CondTab (XQ f) n m) (ay : Tab (XQ f) m) (x : Fin n) (y : Fin m) :
    ((projections (permC σ ρ conds) (permT ρ ay))[x])[y] = ((projections conds ay)[σ x])[ρ y] := by
  rw [projections_perm]; simp

theorem iUyx_perm (σ : Equiv.Perm (Fin n)) (ρ : Equiv.Perm (Fin m))
    (conds : CondTab (XQ f) n m) (ay : Tab (XQ f) m) :
    iUyx (permC σ ρ conds) (permT ρ ay) = permT σ (iUyx conds ay) := by
  unfold iUyx
  exact ofFn_eq_permT σ (fun x => by rw [permC_getElem, maxUncertainty_eqv])

theorem iTemp_getElem {α : Type} [Scalar α] (conds : CondTab α n m) (ax : Tab α n) (ay : Tab α m) (y : Fin m) :
    (iTemp conds ax ay)[y] =
      if (List.finRange n).all fun x => isZero ((projections conds ay)[x])[y] then
        Vector.replicate n Scalar.one
      else
        Vector.ofFn fun x => ((projections conds ay)[x])[y]
          / Tab.sumIter (Vector.ofFn fun x : Fin n => ax[x] * ((projections conds ay)[x])[y]) := by
  unfold iTemp; simp

theorem iTemp_perm (σ : Equiv.Perm (Fin n)) (ρ : Equiv.Perm (Fin m))
    (conds : CondTab (XQ f) n m) (ax : Tab (XQ f) n) (ay : Tab (XQ f) m) (y : Fin m) :
    (iTemp (permC σ ρ conds) (permT σ ax) (permT ρ ay))[y] = permT σ ((iTemp conds ax ay)[ρ y]) := by
  rw [iTemp_getElem, iTemp_getElem]
  rw [allFin_congr σ (p := fun x => isZero ((projections conds ay)[x])[ρ y])
    (fun x => by rw [proj_entry_perm])]
  rw [sumIter_congr σ (g := fun x => ax[x] * ((projections conds ay)[x])[ρ y])
    (fun x => by rw [proj_entry_perm, permT_getElem])]
  split
  · rw [permT_replicate]
  · exact ofFn_eq_permT σ (fun x => by rw [proj_entry_perm])

theorem iIrrel_perm (σ : Equiv.Perm (Fin n)) (ρ : Equiv.Perm (Fin m))
    (conds : CondTab (XQ f) n m) (ay : Tab (XQ f) m) :
    iIrrel (permC σ ρ conds) (permT ρ ay) = permT ρ (iIrrel conds ay) := by
  unfold iIrrel
  apply ofFn_eq_permT ρ
  intro y
  rw [reduceMax_congr σ (g := fun x => ((projections conds ay)[x])[ρ y])
      (fun x => by rw [proj_entry_perm]),
    reduceMin_congr σ (g := fun x => ((projections conds ay)[x])[ρ y])
      (fun x => by rw [proj_entry_perm])]

theorem iWeights_perm (σ : Equiv.Perm (Fin n)) (ρ : Equiv.Perm (Fin m))
    (conds : CondTab (XQ f) n m) (ay : Tab (XQ f) m) :
    iWeights (permC σ ρ conds) (permT ρ ay) = permT σ (iWeights conds ay) := by
  unfold iWeights
  rw [iUyx_perm, sumIter_permT]
  split
  · rw [permT_replicate]
  · exact ofFn_eq_permT σ (fun x => by rw [permT_getElem])

theorem iMaxUyx_perm (σ : Equiv.Perm (Fin n)) (ρ : Equiv.Perm (Fin m))
    (conds : CondTab (XQ f) n m) (ay : Tab (XQ f) m) :
    iMaxUyx (permC σ ρ conds) (permT ρ ay) = permT σ (iMaxUyx conds ay) := by
  unfold iMaxUyx
  apply ofFn_eq_permT σ
  intro x
  exact reduceL_filter_congr _ xq_min_comm xq_min_assoc ρ (fun y => by rw [permT_getElem])
    (fun y => by rw [proj_entry_perm, permT_getElem]) _

theorem iWprop_perm (σ : Equiv.Perm (Fin n)) (ρ : Equiv.Perm (Fin m))
    (conds : CondTab (XQ f) n m) (ay : Tab (XQ f) m) :
    iWprop (permC σ ρ conds) (permT ρ ay) = iWprop conds ay := by
  unfold iWprop
  rw [iMaxUyx_perm, iWeights_perm, iUyx_perm]
  exact sumIter_congr σ (fun x => by simp only [permT_getElem])

theorem iU_perm (σ : Equiv.Perm (Fin n)) (ρ : Equiv.Perm (Fin m))
    (conds : CondTab (XQ f) n m) (ax : Tab (XQ f) n) (ay : Tab (XQ f) m) (y : Fin m) :
    iU (permC σ ρ conds) (permT σ ax) (permT ρ ay) y = iU conds ax ay (ρ y) := by
  unfold iU
  rw [iTemp_perm, reduceMin_permT, iWprop_perm, iIrrel_perm, permT_getElem]

theorem inverse_eqv (σ : Equiv.Perm (Fin n)) (ρ : Equiv.Perm (Fin m))
    (conds : CondTab (XQ f) n m) (ax : Tab (XQ f) n) (ay : Tab (XQ f) m) :
    inverse (permC σ ρ conds) (permT σ ax) (permT ρ ay) = permC ρ σ (inverse conds ax ay) := by
  rw [inverse_eq, inverse_eq]
  apply ofFn_eq_permC ρ σ
  intro y
  rw [iU_perm, ← normalized_eqv]
  congr 1
  exact ofFn_eq_permT σ (fun x => by rw [iTemp_perm, permT_getElem, permT_getElem])

theorem abduceWith_eqv (σ : Equiv.Perm (Fin n)) (ρ : Equiv.Perm (Fin m)) (wy : Simplex (XQ f) m)
    (conds : CondTab (XQ f) n m) (ax : Tab (XQ f) n) (ay : Tab (XQ f) m) :
    abduceWith (permS ρ wy) (permC σ ρ conds) (permT σ ax) (permT ρ ay)
      = permO σ (abduceWith wy conds ax ay) := by
  unfold abduceWith
  rw [inverse_eqv, permO_mk', deduceOf_eqv]

theorem abduce_eqv (σ : Equiv.Perm (Fin n)) (ρ : Equiv.Perm (Fin m)) (wy : Simplex (XQ f) m)
    (conds : CondTab (XQ f) n m) (ax : Tab (XQ f) n) :
    abduce (permS ρ wy) (permC σ ρ conds) (permT σ ax) = (abduce wy conds ax).map (permO σ) := by
  unfold abduce
  rw [mbr_eqv]
  cases mbr ax conds with
  | none => rfl
  | some ay => simp [abduceWith_eqv]

/-! ### products on joint domains -/

section products
variable {n0 n1 n2 : Nat}

theorem outer2_eqv (σ0 : Equiv.Perm (Fin n0)) (σ1 : Equiv.Perm (Fin n1)) (v0 : Tab (XQ f) n0)
    (v1 : Tab (XQ f) n1) :
    outer2 (permT σ0 v0) (permT σ1 v1) = permT (prodPerm σ0 σ1) (outer2 v0 v1) := by
  unfold outer2
  exact ofFn_eq_permT _ (fun k => by simp)

theorem outer3_eqv (σ0 : Equiv.Perm (Fin n0)) (σ1 : Equiv.Perm (Fin n1)) (σ2 : Equiv.Perm (Fin n2))
    (v0 : Tab (XQ f) n0) (v1 : Tab (XQ f) n1) (v2 : Tab (XQ f) n2) :
    outer3 (permT σ0 v0) (permT σ1 v1) (permT σ2 v2)
      = permT (prodPerm3 σ0 σ1 σ2) (outer3 v0 v1 v2) := by
  unfold outer3
  exact ofFn_eq_permT _ (fun k => by simp)

/-- `c'` is the candidate function of the relabelled operands: cell `k` of the relabelled tables is cell
    `τ k` of the original ones -/
theorem rawOf_perm {N : Nat} (τ : Equiv.Perm (Fin N)) (p a : Tab (XQ f) N) (c c' : Fin N → XQ f)
    (hc : ∀ k, c' k = c (τ k)) :
    rawOf (permT τ p) (permT τ a) c' = permO τ (rawOf p a c) := by
  unfold rawOf
  simp only []
  rw [reduceL_filter_congr Scalar.min xq_min_comm xq_min_assoc τ
    (p := fun k => Scalar.gt a[k] Scalar.zero) (g := c)
    (fun k => by rw [permT_getElem]) hc]
  simp only [permO, Opinion.mk.injEq, and_true]
  exact ofFn_eq_permT τ (fun k => by simp)

/-- the candidate of a cell depends on the operands only through the entries at the cell's coordinates -/
theorem prodCand2_perm (σ0 : Equiv.Perm (Fin n0)) (σ1 : Equiv.Perm (Fin n1))
    (w0 : Opinion (XQ f) n0) (w1 : Opinion (XQ f) n1) (k : Fin (n0 * n1)) :
    prodCand2 (permO σ0 w0) (permO σ1 w1) (idx2 k) = prodCand2 w0 w1 (idx2 (prodPerm σ0 σ1 k)) := by
  unfold prodCand2
  simp only [idx2_prodPerm, permO_a, permO_b, permO_u, permT_getElem]

theorem prodCand3_perm (σ0 : Equiv.Perm (Fin n0)) (σ1 : Equiv.Perm (Fin n1))
    (σ2 : Equiv.Perm (Fin n2))
    (w0 : Opinion (XQ f) n0) (w1 : Opinion (XQ f) n1) (w2 : Opinion (XQ f) n2)
    (k : Fin (n0 * n1 * n2)) :
    prodCand3 (permO σ0 w0) (permO σ1 w1) (permO σ2 w2) (idx3 k)
      = prodCand3 w0 w1 w2 (idx3 (prodPerm3 σ0 σ1 σ2 k)) := by
  unfold prodCand3
  simp only [idx3_prodPerm3, permO_a, permO_b, permO_u, permT_getElem]

theorem product2Raw_eqv (σ0 : Equiv.Perm (Fin n0)) (σ1 : Equiv.Perm (Fin n1))
    (w0 : Opinion (XQ f) n0) (w1 : Opinion (XQ f) n1) :
    product2Raw (permO σ0 w0) (permO σ1 w1) = permO (prodPerm σ0 σ1) (product2Raw w0 w1) := by
  rw [product2Raw_eq, product2Raw_eq]
  simp only [projection_opinion_eqv, permO_a, outer2_eqv]
  exact rawOf_perm _ _ _ _ _ (prodCand2_perm σ0 σ1 w0 w1)

theorem product3Raw_eqv (σ0 : Equiv.Perm (Fin n0)) (σ1 : Equiv.Perm (Fin n1))
    (σ2 : Equiv.Perm (Fin n2))
    (w0 : Opinion (XQ f) n0) (w1 : Opinion (XQ f) n1) (w2 : Opinion (XQ f) n2) :
    product3Raw (permO σ0 w0) (permO σ1 w1) (permO σ2 w2)
      = permO (prodPerm3 σ0 σ1 σ2) (product3Raw w0 w1 w2) := by
  rw [product3Raw_eq, product3Raw_eq]
  simp only [projection_opinion_eqv, permO_a, outer3_eqv]
  exact rawOf_perm _ _ _ _ _ (prodCand3_perm σ0 σ1 σ2 w0 w1 w2)

theorem tryNew_eqv (τ : Equiv.Perm (Fin n)) (b : Tab (XQ f) n) (u : XQ f) (a : Tab (XQ f) n) :
    Opinion.tryNew (permT τ b) u (permT τ a) = (Opinion.tryNew b u a).map (permO τ) := by
  unfold Opinion.tryNew
  rw [checkSimplex_permT, checkBaseRate_permT]
  cases checkSimplex b u with
  | error e => rfl
  | ok _ =>
    cases checkBaseRate a with
    | error e => rfl
    | ok _ => rfl

theorem product2U_eqv (σ0 : Equiv.Perm (Fin n0)) (σ1 : Equiv.Perm (Fin n1))
    (w0 : Opinion (XQ f) n0) (w1 : Opinion (XQ f) n1) :
    product2U (permO σ0 w0) (permO σ1 w1)
      = (product2U w0 w1).map (permO (prodPerm σ0 σ1)) := by
  unfold product2U
  simp only [product2Raw_eqv, permO_a, permO_b, permO_u, tryNew_eqv]

theorem product3U_eqv (σ0 : Equiv.Perm (Fin n0)) (σ1 : Equiv.Perm (Fin n1))
    (σ2 : Equiv.Perm (Fin n2))
    (w0 : Opinion (XQ f) n0) (w1 : Opinion (XQ f) n1) (w2 : Opinion (XQ f) n2) :
    product3U (permO σ0 w0) (permO σ1 w1) (permO σ2 w2)
      = (product3U w0 w1 w2).map (permO (prodPerm3 σ0 σ1 σ2)) := by
  unfold product3U
  simp only [product3Raw_eqv, permO_a, permO_b, permO_u, tryNew_eqv]

theorem product2L_eqv (σ0 : Equiv.Perm (Fin n0)) (σ1 : Equiv.Perm (Fin n1))
    (w0 : Opinion (XQ f) n0) (w1 : Opinion (XQ f) n1) :
    product2L (permO σ0 w0) (permO σ1 w1) = permO (prodPerm σ0 σ1) (product2L w0 w1) := by
  unfold product2L
  simp only [product2Raw_eqv, permO_a, permO_b, permO_u, normalizeProbDist_eqv]
  rfl

theorem product3L_eqv (σ0 : Equiv.Perm (Fin n0)) (σ1 : Equiv.Perm (Fin n1))
    (σ2 : Equiv.Perm (Fin n2))
    (w0 : Opinion (XQ f) n0) (w1 : Opinion (XQ f) n1) (w2 : Opinion (XQ f) n2) :
    product3L (permO σ0 w0) (permO σ1 w1) (permO σ2 w2)
      = permO (prodPerm3 σ0 σ1 σ2) (product3L w0 w1 w2) := by
  unfold product3L
  simp only [product3Raw_eqv, permO_a, permO_b, permO_u, normalizeProbDist_eqv]
  rfl

end products

/-! ### merging conditionals on a joint antecedent -/

section merge
variable {n1 n2 : Nat}

theorem getD_map_permT {k : Nat} (ρ : Equiv.Perm (Fin k)) (o : Option (Tab (XQ f) k)) (d : Tab (XQ f) k) :
    (o.map (permT ρ)).getD (permT ρ d) = permT ρ (o.getD d) := by
  cases o <;> rfl

theorem mCells_perm (σ1 : Equiv.Perm (Fin n1)) (σ2 : Equiv.Perm (Fin n2)) (ρ : Equiv.Perm (Fin m))
    (validate : Bool) (yx1 : CondTab (XQ f) n1 m) (yx2 : CondTab (XQ f) n2 m)
    (ax1 : Tab (XQ f) n1) (ax2 : Tab (XQ f) n2) (ay : Tab (XQ f) m) (y : Fin m) :
    (mCells validate (permC σ1 ρ yx1) (permC σ2 ρ yx2) (permT σ1 ax1) (permT σ2 ax2) (permT ρ ay))[y]
      = ((mCells validate yx1 yx2 ax1 ax2 ay)[ρ y]).map (permS (prodPerm σ1 σ2)) := by
  unfold mCells
  simp only [Fin.getElem_fin, Vector.getElem_ofFn]
  simp only [mbr_eqv, getD_map_permT, inverse_eqv]
  have e1 := permC_getElem ρ σ1 (inverse yx1 ax1 ((mbr ax1 yx1).getD ay)) y
  have e2 := permC_getElem ρ σ2 (inverse yx2 ax2 ((mbr ax2 yx2).getD ay)) y
  simp only [Fin.getElem_fin] at e1 e2
  rw [e1, e2, permO_mk', permO_mk', product2U_eqv, product2L_eqv]
  have hm : ∀ c : Except Label (Opinion (XQ f) (n1 * n2)),
      (c.map (permO (prodPerm σ1 σ2))).map Opinion.simplex
        = (c.map Opinion.simplex).map (permS (prodPerm σ1 σ2)) := by
    intro c; cases c <;> rfl
  split
  · exact hm _
  · rfl

theorem mFinish_perm (σ1 : Equiv.Perm (Fin n1)) (σ2 : Equiv.Perm (Fin n2)) (ρ : Equiv.Perm (Fin m))
    (ax1 : Tab (XQ f) n1) (ax2 : Tab (XQ f) n2) (ay : Tab (XQ f) m)
    (x12y : CondTab (XQ f) m (n1 * n2)) :
    mFinish (permT σ1 ax1) (permT σ2 ax2) (permT ρ ay) (permC ρ (prodPerm σ1 σ2) x12y)
      = permC (prodPerm σ1 σ2) ρ (mFinish ax1 ax2 ay x12y) := by
  unfold mFinish
  rw [mbr_eqv, outer2_eqv, getD_map_permT, inverse_eqv]

/-- accepted case, either family -/
theorem mergeCond2_ok_eqv (σ1 : Equiv.Perm (Fin n1)) (σ2 : Equiv.Perm (Fin n2))
    (ρ : Equiv.Perm (Fin m)) (validate : Bool) (yx1 : CondTab (XQ f) n1 m) (yx2 : CondTab (XQ f) n2 m)
    (ax1 : Tab (XQ f) n1) (ax2 : Tab (XQ f) n2) (ay : Tab (XQ f) m)
    (r : CondTab (XQ f) (n1 * n2) m)
    (h : mergeCond2 validate yx1 yx2 ax1 ax2 ay = .ok r) :
    mergeCond2 validate (permC σ1 ρ yx1) (permC σ2 ρ yx2) (permT σ1 ax1) (permT σ2 ax2) (permT ρ ay)
      = .ok (permC (prodPerm σ1 σ2) ρ r) := by
  rw [mergeCond2_eq] at h ⊢
  cases hs : sequenceE (mCells validate yx1 yx2 ax1 ax2 ay) with
  | error e => rw [hs] at h; cases h
  | ok x =>
    rw [hs] at h
    have hr : r = mFinish ax1 ax2 ay x := by cases h; rfl
    have hx := (sequenceE_ok_iff _ _).mp hs
    have hs' : sequenceE (mCells validate (permC σ1 ρ yx1) (permC σ2 ρ yx2) (permT σ1 ax1)
        (permT σ2 ax2) (permT ρ ay)) = .ok (permC ρ (prodPerm σ1 σ2) x) := by
      rw [sequenceE_ok_iff]
      intro y
      rw [mCells_perm, hx, permC_getElem]; rfl
    rw [hs', hr, ← mFinish_perm]; rfl

/-- rejection is preserved (the label may be that of a different cell) -/
theorem mergeCond2_error_eqv (σ1 : Equiv.Perm (Fin n1)) (σ2 : Equiv.Perm (Fin n2))
    (ρ : Equiv.Perm (Fin m)) (validate : Bool) (yx1 : CondTab (XQ f) n1 m) (yx2 : CondTab (XQ f) n2 m)
    (ax1 : Tab (XQ f) n1) (ax2 : Tab (XQ f) n2) (ay : Tab (XQ f) m) (e : Label)
    (h : mergeCond2 validate yx1 yx2 ax1 ax2 ay = .error e) :
    ∃ e', mergeCond2 validate (permC σ1 ρ yx1) (permC σ2 ρ yx2) (permT σ1 ax1) (permT σ2 ax2)
      (permT ρ ay) = .error e' := by
  rw [mergeCond2_eq] at h
  simp only [mergeCond2_eq]
  cases hs : sequenceE (mCells validate yx1 yx2 ax1 ax2 ay) with
  | ok x => rw [hs] at h; cases h
  | error e0 =>
    obtain ⟨i, e1, hi⟩ := (sequenceE_error_iff _).mp ⟨e0, hs⟩
    have : ∃ e', sequenceE (mCells validate (permC σ1 ρ yx1) (permC σ2 ρ yx2) (permT σ1 ax1)
        (permT σ2 ax2) (permT ρ ay)) = .error e' := by
      rw [sequenceE_error_iff]
      refine ⟨ρ.symm i, e1, ?_⟩
      rw [mCells_perm]
      simp only [Equiv.apply_symm_apply, hi]; rfl
    obtain ⟨e', he'⟩ := this
    exact ⟨e', by rw [he']; rfl⟩

/-- the non-validating (labelled) family never rejects -/
theorem mergeCond2_false_ok (yx1 : CondTab (XQ f) n1 m) (yx2 : CondTab (XQ f) n2 m)
    (ax1 : Tab (XQ f) n1) (ax2 : Tab (XQ f) n2) (ay : Tab (XQ f) m) :
    ∃ r, mergeCond2 false yx1 yx2 ax1 ax2 ay = .ok r := by
  rw [mergeCond2_eq]
  have : ∃ x, sequenceE (mCells false yx1 yx2 ax1 ax2 ay) = .ok x := by
    cases h : sequenceE (mCells false yx1 yx2 ax1 ax2 ay) with
    | ok x => exact ⟨x, rfl⟩
    | error e =>
      obtain ⟨i, e1, hi⟩ := (sequenceE_error_iff _).mp ⟨e, h⟩
      simp [mCells] at hi
  obtain ⟨x, hx⟩ := this
  exact ⟨_, by rw [hx]; rfl⟩

/-- labelled family (`validate = false`): merging is fully equivariant — `σ1` on X1, `σ2` on X2, `ρ` on Y:
    the rows of the result (cells of X1×X2) are permuted by `prodPerm σ1 σ2`, each row's simplex by `ρ` -/
theorem mergeCond2_labelled_eqv (σ1 : Equiv.Perm (Fin n1)) (σ2 : Equiv.Perm (Fin n2))
    (ρ : Equiv.Perm (Fin m)) (yx1 : CondTab (XQ f) n1 m) (yx2 : CondTab (XQ f) n2 m)
    (ax1 : Tab (XQ f) n1) (ax2 : Tab (XQ f) n2) (ay : Tab (XQ f) m) :
    mergeCond2 false (permC σ1 ρ yx1) (permC σ2 ρ yx2) (permT σ1 ax1) (permT σ2 ax2) (permT ρ ay)
      = (mergeCond2 false yx1 yx2 ax1 ax2 ay).map (permC (prodPerm σ1 σ2) ρ) := by
  obtain ⟨r, hr⟩ := mergeCond2_false_ok yx1 yx2 ax1 ax2 ay
  rw [mergeCond2_ok_eqv σ1 σ2 ρ false yx1 yx2 ax1 ax2 ay r hr, hr]
  rfl

/-- permutations of X1 and X2 only (value order of Y untouched): fully equivariant in both families,
    including the rejection label -/
theorem mergeCond2_X_eqv (σ1 : Equiv.Perm (Fin n1)) (σ2 : Equiv.Perm (Fin n2)) (validate : Bool)
    (yx1 : CondTab (XQ f) n1 m) (yx2 : CondTab (XQ f) n2 m)
    (ax1 : Tab (XQ f) n1) (ax2 : Tab (XQ f) n2) (ay : Tab (XQ f) m) :
    mergeCond2 validate (permC σ1 (Equiv.refl _) yx1) (permC σ2 (Equiv.refl _) yx2)
        (permT σ1 ax1) (permT σ2 ax2) ay
      = (mergeCond2 validate yx1 yx2 ax1 ax2 ay).map
          (permC (prodPerm σ1 σ2) (Equiv.refl _)) := by
  have hcells : mCells validate (permC σ1 (Equiv.refl _) yx1) (permC σ2 (Equiv.refl _) yx2)
        (permT σ1 ax1) (permT σ2 ax2) (permT (Equiv.refl _) ay)
      = (mCells validate yx1 yx2 ax1 ax2 ay).map (Except.map (permS (prodPerm σ1 σ2))) := by
    apply Vector.ext
    intro i hi
    have := mCells_perm σ1 σ2 (Equiv.refl _) validate yx1 yx2 ax1 ax2 ay ⟨i, hi⟩
    simpa using this
  conv_lhs => rw [← permT_refl ay]
  rw [mergeCond2_eq, mergeCond2_eq, hcells, sequenceE_map]
  cases sequenceE (mCells validate yx1 yx2 ax1 ax2 ay) with
  | error e => rfl
  | ok x =>
    have hx : x.map (permS (prodPerm σ1 σ2)) = permC (Equiv.refl _) (prodPerm σ1 σ2) x := by
      apply Vector.ext; intro i hi; simp
    show Except.ok _ = Except.ok _
    rw [hx, mFinish_perm]

end merge

theorem permT_liftT (σ : Equiv.Perm (Fin n)) (g : Fin n → ℚ) :
    permT σ (liftT g : Tab (XQ f) n) = liftT (fun i => g (σ i)) := by
  apply Vector.ext; intro i hi; simp [liftT]

/-- rational conditional table as model data -/
def condTab (cb : Fin n → Fin m → ℚ) (cu : Fin n → ℚ) : CondTab (XQ f) n m :=
  Vector.ofFn fun x => ⟨liftT (cb x), XQ.fin (cu x)⟩

theorem permC_condTab (σ : Equiv.Perm (Fin n)) (ρ : Equiv.Perm (Fin m)) (cb : Fin n → Fin m → ℚ)
    (cu : Fin n → ℚ) :
    permC σ ρ (condTab cb cu : CondTab (XQ f) n m)
      = condTab (fun x y => cb (σ x) (ρ y)) (fun x => cu (σ x)) := by
  apply Vector.ext; intro i hi
  simp [condTab, permS, permT_liftT]

end operators

end SLV.C15
