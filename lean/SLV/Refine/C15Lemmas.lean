/-
  Helper lemmas for C15 (equivariance of the operators under a permutation of the value order).
  * `XQ` algebra on ALL values (finite, ±inf, NaN): `Scalar.add`, `Scalar.min`, `Scalar.max` are
    commutative and associative, hence every fold the model uses is invariant under a permutation.
  * the action of a permutation on tables / simplexes / opinions / conditional tables
    (`permT`, `permS`, `permO`, `permC`) and the factor-wise permutation of a flattened joint domain
    (`prodPerm`, `prodPerm3`).
  * combinator lemmas: `sumIter`, `sumLoop`, `reduceMin`, `reduceMax`, the running `min` fold over
    `List.finRange`, `List.all` and the validation loop `checkEntries` do not see the order.
  No property statements here.
-/
import SLV.Refine.Lift
import SLV.Refine.MinLemmas
import SLV.Model.Fuse
import SLV.Model.Prod
import Mathlib.Data.List.FinRange
import Mathlib.Data.List.Perm.Basic
import Mathlib.Logic.Equiv.Fin.Basic
import Mathlib.Logic.Equiv.Prod
import Mathlib.Tactic.SplitIfs

namespace SLV.C15
open SLV Scalar

variable {f : Fmt} {β : Type} {n m : Nat}

/-! ### `XQ` algebra on all values -/

section tables
variable (q : ℚ)
theorem min_nf : Scalar.min (XQ.ninf : XQ f) (XQ.fin q) = XQ.ninf := rfl
theorem min_fn : Scalar.min (XQ.fin q : XQ f) XQ.ninf = XQ.ninf := rfl
theorem min_nn : Scalar.min (XQ.ninf : XQ f) XQ.ninf = XQ.ninf := rfl
theorem min_pn : Scalar.min (XQ.pinf : XQ f) XQ.ninf = XQ.ninf := rfl
theorem min_np : Scalar.min (XQ.ninf : XQ f) XQ.pinf = XQ.ninf := rfl
theorem max_pf : Scalar.max (XQ.pinf : XQ f) (XQ.fin q) = XQ.pinf := rfl
theorem max_fp : Scalar.max (XQ.fin q : XQ f) XQ.pinf = XQ.pinf := rfl
theorem max_pp : Scalar.max (XQ.pinf : XQ f) XQ.pinf = XQ.pinf := rfl
theorem max_nf : Scalar.max (XQ.ninf : XQ f) (XQ.fin q) = XQ.fin q := rfl
theorem max_fn : Scalar.max (XQ.fin q : XQ f) XQ.ninf = XQ.fin q := rfl
theorem max_nn : Scalar.max (XQ.ninf : XQ f) XQ.ninf = XQ.ninf := rfl
theorem max_pn : Scalar.max (XQ.pinf : XQ f) XQ.ninf = XQ.pinf := rfl
theorem max_np : Scalar.max (XQ.ninf : XQ f) XQ.pinf = XQ.pinf := rfl
theorem max_nan_left (x : XQ f) : Scalar.max (XQ.nan : XQ f) x = x := rfl
theorem max_nan_right (x : XQ f) : Scalar.max x (XQ.nan : XQ f) = x := by cases x <;> rfl
end tables

/-- `+` is commutative on all of `XQ` (NaN absorbs, `+inf + -inf = NaN` both ways) -/
theorem xq_add_comm (a b : XQ f) : Scalar.add a b = Scalar.add b a := by
  show XQ.add a b = XQ.add b a
  cases a <;> cases b <;> simp [XQ.add, add_comm]

/-- `+` is associative on all of `XQ` -/
theorem xq_add_assoc (a b c : XQ f) :
    Scalar.add (Scalar.add a b) c = Scalar.add a (Scalar.add b c) := by
  show XQ.add (XQ.add a b) c = XQ.add a (XQ.add b c)
  cases a <;> cases b <;> cases c <;> simp [XQ.add, add_assoc]

/-- NaN-skipping `min` is commutative on all of `XQ` (there is no signed zero in `XQ`) -/
theorem xq_min_comm (a b : XQ f) : Scalar.min a b = Scalar.min b a := by
  cases a <;> cases b <;> simp [XQ.min_fin, min_comm, min_nf, min_fn, min_pn, min_np]

/-- NaN-skipping `min` is associative on all of `XQ` -/
theorem xq_min_assoc (a b c : XQ f) :
    Scalar.min (Scalar.min a b) c = Scalar.min a (Scalar.min b c) := by
  cases a <;> cases b <;> cases c <;>
    simp [XQ.min_fin, min_assoc, min_nf, min_fn, min_pn, min_np, min_nn]

theorem xq_max_comm (a b : XQ f) : Scalar.max a b = Scalar.max b a := by
  cases a <;> cases b <;>
    simp [XQ.max_fin, max_comm, max_pf, max_fp, max_nf, max_fn, max_pn, max_np, max_nan_left,
      max_nan_right]

theorem xq_max_assoc (a b c : XQ f) :
    Scalar.max (Scalar.max a b) c = Scalar.max a (Scalar.max b c) := by
  cases a <;> cases b <;> cases c <;>
    simp [XQ.max_fin, max_assoc, max_pf, max_fp, max_nf, max_fn, max_pn, max_np, max_pp, max_nn,
      max_nan_left, max_nan_right]

instance : RightCommutative (Scalar.add : XQ f → XQ f → XQ f) :=
  ⟨fun a b c => by rw [xq_add_assoc, xq_add_comm b c, ← xq_add_assoc]⟩

instance : RightCommutative (Scalar.min : XQ f → XQ f → XQ f) :=
  ⟨fun a b c => by rw [xq_min_assoc, xq_min_comm b c, ← xq_min_assoc]⟩

/-! ### the action of a permutation -/

/-- the action of a permutation of the value order on a table: entry `i` of the result is entry
    `σ i` of the operand -/
def permT (σ : Equiv.Perm (Fin n)) (v : Vector β n) : Vector β n := Vector.ofFn fun i => v[σ i]

@[simp] theorem permT_getElem (σ : Equiv.Perm (Fin n)) (v : Vector β n) (i : Fin n) :
    (permT σ v)[i] = v[σ i] := by simp [permT]

@[simp] theorem permT_getElem' (σ : Equiv.Perm (Fin n)) (v : Vector β n) (i : Nat) (h : i < n) :
    (permT σ v)[i]'h = v[σ ⟨i, h⟩] := by simp [permT]

theorem permT_ofFn (σ : Equiv.Perm (Fin n)) (g : Fin n → β) :
    permT σ (Vector.ofFn g) = Vector.ofFn fun i => g (σ i) := by
  apply Vector.ext; intro i hi; simp

/-- a table built entry-wise from permuted data is the permuted table -/
theorem ofFn_eq_permT (σ : Equiv.Perm (Fin n)) {g' g : Fin n → β} (h : ∀ i, g' i = g (σ i)) :
    Vector.ofFn g' = permT σ (Vector.ofFn g) := by
  apply Vector.ext; intro i hi; simp [h]

theorem permT_map {γ : Type} (σ : Equiv.Perm (Fin n)) (v : Vector β n) (h : β → γ) :
    (permT σ v).map h = permT σ (v.map h) := by
  apply Vector.ext; intro i hi; simp

theorem permT_replicate (σ : Equiv.Perm (Fin n)) (c : β) :
    permT σ (Vector.replicate n c) = Vector.replicate n c := by
  apply Vector.ext; intro i hi; simp

theorem permT_refl (v : Vector β n) : permT (Equiv.refl _) v = v := by
  apply Vector.ext; intro i hi; simp

theorem permT_trans (σ τ : Equiv.Perm (Fin n)) (v : Vector β n) :
    permT σ (permT τ v) = permT (σ.trans τ) v := by
  apply Vector.ext; intro i hi; simp

theorem permT_toList_perm (σ : Equiv.Perm (Fin n)) (v : Vector β n) :
    (permT σ v).toList.Perm v.toList := by
  have h1 : (permT σ v).toList = List.ofFn ((fun i : Fin n => v[i]) ∘ σ) := by
    simp [permT, Vector.toList_ofFn]; rfl
  have h2 : v.toList = List.ofFn (fun i : Fin n => v[i]) := by
    apply List.ext_getElem <;> simp
  rw [h1, h2]
  exact σ.ofFn_comp_perm _

variable {α : Type}

/-- on simplexes: belief masses permuted, uncertainty untouched -/
def permS (σ : Equiv.Perm (Fin n)) (s : Simplex α n) : Simplex α n := ⟨permT σ s.b, s.u⟩

/-- on opinions: belief masses and base rate permuted -/
def permO (σ : Equiv.Perm (Fin n)) (w : Opinion α n) : Opinion α n :=
  ⟨permT σ w.b, w.u, permT σ w.a⟩

/-- on conditional tables: `σ` on the rows (the values of X), `ρ` inside every row (the values of Y) -/
def permC (σ : Equiv.Perm (Fin n)) (ρ : Equiv.Perm (Fin m)) (c : CondTab α n m) : CondTab α n m :=
  Vector.ofFn fun x => permS ρ c[σ x]

@[simp] theorem permS_b (σ : Equiv.Perm (Fin n)) (s : Simplex α n) : (permS σ s).b = permT σ s.b := rfl
@[simp] theorem permS_u (σ : Equiv.Perm (Fin n)) (s : Simplex α n) : (permS σ s).u = s.u := rfl
@[simp] theorem permO_b (σ : Equiv.Perm (Fin n)) (w : Opinion α n) : (permO σ w).b = permT σ w.b := rfl
@[simp] theorem permO_u (σ : Equiv.Perm (Fin n)) (w : Opinion α n) : (permO σ w).u = w.u := rfl
@[simp] theorem permO_a (σ : Equiv.Perm (Fin n)) (w : Opinion α n) : (permO σ w).a = permT σ w.a := rfl
@[simp] theorem permO_simplex (σ : Equiv.Perm (Fin n)) (w : Opinion α n) :
    (permO σ w).simplex = permS σ w.simplex := rfl
@[simp] theorem permO_mk' (σ : Equiv.Perm (Fin n)) (s : Simplex α n) (a : Tab α n) :
    Opinion.mk' (permS σ s) (permT σ a) = permO σ (Opinion.mk' s a) := rfl
@[simp] theorem permC_getElem (σ : Equiv.Perm (Fin n)) (ρ : Equiv.Perm (Fin m)) (c : CondTab α n m)
    (x : Fin n) : (permC σ ρ c)[x] = permS ρ c[σ x] := by simp [permC]
@[simp] theorem permC_getElem' (σ : Equiv.Perm (Fin n)) (ρ : Equiv.Perm (Fin m)) (c : CondTab α n m)
    (x : Nat) (h : x < n) : (permC σ ρ c)[x]'h = permS ρ c[σ ⟨x, h⟩] := by simp [permC]

theorem permC_eq (σ : Equiv.Perm (Fin n)) (ρ : Equiv.Perm (Fin m)) (c : CondTab α n m) :
    permC σ ρ c = permT σ (c.map (permS ρ)) := by
  apply Vector.ext; intro i hi; simp

/-! ### folds do not see the order -/

theorem sumIter_permT (σ : Equiv.Perm (Fin n)) (v : Tab (XQ f) n) :
    Tab.sumIter (permT σ v) = Tab.sumIter v := by
  unfold Tab.sumIter
  rw [← Vector.foldl_toList, ← Vector.foldl_toList]
  exact (permT_toList_perm σ v).foldl_eq _

theorem sumLoop_permT (σ : Equiv.Perm (Fin n)) (v : Tab (XQ f) n) :
    Tab.sumLoop (permT σ v) = Tab.sumLoop v := by
  unfold Tab.sumLoop
  rw [← Vector.foldl_toList, ← Vector.foldl_toList]
  exact (permT_toList_perm σ v).foldl_eq _

/-- `reduce` on a list: fold the tail from the head -/
def redL (g : β → β → β) (d : β) : List β → β
  | [] => d
  | x :: t => t.foldl g x

theorem redL_perm (g : β → β → β) (hc : ∀ a b, g a b = g b a)
    (ha : ∀ a b c, g (g a b) c = g a (g b c)) (d : β) {l1 l2 : List β} (p : l1.Perm l2) :
    redL g d l1 = redL g d l2 := by
  have : RightCommutative g := ⟨fun a b c => by rw [ha, hc b c, ← ha]⟩
  induction p with
  | nil => rfl
  | cons x p _ => exact p.foldl_eq x
  | swap x y l => simp [redL, hc]
  | trans _ _ h1 h2 => exact h1.trans h2

theorem reduce_eq_redL (g : α → α → α) (v : Vector α n) (d : α) :
    Tab.reduce g v d = redL g d v.toList := by
  unfold Tab.reduce
  split
  · rename_i h
    have hl : v.toList = v[0] :: v.toList.tail := by
      have hne : v.toList ≠ [] := by
        intro h; have := congrArg List.length h; simp at this; omega
      rw [← List.cons_head_tail hne]
      simp [List.head_eq_getElem]
    conv_rhs => rw [hl]
    rfl
  · rename_i h
    have : v.toList = [] := by
      apply List.eq_nil_of_length_eq_zero; simp; omega
    rw [this]; rfl

/-- `iter.reduce(g)` of a commutative, associative `g` does not depend on which element comes first -/
theorem reduce_permT (g : α → α → α) (hc : ∀ a b, g a b = g b a)
    (ha : ∀ a b c, g (g a b) c = g a (g b c)) (σ : Equiv.Perm (Fin n)) (v : Vector α n) (d : α) :
    Tab.reduce g (permT σ v) d = Tab.reduce g v d := by
  rw [reduce_eq_redL, reduce_eq_redL]
  exact redL_perm g hc ha d (permT_toList_perm σ v)

theorem reduceMin_permT (σ : Equiv.Perm (Fin n)) (v : Tab (XQ f) n) :
    Tab.reduceMin (permT σ v) = Tab.reduceMin v :=
  reduce_permT _ xq_min_comm xq_min_assoc σ v _

theorem reduceMax_permT (σ : Equiv.Perm (Fin n)) (v : Tab (XQ f) n) :
    Tab.reduceMax (permT σ v) = Tab.reduceMax v :=
  reduce_permT _ xq_max_comm xq_max_assoc σ v _

theorem all_toList_permT (σ : Equiv.Perm (Fin n)) (v : Vector β n) (p : β → Bool) :
    (permT σ v).toList.all p = v.toList.all p := by
  rw [Bool.eq_iff_iff, List.all_eq_true, List.all_eq_true]
  have := (permT_toList_perm σ v)
  constructor
  · intro h x hx; exact h x (this.mem_iff.mpr hx)
  · intro h x hx; exact h x (this.mem_iff.mp hx)

theorem reduceL_eq_redL (g : β → β → β) (l : List β) (d : β) : Tab.reduceL g l d = redL g d l := by
  cases l <;> rfl

/-- `filter(..).map(..).reduce(g).unwrap_or(d)` over the index range does not see the order -/
theorem reduceL_filter_congr (op : β → β → β) (hc : ∀ a b, op a b = op b a)
    (ha : ∀ a b c, op (op a b) c = op a (op b c)) (ρ : Equiv.Perm (Fin m))
    {p' p : Fin m → Bool} {g' g : Fin m → β} (hp : ∀ y, p' y = p (ρ y)) (hg : ∀ y, g' y = g (ρ y))
    (d : β) :
    Tab.reduceL op (((List.finRange m).filter p').map g') d
      = Tab.reduceL op (((List.finRange m).filter p).map g) d := by
  rw [reduceL_eq_redL, reduceL_eq_redL]
  apply redL_perm op hc ha
  have e1 : p' = p ∘ ρ := funext hp
  have e2 : g' = g ∘ ρ := funext hg
  rw [e1, e2, ← List.map_map, ← List.filter_map]
  exact ((ρ.map_finRange_perm).filter p).map g

/-! #### congruence forms: the entries are given by functions related through `σ` -/

theorem sumIter_congr (σ : Equiv.Perm (Fin n)) {g' g : Fin n → XQ f} (h : ∀ x, g' x = g (σ x)) :
    Tab.sumIter (Vector.ofFn g') = Tab.sumIter (Vector.ofFn g) := by
  rw [ofFn_eq_permT σ h, sumIter_permT]

theorem sumLoop_congr (σ : Equiv.Perm (Fin n)) {g' g : Fin n → XQ f} (h : ∀ x, g' x = g (σ x)) :
    Tab.sumLoop (Vector.ofFn g') = Tab.sumLoop (Vector.ofFn g) := by
  rw [ofFn_eq_permT σ h, sumLoop_permT]

theorem reduceMin_congr (σ : Equiv.Perm (Fin n)) {g' g : Fin n → XQ f} (h : ∀ x, g' x = g (σ x)) :
    Tab.reduceMin (Vector.ofFn g') = Tab.reduceMin (Vector.ofFn g) := by
  rw [ofFn_eq_permT σ h, reduceMin_permT]

theorem reduceMax_congr (σ : Equiv.Perm (Fin n)) {g' g : Fin n → XQ f} (h : ∀ x, g' x = g (σ x)) :
    Tab.reduceMax (Vector.ofFn g') = Tab.reduceMax (Vector.ofFn g) := by
  rw [ofFn_eq_permT σ h, reduceMax_permT]

/-- the running minimum of `max_uncertainty` -/
theorem foldMin_congr (σ : Equiv.Perm (Fin n)) {g' g : Fin n → XQ f} (h : ∀ x, g' x = g (σ x))
    (c : XQ f) :
    (List.finRange n).foldl (fun u i => Scalar.min u (g' i)) c
      = (List.finRange n).foldl (fun u i => Scalar.min u (g i)) c := by
  have e : ∀ k : Fin n → XQ f, (List.finRange n).foldl (fun u i => Scalar.min u (k i)) c
      = (List.ofFn k).foldl Scalar.min c := by
    intro k; rw [List.ofFn_eq_map, List.foldl_map]
  rw [e, e]
  have : g' = g ∘ σ := funext h
  rw [this]
  exact (σ.ofFn_comp_perm g).foldl_eq _

theorem allFin_congr (σ : Equiv.Perm (Fin n)) {p' p : Fin n → Bool} (h : ∀ x, p' x = p (σ x)) :
    (List.finRange n).all p' = (List.finRange n).all p := by
  rw [Bool.eq_iff_iff, List.all_eq_true, List.all_eq_true]
  constructor
  · intro hh x _
    have := hh (σ.symm x) (List.mem_finRange _)
    rwa [h, Equiv.apply_symm_apply] at this
  · intro hh x _
    rw [h]; exact hh _ (List.mem_finRange _)

section pieces
variable [Scalar α]

/-! ### `deduce_of` in pieces -/

/-- `Σ_x w[x] * P(y|x)` as a table over Y (used with `w = a_X` and with `w = P_X`) -/
def dMix (w : Tab α n) (conds : CondTab α n m) (ay : Tab α m) : Tab α m :=
  Vector.ofFn fun y => Tab.sumIter (Vector.ofFn fun x : Fin n => w[x] * ((projections conds ay)[x])[y])

def dUyhx (wx : Opinion α n) (conds : CondTab α n m) (ay : Tab α m) : α :=
  Tab.reduceMin (Vector.ofFn fun y : Fin m =>
    ((dMix wx.a conds ay)[y] - Tab.reduceMin (Vector.ofFn fun x : Fin n => (conds[x]).b[y])) / ay[y])

def dU (wx : Opinion α n) (conds : CondTab α n m) (ay : Tab α m) : α :=
  dUyhx wx conds ay
    - Tab.sumIter (Vector.ofFn fun x : Fin n => (dUyhx wx conds ay - (conds[x]).u) * wx.b[x])

def dB (wx : Opinion α n) (conds : CondTab α n m) (ay : Tab α m) : Tab α m :=
  Vector.ofFn fun y => (dMix wx.projection conds ay)[y] - ay[y] * dU wx conds ay

theorem deduceOf_eq (wx : Opinion α n) (conds : CondTab α n m) (ay : Tab α m) :
    deduceOf wx conds ay = Opinion.mk' (Simplex.normalized (dB wx conds ay) (dU wx conds ay)) ay := by
  unfold deduceOf dB dU dUyhx dMix
  simp

/-! ### `inverse` in pieces -/

def iUyx (conds : CondTab α n m) (ay : Tab α m) : Tab α n :=
  Vector.ofFn fun x => (conds[x]).maxUncertainty ay

def iTemp (conds : CondTab α n m) (ax : Tab α n) (ay : Tab α m) : Vector (Tab α n) m :=
  Vector.ofFn fun y =>
    if (List.finRange n).all fun x => isZero ((projections conds ay)[x])[y] then
      Vector.replicate n Scalar.one
    else
      Vector.ofFn fun x => ((projections conds ay)[x])[y]
        / Tab.sumIter (Vector.ofFn fun x : Fin n => ax[x] * ((projections conds ay)[x])[y])

def iIrrel (conds : CondTab α n m) (ay : Tab α m) : Tab α m :=
  Vector.ofFn fun y =>
    Scalar.one - Tab.reduceMax (Vector.ofFn fun x : Fin n => ((projections conds ay)[x])[y])
      + Tab.reduceMin (Vector.ofFn fun x : Fin n => ((projections conds ay)[x])[y])

def iWeights (conds : CondTab α n m) (ay : Tab α m) : Tab α n :=
  if Scalar.eq (Tab.sumIter (iUyx conds ay)) Scalar.zero then Vector.replicate n Scalar.zero
  else Vector.ofFn fun x => (iUyx conds ay)[x] / Tab.sumIter (iUyx conds ay)

def iMaxUyx (conds : CondTab α n m) (ay : Tab α m) : Tab α n :=
  Vector.ofFn fun x => Tab.reduceL Scalar.min
    (((List.finRange m).filter fun y => !isZero ay[y]).map fun y =>
      ((projections conds ay)[x])[y] / ay[y]) Scalar.one

def iWprop (conds : CondTab α n m) (ay : Tab α m) : α :=
  Tab.sumIter (Vector.ofFn fun x : Fin n =>
    if isZero (iMaxUyx conds ay)[x] then Scalar.zero
    else (iWeights conds ay)[x] * (iUyx conds ay)[x] / (iMaxUyx conds ay)[x])

def iU (conds : CondTab α n m) (ax : Tab α n) (ay : Tab α m) (y : Fin m) : α :=
  Tab.reduceMin ((iTemp conds ax ay)[y])
    * (iWprop conds ay + (iIrrel conds ay)[y] - iWprop conds ay * (iIrrel conds ay)[y])

theorem inverse_eq (conds : CondTab α n m) (ax : Tab α n) (ay : Tab α m) :
    inverse conds ax ay = Vector.ofFn fun y =>
      Simplex.normalized
        (Vector.ofFn fun x => ((iTemp conds ax ay)[y])[x] * ax[x] - iU conds ax ay y * ax[x])
        (iU conds ax ay y) := by
  unfold inverse iU iWprop iMaxUyx iWeights iIrrel iTemp iUyx projections
  simp

end pieces

theorem ofFn_eq_permC (σ : Equiv.Perm (Fin n)) (ρ : Equiv.Perm (Fin m))
    {g' g : Fin n → Simplex α m} (h : ∀ x, g' x = permS ρ (g (σ x))) :
    Vector.ofFn g' = permC σ ρ (Vector.ofFn g) := by
  apply Vector.ext; intro i hi; simp [h]

/-! ### joint domains -/

section joint
variable {n0 n1 n2 : Nat}

/-- factor-wise permutation of the row-major flattened joint domain:
    cell `(i, j)` goes to cell `(σ0 i, σ1 j)` -/
def prodPerm (σ0 : Equiv.Perm (Fin n0)) (σ1 : Equiv.Perm (Fin n1)) : Equiv.Perm (Fin (n0 * n1)) :=
  (finProdFinEquiv.symm.trans (Equiv.prodCongr σ0 σ1)).trans finProdFinEquiv

theorem idx2_eq_symm (k : Fin (n0 * n1)) : idx2 k = finProdFinEquiv.symm k := rfl

theorem prodPerm_apply (σ0 : Equiv.Perm (Fin n0)) (σ1 : Equiv.Perm (Fin n1)) (k : Fin (n0 * n1)) :
    prodPerm σ0 σ1 k = finProdFinEquiv (σ0 (idx2 k).1, σ1 (idx2 k).2) := rfl

@[simp] theorem idx2_prodPerm (σ0 : Equiv.Perm (Fin n0)) (σ1 : Equiv.Perm (Fin n1))
    (k : Fin (n0 * n1)) : idx2 (prodPerm σ0 σ1 k) = (σ0 (idx2 k).1, σ1 (idx2 k).2) := by
  rw [prodPerm_apply, idx2_eq_symm, Equiv.symm_apply_apply]

/-- three factors: cell `(i, j, l)` goes to `(σ0 i, σ1 j, σ2 l)` -/
def prodPerm3 (σ0 : Equiv.Perm (Fin n0)) (σ1 : Equiv.Perm (Fin n1)) (σ2 : Equiv.Perm (Fin n2)) :
    Equiv.Perm (Fin (n0 * n1 * n2)) := prodPerm (prodPerm σ0 σ1) σ2

@[simp] theorem idx3_prodPerm3 (σ0 : Equiv.Perm (Fin n0)) (σ1 : Equiv.Perm (Fin n1))
    (σ2 : Equiv.Perm (Fin n2)) (k : Fin (n0 * n1 * n2)) :
    idx3 (prodPerm3 σ0 σ1 σ2 k) = (σ0 (idx3 k).1, σ1 (idx3 k).2.1, σ2 (idx3 k).2.2) := by
  unfold idx3 prodPerm3
  simp

variable [Scalar α]

/-- the computation shared by `product2Raw` and `product3Raw` once the three cell tables are built -/
def rawOf {N : Nat} (p a bb : Tab α N) : Opinion α N :=
  let u := Tab.reduceMin (Vector.ofFn fun k : Fin N => (p[k] - bb[k]) / a[k])
  let b : Tab α N := Vector.ofFn fun k => p[k] - a[k] * u
  ⟨b, u, a⟩

theorem product2Raw_eq (w0 : Opinion α n0) (w1 : Opinion α n1) :
    product2Raw w0 w1
      = rawOf (outer2 w0.projection w1.projection) (outer2 w0.a w1.a) (outer2 w0.b w1.b) := rfl

theorem product3Raw_eq (w0 : Opinion α n0) (w1 : Opinion α n1) (w2 : Opinion α n2) :
    product3Raw w0 w1 w2
      = rawOf (outer3 w0.projection w1.projection w2.projection) (outer3 w0.a w1.a w2.a)
          (outer3 w0.b w1.b w2.b) := rfl

end joint

/-! ### validation -/

section validation
variable [Scalar α]

/-- the accumulate-and-check loop: the label carries no index, so only "all in range" and the sum matter -/
theorem checkEntries_eq (l : Label) (xs : List α) (acc : α) :
    checkEntries l xs acc
      = if xs.all inUnit then .ok (xs.foldl Scalar.add acc) else .error l := by
  induction xs generalizing acc with
  | nil => rfl
  | cons x xs ih =>
    unfold checkEntries
    by_cases h : inUnit x
    · simp [h, ih]
    · simp [h]

end validation

theorem checkEntries_permT (l : Label) (σ : Equiv.Perm (Fin n)) (v : Tab (XQ f) n) (acc : XQ f) :
    checkEntries l (permT σ v).toList acc = checkEntries l v.toList acc := by
  rw [checkEntries_eq, checkEntries_eq, all_toList_permT, (permT_toList_perm σ v).foldl_eq]

theorem checkSimplex_permT (σ : Equiv.Perm (Fin n)) (b : Tab (XQ f) n) (u : XQ f) :
    checkSimplex (permT σ b) u = checkSimplex b u := by
  unfold checkSimplex; rw [checkEntries_permT]

theorem checkBaseRate_permT (σ : Equiv.Perm (Fin n)) (a : Tab (XQ f) n) :
    checkBaseRate (permT σ a) = checkBaseRate a := by
  unfold checkBaseRate; rw [checkEntries_permT]

/-! ### `sequenceE` (collecting the validated cells of `merge_cond2`) -/

section seq
variable {ε β : Type} {k : Nat}

theorem mapM_id_ok_iff (l : List (Except ε β)) (r : List β) :
    l.mapM id = .ok r ↔ l = r.map .ok := by
  induction l generalizing r with
  | nil =>
    cases r <;> simp [pure, Except.pure]
  | cons x xs ih =>
    rw [List.mapM_cons]
    cases x with
    | error e => cases r <;> simp [bind, Except.bind]
    | ok a =>
      cases hxs : xs.mapM id with
      | error e =>
        have : ∀ r' : List β, xs ≠ r'.map .ok := by
          intro r' h'; rw [← ih] at h'; rw [hxs] at h'; cases h'
        cases r with
        | nil => simp [bind, Except.bind]
        | cons b r' => simp [bind, Except.bind, this r']
      | ok r0 =>
        have h0 := (ih r0).mp hxs
        cases r with
        | nil => simp [bind, Except.bind, pure, Except.pure]
        | cons b r' =>
          simp only [bind, Except.bind, pure, Except.pure, id, List.map_cons, List.cons.injEq,
            Except.ok.injEq]
          constructor
          · rintro ⟨rfl, rfl⟩; exact ⟨rfl, h0⟩
          · rintro ⟨rfl, h1⟩
            refine ⟨rfl, ?_⟩
            have := (ih r').mpr h1
            rw [hxs] at this; cases this; rfl

theorem sequenceE_ok_iff (v : Vector (Except ε β) k) (r : Vector β k) :
    sequenceE v = .ok r ↔ ∀ i : Fin k, v[i] = .ok r[i] := by
  have h1 : Vector.toArray <$> v.mapM id = v.toArray.mapM id := Vector.toArray_mapM
  rw [Array.mapM_eq_mapM_toList] at h1
  have key : sequenceE v = .ok r ↔ v.toList.mapM id = .ok r.toList := by
    unfold sequenceE
    show _ ↔ v.toArray.toList.mapM id = _
    cases h : v.mapM id with
    | error e =>
      rw [h] at h1
      cases h2 : v.toArray.toList.mapM id with
      | error e' => simp
      | ok r' => rw [h2] at h1; simp [Functor.map, Except.map] at h1
    | ok r0 =>
      rw [h] at h1
      cases h2 : v.toArray.toList.mapM id with
      | error e' => rw [h2] at h1; simp [Functor.map, Except.map] at h1
      | ok r' =>
        rw [h2] at h1
        simp only [Functor.map, Except.map, Except.ok.injEq] at h1
        simp only [Except.ok.injEq]
        constructor
        · rintro rfl
          show r' = r0.toArray.toList
          rw [h1]
        · intro h3
          apply Vector.toArray_inj.mp
          rw [h1, h3]; rfl
  rw [key, mapM_id_ok_iff]
  constructor
  · intro h i
    have := congrArg (fun l => l[i.val]?) h
    simp at this
    simpa using this
  · intro h
    apply List.ext_getElem
    · simp
    · intro i h1 h2
      simp at h1
      simpa using h ⟨i, h1⟩

theorem sequenceE_error_iff (v : Vector (Except ε β) k) :
    (∃ e, sequenceE v = .error e) ↔ ∃ (i : Fin k) (e : ε), v[i] = .error e := by
  constructor
  · rintro ⟨e, he⟩
    by_contra hne
    push Not at hne
    have hok : ∀ i : Fin k, ∃ x, v[i] = .ok x := by
      intro i
      cases h : v[i] with
      | error e' => exact absurd h (hne i e')
      | ok x => exact ⟨x, rfl⟩
    choose g hg using hok
    have := (sequenceE_ok_iff v (Vector.ofFn g)).mpr (fun i => by rw [hg i]; simp)
    rw [he] at this; cases this
  · rintro ⟨i, e, hi⟩
    cases h : sequenceE v with
    | error e' => exact ⟨e', rfl⟩
    | ok r =>
      have := (sequenceE_ok_iff v r).mp h i
      rw [hi] at this; cases this

end seq

/-! ### `merge_cond2` in pieces -/

section merge
variable [Scalar α] {n1 n2 : Nat}

/-- the joint inverted cells, one (possibly rejected) simplex over X1×X2 per value of Y -/
def mCells (validate : Bool) (yx1 : CondTab α n1 m) (yx2 : CondTab α n2 m)
    (ax1 : Tab α n1) (ax2 : Tab α n2) (ay : Tab α m) :
    Vector (Except Label (Simplex α (n1 * n2))) m :=
  Vector.ofFn fun y =>
    if validate then
      (product2U (Opinion.mk' (inverse yx1 ax1 ((mbr ax1 yx1).getD ay))[y] ax1)
        (Opinion.mk' (inverse yx2 ax2 ((mbr ax2 yx2).getD ay))[y] ax2)).map Opinion.simplex
    else
      .ok (product2L (Opinion.mk' (inverse yx1 ax1 ((mbr ax1 yx1).getD ay))[y] ax1)
        (Opinion.mk' (inverse yx2 ax2 ((mbr ax2 yx2).getD ay))[y] ax2)).simplex

/-- the final inversion back to conditionals on Y given X1×X2 -/
def mFinish (ax1 : Tab α n1) (ax2 : Tab α n2) (ay : Tab α m) (x12y : CondTab α m (n1 * n2)) :
    CondTab α (n1 * n2) m :=
  inverse x12y ay ((mbr ay x12y).getD (outer2 ax1 ax2))

theorem mergeCond2_eq (validate : Bool) (yx1 : CondTab α n1 m) (yx2 : CondTab α n2 m)
    (ax1 : Tab α n1) (ax2 : Tab α n2) (ay : Tab α m) :
    mergeCond2 validate yx1 yx2 ax1 ax2 ay
      = (sequenceE (mCells validate yx1 yx2 ax1 ax2 ay)).map (mFinish ax1 ax2 ay) := by
  unfold mergeCond2
  simp only []
  generalize hA : (Vector.ofFn _ : Vector (Except Label (Simplex α (n1 * n2))) m) = A
  have hc : A = mCells validate yx1 yx2 ax1 ax2 ay := by
    rw [← hA]
    unfold mCells
    congr 1
    funext y
    split
    · split <;> simp_all [Except.map]
    · rfl
  rw [hc]
  unfold mFinish
  cases sequenceE (mCells validate yx1 yx2 ax1 ax2 ay) with
  | error e => rfl
  | ok x =>
    simp only [Except.map]
    congr 2
    cases mbr ay x <;> rfl

end merge

end SLV.C15
