/-
  Evidence-space specification of the four fusion operators over exact rationals (lists),
  written from the operator definitions (Dirichlet evidence), not from the code.
-/
import SLV.Oracle.Basic
namespace SLV.Oracle

/-- prior weight (any positive constant cancels) -/
def W : Rat := 2

/-- evidence of a non-dogmatic opinion: r_i = W b_i / u -/
def evidence (b : List Rat) (u : Rat) : List Rat := b.map fun bi => W * bi / u

/-- opinion of an evidence vector: b_i = r_i / (W + Σr), u = W / (W + Σr) -/
def ofEvidence (r : List Rat) : List Rat × Rat :=
  let s := W + sumQ r
  (r.map fun ri => ri / s, W / s)

def zipAdd (x y : List Rat) : List Rat := List.zipWith (· + ·) x y
def scale (c : Rat) (x : List Rat) : List Rat := x.map (c * ·)
def meanL (x y : List Rat) : List Rat := List.zipWith (fun a b => (a + b) / 2) x y

inductive Op where | acm | ecm | avg | wgh
  deriving DecidableEq, Repr

def opOfNat : Nat → Op | 0 => .acm | 1 => .ecm | 2 => .avg | _ => .wgh

/-- belief part. Operands are well-formed; `u = 0` dogmatic, `u = 1` vacuous. -/
def fuseSimplexSpec (op : Op) (b1 : List Rat) (u1 : Rat) (b2 : List Rat) (u2 : Rat) : List Rat × Rat :=
  if u1 = 0 ∧ u2 = 0 then (meanL b1 b2, 0)          -- two dogmatic: arithmetic mean
  else if u1 = 0 then (b1, 0)                          -- one dogmatic operand decides (ACm/Avg/Wgh)
  else if u2 = 0 then (b2, 0)
  else
    let r1 := evidence b1 u1
    let r2 := evidence b2 u2
    match op with
    | .acm | .ecm => ofEvidence (zipAdd r1 r2)                                   -- add evidence
    | .avg => ofEvidence (scale (1/2) (zipAdd r1 r2))                            -- average evidence
    | .wgh =>
      if u1 = 1 ∧ u2 = 1 then (b1.map fun _ => 0, 1)                             -- no confidence at all
      else
        let c1 := 1 - u1
        let c2 := 1 - u2
        ofEvidence (scale (1 / (c1 + c2)) (zipAdd (scale c1 r1) (scale c2 r2)))  -- confidence-weighted mean

/-- base rates -/
def fuseBaseRateSpec (op : Op) (a1 : List Rat) (u1 : Rat) (a2 : List Rat) (u2 : Rat) : List Rat :=
  if u1 = 0 ∧ u2 = 0 then meanL a1 a2
  else match op with
    | .avg => meanL a1 a2
    | .acm | .ecm =>
      if u1 = 1 ∧ u2 = 1 then meanL a1 a2
      else
        let w1 := u2 * (1 - u1)
        let w2 := u1 * (1 - u2)
        List.zipWith (fun x y => (x * w1 + y * w2) / (w1 + w2)) a1 a2
    | .wgh =>
      if u1 = 1 ∧ u2 = 1 then meanL a1 a2
      else
        let w1 := 1 - u1
        let w2 := 1 - u2
        List.zipWith (fun x y => (x * w1 + y * w2) / (w1 + w2)) a1 a2

/-- uncertainty-maximised simplex with the same projection under `a` -/
def umaxSpec (b : List Rat) (u : Rat) (a : List Rat) : List Rat × Rat :=
  let uh := maxUQ b u a
  (List.zipWith (fun p ai => p - ai * uh) (projQ b u a) a, uh)

/-- full opinion; `same`: operands share the base rate (then it is returned unchanged) -/
def fuseSpec (op : Op) (same : Bool) (b1 : List Rat) (u1 : Rat) (a1 : List Rat)
    (b2 : List Rat) (u2 : Rat) (a2 : List Rat) : List Rat × Rat × List Rat :=
  let a := if same then a1 else fuseBaseRateSpec op a1 u1 a2 u2
  let s := fuseSimplexSpec op b1 u1 b2 u2
  let s := if op = .ecm then umaxSpec s.1 s.2 a else s
  (s.1, s.2, a)

end SLV.Oracle
