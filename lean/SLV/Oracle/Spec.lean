/-
  Named executable specifications used by the per-case oracles, over exact rationals and lists.
  SLV/Props/OracleSpec.lean proves that, on tables `List.ofFn …`, they coincide with the closed forms of the
  property theorems (C04 `bRes/uRes`, C06 `bJ/uhat`, C08 `may`, C09 `uhat`), so the predicate the driver evaluates on the
  implementation's outputs and the statement the kernel checked are the same mathematics.
-/
import SLV.Oracle.Basic
namespace SLV.Oracle

/-- a conditional table: one (belief list over Y, uncertainty) per value of X -/
abbrev QCond := List (List Rat × Rat)

/-- marginal base rate: a(y) ∝ Σ_x a(x) b(y|x); absent when the total is zero -/
def mbrSpec (ax : List Rat) (cs : QCond) (m : Nat) : Option (List Rat) :=
  let raw := (List.range m).map fun y => sumQ (List.zipWith (fun a cc => a * cc.1.getD y 0) ax cs)
  let t := sumQ raw
  if t = 0 then none else some (raw.map (· / t))

/-- P(y ‖ â) = Σ_x a(x) (b(y|x) + a(y) u_x) -/
def pyhxSpec (ax : List Rat) (cs : QCond) (ay : List Rat) (m : Nat) : List Rat :=
  (List.range m).map fun y =>
    sumQ (List.zipWith (fun a cc => a * (cc.1.getD y 0 + ay.getD y 0 * cc.2)) ax cs)

/-- smallest conditional belief mass per y -/
def bminSpec (cs : QCond) (m : Nat) : List Rat :=
  (List.range m).map fun y => (cs.map fun cc => cc.1.getD y 0).foldl minQ ((cs.headD ([], 0)).1.getD y 0)

/-- apex uncertainty: min over y with a(y) > 0 of (P(y‖â) − min_x b(y|x)) / a(y) -/
def apexUSpec (ax : List Rat) (cs : QCond) (ay : List Rat) (m : Nat) : Option Rat :=
  let pyhx := pyhxSpec ax cs ay m
  let bmin := bminSpec cs m
  (List.range m).foldl (fun (acc : Option Rat) y =>
    if ay.getD y 0 > 0 then
      let v := (pyhx.getD y 0 - bmin.getD y 0) / ay.getD y 0
      match acc with | none => some v | some mm => some (minQ mm v)
    else acc) none

/-- deduction: belief-weighted mixture of the conditionals plus u_X times the apex opinion -/
def deduceSpec (bx : List Rat) (ux : Rat) (ax : List Rat) (cs : QCond) (ay : List Rat) (m : Nat) :
    Option (List Rat × Rat) :=
  match apexUSpec ax cs ay m with
  | none => none
  | some uh =>
    let pyhx := pyhxSpec ax cs ay m
    let u := uh * ux + sumQ (List.zipWith (fun bb cc => bb * cc.2) bx cs)
    let b := (List.range m).map fun y =>
      sumQ (List.zipWith (fun bb cc => bb * cc.1.getD y 0) bx cs) + ux * (pyhx.getD y 0 - ay.getD y 0 * uh)
    some (b, u)

/-- total probability: Σ_x P(x) P(y|x) -/
def totalProbSpec (bx : List Rat) (ux : Rat) (ax : List Rat) (cs : QCond) (ay : List Rat) (m : Nat) : List Rat :=
  let px := projQ bx ux ax
  (List.range m).map fun y => sumQ (List.zipWith (fun p cc => p * (cc.1.getD y 0 + ay.getD y 0 * cc.2)) px cs)

/-- row-major outer product of several tables -/
def outerSpec (vs : List (List Rat)) : List Rat :=
  vs.foldl (fun acc v => acc.flatMap fun x => v.map fun y => x * y) [1]

/-- product of opinions (b, u, a): joint projection P, base rate A, belief product B and the largest admissible uncertainty -/
def productSpec (ops : List (List Rat × Rat × List Rat)) : List Rat × List Rat × List Rat × Option Rat :=
  let P := outerSpec (ops.map fun w => projQ w.1 w.2.1 w.2.2)
  let A := outerSpec (ops.map fun w => w.2.2)
  let B := outerSpec (ops.map fun w => w.1)
  let uhat := (List.zip (List.zip P B) A).foldl
    (fun (acc : Option Rat) (t : (Rat × Rat) × Rat) => if t.2 > 0 then
        let v := (t.1.1 - t.1.2) / t.2
        match acc with | none => some v | some m => some (minQ m v)
      else acc) none
  (P, A, B, uhat)

end SLV.Oracle
