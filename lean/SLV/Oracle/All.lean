/-
  Per-property oracles evaluated on the implementation's outputs.
  `oracle prop op variant ints inputs implVals implFlags` returns `none` when the case is outside the
  property's stated domain (skipped) and `some failures` otherwise.
-/
import SLV.Oracle.Basic
namespace SLV.Oracle

structure Case where
  prop : String
  op : String
  variant : List String
  ints : List Nat
  fmt : SLV.Fmt
  /-- operands, `none` for NaN / infinities -/
  inp : Array (Option Rat)
  cls : String
  label : String
  out : Array (Option Rat)
  flags : List Bool

def Case.eps (c : Case) : Rat := c.fmt.eps

def allSome (xs : Array (Option Rat)) : Option (Array Rat) := xs.mapM id

def slice (xs : Array Rat) (off n : Nat) : List Rat := (xs.extract off (off + n)).toList

def check (name : String) (ok : Bool) : List String := if ok then [] else [name]

/-- operands of a 1-D opinion op: (b, u, a) -/
def opinionAt (xs : Array Rat) (off n : Nat) : List Rat × Rat × List Rat :=
  (slice xs off n, xs.getD (off + n) 0, slice xs (off + n + 1) n)

/-- C09: projection is b + a u; uncertainty maximisation preserves it -/
def oracleC09 (c : Case) : Option (List String) :=
  let n := c.ints.getD 0 0
  match allSome c.inp with
  | none => none
  | some xs =>
  let (b, u, a) := opinionAt xs 0 n
  -- stated domain: well-formed opinions; base-rate entries in (0, eps] are excluded (guard band)
  if !(wfOpinion 0 b u a) then none else
  if a.any (fun ai => decide (0 < ai ∧ ai ≤ c.eps)) then none else
  if c.cls != "ok" then some ["C09.no_value"] else
  match allSome c.out with
  | none => some ["C09.non_finite"]
  | some out =>
  let τ := tauSpec c.fmt
  let p := projQ b u a
  match c.op with
  | "proj" =>
    if out.size != n then some ["C09.shape"] else
    some (check "C09.projection_formula" (closeList τ out.toList p)
      ++ check "C09.projection_is_distribution"
          (out.toList.all (fun x => decide (-τ ≤ x)) && closeQ (τ * n) (sumQ out.toList) 1))
  | "maxu" =>
    if out.size != 1 then some ["C09.shape"] else
    some (check "C09.max_u_formula" (closeQ τ (out.getD 0 0) (maxUQ b u a)))
  | "umax" =>
    if out.size != n + 1 then some ["C09.shape"] else
    let b' := slice out 0 n
    let u' := out.getD n 0
    let uhat := maxUQ b u a
    some (check "C09.max_wf" (wfSimplex (τ * (n + 1)) b' u')
      ++ check "C09.max_keeps_projection" (closeList τ (projQ b' u' a) p)
      ++ check "C09.max_u_ge" (decide (u - τ ≤ u'))
      ++ check "C09.max_u_formula" (closeQ τ u' uhat)
      ++ check "C09.zero_mass"
          (decide (uhat = 1) || (List.zip b' a).any (fun ba => decide (0 < ba.2) && closeQ τ ba.1 0))
      ++ check "C09.idempotent" (closeQ τ (maxUQ b' u' a) u'))
  | _ => none

def oracle (c : Case) : Option (List String) :=
  match c.prop with
  | "C09" => oracleC09 c
  | _ => none

end SLV.Oracle
