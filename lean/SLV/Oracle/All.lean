/-
  Per-property oracles evaluated on the implementation's outputs.
  `oracle prop op variant ints inputs implVals implFlags` returns `none` when the case is outside the
  property's stated domain (skipped) and `some failures` otherwise.
-/
import SLV.Oracle.Basic
import SLV.Oracle.Fuse
namespace SLV.Oracle

structure Case where
  prop : String
  op : String
  variant : List String
  ints : List Nat
  fmt : SLV.Fmt
  /-- operands, `none` for NaN / infinities -/
  inp : Array (Option Rat)
  cls : String
  label : String
  out : Array (Option Rat)
  flags : List Bool
  /-- the exact model's outputs on the same operands (used where the property IS "equals the exact composition") -/
  exact : Array (Option Rat) := #[]
  exactCls : String := ""

def Case.eps (c : Case) : Rat := c.fmt.eps

def allSome (xs : Array (Option Rat)) : Option (Array Rat) := xs.mapM id

def slice (xs : Array Rat) (off n : Nat) : List Rat := (xs.extract off (off + n)).toList

def check (name : String) (ok : Bool) : List String := if ok then [] else [name]

/-- operands of a 1-D opinion op: (b, u, a) -/
def opinionAt (xs : Array Rat) (off n : Nat) : List Rat × Rat × List Rat :=
  (slice xs off n, xs.getD (off + n) 0, slice xs (off + n + 1) n)

/-- C09: projection is b + a u; uncertainty maximisation preserves it -/
def oracleC09 (c : Case) : Option (List String) :=
  let n := c.ints.getD 0 0
  match allSome c.inp with
  | none => none
  | some xs =>
  let (b, u, a) := opinionAt xs 0 n
  -- stated domain: well-formed opinions; base-rate entries in (0, eps] are excluded (guard band)
  if !(wfOpinion 0 b u a) then none else
  if a.any (fun ai => decide (0 < ai ∧ ai ≤ c.eps)) then none else
  if c.cls != "ok" then some ["C09.no_value"] else
  match allSome c.out with
  | none => some ["C09.non_finite"]
  | some out =>
  let τ := tauSpec c.fmt
  let p := projQ b u a
  match c.op with
  | "proj" =>
    if out.size != n then some ["C09.shape"] else
    some (check "C09.projection_formula" (closeList τ out.toList p)
      ++ check "C09.projection_is_distribution"
          (out.toList.all (fun x => decide (-τ ≤ x)) && closeQ (τ * n) (sumQ out.toList) 1))
  | "maxu" =>
    if out.size != 1 then some ["C09.shape"] else
    some (check "C09.max_u_formula" (closeQ τ (out.getD 0 0) (maxUQ b u a)))
  | "umax" =>
    if out.size != n + 1 then some ["C09.shape"] else
    let b' := slice out 0 n
    let u' := out.getD n 0
    let uhat := maxUQ b u a
    some (check "C09.max_wf" (wfSimplex (τ * (n + 1)) b' u')
      ++ check "C09.max_keeps_projection" (closeList τ (projQ b' u' a) p)
      ++ check "C09.max_u_ge" (decide (u - τ ≤ u'))
      ++ check "C09.max_u_formula" (closeQ τ u' uhat)
      ++ check "C09.zero_mass"
          (decide (uhat = 1) || (List.zip b' a).any (fun ba => decide (0 < ba.2) && closeQ τ ba.1 0))
      ++ check "C09.idempotent" (closeQ τ (maxUQ b' u' a) u'))
  | _ => none

/-- binomial opinion at offset: (b, d, u, a) -/
structure QB where
  b : Rat
  d : Rat
  u : Rat
  a : Rat

def qbAt (xs : Array Rat) (off : Nat) : QB :=
  ⟨xs.getD off 0, xs.getD (off + 1) 0, xs.getD (off + 2) 0, xs.getD (off + 3) 0⟩

def QB.wf (δ : Rat) (w : QB) : Bool :=
  decide (-δ ≤ w.b) && decide (-δ ≤ w.d) && decide (-δ ≤ w.u) && decide (absQ (w.b + w.d + w.u - 1) ≤ δ)
    && decide (-δ ≤ w.a) && decide (w.a ≤ 1 + δ)

def QB.proj (w : QB) : Rat := w.b + w.a * w.u
def QB.neg (w : QB) : QB := ⟨w.d, w.b, w.u, 1 - w.a⟩
def QB.close (τ : Rat) (x y : QB) : Bool :=
  closeQ τ x.b y.b && closeQ τ x.d y.d && closeQ τ x.u y.u && closeQ τ x.a y.a

/-- run `k` when the implementation produced a finite value; report the class otherwise -/
def withValue (c : Case) (name : String) (k : Array Rat → List String) : Option (List String) :=
  if c.cls != "ok" then some [name ++ ".no_value(" ++ c.cls ++ ":" ++ c.label ++ ")"] else
  match allSome c.out with
  | none => some [name ++ ".non_finite"]
  | some out => some (k out)

/-- C12: binomial AND/OR -/
def oracleC12 (c : Case) : Option (List String) :=
  match allSome c.inp with
  | none => none
  | some xs =>
  let x := qbAt xs 0
  let y := qbAt xs 4
  let τ := tauSpec c.fmt
  if !(x.wf 0 && y.wf 0) then none else
  match c.op with
  | "bmul" =>
    if x.a = 1 ∧ y.a = 1 then none else
    withValue c "C12" fun out =>
      let r := qbAt out 0
      check "C12.mul_wf" (r.wf (4 * τ))
        ++ check "C12.mul_base_rate" (closeQ τ r.a (x.a * y.a))
        ++ check "C12.mul_projection" (closeQ τ r.proj (x.proj * y.proj))
  | "bcomul" =>
    if x.a = 0 ∧ y.a = 0 then none else
    withValue c "C12" fun out =>
      let r := qbAt out 0
      check "C12.comul_wf" (r.wf (4 * τ))
        ++ check "C12.comul_base_rate" (closeQ τ r.a (x.a + y.a - x.a * y.a))
        ++ check "C12.comul_projection" (closeQ τ r.proj (x.proj + y.proj - x.proj * y.proj))
  | "blaw" =>
    let z := qbAt xs 8
    let kind := c.ints.getD 0 0
    -- domain of every inner call
    let okMul (p q : QB) : Bool := !(decide (p.a = 1) && decide (q.a = 1))
    let okCo (p q : QB) : Bool := !(decide (p.a = 0) && decide (q.a = 0))
    let dom : Bool := match kind with
      | 0 => okMul x y
      | 1 => z.wf 0 && okMul x y && okMul y z && !(decide (x.a * y.a = 1)) && !(decide (y.a * z.a = 1))
      | 2 => okCo x y
      | 3 => z.wf 0 && okCo x y && okCo y z
      | 4 => okMul x y
      | _ => okCo x y
    if !dom then none else
    withValue c "C12" fun out =>
      let l := qbAt out 0
      let r := qbAt out 4
      let nm := match kind with
        | 0 => "C12.mul_comm" | 1 => "C12.mul_assoc" | 2 => "C12.comul_comm" | 3 => "C12.comul_assoc"
        | 4 => "C12.de_morgan" | _ => "C12.de_morgan_dual"
      check nm (QB.close (16 * τ) l r)
  | _ => none

/-- simplex triple at offset -/
def triAt (xs : Array Rat) (off : Nat) : Rat × Rat × Rat :=
  (xs.getD off 0, xs.getD (off + 1) 0, xs.getD (off + 2) 0)

def triWf (t : Rat × Rat × Rat) : Bool :=
  decide (0 ≤ t.1) && decide (0 ≤ t.2.1) && decide (0 ≤ t.2.2) && decide (t.1 + t.2.1 + t.2.2 = 1)

/-- C14: binomial deduction -/
def oracleC14 (c : Case) : Option (List String) :=
  match allSome c.inp with
  | none => none
  | some xs =>
  let x := qbAt xs 0
  let c0 := triAt xs 4
  let c1 := triAt xs 7
  let ay := xs.getD 10 0
  let τ := tauSpec c.fmt
  let px := x.proj
  if !(x.wf 0 && triWf c0 && triWf c1) then none else
  if !(decide (0 < px) && decide (px < 1) && decide (0 < x.a) && decide (x.a < 1)
        && decide (0 < ay) && decide (ay < 1)) then none else
  match c.op with
  | "bdeduce" =>
    withValue c "C14" fun out =>
      let r := qbAt out 0
      let py0 := c0.1 + ay * c0.2.2
      let py1 := c1.1 + ay * c1.2.2
      check "C14.wf" (r.wf (16 * τ))
        ++ check "C14.base_rate" (closeQ τ r.a ay)
        ++ check "C14.projection" (closeQ (16 * τ) r.proj (px * py0 + (1 - px) * py1))
        ++ (if x.u = 0 then
              check "C14.dogmatic_mixture"
                (closeQ τ r.b (x.b * c0.1 + x.d * c1.1) && closeQ τ r.d (x.b * c0.2.1 + x.d * c1.2.1)
                  && closeQ τ r.u (x.b * c0.2.2 + x.d * c1.2.2))
            else [])
  | "bdeduce_sym" =>
    withValue c "C14" fun out =>
      let l := qbAt out 0
      let r := qbAt out 4
      check (if c.ints.getD 0 0 == 0 then "C14.swap_x" else "C14.swap_y") (QB.close (64 * τ) l r)
  | _ => none

/-- every entry of `x` lies between the corresponding entries of `l` and `r` (±δ) -/
def betweenL (δ : Rat) (x l r : List Rat) : Bool :=
  (List.zip x (List.zip l r)).all fun t =>
    decide (minQ t.2.1 t.2.2 - δ ≤ t.1) && decide (t.1 ≤ maxQ t.2.1 t.2.2 + δ)

/-- C02 / C03: fusion closure and agreement with the evidence-space definition -/
def oracleFuse (c : Case) (doC03 : Bool) : Option (List String) :=
  let n := c.ints.getD 0 0
  match allSome c.inp with
  | none => none
  | some xs =>
  let (b1, u1, a1) := opinionAt xs 0 n
  let isOS := c.op == "fuse_os"
  let (b2, u2, a2) :=
    if isOS then (slice xs (2 * n + 1) n, xs.getD (3 * n + 1) 0, a1) else opinionAt xs (2 * n + 1) n
  let same := isOS || c.ints.getD 2 0 == 1
  let op := opOfNat (c.ints.getD 1 0)
  if !(wfOpinion (4 * c.eps) b1 u1 a1 && wfOpinion (4 * c.eps) b2 u2 a2) then none else
  if c.op != "fuse" && c.op != "fuse_os" then none else
  let pfx := if doC03 then "C03" else "C02"
  if c.cls != "ok" then some [pfx ++ ".no_value(" ++ c.cls ++ ")"] else
  match allSome c.out with
  | none => some [pfx ++ ".non_finite"]
  | some out =>
  let (b, u, a) := opinionAt out 0 n
  let e := c.eps
  if !doC03 then
    some (check "C02.simplex_wf" (wfSimplex (64 * n * e) b u)
      ++ check "C02.base_rate_sum" (decide (absQ (sumQ a - 1) ≤ 64 * n * e))
      ++ check "C02.base_rate_between" (betweenL (4 * e) a a1 a2)
      ++ (if same then check "C02.shared_base_rate_unchanged" (a == a1) else []))
  else
    -- operands in the tolerance bands (0, eps] / [1-2eps, 1) are classified by the guards: excluded
    let band (v : Rat) : Bool := (decide (0 < v) && decide (v ≤ e)) || (decide (1 - 2 * e ≤ v) && decide (v < 1))
    if band u1 || band u2 then none else
    -- ECm: base-rate entries in (0, eps] are skipped by the maximiser
    if op == .ecm && a.any (fun ai => decide (0 < ai) && decide (ai ≤ e)) then none else
    let sp := fuseSpec op same b1 u1 a1 b2 u2 a2
    let τ := tauSpec c.fmt
    some (check "C03.belief" (closeList τ b sp.1)
      ++ check "C03.uncertainty" (closeQ τ u sp.2.1)
      ++ check "C03.base_rate" (closeList τ a sp.2.2))

/-- conditional table at offset: n simplexes over m values: list of (b, u) -/
def condAt (xs : Array Rat) (off n m : Nat) : List (List Rat × Rat) :=
  (List.range n).map fun x => (slice xs (off + x * (m + 1)) m, xs.getD (off + x * (m + 1) + m) 0)

def condWf (δ : Rat) (cs : List (List Rat × Rat)) : Bool := cs.all fun c => wfSimplex δ c.1 c.2

/-- total weight of belief carried by conditionals of positive base rate: Σ_x a_x (1 - u_x) -/
def beliefWeight (ax : List Rat) (cs : List (List Rat × Rat)) : Rat :=
  sumQ (List.zipWith (fun a c => a * sumQ c.1) ax cs)

/-- fixed point: a_y = Σ_x a_x (b(y|x) + a_y u_x) -/
def mbrFixedPoint (τ : Rat) (ax : List Rat) (cs : List (List Rat × Rat)) (ay : List Rat) : Bool :=
  (List.range ay.length).all fun y =>
    let ayy := ay.getD y 0
    closeQ τ ayy (sumQ (List.zipWith (fun a c => a * (c.1.getD y 0 + ayy * c.2)) ax cs))

/-- C08: marginal base rate is a fixed-point distribution or absent, never NaN -/
def oracleC08 (c : Case) : Option (List String) :=
  let n := c.ints.getD 0 0
  let m := c.ints.getD 1 0
  match allSome c.inp with
  | none => none
  | some xs =>
  let τ := tauSpec c.fmt
  match c.op with
  | "mbr" =>
    let ax := slice xs 0 n
    let cs := condAt xs n n m
    if !(wfBaseRate 0 ax && condWf 0 cs) then none else
    let w := beliefWeight ax cs
    if c.cls == "none" then some (check "C08.none_iff" (decide (w = 0)))
    else if c.cls != "ok" then some ["C08.no_value(" ++ c.cls ++ ")"]
    else match allSome c.out with
      | none => some ["C08.nan"]
      | some out =>
        let ay := out.toList
        some (check "C08.none_iff" (decide (w ≠ 0))
          ++ check "C08.some_dist" (wfBaseRate (τ * m) ay)
          ++ check "C08.fixed_point" (mbrFixedPoint τ ax cs ay))
  | "deduce" | "deduce_with" =>
    let (_, _, ax) := opinionAt xs 0 n
    let cs := condAt xs (2 * n + 1) n m
    if !(wfBaseRate 0 ax && condWf 0 cs) then none else
    let w := beliefWeight ax cs
    if c.op == "deduce" then
      if c.cls == "none" then some (check "C08.deduce_none_iff" (decide (w = 0)))
      else if c.cls != "ok" then some ["C08.no_value(" ++ c.cls ++ ")"]
      else match allSome c.out with
        | none => some ["C08.nan_poisoned"]
        | some _ => some (check "C08.deduce_none_iff" (decide (w ≠ 0)))
    else
      if c.cls != "ok" then some ["C08.no_value(" ++ c.cls ++ ")"] else
      match allSome c.out with
      | none => some ["C08.nan_poisoned"]
      | some _ => some (check "C08.fallback_lazy" (c.flags == [decide (w = 0)]))
  | "abduce" =>
    let cs := condAt xs (2 * m + 1) n m
    let ax := slice xs (2 * m + 1 + n * (m + 1)) n
    if !(wfBaseRate 0 ax && condWf 0 cs) then none else
    let w := beliefWeight ax cs
    if c.cls == "none" then some (check "C08.abduce_none_iff" (decide (w = 0)))
    else if c.cls != "ok" then some ["C08.no_value(" ++ c.cls ++ ")"]
    else some (check "C08.abduce_none_iff" (decide (w ≠ 0)))
  | _ => none

/-- projected probabilities of a conditional table: P(y|x) = b(y|x) + a_y u_x -/
def condProj (cs : List (List Rat × Rat)) (ay : List Rat) : List (List Rat) :=
  cs.map fun c => projQ c.1 c.2 ay

/-- Bayes posterior P(x|y) for column y; `none` when the likelihood column is all zero -/
def bayesCol (ax : List Rat) (pyx : List (List Rat)) (y : Nat) : Option (List Rat) :=
  let col := pyx.map fun row => row.getD y 0
  let q := sumQ (List.zipWith (· * ·) ax col)
  if col.all (fun p => decide (p = 0)) || q = 0 then none
  else some (List.zipWith (fun a p => a * p / q) ax col)

/-- checks on one inverted table (list over y of (b over x, u)) -/
def checkInverse (pfx : String) (τ : Rat) (ax ay : List Rat) (cs : List (List Rat × Rat))
    (inv : List (List Rat × Rat)) : List String :=
  let pyx := condProj cs ay
  let n := ax.length
  (List.range inv.length).flatMap fun y =>
    let w := inv.getD y ([], 0)
    let wf := check (pfx ++ ".wf") (wfSimplex (τ * (n + 1)) w.1 w.2)
    match bayesCol ax pyx y with
    | none => wf ++ check (pfx ++ ".zero_column_vacuous") (closeQ τ w.2 1 && w.1.all (fun v => closeQ τ v 0))
    | some post =>
      let uhat := (List.zip post ax).foldl (fun acc pa => if pa.2 > 0 then minQ acc (pa.1 / pa.2) else acc) 1
      let col := pyx.map fun row => row.getD y 0
      let const := col.all fun p => decide (p = col.headD 0)
      wf ++ check (pfx ++ ".bayes") (closeList τ (projQ w.1 w.2 ax) post)
        ++ check (pfx ++ ".u_bound") (decide (w.2 ≤ uhat + τ))
        ++ (if const then check (pfx ++ ".irrelevant_vacuous") (closeQ τ w.2 1) else [])

/-- C05: inversion obeys Bayes; abduction deduces through the inverted table -/
def oracleC05 (c : Case) : Option (List String) :=
  let n := c.ints.getD 0 0
  let m := c.ints.getD 1 0
  match allSome c.inp with
  | none => none
  | some xs =>
  let τ := tauSpec c.fmt * 16
  match c.op with
  | "inverse" =>
    let cs := condAt xs 0 n m
    let ax := slice xs (n * (m + 1)) n
    let ay := slice xs (n * (m + 1) + n) m
    if !(condWf 0 cs && wfBaseRate 0 ax && wfBaseRate 0 ay && ax.all (fun v => decide (0 < v)) && ay.all (fun v => decide (0 < v))) then none else
    withValue c "C05" fun out =>
      let inv := condAt out 0 m n
      checkInverse "C05" τ ax ay cs inv
  | "abduce" | "abduce_with" =>
    let sb := slice xs 0 m
    let su := xs.getD m 0
    let cs := condAt xs (2 * m + 1) n m
    let ax := slice xs (2 * m + 1 + n * (m + 1)) n
    let ayOpt : Option (List Rat) :=
      if c.op == "abduce_with" then some (slice xs (2 * m + 1 + n * (m + 1) + n) m)
      else
        -- marginal base rate (exact): a_y ∝ Σ_x a_x b(y|x)
        let raw := (List.range m).map fun y => sumQ (List.zipWith (fun a cc => a * cc.1.getD y 0) ax cs)
        let t := sumQ raw
        if t = 0 then none else some (raw.map (· / t))
    if !(condWf 0 cs && wfBaseRate 0 ax && wfSimplex 0 sb su && ax.all (fun v => decide (0 < v))) then none else
    match ayOpt with
    | none => if c.cls == "none" then some [] else some ["C05.abduce_none_iff"]
    | some ay =>
      if !(wfBaseRate (tauSpec c.fmt) ay && ay.all (fun v => decide (0 < v))) then none else
      withValue c "C05" fun out =>
        let (b, u, a) := opinionAt out 0 n
        let pyx := condProj cs ay
        let py := projQ sb su ay
        -- P(x) = Σ_y P(y) P(x|y)
        let want : Option (List Rat) := (List.range m).foldl (fun acc y =>
          match acc, bayesCol ax pyx y with
          | some v, some post => some (List.zipWith (fun s p => s + py.getD y 0 * p) v post)
          | some v, none => some (List.zipWith (fun s a => s + py.getD y 0 * a) v ax)
          | none, _ => none) (some (ax.map fun _ => 0))
        check "C05.abduce_wf" (wfSimplex (τ * (n + 1)) b u)
          ++ check "C05.abduce_base_rate" (closeList τ a ax)
          ++ (match want with
              | some w => check "C05.abduce_projection" (closeList τ (projQ b u ax) w)
              | none => [])
  | _ => none

/-- C11: merged joint conditionals -/
def oracleC11 (c : Case) : Option (List String) :=
  let n1 := c.ints.getD 0 0
  let n2 := c.ints.getD 1 0
  let m := c.ints.getD 2 0
  match allSome c.inp with
  | none => none
  | some xs =>
  let τ := tauSpec c.fmt * 64
  if c.op != "merge" then none else
  let c1 := condAt xs 0 n1 m
  let c2 := condAt xs (n1 * (m + 1)) n2 m
  let o := n1 * (m + 1) + n2 * (m + 1)
  let ax1 := slice xs o n1
  let ax2 := slice xs (o + n1) n2
  let ay := slice xs (o + n1 + n2) m
  if !(condWf 0 c1 && condWf 0 c2 && wfBaseRate 0 ax1 && wfBaseRate 0 ax2 && wfBaseRate 0 ay
        && ax1.all (fun v => decide (0 < v)) && ax2.all (fun v => decide (0 < v)) && ay.all (fun v => decide (0 < v))) then none else
  withValue c "C11" fun out =>
    let cells := condAt out 0 (n1 * n2) m
    let wfs := (List.range cells.length).flatMap fun k =>
      let w := cells.getD k ([], 0)
      check "C11.cell_wf" (wfSimplex (τ * (m + 1)) w.1 w.2)
    -- the property's definition: equal to the exact composition inverse ∘ product ∘ inverse, cell by cell;
    -- in particular a cell that is vacuous in exact arithmetic (impossible joint value) must be vacuous
    let cmp := match allSome c.exact with
      | none => []
      | some ex =>
        let ecells := condAt ex 0 (n1 * n2) m
        (List.range cells.length).flatMap fun k =>
          let w := cells.getD k ([], 0)
          let e := ecells.getD k ([], 0)
          if e.2 = 1 then check "C11.impossible_cell_vacuous" (closeQ τ w.2 1 && w.1.all (fun v => closeQ τ v 0))
          else check "C11.equals_composition" (closeQ τ w.2 e.2 && closeList τ w.1 e.1)
    wfs ++ cmp

def oracle (c : Case) : Option (List String) :=
  match c.prop with
  | "C05" => oracleC05 c
  | "C11" => oracleC11 c
  | "C08" => oracleC08 c
  | "C02" => oracleFuse c false
  | "C03" => oracleFuse c true
  | "C09" => oracleC09 c
  | "C12" => oracleC12 c
  | "C14" => oracleC14 c
  | _ => none

end SLV.Oracle
