/-
  Per-property oracles evaluated on the implementation's outputs.
  `oracle prop op variant ints inputs implVals implFlags` returns `none` when the case is outside the
  property's stated domain (skipped) and `some failures` otherwise.
-/
import SLV.Oracle.Basic
import SLV.Oracle.Fuse
import SLV.Oracle.Spec
namespace SLV.Oracle

structure Case where
  prop : String
  op : String
  variant : List String
  ints : List Nat
  fmt : SLV.Fmt
  /-- operands, `none` for NaN / infinities -/
  inp : Array (Option Rat)
  cls : String
  label : String
  out : Array (Option Rat)
  flags : List Bool
  /-- the exact model's outputs on the same operands (used where the property IS "equals the exact composition") -/
  exact : Array (Option Rat) := #[]
  exactCls : String := ""
  /-- value rejected by check_is_one / check_unit_interval (hook), when the implementation failed -/
  rej : Option Rat := none
  rejSpecial : Bool := false
  /-- class of every operand: 0 finite, 1 +inf, 2 -inf, 3 NaN (`inp` is `none` for 1..3) -/
  inpClass : Array Nat := #[]

def Case.eps (c : Case) : Rat := c.fmt.eps

def allSome (xs : Array (Option Rat)) : Option (Array Rat) := xs.mapM id

def slice (xs : Array Rat) (off n : Nat) : List Rat := (xs.extract off (off + n)).toList

def check (name : String) (ok : Bool) : List String := if ok then [] else [name]

/-- operands of a 1-D opinion op: (b, u, a) -/
def opinionAt (xs : Array Rat) (off n : Nat) : List Rat × Rat × List Rat :=
  (slice xs off n, xs.getD (off + n) 0, slice xs (off + n + 1) n)

/-- C09: projection is b + a u; uncertainty maximisation preserves it -/
def oracleC09 (c : Case) : Option (List String) :=
  let n := c.ints.getD 0 0
  match allSome c.inp with
  | none => none
  | some xs =>
  let (b, u, a) := opinionAt xs 0 n
  -- stated domain: well-formed opinions; base-rate entries in (0, eps] are excluded (guard band)
  if !(wfOpinion 0 b u a) then none else
  if a.any (fun ai => decide (0 < ai ∧ ai ≤ c.eps)) then none else
  if c.cls != "ok" then some ["C09.no_value"] else
  match allSome c.out with
  | none => some ["C09.non_finite"]
  | some out =>
  let τ := tauSpec c.fmt
  let p := projQ b u a
  match c.op with
  | "proj" =>
    if out.size != n then some ["C09.shape"] else
    some (check "C09.projection_formula" (closeList τ out.toList p)
      ++ check "C09.projection_is_distribution"
          (out.toList.all (fun x => decide (-τ ≤ x)) && closeQ (τ * n) (sumQ out.toList) 1))
  | "maxu" =>
    if out.size != 1 then some ["C09.shape"] else
    some (check "C09.max_u_formula" (closeQ τ (out.getD 0 0) (maxUQ b u a)))
  | "umax" =>
    if out.size != n + 1 then some ["C09.shape"] else
    let b' := slice out 0 n
    let u' := out.getD n 0
    let uhat := maxUQ b u a
    some (check "C09.max_wf" (wfSimplex (τ * (n + 1)) b' u')
      ++ check "C09.max_keeps_projection" (closeList τ (projQ b' u' a) p)
      ++ check "C09.max_u_ge" (decide (u - τ ≤ u'))
      ++ check "C09.max_u_formula" (closeQ τ u' uhat)
      ++ check "C09.zero_mass"
          (decide (uhat = 1) || (List.zip b' a).any (fun ba => decide (0 < ba.2) && closeQ τ ba.1 0))
      ++ check "C09.idempotent" (closeQ τ (maxUQ b' u' a) u'))
  | _ => none

/-- binomial opinion at offset: (b, d, u, a) -/
structure QB where
  b : Rat
  d : Rat
  u : Rat
  a : Rat

def qbAt (xs : Array Rat) (off : Nat) : QB :=
  ⟨xs.getD off 0, xs.getD (off + 1) 0, xs.getD (off + 2) 0, xs.getD (off + 3) 0⟩

def QB.wf (δ : Rat) (w : QB) : Bool :=
  decide (-δ ≤ w.b) && decide (-δ ≤ w.d) && decide (-δ ≤ w.u) && decide (absQ (w.b + w.d + w.u - 1) ≤ δ)
    && decide (-δ ≤ w.a) && decide (w.a ≤ 1 + δ)

def QB.proj (w : QB) : Rat := w.b + w.a * w.u
def QB.neg (w : QB) : QB := ⟨w.d, w.b, w.u, 1 - w.a⟩
def QB.close (τ : Rat) (x y : QB) : Bool :=
  closeQ τ x.b y.b && closeQ τ x.d y.d && closeQ τ x.u y.u && closeQ τ x.a y.a

/-- distance of a rejected value from the admissible set of the check named by `label` -/
def rejDistance (label : String) (v : Rat) : Rat :=
  if label == "sum(b)+u" || label == "sum(a)" || label == "b+d+u" then absQ (v - 1)
  else if v < 0 then -v else if v > 1 then v - 1 else 0

/-- a failure is a rounding residue when the rejected value is within 1e-9 of the admissible set -/
def isResidue (c : Case) : Bool :=
  match c.rej with
  | some v => decide (rejDistance c.label v ≤ maxQ (1 / 1000000000) (64 * c.eps))
  | none => false

/-- run `k` when the implementation produced a finite value; report the class otherwise -/
def withValue (c : Case) (name : String) (k : Array Rat → List String) : Option (List String) :=
  -- a self-validating operator that rejects its own result by rounding residue is property C19's business
  if (c.cls == "panic" || c.cls == "err") && isResidue c then none else
  if c.cls != "ok" then some [name ++ ".no_value(" ++ c.cls ++ ":" ++ c.label ++ ")"] else
  match allSome c.out with
  | none => some [name ++ ".non_finite"]
  | some out => some (k out)

/-- as `withValue`, for operands that are EXACTLY well-formed and inside the operator's domain: the exact result is then
    well-formed (theorems `C12_mul_ok`, `C12_comul_ok`, `C14_wf`), so any rejection -- by rounding residue or not -- is the
    property's own business and is not handed over to C19 -/
def withValueExact (c : Case) (name : String) (k : Array Rat → List String) : Option (List String) :=
  if c.cls != "ok" then some [name ++ ".no_value(" ++ c.cls ++ ":" ++ c.label ++ ")"] else
  match allSome c.out with
  | none => some [name ++ ".non_finite"]
  | some out => some (k out)

/-- C12: binomial AND/OR -/
def oracleC12 (c : Case) : Option (List String) :=
  match allSome c.inp with
  | none => none
  | some xs =>
  let x := qbAt xs 0
  -- variant token `alias`: the same object is both operands (the second operand's scalars are ignored)
  let y := if c.variant.contains "alias" then x else qbAt xs 4
  let τ := tauSpec c.fmt
  -- variant token `p`: the projection() METHOD's answers for x, y and the result follow the result
  let withP := c.variant.contains "p"
  let projMethod (out : Array Rat) (r : QB) (law : String) (want : Rat → Rat → Rat) : List String :=
    if !withP then [] else
    if out.size != 7 then ["C12.shape"] else
    let px := out.getD 4 0; let py := out.getD 5 0; let pr := out.getD 6 0
    check "C12.projection_method" (closeQ τ px x.proj && closeQ τ py y.proj && closeQ τ pr r.proj)
      ++ check law (closeQ τ pr (want px py))
  if c.op == "bproj" then
    -- BOpinion::projection() is b + a·u of the same opinion
    (if !(x.wf (4 * c.eps)) then none else
     withValueExact c "C12" fun out =>
       if out.size != 1 then ["C12.shape"] else
       check "C12.projection_method" (closeQ τ (out.getD 0 0) x.proj)) else
  if !(x.wf 0 && y.wf 0) then none else
  match c.op with
  | "bmul" =>
    if x.a = 1 ∧ y.a = 1 then none else
    withValueExact c "C12" fun out =>
      let r := qbAt out 0
      check "C12.mul_wf" (r.wf (4 * τ))
        ++ check "C12.mul_base_rate" (closeQ τ r.a (x.a * y.a))
        ++ check "C12.mul_projection" (closeQ τ r.proj (x.proj * y.proj))
        ++ projMethod out r "C12.mul_projection_method" (fun px py => px * py)
  | "bcomul" =>
    if x.a = 0 ∧ y.a = 0 then none else
    withValueExact c "C12" fun out =>
      let r := qbAt out 0
      check "C12.comul_wf" (r.wf (4 * τ))
        ++ check "C12.comul_base_rate" (closeQ τ r.a (x.a + y.a - x.a * y.a))
        ++ check "C12.comul_projection" (closeQ τ r.proj (x.proj + y.proj - x.proj * y.proj))
        ++ projMethod out r "C12.comul_projection_method" (fun px py => px + py - px * py)
  | "blaw" =>
    let z := qbAt xs 8
    let kind := c.ints.getD 0 0
    -- domain of every inner call
    let okMul (p q : QB) : Bool := !(decide (p.a = 1) && decide (q.a = 1))
    let okCo (p q : QB) : Bool := !(decide (p.a = 0) && decide (q.a = 0))
    let dom : Bool := match kind with
      | 0 => okMul x y
      | 1 => z.wf 0 && okMul x y && okMul y z && !(decide (x.a * y.a = 1)) && !(decide (y.a * z.a = 1))
      | 2 => okCo x y
      | 3 => z.wf 0 && okCo x y && okCo y z
      | 4 => okMul x y
      -- the dual law multiplies the NEGATIONS: their base rates 1-a both round to 1 when both a are below half an ulp
      -- of 1, which puts the product outside mul's domain although the exact operands are inside
      | _ => okCo x y && !(decide (x.a ≤ c.eps) && decide (y.a ≤ c.eps))
          -- ... and, more generally, a negation whose base rate 1-a is NOT representable is not the exact negation: the
          -- relative perturbation (≤ eps) of the product's divisor 1-(1-ax)(1-ay) = ax+ay-ax*ay must stay below τ
          && !(((SLV.ulpIdx c.fmt (1 - x.a)).den != 1 || (SLV.ulpIdx c.fmt (1 - y.a)).den != 1)
                && decide ((x.a + y.a - x.a * y.a) * τ ≤ c.eps))
    if !dom then none else
    -- the operands are exactly well-formed and every inner call is inside its domain: the exact value of each side is
    -- well-formed (C12_mul_ok / C12_comul_ok, step by step), so a panic of either side -- by rounding residue or not -- is
    -- reported here (a chain that rejects its own intermediate result breaks the law as stated)
    withValueExact c "C12" fun out =>
      let l := qbAt out 0
      let r := qbAt out 4
      let nm := match kind with
        | 0 => "C12.mul_comm" | 1 => "C12.mul_assoc" | 2 => "C12.comul_comm" | 3 => "C12.comul_assoc"
        | 4 => "C12.de_morgan" | _ => "C12.de_morgan_dual"
      -- associativity of mul is ill-conditioned where the base rates approach 1: the inner product's base rate ax*ay is stored
      -- ROUNDED, the outer call needs 1 - ax*ay, and the relative error of that difference (up to eps / (1 - ax*ay)) goes
      -- straight into the weights (1-a)/(1-a*a'); each single call is accurate to 1.5 eps for the operands it receives
      -- (second bug hunt, C12: 6e6 eps at 1 - a = 2^-27 in f64).  The information is lost by the (b, d, u, a)
      -- representation, not by the operator, so the law is checked with that conditioning unless both inner products are
      -- exactly representable (then nothing is lost and the tight tolerance applies); dually for comul near 0 nothing is
      -- lost (small numbers keep their relative precision).
      let p : Nat := match c.fmt with | .f64 => 53 | .f32 => 24
      let representable (q : Rat) : Bool := (q.den &&& (q.den - 1)) == 0 && decide (q.num.natAbs < 2 ^ p)
      let slack : Rat :=
        if kind != 1 then 0 else
        let pxy := x.a * y.a
        let pyz := y.a * z.a
        if representable pxy && representable pyz then 0 else
        let m := if pxy ≤ pyz then pyz else pxy
        if m < 1 then 4 * c.eps / (1 - m) else 0
      check nm (QB.close (16 * τ + slack) l r)
  | _ => none

/-- simplex triple at offset -/
def triAt (xs : Array Rat) (off : Nat) : Rat × Rat × Rat :=
  (xs.getD off 0, xs.getD (off + 1) 0, xs.getD (off + 2) 0)

def triWf (t : Rat × Rat × Rat) : Bool :=
  decide (0 ≤ t.1) && decide (0 ≤ t.2.1) && decide (0 ≤ t.2.2) && decide (t.1 + t.2.1 + t.2.2 = 1)

/-- STRICT sign clause `C14.masses_nonneg` (repair cf81fd9: `BOpinion::deduce` clamps `b = bi - ay k` and `d = di - (1-ay) k` at
    zero before the division by `s = b + d + u`).  Evaluated on the exact rationals decoded from the output bits, NO tolerance:
    on every `ok`, finite result of `bdeduce` -- and on each of the two results of `bdeduce_sym` -- `b ≥ 0`, `d ≥ 0`, `0 ≤ u ≤ 1`.
    Operand class: every operand mass (antecedent and both conditionals) finite and `≥ 0` exactly, `0 ≤ a_x ≤ 1`, `0 < a_y < 1`;
    NO condition on any sum, on the projected probability or on the guard bands.  There the clause holds by construction in
    floating point: `ui` is a sum of products of non-negative values (`1 - a_x ≥ 0`), both bounds `ka`, `kb` are quotients of
    non-negative products (the differences `b0 - b1`, .. have the sign the case selector just tested; `a_y > 0`, `1 - a_y > 0`), so
    `k ≥ 0` and `u = ui + k ≥ 0`; `b`, `d` are clamped; `s = (b + d) + u ≥ u ≥ 0` by monotone rounding, so the three quotients
    are `≥ 0` and `u / s ≤ 1` (`s = 0` gives NaN: not finite, not judged here).  At the exact semantics:
    `C14_masses_nonneg_gen`.  An operand mass in `[-4ε, 0)`, which the constructors tolerate, can make `ui` (not clamped)
    negative: such operands are outside the class (the clause is restricted, the operator is not required to repair its
    operands).  Before the repair the residue of an exactly-zero belief / disbelief (down to -2^-56 relative to the grid; a
    negative mass in 8e-5 of the 1/16 grid, 0.3 % of decimal grids) was returned, tolerated by the constructor and fed to
    later operators. -/
def signClauseC14 (c : Case) : Option (List String) :=
  if c.cls != "ok" || !(c.op == "bdeduce" || c.op == "bdeduce_sym") then none else
  match allSome c.inp, allSome c.out with
  | some xs, some out =>
    if xs.size < 11 then none else
    let x := qbAt xs 0
    let c0 := triAt xs 4
    let c1 := triAt xs 7
    let ay := xs.getD 10 0
    let nn3 (t : Rat × Rat × Rat) : Bool := decide (0 ≤ t.1) && decide (0 ≤ t.2.1) && decide (0 ≤ t.2.2)
    if !(nn3 (x.b, x.d, x.u) && nn3 c0 && nn3 c1 && decide (0 ≤ x.a) && decide (x.a ≤ 1)
          && decide (0 < ay) && decide (ay < 1)) then none else
    let resOk (r : QB) : Bool := decide (0 ≤ r.b) && decide (0 ≤ r.d) && decide (0 ≤ r.u) && decide (r.u ≤ 1)
    if c.op == "bdeduce" then
      if out.size < 4 then none else some (check "C14.masses_nonneg" (resOk (qbAt out 0)))
    else
      if out.size < 8 then none else some (check "C14.masses_nonneg" (resOk (qbAt out 0) && resOk (qbAt out 4)))
  | _, _ => none

/-- C14: binomial deduction (the clauses of the property on its stated domain; `oracleC14` adds the strict sign clause) -/
def oracleC14Core (c : Case) : Option (List String) :=
  match allSome c.inp with
  | none => none
  | some xs =>
  let x := qbAt xs 0
  let c0 := triAt xs 4
  let c1 := triAt xs 7
  let ay := xs.getD 10 0
  let τ := tauSpec c.fmt
  let px := x.proj
  let e4 := 4 * c.eps
  -- operands that are EXACTLY well-formed (dyadic grids, ..): a panic, rounding residue included, is C14's own business
  -- (theorem C14_wf: the exact result is well-formed).  Operands that are well-formed within the constructors' tolerance
  -- only (plain decimals: 0.1 + 0.2 + 0.7 is not 1 in binary): every clause below holds within its tolerance as well
  -- (value, well-formed, base rate, total probability, symmetry); a rejection by rounding residue is then handed over to
  -- C19 (`withValue`), any other failure is reported here.
  let exactWf := x.wf 0 && triWf c0 && triWf c1
  let tolWf (δ : Rat) (t : Rat × Rat × Rat) : Bool :=
    decide (-δ ≤ t.1) && decide (-δ ≤ t.2.1) && decide (-δ ≤ t.2.2) && decide (absQ (t.1 + t.2.1 + t.2.2 - 1) ≤ δ)
  if !(exactWf || (x.wf e4 && tolWf e4 c0 && tolWf e4 c1)) then none else
  if !(decide (0 < px) && decide (px < 1) && decide (0 < x.a) && decide (x.a < 1)
        && decide (0 < ay) && decide (ay < 1)) then none else
  let withV := if exactWf then withValueExact c "C14" else withValue c "C14"
  match c.op with
  | "bdeduce" =>
    withV fun out =>
      let r := qbAt out 0
      let py0 := c0.1 + ay * c0.2.2
      let py1 := c1.1 + ay * c1.2.2
      check "C14.wf" (r.wf (16 * τ))
        ++ check "C14.base_rate" (closeQ τ r.a ay)
        ++ check "C14.projection" (closeQ (16 * τ) r.proj (px * py0 + (1 - px) * py1))
        -- variant token `p`: x.projection() and the result's projection() as answered by the METHOD
        ++ (if !(c.variant.contains "p") then [] else
            if out.size != 6 then ["C14.shape"] else
            let pxm := out.getD 4 0; let prm := out.getD 5 0
            check "C14.projection_method" (closeQ τ pxm px && closeQ τ prm r.proj)
              ++ check "C14.projection" (closeQ (16 * τ) prm (pxm * py0 + (1 - pxm) * py1)))
        ++ (if x.u = 0 then
              check "C14.dogmatic_mixture"
                (closeQ τ r.b (x.b * c0.1 + x.d * c1.1) && closeQ τ r.d (x.b * c0.2.1 + x.d * c1.2.1)
                  && closeQ τ r.u (x.b * c0.2.2 + x.d * c1.2.2))
            else [])
  | "bdeduce_sym" =>
    -- both sides call deduce on well-formed operands of the open domain.  The second call receives the NEGATED rate
    -- (`1 - a` for swap_x, `1 - ay` for swap_y) as computed in the format: exact on dyadic operands, correctly rounded
    -- otherwise, i.e. off by up to eps/2 ABSOLUTELY -- for a rate far below 1 that is a large relative perturbation of the
    -- rate the swapped call recovers as `1 - (1 - a)` (a < eps/2 is lost altogether: `1 - a` rounds to 1; false alarm on
    -- x.a = 1.4e-8, ay = 1.3e-8 in f32 seen in a 10-seed sweep).  K is linear in a / ay resp. (1-a) / (1-ay), so a
    -- perturbation delta of a rate moves the result by at most delta / min(ay, 1-ay): that much is added to the tolerance
    -- unless the negation is exact (then the two calls receive the same numbers and the tight tolerance applies).
    withV fun out =>
      let l := qbAt out 0
      let r := qbAt out 4
      let swapX := c.ints.getD 0 0 == 0
      let p : Nat := match c.fmt with | .f64 => 53 | .f32 => 24
      let emin : Nat := match c.fmt with | .f64 => 1074 | .f32 => 149
      let representable (q : Rat) : Bool :=
        (q.den &&& (q.den - 1)) == 0 && decide (q.num.natAbs < 2 ^ p) && decide (q.den ≤ 2 ^ emin)
      let negExact := representable (1 - (if swapX then x.a else ay))
      let slack : Rat := if negExact then 0 else c.eps / minQ ay (1 - ay)
      check (if swapX then "C14.swap_x" else "C14.swap_y") (QB.close (64 * τ + slack) l r)
  | _ => none

/-- C14: binomial deduction: the property's clauses on its domain plus `C14.masses_nonneg` on the wider operand class -/
def oracleC14 (c : Case) : Option (List String) :=
  match signClauseC14 c, oracleC14Core c with
  | none, r => r
  | some fs, some r => some (fs ++ r)
  | some fs, none => some fs

/-- every entry of `x` lies between the corresponding entries of `l` and `r` (±δ) -/
def betweenL (δ : Rat) (x l r : List Rat) : Bool :=
  (List.zip x (List.zip l r)).all fun t =>
    decide (minQ t.2.1 t.2.2 - δ ≤ t.1) && decide (t.1 ≤ maxQ t.2.1 t.2.2 + δ)

/-- C02 / C03: fusion closure and agreement with the evidence-space definition -/
def oracleFuse (c : Case) (doC03 : Bool) : Option (List String) :=
  let n := c.ints.getD 0 0
  match allSome c.inp with
  | none => none
  | some xs =>
  let (b1, u1, a1) := opinionAt xs 0 n
  let isOS := c.op == "fuse_os"
  let (b2, u2, a2) :=
    if isOS then (slice xs (2 * n + 1) n, xs.getD (3 * n + 1) 0, a1) else opinionAt xs (2 * n + 1) n
  let same := isOS || c.ints.getD 2 0 == 1
  let op := opOfNat (c.ints.getD 1 0)
  if !(wfOpinion (4 * c.eps) b1 u1 a1 && wfOpinion (4 * c.eps) b2 u2 a2) then none else
  if c.op != "fuse" && c.op != "fuse_os" then none else
  let pfx := if doC03 then "C03" else "C02"
  if c.cls != "ok" then some [pfx ++ ".no_value(" ++ c.cls ++ ")"] else
  match allSome c.out with
  | none => some [pfx ++ ".non_finite"]
  | some out =>
  let (b, u, a) := opinionAt out 0 n
  let e := c.eps
  if !doC03 then
    some (check "C02.simplex_wf" (wfSimplex (64 * n * e) b u)
      ++ check "C02.base_rate_sum" (decide (absQ (sumQ a - 1) ≤ 64 * n * e))
      ++ check "C02.base_rate_between" (betweenL (4 * e) a a1 a2)
      ++ (if same then check "C02.shared_base_rate_unchanged" (a == a1) else [])
      -- "... and equals them when the operands share a base rate", entry by entry and by VALUE (two separate vectors): an entry on
      -- which the operands agree exactly is taken over exactly (the `==` shortcut of compute_base_rate; (x + x)/2 = x in the
      -- two-dogmatic arm); seeded variant C02_r5B dropped the shortcut in the Wgh branch: 1 ulp off on non-dyadic entries
      ++ check "C02.equal_entries_unchanged"
          ((List.zip a (List.zip a1 a2)).all fun t => !(decide (t.2.1 = t.2.2)) || decide (t.1 = t.2.1)))
  else
    -- operands in the tolerance bands (0, eps] / [1-2eps, 1) are classified by the guards: excluded
    let band (v : Rat) : Bool := (decide (0 < v) && decide (v ≤ e)) || (decide (1 - 2 * e ≤ v) && decide (v < 1))
    if band u1 || band u2 then none else
    -- ECm: base-rate entries in (0, eps] are skipped by the maximiser
    if op == .ecm && a.any (fun ai => decide (0 < ai) && decide (ai ≤ e)) then none else
    let sp := fuseSpec op same b1 u1 a1 b2 u2 a2
    let τ := tauSpec c.fmt
    some (check "C03.belief" (closeList τ b sp.1)
      ++ check "C03.uncertainty" (closeQ τ u sp.2.1)
      ++ check "C03.base_rate" (closeList τ a sp.2.2))

/-- conditional table at offset: n simplexes over m values: list of (b, u) -/
def condAt (xs : Array Rat) (off n m : Nat) : List (List Rat × Rat) :=
  (List.range n).map fun x => (slice xs (off + x * (m + 1)) m, xs.getD (off + x * (m + 1) + m) 0)

def condWf (δ : Rat) (cs : List (List Rat × Rat)) : Bool := cs.all fun c => wfSimplex δ c.1 c.2

/-- total weight of belief carried by conditionals of positive base rate: Σ_x a_x (1 - u_x) -/
def beliefWeight (ax : List Rat) (cs : List (List Rat × Rat)) : Rat :=
  sumQ (List.zipWith (fun a c => a * sumQ c.1) ax cs)

/-- fixed point: a_y = Σ_x a_x (b(y|x) + a_y u_x) -/
def mbrFixedPoint (τ : Rat) (ax : List Rat) (cs : List (List Rat × Rat)) (ay : List Rat) : Bool :=
  (List.range ay.length).all fun y =>
    let ayy := ay.getD y 0
    closeQ τ ayy (sumQ (List.zipWith (fun a c => a * (c.1.getD y 0 + ayy * c.2)) ax cs))

/-- C08: marginal base rate is a fixed-point distribution or absent, never NaN -/
def oracleC08 (c : Case) : Option (List String) :=
  let n := c.ints.getD 0 0
  let m := c.ints.getD 1 0
  match allSome c.inp with
  | none => none
  | some xs =>
  let τ := tauSpec c.fmt
  match c.op with
  | "mbr" =>
    let ax := slice xs 0 n
    let cs := condAt xs n n m
    -- operands that are well-formed only within the constructors' tolerance (e.g. a subnormal base-rate entry next to
    -- entries summing to 1): the exact clauses cannot be evaluated, but what is returned must still be absent or a
    -- NaN-free distribution
    if !(wfBaseRate 0 ax && condWf 0 cs) then
      (if !(wfBaseRate (4 * c.eps) ax && condWf (4 * c.eps) cs) then none
       else if c.cls == "none" then some []
       else if c.cls != "ok" then some ["C08.no_value(" ++ c.cls ++ ")"]
       else match allSome c.out with
         | none => some ["C08.nan"]
         | some out => some (check "C08.some_dist" (wfBaseRate (τ * m) out.toList)))
    else
    let w := beliefWeight ax cs
    -- every conditional vacuous by the guard (u >= 1-2eps) while some carries belief: inside the vacuity tolerance band
    -- (theorem C08_band_witness / C08_none_within): the guard may classify the table as all-vacuous
    if decide (w ≠ 0) && cs.all (fun cc => decide (1 - 2 * c.eps ≤ cc.2)) then none else
    if c.cls == "none" then some (check "C08.none_iff" (decide (w = 0)))
    else if c.cls != "ok" then some ["C08.no_value(" ++ c.cls ++ ")"]
    else match allSome c.out with
      | none => some ["C08.nan"]
      | some out =>
        let ay := out.toList
        some (check "C08.none_iff" (decide (w ≠ 0))
          ++ check "C08.some_dist" (wfBaseRate (τ * m) ay)
          ++ check "C08.fixed_point" (mbrFixedPoint τ ax cs ay))
  | "deduce" | "deduce_with" =>
    let (_, _, ax) := opinionAt xs 0 n
    let cs := condAt xs (2 * n + 1) n m
    if !(wfBaseRate 0 ax && condWf 0 cs) then
      (if !(wfBaseRate (4 * c.eps) ax && condWf (4 * c.eps) cs) then none
       else if c.cls != "ok" then some []
       else match allSome c.out with
         | none => some ["C08.nan_poisoned"]
         | some _ => some [])
    else
    let w := beliefWeight ax cs
    if decide (w ≠ 0) && cs.all (fun cc => decide (1 - 2 * c.eps ≤ cc.2)) then none else
    if c.op == "deduce" then
      if c.cls == "none" then some (check "C08.deduce_none_iff" (decide (w = 0)))
      else if c.cls != "ok" then some ["C08.no_value(" ++ c.cls ++ ")"]
      else match allSome c.out with
        | none => some ["C08.nan_poisoned"]
        | some _ => some (check "C08.deduce_none_iff" (decide (w ≠ 0)))
    else
      if c.cls != "ok" then some ["C08.no_value(" ++ c.cls ++ ")"] else
      match allSome c.out with
      | none => some ["C08.nan_poisoned"]
      | some _ => some (check "C08.fallback_lazy" (c.flags.take 1 == [decide (w = 0)]))
  | "abduce" =>
    let cs := condAt xs (2 * m + 1) n m
    let ax := slice xs (2 * m + 1 + n * (m + 1)) n
    if !(wfBaseRate 0 ax && condWf 0 cs) then none else
    let w := beliefWeight ax cs
    if decide (w ≠ 0) && cs.all (fun cc => decide (1 - 2 * c.eps ≤ cc.2)) then none else
    if c.cls == "none" then some (check "C08.abduce_none_iff" (decide (w = 0)))
    else if c.cls != "ok" then some ["C08.no_value(" ++ c.cls ++ ")"]
    else some (check "C08.abduce_none_iff" (decide (w ≠ 0)))
  | _ => none

/-- projected probabilities of a conditional table: P(y|x) = b(y|x) + a_y u_x -/
def condProj (cs : List (List Rat × Rat)) (ay : List Rat) : List (List Rat) :=
  cs.map fun c => projQ c.1 c.2 ay

/-- Bayes posterior P(x|y) for column y; `none` when the likelihood column is all zero -/
def bayesCol (ax : List Rat) (pyx : List (List Rat)) (y : Nat) : Option (List Rat) :=
  let col := pyx.map fun row => row.getD y 0
  let q := sumQ (List.zipWith (· * ·) ax col)
  if col.all (fun p => decide (p = 0)) || q = 0 then none
  else some (List.zipWith (fun a p => a * p / q) ax col)

/-- checks on one inverted table (list over y of (b over x, u)) -/
def checkInverse (pfx : String) (τ eps : Rat) (ax ay : List Rat) (cs : List (List Rat × Rat))
    (inv : List (List Rat × Rat)) : List String :=
  let pyx := condProj cs ay
  let n := ax.length
  (List.range inv.length).flatMap fun y =>
    let w := inv.getD y ([], 0)
    let wf := check (pfx ++ ".wf") (wfSimplex (τ * (n + 1)) w.1 w.2)
    -- a likelihood column that is non-zero but entirely inside the zero-tolerance band (0, eps] is classified
    -- by the crate's is_zero guard (treated as impossible, cf. C11): only well-formedness is required there
    let colB := pyx.map fun row => row.getD y 0
    if colB.all (fun p => decide (absQ p ≤ eps)) && colB.any (fun p => decide (p ≠ 0)) then wf else
    match bayesCol ax pyx y with
    | none => wf ++ check (pfx ++ ".zero_column_vacuous") (closeQ τ w.2 1 && w.1.all (fun v => closeQ τ v 0))
    | some post =>
      let uhat := (List.zip post ax).foldl (fun acc pa => if pa.2 > 0 then minQ acc (pa.1 / pa.2) else acc) 1
      let col := pyx.map fun row => row.getD y 0
      let const := col.all fun p => decide (p = col.headD 0)
      wf ++ check (pfx ++ ".bayes") (closeList τ (projQ w.1 w.2 ax) post)
        ++ check (pfx ++ ".u_bound") (decide (w.2 ≤ uhat + τ))
        -- the bound SCALED by the conditionals' relative uncertainty ω and the irrelevance Ψ(y) = 1 - max_x P(y|x) + min_x P(y|x):
        -- u ≤ û · (ω + Ψ - ωΨ)  (theorem C05_u_bound: equality in the model).  Outside the zero band (every a(y) > ε, every
        -- m_x = min_y P(y|x)/a(y) either 0 or > ε) the weights reduce to ω = 1 when some m_x > 0 (C05_wprop_one) and ω = 0
        -- when every conditional excludes some outcome (C05_wprop_char: every term sits behind the is_zero guard); seeded variant C05_r5A
        ++ (let mx := pyx.map fun row => (List.zip row ay).foldl (fun acc pa => minQ acc (pa.1 / pa.2)) 1
            let plain := ay.all (fun v => decide (eps < v)) && mx.all (fun v => decide (v = 0) || decide (eps < v))
            let irr := 1 - col.foldl maxQ (col.headD 0) + col.foldl minQ (col.headD 0)
            let phi := if mx.any (fun v => decide (eps < v)) then 1 else irr
            if plain then check (pfx ++ ".u_scaled_bound") (decide (w.2 ≤ uhat * phi + τ)) else [])
        ++ (if const then check (pfx ++ ".irrelevant_vacuous") (closeQ τ w.2 1) else [])

/-- C05: inversion obeys Bayes; abduction deduces through the inverted table -/
def oracleC05 (c : Case) : Option (List String) :=
  let n := c.ints.getD 0 0
  let m := c.ints.getD 1 0
  match allSome c.inp with
  | none => none
  | some xs =>
  let τ := tauSpec c.fmt * 16
  match c.op with
  | "inverse" =>
    let cs := condAt xs 0 n m
    let ax := slice xs (n * (m + 1)) n
    let ay := slice xs (n * (m + 1) + n) m
    if !(condWf 0 cs && wfBaseRate (4 * c.eps) ax && wfBaseRate (4 * c.eps) ay && ax.all (fun v => decide (0 < v)) && ay.all (fun v => decide (0 < v))) then none else
    withValue c "C05" fun out =>
      let inv := condAt out 0 m n
      checkInverse "C05" τ c.eps ax ay cs inv
  | "abduce" | "abduce_with" =>
    let sb := slice xs 0 m
    let su := xs.getD m 0
    let cs := condAt xs (2 * m + 1) n m
    let ax := slice xs (2 * m + 1 + n * (m + 1)) n
    let ayOpt : Option (List Rat) :=
      if c.op == "abduce_with" then some (slice xs (2 * m + 1 + n * (m + 1) + n) m)
      else
        -- marginal base rate (exact): a_y ∝ Σ_x a_x b(y|x)
        let raw := (List.range m).map fun y => sumQ (List.zipWith (fun a cc => a * cc.1.getD y 0) ax cs)
        let t := sumQ raw
        if t = 0 then none else some (raw.map (· / t))
    if !(condWf 0 cs && wfBaseRate 0 ax && wfSimplex 0 sb su && ax.all (fun v => decide (0 < v))) then none else
    if cs.all (fun cc => decide (1 - 2 * c.eps ≤ cc.2)) && cs.any (fun cc => decide (cc.2 < 1)) then none else
    match ayOpt with
    | none => if c.cls == "none" then some [] else some ["C05.abduce_none_iff"]
    | some ay =>
      if !(wfBaseRate (tauSpec c.fmt) ay && ay.all (fun v => decide (0 < v))) then none else
      withValue c "C05" fun out =>
        let (b, u, a) := opinionAt out 0 n
        let pyx := condProj cs ay
        let py := projQ sb su ay
        -- P(x) = Σ_y P(y) P(x|y)
        let want : Option (List Rat) := (List.range m).foldl (fun acc y =>
          match acc, bayesCol ax pyx y with
          | some v, some post => some (List.zipWith (fun s p => s + py.getD y 0 * p) v post)
          | some v, none => some (List.zipWith (fun s a => s + py.getD y 0 * a) v ax)
          | none, _ => none) (some (ax.map fun _ => 0))
        let bandCol := (List.range m).any fun y =>
          let col := pyx.map fun row => row.getD y 0
          col.all (fun p => decide (absQ p ≤ c.eps)) && col.any (fun p => decide (p ≠ 0))
        check "C05.abduce_wf" (wfSimplex (τ * (n + 1)) b u)
          ++ check "C05.abduce_base_rate" (closeList τ a ax)
          ++ (match (if bandCol then none else want) with
              | some w => check "C05.abduce_projection" (closeList τ (projQ b u ax) w)
              | none => [])
  | _ => none

/-- C11: merged joint conditionals -/
def oracleC11 (c : Case) : Option (List String) :=
  let n1 := c.ints.getD 0 0
  let n2 := c.ints.getD 1 0
  let m := c.ints.getD 2 0
  match allSome c.inp with
  | none => none
  | some xs =>
  let τ := tauSpec c.fmt * 64
  if c.op != "merge" then none else
  let c1 := condAt xs 0 n1 m
  let c2 := condAt xs (n1 * (m + 1)) n2 m
  let o := n1 * (m + 1) + n2 * (m + 1)
  let ax1 := slice xs o n1
  let ax2 := slice xs (o + n1) n2
  let ay := slice xs (o + n1 + n2) m
  if !(condWf 0 c1 && condWf 0 c2 && wfBaseRate 0 ax1 && wfBaseRate 0 ax2 && wfBaseRate 0 ay
        && ax1.all (fun v => decide (0 < v)) && ax2.all (fun v => decide (0 < v)) && ay.all (fun v => decide (0 < v))) then none else
  withValue c "C11" fun out =>
    let cells := condAt out 0 (n1 * n2) m
    let wfs := (List.range cells.length).flatMap fun k =>
      let w := cells.getD k ([], 0)
      check "C11.cell_wf" (wfSimplex (τ * (m + 1)) w.1 w.2)
    -- the property's definition: equal to the exact composition inverse ∘ product ∘ inverse, cell by cell;
    -- in particular a cell that is vacuous in exact arithmetic (impossible joint value) must be vacuous
    let cmp := match allSome c.exact with
      | none => []
      | some ex =>
        let ecells := condAt ex 0 (n1 * n2) m
        (List.range cells.length).flatMap fun k =>
          let w := cells.getD k ([], 0)
          let e := ecells.getD k ([], 0)
          if e.2 = 1 then check "C11.impossible_cell_vacuous" (closeQ τ w.2 1 && w.1.all (fun v => closeQ τ v 0))
          else check "C11.equals_composition" (closeQ τ w.2 e.2 && closeList τ w.1 e.1)
    wfs ++ cmp

/-- C20: equality / approximate equality of binomial opinions is component-wise.
    Decides, from the exact operand values, what the answer must be whenever no component sits on a
    tolerance boundary (margin 2^-20 relative). -/
def oracleC20 (c : Case) : Option (List String) :=
  match c.op with
  | "bcmpc" | "bcmpd" =>
    -- (`bcmpd`: the forms with default tolerances; every component answer is the scalar type's own, with ITS defaults)
    -- exact, for every input (NaN, infinities, boundary of the tolerance included): the comparison of the opinions is the
    -- conjunction of the scalar type's own comparison of b, d, u and a
    if c.cls != "ok" then some ["C20.no_value"] else
    match c.flags with
    | [w, cb, cd, cu, ca] => some (check "C20.component_wise" (w == (cb && cd && cu && ca)))
    | _ => some ["C20.shape"]
  | "bcmp" =>
    match allSome c.inp with
    | none => none
    | some xs =>
    let kind := c.ints.getD 0 0
    let maxUlps : Rat := (c.ints.getD 1 0 : Nat)
    let eps := xs.getD 8 0
    let maxRel := xs.getD 9 0
    if eps < 0 || maxRel < 0 then none else
    let comps := (List.range 4).map fun i => (xs.getD i 0, xs.getD (4 + i) 0)
    let mlo : Rat := 1 - 1 / 1048576
    let mhi : Rat := 1 + 1 / 1048576
    -- per component: some true = certainly equal, some false = certainly unequal, none = boundary
    let verdict (p : Rat × Rat) : Option Bool :=
      let d := absQ (p.1 - p.2)
      let sameSign := decide ((0 ≤ p.1) ↔ (0 ≤ p.2))
      let ulps := absQ (SLV.ulpIdx c.fmt p.1 - SLV.ulpIdx c.fmt p.2)
      match kind with
      | 0 => some (decide (d = 0))
      | 1 => if d = 0 then some true else if d < eps * mlo then some true else if d > eps * mhi then some false else none
      | 2 =>
        let largest := maxQ (absQ p.1) (absQ p.2)
        let tol := maxQ eps (largest * maxRel)
        if d = 0 then some true else if d < tol * mlo then some true else if d > tol * mhi then some false else none
      | _ =>
        if d = 0 then some true
        else if d < eps * mlo then some true
        else if sameSign && decide (ulps ≤ maxUlps) then some true
        else if d > eps * mhi then some false else none
    let vs := comps.map verdict
    if vs.any (· == none) then none else
    let expect := vs.all (· == some true)
    if c.cls != "ok" then some ["C20.no_value"] else
    some (check (if expect then "C20.equal_components_compare_equal" else "C20.single_component_difference_detected")
      (c.flags == [expect]))
  | "meq_alias" =>
    -- an opinion compared with ITSELF (the same object on both sides): cell-wise IEEE ==, i.e. false iff a cell is NaN
    let n := if c.ints.length ≥ 2 then c.ints.getD 0 0 * c.ints.getD 1 0 else c.ints.getD 0 0
    if c.inpClass.size != 2 * n + 1 then none else
    let nanFree (off len : Nat) : Bool := (c.inpClass.extract off (off + len)).all (· != 3)
    let sEq := nanFree 0 (n + 1)
    let aEq := nanFree (n + 1) n
    let oEq := sEq && aEq
    if c.cls != "ok" then some ["C20.no_value"] else
    some (check "C20.same_object_eq_iff_nan_free" (c.flags == [sEq, oEq, oEq, aEq, oEq]))
  | "meq" =>
    match allSome c.inp with
    | none => none
    | some xs =>
    let n := if c.ints.length ≥ 2 then c.ints.getD 0 0 * c.ints.getD 1 0 else c.ints.getD 0 0
    let w := 2 * n + 1
    let l := slice xs 0 w
    let r := slice xs w w
    let sEq := decide (slice xs 0 (n + 1) = slice xs w (n + 1))
    let oEq := decide (l = r)
    if c.cls != "ok" then some ["C20.no_value"] else
    some (check "C20.mul_eq_iff" (c.flags == [sEq, oEq]))
  | _ => none

/-- C01: checked constructors admit exactly the well-formed opinions -/
def oracleC01 (c : Case) : Option (List String) :=
  let e := c.eps
  let isB := c.op == "bsimplex_new" || c.op == "bop_new"
  if !(isB || c.op == "simplex_new" || c.op == "opinion_new") then none else
  let n := if isB then 2 else c.ints.getD 0 0
  let hasA := c.op == "opinion_new" || c.op == "bop_new"
  let accepted := c.cls == "ok"
  let rejected := c.cls == "err" || c.cls == "panic"
  if !(accepted || rejected) then some ["C01.bad_class"] else
  match allSome c.inp with
  | none => some (check "C01.specials_rejected" rejected)
  | some xs =>
    let b := slice xs 0 n
    let u := xs.getD n 0
    let a := if !hasA then [] else if isB then [xs.getD 3 0] else slice xs (n + 1) n
    let band (q : Rat) : Bool := decide (-e ≤ q) && decide (q ≤ 1 + 4 * e)
    let slack : Rat := (n + 2) * e
    let sumBU := sumQ b + u
    let sumA := sumQ a
    -- exactly well-formed ⇒ accepted
    let wf0 := b.all (fun q => decide (0 ≤ q)) && decide (0 ≤ u) && decide (sumBU = 1)
      && (!hasA || (a.all (fun q => decide (0 ≤ q) && decide (q ≤ 1)) && (isB || decide (sumA = 1))))
    -- some single constraint missed by a visible margin ⇒ rejected
    let far (q : Rat) : Bool := decide (q < -(e + slack)) || decide (q > 1 + 4 * e + slack)
    let farOne (q : Rat) : Bool := decide (q < 1 - 2 * e - slack) || decide (q > 1 + 4 * e + slack)
    let missed := b.any far || far u || farOne sumBU || (hasA && (a.any far || (!isB && farOne sumA)))
    let r1 := if wf0 then check "C01.accepts_wf" accepted else []
    let r2 := if missed then check "C01.rejects_margin" rejected else []
    let r3 := if accepted then
        (match allSome c.out with
         | none => ["C01.non_finite_stored"]
         | some out =>
           let stored := out.toList
           let given := (b ++ [u] ++ a)
           check "C01.stores" (stored == given)
             ++ check "C01.accepted_near_wf"
                 (b.all band && band u && decide (absQ (sumBU - 1) ≤ 4 * e + slack)
                   && (!hasA || (a.all band && (isB || decide (absQ (sumA - 1) ≤ 4 * e + slack)))))
             ++ (if isB then [] else
                  check "C01.vacuous_iff" (c.flags.getD 0 false == (decide (1 - 2 * e ≤ u) && decide (u ≤ 1 + 4 * e)))
                  ++ check "C01.dogmatic_iff" (c.flags.getD 1 false == decide (absQ u ≤ e))
                  -- borrowed views (as_ref, From<&Opinion>, From<(&Simplex, &T)>; a bare simplex has the last one only) and
                  -- their round trips to an owned opinion (cloned / into_opinion): flags `vac dog` per view, `vac dog same` per
                  -- round trip, after the owner's two
                  ++ (let vac := c.flags.getD 0 false
                      let dog := c.flags.getD 1 false
                      let vf := c.flags.drop 2
                      let nViews := if hasA then 3 else 1
                      let nRts := if hasA then 2 else 1
                      let pairOk (o : Nat) : Bool := vf.getD o (!vac) == vac && vf.getD (o + 1) (!dog) == dog
                      check "C01.view_predicates_agree" ((List.range nViews).all fun i => pairOk (2 * i))
                        ++ check "C01.view_roundtrip_predicates" ((List.range nRts).all fun j => pairOk (2 * nViews + 3 * j))
                        ++ check "C01.view_roundtrip_stores" ((List.range nRts).all fun j => vf.getD (2 * nViews + 3 * j + 2) false))))
      else []
    some (r1 ++ r2 ++ r3)

/-- C04: deduction is well-formed and obeys total probability -/
def oracleC04 (c : Case) : Option (List String) :=
  let (n, m) := if c.op == "deduce2" then (c.ints.getD 0 0 * c.ints.getD 1 0, c.ints.getD 2 0)
                else (c.ints.getD 0 0, c.ints.getD 1 0)
  if !(c.op == "deduce" || c.op == "deduce_with" || c.op == "deduce2") then none else
  match allSome c.inp with
  | none => none
  | some xs =>
  let (bx, ux, ax) := opinionAt xs 0 n
  let cs := condAt xs (2 * n + 1) n m
  let fb := slice xs (2 * n + 1 + n * (m + 1)) m
  if !(wfOpinion (4 * c.eps) bx ux ax && condWf (4 * c.eps) cs) then none else
  let allVac := cs.all fun cc => decide (1 - 2 * c.eps ≤ cc.2)
  let ayOpt : Option (List Rat) :=
    match (if allVac then none else mbrSpec ax cs m) with
    | some ay => some ay
    | none => if c.op == "deduce" then none else some fb
  match ayOpt with
  | none => none
  | some ay =>
  if !(wfBaseRate (tauSpec c.fmt) ay) then none else
  let τ := tauSpec c.fmt * 16
  withValue c "C04" fun out =>
    let (b, u, a) := opinionAt out 0 m
    let want := totalProbSpec bx ux ax cs ay m
    let absolute : List String :=
      match (List.range n).find? (fun x => decide (bx.getD x 0 = 1)) with
      | some x0 =>
        let cc := cs.getD x0 ([], 0)
        check "C04.absolute" (closeList τ b cc.1 && closeQ τ u cc.2)
      | none => []
    -- the defining form: belief-weighted mixture of the conditionals plus u_X times the most uncertain apex
    -- opinion with projection Σ_x a(x)P(y|x) whose masses are at least min_x b(y|x)
    let apex : List String := match deduceSpec bx ux ax cs ay m with
      | none => []
      | some (bWant, uWant) => check "C04.mixture_plus_apex" (closeQ τ u uWant && closeList τ b bWant)
    (if c.variant.contains "shared" then check "C04.shared_table_eq_by_value" (c.flags.getLast? == some true) else [])
      ++ check "C04.wf" (wfSimplex (τ * (m + 1)) b u)
      ++ check "C04.base_rate" (closeList τ a ay)
      ++ check "C04.total_probability" (closeList τ (projQ b u ay) want)
      ++ absolute ++ apex

/-- C06: product is the well-formed, maximally uncertain independent joint -/
def oracleC06 (c : Case) : Option (List String) :=
  if !(c.op == "prod2" || c.op == "prod3") then none else
  match allSome c.inp with
  | none => none
  | some xs =>
  let k := if c.op == "prod2" then 2 else 3
  let dims := (List.range k).map fun i => c.ints.getD i 0
  let offs : List Nat := (List.range k).map fun i => (((List.range i).map fun j => 2 * dims.getD j 0 + 1).foldl (· + ·) 0)
  let ops := (List.range k).map fun i => opinionAt xs (offs.getD i 0) (dims.getD i 0)
  let exactWf := ops.all fun w => wfOpinion 0 w.1 w.2.1 w.2.2
  if !(ops.all fun w => wfOpinion (4 * c.eps) w.1 w.2.1 w.2.2) then none else
  -- a rejection by rounding residue is C19's business, not C06's
  if c.cls == "panic" && isResidue c then none else
  let τ := tauSpec c.fmt * 16
  let sp := productSpec ops
  let P := sp.1
  let A := sp.2.1
  let B := sp.2.2.1
  let N := P.length
  withValue c "C06" fun out =>
    let (b, u, a) := opinionAt out 0 N
    -- operands that are well-formed only within the constructors' tolerance (arbitrary floats): the result must still be a
    -- well-formed opinion with the outer-product base rate; the exact identities are only checked on exactly well-formed operands
    if !exactWf then
      check "C06.wf" (wfOpinion (τ * (N + 1)) b u a) ++ check "C06.outer_base_rate" (closeList τ a A) else
    if A.any (fun v => decide (0 < v) && decide (v ≤ c.eps)) then
      check "C06.wf" (wfOpinion (τ * (N + 1)) b u a) ++ check "C06.outer_base_rate" (closeList τ a A) else
    let uhat := sp.2.2.2
    check "C06.wf" (wfOpinion (τ * (N + 1)) b u a)
      ++ check "C06.outer_base_rate" (closeList τ a A)
      ++ check "C06.outer_projection" (closeList τ (projQ b u a) P)
      ++ check "C06.mass_ge_product" ((List.zip b B).all fun (t : Rat × Rat) => decide (t.2 - τ ≤ t.1))
      ++ (match uhat with
          | some uh => check "C06.max_u" (closeQ τ u uh)
          | none => [])

/-- C10: trust discounting -/
def oracleC10 (c : Case) : Option (List String) :=
  match allSome c.inp with
  | none => none
  | some xs =>
  let τ := tauSpec c.fmt
  let e := c.eps
  match c.op with
  | "discount" | "discount_chain" =>
    let n := c.ints.getD 0 0
    let k := if c.op == "discount" then 1 else c.ints.getD 1 0
    let (b, u, a) := opinionAt xs 0 n
    let ts := slice xs (2 * n + 1) k
    let simplexOnly := c.variant.getD 2 "" == "s"
    -- operands well-formed within the constructors' tolerance (arbitrary floats) are in scope: the formulas are plain
    -- arithmetic on the supplied numbers, and "base rate unchanged" is checked bit for bit
    if !(wfOpinion (4 * e) b u a && ts.all (fun t => decide (0 ≤ t) && decide (t ≤ 1))) then none else
    let t := ts.foldl (· * ·) 1
    withValue c "C10" fun out =>
      let b' := slice out 0 n
      let u' := out.getD n 0
      let a' := slice out (n + 1) n
      -- a vacuous-by-guard input (or intermediate) is replaced by the vacuous opinion: allow 2eps·k
      let slack := τ + 2 * e * k
      check "C10.formula_belief" (closeList slack b' (b.map (· * t)))
        -- "every belief mass multiplied by t", read RELATIVELY for a single discount of an operand that is not vacuous by the guard:
        -- b_i * t is one correctly rounded multiplication (relative error eps/2); 4 eps leaves room for a renormalising rewrite.
        -- An absolute tolerance cannot see a trust level below eps being treated as zero (seeded variant C10_r5B: fast path
        -- is_zero(t) -> vacuous on the owned receiver: b' = 0 for t*b = 3e-8)
        ++ (if k == 1 && decide (u < 1 - 2 * e) then
              check "C10.formula_belief_relative"
                ((List.zip b' b).all fun p => decide (absQ (p.1 - p.2 * t) ≤ 4 * e * absQ (p.2 * t) + e * e * e * e * e))
            else [])
        ++ check "C10.formula_uncertainty" (closeQ slack u' (1 - t * (1 - u)))
        ++ check "C10.wf" (wfSimplex (τ * (n + 1)) b' u')
        ++ (if simplexOnly then [] else
              check "C10.base_rate_unchanged" (a' == a)
              ++ check "C10.projection" (closeList slack (projQ b' u' a')
                  ((List.zip (projQ b u a) a).map fun pa => t * pa.1 + (1 - t) * pa.2)))
        ++ (if t = 0 || u = 1 then check "C10.vacuous" (closeQ τ u' 1 && b'.all (fun v => closeQ τ v 0)) else [])
        ++ (if t = 1 then check "C10.one_unchanged" (closeList (2 * e) b' b && closeQ (2 * e) u' u) else [])
  | "btrans_unc" | "btrans_bsr" =>
    let x := qbAt xs 0
    let t := xs.getD 4 0
    if !(x.wf 0 && decide (0 ≤ t) && decide (t ≤ 1)) then none else
    withValue c "C10" fun out =>
      let r := qbAt out 0
      check "C10.trans_eq_discount"
        (QB.close τ r ⟨t * x.b, t * x.d, 1 - t * (1 - x.u), x.a⟩)
        ++ check "C10.trans_wf" (r.wf (4 * τ))
  | "btrans_opp" =>
    let x := qbAt xs 0
    let tb := xs.getD 4 0
    let td := xs.getD 5 0
    if !(x.wf 0 && decide (0 ≤ tb) && decide (0 ≤ td) && decide (tb + td ≤ 1)) then none else
    withValue c "C10" fun out =>
      let r := qbAt out 0
      check "C10.trans_opp_formula"
        (QB.close τ r ⟨tb * x.b + td * x.d, tb * x.d + td * x.b, 1 - (tb + td) * (1 - x.u), x.a⟩)
        ++ check "C10.trans_wf" (r.wf (4 * τ))
  | _ => none

/-- C13: binomial opinions are the binary case of multinomial ones -/
def oracleC13 (c : Case) : Option (List String) :=
  match allSome c.inp with
  | none => none
  | some xs =>
  let τ := tauSpec c.fmt
  let e := c.eps
  match c.op with
  | "bconv" =>
    let x := qbAt xs 0
    if c.cls != "ok" then some ["C13.no_value"] else
    match allSome c.out with
    | none => some ["C13.non_finite"]
    | some out =>
      let (b, u, a) := opinionAt out 0 2
      let back := qbAt out 5
      some (check "C13.roundtrip" (decide (back.b = x.b) && decide (back.d = x.d) && decide (back.u = x.u) && decide (back.a = x.a))
        ++ check "C13.to_opinion" (b == [x.b, x.d] && decide (u = x.u) && decide (a.getD 0 0 = x.a) && closeQ (2 * e) (a.getD 1 0) (1 - x.a))
        ++ check "C13.projection" (closeQ τ ((projQ b u a).getD 0 0) x.proj))
  | "bconv_all" =>
    -- every conversion path between the binomial and the binary multinomial representation (layout: PROTOCOL.md)
    let x := qbAt xs 0
    if c.cls != "ok" then some ["C13.no_value"] else
    match allSome c.out with
    | none => some ["C13.non_finite"]
    | some out =>
      if out.size != 38 then some ["C13.shape"] else
      let oFrom := slice out 0 5
      let oInto := slice out 5 5
      let backs := [qbAt out 10, qbAt out 14, qbAt out 18, qbAt out 22]   -- from value, into value, from ref, into ref
      let sv := slice out 26 3
      let oAgain := slice out 29 5
      let pB := out.getD 34 0
      let pM := slice out 35 2
      let pBack := out.getD 37 0
      let same (w : QB) : Bool := decide (w.b = x.b) && decide (w.d = x.d) && decide (w.u = x.u) && decide (w.a = x.a)
      let (b, u, a) := opinionAt out 0 2
      some (check "C13.to_opinion" (b == [x.b, x.d] && decide (u = x.u) && decide (a.getD 0 0 = x.a) && closeQ (2 * e) (a.getD 1 0) (1 - x.a))
        ++ check "C13.from_eq_into" (oFrom == oInto)
        ++ check "C13.roundtrip" (same (backs.getD 0 x) && same (backs.getD 1 x))
        ++ check "C13.roundtrip_by_ref" (same (backs.getD 2 x) && same (backs.getD 3 x))
        ++ check "C13.by_ref_eq_by_value" (backs.all fun w => w.b = (backs.getD 0 x).b ∧ w.d = (backs.getD 0 x).d
              ∧ w.u = (backs.getD 0 x).u ∧ w.a = (backs.getD 0 x).a)
        ++ check "C13.simplex_view" (sv == [x.b, x.d, x.u])
        ++ check "C13.second_trip" (oAgain == oFrom)
        ++ (if !(x.wf (4 * e)) then [] else
            check "C13.projection_method" (closeQ τ pB x.proj && closeQ τ pBack x.proj)
              ++ check "C13.projection" (closeQ τ (pM.getD 0 0) x.proj && closeQ τ (pM.getD 0 0) pB
                  && closeQ (τ + 2 * e) (pM.getD 1 0) (1 - x.proj))))
  | "bvs" =>
    let x := qbAt xs 0
    -- variant token `alias`: the same object on both sides (y's scalars are ignored)
    let y := if c.variant.contains "alias" then x else qbAt xs 4
    let kind := c.ints.getD 0 0
    if !(x.wf (4 * e) && y.wf (4 * e)) then none else
    -- uncertainties in (0, eps] are excluded: the two families deliberately classify them differently
    let band (v : Rat) : Bool := (decide (0 < v) && decide (v ≤ e)) || (decide (1 - 2 * e ≤ v) && decide (v < 1))
    -- both operands vacuous by the guard `ulps_eq!(u, 1.0)` (value level: 1 - 2 eps <= u <= 1 + 4 eps), which BOTH families use
    -- for this arm: each takes the mean of the two base rates, so the base rates of the two results agree although the
    -- operands sit in the band (seeded variant C13_r5A: cfuse took the mean only at an exactly zero weight sum)
    let vacG (v : Rat) : Bool := decide (1 - 2 * e ≤ v) && decide (v ≤ 1 + 4 * e)
    if vacG x.u && vacG y.u && c.cls == "ok" && (band x.u || band y.u) then
      (match allSome c.out with
       | none => some ["C13.non_finite"]
       | some out => some (check "C13.both_vacuous_band_base_rate" (closeQ (τ + 4 * e) (qbAt out 0).a (qbAt out 4).a)))
    else
    if band x.u || band y.u then none else
    -- equal-weight averaging / weighting of two dogmatic opinions: gamma must be 1/2
    if (kind == 1 || kind == 2) && x.u = 0 && y.u = 0 && xs.getD 8 0 ≠ 1 / 2 then none else
    let bothDog := decide (x.u = 0) && decide (y.u = 0)
    if c.cls == "err" && isResidue c && !bothDog then none else
    if c.cls == "err" then
      some (check "C13.cfuse_err_only_two_dogmatic" (kind == 0 && bothDog))
    else
    withValue c "C13" fun out =>
      let l := qbAt out 0
      let r := qbAt out 4
      -- nearly vacuous operands [1-2eps,1) are vacuous to the multinomial guard: 4eps slack
      let slack := τ + 4 * e
      check (match kind with | 0 => "C13.cfuse_eq_acm" | 1 => "C13.afuse_eq_avg" | _ => "C13.wfuse_eq_wgh")
        (QB.close slack l r)
        ++ (if kind == 0 && bothDog then ["C13.cfuse_two_dogmatic_should_err"] else [])
  | "bfold" =>
    -- left fold of cfuse / afuse / wfuse (L) against the multinomial fold of the converted operands (R), variant `vs`;
    -- operands well-formed, uncertainties strictly inside (eps, 1 - 2 eps): no guard of either family fires at any step
    -- (the accumulated uncertainty of these folds never exceeds the largest operand's and never reaches 0)
    if !(c.variant.contains "vs") then none else
    let kind := c.ints.getD 0 0
    let k := c.ints.getD 1 0
    let ws := (List.range k).map fun j => qbAt xs (4 * j)
    if !(ws.all fun w => w.wf (4 * e) && decide (e < w.u) && decide (w.u < 1 - 2 * e)) then none else
    if kind != 0 && !(decide (0 ≤ xs.getD (4 * k) 0) && decide (xs.getD (4 * k) 0 ≤ 1)) then none else
    if c.cls == "err" && isResidue c then none else      -- a self-rejection by rounding residue is C19's business
    if c.cls == "err" then some ["C13.fold_err(" ++ c.label ++ ")"] else
    withValue c "C13" fun out =>
      if out.size != 8 then ["C13.shape"] else
      check (match kind with | 0 => "C13.cfuse_fold_eq_acm" | 1 => "C13.afuse_fold_eq_avg" | _ => "C13.wfuse_fold_eq_wgh")
        (QB.close (τ + 4 * e) (qbAt out 0) (qbAt out 4))
  | _ => none

/-- C19: self-validating operators never reject a correctly rounded result.
    A failure is legitimate only when the exact result is itself ill-formed or undefined. -/
def triWfTol (δ : Rat) (t : Rat × Rat × Rat) : Bool :=
  decide (-δ ≤ t.1) && decide (-δ ≤ t.2.1) && decide (-δ ≤ t.2.2) && decide (absQ (t.1 + t.2.1 + t.2.2 - 1) ≤ δ)

def oracleC19 (c : Case) : Option (List String) :=
  match allSome c.inp with
  | none => none
  | some xs =>
  let failed := c.cls == "err" || c.cls == "panic"
  let e4 := 4 * c.eps
  -- second operand of the binary binomial operators; variant token `alias`: the same object as the first
  let y2 (x : QB) : QB := if c.variant.contains "alias" then x else qbAt xs 4
  let legit : Option Bool :=  -- some true: failure legitimate; some false: must not fail; none: outside domain
    match c.op with
    | "bmul" => let x := qbAt xs 0; let y := y2 x
      if !(x.wf e4 && y.wf e4) then none else some (decide (x.a * y.a = 1))
    | "bcomul" => let x := qbAt xs 0; let y := y2 x
      if !(x.wf e4 && y.wf e4) then none else some (decide (x.a = 0) && decide (y.a = 0))
    | "blaw" =>
      -- both sides of a law of mul / comul (C12's kinds 0..5; 1 and 3 are chains (x·y)·z vs x·(y·z)): the operands are
      -- well-formed within the constructors' tolerance and every base rate lies in [2^-10, 1 - 2^-10], so every inner call
      -- -- on the operands, their negations and the intermediate results -- is inside its domain; since repair d46c983 the
      -- exact intermediate results add up to exactly 1, so neither side may fail
      let x := qbAt xs 0; let y := y2 x; let z := qbAt xs 8
      let kind := c.ints.getD 0 0
      let lo : Rat := 1 / 1024
      let mid (w : QB) : Bool := decide (lo ≤ w.a) && decide (w.a ≤ 1 - lo)
      if !(x.wf e4 && y.wf e4 && mid x && mid y) then none else
      if (kind == 1 || kind == 3) && !(z.wf e4 && mid z) then none else some false
    | "bcfuse" => let x := qbAt xs 0; let y := y2 x
      if !(x.wf e4 && y.wf e4) then none else
      if (decide (0 < x.u) && decide (x.u ≤ c.eps)) || (decide (0 < y.u) && decide (y.u ≤ c.eps)) then none
      else some (decide (x.u = 0) && decide (y.u = 0))
    | "bafuse" | "bwfuse" => let x := qbAt xs 0; let y := y2 x; let g := xs.getD 8 0
      if !(x.wf e4 && y.wf e4 && decide (0 ≤ g) && decide (g ≤ 1)) then none else some false
    | "bfold" =>
      -- left fold of cfuse (kind 0) / afuse (1) / wfuse (2) over k well-formed operands.  In exact arithmetic every
      -- intermediate result is well-formed (C19_cfuse/afuse/wfuse_exact_ok, step by step), and the accumulated uncertainty
      -- of a cumulative fold is 0 iff one of the operands so far is dogmatic: some step fuses two dogmatic opinions -- the
      -- only legitimate failure -- iff at least two operands have u = 0 exactly.  As for `bcfuse`, operands with u in the
      -- tolerance band (0, eps] are outside the rule for cfuse.
      let kind := c.ints.getD 0 0
      let k := c.ints.getD 1 0
      let ws := (List.range k).map fun j => qbAt xs (4 * j)
      if !(ws.all fun w => w.wf e4) then none else
      if kind == 0 then
        if ws.any fun w => decide (0 < w.u) && decide (w.u ≤ c.eps) then none
        else some (decide (2 ≤ (ws.filter fun w => decide (w.u = 0)).length))
      else
        let g := xs.getD (4 * k) 0
        if !(decide (0 ≤ g) && decide (g ≤ 1)) then none else some false
    | "bdeduce" =>
      let x := qbAt xs 0; let c0 := triAt xs 4; let c1 := triAt xs 7; let ay := xs.getD 10 0
      if !(x.wf e4 && triWfTol e4 c0 && triWfTol e4 c1) then none else
      if !(decide (0 < x.proj) && decide (x.proj < 1) && decide (0 < x.a) && decide (x.a < 1)
            && decide (0 < ay) && decide (ay < 1)) then none else some false
    | "btrans_unc" | "btrans_bsr" => let x := qbAt xs 0; let t := xs.getD 4 0
      if !(x.wf e4) then none else some (!(decide (0 ≤ t) && decide (t ≤ 1)))
    | "btrans_opp" => let x := qbAt xs 0; let tb := xs.getD 4 0; let td := xs.getD 5 0
      if !(x.wf e4) then none else some (!(decide (0 ≤ tb) && decide (0 ≤ td) && decide (tb + td ≤ 1)))
    | "prod2" | "prod3" =>
      if c.variant.getD 0 "" != "M" then none else
      let k := if c.op == "prod2" then 2 else 3
      let dims := (List.range k).map fun i => c.ints.getD i 0
      let offs := (List.range k).map fun i => (((List.range i).map fun j => 2 * dims.getD j 0 + 1).foldl (· + ·) 0)
      let ops := (List.range k).map fun i => opinionAt xs (offs.getD i 0) (dims.getD i 0)
      if !(ops.all fun w => wfOpinion e4 w.1 w.2.1 w.2.2) then none else some false
    | _ => none
  match legit with
  | none => none
  | some true => some []     -- a failure here is legitimate; a value is fine too (tolerance)
  | some false =>
    if !failed then some [] else
    some [if isResidue c then "C19.rejected_rounding_residue(" ++ c.label ++ ")"
          else "C19.rejected_ill_formed_result(" ++ c.label ++ ")"]

/-- C07: algebraic laws of fusion (per-case part; commutativity and order-independence are cross-case checks) -/
def oracleC07 (c : Case) : Option (List String) :=
  match allSome c.inp with
  | none => none
  | some xs =>
  let n := c.ints.getD 0 0
  let op := opOfNat (c.ints.getD 1 0)
  let e := c.eps
  let τ := tauSpec c.fmt
  match c.op with
  | "fuse" =>
    let (b1, u1, a1) := opinionAt xs 0 n
    let (b2, u2, a2) := opinionAt xs (2 * n + 1) n
    if !(wfOpinion 0 b1 u1 a1 && wfOpinion 0 b2 u2 a2) then none else
    let band (v : Rat) : Bool := (decide (0 < v) && decide (v ≤ e)) || (decide (1 - 2 * e ≤ v) && decide (v < 1))
    if band u1 || band u2 then none else
    withValue c "C07" fun out =>
      let (b, u, a) := opinionAt out 0 n
      let same := decide (b1 = b2) && decide (u1 = u2) && decide (a1 = a2)
      let lo := minQ u1 u2
      let hi := maxQ u1 u2
      (if same && (op == .avg || op == .wgh) then
          check "C07.idempotent" (closeList τ b b1 && closeQ τ u u1 && closeList τ a a1) else [])
      ++ (if (op == .acm || op == .wgh) && u1 = 1 && u2 < 1 then
          check "C07.vacuous_neutral" (b == b2 && decide (u = u2) && a == a2) else [])
      ++ (if (op == .acm || op == .wgh) && u2 = 1 && u1 < 1 then
          check "C07.vacuous_neutral" (b == b1 && decide (u = u1) && a == a1) else [])
      ++ (if op == .acm && !(u1 = 0 && u2 = 0) then check "C07.acm_u_le_min" (decide (u ≤ lo + τ)) else [])
      ++ (if (op == .avg || op == .wgh) && !(u1 = 0 && u2 = 0) && !(u1 = 1 && u2 = 1) then
            check "C07.u_between" (decide (lo - τ ≤ u) && decide (u ≤ hi + τ)) else [])
  | "fuse_fold" =>
    let k := c.ints.getD 2 0
    if op != .acm || k == 0 then none else
    let ws := (List.range k).map fun j => opinionAt xs (j * (2 * n + 1)) n
    let a0 := (ws.headD ([], 0, [])).2.2
    -- stated domain: non-dogmatic opinions sharing a base rate (and outside the tolerance bands)
    if !(ws.all fun w => wfOpinion 0 w.1 w.2.1 w.2.2 && decide (w.2.2 = a0) && decide (e < w.2.1)
          && !(decide (1 - 2 * e ≤ w.2.1) && decide (w.2.1 < 1))) then none else
    withValue c "C07" fun out =>
      let (b, u, a) := opinionAt out 0 n
      -- canonical-order fold of the evidence-space definition
      let first := ws.headD ([], 0, [])
      let sp := (ws.drop 1).foldl (fun (acc : List Rat × Rat) w => fuseSimplexSpec .acm acc.1 acc.2 w.1 w.2.1) (first.1, first.2.1)
      check "C07.fold_order_independent" (closeList (τ * k) b sp.1 && closeQ (τ * k) u sp.2 && closeList (τ * k) a a0)
  | _ => none

/-- C16: storage / passing-style independence (per-case part) -/
def oracleC16 (c : Case) : Option (List String) :=
  match c.op with
  | "fuse_ss" =>
    if c.ints.getD 1 0 == 1 then some (check "C16.ecm_simplex_refused" (c.cls == "panic"))
    else some (check "C16.simplex_fuse_value" (c.cls == "ok"))
  | "fuse_os" =>
    match allSome c.inp, allSome c.out with
    | some xs, some out =>
      let n := c.ints.getD 0 0
      let (_, _, a1) := opinionAt xs 0 n
      let (_, _, a) := opinionAt out 0 n
      if c.cls != "ok" then some ["C16.no_value"] else
      some (check "C16.bare_simplex_keeps_base_rate" (a == a1))
    | _, _ => none
  | _ => if c.cls == "ok" || c.cls == "none" || c.cls == "panic" || c.cls == "err" then some [] else none

/-- multi-dimensional container families (`M2`, `D3`, …): the last two flags of an `ok` result are `it` (iterating the
    result's containers visits the cells the index operator gives, in row-major order) and `eq` (the result is `==` to a
    container built independently from the values read through the index operator) -/
def ndClauses (c : Case) : List String :=
  let f := c.variant.getD 0 ""
  if !(f.length == 2 && (f.endsWith "2" || f.endsWith "3")) || c.cls != "ok" then [] else
  let k := c.flags.length
  check (c.prop ++ ".container_iteration_is_index_order") (k ≥ 2 && c.flags.getD (k - 2) false)
    ++ check (c.prop ++ ".container_eq_rebuilt") (k ≥ 2 && c.flags.getD (k - 1) false)

/-- variant token `acc` (`umax`, `fuse`): after the scalars of an `ok` result the harness reports what the crate's own checked
    constructors say -- `umax`: operand accepted by `Opinion::try_new`, result accepted by `Simplex::try_new`; `fuse`: both
    operands accepted by `Opinion::try_new`, the result's simplex accepted by `Simplex::try_new`, the whole result accepted by
    `Opinion::try_new`.  Required whenever the operands were accepted (whatever their exact sums are: this clause has no
    stated-domain filter of its own): C09 the maximised simplex is accepted; C02 the simplex of the ECm fusion is accepted, and so is
    the whole fused opinion when the operands have the same base-rate VALUES (one shared object, the same object twice, or equal
    entries: the fused base rate is then the operands' own).  With different base rates `compute_base_rate` returns an
    un-normalised mixture whose float sum can leave the accepted band by rounding when the operands' sums sit at its edges
    (e.g. 1+3ε and 1-2ε give 1-2.5ε): that is not the maximisation's business and is not required here. -/
def accClauses (c : Case) : Option (List String) :=
  if !(c.variant.contains "acc") || c.cls != "ok" then none else
  -- conditional reasoning (repair 9ec2d8b): on EXACTLY well-formed operands the value(s) returned by deduce / deduce_with /
  -- deduce2, inverse, abduce / abduce_with (and merge) are accepted by the crate's own checked constructors.  The flag is
  -- the LAST one of the answer.  Domain sizes of the harness: results over at most 4 values (merge: 3), where the validators'
  -- re-summation residue cannot leave the 4-ulp band.
  if c.prop == "C04" && (c.op == "deduce" || c.op == "deduce_with" || c.op == "deduce2") then
    let (n, m) := if c.op == "deduce2" then (c.ints.getD 0 0 * c.ints.getD 1 0, c.ints.getD 2 0)
                  else (c.ints.getD 0 0, c.ints.getD 1 0)
    if m > 8 then none else
    match allSome c.inp with
    | none => none
    | some xs =>
    let (bx, ux, ax) := opinionAt xs 0 n
    let cs := condAt xs (2 * n + 1) n m
    let fb := slice xs (2 * n + 1 + n * (m + 1)) m
    if !(wfOpinion 0 bx ux ax && condWf 0 cs && (c.op == "deduce" || wfBaseRate 0 fb)) then none else
    if c.flags.isEmpty then some ["C04.acc_flags_missing"] else
    some (check "C04.result_accepted_by_constructor" (c.flags.getLast? == some true))
  else if c.prop == "C05" && (c.op == "inverse" || c.op == "abduce" || c.op == "abduce_with") then
    let n := c.ints.getD 0 0
    let m := c.ints.getD 1 0
    if n > 8 || m > 8 then none else
    match allSome c.inp with
    | none => none
    | some xs =>
    if c.op == "inverse" then
      let cs := condAt xs 0 n m
      let ax := slice xs (n * (m + 1)) n
      let ay := slice xs (n * (m + 1) + n) m
      if !(condWf 0 cs && wfBaseRate 0 ax && wfBaseRate 0 ay && ax.all (fun v => decide (0 < v))) then none else
      if c.flags.isEmpty then some ["C05.acc_flags_missing"] else
      some (check "C05.inverse_accepted_by_constructor" (c.flags.getLast? == some true))
    else
      let sb := slice xs 0 m
      let su := xs.getD m 0
      let cs := condAt xs (2 * m + 1) n m
      let ax := slice xs (2 * m + 1 + n * (m + 1)) n
      let ay := slice xs (2 * m + 1 + n * (m + 1) + n) m
      if !(wfSimplex 0 sb su && condWf 0 cs && wfBaseRate 0 ax && ax.all (fun v => decide (0 < v))
            && (c.op == "abduce" || wfBaseRate 0 ay)) then none else
      if c.flags.isEmpty then some ["C05.acc_flags_missing"] else
      some (check "C05.abduce_accepted_by_constructor" (c.flags.getLast? == some true))
  else if c.prop == "C11" && c.op == "merge" then
    let n1 := c.ints.getD 0 0
    let n2 := c.ints.getD 1 0
    let m := c.ints.getD 2 0
    if n1 * n2 > 8 then none else
    match allSome c.inp with
    | none => none
    | some xs =>
    let c1 := condAt xs 0 n1 m
    let c2 := condAt xs (n1 * (m + 1)) n2 m
    let o := n1 * (m + 1) + n2 * (m + 1)
    let ax1 := slice xs o n1
    let ax2 := slice xs (o + n1) n2
    let ay := slice xs (o + n1 + n2) m
    if !(condWf 0 c1 && condWf 0 c2 && wfBaseRate 0 ax1 && wfBaseRate 0 ax2 && wfBaseRate 0 ay
          && ax1.all (fun v => decide (0 < v)) && ax2.all (fun v => decide (0 < v)) && ay.all (fun v => decide (0 < v))) then none else
    if c.flags.isEmpty then some ["C11.acc_flags_missing"] else
    some (check "C11.cell_accepted_by_constructor" (c.flags.getLast? == some true))
  else
  -- claimed for domains of at most 8 cells: after the final normalisation the re-summed masses of a 12-cell domain miss the
  -- 4-ulp band by plain rounding (sum = 1 - 2.5 eps) in about 20-60 cases per million, 8 cells: about 2 per million, fewer: none seen
  if c.ints.getD 0 0 > 8 then none else
  if c.prop == "C09" && c.op == "umax" then
    if c.flags.length < 2 then some ["C09.acc_flags_missing"] else
    if !(c.flags.getD 0 false) then none else
    some (check "C09.maximized_accepted_by_constructor" (c.flags.getD 1 false))
  else if c.prop == "C02" && c.op == "fuse" && c.ints.getD 1 0 == 1 then
    if c.flags.length < 3 then some ["C02.acc_flags_missing"] else
    if !(c.flags.getD 0 false) then none else
    let n := c.ints.getD 0 0
    let sameA := c.ints.getD 2 0 == 1 || c.variant.contains "alias" ||
      (match allSome c.inp with
        | some xs => (opinionAt xs 0 n).2.2 == (opinionAt xs (2 * n + 1) n).2.2
        | none => false)
    some (check "C02.ecm_result_accepted_by_constructor" (c.flags.getD 1 false && (c.flags.getD 2 false || !sameA)))
  else none

/-- STRICT sign clauses (repair 8520ade: `uncertainty_maximized` clamps the rounding residue of `p[i] - a[i]*u_max` at zero before
    `Simplex::normalized`).  Evaluated on the exact rationals decoded from the output bits, NO tolerance:
    * `C09.max_masses_nonneg`: on every `ok`, finite result of `umax` every belief mass is `≥ 0` and the uncertainty is in `[0, 1]`;
    * `C02.ecm_masses_nonneg` / `C03.ecm_masses_nonneg`: the same for the simplex of every `ok`, finite epistemic cumulative fusion.
    Operand class: every operand entry (masses, uncertainty, base rate) is finite and `≥ 0` exactly, for fusion also both
    uncertainties `≤ 1`; NO condition on any sum and none on the guard bands.  There the clause holds by construction in floating
    point: projections `(b + a u)/Σ` are `≥ 0`, hence `u_max = min(1, p/a ..) ≥ 0`; the clamped masses are `≥ 0`; their total
    with `u_max` is `≥ u_max` by monotone rounding, so a finite quotient is in `[0, 1]` (`C09_maximized_masses_nonneg_gen`,
    `C02_ecm_masses_nonneg_gen` are the statements at the exact semantics).  An operand mass in `[-ε, 0)`, which the constructors
    tolerate, makes `u_max` (not clamped) negative: such operands are outside the class.  Before the repair the residue `-ε/4`
    was returned by 0.4-3 % of ECm fusions on dyadic / decimal grids.

    Products (repair b817f74: all four product bodies clamp every joint belief mass `p[d] - a[d]*u` at zero): clause
    `C06.masses_nonneg`, under the other properties that run products (C15, C16, C19) `<prop>.prod_masses_nonneg`.  On every `ok` answer
    of `prod2` / `prod3` all of whose operand and output scalars are finite:
    * every joint belief mass is `≥ 0` — for ALL such operands: the clamp returns `+0`, the un-negative value itself (`-0.0` decodes
      to the rational 0) or NaN (then the output is not finite and the clause is not evaluated); the unlabelled family passes the
      masses through `Opinion::new` unchanged, the labelled families through `Opinion::normalized`, which renormalises the base rate
      only (`C06_product_masses_nonneg_gen`, `…3` are the statements at the exact semantics);
    * when moreover every operand scalar is `≥ 0` exactly and every operand uncertainty `≤ 1`: the joint uncertainty is `≥ 0` — it is
      the least (`min` skips NaN) of the candidates `u0 (r1 + u1) + r0 u1`, `r = b / a` on cells with `a0 a1 > 0`, sums of products
      of non-negative floats (`C06_uncertainty_nonneg_gen`).  No condition on any sum, none on the guard bands.
    For the labelled families this clause is the only one that sees a negative residue (the tolerance of `C06.wf` is far above ε; the
    unlabelled family panics in `Opinion::new` instead: `C19.rejected_rounding_residue(b[])`).  Before the repair the residue was
    `-1.5 ε .. -4.5 ε` on 1 in 12 000 products with a vacuous factor, 1 in 3000 with a nearly vacuous one
    (gen/corpus/prodclamp_hot.txt, `G.vacuous_factor_product`). -/
def signClauses (c : Case) : Option (List String) :=
  if c.cls != "ok" then none else
  match allSome c.inp, allSome c.out with
  | some xs, some out =>
    let n := c.ints.getD 0 0
    let nn (l : List Rat) : Bool := l.all fun v => decide (0 ≤ v)
    let resOk (b' : List Rat) (u' : Rat) : Bool := nn b' && decide (0 ≤ u') && decide (u' ≤ 1)
    if c.prop == "C09" && c.op == "umax" then
      if xs.size != 2 * n + 1 || out.size != n + 1 then none else
      let (b, u, a) := opinionAt xs 0 n
      if !(nn b && decide (0 ≤ u) && nn a) then none else
      some (check "C09.max_masses_nonneg" (resOk (slice out 0 n) (out.getD n 0)))
    else if (c.prop == "C02" || c.prop == "C03") && (c.op == "fuse" || c.op == "fuse_os") && c.ints.getD 1 0 == 1 then
      let isOS := c.op == "fuse_os"
      if xs.size != (if isOS then 3 * n + 2 else 4 * n + 2) || out.size != 2 * n + 1 then none else
      let (b1, u1, a1) := opinionAt xs 0 n
      let (b2, u2, a2) :=
        if isOS then (slice xs (2 * n + 1) n, xs.getD (3 * n + 1) 0, a1) else opinionAt xs (2 * n + 1) n
      if !(nn b1 && nn a1 && nn b2 && nn a2 && decide (0 ≤ u1) && decide (u1 ≤ 1) && decide (0 ≤ u2) && decide (u2 ≤ 1)) then none else
      some (check (c.prop ++ ".ecm_masses_nonneg") (resOk (slice out 0 n) (out.getD n 0)))
    else if c.op == "prod2" || c.op == "prod3" then
      let k := if c.op == "prod2" then 2 else 3
      let dims := (List.range k).map fun i => c.ints.getD i 0
      let N := dims.foldl (· * ·) 1
      let total := (dims.map fun d => 2 * d + 1).foldl (· + ·) 0
      if xs.size != total || out.size != 2 * N + 1 then none else
      let name := if c.prop == "C06" then "C06.masses_nonneg" else c.prop ++ ".prod_masses_nonneg"
      let offs := (List.range k).map fun i => (((List.range i).map fun j => 2 * dims.getD j 0 + 1).foldl (· + ·) 0)
      let ops := (List.range k).map fun i => opinionAt xs (offs.getD i 0) (dims.getD i 0)
      let opsNonneg := ops.all fun w => nn w.1 && decide (0 ≤ w.2.1) && decide (w.2.1 ≤ 1) && nn w.2.2
      some (check name (nn (slice out 0 N) && (!opsNonneg || decide (0 ≤ out.getD N 0))))
    else none
  | _, _ => none

def oracleProp (c : Case) : Option (List String) :=
  match c.prop with
  | "C07" => oracleC07 c
  | "C16" => oracleC16 c
  | "C01" => oracleC01 c
  | "C04" => oracleC04 c
  | "C06" => oracleC06 c
  | "C10" => oracleC10 c
  | "C13" => oracleC13 c
  | "C19" => oracleC19 c
  | "C20" => oracleC20 c
  | "C05" => oracleC05 c
  | "C11" => oracleC11 c
  | "C08" => oracleC08 c
  | "C02" => oracleFuse c false
  | "C03" => oracleFuse c true
  | "C09" => oracleC09 c
  | "C12" => oracleC12 c
  | "C14" => oracleC14 c
  | _ => none

def oracle (c : Case) : Option (List String) :=
  let r := match accClauses c, oracleProp c with
    | none, r => r
    | some fs, some r => some (fs ++ r)
    | some fs, none => some fs
  let r := match signClauses c, r with
    | none, r => r
    | some fs, some r => some (fs ++ r)
    | some fs, none => some fs
  match ndClauses c, r with
  | [], r => r
  | fs, some r => some (fs ++ r)
  | fs, none => some fs

end SLV.Oracle
