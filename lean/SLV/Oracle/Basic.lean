/-
  Executable predicates over exact rationals, shared by the theorem statements (SLV/Props)
  and by the driver, which evaluates them on the IMPLEMENTATION's outputs.
-/
import SLV.Num.XQ
namespace SLV.Oracle

def absQ (q : Rat) : Rat := if q < 0 then -q else q
def sumQ (l : List Rat) : Rat := l.foldl (· + ·) 0
def minQ (a b : Rat) : Rat := if a ≤ b then a else b
def maxQ (a b : Rat) : Rat := if a ≤ b then b else a

/-- belief masses ≥ -δ, u ∈ [-δ, 1+δ], |Σb + u − 1| ≤ δ -/
def wfSimplex (δ : Rat) (b : List Rat) (u : Rat) : Bool :=
  b.all (fun x => decide (-δ ≤ x)) && decide (-δ ≤ u) && decide (u ≤ 1 + δ)
    && decide (absQ (sumQ b + u - 1) ≤ δ)

/-- base-rate entries ≥ -δ, |Σa − 1| ≤ δ -/
def wfBaseRate (δ : Rat) (a : List Rat) : Bool :=
  a.all (fun x => decide (-δ ≤ x)) && decide (absQ (sumQ a - 1) ≤ δ)

def wfOpinion (δ : Rat) (b : List Rat) (u : Rat) (a : List Rat) : Bool :=
  wfSimplex δ b u && wfBaseRate δ a

def closeQ (τ : Rat) (x y : Rat) : Bool := decide (absQ (x - y) ≤ τ)

def closeList (τ : Rat) : List Rat → List Rat → Bool
  | [], [] => true
  | x :: xs, y :: ys => closeQ τ x y && closeList τ xs ys
  | _, _ => false

/-- projected probabilities b_i + a_i u (no renormalisation) -/
def projQ (b : List Rat) (u : Rat) (a : List Rat) : List Rat :=
  List.zipWith (fun bi ai => bi + ai * u) b a

/-- largest uncertainty compatible with the projection: min(1, min_{a_i>0} P_i / a_i) -/
def maxUQ (b : List Rat) (u : Rat) (a : List Rat) : Rat :=
  (List.zip (projQ b u a) a).foldl
    (fun acc pa => if pa.2 > 0 then minQ acc (pa.1 / pa.2) else acc) 1

/-- tolerance for identities checked on implementation outputs -/
def tauSpec (f : SLV.Fmt) : Rat := match f with
  | .f64 => 1 / ((2 ^ 40 : Nat) : Rat)
  | .f32 => 1 / ((2 ^ 14 : Nat) : Rat)

end SLV.Oracle
