/-
  C19 — Self-validating operators never reject a correctly rounded result.
  "Operators that validate their own output (every binomial operator and the products over unlabelled
   arrays) do not fail, by panic or by error value, on well-formed operands inside their documented
   domain: a failure is legitimate only when the mathematically exact result is itself ill-formed or
   undefined (e.g. cumulative fusion of two dogmatic opinions), never because floating-point rounding
   left the sum of masses a few ulps away from 1."

  WHAT IS PROVED.  Rounding is not modelled by the exact semantics `XQ f`; what Lean decides is the
  CLASSIFICATION of failures:
    (1) on the exact semantics every self-validating operator SUCCEEDS (`= .ok …`, closed form stated)
        on well-formed operands of its documented domain — `C19_*_exact_ok`;
    (2) the exact model FAILS (`= .error …`) exactly in the listed legitimate cases — `C19_*_legit_failure`,
        summary `C19_legit_failures`.
  Consequently every failure of the implementation on an operand tuple covered by (1) is illegitimate:
  it can only come from rounding residue.
    (3) `mul` / `comul` (renormalised since repair d46c983) SUCCEED, with a result that adds up to exactly 1, on operands with
        non-negative masses WHATEVER their sums -- in particular on operands that are well-formed only within the
        constructors' tolerance, such as the floating-point values of earlier calls -- `C19_mul_tolerated_ok`,
        `C19_comul_tolerated_ok` (section 1b): the operands' own deviation from 1 no longer reaches the self-check.

  The clause "on exactly representable (dyadic) operands the binomial operators never fail at all" is
  likewise a statement about the floating-point computation; it is measured by the check (exhaustive
  1/8 grid, random dyadic grids), not proved.

  NOT PROVED: that the binary32 / binary64 computation's residue stays inside the 4-ulp self-check
  (rounding is not modelled); that clause is explored by the check, each failure classified through the
  hook (rejected label and value: residue ⇒ "rounding residue", else "ill-formed result").

  All statements are about the executable model (`BOp.mul/comul/cfuse/afuse/wfuse/deduce/transUnc/
  transBsr/transOpp` in SLV/Model/Bi.lean ≙ src/bi.rs; `product2U/product3U` in SLV/Model/Prod.lean ≙
  src/mul/non_labeled.rs) at the exact semantics `XQ f`, on lifted rational operands
  `bop b d u a = ⟨fin b, fin d, fin u, fin a⟩`.  `.ok` ≙ the Rust call returns, `.error l` ≙ the checked
  constructor inside the operator rejects with label `l` (the `unwrap()` panics / `Err` is returned).
  `ε = f.eps`;  `GD f u :⇔ |u| ≤ ε` is `is_zero(u)`, `GV f u :⇔ 1-2ε ≤ u ≤ 1+4ε` is `is_one(u)`.

  Binomial fusion, x = (b₁,d₁,u₁;a₁), y = (b₂,d₂,u₂;a₂) (src/bi.rs; since repair df72a91 each operator divides the masses
  below by their sum s = b + d + u, which is 1 on exactly well-formed operands except in the both-is_zero arm, where
  s = 1 - (γu₁+(1-γ)u₂)):
    cfuse:  κ = u₁+u₂-u₁u₂;  b = (b₁u₂+b₂u₁)/κ, d alike, u = u₁u₂/κ;
            a = (a₁+a₂)/2                                              if is_one u₁ ∧ is_one u₂
              = (a₁u₂(1-u₁)+a₂u₁(1-u₂)) / (u₂(1-u₁)+u₁(1-u₂))          otherwise
    afuse:  (γb₁+(1-γ)b₂, γd₁+(1-γ)d₂, 0; γa₁+(1-γ)a₂)                  if is_zero u₁ ∧ is_zero u₂
            ((b₁u₂+b₂u₁)/(u₁+u₂), d alike, 2u₁u₂/(u₁+u₂); (a₁+a₂)/2)    otherwise
    wfuse:  as afuse                                                   if is_zero u₁ ∧ is_zero u₂
            (0,0,1; (a₁+a₂)/2)                                          else if is_one u₁ ∧ is_one u₂
            D = (1-u₁)u₂+(1-u₂)u₁; b = (b₁(1-u₁)u₂+b₂(1-u₂)u₁)/D, d alike,
            u = ((1-u₁)+(1-u₂))u₁u₂/D; a = (a₁(1-u₁)+a₂(1-u₂))/((1-u₁)+(1-u₂))   otherwise
-/
import SLV.Props.C06
import SLV.Props.C12
import SLV.Props.C14
import SLV.Refine.C19Lemmas

namespace SLV.Props.C19
open SLV Scalar
open SLV.Props.C10 (BWF)
open SLV.Props.C09 (WF)
open SLV.Props.C12 (bop)
open SLV.C19

variable {f : Fmt}
variable {b₁ d₁ u₁ a₁ b₂ d₂ u₂ a₂ γ : ℚ}

/-! ### 1. multiplication / comultiplication (from C12) -/

/-- `mul` of well-formed operands whose base rates are not both 1 is accepted, with the closed form -/
theorem C19_mul_exact_ok (h₁ : BWF b₁ d₁ u₁ a₁) (h₂ : BWF b₂ d₂ u₂ a₂) (hne : ¬ (a₁ = 1 ∧ a₂ = 1)) :
    BOp.mul (bop b₁ d₁ u₁ a₁ : BOp (XQ f)) (bop b₂ d₂ u₂ a₂)
      = .ok (bop
          (b₁ * b₂ + ((1 - a₁) * a₂ * b₁ * u₂ + (1 - a₂) * a₁ * b₂ * u₁) / (1 - a₁ * a₂))
          (d₁ + d₂ - d₁ * d₂)
          (u₁ * u₂ + ((1 - a₂) * b₁ * u₂ + (1 - a₁) * b₂ * u₁) / (1 - a₁ * a₂))
          (a₁ * a₂)) :=
  C12.C12_mul_ok h₁ h₂ ((C12.C12_mul_domain h₁ h₂).1.mpr hne)

/-- `comul` of well-formed operands whose base rates are not both 0 is accepted, with the closed form -/
theorem C19_comul_exact_ok (h₁ : BWF b₁ d₁ u₁ a₁) (h₂ : BWF b₂ d₂ u₂ a₂) (hne : ¬ (a₁ = 0 ∧ a₂ = 0)) :
    BOp.comul (bop b₁ d₁ u₁ a₁ : BOp (XQ f)) (bop b₂ d₂ u₂ a₂)
      = .ok (bop
          (b₁ + b₂ - b₁ * b₂)
          (d₁ * d₂ + (a₁ * (1 - a₂) * d₁ * u₂ + a₂ * (1 - a₁) * d₂ * u₁) / (a₁ + a₂ - a₁ * a₂))
          (u₁ * u₂ + (a₂ * d₁ * u₂ + a₁ * d₂ * u₁) / (a₁ + a₂ - a₁ * a₂))
          (a₁ + a₂ - a₁ * a₂)) :=
  C12.C12_comul_ok h₁ h₂ ((C12.C12_comul_domain h₁ h₂).1.mpr hne)

/-- legitimate failure: both base rates 1 — the exact belief correction is `0/0`, the result is
    undefined and the model rejects it (any rational masses) -/
theorem C19_mul_legit_failure (b₁ d₁ u₁ b₂ d₂ u₂ : ℚ) :
    BOp.mul (bop b₁ d₁ u₁ 1 : BOp (XQ f)) (bop b₂ d₂ u₂ 1) = .error .bdu :=
  (C12.C12_domain_excluded b₁ d₁ u₁ b₂ d₂ u₂).1

/-- legitimate failure (dual): both base rates 0 -/
theorem C19_comul_legit_failure (b₁ d₁ u₁ b₂ d₂ u₂ : ℚ) :
    BOp.comul (bop b₁ d₁ u₁ 0 : BOp (XQ f)) (bop b₂ d₂ u₂ 0) = .error .bdu :=
  (C12.C12_domain_excluded b₁ d₁ u₁ b₂ d₂ u₂).2

/-! ### 1b. operands that are well-formed only within the constructors' tolerance (repair d46c983)

  Since repair d46c983 `mul` / `comul` (and `deduce`) divide their three masses by `s = b + d + u` before the self-check, as the
  fusions do since df72a91.  On exactly well-formed operands `s = 1` (`C12.C12_mul_sum`, `C12.C12_comul_sum`) and nothing
  changes; on operands whose masses add up to `1 + δ` (the constructors accept `-2ε ≤ δ ≤ 4ε`, and the operators themselves
  return such values in floating point) the un-normalised result added up to `1 + δ₁(1-d₂) + δ₂(1-d₁) + δ₁δ₂`: the operands'
  deviation was handed to the self-check almost undamped and a chain `(x·y)·z` rejected its own intermediate result
  (`SLV.Props.Pinned.C12_pinned_*_decimal_panics` for the rounding part).  Now the exact result adds up to exactly 1 for ANY
  non-negative operands: -/

/-- `mul` of operands with non-negative masses (disbeliefs at most 2, which covers the constructors' tolerance), base rates in
    [0,1] not both 1, whatever their sums (the normaliser `S = (b₁+u₁)(b₂+u₂) + d₁+d₂-d₁d₂` must be positive: not both operands
    all-zero), is accepted; the result is the closed form divided by `S`, it is well-formed and adds up to exactly 1 -/
theorem C19_mul_tolerated_ok (hb₁ : 0 ≤ b₁) (hd₁ : 0 ≤ d₁) (hd₁' : d₁ ≤ 2) (hu₁ : 0 ≤ u₁) (ha₁ : 0 ≤ a₁) (ha₁' : a₁ ≤ 1)
    (hb₂ : 0 ≤ b₂) (hd₂ : 0 ≤ d₂) (hd₂' : d₂ ≤ 2) (hu₂ : 0 ≤ u₂) (ha₂ : 0 ≤ a₂) (ha₂' : a₂ ≤ 1)
    (hne : ¬ (a₁ = 1 ∧ a₂ = 1)) (hS : 0 < (b₁ + u₁) * (b₂ + u₂) + d₁ + d₂ - d₁ * d₂) :
    BOp.mul (bop b₁ d₁ u₁ a₁ : BOp (XQ f)) (bop b₂ d₂ u₂ a₂)
      = .ok (bop
          ((b₁ * b₂ + ((1 - a₁) * a₂ * b₁ * u₂ + (1 - a₂) * a₁ * b₂ * u₁) / (1 - a₁ * a₂))
            / ((b₁ + u₁) * (b₂ + u₂) + d₁ + d₂ - d₁ * d₂))
          ((d₁ + d₂ - d₁ * d₂) / ((b₁ + u₁) * (b₂ + u₂) + d₁ + d₂ - d₁ * d₂))
          ((u₁ * u₂ + ((1 - a₂) * b₁ * u₂ + (1 - a₁) * b₂ * u₁) / (1 - a₁ * a₂))
            / ((b₁ + u₁) * (b₂ + u₂) + d₁ + d₂ - d₁ * d₂))
          (a₁ * a₂)) ∧
    BWF ((b₁ * b₂ + ((1 - a₁) * a₂ * b₁ * u₂ + (1 - a₂) * a₁ * b₂ * u₁) / (1 - a₁ * a₂))
            / ((b₁ + u₁) * (b₂ + u₂) + d₁ + d₂ - d₁ * d₂))
      ((d₁ + d₂ - d₁ * d₂) / ((b₁ + u₁) * (b₂ + u₂) + d₁ + d₂ - d₁ * d₂))
      ((u₁ * u₂ + ((1 - a₂) * b₁ * u₂ + (1 - a₁) * b₂ * u₁) / (1 - a₁ * a₂))
            / ((b₁ + u₁) * (b₂ + u₂) + d₁ + d₂ - d₁ * d₂))
      (a₁ * a₂) := by
  have hne' : a₁ * a₂ ≠ 1 := fun h => hne ((C12.mul_eq_one_iff ha₁ ha₁' ha₂ ha₂').mp h)
  have hk := C12.mul_den_pos ha₁ ha₁' ha₂ ha₂' hne'
  have h1a₁ := sub_nonneg.mpr ha₁'
  have h1a₂ := sub_nonneg.mpr ha₂'
  have hB : 0 ≤ b₁ * b₂ + ((1 - a₁) * a₂ * b₁ * u₂ + (1 - a₂) * a₁ * b₂ * u₁) / (1 - a₁ * a₂) := by positivity
  have hU : 0 ≤ u₁ * u₂ + ((1 - a₂) * b₁ * u₂ + (1 - a₁) * b₂ * u₁) / (1 - a₁ * a₂) := by positivity
  have hD : 0 ≤ d₁ + d₂ - d₁ * d₂ := by
    nlinarith [mul_nonneg hd₁ (sub_nonneg.mpr hd₂'), mul_nonneg (sub_nonneg.mpr hd₁') hd₂]
  have hsum := (C12.C12_mul_sum (b₁ := b₁) (d₁ := d₁) (u₁ := u₁) (a₁ := a₁) (b₂ := b₂) (d₂ := d₂) (u₂ := u₂) (a₂ := a₂) hne').1
  have w : BWF ((b₁ * b₂ + ((1 - a₁) * a₂ * b₁ * u₂ + (1 - a₂) * a₁ * b₂ * u₁) / (1 - a₁ * a₂))
            / ((b₁ + u₁) * (b₂ + u₂) + d₁ + d₂ - d₁ * d₂))
      ((d₁ + d₂ - d₁ * d₂) / ((b₁ + u₁) * (b₂ + u₂) + d₁ + d₂ - d₁ * d₂))
      ((u₁ * u₂ + ((1 - a₂) * b₁ * u₂ + (1 - a₁) * b₂ * u₁) / (1 - a₁ * a₂))
            / ((b₁ + u₁) * (b₂ + u₂) + d₁ + d₂ - d₁ * d₂))
      (a₁ * a₂) := by
    refine ⟨div_nonneg hB hS.le, div_nonneg hD hS.le, div_nonneg hU hS.le, ?_, mul_nonneg ha₁ ha₂,
      C12.mul_le_one_of_unit ha₁ ha₁' ha₂ ha₂'⟩
    rw [← add_div, ← add_div, hsum, div_self hS.ne']
  refine ⟨?_, w⟩
  rw [C12.C12_mul_lift_gen hne' hS.ne']
  exact BOp.tryNew_fin_ok w.hb w.hd w.hu w.hs w.ha0 w.ha1

/-- the dual statement for `comul` (beliefs at most 2, base rates not both 0, normaliser
    `S = (d₁+u₁)(d₂+u₂) + b₁+b₂-b₁b₂ > 0`) -/
theorem C19_comul_tolerated_ok (hb₁ : 0 ≤ b₁) (hb₁' : b₁ ≤ 2) (hd₁ : 0 ≤ d₁) (hu₁ : 0 ≤ u₁) (ha₁ : 0 ≤ a₁) (ha₁' : a₁ ≤ 1)
    (hb₂ : 0 ≤ b₂) (hb₂' : b₂ ≤ 2) (hd₂ : 0 ≤ d₂) (hu₂ : 0 ≤ u₂) (ha₂ : 0 ≤ a₂) (ha₂' : a₂ ≤ 1)
    (hne : ¬ (a₁ = 0 ∧ a₂ = 0)) (hS : 0 < (d₁ + u₁) * (d₂ + u₂) + b₁ + b₂ - b₁ * b₂) :
    BOp.comul (bop b₁ d₁ u₁ a₁ : BOp (XQ f)) (bop b₂ d₂ u₂ a₂)
      = .ok (bop
          ((b₁ + b₂ - b₁ * b₂) / ((d₁ + u₁) * (d₂ + u₂) + b₁ + b₂ - b₁ * b₂))
          ((d₁ * d₂ + (a₁ * (1 - a₂) * d₁ * u₂ + a₂ * (1 - a₁) * d₂ * u₁) / (a₁ + a₂ - a₁ * a₂))
            / ((d₁ + u₁) * (d₂ + u₂) + b₁ + b₂ - b₁ * b₂))
          ((u₁ * u₂ + (a₂ * d₁ * u₂ + a₁ * d₂ * u₁) / (a₁ + a₂ - a₁ * a₂))
            / ((d₁ + u₁) * (d₂ + u₂) + b₁ + b₂ - b₁ * b₂))
          (a₁ + a₂ - a₁ * a₂)) ∧
    BWF ((b₁ + b₂ - b₁ * b₂) / ((d₁ + u₁) * (d₂ + u₂) + b₁ + b₂ - b₁ * b₂))
      ((d₁ * d₂ + (a₁ * (1 - a₂) * d₁ * u₂ + a₂ * (1 - a₁) * d₂ * u₁) / (a₁ + a₂ - a₁ * a₂))
            / ((d₁ + u₁) * (d₂ + u₂) + b₁ + b₂ - b₁ * b₂))
      ((u₁ * u₂ + (a₂ * d₁ * u₂ + a₁ * d₂ * u₁) / (a₁ + a₂ - a₁ * a₂))
            / ((d₁ + u₁) * (d₂ + u₂) + b₁ + b₂ - b₁ * b₂))
      (a₁ + a₂ - a₁ * a₂) := by
  have hne' : a₁ + a₂ - a₁ * a₂ ≠ 0 := fun h => hne ((C12.comul_eq_zero_iff ha₁ ha₁' ha₂ ha₂').mp h)
  have hk := C12.comul_den_pos ha₁ ha₁' ha₂ hne'
  have h1a₁ := sub_nonneg.mpr ha₁'
  have h1a₂ := sub_nonneg.mpr ha₂'
  have hD : 0 ≤ d₁ * d₂ + (a₁ * (1 - a₂) * d₁ * u₂ + a₂ * (1 - a₁) * d₂ * u₁) / (a₁ + a₂ - a₁ * a₂) := by positivity
  have hU : 0 ≤ u₁ * u₂ + (a₂ * d₁ * u₂ + a₁ * d₂ * u₁) / (a₁ + a₂ - a₁ * a₂) := by positivity
  have hB : 0 ≤ b₁ + b₂ - b₁ * b₂ := by
    nlinarith [mul_nonneg hb₁ (sub_nonneg.mpr hb₂'), mul_nonneg (sub_nonneg.mpr hb₁') hb₂]
  have hsum := (C12.C12_comul_sum (b₁ := b₁) (d₁ := d₁) (u₁ := u₁) (a₁ := a₁) (b₂ := b₂) (d₂ := d₂) (u₂ := u₂) (a₂ := a₂) hne').1
  have w : BWF ((b₁ + b₂ - b₁ * b₂) / ((d₁ + u₁) * (d₂ + u₂) + b₁ + b₂ - b₁ * b₂))
      ((d₁ * d₂ + (a₁ * (1 - a₂) * d₁ * u₂ + a₂ * (1 - a₁) * d₂ * u₁) / (a₁ + a₂ - a₁ * a₂))
            / ((d₁ + u₁) * (d₂ + u₂) + b₁ + b₂ - b₁ * b₂))
      ((u₁ * u₂ + (a₂ * d₁ * u₂ + a₁ * d₂ * u₁) / (a₁ + a₂ - a₁ * a₂))
            / ((d₁ + u₁) * (d₂ + u₂) + b₁ + b₂ - b₁ * b₂))
      (a₁ + a₂ - a₁ * a₂) := by
    refine ⟨div_nonneg hB hS.le, div_nonneg hD hS.le, div_nonneg hU hS.le, ?_, hk.le,
      C12.comul_den_le_one ha₁' ha₂'⟩
    rw [← add_div, ← add_div, hsum, div_self hS.ne']
  refine ⟨?_, w⟩
  rw [C12.C12_comul_lift_gen hne' hS.ne']
  exact BOp.tryNew_fin_ok w.hb w.hd w.hu w.hs w.ha0 w.ha1

/-- non-vacuity: operands whose masses add up to `1 - 2ε` and `1 + 4ε` (the ends of the constructors' window) -/
example : (0 : ℚ) < (1/2 + (1/4 - 2 * Fmt.eps .f64)) * (1/4 + (1/2 + 4 * Fmt.eps .f64)) + 1/4 + 1/4 - 1/4 * (1/4) := by
  norm_num [Fmt.eps, Fmt.mant]

/-! ### 2. deduction (from C14) -/

/-- on its open domain `Dom14` (antecedent well-formed with `0 < a < 1`, `0 < P(x) < 1`; conditionals
    well-formed; `0 < ay < 1`) `deduce` is accepted, with the closed form, which is well-formed -/
theorem C19_deduce_exact_ok {b d u a b0 d0 u0 b1 d1 u1 ay : ℚ}
    (h : Dom14 b d u a b0 d0 u0 b1 d1 u1 ay) :
    (BOp.deduce (liftB (f := f) b d u a) (liftS b0 d0 u0) (liftS b1 d1 u1) (XQ.fin ay)).1
      = .ok (liftB (mixq b d u a b0 b1 - ay * Kq u a b0 d0 b1 d1 ay)
          (mixq b d u a d0 d1 - (1 - ay) * Kq u a b0 d0 b1 d1 ay)
          (mixq b d u a u0 u1 + Kq u a b0 d0 b1 d1 ay) ay) ∧
    BWF (mixq b d u a b0 b1 - ay * Kq u a b0 d0 b1 d1 ay)
      (mixq b d u a d0 d1 - (1 - ay) * Kq u a b0 d0 b1 d1 ay)
      (mixq b d u a u0 u1 + Kq u a b0 d0 b1 d1 ay) ay :=
  ⟨C14.C14_closed_form h, (C14.C14_wf h).1⟩

/-! ### 3. trust discounting (from C10) -/

/-- the three binomial discounts are accepted on a well-formed opinion and arguments in their domain
    (`t ∈ [0,1]`; trust / distrust `tb, td ≥ 0`, `tb + td ≤ 1`), with the closed forms -/
theorem C19_trans_exact_ok {b d u a : ℚ} (h : BWF b d u a) :
    (∀ t : ℚ, 0 ≤ t → t ≤ 1 →
      BOp.transUnc (bop b d u a : BOp (XQ f)) (XQ.fin t)
        = .ok (bop (t * b) (t * d) (1 - t + t * u) a)) ∧
    (∀ t : ℚ, 0 ≤ t → t ≤ 1 →
      BOp.transBsr (bop b d u a : BOp (XQ f)) (XQ.fin t)
        = .ok (bop (t * b) (t * d) (1 - t * (b + d)) a)) ∧
    (∀ tb td : ℚ, 0 ≤ tb → 0 ≤ td → tb + td ≤ 1 →
      BOp.transOpp (bop b d u a : BOp (XQ f)) (XQ.fin tb) (XQ.fin td)
        = .ok (bop (tb * b + td * d) (tb * d + td * b) ((1 - tb - td) + (tb + td) * u) a)) :=
  ⟨fun _ h0 h1 => C10.C10_trans_unc_ok h h0 h1, fun _ h0 h1 => C10.C10_trans_bsr_ok h h0 h1,
    fun _ _ hb hd hs => C10.C10_trans_opp_ok h hb hd hs⟩

/-- legitimate failure: a discount argument outside the accepted band `[-ε, 1+4ε]` (for `trans_opp`:
    `1 - tb - td` outside it) is rejected by the argument check, for EVERY operand -/
theorem C19_trans_legit_failure (x : BOp (XQ f)) :
    (∀ t : ℚ, (t < -f.eps ∨ 1 + 4 * f.eps < t) → x.transUnc (XQ.fin t) = .error .bb) ∧
    (∀ t : ℚ, (t < -f.eps ∨ 1 + 4 * f.eps < t) → x.transBsr (XQ.fin t) = .error .ev) ∧
    (∀ tb td : ℚ, (1 - tb - td < -f.eps ∨ 1 + 4 * f.eps < 1 - tb - td) →
        x.transOpp (XQ.fin tb) (XQ.fin td) = .error .u) :=
  ⟨(C10.C10_trans_panics x).1, (C10.C10_trans_panics x).2.1, (C10.C10_trans_panics x).2.2.1⟩

/-! ### 4. products over unlabelled arrays (from C06) -/

section product
open SLV.C06
variable {n0 n1 n2 : Nat}
variable {b0 a0 : Fin n0 → ℚ} {u0 : ℚ} {b1 a1 : Fin n1 → ℚ} {u1 : ℚ} {b2 a2 : Fin n2 → ℚ} {u2 : ℚ}

/-- `Product2` of the unlabelled family: `Opinion::new` accepts the exact result of well-formed factors
    (any domain sizes, zero base-rate entries allowed), and that result is well-formed -/
theorem C19_product_exact_ok (h0 : WF b0 u0 a0) (h1 : WF b1 u1 a1) :
    product2U (⟨liftT b0, XQ.fin u0, liftT a0⟩ : Opinion (XQ f) n0) ⟨liftT b1, XQ.fin u1, liftT a1⟩
      = .ok ⟨liftT (bJ2 b0 u0 a0 b1 u1 a1), XQ.fin (uhat2 b0 u0 a0 b1 u1 a1), liftT (A2 a0 a1)⟩ ∧
    WF (bJ2 b0 u0 a0 b1 u1 a1) (uhat2 b0 u0 a0 b1 u1 a1) (A2 a0 a1) :=
  ⟨C06.C06_unlabelled_accepts h0 h1, C06.C06_wf_opinion h0 h1⟩

/-- `Product3` of the unlabelled family, likewise -/
theorem C19_product3_exact_ok (h0 : WF b0 u0 a0) (h1 : WF b1 u1 a1) (h2 : WF b2 u2 a2) :
    product3U (⟨liftT b0, XQ.fin u0, liftT a0⟩ : Opinion (XQ f) n0) ⟨liftT b1, XQ.fin u1, liftT a1⟩
        ⟨liftT b2, XQ.fin u2, liftT a2⟩
      = .ok ⟨liftT (bJ3 b0 u0 a0 b1 u1 a1 b2 u2 a2), XQ.fin (uhat3 b0 u0 a0 b1 u1 a1 b2 u2 a2),
          liftT (A3 a0 a1 a2)⟩ ∧
    WF (bJ3 b0 u0 a0 b1 u1 a1 b2 u2 a2) (uhat3 b0 u0 a0 b1 u1 a1 b2 u2 a2) (A3 a0 a1 a2) :=
  ⟨C06.C06_unlabelled_accepts3 h0 h1 h2, C06.C06_wf_opinion3 h0 h1 h2⟩

end product

/-! ### 5. cumulative fusion (new) -/

/-- the divisors of `cfuse` on well-formed operands: `κ` vanishes iff both uncertainties are EXACTLY 0;
    the base-rate divisor vanishes iff `(u₁,u₂) ∈ {(0,0), (1,1)}` — and `(1,1)` takes the guard arm -/
theorem C19_cfuse_divisors (h₁ : BWF b₁ d₁ u₁ a₁) (h₂ : BWF b₂ d₂ u₂ a₂) :
    (u₁ + u₂ - u₁ * u₂ = 0 ↔ u₁ = 0 ∧ u₂ = 0) ∧
    (¬ (u₁ = 0 ∧ u₂ = 0) → 0 < u₁ + u₂ - u₁ * u₂) ∧
    (u₂ * (1 - u₁) + u₁ * (1 - u₂) = 0 ↔ (u₁ = 0 ∧ u₂ = 0) ∨ (u₁ = 1 ∧ u₂ = 1)) ∧
    (¬ (u₁ = 0 ∧ u₂ = 0) → ¬ (GV f u₁ ∧ GV f u₂) → 0 < u₂ * (1 - u₁) + u₁ * (1 - u₂)) :=
  ⟨kap_eq_zero_iff h₁ h₂, kap_pos h₁ h₂, cross_eq_zero_iff h₁ h₂, cross_pos_of_guard h₁ h₂⟩

/-- `cfuse` of well-formed operands that are not both EXACTLY dogmatic is accepted, and the result is
    well-formed (masses non-negative, `b + d + u = 1` exactly, base rate in [0,1]).  Both arms of the
    base rate are covered by `cfA` (spelled out in `C19_cfuse_formula_arm` / `C19_cfuse_guard_arm`). -/
theorem C19_cfuse_exact_ok (h₁ : BWF b₁ d₁ u₁ a₁) (h₂ : BWF b₂ d₂ u₂ a₂) (hnd : ¬ (u₁ = 0 ∧ u₂ = 0)) :
    BOp.cfuse (bop b₁ d₁ u₁ a₁ : BOp (XQ f)) (bop b₂ d₂ u₂ a₂)
      = .ok (bop ((b₁ * u₂ + b₂ * u₁) / (u₁ + u₂ - u₁ * u₂)) ((d₁ * u₂ + d₂ * u₁) / (u₁ + u₂ - u₁ * u₂))
          (u₁ * u₂ / (u₁ + u₂ - u₁ * u₂)) (cfA f u₁ a₁ u₂ a₂)) ∧
    BWF ((b₁ * u₂ + b₂ * u₁) / (u₁ + u₂ - u₁ * u₂)) ((d₁ * u₂ + d₂ * u₁) / (u₁ + u₂ - u₁ * u₂))
      (u₁ * u₂ / (u₁ + u₂ - u₁ * u₂)) (cfA f u₁ a₁ u₂ a₂) :=
  ⟨BOp.cfuse_fin_ok h₁ h₂ hnd, cfuse_bwf f h₁ h₂ hnd⟩

/-- formula arm (not both `is_one`): the base rate is the confidence-weighted mean, a convex combination -/
theorem C19_cfuse_formula_arm (h₁ : BWF b₁ d₁ u₁ a₁) (h₂ : BWF b₂ d₂ u₂ a₂) (hnd : ¬ (u₁ = 0 ∧ u₂ = 0))
    (hg : ¬ (1 - 2 * f.eps ≤ u₁ ∧ 1 - 2 * f.eps ≤ u₂)) :
    BOp.cfuse (bop b₁ d₁ u₁ a₁ : BOp (XQ f)) (bop b₂ d₂ u₂ a₂)
      = .ok (bop ((b₁ * u₂ + b₂ * u₁) / (u₁ + u₂ - u₁ * u₂)) ((d₁ * u₂ + d₂ * u₁) / (u₁ + u₂ - u₁ * u₂))
          (u₁ * u₂ / (u₁ + u₂ - u₁ * u₂))
          ((a₁ * u₂ * (1 - u₁) + a₂ * u₁ * (1 - u₂)) / (u₂ * (1 - u₁) + u₁ * (1 - u₂)))) ∧
    0 < u₂ * (1 - u₁) + u₁ * (1 - u₂) := by
  have hg' : ¬ (GV f u₁ ∧ GV f u₂) := fun h => hg ⟨h.1.1, h.2.1⟩
  have e : cfA f u₁ a₁ u₂ a₂
      = (a₁ * u₂ * (1 - u₁) + a₂ * u₁ * (1 - u₂)) / (u₂ * (1 - u₁) + u₁ * (1 - u₂)) := by
    unfold cfA; rw [if_neg hg']
  rw [← e]
  exact ⟨(C19_cfuse_exact_ok h₁ h₂ hnd).1, cross_pos_of_guard h₁ h₂ hnd hg'⟩

/-- guard arm (both uncertainties `≥ 1-2ε`): the base rate is the plain mean -/
theorem C19_cfuse_guard_arm (h₁ : BWF b₁ d₁ u₁ a₁) (h₂ : BWF b₂ d₂ u₂ a₂)
    (hg1 : 1 - 2 * f.eps ≤ u₁) (hg2 : 1 - 2 * f.eps ≤ u₂) :
    BOp.cfuse (bop b₁ d₁ u₁ a₁ : BOp (XQ f)) (bop b₂ d₂ u₂ a₂)
      = .ok (bop ((b₁ * u₂ + b₂ * u₁) / (u₁ + u₂ - u₁ * u₂)) ((d₁ * u₂ + d₂ * u₁) / (u₁ + u₂ - u₁ * u₂))
          (u₁ * u₂ / (u₁ + u₂ - u₁ * u₂)) ((a₁ + a₂) / 2)) := by
  have hg' : GV f u₁ ∧ GV f u₂ :=
    ⟨(GV_iff (BWF.u_le_one h₁)).mpr hg1, (GV_iff (BWF.u_le_one h₂)).mpr hg2⟩
  have hnd : ¬ (u₁ = 0 ∧ u₂ = 0) := fun h => not_GV_zero (f := f) (by rw [← h.1]; exact hg'.1)
  have e : cfA f u₁ a₁ u₂ a₂ = (a₁ + a₂) / 2 := by unfold cfA; rw [if_pos hg']
  rw [← e]
  exact (C19_cfuse_exact_ok h₁ h₂ hnd).1

/-- legitimate failure: both operands EXACTLY dogmatic (`u₁ = u₂ = 0`): `κ = 0`, every quotient is
    `0/0`, the exact result is undefined; the checked constructor rejects the (NaN) base rate first.
    Any rational masses and base rates. -/
theorem C19_cfuse_legit_failure (b₁ d₁ a₁ b₂ d₂ a₂ : ℚ) :
    BOp.cfuse (bop b₁ d₁ 0 a₁ : BOp (XQ f)) (bop b₂ d₂ 0 a₂) = .error .ba :=
  BOp.cfuse_dogmatic_error b₁ d₁ a₁ b₂ d₂ a₂

/-- on well-formed operands `cfuse` returns iff the operands are not both exactly dogmatic -/
theorem C19_cfuse_defined_iff (h₁ : BWF b₁ d₁ u₁ a₁) (h₂ : BWF b₂ d₂ u₂ a₂) :
    (∃ w, BOp.cfuse (bop b₁ d₁ u₁ a₁ : BOp (XQ f)) (bop b₂ d₂ u₂ a₂) = .ok w) ↔ ¬ (u₁ = 0 ∧ u₂ = 0) := by
  constructor
  · rintro ⟨w, hw⟩ ⟨rfl, rfl⟩
    rw [C19_cfuse_legit_failure] at hw
    cases hw
  · intro h
    exact ⟨_, (C19_cfuse_exact_ok h₁ h₂ h).1⟩

/-! ### 6. averaging fusion (new) -/

/-- `afuse`, both operands `is_zero` (`u₁, u₂ ≤ ε`): the `γ`-weighted mean with `u := 0`, RENORMALISED by the sum of its
    masses `s = 1 - (γu₁ + (1-γ)u₂) ∈ [1-ε, 1]` (repair df72a91), is accepted for `0 ≤ γ ≤ 1`; the result adds up to
    exactly 1.  (STATEMENT CHANGED with repair df72a91: before it the masses were returned un-normalised and added up to
    `s`, inside the `is_one` band of the self-check but not 1 unless `u₁ = u₂ = 0`; for `u₁ = u₂ = 0` nothing changes:
    `C19_afuse_dogmatic_exact`.) -/
theorem C19_afuse_dogmatic_arm (h₁ : BWF b₁ d₁ u₁ a₁) (h₂ : BWF b₂ d₂ u₂ a₂) (hγ0 : 0 ≤ γ) (hγ1 : γ ≤ 1)
    (hd1 : u₁ ≤ f.eps) (hd2 : u₂ ≤ f.eps) :
    BOp.afuse (bop b₁ d₁ u₁ a₁ : BOp (XQ f)) (bop b₂ d₂ u₂ a₂) (XQ.fin γ)
      = .ok (bop ((γ * b₁ + (1 - γ) * b₂) / (1 - (γ * u₁ + (1 - γ) * u₂)))
          ((γ * d₁ + (1 - γ) * d₂) / (1 - (γ * u₁ + (1 - γ) * u₂))) 0 (γ * a₁ + (1 - γ) * a₂)) ∧
    (γ * b₁ + (1 - γ) * b₂) + (γ * d₁ + (1 - γ) * d₂) + 0 = 1 - (γ * u₁ + (1 - γ) * u₂) ∧
    0 ≤ γ * u₁ + (1 - γ) * u₂ ∧ γ * u₁ + (1 - γ) * u₂ ≤ f.eps ∧
    (γ * b₁ + (1 - γ) * b₂) / (1 - (γ * u₁ + (1 - γ) * u₂))
      + (γ * d₁ + (1 - γ) * d₂) / (1 - (γ * u₁ + (1 - γ) * u₂)) + 0 = 1 := by
  have hd : GD f u₁ ∧ GD f u₂ := ⟨(GD_iff h₁.hu).mpr hd1, (GD_iff h₂.hu).mpr hd2⟩
  obtain ⟨-, -, -, -, g5, g6⟩ := gmix_facts h₁ h₂ hγ0 hγ1
  have gs := gmix_small h₁ h₂ hγ0 hγ1 hd
  refine ⟨BOp.afuse_fin_dog h₁ h₂ hγ0 hγ1 hd, g5, g6, gs, ?_⟩
  have he := eps_lt f
  have hs : (1 - (γ * u₁ + (1 - γ) * u₂)) ≠ 0 := by unfold gmix at gs; linarith
  unfold gmix at g5
  rw [add_zero, ← add_div, div_eq_one_iff_eq hs]; linarith

/-- `afuse` of two EXACTLY dogmatic operands: `s = 1`, the `γ`-weighted mean itself -/
theorem C19_afuse_dogmatic_exact (h₁ : BWF b₁ d₁ 0 a₁) (h₂ : BWF b₂ d₂ 0 a₂) (hγ0 : 0 ≤ γ) (hγ1 : γ ≤ 1) :
    BOp.afuse (bop b₁ d₁ 0 a₁ : BOp (XQ f)) (bop b₂ d₂ 0 a₂) (XQ.fin γ)
      = .ok (bop (γ * b₁ + (1 - γ) * b₂) (γ * d₁ + (1 - γ) * d₂) 0 (γ * a₁ + (1 - γ) * a₂)) :=
  BOp.afuse_fin_dog0 h₁ h₂ hγ0 hγ1

/-- `afuse`, formula arm (not both `≤ ε`, hence `u₁ + u₂ > 0`): accepted for EVERY weight argument
    (it is not used), result well-formed with `b + d + u = 1` exactly -/
theorem C19_afuse_formula_arm (h₁ : BWF b₁ d₁ u₁ a₁) (h₂ : BWF b₂ d₂ u₂ a₂)
    (hd : ¬ (u₁ ≤ f.eps ∧ u₂ ≤ f.eps)) (ga : XQ f) :
    BOp.afuse (bop b₁ d₁ u₁ a₁ : BOp (XQ f)) (bop b₂ d₂ u₂ a₂) ga
      = .ok (bop ((b₁ * u₂ + b₂ * u₁) / (u₁ + u₂)) ((d₁ * u₂ + d₂ * u₁) / (u₁ + u₂))
          (2 * u₁ * u₂ / (u₁ + u₂)) ((a₁ + a₂) / 2)) ∧
    BWF ((b₁ * u₂ + b₂ * u₁) / (u₁ + u₂)) ((d₁ * u₂ + d₂ * u₁) / (u₁ + u₂))
      (2 * u₁ * u₂ / (u₁ + u₂)) ((a₁ + a₂) / 2) ∧ 0 < u₁ + u₂ := by
  have hd' : ¬ (GD f u₁ ∧ GD f u₂) := fun h => hd ⟨(GD_iff h₁.hu).mp h.1, (GD_iff h₂.hu).mp h.2⟩
  have hp := upu_pos h₁ h₂ hd'
  exact ⟨BOp.afuse_fin_formula h₁ h₂ hd' ga, afuse_bwf h₁ h₂ hp, hp⟩

/-- `afuse` NEVER fails in exact arithmetic on well-formed operands and a weight `γ ∈ [0,1]`: the result
    is a finite opinion with non-negative masses, base rate in [0,1] and (since repair df72a91, in every arm)
    `b + d + u = 1` -/
theorem C19_afuse_exact_ok (h₁ : BWF b₁ d₁ u₁ a₁) (h₂ : BWF b₂ d₂ u₂ a₂) (hγ0 : 0 ≤ γ) (hγ1 : γ ≤ 1) :
    ∃ b d u a : ℚ,
      BOp.afuse (bop b₁ d₁ u₁ a₁ : BOp (XQ f)) (bop b₂ d₂ u₂ a₂) (XQ.fin γ) = .ok (bop b d u a) ∧
      0 ≤ b ∧ 0 ≤ d ∧ 0 ≤ u ∧ 0 ≤ a ∧ a ≤ 1 ∧ 1 - f.eps ≤ b + d + u ∧ b + d + u ≤ 1 ∧
      b + d + u = 1 := by
  have he := XQ.eps_pos f
  by_cases hd : u₁ ≤ f.eps ∧ u₂ ≤ f.eps
  · obtain ⟨e, s, s0, s1, s2⟩ := C19_afuse_dogmatic_arm h₁ h₂ hγ0 hγ1 hd.1 hd.2
    obtain ⟨g1, g2, g3, g4, -, -⟩ := gmix_facts h₁ h₂ hγ0 hγ1
    have hs : 0 < 1 - (γ * u₁ + (1 - γ) * u₂) := by have := eps_lt f; linarith
    unfold gmix at g1 g2 g3 g4
    exact ⟨_, _, _, _, e, div_nonneg g1 hs.le, div_nonneg g2 hs.le, le_refl _, g3, g4, by linarith, by linarith, s2⟩
  · obtain ⟨e, w, -⟩ := C19_afuse_formula_arm h₁ h₂ hd (XQ.fin γ)
    exact ⟨_, _, _, _, e, w.hb, w.hd, w.hu, w.ha0, w.ha1, by linarith [w.hs], by linarith [w.hs],
      w.hs⟩

/-! ### 7. weighted fusion (new) -/

/-- `wfuse`, both operands `is_zero`: as `afuse` (STATEMENT CHANGED with repair df72a91, see `C19_afuse_dogmatic_arm`) -/
theorem C19_wfuse_dogmatic_arm (h₁ : BWF b₁ d₁ u₁ a₁) (h₂ : BWF b₂ d₂ u₂ a₂) (hγ0 : 0 ≤ γ) (hγ1 : γ ≤ 1)
    (hd1 : u₁ ≤ f.eps) (hd2 : u₂ ≤ f.eps) :
    BOp.wfuse (bop b₁ d₁ u₁ a₁ : BOp (XQ f)) (bop b₂ d₂ u₂ a₂) (XQ.fin γ)
      = .ok (bop ((γ * b₁ + (1 - γ) * b₂) / (1 - (γ * u₁ + (1 - γ) * u₂)))
          ((γ * d₁ + (1 - γ) * d₂) / (1 - (γ * u₁ + (1 - γ) * u₂))) 0 (γ * a₁ + (1 - γ) * a₂)) ∧
    (γ * b₁ + (1 - γ) * b₂) + (γ * d₁ + (1 - γ) * d₂) + 0 = 1 - (γ * u₁ + (1 - γ) * u₂) ∧
    0 ≤ γ * u₁ + (1 - γ) * u₂ ∧ γ * u₁ + (1 - γ) * u₂ ≤ f.eps ∧
    (γ * b₁ + (1 - γ) * b₂) / (1 - (γ * u₁ + (1 - γ) * u₂))
      + (γ * d₁ + (1 - γ) * d₂) / (1 - (γ * u₁ + (1 - γ) * u₂)) + 0 = 1 := by
  have hd : GD f u₁ ∧ GD f u₂ := ⟨(GD_iff h₁.hu).mpr hd1, (GD_iff h₂.hu).mpr hd2⟩
  obtain ⟨-, -, -, -, g5, g6⟩ := gmix_facts h₁ h₂ hγ0 hγ1
  have gs := gmix_small h₁ h₂ hγ0 hγ1 hd
  refine ⟨BOp.wfuse_fin_dog h₁ h₂ hγ0 hγ1 hd, g5, g6, gs, ?_⟩
  have he := eps_lt f
  have hs : (1 - (γ * u₁ + (1 - γ) * u₂)) ≠ 0 := by unfold gmix at gs; linarith
  unfold gmix at g5
  rw [add_zero, ← add_div, div_eq_one_iff_eq hs]; linarith

/-- `wfuse` of two EXACTLY dogmatic operands: `s = 1`, the `γ`-weighted mean itself -/
theorem C19_wfuse_dogmatic_exact (h₁ : BWF b₁ d₁ 0 a₁) (h₂ : BWF b₂ d₂ 0 a₂) (hγ0 : 0 ≤ γ) (hγ1 : γ ≤ 1) :
    BOp.wfuse (bop b₁ d₁ 0 a₁ : BOp (XQ f)) (bop b₂ d₂ 0 a₂) (XQ.fin γ)
      = .ok (bop (γ * b₁ + (1 - γ) * b₂) (γ * d₁ + (1 - γ) * d₂) 0 (γ * a₁ + (1 - γ) * a₂)) :=
  BOp.wfuse_fin_dog0 h₁ h₂ hγ0 hγ1

/-- `wfuse`, both operands `is_one` (`u₁, u₂ ≥ 1-2ε`): the vacuous opinion with the mean base rate -/
theorem C19_wfuse_vacuous_arm (h₁ : BWF b₁ d₁ u₁ a₁) (h₂ : BWF b₂ d₂ u₂ a₂)
    (hg1 : 1 - 2 * f.eps ≤ u₁) (hg2 : 1 - 2 * f.eps ≤ u₂) (ga : XQ f) :
    BOp.wfuse (bop b₁ d₁ u₁ a₁ : BOp (XQ f)) (bop b₂ d₂ u₂ a₂) ga
      = .ok (bop 0 0 1 ((a₁ + a₂) / 2)) ∧ BWF 0 0 1 ((a₁ + a₂) / 2) := by
  have hg : GV f u₁ ∧ GV f u₂ :=
    ⟨(GV_iff (BWF.u_le_one h₁)).mpr hg1, (GV_iff (BWF.u_le_one h₂)).mpr hg2⟩
  have hd : ¬ (GD f u₁ ∧ GD f u₂) := by
    have := eps_lt f
    intro h
    have := (GD_iff h₁.hu).mp h.1
    linarith
  obtain ⟨a0, a1⟩ := mean_unit h₁ h₂
  exact ⟨BOp.wfuse_fin_vac h₁ h₂ hd hg ga,
    ⟨le_refl _, le_refl _, zero_le_one, by norm_num, a0, a1⟩⟩

/-- `wfuse`, formula arm (not both `≤ ε`, not both `≥ 1-2ε`): both divisors
    `D = (1-u₁)u₂ + (1-u₂)u₁` and `(1-u₁) + (1-u₂)` are positive, the result is accepted and well-formed
    with `b + d + u = 1` exactly and the base rate a convex combination.  Mixed corners such as
    `u₁ = 0, u₂ = 1` are included (`D = 1`). -/
theorem C19_wfuse_formula_arm (h₁ : BWF b₁ d₁ u₁ a₁) (h₂ : BWF b₂ d₂ u₂ a₂)
    (hd : ¬ (u₁ ≤ f.eps ∧ u₂ ≤ f.eps)) (hg : ¬ (1 - 2 * f.eps ≤ u₁ ∧ 1 - 2 * f.eps ≤ u₂)) (ga : XQ f) :
    BOp.wfuse (bop b₁ d₁ u₁ a₁ : BOp (XQ f)) (bop b₂ d₂ u₂ a₂) ga
      = .ok (bop
          ((b₁ * (1 - u₁) * u₂ + b₂ * (1 - u₂) * u₁) / ((1 - u₁) * u₂ + (1 - u₂) * u₁))
          ((d₁ * (1 - u₁) * u₂ + d₂ * (1 - u₂) * u₁) / ((1 - u₁) * u₂ + (1 - u₂) * u₁))
          (((1 - u₁) + (1 - u₂)) * u₁ * u₂ / ((1 - u₁) * u₂ + (1 - u₂) * u₁))
          ((a₁ * (1 - u₁) + a₂ * (1 - u₂)) / ((1 - u₁) + (1 - u₂)))) ∧
    BWF ((b₁ * (1 - u₁) * u₂ + b₂ * (1 - u₂) * u₁) / ((1 - u₁) * u₂ + (1 - u₂) * u₁))
      ((d₁ * (1 - u₁) * u₂ + d₂ * (1 - u₂) * u₁) / ((1 - u₁) * u₂ + (1 - u₂) * u₁))
      (((1 - u₁) + (1 - u₂)) * u₁ * u₂ / ((1 - u₁) * u₂ + (1 - u₂) * u₁))
      ((a₁ * (1 - u₁) + a₂ * (1 - u₂)) / ((1 - u₁) + (1 - u₂))) ∧
    0 < (1 - u₁) * u₂ + (1 - u₂) * u₁ ∧ 0 < (1 - u₁) + (1 - u₂) := by
  have hd' : ¬ (GD f u₁ ∧ GD f u₂) := fun h => hd ⟨(GD_iff h₁.hu).mp h.1, (GD_iff h₂.hu).mp h.2⟩
  have hg' : ¬ (GV f u₁ ∧ GV f u₂) := fun h => hg ⟨h.1.1, h.2.1⟩
  exact ⟨BOp.wfuse_fin_formula h₁ h₂ hd' hg' ga, wfuse_bwf h₁ h₂ hd' hg',
    wfDen_pos h₁ h₂ hd' hg', conf_pos h₁ h₂ hg'⟩

/-- `wfuse` NEVER fails in exact arithmetic on well-formed operands and a weight `γ ∈ [0,1]` -/
theorem C19_wfuse_exact_ok (h₁ : BWF b₁ d₁ u₁ a₁) (h₂ : BWF b₂ d₂ u₂ a₂) (hγ0 : 0 ≤ γ) (hγ1 : γ ≤ 1) :
    ∃ b d u a : ℚ,
      BOp.wfuse (bop b₁ d₁ u₁ a₁ : BOp (XQ f)) (bop b₂ d₂ u₂ a₂) (XQ.fin γ) = .ok (bop b d u a) ∧
      0 ≤ b ∧ 0 ≤ d ∧ 0 ≤ u ∧ 0 ≤ a ∧ a ≤ 1 ∧ 1 - f.eps ≤ b + d + u ∧ b + d + u ≤ 1 ∧
      b + d + u = 1 := by
  have he := XQ.eps_pos f
  by_cases hd : u₁ ≤ f.eps ∧ u₂ ≤ f.eps
  · obtain ⟨e, s, s0, s1, s2⟩ := C19_wfuse_dogmatic_arm h₁ h₂ hγ0 hγ1 hd.1 hd.2
    obtain ⟨g1, g2, g3, g4, -, -⟩ := gmix_facts h₁ h₂ hγ0 hγ1
    have hs : 0 < 1 - (γ * u₁ + (1 - γ) * u₂) := by have := eps_lt f; linarith
    unfold gmix at g1 g2 g3 g4
    exact ⟨_, _, _, _, e, div_nonneg g1 hs.le, div_nonneg g2 hs.le, le_refl _, g3, g4, by linarith, by linarith, s2⟩
  · by_cases hg : 1 - 2 * f.eps ≤ u₁ ∧ 1 - 2 * f.eps ≤ u₂
    · obtain ⟨e, w⟩ := C19_wfuse_vacuous_arm h₁ h₂ hg.1 hg.2 (XQ.fin γ)
      exact ⟨_, _, _, _, e, w.hb, w.hd, w.hu, w.ha0, w.ha1, by linarith [w.hs], by linarith [w.hs],
        w.hs⟩
    · obtain ⟨e, w, -, -⟩ := C19_wfuse_formula_arm h₁ h₂ hd hg (XQ.fin γ)
      exact ⟨_, _, _, _, e, w.hb, w.hd, w.hu, w.ha0, w.ha1, by linarith [w.hs], by linarith [w.hs],
        w.hs⟩

/-! ### 8. summary -/

/-- every binomial self-validating operator returns `.ok` on its documented domain (exact semantics);
    the products: `C19_product_exact_ok`, `C19_product3_exact_ok`; deduction: `C19_deduce_exact_ok` -/
theorem C19_exact_wf (h₁ : BWF b₁ d₁ u₁ a₁) (h₂ : BWF b₂ d₂ u₂ a₂) :
    (¬ (a₁ = 1 ∧ a₂ = 1) → ∃ w, BOp.mul (bop b₁ d₁ u₁ a₁ : BOp (XQ f)) (bop b₂ d₂ u₂ a₂) = .ok w) ∧
    (¬ (a₁ = 0 ∧ a₂ = 0) → ∃ w, BOp.comul (bop b₁ d₁ u₁ a₁ : BOp (XQ f)) (bop b₂ d₂ u₂ a₂) = .ok w) ∧
    (¬ (u₁ = 0 ∧ u₂ = 0) → ∃ w, BOp.cfuse (bop b₁ d₁ u₁ a₁ : BOp (XQ f)) (bop b₂ d₂ u₂ a₂) = .ok w) ∧
    (∀ γ : ℚ, 0 ≤ γ → γ ≤ 1 →
      ∃ w, BOp.afuse (bop b₁ d₁ u₁ a₁ : BOp (XQ f)) (bop b₂ d₂ u₂ a₂) (XQ.fin γ) = .ok w) ∧
    (∀ γ : ℚ, 0 ≤ γ → γ ≤ 1 →
      ∃ w, BOp.wfuse (bop b₁ d₁ u₁ a₁ : BOp (XQ f)) (bop b₂ d₂ u₂ a₂) (XQ.fin γ) = .ok w) ∧
    (∀ t : ℚ, 0 ≤ t → t ≤ 1 → ∃ w, BOp.transUnc (bop b₁ d₁ u₁ a₁ : BOp (XQ f)) (XQ.fin t) = .ok w) ∧
    (∀ t : ℚ, 0 ≤ t → t ≤ 1 → ∃ w, BOp.transBsr (bop b₁ d₁ u₁ a₁ : BOp (XQ f)) (XQ.fin t) = .ok w) ∧
    (∀ tb td : ℚ, 0 ≤ tb → 0 ≤ td → tb + td ≤ 1 →
      ∃ w, BOp.transOpp (bop b₁ d₁ u₁ a₁ : BOp (XQ f)) (XQ.fin tb) (XQ.fin td) = .ok w) := by
  obtain ⟨t1, t2, t3⟩ := C19_trans_exact_ok (f := f) h₁
  refine ⟨fun h => ⟨_, C19_mul_exact_ok h₁ h₂ h⟩, fun h => ⟨_, C19_comul_exact_ok h₁ h₂ h⟩,
    fun h => ⟨_, (C19_cfuse_exact_ok h₁ h₂ h).1⟩, ?_, ?_,
    fun t h0 h1 => ⟨_, t1 t h0 h1⟩, fun t h0 h1 => ⟨_, t2 t h0 h1⟩,
    fun tb td hb hd hs => ⟨_, t3 tb td hb hd hs⟩⟩
  · intro γ h0 h1
    obtain ⟨b, d, u, a, e, -⟩ := C19_afuse_exact_ok (f := f) h₁ h₂ h0 h1
    exact ⟨_, e⟩
  · intro γ h0 h1
    obtain ⟨b, d, u, a, e, -⟩ := C19_wfuse_exact_ok (f := f) h₁ h₂ h0 h1
    exact ⟨_, e⟩

/-- The legitimate failures.  On well-formed operands the exact model returns `.error` ONLY here:
    * `cfuse` — iff both operands are exactly dogmatic (`u₁ = u₂ = 0`), label `a`;
    * `mul`   — iff both base rates are 1, label `b+d+u`;
    * `comul` — iff both base rates are 0, label `b+d+u`;
    * `afuse`, `wfuse` — never (weight in [0,1]);
    * `trans_unc`, `trans_bsr`, `trans_opp` — never for arguments in the domain; with an argument outside
      the band `[-ε, 1+4ε]` always (`C19_trans_legit_failure`).
    (`deduce` returns on its whole open domain, `C19_deduce_exact_ok`; the products return on all
    well-formed factors, `C19_product_exact_ok`, `C19_product3_exact_ok`.) -/
theorem C19_legit_failures (h₁ : BWF b₁ d₁ u₁ a₁) (h₂ : BWF b₂ d₂ u₂ a₂) :
    ((∃ l, BOp.cfuse (bop b₁ d₁ u₁ a₁ : BOp (XQ f)) (bop b₂ d₂ u₂ a₂) = .error l) ↔ (u₁ = 0 ∧ u₂ = 0)) ∧
    ((u₁ = 0 ∧ u₂ = 0) → BOp.cfuse (bop b₁ d₁ u₁ a₁ : BOp (XQ f)) (bop b₂ d₂ u₂ a₂) = .error .ba) ∧
    ((∃ l, BOp.mul (bop b₁ d₁ u₁ a₁ : BOp (XQ f)) (bop b₂ d₂ u₂ a₂) = .error l) ↔ (a₁ = 1 ∧ a₂ = 1)) ∧
    ((a₁ = 1 ∧ a₂ = 1) → BOp.mul (bop b₁ d₁ u₁ a₁ : BOp (XQ f)) (bop b₂ d₂ u₂ a₂) = .error .bdu) ∧
    ((∃ l, BOp.comul (bop b₁ d₁ u₁ a₁ : BOp (XQ f)) (bop b₂ d₂ u₂ a₂) = .error l) ↔ (a₁ = 0 ∧ a₂ = 0)) ∧
    ((a₁ = 0 ∧ a₂ = 0) → BOp.comul (bop b₁ d₁ u₁ a₁ : BOp (XQ f)) (bop b₂ d₂ u₂ a₂) = .error .bdu) ∧
    (∀ γ : ℚ, 0 ≤ γ → γ ≤ 1 →
      ¬ ∃ l, BOp.afuse (bop b₁ d₁ u₁ a₁ : BOp (XQ f)) (bop b₂ d₂ u₂ a₂) (XQ.fin γ) = .error l) ∧
    (∀ γ : ℚ, 0 ≤ γ → γ ≤ 1 →
      ¬ ∃ l, BOp.wfuse (bop b₁ d₁ u₁ a₁ : BOp (XQ f)) (bop b₂ d₂ u₂ a₂) (XQ.fin γ) = .error l) := by
  have hc : (u₁ = 0 ∧ u₂ = 0) →
      BOp.cfuse (bop b₁ d₁ u₁ a₁ : BOp (XQ f)) (bop b₂ d₂ u₂ a₂) = .error .ba := by
    rintro ⟨rfl, rfl⟩; exact C19_cfuse_legit_failure _ _ _ _ _ _
  have hm : (a₁ = 1 ∧ a₂ = 1) →
      BOp.mul (bop b₁ d₁ u₁ a₁ : BOp (XQ f)) (bop b₂ d₂ u₂ a₂) = .error .bdu := by
    rintro ⟨rfl, rfl⟩; exact C19_mul_legit_failure _ _ _ _ _ _
  have hcm : (a₁ = 0 ∧ a₂ = 0) →
      BOp.comul (bop b₁ d₁ u₁ a₁ : BOp (XQ f)) (bop b₂ d₂ u₂ a₂) = .error .bdu := by
    rintro ⟨rfl, rfl⟩; exact C19_comul_legit_failure _ _ _ _ _ _
  refine ⟨⟨?_, fun h => ⟨_, hc h⟩⟩, hc, ⟨?_, fun h => ⟨_, hm h⟩⟩, hm, ⟨?_, fun h => ⟨_, hcm h⟩⟩, hcm,
    ?_, ?_⟩
  · rintro ⟨l, hl⟩
    by_contra h
    rw [(C19_cfuse_exact_ok h₁ h₂ h).1] at hl
    cases hl
  · rintro ⟨l, hl⟩
    by_contra h
    rw [C19_mul_exact_ok h₁ h₂ h] at hl
    cases hl
  · rintro ⟨l, hl⟩
    by_contra h
    rw [C19_comul_exact_ok h₁ h₂ h] at hl
    cases hl
  · rintro γ h0 h1 ⟨l, hl⟩
    obtain ⟨b, d, u, a, e, -⟩ := C19_afuse_exact_ok (f := f) h₁ h₂ h0 h1
    rw [e] at hl; cases hl
  · rintro γ h0 h1 ⟨l, hl⟩
    obtain ⟨b, d, u, a, e, -⟩ := C19_wfuse_exact_ok (f := f) h₁ h₂ h0 h1
    rw [e] at hl; cases hl

/-! ### 9. non-vacuity -/

/-- two non-trivial well-formed operands, not dogmatic, not vacuous: formula arm of all three fusions -/
example : BWF (1/2) (1/4) (1/4) (1/4) ∧ BWF (1/8) (3/8) (1/2) (5/8) ∧ ¬ ((1/4 : ℚ) = 0 ∧ (1/2 : ℚ) = 0) ∧
    ¬ ((1/4 : ℚ) ≤ f.eps ∧ (1/2 : ℚ) ≤ f.eps) ∧
    ¬ (1 - 2 * f.eps ≤ (1/4 : ℚ) ∧ 1 - 2 * f.eps ≤ (1/2 : ℚ)) := by
  have := eps_lt f
  refine ⟨⟨?_, ?_, ?_, ?_, ?_, ?_⟩, ⟨?_, ?_, ?_, ?_, ?_, ?_⟩, ?_, ?_, ?_⟩ <;> norm_num <;>
    (intro h; linarith)

/-- concrete `cfuse`: κ = 5/8 -/
example :
    BOp.cfuse (bop (1/2) (1/4) (1/4) (1/4) : BOp (XQ f)) (bop (1/8) (3/8) (1/2) (5/8))
      = .ok (bop (9/20) (7/20) (1/5) (11/32)) := by
  have := eps_lt f
  rw [(C19_cfuse_formula_arm (by constructor <;> norm_num) (by constructor <;> norm_num) (by norm_num)
    (by intro h; linarith [h.1])).1]
  norm_num

/-- concrete `afuse` (formula arm) -/
example :
    BOp.afuse (bop (1/2) (1/4) (1/4) (1/4) : BOp (XQ f)) (bop (1/8) (3/8) (1/2) (5/8)) (XQ.fin (1/2))
      = .ok (bop (3/8) (7/24) (1/3) (7/16)) := by
  have := eps_lt f
  rw [(C19_afuse_formula_arm (by constructor <;> norm_num) (by constructor <;> norm_num)
    (by intro h; linarith [h.1]) _).1]
  norm_num

/-- concrete `wfuse` (formula arm): D = 1/2, confidence sum 5/4 -/
example :
    BOp.wfuse (bop (1/2) (1/4) (1/4) (1/4) : BOp (XQ f)) (bop (1/8) (3/8) (1/2) (5/8)) (XQ.fin (1/2))
      = .ok (bop (13/32) (9/32) (5/16) (2/5)) := by
  have := eps_lt f
  rw [(C19_wfuse_formula_arm (by constructor <;> norm_num) (by constructor <;> norm_num)
    (by intro h; linarith [h.1]) (by intro h; linarith [h.1]) _).1]
  norm_num

/-- the both-`is_zero` arm with an un-normalised sum that is NOT exactly 1: u₁ = ε, u₂ = 0, γ = 1/2 gives masses adding
    up to `s = 1 - ε/2`; the operator divides by `s` (repair df72a91) and the result adds up to 1 -/
example : BWF (1 - f.eps) 0 f.eps (1/2) ∧ BWF (1/2) (1/2) 0 (1/4) ∧ f.eps ≤ f.eps ∧ (0 : ℚ) ≤ f.eps ∧
    BOp.afuse (bop (1 - f.eps) 0 f.eps (1/2) : BOp (XQ f)) (bop (1/2) (1/2) 0 (1/4)) (XQ.fin (1/2))
      = .ok (bop ((1/2 * (1 - f.eps) + (1 - 1/2) * (1/2)) / (1 - (1/2 * f.eps + (1 - 1/2) * 0)))
          ((1/2 * 0 + (1 - 1/2) * (1/2)) / (1 - (1/2 * f.eps + (1 - 1/2) * 0))) 0
          (1/2 * (1/2) + (1 - 1/2) * (1/4))) := by
  have he := XQ.eps_pos f
  have := eps_lt f
  have w1 : BWF (1 - f.eps) 0 f.eps (1/2) := ⟨by linarith, le_refl _, he.le, by ring, by norm_num, by norm_num⟩
  have w2 : BWF (1/2) (1/2) 0 (1/4) := by constructor <;> norm_num
  exact ⟨w1, w2, le_refl _, he.le,
    (C19_afuse_dogmatic_arm w1 w2 (by norm_num) (by norm_num) (le_refl _) he.le).1⟩

/-- the guard arm of `cfuse` / the vacuous arm of `wfuse` is inhabited by non-vacuous operands -/
example : BWF f.eps 0 (1 - f.eps) (1/4) ∧ 1 - 2 * f.eps ≤ 1 - f.eps := by
  have he := XQ.eps_pos f
  have := eps_lt f
  exact ⟨⟨he.le, le_refl _, by linarith, by ring, by norm_num, by norm_num⟩, by linarith⟩

/-- the legitimate failure of `cfuse` is inhabited by well-formed (dogmatic) operands -/
example : BWF (1/2) (1/2) 0 (1/4) ∧ BWF (1/4) (3/4) 0 (5/8) ∧
    BOp.cfuse (bop (1/2) (1/2) 0 (1/4) : BOp (XQ f)) (bop (1/4) (3/4) 0 (5/8)) = .error .ba := by
  refine ⟨by constructor <;> norm_num, by constructor <;> norm_num, C19_cfuse_legit_failure _ _ _ _ _ _⟩

/-- a mixed corner `u₁ = 0`, `u₂ = 1` (dogmatic with vacuous) is inside the domain of all three fusions -/
example : BWF (1/2) (1/2) 0 (1/4) ∧ BWF 0 0 1 (5/8) ∧ ¬ ((0 : ℚ) = 0 ∧ (1 : ℚ) = 0) ∧
    ¬ ((0 : ℚ) ≤ f.eps ∧ (1 : ℚ) ≤ f.eps) ∧ ¬ (1 - 2 * f.eps ≤ (0 : ℚ) ∧ 1 - 2 * f.eps ≤ (1 : ℚ)) := by
  have := eps_lt f
  refine ⟨by constructor <;> norm_num, by constructor <;> norm_num, by norm_num, ?_, ?_⟩ <;>
    (intro h; linarith [h.1, h.2])

end SLV.Props.C19
