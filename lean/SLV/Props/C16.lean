/-
  C16 — Results do not depend on how operands are stored or passed.
  "An operator's numeric result is the same, to within a few units in the last place, whether operands
   are held in plain arrays, unlabelled multi-arrays or labelled multi-arrays, passed as owned opinions
   or borrowed views, with owned or borrowed conditionals, and through the in-place or value-returning
   form of fusion.  Fusing with a bare simplex equals fusing with an opinion that carries the left
   operand's base rate and leaves that base rate unchanged; simplex-with-simplex fusion equals the
   belief part of opinion fusion, and epistemic fusion of two bare simplexes is refused.  Single- and
   double-precision instantiations agree to single-precision accuracy on exactly representable inputs."

  WHAT IS DECIDED WHERE.  The model has ONE denotation per operator: containers (`[V;N]`, `MArr1`,
  `MArrD1`), passing style (`Opinion`, `OpinionRef`, `&Opinion`, owned / `as_ref()` conditional tables)
  and the in-place form do not exist in it.  The container / borrow / in-place clauses are therefore
  decided by the CORRESPONDENCE CHECK, not by a theorem: every variant of one case is compared with the
  one model value and with every other variant.  The clause "f32 and f64 agree to single-precision
  accuracy" is a statement about rounding, which the exact semantics does not model: it is EXPLORED by
  the check (f32 result vs f64 result vs exact value on exactly representable inputs), NOT PROVED.

  What is proved here are the model facts the Rust overloads of `Fuse` / `FuseAssign`
  (src/mul.rs:620-737; SLV/Model/Fuse.lean) rely on.  Everything except `C16_ptr_eq_redundant` holds for
  EVERY instance `[Scalar α]` — the exact semantics `XQ f` and the native `Float` / `Float32` twins alike.
-/
import SLV.Refine.C16Lemmas
import Mathlib.Data.Fin.VecNotation

namespace SLV.Props.C16
open SLV Scalar SLV.C16

variable {n : Nat}

/-! ### 1. simplex-with-simplex fusion (every `Scalar`) -/

/-- for ACm / Avg / Wgh the belief part of opinion fusion is `compute_simlex` of the two belief parts:
    it depends neither on the base rates nor on the pointer test -/
theorem C16_fuse_simplex_eq {α : Type} [Scalar α] (op : FuseOp) (hop : op ≠ .ecm) (same : Bool)
    (wl wr : Opinion α n) :
    (fuse op same wl wr).simplex = computeSimplex op wl.simplex wr.simplex := by
  unfold fuse
  simp only [if_neg hop]
  rfl

/-- `Fuse<&Simplex, &Simplex>` is the belief part of `Fuse<OpinionRef, OpinionRef>`, whatever base rates
    the two opinions carry and whether or not they share the base-rate object -/
theorem C16_simplex_fuse {α : Type} [Scalar α] (op : FuseOp) (hop : op ≠ .ecm) (same : Bool)
    (l r : Simplex α n) (wl wr : Opinion α n) (hl : wl.simplex = l) (hr : wr.simplex = r) :
    fuseSS op l r = some ((fuse op same wl wr).simplex) := by
  rw [C16_fuse_simplex_eq op hop, hl, hr]
  unfold fuseSS
  rw [if_neg hop]

/-- in particular with the opinions `(l, a₁)`, `(r, a₂)` for ANY two base rates -/
theorem C16_simplex_fuse_mk {α : Type} [Scalar α] (op : FuseOp) (hop : op ≠ .ecm) (same : Bool)
    (l r : Simplex α n) (a₁ a₂ : Tab α n) :
    fuseSS op l r = some ((fuse op same (Opinion.mk' l a₁) (Opinion.mk' r a₂)).simplex) :=
  C16_simplex_fuse op hop same l r _ _ rfl rfl

/-- epistemic fusion of two bare simplexes is refused (≙ the Rust overload panics): it needs a base
    rate for the uncertainty maximisation -/
theorem C16_ecm_simplex_refused {α : Type} [Scalar α] (l r : Simplex α n) :
    fuseSS .ecm l r = none := rfl

/-- … and it is the ONLY refused operator -/
theorem C16_simplex_refused_iff {α : Type} [Scalar α] (op : FuseOp) (l r : Simplex α n) :
    fuseSS op l r = none ↔ op = .ecm := by
  unfold fuseSS
  by_cases h : op = .ecm <;> simp [h]

/-! ### 2. fusing with a bare simplex (every `Scalar`) -/

/-- `Fuse<OpinionRef, &Simplex>` is opinion fusion with the right operand carrying the left operand's
    base-rate OBJECT (`same = true`), and the result carries the left base rate unchanged — all four
    operators, ECm included (`compute_base_rate` returns `lhs.base_rate` as soon as the pointers agree) -/
theorem C16_bare_simplex {α : Type} [Scalar α] (op : FuseOp) (l : Opinion α n) (s : Simplex α n) :
    fuseSimplex op l s = fuse op true l (Opinion.mk' s l.a) ∧ (fuseSimplex op l s).a = l.a :=
  ⟨rfl, rfl⟩

/-- the pointer test short-circuits `compute_base_rate` for every operator and operand -/
theorem C16_same_base_rate {α : Type} [Scalar α] (op : FuseOp) (l r : Opinion α n) :
    computeBaseRate op true l r = l.a ∧ (fuse op true l r).a = l.a :=
  ⟨rfl, rfl⟩

/-- for ACm / Avg / Wgh the belief part of `fuse(opinion, simplex)` is simplex-with-simplex fusion -/
theorem C16_bare_simplex_belief {α : Type} [Scalar α] (op : FuseOp) (hop : op ≠ .ecm)
    (l : Opinion α n) (s : Simplex α n) :
    some (fuseSimplex op l s).simplex = fuseSS op l.simplex s :=
  (C16_simplex_fuse op hop true l.simplex s l (Opinion.mk' s l.a) rfl rfl).symm

/-! ### 3. the in-place form (every `Scalar`) -/

/-- `fuse_assign` is `*lhs = fuse(lhs, rhs)` -/
theorem C16_assign {α : Type} [Scalar α] (op : FuseOp) (same : Bool) (l r : Opinion α n) :
    fuseAssign op same l r = fuse op same l r := rfl

/-! ### 4. the pointer test is an optimisation, not semantics (exact semantics) -/

section ptr
variable {f : Fmt}

/-- If the two operands carry EQUAL base-rate VALUES in DIFFERENT objects (`same = false`), then
    `compute_base_rate` still returns the left base rate unchanged — every operator, every guard arm,
    every value of the uncertainties (finite or not), every base-rate entry (finite, `±inf`, even NaN):
    each entry is a clone (`lhs.base_rate` / `rhs.base_rate`), or the both-dogmatic mean `(a+a)/2 = a`,
    or takes the reflexive `ulps_eq!(a, a)` shortcut (a NaN entry fails the shortcut, and the fall-back
    expression is then NaN as well).  So `std::ptr::eq` is an optimisation, not semantics. -/
theorem C16_ptr_eq_redundant (op : FuseOp) (l r : Opinion (XQ f) n) (ha : r.a = l.a) :
    computeBaseRate op false l r = l.a := by
  have hmean : (Vector.ofFn fun i : Fin n => brEntry l.a[i] l.a[i] ((l.a[i] + l.a[i]) / two)
      : Tab (XQ f) n) = l.a :=
    ofFn_get _ _ fun i => brEntry_self _ _ fun h => by rw [mean_self]; exact h
  have hdog : (Vector.ofFn fun i : Fin n => (l.a[i] + l.a[i]) / two : Tab (XQ f) n) = l.a :=
    ofFn_get _ _ fun i => mean_self _
  unfold computeBaseRate
  simp only [Bool.false_eq_true, if_false, ha]
  split
  · exact hdog
  · cases op
    · -- acm
      simp only [hmean]
      split_ifs <;> try rfl
      exact ofFn_get _ _ fun i => brEntry_self _ _ fun h => by
        rw [h, nan_mul, nan_mul, nan_add, nan_div]
    · -- ecm
      simp only [hmean]
      split_ifs <;> try rfl
      exact ofFn_get _ _ fun i => brEntry_self _ _ fun h => by
        rw [h, nan_mul, nan_mul, nan_add, nan_div]
    · -- avg
      exact hmean
    · -- wgh
      simp only [hmean]
      split_ifs <;> try rfl
      exact ofFn_get _ _ fun i => brEntry_self _ _ fun h => by
        rw [h, nan_mul, nan_add, nan_div]

/-- the statement of the design in its stated form: equal values, all entries finite -/
theorem C16_ptr_eq_redundant_fin (op : FuseOp) (l r : Opinion (XQ f) n) (ha : r.a = l.a)
    (_hfin : ∀ i : Fin n, ∃ q : ℚ, l.a[i] = XQ.fin q) :
    computeBaseRate op false l r = l.a :=
  C16_ptr_eq_redundant op l r ha

/-- hence with equal base-rate values opinion fusion does not depend on the pointer test at all -/
theorem C16_fuse_ptr_eq (op : FuseOp) (l r : Opinion (XQ f) n) (ha : r.a = l.a) :
    fuse op false l r = fuse op true l r := by
  have e : computeBaseRate op false l r = computeBaseRate op true l r := by
    rw [C16_ptr_eq_redundant op l r ha]; rfl
  unfold fuse
  simp only [e]

/-- … so `fuse(opinion, simplex)` equals fusing with ANY opinion `(simplex, a')` whose base rate has the
    same values as the left operand's, shared object or not -/
theorem C16_bare_simplex_value (op : FuseOp) (l : Opinion (XQ f) n) (s : Simplex (XQ f) n) (same : Bool) :
    fuseSimplex op l s = fuse op same l (Opinion.mk' s l.a) := by
  cases same
  · exact (C16_fuse_ptr_eq op l (Opinion.mk' s l.a) rfl).symm
  · rfl

end ptr

/-! ### 5. non-vacuity -/

section examples
variable {f : Fmt}

/-- a concrete pair with equal base-rate values: a plain left operand and a right operand in the formula
    arm of every operator (neither dogmatic nor vacuous) -/
example (op : FuseOp) :
    computeBaseRate op false
        (⟨liftT ![1/4, 1/4], XQ.fin (1/2), liftT ![1/4, 3/4]⟩ : Opinion (XQ f) 2)
        ⟨liftT ![1/2, 1/4], XQ.fin (1/4), liftT ![1/4, 3/4]⟩
      = liftT ![1/4, 3/4] :=
  C16_ptr_eq_redundant op _ _ rfl

/-- the hypotheses of `C16_ptr_eq_redundant_fin` are satisfiable -/
example : ∀ i : Fin 2, ∃ q : ℚ,
    (⟨liftT ![1/4, 1/4], XQ.fin (1/2), liftT ![1/4, 3/4]⟩ : Opinion (XQ f) 2).a[i] = XQ.fin q :=
  fun i => ⟨_, liftT_getElem _ i⟩

/-- `C16_simplex_fuse` is not vacuous: the three admitted operators -/
example : (FuseOp.acm ≠ .ecm) ∧ (FuseOp.avg ≠ .ecm) ∧ (FuseOp.wgh ≠ .ecm) := by decide

end examples

end SLV.Props.C16
