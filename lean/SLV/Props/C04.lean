/-
  C04 — Deducing an opinion on Y from a well-formed opinion on X and one well-formed conditional
  opinion per value of X yields a well-formed opinion whose base rate is the given base rate and whose
  projected probability is P(y) = Σ_x P(x) P(y|x).  It equals the belief-weighted mixture of the
  conditionals plus, weighted by the antecedent's uncertainty, the most uncertain opinion with
  projection Σ_x a(x) P(y|x) whose every belief mass is at least the smallest corresponding conditional
  belief mass.  Consequently an absolute opinion on x returns exactly the conditional for x and a
  vacuous antecedent returns that most-uncertain opinion.

  Property theorems only; helper lemmas and the rational closed forms live in SLV/Refine/C04Lemmas.lean:
    `Hyp bx ax ux cb cu ay`  well-formedness of the rational inputs (zeros in `ax`, `ay` allowed)
    `Pc  x y = cb x y + ay y * cu x`          P(y|x)
    `Px  x   = bx x + ax x * ux`              P(x)
    `pyhx y  = Σ_x ax x * Pc x y`             P(y ‖ X̂)
    `ptot y  = Σ_x Px x * Pc x y`             P(y ‖ X)
    `bmin y  = min_x cb x y`
    `uhat    = min_{y : ay y > 0} (pyhx y - bmin y) / ay y`     apex uncertainty
    `uRes    = uhat * ux + Σ_x bx x * cu x`
    `bRes y  = ptot y - ay y * uRes`
    `condTab cb cu f = Vector.ofFn fun x => ⟨liftT (cb x), XQ.fin (cu x)⟩`
  All statements are about the executable model `deduceOf` (SLV/Model/Cond.lean) at the exact
  semantics `XQ f`, for every `n`, `m` (`0 < n`, `0 < m` follow from `Σ ax = 1`, `Σ ay = 1`).
-/
import SLV.Refine.C04Lemmas
import SLV.Model.Pinned
import Mathlib.Data.Fin.VecNotation

namespace SLV.Props.C04
open SLV Scalar SLV.C04 SLV.Props.C09

variable {f : Fmt} {n m : Nat}
variable {bx ax : Fin n → ℚ} {ux : ℚ} {cb : Fin n → Fin m → ℚ} {cu : Fin n → ℚ} {ay : Fin m → ℚ}

/-- `bmin y` is the least conditional belief mass on `y` -/
theorem C04_bmin_char (h : Hyp bx ax ux cb cu ay) (y : Fin m) :
    (∀ x, bmin cb y ≤ cb x y) ∧ ∃ x, bmin cb y = cb x y :=
  bmin_spec h.npos cb y

/-- `uhat` is the least `(P(y‖X̂) - bmin y) / a(y)` over the values with positive base rate; values
    with `a(y) = 0` (whose model entry is `+inf` or NaN) do not take part -/
theorem C04_uhat_char (h : Hyp bx ax ux cb cu ay) :
    (∀ y, 0 < ay y → uhat ax cb cu ay ≤ (pyhx ax cb cu ay y - bmin cb y) / ay y) ∧
    ∃ y, 0 < ay y ∧ uhat ax cb cu ay = (pyhx ax cb cu ay y - bmin cb y) / ay y :=
  uhat_spec h

/-- the model on lifted well-formed inputs returns lifted rational data (every division either has a
    non-zero denominator or yields `+inf`/NaN that the `min` reduction skips; the final normaliser is
    exactly 1) -/
theorem C04_refines (h : Hyp bx ax ux cb cu ay) :
    deduceOf (⟨liftT bx, XQ.fin ux, liftT ax⟩ : Opinion (XQ f) n) (condTab cb cu f) (liftT ay)
      = ⟨liftT (bRes bx ax ux cb cu ay), XQ.fin (uRes bx ax ux cb cu ay), liftT ay⟩ :=
  deduceOf_lift h.npos h

/-- the same statement with every closed form spelled out (no auxiliary definitions) -/
theorem C04_refines_explicit (h : Hyp bx ax ux cb cu ay) :
    ∃ (bm : Fin m → ℚ) (uh : ℚ),
      (∀ y, (∀ x, bm y ≤ cb x y) ∧ ∃ x, bm y = cb x y) ∧
      (∀ y, 0 < ay y → uh ≤ ((∑ x, ax x * (cb x y + ay y * cu x)) - bm y) / ay y) ∧
      (∃ y, 0 < ay y ∧ uh = ((∑ x, ax x * (cb x y + ay y * cu x)) - bm y) / ay y) ∧
      deduceOf (⟨liftT bx, XQ.fin ux, liftT ax⟩ : Opinion (XQ f) n)
          (Vector.ofFn fun x => (⟨liftT (cb x), XQ.fin (cu x)⟩ : Simplex (XQ f) m)) (liftT ay)
        = ⟨liftT (fun y => ∑ x, (bx x + ax x * ux) * (cb x y + ay y * cu x)
              - ay y * (uh * ux + ∑ x, bx x * cu x)),
           XQ.fin (uh * ux + ∑ x, bx x * cu x), liftT ay⟩ :=
  ⟨bmin cb, uhat ax cb cu ay, C04_bmin_char h, (C04_uhat_char h).1, (C04_uhat_char h).2,
    C04_refines h⟩

/-- the base rate of the result is the given one -/
theorem C04_base_rate (h : Hyp bx ax ux cb cu ay) :
    (deduceOf (⟨liftT bx, XQ.fin ux, liftT ax⟩ : Opinion (XQ f) n) (condTab cb cu f) (liftT ay)).a
      = liftT ay := by
  rw [C04_refines h]

/-- law of total probability on the closed form: `b(y) + a(y) u = Σ_x P(x) P(y|x)` -/
theorem C04_total_probability (bx ax : Fin n → ℚ) (ux : ℚ) (cb : Fin n → Fin m → ℚ) (cu : Fin n → ℚ)
    (ay : Fin m → ℚ) (y : Fin m) :
    bRes bx ax ux cb cu ay y + ay y * uRes bx ax ux cb cu ay
      = ∑ x, (bx x + ax x * ux) * (cb x y + ay y * cu x) := by
  unfold bRes
  show ptot bx ax ux cb cu ay y - _ + _ = ptot bx ax ux cb cu ay y
  ring

/-- the result is well-formed -/
theorem C04_wf (h : Hyp bx ax ux cb cu ay) :
    (∀ y, 0 ≤ bRes bx ax ux cb cu ay y) ∧ 0 ≤ uRes bx ax ux cb cu ay ∧ uRes bx ax ux cb cu ay ≤ 1 ∧
    ∑ y, bRes bx ax ux cb cu ay y + uRes bx ax ux cb cu ay = 1 :=
  ⟨bRes_nonneg h.npos h, uRes_nonneg h.npos h, uRes_le_one h.npos h, sum_bRes h⟩

/-- … as an opinion with the given base rate (the `WF` predicate of C09) -/
theorem C04_wf_opinion (h : Hyp bx ax ux cb cu ay) :
    WF (bRes bx ax ux cb cu ay) (uRes bx ax ux cb cu ay) ay :=
  ⟨bRes_nonneg h.npos h, uRes_nonneg h.npos h, sum_bRes h, h.hay0, h.hay⟩

/-- law of total probability on the model: the projection of the deduced opinion is
    `P(y) = Σ_x P(x) P(y|x)` -/
theorem C04_projection (h : Hyp bx ax ux cb cu ay) :
    (deduceOf (⟨liftT bx, XQ.fin ux, liftT ax⟩ : Opinion (XQ f) n) (condTab cb cu f)
        (liftT ay)).projection
      = liftT (fun y => ∑ x, (bx x + ax x * ux) * (cb x y + ay y * cu x)) := by
  rw [C04_refines h]
  unfold Opinion.projection
  rw [C09_projection (C04_wf_opinion h)]
  congr 1
  funext y
  exact C04_total_probability bx ax ux cb cu ay y

/-- the projected probabilities form a distribution -/
theorem C04_projection_dist (h : Hyp bx ax ux cb cu ay) :
    (∀ y, 0 ≤ ∑ x, (bx x + ax x * ux) * (cb x y + ay y * cu x)) ∧
    ∑ y, ∑ x, (bx x + ax x * ux) * (cb x y + ay y * cu x) = 1 :=
  ⟨fun y => Finset.sum_nonneg fun x _ =>
      mul_nonneg (add_nonneg (h.hbx x) (mul_nonneg (h.hax0 x) h.hux)) (Pc_nonneg h x y),
    sum_ptot h⟩

/-- mixture form: the belief-weighted mixture of the conditionals plus `ux` times the apex opinion
    `(pyhx - ay * uhat, uhat)` -/
theorem C04_mixture_form (bx ax : Fin n → ℚ) (ux : ℚ) (cb : Fin n → Fin m → ℚ) (cu : Fin n → ℚ)
    (ay : Fin m → ℚ) :
    (∀ y, bRes bx ax ux cb cu ay y
      = ∑ x, bx x * cb x y + ux * (pyhx ax cb cu ay y - ay y * uhat ax cb cu ay)) ∧
    uRes bx ax ux cb cu ay = ∑ x, bx x * cu x + ux * uhat ax cb cu ay := by
  refine ⟨bRes_mixture bx ax ux cb cu ay, ?_⟩
  unfold uRes; ring

/-- the apex opinion `(pyhx - ay * uhat, uhat)`: it is a well-formed simplex, its projection under `ay`
    is `pyhx`, every mass is at least the least conditional mass, and its uncertainty is maximal with
    these properties: a larger uncertainty (same projection) pushes some mass below `bmin`. -/
theorem C04_apex (h : Hyp bx ax ux cb cu ay) :
    (∀ y, (pyhx ax cb cu ay y - ay y * uhat ax cb cu ay) + ay y * uhat ax cb cu ay
        = ∑ x, ax x * (cb x y + ay y * cu x)) ∧
    (∀ y, bmin cb y ≤ pyhx ax cb cu ay y - ay y * uhat ax cb cu ay) ∧
    (∀ y, 0 ≤ pyhx ax cb cu ay y - ay y * uhat ax cb cu ay) ∧
    0 ≤ uhat ax cb cu ay ∧ uhat ax cb cu ay ≤ 1 ∧
    (∑ y, (pyhx ax cb cu ay y - ay y * uhat ax cb cu ay) + uhat ax cb cu ay = 1) ∧
    (∀ u', uhat ax cb cu ay < u' → ∃ y, pyhx ax cb cu ay y - ay y * u' < bmin cb y) := by
  have hn := h.npos
  refine ⟨?_, apex_ge hn h, ?_, uhat_nonneg hn h, uhat_le_one hn h, ?_, ?_⟩
  · intro y
    show _ = pyhx ax cb cu ay y
    ring
  · intro y; linarith [apex_ge hn h y, bmin_nonneg hn h y]
  · rw [Finset.sum_sub_distrib, sum_pyhx h, ← Finset.sum_mul, h.hay]; ring
  · intro u' hu'
    obtain ⟨y, hy, e⟩ := (uhat_spec h).2
    refine ⟨y, ?_⟩
    have e' : ay y * uhat ax cb cu ay = pyhx ax cb cu ay y - bmin cb y := by
      rw [e]; unfold ucand; field_simp
    have := mul_lt_mul_of_pos_left hu' hy
    linarith

/-- an absolute opinion on `x0` returns exactly the conditional for `x0` -/
theorem C04_absolute (h : Hyp bx ax ux cb cu ay) (x0 : Fin n) (h1 : bx x0 = 1) :
    deduceOf (⟨liftT bx, XQ.fin ux, liftT ax⟩ : Opinion (XQ f) n) (condTab cb cu f) (liftT ay)
      = Opinion.mk' ((condTab cb cu f)[x0]) (liftT ay) := by
  rw [C04_refines h, condTab_get]
  unfold Opinion.mk'
  have e : bRes bx ax ux cb cu ay = cb x0 := funext (bRes_absolute h x0 h1)
  rw [e, uRes_absolute h x0 h1]

/-- a vacuous antecedent returns the apex opinion -/
theorem C04_vacuous_antecedent (h : Hyp bx ax ux cb cu ay) (h1 : ux = 1) :
    deduceOf (⟨liftT bx, XQ.fin ux, liftT ax⟩ : Opinion (XQ f) n) (condTab cb cu f) (liftT ay)
      = ⟨liftT (fun y => pyhx ax cb cu ay y - ay y * uhat ax cb cu ay), XQ.fin (uhat ax cb cu ay),
          liftT ay⟩ := by
  rw [C04_refines h]
  have e : bRes bx ax ux cb cu ay = fun y => pyhx ax cb cu ay y - ay y * uhat ax cb cu ay :=
    funext (bRes_vacuous h h1)
  rw [e, uRes_vacuous h h1]

/-! ### repair 9ec2d8b: no belief mass and no uncertainty below zero, for ALL operands

`deduce_of` clamps `u` and every `b[y]` at zero before `Simplex::normalized`.  The clamped values are finite `≥ 0`,
`+∞` or NaN; that class is closed under `+` and under `x / s`, so it survives the normalisation.  No well-formedness,
no finiteness of the operands is assumed: the operands range over every exact value incl. `±∞` and NaN. -/

/-- every belief mass and the uncertainty of `deduce_of`'s result is NOT below zero (`<` as in IEEE: a NaN or `+∞`
    result compares "not below"), for all operands whatsoever -/
theorem C04_masses_nonneg_gen (wx : Opinion (XQ f) n) (conds : CondTab (XQ f) n m) (ay : Tab (XQ f) m) :
    (∀ y : Fin m, Scalar.lt (deduceOf wx conds ay).b[y] (Scalar.zero : XQ f) = false) ∧
    Scalar.lt (deduceOf wx conds ay).u (Scalar.zero : XQ f) = false := by
  unfold deduceOf
  refine XQ.notNeg_normalized _ _ (fun y => ?_) (XQ.notNeg_clamp _)
  simp only [Fin.getElem_fin, Vector.getElem_ofFn]
  exact XQ.notNeg_clamp _

/-- … in particular every finite belief mass and a finite uncertainty of the result are `≥ 0` -/
theorem C04_masses_nonneg_fin (wx : Opinion (XQ f) n) (conds : CondTab (XQ f) n m) (ay : Tab (XQ f) m) :
    (∀ (y : Fin m) (q : ℚ), (deduceOf wx conds ay).b[y] = XQ.fin q → 0 ≤ q) ∧
    (∀ q : ℚ, (deduceOf wx conds ay).u = XQ.fin q → 0 ≤ q) := by
  obtain ⟨hb, hu⟩ := C04_masses_nonneg_gen wx conds ay
  refine ⟨fun y q hq => ?_, fun q hq => ?_⟩
  · have := hb y; rw [hq] at this; exact XQ.notNeg_fin.mp this
  · rw [hq] at hu; exact XQ.notNeg_fin.mp hu

/-- the same for `deduce` and `deduce_with` (which only choose the base rate on `Y`) -/
theorem C04_deduce_masses_nonneg_gen (wx : Opinion (XQ f) n) (conds : CondTab (XQ f) n m) (w : Opinion (XQ f) m)
    (hw : deduce wx conds = some w) :
    (∀ y : Fin m, Scalar.lt w.b[y] (Scalar.zero : XQ f) = false) ∧ Scalar.lt w.u (Scalar.zero : XQ f) = false := by
  unfold deduce at hw
  cases hm : mbr wx.a conds with
  | none => rw [hm] at hw; cases hw
  | some ay =>
    rw [hm] at hw
    cases hw
    exact C04_masses_nonneg_gen wx conds ay

/-- non-vacuity / the statement was FALSE before the repair: finite (not well-formed) operands on which the
    un-clamped `deduce_of` (`Pinned.deduceOfNoClamp`) returns the finite uncertainty `-3/8 < 0`, while the model
    returns `b = [1, 0]`, `u = 0` -/
example :
    let wx : Opinion (XQ .f64) 2 := ⟨#v[.fin (3/2), .fin 0], .fin (-1/2), #v[.fin (1/2), .fin (1/2)]⟩
    let conds : CondTab (XQ .f64) 2 2 := #v[⟨#v[.fin 1, .fin 0], .fin 0⟩, ⟨#v[.fin 0, .fin (1/2)], .fin (1/2)⟩]
    let ay : Tab (XQ .f64) 2 := #v[.fin (1/2), .fin (1/2)]
    (Pinned.deduceOfNoClamp wx conds ay).u = .fin (-3/8) ∧
    (deduceOf wx conds ay).u = .fin 0 ∧ (deduceOf wx conds ay).b = #v[.fin 1, .fin 0] := by
  decide +kernel

/-- non-vacuity: a binary antecedent, two ternary conditionals, a base rate with a zero entry -/
example : Hyp (n := 2) (m := 3) ![1/2, 1/4] ![1/3, 2/3] (1/4)
    ![![1/2, 1/4, 0], ![0, 1/2, 1/4]] ![1/4, 1/4] ![1/2, 0, 1/2] := by
  constructor <;>
    simp [Fin.sum_univ_two, Fin.sum_univ_three, Fin.forall_fin_succ] <;> norm_num

/-- non-vacuity, NaN branch: here `P(y₁‖X̂) = bmin y₁ = 1/4` with `ay y₁ = 0`, so the model's candidate
    entry for `y₁` is `0/0 = NaN` (in the previous example it is `+inf`); both are skipped by the `min`. -/
example : Hyp (n := 2) (m := 3) ![1/2, 1/4] ![1/3, 2/3] (1/4)
    ![![1/2, 1/4, 0], ![1/4, 1/4, 1/4]] ![1/4, 1/4] ![1/2, 0, 1/2] := by
  constructor <;>
    simp [Fin.sum_univ_two, Fin.sum_univ_three, Fin.forall_fin_succ] <;> norm_num

end SLV.Props.C04
