/-
  C02 — Fusion returns well-formed opinions.
  "Fusing two well-formed opinions with any of the four operators always returns a well-formed opinion:
   finite masses in [0,1] summing to 1, and a base-rate distribution summing to 1 whose every entry lies
   between the two operands' entries (and equals them when the operands share a base rate).  Holds for
   vacuous, dogmatic, nearly vacuous and nearly dogmatic operands, zero base-rate entries, shared base
   rates; fusion never panics."

  All statements are about the executable model (`fuse`, `fuseSimplex`, `fuseSS`, `fuseAssign`,
  `computeSimplex`, `computeBaseRate` in SLV/Model/Fuse.lean) at the exact semantics `XQ f`, for every
  domain size `n`, every operator, every arm of the guard ladder (tolerance bands included) and both
  values of `same` (= the operands share the base-rate object).  `ε = f.eps`.

  The closed form is `FuseQ.fuseQ` (SLV/Refine/FuseLemmas.lean): the rational guard ladders
  `FuseQ.simplexQ` / `FuseQ.baseRateQ`, for ECm followed by the uncertainty maximisation under the
  fused base rate.

  FINDING (per-entry `ulps_eq!` shortcut).  `compute_base_rate` returns `lhs.base_rate[i]` instead of
  the formula value wherever `ulps_eq!(lhs.base_rate[i], rhs.base_rate[i])`.  An entry taking the
  shortcut with UNEQUAL values replaces a convex combination of `a1 i`, `a2 i` by `a1 i`, so the
  fused base rate need not sum to exactly one: `|Σa − 1| ≤ Σ_{i : shortcut} |a1 i − a2 i|`
  (`C02_base_rate_sum_bound`).  It sums to exactly one when the shortcut is only taken at equal
  entries (`C02_base_rate_sum`), e.g. when the base rates are equal, or differ by more than 4 ulps
  and more than ε at every entry where they differ.  The other parts of the property hold unconditionally.
-/
import SLV.Props.C09
import SLV.Refine.FuseLemmas
import SLV.Refine.C02Lemmas

namespace SLV.Props.C02
open SLV Scalar FuseQ
open SLV.Props.C09 (WF)

variable {f : Fmt} {n : Nat}

/-! ### 1. totality: every component finite, in every arm -/

/-- `fuse` on well-formed operands returns lifted rational data (the closed form `fuseQ`): no division
    by zero is reached in any arm — formula arms have `ε < u_i < 1-2ε`, the both-dogmatic arm divides by
    `(2-u1-u2)/2 ≥ 1-ε`, and ECm's projection normaliser is positive even when the shortcut makes the
    fused base rate sum to something other than 1. -/
theorem C02_total (op : FuseOp) (same : Bool) {b1 b2 a1 a2 : Fin n → ℚ} {u1 u2 : ℚ}
    (h1 : WF b1 u1 a1) (h2 : WF b2 u2 a2) :
    fuse op same (⟨liftT b1, XQ.fin u1, liftT a1⟩ : Opinion (XQ f) n) ⟨liftT b2, XQ.fin u2, liftT a2⟩
      = ⟨liftT (fuseQ f op same b1 u1 a1 b2 u2 a2).1, XQ.fin (fuseQ f op same b1 u1 a1 b2 u2 a2).2.1,
          liftT (fuseQ f op same b1 u1 a1 b2 u2 a2).2.2⟩ :=
  fuse_lift_all op same h1 h2

/-- existential form -/
theorem C02_total' (op : FuseOp) (same : Bool) {b1 b2 a1 a2 : Fin n → ℚ} {u1 u2 : ℚ}
    (h1 : WF b1 u1 a1) (h2 : WF b2 u2 a2) :
    ∃ (b : Fin n → ℚ) (u : ℚ) (a : Fin n → ℚ),
      fuse op same (⟨liftT b1, XQ.fin u1, liftT a1⟩ : Opinion (XQ f) n) ⟨liftT b2, XQ.fin u2, liftT a2⟩
        = ⟨liftT b, XQ.fin u, liftT a⟩ :=
  ⟨_, _, _, C02_total op same h1 h2⟩

/-! ### 2. the fused simplex is well-formed -/

/-- ACm, Avg, Wgh: belief masses in [0,1], uncertainty in [0,1], `Σb + u = 1` — every arm, any base
    rates, shared or not -/
theorem C02_simplex_wf {op : FuseOp} (hop : op ≠ .ecm) (same : Bool) {b1 b2 a1 a2 : Fin n → ℚ}
    {u1 u2 : ℚ} (h1 : WF b1 u1 a1) (h2 : WF b2 u2 a2) :
    (∀ i, 0 ≤ (fuseQ f op same b1 u1 a1 b2 u2 a2).1 i) ∧
    (∀ i, (fuseQ f op same b1 u1 a1 b2 u2 a2).1 i ≤ 1) ∧
    0 ≤ (fuseQ f op same b1 u1 a1 b2 u2 a2).2.1 ∧ (fuseQ f op same b1 u1 a1 b2 u2 a2).2.1 ≤ 1 ∧
    ∑ i, (fuseQ f op same b1 u1 a1 b2 u2 a2).1 i + (fuseQ f op same b1 u1 a1 b2 u2 a2).2.1 = 1 := by
  rw [fuseQ_of_ne_ecm hop]
  have hS := simplexQ_swf f op h1.swf h2.swf
  exact ⟨hS.hb, fun i => by linarith [hS.b_le i, hS.hu], hS.hu, hS.u_le_one, hS.hs⟩

/-- ECm (= ACm followed by `uncertainty_maximized` under the fused base rate `a`), when no base-rate
    entry takes the `ulps_eq!` shortcut with unequal values — e.g. shared or equal base rates, or base
    rates differing by more than ε and 4 ulps wherever they differ:
    `Σb + u = 1`, `u ∈ [0,1]`, masses `≤ 1`, `≥ 0` wherever `a i > ε`, and never below `-ε`
    (entries with `a i ≤ ε` are skipped by the `is_zero` guard of `max_uncertainty`, see C09). -/
theorem C02_simplex_wf_ecm (same : Bool) {b1 b2 a1 a2 : Fin n → ℚ} {u1 u2 : ℚ}
    (h1 : WF b1 u1 a1) (h2 : WF b2 u2 a2)
    (hsc : same = false → ∀ i, sc f a1 a2 i = true → a1 i = a2 i) :
    (∀ i, f.eps < (fuseQ f .ecm same b1 u1 a1 b2 u2 a2).2.2 i →
        0 ≤ (fuseQ f .ecm same b1 u1 a1 b2 u2 a2).1 i) ∧
    (∀ i, -f.eps ≤ (fuseQ f .ecm same b1 u1 a1 b2 u2 a2).1 i) ∧
    (∀ i, (fuseQ f .ecm same b1 u1 a1 b2 u2 a2).1 i ≤ 1) ∧
    0 ≤ (fuseQ f .ecm same b1 u1 a1 b2 u2 a2).2.1 ∧ (fuseQ f .ecm same b1 u1 a1 b2 u2 a2).2.1 ≤ 1 ∧
    ∑ i, (fuseQ f .ecm same b1 u1 a1 b2 u2 a2).1 i + (fuseQ f .ecm same b1 u1 a1 b2 u2 a2).2.1 = 1 := by
  obtain ⟨hA0, hA⟩ := baseRateQ_dist (f := f) .ecm same h1 h2 hsc
  have hw := (simplexQ_swf f .ecm h1.swf h2.swf).toWF hA0 hA
  rw [fuseQ_ecm_of_dist same h1.swf h2.swf hA0 hA]
  obtain ⟨hs, hu0, hu1, hpos, hge⟩ := C09.C09_max_wf (f := f) hw
  refine ⟨hpos, hge, fun i => ?_, hu0, hu1, hs⟩
  -- b i ≤ projected probability ≤ 1
  have hp := C09.C09_projection_dist hw
  have hle := Finset.single_le_sum (f := fun j => (simplexQ f .ecm b1 u1 b2 u2).1 j
      + baseRateQ f .ecm same a1 u1 a2 u2 j * (simplexQ f .ecm b1 u1 b2 u2).2)
    (fun j _ => hp.1 j) (Finset.mem_univ i)
  rw [hp.2] at hle
  have : 0 ≤ baseRateQ f .ecm same a1 u1 a2 u2 i * C09.uhat f (simplexQ f .ecm b1 u1 b2 u2).1
      (baseRateQ f .ecm same a1 u1 a2 u2) (simplexQ f .ecm b1 u1 b2 u2).2 := mul_nonneg (hA0 i) hu0
  show C09.bmax f _ _ _ i ≤ 1
  unfold C09.bmax
  linarith

/-- ECm with NO hypothesis on the shortcut: the uncertainty is still in [0,1] and the masses are
    finite, but the mass total inherits the defect of the base-rate sum:
    `Σb + u = 1 + u (1 - Σa)`. -/
theorem C02_simplex_ecm_gen (same : Bool) {b1 b2 a1 a2 : Fin n → ℚ} {u1 u2 : ℚ}
    (h1 : WF b1 u1 a1) (h2 : WF b2 u2 a2) :
    0 ≤ (fuseQ f .ecm same b1 u1 a1 b2 u2 a2).2.1 ∧ (fuseQ f .ecm same b1 u1 a1 b2 u2 a2).2.1 ≤ 1 ∧
    ∑ i, (fuseQ f .ecm same b1 u1 a1 b2 u2 a2).1 i + (fuseQ f .ecm same b1 u1 a1 b2 u2 a2).2.1
      = 1 + (fuseQ f .ecm same b1 u1 a1 b2 u2 a2).2.1 *
          (1 - ∑ i, (fuseQ f .ecm same b1 u1 a1 b2 u2 a2).2.2 i) := by
  have hN := ecm_norm_pos f same h1 h2
  have hS := simplexQ_swf f .ecm h1.swf h2.swf
  have hA0 := baseRateQ_nonneg f .ecm same h1.hu h1.swf.u_le_one h2.hu h2.swf.u_le_one h1.ha0 h2.ha0
  set S := simplexQ f .ecm b1 u1 b2 u2 with hSdef
  set A := baseRateQ f .ecm same a1 u1 a2 u2 with hAdef
  have hR : fuseQ f .ecm same b1 u1 a1 b2 u2 a2
      = (fun i => projN S.1 A S.2 i - A i * uhatN f S.1 A S.2, uhatN f S.1 A S.2, A) := by
    unfold fuseQ; simp only [if_true]; rfl
  rw [hR]
  have hp0 : ∀ i, 0 ≤ projN S.1 A S.2 i := fun i =>
    div_nonneg (add_nonneg (hS.hb i) (mul_nonneg (hA0 i) hS.hu)) hN.le
  have hpsum : ∑ i, projN S.1 A S.2 i = 1 := by
    unfold projN; rw [← Finset.sum_div, div_self (ne_of_gt hN)]
  refine ⟨?_, (foldMin_spec _ _).1, ?_⟩
  · show 0 ≤ uhatN f S.1 A S.2
    unfold uhatN
    rcases (foldMin_spec (fun i => if |A i| ≤ f.eps then 1 else projN S.1 A S.2 i / A i) 1).2.2
      with h | ⟨i, h⟩
    · rw [h]; exact zero_le_one
    · rw [h]; split
      · exact zero_le_one
      · exact div_nonneg (hp0 i) (hA0 i)
  · show ∑ i, (projN S.1 A S.2 i - A i * uhatN f S.1 A S.2) + uhatN f S.1 A S.2 = _
    rw [Finset.sum_sub_distrib, hpsum, ← Finset.sum_mul]; ring

/-! ### 3. the fused base rate -/

/-- every fused base-rate entry lies between the two operands' entries — all operators, all arms
    (a convex combination with non-negative weights, a clone, or the left entry under the shortcut) -/
theorem C02_base_rate_between (op : FuseOp) (same : Bool) {b1 b2 a1 a2 : Fin n → ℚ} {u1 u2 : ℚ}
    (h1 : WF b1 u1 a1) (h2 : WF b2 u2 a2) (i : Fin n) :
    min (a1 i) (a2 i) ≤ (fuseQ f op same b1 u1 a1 b2 u2 a2).2.2 i ∧
    (fuseQ f op same b1 u1 a1 b2 u2 a2).2.2 i ≤ max (a1 i) (a2 i) := by
  rw [fuseQ_a]
  exact baseRateQ_between f op same a1 a2 h1.hu h1.swf.u_le_one h2.hu h2.swf.u_le_one i

/-- in particular every entry is in [0,1] -/
theorem C02_base_rate_unit (op : FuseOp) (same : Bool) {b1 b2 a1 a2 : Fin n → ℚ} {u1 u2 : ℚ}
    (h1 : WF b1 u1 a1) (h2 : WF b2 u2 a2) (i : Fin n) :
    0 ≤ (fuseQ f op same b1 u1 a1 b2 u2 a2).2.2 i ∧ (fuseQ f op same b1 u1 a1 b2 u2 a2).2.2 i ≤ 1 := by
  obtain ⟨l, r⟩ := C02_base_rate_between (f := f) op same h1 h2 i
  have e1 : a1 i ≤ 1 := by
    have := Finset.single_le_sum (f := a1) (fun j _ => h1.ha0 j) (Finset.mem_univ i)
    linarith [h1.ha]
  have e2 : a2 i ≤ 1 := by
    have := Finset.single_le_sum (f := a2) (fun j _ => h2.ha0 j) (Finset.mem_univ i)
    linarith [h2.ha]
  exact ⟨le_trans (le_min (h1.ha0 i) (h2.ha0 i)) l, le_trans r (max_le e1 e2)⟩

/-- a shared base-rate object (`std::ptr::eq`) is returned unchanged; so are equal base-rate VALUES
    (every entry takes the reflexive shortcut, or the formula / clone gives the same value) — in fact
    any single entry on which the operands agree is returned unchanged -/
theorem C02_base_rate_shared (op : FuseOp) {b1 b2 a1 a2 : Fin n → ℚ} {u1 u2 : ℚ}
    (h1 : WF b1 u1 a1) (h2 : WF b2 u2 a2) :
    (fuseQ f op true b1 u1 a1 b2 u2 a2).2.2 = a1 ∧
    (∀ same i, a1 i = a2 i → (fuseQ f op same b1 u1 a1 b2 u2 a2).2.2 i = a1 i) ∧
    (∀ same, a1 = a2 → (fuseQ f op same b1 u1 a1 b2 u2 a2).2.2 = a1) := by
  have key : ∀ same i, a1 i = a2 i → (fuseQ f op same b1 u1 a1 b2 u2 a2).2.2 i = a1 i := by
    intro same i h
    rw [fuseQ_a]
    exact baseRateQ_of_eq f op same a1 a2 h1.hu h1.swf.u_le_one h2.hu h2.swf.u_le_one h
  refine ⟨by rw [fuseQ_a, baseRateQ_same], key, fun same h => funext fun i => key same i (by rw [h])⟩

/-! ### 4. the base-rate sum -/

/-- the fused base rate sums to one when no entry takes the `ulps_eq!` shortcut with unequal values
    (always the case for a shared base rate) -/
theorem C02_base_rate_sum (op : FuseOp) (same : Bool) {b1 b2 a1 a2 : Fin n → ℚ} {u1 u2 : ℚ}
    (h1 : WF b1 u1 a1) (h2 : WF b2 u2 a2)
    (hsc : same = false → ∀ i, sc f a1 a2 i = true → a1 i = a2 i) :
    ∑ i, (fuseQ f op same b1 u1 a1 b2 u2 a2).2.2 i = 1 := by
  rw [fuseQ_a]; exact (baseRateQ_dist op same h1 h2 hsc).2

/-- in general: `|Σa − 1| ≤ Σ_{i : shortcut taken} |a1 i − a2 i|` (each such entry replaces a value
    between `a1 i` and `a2 i` by `a1 i`).  Bounding the right-hand side by a multiple of ε needs the
    bit-level analysis of `ulps_eq!` (`ulpIdx`), which is not done here. -/
theorem C02_base_rate_sum_bound (op : FuseOp) (same : Bool) {b1 b2 a1 a2 : Fin n → ℚ} {u1 u2 : ℚ}
    (h1 : WF b1 u1 a1) (h2 : WF b2 u2 a2) :
    |∑ i, (fuseQ f op same b1 u1 a1 b2 u2 a2).2.2 i - 1|
      ≤ ∑ i, if sc f a1 a2 i then |a1 i - a2 i| else 0 := by
  rw [fuseQ_a]
  exact baseRateQ_sum_bound f op same h1.hu h1.swf.u_le_one h2.hu h2.swf.u_le_one h1.ha h2.ha

/-- the whole result is a well-formed opinion (ACm, Avg, Wgh; shortcut only at equal entries) -/
theorem C02_wf {op : FuseOp} (hop : op ≠ .ecm) (same : Bool) {b1 b2 a1 a2 : Fin n → ℚ} {u1 u2 : ℚ}
    (h1 : WF b1 u1 a1) (h2 : WF b2 u2 a2)
    (hsc : same = false → ∀ i, sc f a1 a2 i = true → a1 i = a2 i) :
    WF (fuseQ f op same b1 u1 a1 b2 u2 a2).1 (fuseQ f op same b1 u1 a1 b2 u2 a2).2.1
      (fuseQ f op same b1 u1 a1 b2 u2 a2).2.2 := by
  obtain ⟨hb, _, hu, _, hs⟩ := C02_simplex_wf (f := f) hop same h1 h2
  exact ⟨hb, hu, hs, fun i => (C02_base_rate_unit op same h1 h2 i).1,
    C02_base_rate_sum op same h1 h2 hsc⟩

/-- ECm: additionally no fused base-rate entry in the guard band (0, ε] -/
theorem C02_wf_ecm (same : Bool) {b1 b2 a1 a2 : Fin n → ℚ} {u1 u2 : ℚ}
    (h1 : WF b1 u1 a1) (h2 : WF b2 u2 a2)
    (hsc : same = false → ∀ i, sc f a1 a2 i = true → a1 i = a2 i)
    (hband : ∀ i, (fuseQ f .ecm same b1 u1 a1 b2 u2 a2).2.2 i = 0 ∨
      f.eps < (fuseQ f .ecm same b1 u1 a1 b2 u2 a2).2.2 i) :
    WF (fuseQ f .ecm same b1 u1 a1 b2 u2 a2).1 (fuseQ f .ecm same b1 u1 a1 b2 u2 a2).2.1
      (fuseQ f .ecm same b1 u1 a1 b2 u2 a2).2.2 := by
  obtain ⟨hA0, hA⟩ := baseRateQ_dist (f := f) .ecm same h1 h2 hsc
  have hw := (simplexQ_swf f .ecm h1.swf h2.swf).toWF hA0 hA
  rw [fuseQ_ecm_of_dist same h1.swf h2.swf hA0 hA] at hband ⊢
  exact C09.max_WF hw hband

/-! ### 5. the other overloads -/

/-- `Fuse<OpinionRef, &Simplex>` is `fuse` with the left operand's base-rate object on both sides
    (definitional), so the base rate is returned unchanged — any scalar type, any operands -/
theorem C02_fuse_os {α : Type} [Scalar α] (op : FuseOp) (l : Opinion α n) (s : Simplex α n) :
    fuseSimplex op l s = fuse op true l (Opinion.mk' s l.a) ∧ (fuseSimplex op l s).a = l.a := by
  refine ⟨rfl, ?_⟩
  unfold fuseSimplex fuse
  simp only [Opinion.mk', computeBaseRate_same]

/-- … and on well-formed lifted operands it is the closed form with `same = true` -/
theorem C02_fuse_os_lift (op : FuseOp) {b1 b2 a1 : Fin n → ℚ} {u1 u2 : ℚ}
    (h1 : WF b1 u1 a1) (h2 : SWF b2 u2) :
    fuseSimplex op (⟨liftT b1, XQ.fin u1, liftT a1⟩ : Opinion (XQ f) n) ⟨liftT b2, XQ.fin u2⟩
      = ⟨liftT (fuseQ f op true b1 u1 a1 b2 u2 a1).1, XQ.fin (fuseQ f op true b1 u1 a1 b2 u2 a1).2.1,
          liftT a1⟩ := by
  have h2' : WF b2 u2 a1 := h2.toWF h1.ha0 h1.ha
  have := C02_total (f := f) op true h1 h2'
  rw [fuseQ_a, baseRateQ_same] at this
  exact this

/-- `Fuse<&Simplex, &Simplex>` panics (model: `none`) exactly for ECm; otherwise it is `compute_simlex`,
    which on well-formed lifted simplexes returns a well-formed lifted simplex -/
theorem C02_fuse_ss {α : Type} [Scalar α] (op : FuseOp) (l r : Simplex α n) :
    (fuseSS op l r = none ↔ op = .ecm) ∧ (op ≠ .ecm → fuseSS op l r = some (computeSimplex op l r)) := by
  unfold fuseSS
  by_cases h : op = .ecm <;> simp [h]

theorem C02_fuse_ss_wf {op : FuseOp} (hop : op ≠ .ecm) {b1 b2 : Fin n → ℚ} {u1 u2 : ℚ}
    (h1 : SWF b1 u1) (h2 : SWF b2 u2) :
    fuseSS op (⟨liftT b1, XQ.fin u1⟩ : Simplex (XQ f) n) ⟨liftT b2, XQ.fin u2⟩
      = some ⟨liftT (simplexQ f op b1 u1 b2 u2).1, XQ.fin (simplexQ f op b1 u1 b2 u2).2⟩ ∧
    SWF (simplexQ f op b1 u1 b2 u2).1 (simplexQ f op b1 u1 b2 u2).2 := by
  refine ⟨?_, simplexQ_swf f op h1 h2⟩
  rw [(C02_fuse_ss op _ _).2 hop, computeSimplex_lift op h1 h2]

/-- `fuse_assign` is `*lhs = fuse(lhs, rhs)` -/
theorem C02_fuse_assign {α : Type} [Scalar α] (op : FuseOp) (same : Bool) (l r : Opinion α n) :
    fuseAssign op same l r = fuse op same l r := rfl

/-! ### witness for the finding -/

/-- FINDING witness (f32, Avg, ternary domain).  Both operands are `b = (1/4, 1/4, 0)`, `u = 1/2`; base
    rates `a1 = (1/2 + ε/2, 1/2 - ε/2, 0)` and `a2 = (1/2, 0, 1/2)`.  Entry 0 takes the `ulps_eq!`
    shortcut (`|a1 0 - a2 0| = ε/2 ≤ ε`) and returns `a1 0` instead of the mean; entries 1 and 2 do not.
    The fused base rate is `(1/2 + ε/2, 1/4 - ε/4, 1/4)` and sums to `1 + ε/4 ≠ 1`.
    (The deviation is inside the band accepted by `check_base_rate`, `is_one` = `[1-2ε, 1+4ε]`.) -/
theorem C02_base_rate_sum_defect :
    ∃ (b a1 a2 : Fin 3 → ℚ), WF b (1/2) a1 ∧ WF b (1/2) a2 ∧
      ∃ (b' : Fin 3 → ℚ) (u' : ℚ) (a' : Fin 3 → ℚ),
        fuse .avg false (⟨liftT b, XQ.fin (1/2), liftT a1⟩ : Opinion (XQ .f32) 3)
            ⟨liftT b, XQ.fin (1/2), liftT a2⟩ = ⟨liftT b', XQ.fin u', liftT a'⟩ ∧
        ∑ i, a' i = 1 + Fmt.f32.eps / 4 ∧ ∑ i, a' i ≠ 1 := by
  have he := XQ.eps_pos Fmt.f32
  have hl := XQ.eps_lt Fmt.f32
  refine ⟨![1/4, 1/4, 0], ![8388609/16777216, 8388607/16777216, 0], ![1/2, 0, 1/2], ?_, ?_, ?_⟩
  · constructor <;> simp [Fin.forall_fin_succ, Fin.sum_univ_succ] <;> norm_num
  · constructor <;> simp [Fin.forall_fin_succ, Fin.sum_univ_succ] <;> norm_num
  have h1 : WF (n := 3) ![1/4, 1/4, 0] (1/2) ![8388609/16777216, 8388607/16777216, 0] := by
    constructor <;> simp [Fin.forall_fin_succ, Fin.sum_univ_succ] <;> norm_num
  have h2 : WF (n := 3) ![1/4, 1/4, 0] (1/2) ![1/2, 0, 1/2] := by
    constructor <;> simp [Fin.forall_fin_succ, Fin.sum_univ_succ] <;> norm_num
  refine ⟨_, _, _, C02_total .avg false h1 h2, ?_⟩
  have nd : ¬ GDog Fmt.f32 (1/2) := by unfold GDog; rw [abs_of_pos (by norm_num)]; linarith
  have hA : (fuseQ Fmt.f32 .avg false ![1/4, 1/4, 0] (1/2) ![8388609/16777216, 8388607/16777216, 0]
        ![1/4, 1/4, 0] (1/2) ![1/2, 0, 1/2]).2.2
      = short Fmt.f32 ![8388609/16777216, 8388607/16777216, 0] ![1/2, 0, 1/2]
          (meanA ![8388609/16777216, 8388607/16777216, 0] ![1/2, 0, 1/2]) := by
    rw [fuseQ_a]; unfold baseRateQ
    simp only [Bool.false_eq_true, if_false, nd, and_self]
  have s0 : sc Fmt.f32 (n := 3) ![8388609/16777216, 8388607/16777216, 0] ![1/2, 0, 1/2] 0 = true :=
    ulpsEq32_b_half
  have s1 : sc Fmt.f32 (n := 3) ![8388609/16777216, 8388607/16777216, 0] ![1/2, 0, 1/2] 1 = false :=
    ulpsEq32_a_zero
  have s2 : sc Fmt.f32 (n := 3) ![8388609/16777216, 8388607/16777216, 0] ![1/2, 0, 1/2] 2 = false :=
    ulpsEq32_half_zero.2
  have hsum : ∑ i, (fuseQ Fmt.f32 .avg false ![1/4, 1/4, 0] (1/2)
        ![8388609/16777216, 8388607/16777216, 0] ![1/4, 1/4, 0] (1/2) ![1/2, 0, 1/2]).2.2 i
      = 1 + Fmt.f32.eps / 4 := by
    rw [hA, Fin.sum_univ_three]
    unfold short
    rw [s0, s1, s2]
    simp [meanA, Fmt.eps, Fmt.mant]
    norm_num
  exact ⟨hsum, by rw [hsum]; linarith⟩

/-! ### non-vacuity -/

/-- two non-trivial well-formed ternary opinions with different base rates, a zero base-rate entry,
    and uncertainties in the formula range -/
example : WF (n := 3) ![1/4, 1/8, 1/8] (1/2) ![1/4, 1/4, 1/2] ∧
    WF (n := 3) ![1/2, 0, 1/4] (1/4) ![1/2, 1/2, 0] := by
  constructor <;> constructor <;> simp [Fin.forall_fin_succ, Fin.sum_univ_succ] <;> norm_num

/-- nearly vacuous / nearly dogmatic well-formed operands (inside the tolerance bands) -/
example : WF (n := 2) ![f.eps, 0] (1 - f.eps) ![1/4, 3/4] ∧
    WF (n := 2) ![1 - f.eps, 0] f.eps ![3/4, 1/4] := by
  have h0 := XQ.eps_pos f
  have := XQ.eps_lt f
  constructor
  · constructor
    · exact Fin.forall_fin_two.mpr ⟨by simpa using h0.le, by simp⟩
    · linarith
    · simp [Fin.sum_univ_two]
    · exact Fin.forall_fin_two.mpr ⟨by norm_num, by norm_num⟩
    · simp [Fin.sum_univ_two]; norm_num
  · constructor
    · exact Fin.forall_fin_two.mpr ⟨by simp; linarith, by simp⟩
    · exact h0.le
    · simp [Fin.sum_univ_two]
    · exact Fin.forall_fin_two.mpr ⟨by norm_num, by norm_num⟩
    · simp [Fin.sum_univ_two]; norm_num

/-- the shortcut hypothesis holds trivially for equal base rates … -/
example (a : Fin n → ℚ) : ∀ i, sc f a a i = true → a i = a i := fun _ _ => rfl

/-- … and is satisfiable by different base rates (f32): the only entry taking the shortcut is the one
    where they agree -/
example : ∀ i, sc Fmt.f32 (n := 3) ![1/2, 1/2, 0] ![1/2, 0, 1/2] i = true →
    (![1/2, 1/2, 0] : Fin 3 → ℚ) i = (![1/2, 0, 1/2] : Fin 3 → ℚ) i := hsc32_witness

/-- a concrete evaluation: averaging fusion of two binary opinions sharing their base rate (f64) -/
example :
    fuse .avg true (⟨liftT ![1/2, 0], XQ.fin (1/2), liftT ![1/4, 3/4]⟩ : Opinion (XQ .f64) 2)
        ⟨liftT ![0, 1/2], XQ.fin (1/2), liftT ![1/4, 3/4]⟩
      = ⟨liftT ![1/4, 1/4], XQ.fin (1/2), liftT ![1/4, 3/4]⟩ := by
  have h1 : WF (n := 2) ![1/2, 0] (1/2) ![1/4, 3/4] := by
    constructor <;> simp [Fin.forall_fin_two, Fin.sum_univ_two] <;> norm_num
  have h2 : WF (n := 2) ![0, 1/2] (1/2) ![1/4, 3/4] := by
    constructor <;> simp [Fin.forall_fin_two, Fin.sum_univ_two] <;> norm_num
  have he : (Fmt.f64).eps < 1 / 16 := XQ.eps_lt _
  have hp := XQ.eps_pos Fmt.f64
  have nd : ¬ GDog Fmt.f64 (1/2) := by unfold GDog; rw [abs_of_pos (by norm_num)]; linarith
  rw [C02_total .avg true h1 h2, fuseQ_of_ne_ecm (by decide), baseRateQ_same]
  have e : simplexQ Fmt.f64 .avg ![1/2, 0] (1/2) ![0, 1/2] (1/2)
      = (avgB ![1/2, 0] (1/2) ![0, 1/2] (1/2), avgU (1/2) (1/2)) := by
    unfold simplexQ; simp only [nd, and_self, if_false]
  rw [e]
  have eb : avgB (n := 2) ![1/2, 0] (1/2) ![0, 1/2] (1/2) = ![1/4, 1/4] := by
    funext i; revert i
    exact Fin.forall_fin_two.mpr ⟨by norm_num [avgB], by norm_num [avgB]⟩
  have eu : avgU (1/2) (1/2) = 1/2 := by unfold avgU; norm_num
  dsimp only
  rw [eb, eu]

end SLV.Props.C02
