/-
  C02 — Fusion returns well-formed opinions.
  "Fusing two well-formed opinions with any of the four operators always returns a well-formed opinion:
   finite masses in [0,1] summing to 1, and a base-rate distribution summing to 1 whose every entry lies
   between the two operands' entries (and equals them when the operands share a base rate).  Holds for
   vacuous, dogmatic, nearly vacuous and nearly dogmatic operands, zero base-rate entries, shared base
   rates; fusion never panics."

  All statements are about the executable model (`fuse`, `fuseSimplex`, `fuseSS`, `fuseAssign`,
  `computeSimplex`, `computeBaseRate` in SLV/Model/Fuse.lean) at the exact semantics `XQ f`, for every
  domain size `n`, every operator, every arm of the guard ladder (tolerance bands included) and both
  values of `same` (= the operands share the base-rate object).  `ε = f.eps`.

  The closed form is `FuseQ.fuseQ` (SLV/Refine/FuseLemmas.lean): the rational guard ladders
  `FuseQ.simplexQ` / `FuseQ.baseRateQ`, for ECm followed by the uncertainty maximisation under the
  fused base rate.

  REPAIRED FINDING (per-entry shortcut; /repo c0b2ed5 + c8a7116).  `compute_base_rate` used to return
  `lhs.base_rate[i]` instead of the formula value wherever `ulps_eq!(lhs.base_rate[i], rhs.base_rate[i])`.  An entry
  taking that shortcut with UNEQUAL values replaced a convex combination of `a1 i`, `a2 i` by `a1 i`, so the fused
  base rate did not always sum to one (`C02_base_rate_sum_defect`, kept on the pinned definition
  `Pinned.computeBaseRateLeft`), and the theorems on the sum, on ECm's simplex and on whole-opinion well-formedness
  carried the hypothesis `hsc` "the shortcut is only taken at equal entries".  Since c8a7116 the test is the exact
  `lhs.base_rate[i] == rhs.base_rate[i]`: the hypothesis holds by construction (`FuseQ.hsc`) and has been DROPPED
  from `C02_simplex_wf_ecm`, `C02_base_rate_sum`, `C02_wf`, `C02_wf_ecm`: every part of the property now holds
  unconditionally (`C02_base_rate_between_unconditional` collects the base-rate clauses on the model).
-/
import SLV.Props.C09
import SLV.Refine.FuseLemmas
import SLV.Refine.C02Lemmas
import SLV.Model.Pinned

namespace SLV.Props.C02
open SLV Scalar FuseQ
open SLV.Props.C09 (WF)

variable {f : Fmt} {n : Nat}

/-! ### 1. totality: every component finite, in every arm -/

/-- `fuse` on well-formed operands returns lifted rational data (the closed form `fuseQ`): no division
    by zero is reached in any arm — formula arms have `ε < u_i < 1-2ε`, the both-dogmatic arm divides by
    `(2-u1-u2)/2 ≥ 1-ε`, and ECm's projection normaliser is positive even when the shortcut makes the
    fused base rate sum to something other than 1. -/
theorem C02_total (op : FuseOp) (same : Bool) {b1 b2 a1 a2 : Fin n → ℚ} {u1 u2 : ℚ}
    (h1 : WF b1 u1 a1) (h2 : WF b2 u2 a2) :
    fuse op same (⟨liftT b1, XQ.fin u1, liftT a1⟩ : Opinion (XQ f) n) ⟨liftT b2, XQ.fin u2, liftT a2⟩
      = ⟨liftT (fuseQ f op same b1 u1 a1 b2 u2 a2).1, XQ.fin (fuseQ f op same b1 u1 a1 b2 u2 a2).2.1,
          liftT (fuseQ f op same b1 u1 a1 b2 u2 a2).2.2⟩ :=
  fuse_lift_all op same h1 h2

/-- existential form -/
theorem C02_total' (op : FuseOp) (same : Bool) {b1 b2 a1 a2 : Fin n → ℚ} {u1 u2 : ℚ}
    (h1 : WF b1 u1 a1) (h2 : WF b2 u2 a2) :
    ∃ (b : Fin n → ℚ) (u : ℚ) (a : Fin n → ℚ),
      fuse op same (⟨liftT b1, XQ.fin u1, liftT a1⟩ : Opinion (XQ f) n) ⟨liftT b2, XQ.fin u2, liftT a2⟩
        = ⟨liftT b, XQ.fin u, liftT a⟩ :=
  ⟨_, _, _, C02_total op same h1 h2⟩

/-! ### 2. the fused simplex is well-formed -/

/-- ACm, Avg, Wgh: belief masses in [0,1], uncertainty in [0,1], `Σb + u = 1` — every arm, any base
    rates, shared or not -/
theorem C02_simplex_wf {op : FuseOp} (hop : op ≠ .ecm) (same : Bool) {b1 b2 a1 a2 : Fin n → ℚ}
    {u1 u2 : ℚ} (h1 : WF b1 u1 a1) (h2 : WF b2 u2 a2) :
    (∀ i, 0 ≤ (fuseQ f op same b1 u1 a1 b2 u2 a2).1 i) ∧
    (∀ i, (fuseQ f op same b1 u1 a1 b2 u2 a2).1 i ≤ 1) ∧
    0 ≤ (fuseQ f op same b1 u1 a1 b2 u2 a2).2.1 ∧ (fuseQ f op same b1 u1 a1 b2 u2 a2).2.1 ≤ 1 ∧
    ∑ i, (fuseQ f op same b1 u1 a1 b2 u2 a2).1 i + (fuseQ f op same b1 u1 a1 b2 u2 a2).2.1 = 1 := by
  rw [fuseQ_of_ne_ecm hop]
  have hS := simplexQ_swf f op h1.swf h2.swf
  exact ⟨hS.hb, fun i => by linarith [hS.b_le i, hS.hu], hS.hu, hS.u_le_one, hS.hs⟩

/-- ECm (= ACm followed by `uncertainty_maximized` under the fused base rate `a`; no hypothesis on the base rates
    since repair c8a7116):
    `Σb + u = 1`, `u ∈ [0,1]`, masses `≤ 1`, `≥ 0` wherever `a i > ε`, and never below `-ε`
    (entries with `a i ≤ ε` are skipped by the `is_zero` guard of `max_uncertainty`, see C09). -/
theorem C02_simplex_wf_ecm (same : Bool) {b1 b2 a1 a2 : Fin n → ℚ} {u1 u2 : ℚ}
    (h1 : WF b1 u1 a1) (h2 : WF b2 u2 a2) :
    (∀ i, f.eps < (fuseQ f .ecm same b1 u1 a1 b2 u2 a2).2.2 i →
        0 ≤ (fuseQ f .ecm same b1 u1 a1 b2 u2 a2).1 i) ∧
    (∀ i, -f.eps ≤ (fuseQ f .ecm same b1 u1 a1 b2 u2 a2).1 i) ∧
    (∀ i, (fuseQ f .ecm same b1 u1 a1 b2 u2 a2).1 i ≤ 1) ∧
    0 ≤ (fuseQ f .ecm same b1 u1 a1 b2 u2 a2).2.1 ∧ (fuseQ f .ecm same b1 u1 a1 b2 u2 a2).2.1 ≤ 1 ∧
    ∑ i, (fuseQ f .ecm same b1 u1 a1 b2 u2 a2).1 i + (fuseQ f .ecm same b1 u1 a1 b2 u2 a2).2.1 = 1 := by
  obtain ⟨hA0, hA⟩ := baseRateQ_dist (f := f) .ecm same h1 h2
  have hw := (simplexQ_swf f .ecm h1.swf h2.swf).toWF hA0 hA
  rw [fuseQ_ecm_of_dist_clamped same h1.swf h2.swf hA0 hA]
  obtain ⟨_, hu0, hu1, _, _⟩ := C09.C09_max_wf (f := f) hw
  have hN := C09.normC_ge_one (f := f) hw
  have hNpos := lt_of_lt_of_le one_pos hN
  have hb0 : ∀ i, 0 ≤ C09.bmaxC f (simplexQ f .ecm b1 u1 b2 u2).1 (baseRateQ f .ecm same a1 u1 a2 u2)
      (simplexQ f .ecm b1 u1 b2 u2).2 i / C09.normC f (simplexQ f .ecm b1 u1 b2 u2).1
        (baseRateQ f .ecm same a1 u1 a2 u2) (simplexQ f .ecm b1 u1 b2 u2).2 :=
    fun i => div_nonneg (C09.bmaxC_nonneg _ _ _ i) hNpos.le
  refine ⟨fun i _ => hb0 i, fun i => le_trans (neg_nonpos.mpr (XQ.eps_pos f).le) (hb0 i), fun i => ?_,
    div_nonneg hu0 hNpos.le, ?_, ?_⟩
  · show C09.bmaxC f _ _ _ i / C09.normC f _ _ _ ≤ 1
    rw [div_le_one hNpos]
    have := Finset.single_le_sum (f := C09.bmaxC f (simplexQ f .ecm b1 u1 b2 u2).1
        (baseRateQ f .ecm same a1 u1 a2 u2) (simplexQ f .ecm b1 u1 b2 u2).2)
      (fun j _ => C09.bmaxC_nonneg _ _ _ j) (Finset.mem_univ i)
    unfold C09.normC; linarith
  · show C09.uhat f _ _ _ / C09.normC f _ _ _ ≤ 1
    rw [div_le_one hNpos]; linarith
  · show ∑ i, C09.bmaxC f _ _ _ i / C09.normC f _ _ _ + C09.uhat f _ _ _ / C09.normC f _ _ _ = 1
    rw [← Finset.sum_div, ← add_div]
    exact div_self (ne_of_gt hNpos)

/-- FALSE before repair 8520ade for fused base-rate entries inside the guard band `(0, ε]` (there `p - a û ∈ [-ε, 0)` was
    returned), true now: EVERY belief mass of an ECm fusion of well-formed opinions is non-negative — all arms, shared
    base rate or not, no hypothesis on the base rates -/
theorem C02_ecm_masses_nonneg (same : Bool) {b1 b2 a1 a2 : Fin n → ℚ} {u1 u2 : ℚ}
    (h1 : WF b1 u1 a1) (h2 : WF b2 u2 a2) (i : Fin n) :
    0 ≤ (fuseQ f .ecm same b1 u1 a1 b2 u2 a2).1 i := by
  have hM := ecm_norm2_pos f same h1 h2
  unfold fuseQ; simp only [if_true]
  exact div_nonneg (le_max_right _ _) hM.le

/-- the same on the model, for ALL operands of the exact semantics (ill-formed, `±∞`, NaN included): whenever the
    `max_uncertainty` of the cumulatively fused simplex under the fused base rate does not compare below zero (it is not
    clamped; see `C09.C09_maximized_needs_umax_notNeg`), no belief mass of the ECm result compares below zero, neither does
    its uncertainty, and the uncertainty does not compare above one -/
theorem C02_ecm_masses_nonneg_gen (same : Bool) (l r : Opinion (XQ f) n)
    (hu : XQ.NotNeg ((computeSimplex .ecm l.simplex r.simplex).maxUncertainty (computeBaseRate .ecm same l r))) :
    (∀ i : Fin n, XQ.NotNeg (fuse .ecm same l r).b[i]) ∧ XQ.NotNeg (fuse .ecm same l r).u ∧
    Scalar.lt (Scalar.one : XQ f) (fuse .ecm same l r).u = false := by
  rw [fuse_ecm_eq]
  exact C09.C09_maximized_masses_nonneg_gen _ _ hu

/-- ECm, the general form that does not use `Σa = 1` (needed while the `ulps_eq!` shortcut could make the fused base
    rate sum to something else; kept).  Since repair f029db5 (`uncertainty_maximized` renormalises its result)
    the masses and the uncertainty are finite and sum to EXACTLY one whatever the fused base rate sums to
    (before the repair the total inherited the defect of the base-rate sum: `Σb + u = 1 + u (1 - Σa)`).
    The uncertainty is `û / (1 + û (1 - Σa))` with `û ∈ [0,1]`: non-negative, and `u (2 - Σa) ≤ 1`, i.e. at most one
    when `Σa ≤ 1`; for `Σa > 1` it can exceed one by `(Σa - 1)/(2 - Σa)` (only when `û = 1`, which then needs
    base-rate entries inside the guard band `(0, ε]` carrying the excess). -/
theorem C02_simplex_ecm_gen (same : Bool) {b1 b2 a1 a2 : Fin n → ℚ} {u1 u2 : ℚ}
    (h1 : WF b1 u1 a1) (h2 : WF b2 u2 a2) :
    0 ≤ (fuseQ f .ecm same b1 u1 a1 b2 u2 a2).2.1 ∧
    (fuseQ f .ecm same b1 u1 a1 b2 u2 a2).2.1 * (2 - ∑ i, (fuseQ f .ecm same b1 u1 a1 b2 u2 a2).2.2 i) ≤ 1 ∧
    ((∑ i, (fuseQ f .ecm same b1 u1 a1 b2 u2 a2).2.2 i) ≤ 1 → (fuseQ f .ecm same b1 u1 a1 b2 u2 a2).2.1 ≤ 1) ∧
    ∑ i, (fuseQ f .ecm same b1 u1 a1 b2 u2 a2).1 i + (fuseQ f .ecm same b1 u1 a1 b2 u2 a2).2.1 = 1 := by
  have hN := ecm_norm_pos f same h1 h2
  have hM := ecm_norm2_pos f same h1 h2
  have hS := simplexQ_swf f .ecm h1.swf h2.swf
  have hA0 := baseRateQ_nonneg f .ecm same h1.hu h1.swf.u_le_one h2.hu h2.swf.u_le_one h1.ha0 h2.ha0
  set S := simplexQ f .ecm b1 u1 b2 u2 with hSdef
  set A := baseRateQ f .ecm same a1 u1 a2 u2 with hAdef
  have hR : fuseQ f .ecm same b1 u1 a1 b2 u2 a2
      = (fun i => max (projN S.1 A S.2 i - A i * uhatN f S.1 A S.2) 0 / normN f S.1 A S.2,
          uhatN f S.1 A S.2 / normN f S.1 A S.2, A) := by
    unfold fuseQ; simp only [if_true]; rfl
  rw [hR]
  have hU0 : 0 ≤ uhatN f S.1 A S.2 := C09.uhatG_nonneg hS.hb hS.hu hA0 hN
  have hU1 : uhatN f S.1 A S.2 ≤ 1 := C09.uhatG_le_one S.1 A S.2
  have hE := normN_ge (f := f) (b := S.1) (a := A) (u := S.2) (ne_of_gt hN)
  have hu0 : 0 ≤ uhatN f S.1 A S.2 / normN f S.1 A S.2 := div_nonneg hU0 hM.le
  have hb2 : uhatN f S.1 A S.2 / normN f S.1 A S.2 * (2 - ∑ i, A i) ≤ 1 := by
    rw [div_mul_eq_mul_div, div_le_one hM]
    have : uhatN f S.1 A S.2 * (2 - ∑ i, A i)
        = uhatN f S.1 A S.2 * (1 - ∑ i, A i) + uhatN f S.1 A S.2 := by ring
    linarith
  refine ⟨hu0, hb2, fun hle => ?_, ?_⟩
  · show uhatN f S.1 A S.2 / normN f S.1 A S.2 ≤ 1
    have : (1 : ℚ) ≤ 2 - ∑ i, A i := by linarith
    nlinarith
  · show ∑ i, max (projN S.1 A S.2 i - A i * uhatN f S.1 A S.2) 0 / normN f S.1 A S.2
        + uhatN f S.1 A S.2 / normN f S.1 A S.2 = 1
    rw [← Finset.sum_div, ← add_div]
    exact div_self (ne_of_gt hM)

/-! ### 3. the fused base rate -/

/-- every fused base-rate entry lies between the two operands' entries — all operators, all arms
    (a convex combination with non-negative weights, a clone, or the common entry under the shortcut) -/
theorem C02_base_rate_between (op : FuseOp) (same : Bool) {b1 b2 a1 a2 : Fin n → ℚ} {u1 u2 : ℚ}
    (h1 : WF b1 u1 a1) (h2 : WF b2 u2 a2) (i : Fin n) :
    min (a1 i) (a2 i) ≤ (fuseQ f op same b1 u1 a1 b2 u2 a2).2.2 i ∧
    (fuseQ f op same b1 u1 a1 b2 u2 a2).2.2 i ≤ max (a1 i) (a2 i) := by
  rw [fuseQ_a]
  exact baseRateQ_between f op same a1 a2 h1.hu h1.swf.u_le_one h2.hu h2.swf.u_le_one i

/-- in particular every entry is in [0,1] -/
theorem C02_base_rate_unit (op : FuseOp) (same : Bool) {b1 b2 a1 a2 : Fin n → ℚ} {u1 u2 : ℚ}
    (h1 : WF b1 u1 a1) (h2 : WF b2 u2 a2) (i : Fin n) :
    0 ≤ (fuseQ f op same b1 u1 a1 b2 u2 a2).2.2 i ∧ (fuseQ f op same b1 u1 a1 b2 u2 a2).2.2 i ≤ 1 := by
  obtain ⟨l, r⟩ := C02_base_rate_between (f := f) op same h1 h2 i
  have e1 : a1 i ≤ 1 := by
    have := Finset.single_le_sum (f := a1) (fun j _ => h1.ha0 j) (Finset.mem_univ i)
    linarith [h1.ha]
  have e2 : a2 i ≤ 1 := by
    have := Finset.single_le_sum (f := a2) (fun j _ => h2.ha0 j) (Finset.mem_univ i)
    linarith [h2.ha]
  exact ⟨le_trans (le_min (h1.ha0 i) (h2.ha0 i)) l, le_trans r (max_le e1 e2)⟩

/-- a shared base-rate object (`std::ptr::eq`) is returned unchanged; so are equal base-rate VALUES
    (every entry takes the reflexive shortcut, or the formula / clone gives the same value) — in fact
    any single entry on which the operands agree is returned unchanged -/
theorem C02_base_rate_shared (op : FuseOp) {b1 b2 a1 a2 : Fin n → ℚ} {u1 u2 : ℚ}
    (h1 : WF b1 u1 a1) (h2 : WF b2 u2 a2) :
    (fuseQ f op true b1 u1 a1 b2 u2 a2).2.2 = a1 ∧
    (∀ same i, a1 i = a2 i → (fuseQ f op same b1 u1 a1 b2 u2 a2).2.2 i = a1 i) ∧
    (∀ same, a1 = a2 → (fuseQ f op same b1 u1 a1 b2 u2 a2).2.2 = a1) := by
  have key : ∀ same i, a1 i = a2 i → (fuseQ f op same b1 u1 a1 b2 u2 a2).2.2 i = a1 i := by
    intro same i h
    rw [fuseQ_a]
    exact baseRateQ_of_eq f op same a1 a2 h1.hu h1.swf.u_le_one h2.hu h2.swf.u_le_one h
  refine ⟨by rw [fuseQ_a, baseRateQ_same], key, fun same h => funext fun i => key same i (by rw [h])⟩

/-! ### 4. the base-rate sum -/

/-- the fused base rate sums to one — every operator, every arm, any two well-formed operands (the hypothesis
    "no entry takes the shortcut with unequal values" of the `ulps_eq!` version holds by construction since c8a7116) -/
theorem C02_base_rate_sum (op : FuseOp) (same : Bool) {b1 b2 a1 a2 : Fin n → ℚ} {u1 u2 : ℚ}
    (h1 : WF b1 u1 a1) (h2 : WF b2 u2 a2) :
    ∑ i, (fuseQ f op same b1 u1 a1 b2 u2 a2).2.2 i = 1 := by
  rw [fuseQ_a]; exact (baseRateQ_dist op same h1 h2).2

/-- (kept from the `ulps_eq!` shortcut) `|Σa − 1| ≤ Σ_{i : shortcut taken} |a1 i − a2 i|`.  The shortcut now being
    taken at equal entries only (`FuseQ.sc_iff`), the right-hand side is zero and this is `C02_base_rate_sum`. -/
theorem C02_base_rate_sum_bound (op : FuseOp) (same : Bool) {b1 b2 a1 a2 : Fin n → ℚ} {u1 u2 : ℚ}
    (h1 : WF b1 u1 a1) (h2 : WF b2 u2 a2) :
    |∑ i, (fuseQ f op same b1 u1 a1 b2 u2 a2).2.2 i - 1|
      ≤ ∑ i, if sc f a1 a2 i then |a1 i - a2 i| else 0 := by
  rw [fuseQ_a]
  exact baseRateQ_sum_bound f op same h1.hu h1.swf.u_le_one h2.hu h2.swf.u_le_one h1.ha h2.ha

/-- the whole result is a well-formed opinion (ACm, Avg, Wgh) -/
theorem C02_wf {op : FuseOp} (hop : op ≠ .ecm) (same : Bool) {b1 b2 a1 a2 : Fin n → ℚ} {u1 u2 : ℚ}
    (h1 : WF b1 u1 a1) (h2 : WF b2 u2 a2) :
    WF (fuseQ f op same b1 u1 a1 b2 u2 a2).1 (fuseQ f op same b1 u1 a1 b2 u2 a2).2.1
      (fuseQ f op same b1 u1 a1 b2 u2 a2).2.2 := by
  obtain ⟨hb, _, hu, _, hs⟩ := C02_simplex_wf (f := f) hop same h1 h2
  exact ⟨hb, hu, hs, fun i => (C02_base_rate_unit op same h1 h2 i).1,
    C02_base_rate_sum op same h1 h2⟩

/-- ECm, since repair 8520ade WITHOUT any hypothesis on the guard band: the clamp removes the masses in `[-ε, 0)` that
    entries of the fused base rate inside `(0, ε]` used to produce -/
theorem C02_wf_ecm_unconditional (same : Bool) {b1 b2 a1 a2 : Fin n → ℚ} {u1 u2 : ℚ}
    (h1 : WF b1 u1 a1) (h2 : WF b2 u2 a2) :
    WF (fuseQ f .ecm same b1 u1 a1 b2 u2 a2).1 (fuseQ f .ecm same b1 u1 a1 b2 u2 a2).2.1
      (fuseQ f .ecm same b1 u1 a1 b2 u2 a2).2.2 := by
  obtain ⟨_, _, _, hu0, _, hs⟩ := C02_simplex_wf_ecm (f := f) same h1 h2
  exact ⟨C02_ecm_masses_nonneg same h1 h2, hu0, hs, fun i => (C02_base_rate_unit .ecm same h1 h2 i).1,
    C02_base_rate_sum .ecm same h1 h2⟩

/-- ECm: additionally no fused base-rate entry in the guard band (0, ε] (the hypothesis is no longer needed, see
    `C02_wf_ecm_unconditional`; statement kept) -/
theorem C02_wf_ecm (same : Bool) {b1 b2 a1 a2 : Fin n → ℚ} {u1 u2 : ℚ}
    (h1 : WF b1 u1 a1) (h2 : WF b2 u2 a2)
    (hband : ∀ i, (fuseQ f .ecm same b1 u1 a1 b2 u2 a2).2.2 i = 0 ∨
      f.eps < (fuseQ f .ecm same b1 u1 a1 b2 u2 a2).2.2 i) :
    WF (fuseQ f .ecm same b1 u1 a1 b2 u2 a2).1 (fuseQ f .ecm same b1 u1 a1 b2 u2 a2).2.1
      (fuseQ f .ecm same b1 u1 a1 b2 u2 a2).2.2 := by
  have _ := hband
  exact C02_wf_ecm_unconditional same h1 h2

/-- THE BASE-RATE CLAUSES ON THE MODEL, NO HYPOTHESIS BEYOND WELL-FORMEDNESS: `fuse` (any operator, any guard arm,
    tolerance bands included, shared base-rate object or not) returns finite data whose base rate lies entrywise
    between the operands' entries, equals them where they agree, and sums to one -/
theorem C02_base_rate_between_unconditional (op : FuseOp) (same : Bool) {b1 b2 a1 a2 : Fin n → ℚ} {u1 u2 : ℚ}
    (h1 : WF b1 u1 a1) (h2 : WF b2 u2 a2) :
    ∃ (b : Fin n → ℚ) (u : ℚ) (a : Fin n → ℚ),
      fuse op same (⟨liftT b1, XQ.fin u1, liftT a1⟩ : Opinion (XQ f) n) ⟨liftT b2, XQ.fin u2, liftT a2⟩
        = ⟨liftT b, XQ.fin u, liftT a⟩ ∧
      (∀ i, min (a1 i) (a2 i) ≤ a i ∧ a i ≤ max (a1 i) (a2 i)) ∧
      (∀ i, a1 i = a2 i → a i = a1 i) ∧
      ∑ i, a i = 1 :=
  ⟨_, _, _, C02_total op same h1 h2, C02_base_rate_between op same h1 h2,
    fun i h => (C02_base_rate_shared (f := f) op h1 h2).2.1 same i h, C02_base_rate_sum op same h1 h2⟩

/-! ### 5. the other overloads -/

/-- `Fuse<OpinionRef, &Simplex>` is `fuse` with the left operand's base-rate object on both sides
    (definitional), so the base rate is returned unchanged — any scalar type, any operands -/
theorem C02_fuse_os {α : Type} [Scalar α] (op : FuseOp) (l : Opinion α n) (s : Simplex α n) :
    fuseSimplex op l s = fuse op true l (Opinion.mk' s l.a) ∧ (fuseSimplex op l s).a = l.a := by
  refine ⟨rfl, ?_⟩
  unfold fuseSimplex fuse
  simp only [Opinion.mk', computeBaseRate_same]

/-- … and on well-formed lifted operands it is the closed form with `same = true` -/
theorem C02_fuse_os_lift (op : FuseOp) {b1 b2 a1 : Fin n → ℚ} {u1 u2 : ℚ}
    (h1 : WF b1 u1 a1) (h2 : SWF b2 u2) :
    fuseSimplex op (⟨liftT b1, XQ.fin u1, liftT a1⟩ : Opinion (XQ f) n) ⟨liftT b2, XQ.fin u2⟩
      = ⟨liftT (fuseQ f op true b1 u1 a1 b2 u2 a1).1, XQ.fin (fuseQ f op true b1 u1 a1 b2 u2 a1).2.1,
          liftT a1⟩ := by
  have h2' : WF b2 u2 a1 := h2.toWF h1.ha0 h1.ha
  have := C02_total (f := f) op true h1 h2'
  rw [fuseQ_a, baseRateQ_same] at this
  exact this

/-- `Fuse<&Simplex, &Simplex>` panics (model: `none`) exactly for ECm; otherwise it is `compute_simlex`,
    which on well-formed lifted simplexes returns a well-formed lifted simplex -/
theorem C02_fuse_ss {α : Type} [Scalar α] (op : FuseOp) (l r : Simplex α n) :
    (fuseSS op l r = none ↔ op = .ecm) ∧ (op ≠ .ecm → fuseSS op l r = some (computeSimplex op l r)) := by
  unfold fuseSS
  by_cases h : op = .ecm <;> simp [h]

theorem C02_fuse_ss_wf {op : FuseOp} (hop : op ≠ .ecm) {b1 b2 : Fin n → ℚ} {u1 u2 : ℚ}
    (h1 : SWF b1 u1) (h2 : SWF b2 u2) :
    fuseSS op (⟨liftT b1, XQ.fin u1⟩ : Simplex (XQ f) n) ⟨liftT b2, XQ.fin u2⟩
      = some ⟨liftT (simplexQ f op b1 u1 b2 u2).1, XQ.fin (simplexQ f op b1 u1 b2 u2).2⟩ ∧
    SWF (simplexQ f op b1 u1 b2 u2).1 (simplexQ f op b1 u1 b2 u2).2 := by
  refine ⟨?_, simplexQ_swf f op h1 h2⟩
  rw [(C02_fuse_ss op _ _).2 hop, computeSimplex_lift op h1 h2]

/-- `fuse_assign` is `*lhs = fuse(lhs, rhs)` -/
theorem C02_fuse_assign {α : Type} [Scalar α] (op : FuseOp) (same : Bool) (l r : Opinion α n) :
    fuseAssign op same l r = fuse op same l r := rfl

/-! ### witness for the repaired finding (kernel-checked on the executable definitions, exact arithmetic) -/

section Replay

def q32 (n d : Nat) : XQ .f32 := .fin ((n : Rat) / (d : Rat))

/-- f32, ternary domain: both operands `b = (1/4, 1/4, 0)`, `u = 1/2`; base rates `a1 = (1/2 + ε/2, 1/2 - ε/2, 0)`
    and `a2 = (1/2, 0, 1/2)` -/
def l32 : Opinion (XQ .f32) 3 :=
  ⟨#v[q32 1 4, q32 1 4, q32 0 1], q32 1 2, #v[q32 8388609 16777216, q32 8388607 16777216, q32 0 1]⟩
def r32 : Opinion (XQ .f32) 3 := ⟨#v[q32 1 4, q32 1 4, q32 0 1], q32 1 2, #v[q32 1 2, q32 0 1, q32 1 2]⟩

/-- REPAIRED FINDING witness (Avg; before repairs c0b2ed5 / c8a7116, definition `Pinned.computeBaseRateLeft`).
    Entry 0 took the `ulps_eq!` shortcut (`|a1 0 - a2 0| = ε/2 ≤ ε`) and returned `a1 0` instead of the mean;
    entries 1 and 2 did not.  The fused base rate was `(1/2 + ε/2, 1/4 - ε/4, 1/4)`, summing to `1 + ε/4 ≠ 1`
    (inside the band accepted by `check_base_rate`, `is_one` = `[1-2ε, 1+4ε]`). -/
theorem C02_base_rate_sum_defect :
    (let a := Pinned.computeBaseRateLeft .avg false l32 r32
     decide (a[0] = q32 8388609 16777216) && decide (a[1] = q32 8388607 33554432) && decide (a[2] = q32 1 4) &&
       decide (a[0] + a[1] + a[2] = q32 33554433 33554432)) = true := by
  decide +kernel

/-- the same operands on the current definition: the mean in every entry, summing to exactly one -/
theorem C02_base_rate_sum_repaired :
    (let a := computeBaseRate .avg false l32 r32
     decide (a[0] = q32 16777217 33554432) && decide (a[1] = q32 8388607 33554432) && decide (a[2] = q32 1 4) &&
       decide (a[0] + a[1] + a[2] = q32 1 1)) = true := by
  decide +kernel

end Replay

/-! ### non-vacuity -/

/-- two non-trivial well-formed ternary opinions with different base rates, a zero base-rate entry,
    and uncertainties in the formula range -/
example : WF (n := 3) ![1/4, 1/8, 1/8] (1/2) ![1/4, 1/4, 1/2] ∧
    WF (n := 3) ![1/2, 0, 1/4] (1/4) ![1/2, 1/2, 0] := by
  constructor <;> constructor <;> simp [Fin.forall_fin_succ, Fin.sum_univ_succ] <;> norm_num

/-- nearly vacuous / nearly dogmatic well-formed operands (inside the tolerance bands) -/
example : WF (n := 2) ![f.eps, 0] (1 - f.eps) ![1/4, 3/4] ∧
    WF (n := 2) ![1 - f.eps, 0] f.eps ![3/4, 1/4] := by
  have h0 := XQ.eps_pos f
  have := XQ.eps_lt f
  constructor
  · constructor
    · exact Fin.forall_fin_two.mpr ⟨by simpa using h0.le, by simp⟩
    · linarith
    · simp [Fin.sum_univ_two]
    · exact Fin.forall_fin_two.mpr ⟨by norm_num, by norm_num⟩
    · simp [Fin.sum_univ_two]; norm_num
  · constructor
    · exact Fin.forall_fin_two.mpr ⟨by simp; linarith, by simp⟩
    · exact h0.le
    · simp [Fin.sum_univ_two]
    · exact Fin.forall_fin_two.mpr ⟨by norm_num, by norm_num⟩
    · simp [Fin.sum_univ_two]; norm_num

/-- the operands of the repaired finding are well-formed: `C02_base_rate_sum` applies to them -/
example : WF (n := 3) ![1/4, 1/4, 0] (1/2) ![8388609/16777216, 8388607/16777216, 0] ∧
    WF (n := 3) ![1/4, 1/4, 0] (1/2) ![1/2, 0, 1/2] := by
  constructor <;> constructor <;> simp [Fin.forall_fin_succ, Fin.sum_univ_succ] <;> norm_num

/-- a concrete evaluation: averaging fusion of two binary opinions sharing their base rate (f64) -/
example :
    fuse .avg true (⟨liftT ![1/2, 0], XQ.fin (1/2), liftT ![1/4, 3/4]⟩ : Opinion (XQ .f64) 2)
        ⟨liftT ![0, 1/2], XQ.fin (1/2), liftT ![1/4, 3/4]⟩
      = ⟨liftT ![1/4, 1/4], XQ.fin (1/2), liftT ![1/4, 3/4]⟩ := by
  have h1 : WF (n := 2) ![1/2, 0] (1/2) ![1/4, 3/4] := by
    constructor <;> simp [Fin.forall_fin_two, Fin.sum_univ_two] <;> norm_num
  have h2 : WF (n := 2) ![0, 1/2] (1/2) ![1/4, 3/4] := by
    constructor <;> simp [Fin.forall_fin_two, Fin.sum_univ_two] <;> norm_num
  have he : (Fmt.f64).eps < 1 / 16 := XQ.eps_lt _
  have hp := XQ.eps_pos Fmt.f64
  have nd : ¬ GDog Fmt.f64 (1/2) := by unfold GDog; rw [abs_of_pos (by norm_num)]; linarith
  rw [C02_total .avg true h1 h2, fuseQ_of_ne_ecm (by decide), baseRateQ_same]
  have e : simplexQ Fmt.f64 .avg ![1/2, 0] (1/2) ![0, 1/2] (1/2)
      = (avgB ![1/2, 0] (1/2) ![0, 1/2] (1/2), avgU (1/2) (1/2)) := by
    unfold simplexQ; simp only [nd, and_self, if_false]
  rw [e]
  have eb : avgB (n := 2) ![1/2, 0] (1/2) ![0, 1/2] (1/2) = ![1/4, 1/4] := by
    funext i; revert i
    exact Fin.forall_fin_two.mpr ⟨by norm_num [avgB], by norm_num [avgB]⟩
  have eu : avgU (1/2) (1/2) = 1/2 := by unfold avgU; norm_num
  dsimp only
  rw [eb, eu]

end SLV.Props.C02
