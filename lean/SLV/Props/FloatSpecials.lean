/-
  FloatSpecials — NaN and the infinities are always rejected, at the BIT-LEVEL float semantics.

  Property C01 ("parameter sets that contain NaN or an infinity are always rejected with an error") is proved
  in SLV/Props/C01.lean at the exact semantics `XQ f`.  This file proves the same clause for the native
  `Float` / `Float32` instances of the model (SLV/Num/Floats.lean: the bit-level twins of the Rust f64 / f32
  code, with `approx`'s bit-level `ulps_eq`), for every domain size `n` and arbitrary other components.

  Lean 4.33's `Float` is a structure over the kernel-visible IEEE model `Float.Model` (a `UInt64` whose NaNs
  are canonical).  Hence
    * a `Float` with `isNaN` IS `Float.ofBits 0x7FF8000000000000` (`F_eq_nan_of_isNaN`), and a `Float` with
      `isInf` is one of `0x7FF0000000000000`, `0xFFF0000000000000` (`F_eq_inf_of_isInf`): the statements
      about the three bit patterns cover every non-finite value of the model symbolically;
    * the guards on these three values are evaluated by the kernel (`decide +kernel`).
  (Rust NaNs carry payloads; every operation the guards apply — comparisons, `is_nan`, arithmetic — is
  payload-independent, `to_bits` is only reached after the `is_nan` test of `ulps_eq`.)

  The constructor theorems need no float arithmetic: they follow, for ANY `Scalar` instance, from "some
  component fails `in_unit_interval`" because every path through the checking code that reaches that
  component, or fails earlier, ends in `.error`.
-/
import SLV.Num.Floats
import SLV.Model.Bi

namespace SLV.Props.FloatSpecials
open SLV Scalar

/-! ## 1. any scalar semantics: a component outside `in_unit_interval` is rejected -/

section Generic
variable {α : Type} [Scalar α] {n : Nat}

/-- the accumulate-and-check loop fails with its label as soon as one entry fails `in_unit_interval` -/
theorem F_checkEntries_special (l : Label) (xs : List α) (acc : α)
    (h : ∃ x ∈ xs, Scalar.inUnit x = false) : checkEntries l xs acc = .error l := by
  induction xs generalizing acc with
  | nil => obtain ⟨x, hx, _⟩ := h; cases hx
  | cons y ys ih =>
    unfold checkEntries
    by_cases hy : Scalar.inUnit y = true
    · simp only [hy, if_true]
      obtain ⟨x, hx, hx'⟩ := h
      rcases List.mem_cons.mp hx with rfl | hm
      · rw [hy] at hx'; cases hx'
      · exact ih _ ⟨x, hm, hx'⟩
    · simp [hy]

/-- the form with an unspecified error -/
theorem F_checkEntries_special' (l : Label) (xs : List α) (acc : α)
    (h : ∃ x ∈ xs, Scalar.inUnit x = false) : ∃ e, checkEntries l xs acc = .error e :=
  ⟨l, F_checkEntries_special l xs acc h⟩

omit [Scalar α] in
theorem mem_toList_getElem (v : Tab α n) (i : Fin n) : v[i] ∈ v.toList := by
  simp

theorem F_checkSimplex_b (b : Tab α n) (u : α) (h : ∃ i : Fin n, Scalar.inUnit b[i] = false) :
    checkSimplex b u = .error .b := by
  obtain ⟨i, hi⟩ := h
  unfold checkSimplex
  rw [F_checkEntries_special .b b.toList Scalar.zero ⟨b[i], mem_toList_getElem b i, hi⟩]

theorem F_checkSimplex_u (b : Tab α n) (u : α) (h : Scalar.inUnit u = false) :
    ∃ e, checkSimplex b u = .error e := by
  unfold checkSimplex
  cases checkEntries .b b.toList (Scalar.zero : α) with
  | error e => exact ⟨e, rfl⟩
  | ok s => exact ⟨.u, by simp [checkUnit, h]⟩

theorem F_checkBaseRate_a (a : Tab α n) (h : ∃ i : Fin n, Scalar.inUnit a[i] = false) :
    checkBaseRate a = .error .a := by
  obtain ⟨i, hi⟩ := h
  unfold checkBaseRate
  rw [F_checkEntries_special .a a.toList Scalar.zero ⟨a[i], mem_toList_getElem a i, hi⟩]

/-- `Opinion::try_new`: a belief mass, the uncertainty, or a base rate failing `in_unit_interval` -/
theorem F_opinion_rejects (b a : Tab α n) (u : α)
    (h : (∃ i : Fin n, Scalar.inUnit b[i] = false) ∨ Scalar.inUnit u = false ∨
         (∃ i : Fin n, Scalar.inUnit a[i] = false)) :
    ∃ e, Opinion.tryNew b u a = .error e := by
  unfold Opinion.tryNew
  rcases h with hb | hu | ha
  · rw [F_checkSimplex_b b u hb]; exact ⟨_, rfl⟩
  · obtain ⟨e, he⟩ := F_checkSimplex_u b u hu
    rw [he]; exact ⟨_, rfl⟩
  · cases checkSimplex b u with
    | error e => exact ⟨e, rfl⟩
    | ok _ => rw [F_checkBaseRate_a a ha]; exact ⟨_, rfl⟩

/-- … with the label `b[]` when a belief mass is the culprit (first check) -/
theorem F_opinion_rejects_b (b a : Tab α n) (u : α) (h : ∃ i : Fin n, Scalar.inUnit b[i] = false) :
    Opinion.tryNew b u a = .error .b ∧ Simplex.tryNew b u = .error .b := by
  unfold Opinion.tryNew Simplex.tryNew
  rw [F_checkSimplex_b b u h]; exact ⟨rfl, rfl⟩

theorem F_simplex_rejects (b : Tab α n) (u : α)
    (h : (∃ i : Fin n, Scalar.inUnit b[i] = false) ∨ Scalar.inUnit u = false) :
    ∃ e, Simplex.tryNew b u = .error e := by
  unfold Simplex.tryNew
  rcases h with hb | hu
  · rw [F_checkSimplex_b b u hb]; exact ⟨_, rfl⟩
  · obtain ⟨e, he⟩ := F_checkSimplex_u b u hu
    rw [he]; exact ⟨_, rfl⟩

theorem F_into_opinion_rejects (s : Simplex α n) (a : Tab α n)
    (h : ∃ i : Fin n, Scalar.inUnit a[i] = false) : Simplex.intoOpinion s a = .error .a := by
  unfold Simplex.intoOpinion
  rw [F_checkBaseRate_a a h]

/-- `bi::check_simplex` checks the SUM `b+d+u` first, then `b`, `d`, `u`: whatever the sum check says, a
    component failing `in_unit_interval` ends in an error -/
theorem F_bcheck_rejects (b d u : α)
    (h : Scalar.inUnit b = false ∨ Scalar.inUnit d = false ∨ Scalar.inUnit u = false) :
    ∃ e, BOp.checkSimplex b d u = .error e := by
  unfold BOp.checkSimplex
  cases checkOne (b + d + u) Label.bdu with
  | error e => exact ⟨e, rfl⟩
  | ok _ =>
    by_cases hb : Scalar.inUnit b = true
    · by_cases hd : Scalar.inUnit d = true
      · have hu : Scalar.inUnit u = false := by
          rcases h with h | h | h
          · rw [hb] at h; cases h
          · rw [hd] at h; cases h
          · exact h
        exact ⟨.u, by simp [checkUnit, hb, hd, hu]⟩
      · exact ⟨.dd, by simp [checkUnit, hb, hd]⟩
    · exact ⟨.bb, by simp [checkUnit, hb]⟩

/-- the sum check comes first: if `b+d+u` fails `is_one` the label is `b+d+u` -/
theorem F_bcheck_sum (b d u : α) (h : Scalar.isOne (Scalar.add (Scalar.add b d) u) = false) :
    BOp.checkSimplex b d u = .error .bdu := by
  unfold BOp.checkSimplex
  have : checkOne (b + d + u) Label.bdu = .error .bdu := by
    show (if Scalar.isOne (Scalar.add (Scalar.add b d) u) then _ else _) = _
    rw [h]; rfl
  rw [this]

theorem F_bsimplex_rejects (b d u : α)
    (h : Scalar.inUnit b = false ∨ Scalar.inUnit d = false ∨ Scalar.inUnit u = false) :
    ∃ e, BOp.simplexTryNew b d u = .error e := by
  obtain ⟨e, he⟩ := F_bcheck_rejects b d u h
  exact ⟨e, by unfold BOp.simplexTryNew; rw [he]⟩

/-- `BOpinion::try_new`: the base rate is checked first (label `a`), then the simplex -/
theorem F_bop_rejects (b d u a : α)
    (h : Scalar.inUnit b = false ∨ Scalar.inUnit d = false ∨ Scalar.inUnit u = false ∨
         Scalar.inUnit a = false) :
    ∃ e, BOp.tryNew b d u a = .error e := by
  unfold BOp.tryNew
  by_cases ha : Scalar.inUnit a = true
  · have h' : Scalar.inUnit b = false ∨ Scalar.inUnit d = false ∨ Scalar.inUnit u = false := by
      rcases h with h | h | h | h
      · exact Or.inl h
      · exact Or.inr (Or.inl h)
      · exact Or.inr (Or.inr h)
      · rw [ha] at h; cases h
    obtain ⟨e, he⟩ := F_bcheck_rejects b d u h'
    exact ⟨e, by simp [checkUnit, ha, he]⟩
  · exact ⟨.ba, by simp [checkUnit, ha]⟩

theorem F_bop_rejects_a (b d u a : α) (h : Scalar.inUnit a = false) :
    BOp.tryNew b d u a = .error .ba := by
  unfold BOp.tryNew; simp [checkUnit, h]

end Generic

/-! ## 2. binary64: the non-finite values and the guards -/

/-- the three non-finite values of the `Float` model -/
def nan64 : Float := Float.ofBits 0x7FF8000000000000
def pinf64 : Float := Float.ofBits 0x7FF0000000000000
def ninf64 : Float := Float.ofBits 0xFFF0000000000000

/-- NaN or an infinity -/
def Special64 (x : Float) : Prop := x.isNaN = true ∨ x.isInf = true

theorem FloatModel_ext {a b : Float.Model} (h : a.toBits = b.toBits) : a = b := by
  cases a; cases b; cases h; rfl

theorem Float_ext {a b : Float} (h : a.toBits = b.toBits) : a = b := by
  cases a; cases b; congr 1; exact FloatModel_ext h

open Float.Model in
/-- every NaN of the model is the canonical one -/
theorem F_eq_nan_of_isNaN (x : Float) (h : x.isNaN = true) : x = nan64 := by
  obtain ⟨⟨bits, valid⟩⟩ := x
  have h' : (UnpackedFloat.unpack Format.binary64 bits.toBitVec).isNaN = true := h
  have hb : bits.toBitVec = UnpackedFloat.packedNaN Format.binary64 := by
    unfold UnpackedFloat.unpack at h'
    by_cases h1 : UnpackedFloat.unpackExponent (spec := Format.binary64) bits.toBitVec = -1#_
    · by_cases h2 : UnpackedFloat.unpackMantissa (spec := Format.binary64) bits.toBitVec = 0#_
      · simp [h1, h2, UnpackedFloat.isNaN] at h'
      · exact valid.eq_packedNaN h1 h2
    · simp only [h1, if_false] at h'
      split at h'
      · split at h' <;> simp [UnpackedFloat.isNaN] at h'
      · simp [UnpackedFloat.isNaN] at h'
  have hbits : bits = 0x7FF8000000000000 := by
    apply UInt64.toBitVec_inj.mp
    rw [hb]; decide +kernel
  subst hbits
  apply Float_ext
  show (0x7FF8000000000000 : UInt64) = (Float.ofBits 0x7FF8000000000000).toBits
  decide +kernel

open Float.Model in
/-- every infinite value of the model is `+inf` or `-inf` -/
theorem F_eq_inf_of_isInf (x : Float) (h : x.isInf = true) : x = pinf64 ∨ x = ninf64 := by
  obtain ⟨⟨bits, valid⟩⟩ := x
  have h' : (UnpackedFloat.unpack Format.binary64 bits.toBitVec).isInf = true := h
  have hb : (bits.toNat >>> 52) % 2 ^ 11 = 2047 ∧ bits.toNat % 2 ^ 52 = 0 := by
    unfold UnpackedFloat.unpack at h'
    by_cases h1 : UnpackedFloat.unpackExponent (spec := Format.binary64) bits.toBitVec = -1#_
    · by_cases h2 : UnpackedFloat.unpackMantissa (spec := Format.binary64) bits.toBitVec = 0#_
      · have e1 := congrArg BitVec.toNat h1
        have e2 := congrArg BitVec.toNat h2
        simp [UnpackedFloat.unpackExponent, UnpackedFloat.unpackMantissa, Format.binary64] at e1 e2
        exact ⟨e1, e2⟩
      · simp [h1, h2, UnpackedFloat.isInf] at h'
    · simp only [h1, if_false] at h'
      split at h'
      · split at h' <;> simp [UnpackedFloat.isInf] at h'
      · simp [UnpackedFloat.isInf] at h'
  have hlt : bits.toNat < 2 ^ 64 := bits.toNat_lt
  rw [Nat.shiftRight_eq_div_pow] at hb
  have : bits.toNat = 0x7FF0000000000000 ∨ bits.toNat = 0xFFF0000000000000 := by omega
  rcases this with e | e
  · left
    have : bits = 0x7FF0000000000000 := UInt64.toNat_inj.mp e
    subst this
    apply Float_ext
    show (0x7FF0000000000000 : UInt64) = (Float.ofBits 0x7FF0000000000000).toBits
    decide +kernel
  · right
    have : bits = 0xFFF0000000000000 := UInt64.toNat_inj.mp e
    subst this
    apply Float_ext
    show (0xFFF0000000000000 : UInt64) = (Float.ofBits 0xFFF0000000000000).toBits
    decide +kernel

/-- the special values are exactly the three bit patterns -/
theorem F_special_iff (x : Float) : Special64 x ↔ x = nan64 ∨ x = pinf64 ∨ x = ninf64 := by
  constructor
  · rintro (h | h)
    · exact Or.inl (F_eq_nan_of_isNaN x h)
    · exact Or.inr (F_eq_inf_of_isInf x h)
  · rintro (rfl | rfl | rfl)
    · exact Or.inl (by decide +kernel)
    · exact Or.inr (by decide +kernel)
    · exact Or.inr (by decide +kernel)

/-- `in_unit_interval` rejects the quiet NaN, `+inf`, `-inf` (bit-level evaluation) -/
theorem F_inUnit_nan : Scalar.inUnit (Float.ofBits 0x7FF8000000000000) = false := by decide +kernel
theorem F_inUnit_pinf : Scalar.inUnit (Float.ofBits 0x7FF0000000000000) = false := by decide +kernel
theorem F_inUnit_ninf : Scalar.inUnit (Float.ofBits 0xFFF0000000000000) = false := by decide +kernel

/-- … hence every NaN and every infinity of the model, symbolically -/
theorem F_inUnit_special (x : Float) (h : Special64 x) : Scalar.inUnit x = false := by
  rcases (F_special_iff x).1 h with rfl | rfl | rfl
  · exact F_inUnit_nan
  · exact F_inUnit_pinf
  · exact F_inUnit_ninf

theorem F_inUnit_of_isNaN (x : Float) (h : x.isNaN = true) : Scalar.inUnit x = false :=
  F_inUnit_special x (Or.inl h)

/-- `is_one` on the special values -/
theorem F_isOne_special (x : Float) (h : Special64 x) : Scalar.isOne x = false := by
  rcases (F_special_iff x).1 h with rfl | rfl | rfl <;> decide +kernel

/-- `is_zero` on the special values -/
theorem F_isZero_special (x : Float) (h : Special64 x) : Scalar.isZero x = false := by
  rcases (F_special_iff x).1 h with rfl | rfl | rfl <;> decide +kernel

/-- `ulps_eq!` never relates a NaN to anything, in either position (symbolic other operand is not needed
    by the constructors; stated for the two constants the guards use) -/
theorem F_ulpsEq_special (x : Float) (h : Special64 x) :
    Scalar.ulpsEq x (Scalar.zero : Float) = false ∧ Scalar.ulpsEq x (Scalar.one : Float) = false ∧
    Scalar.ulpsEq (Scalar.zero : Float) x = false ∧ Scalar.ulpsEq (Scalar.one : Float) x = false := by
  rcases (F_special_iff x).1 h with rfl | rfl | rfl <;> decide +kernel

/-- sanity: ordinary values are accepted by the same bit-level guard (`0`, `1`, `0.5`, `1 + 4ε`), and
    `1 + 5ε` is not — the guard is not constantly false -/
theorem F_inUnit_ordinary :
    Scalar.inUnit (0.0 : Float) = true ∧ Scalar.inUnit (1.0 : Float) = true ∧
    Scalar.inUnit (0.5 : Float) = true ∧ Scalar.inUnit (Float.ofBits 0x3FF0000000000004) = true ∧
    Scalar.inUnit (Float.ofBits 0x3FF0000000000005) = false := by decide +kernel

/-! ## 3. binary64: the checked constructors reject special values, for every `n` -/

section Ctor64
variable {n : Nat}

/-- `Opinion::try_new` at the bit-level `Float` semantics: NaN or an infinity among the belief masses, as
    the uncertainty, or among the base rates — always an error, whatever the other components are -/
theorem F_tryNew_rejects_special (b a : Tab Float n) (u : Float)
    (h : (∃ i : Fin n, Special64 b[i]) ∨ Special64 u ∨ (∃ i : Fin n, Special64 a[i])) :
    ∃ e, Opinion.tryNew b u a = .error e := by
  apply F_opinion_rejects
  rcases h with ⟨i, hi⟩ | hu | ⟨i, hi⟩
  · exact Or.inl ⟨i, F_inUnit_special _ hi⟩
  · exact Or.inr (Or.inl (F_inUnit_special _ hu))
  · exact Or.inr (Or.inr ⟨i, F_inUnit_special _ hi⟩)

/-- the same, phrased with the three bit patterns -/
theorem F_tryNew_rejects_bits (b a : Tab Float n) (u : Float)
    (h : (∃ i : Fin n, b[i] = nan64 ∨ b[i] = pinf64 ∨ b[i] = ninf64) ∨
         (u = nan64 ∨ u = pinf64 ∨ u = ninf64) ∨
         (∃ i : Fin n, a[i] = nan64 ∨ a[i] = pinf64 ∨ a[i] = ninf64)) :
    ∃ e, Opinion.tryNew b u a = .error e := by
  apply F_tryNew_rejects_special
  rcases h with ⟨i, hi⟩ | hu | ⟨i, hi⟩
  · exact Or.inl ⟨i, (F_special_iff _).2 hi⟩
  · exact Or.inr (Or.inl ((F_special_iff _).2 hu))
  · exact Or.inr (Or.inr ⟨i, (F_special_iff _).2 hi⟩)

/-- a special belief mass is reported with the label `b[]` -/
theorem F_tryNew_special_b (b a : Tab Float n) (u : Float) (h : ∃ i : Fin n, Special64 b[i]) :
    Opinion.tryNew b u a = .error .b ∧ Simplex.tryNew b u = .error .b := by
  obtain ⟨i, hi⟩ := h
  exact F_opinion_rejects_b b a u ⟨i, F_inUnit_special _ hi⟩

theorem F_simplex_tryNew_rejects_special (b : Tab Float n) (u : Float)
    (h : (∃ i : Fin n, Special64 b[i]) ∨ Special64 u) :
    ∃ e, Simplex.tryNew b u = .error e := by
  apply F_simplex_rejects
  rcases h with ⟨i, hi⟩ | hu
  · exact Or.inl ⟨i, F_inUnit_special _ hi⟩
  · exact Or.inr (F_inUnit_special _ hu)

theorem F_into_opinion_rejects_special (s : Simplex Float n) (a : Tab Float n)
    (h : ∃ i : Fin n, Special64 a[i]) : Simplex.intoOpinion s a = .error .a := by
  obtain ⟨i, hi⟩ := h
  exact F_into_opinion_rejects s a ⟨i, F_inUnit_special _ hi⟩

/-- `BOpinion::try_new` / `BSimplex::try_new`: any of the four (three) parameters special -/
theorem F_bop_tryNew_rejects_special (b d u a : Float)
    (h : Special64 b ∨ Special64 d ∨ Special64 u ∨ Special64 a) :
    ∃ e, BOp.tryNew b d u a = .error e := by
  apply F_bop_rejects
  rcases h with h | h | h | h
  · exact Or.inl (F_inUnit_special _ h)
  · exact Or.inr (Or.inl (F_inUnit_special _ h))
  · exact Or.inr (Or.inr (Or.inl (F_inUnit_special _ h)))
  · exact Or.inr (Or.inr (Or.inr (F_inUnit_special _ h)))

theorem F_bsimplex_tryNew_rejects_special (b d u : Float)
    (h : Special64 b ∨ Special64 d ∨ Special64 u) :
    ∃ e, BOp.simplexTryNew b d u = .error e := by
  apply F_bsimplex_rejects
  rcases h with h | h | h
  · exact Or.inl (F_inUnit_special _ h)
  · exact Or.inr (Or.inl (F_inUnit_special _ h))
  · exact Or.inr (Or.inr (F_inUnit_special _ h))

/-- a NaN / infinite uncertainty is neither vacuous nor dogmatic -/
theorem F_vacuous_dogmatic_special (b a : Tab Float n) (u : Float) (h : Special64 u) :
    Simplex.isVacuous (⟨b, u⟩ : Simplex Float n) = false ∧
    Simplex.isDogmatic (⟨b, u⟩ : Simplex Float n) = false ∧
    Opinion.isVacuous (⟨b, u, a⟩ : Opinion Float n) = false ∧
    Opinion.isDogmatic (⟨b, u, a⟩ : Opinion Float n) = false :=
  ⟨F_isOne_special u h, F_isZero_special u h, F_isOne_special u h, F_isZero_special u h⟩

end Ctor64

/-! ## 4. binary32 -/

def nan32 : Float32 := Float32.ofBits 0x7FC00000
def pinf32 : Float32 := Float32.ofBits 0x7F800000
def ninf32 : Float32 := Float32.ofBits 0xFF800000

def Special32 (x : Float32) : Prop := x.isNaN = true ∨ x.isInf = true

theorem Float32Model_ext {a b : Float32.Model} (h : a.toBits = b.toBits) : a = b := by
  cases a; cases b; cases h; rfl

theorem Float32_ext {a b : Float32} (h : a.toBits = b.toBits) : a = b := by
  cases a; cases b; congr 1; exact Float32Model_ext h

open Float.Model in
theorem F32_eq_nan_of_isNaN (x : Float32) (h : x.isNaN = true) : x = nan32 := by
  obtain ⟨⟨bits, valid⟩⟩ := x
  have h' : (UnpackedFloat.unpack Format.binary32 bits.toBitVec).isNaN = true := h
  have hb : bits.toBitVec = UnpackedFloat.packedNaN Format.binary32 := by
    unfold UnpackedFloat.unpack at h'
    by_cases h1 : UnpackedFloat.unpackExponent (spec := Format.binary32) bits.toBitVec = -1#_
    · by_cases h2 : UnpackedFloat.unpackMantissa (spec := Format.binary32) bits.toBitVec = 0#_
      · simp [h1, h2, UnpackedFloat.isNaN] at h'
      · exact valid.eq_packedNaN h1 h2
    · simp only [h1, if_false] at h'
      split at h'
      · split at h' <;> simp [UnpackedFloat.isNaN] at h'
      · simp [UnpackedFloat.isNaN] at h'
  have hbits : bits = 0x7FC00000 := by
    apply UInt32.toBitVec_inj.mp
    rw [hb]; decide +kernel
  subst hbits
  apply Float32_ext
  show (0x7FC00000 : UInt32) = (Float32.ofBits 0x7FC00000).toBits
  decide +kernel

open Float.Model in
theorem F32_eq_inf_of_isInf (x : Float32) (h : x.isInf = true) : x = pinf32 ∨ x = ninf32 := by
  obtain ⟨⟨bits, valid⟩⟩ := x
  have h' : (UnpackedFloat.unpack Format.binary32 bits.toBitVec).isInf = true := h
  have hb : (bits.toNat >>> 23) % 2 ^ 8 = 255 ∧ bits.toNat % 2 ^ 23 = 0 := by
    unfold UnpackedFloat.unpack at h'
    by_cases h1 : UnpackedFloat.unpackExponent (spec := Format.binary32) bits.toBitVec = -1#_
    · by_cases h2 : UnpackedFloat.unpackMantissa (spec := Format.binary32) bits.toBitVec = 0#_
      · have e1 := congrArg BitVec.toNat h1
        have e2 := congrArg BitVec.toNat h2
        simp [UnpackedFloat.unpackExponent, UnpackedFloat.unpackMantissa, Format.binary32] at e1 e2
        exact ⟨e1, e2⟩
      · simp [h1, h2, UnpackedFloat.isInf] at h'
    · simp only [h1, if_false] at h'
      split at h'
      · split at h' <;> simp [UnpackedFloat.isInf] at h'
      · simp [UnpackedFloat.isInf] at h'
  have hlt : bits.toNat < 2 ^ 32 := bits.toNat_lt
  rw [Nat.shiftRight_eq_div_pow] at hb
  have : bits.toNat = 0x7F800000 ∨ bits.toNat = 0xFF800000 := by omega
  rcases this with e | e
  · left
    have : bits = 0x7F800000 := UInt32.toNat_inj.mp e
    subst this
    apply Float32_ext
    show (0x7F800000 : UInt32) = (Float32.ofBits 0x7F800000).toBits
    decide +kernel
  · right
    have : bits = 0xFF800000 := UInt32.toNat_inj.mp e
    subst this
    apply Float32_ext
    show (0xFF800000 : UInt32) = (Float32.ofBits 0xFF800000).toBits
    decide +kernel

theorem F32_special_iff (x : Float32) : Special32 x ↔ x = nan32 ∨ x = pinf32 ∨ x = ninf32 := by
  constructor
  · rintro (h | h)
    · exact Or.inl (F32_eq_nan_of_isNaN x h)
    · exact Or.inr (F32_eq_inf_of_isInf x h)
  · rintro (rfl | rfl | rfl)
    · exact Or.inl (by decide +kernel)
    · exact Or.inr (by decide +kernel)
    · exact Or.inr (by decide +kernel)

theorem F32_inUnit_nan : Scalar.inUnit (Float32.ofBits 0x7FC00000) = false := by decide +kernel
theorem F32_inUnit_pinf : Scalar.inUnit (Float32.ofBits 0x7F800000) = false := by decide +kernel
theorem F32_inUnit_ninf : Scalar.inUnit (Float32.ofBits 0xFF800000) = false := by decide +kernel

theorem F32_inUnit_special (x : Float32) (h : Special32 x) : Scalar.inUnit x = false := by
  rcases (F32_special_iff x).1 h with rfl | rfl | rfl
  · exact F32_inUnit_nan
  · exact F32_inUnit_pinf
  · exact F32_inUnit_ninf

theorem F32_inUnit_of_isNaN (x : Float32) (h : x.isNaN = true) : Scalar.inUnit x = false :=
  F32_inUnit_special x (Or.inl h)

theorem F32_isOne_special (x : Float32) (h : Special32 x) : Scalar.isOne x = false := by
  rcases (F32_special_iff x).1 h with rfl | rfl | rfl <;> decide +kernel

theorem F32_isZero_special (x : Float32) (h : Special32 x) : Scalar.isZero x = false := by
  rcases (F32_special_iff x).1 h with rfl | rfl | rfl <;> decide +kernel

theorem F32_inUnit_ordinary :
    Scalar.inUnit (0.0 : Float32) = true ∧ Scalar.inUnit (1.0 : Float32) = true ∧
    Scalar.inUnit (0.5 : Float32) = true ∧ Scalar.inUnit (Float32.ofBits 0x3F800004) = true ∧
    Scalar.inUnit (Float32.ofBits 0x3F800005) = false := by decide +kernel

section Ctor32
variable {n : Nat}

theorem F32_tryNew_rejects_special (b a : Tab Float32 n) (u : Float32)
    (h : (∃ i : Fin n, Special32 b[i]) ∨ Special32 u ∨ (∃ i : Fin n, Special32 a[i])) :
    ∃ e, Opinion.tryNew b u a = .error e := by
  apply F_opinion_rejects
  rcases h with ⟨i, hi⟩ | hu | ⟨i, hi⟩
  · exact Or.inl ⟨i, F32_inUnit_special _ hi⟩
  · exact Or.inr (Or.inl (F32_inUnit_special _ hu))
  · exact Or.inr (Or.inr ⟨i, F32_inUnit_special _ hi⟩)

theorem F32_tryNew_rejects_bits (b a : Tab Float32 n) (u : Float32)
    (h : (∃ i : Fin n, b[i] = nan32 ∨ b[i] = pinf32 ∨ b[i] = ninf32) ∨
         (u = nan32 ∨ u = pinf32 ∨ u = ninf32) ∨
         (∃ i : Fin n, a[i] = nan32 ∨ a[i] = pinf32 ∨ a[i] = ninf32)) :
    ∃ e, Opinion.tryNew b u a = .error e := by
  apply F32_tryNew_rejects_special
  rcases h with ⟨i, hi⟩ | hu | ⟨i, hi⟩
  · exact Or.inl ⟨i, (F32_special_iff _).2 hi⟩
  · exact Or.inr (Or.inl ((F32_special_iff _).2 hu))
  · exact Or.inr (Or.inr ⟨i, (F32_special_iff _).2 hi⟩)

theorem F32_tryNew_special_b (b a : Tab Float32 n) (u : Float32) (h : ∃ i : Fin n, Special32 b[i]) :
    Opinion.tryNew b u a = .error .b ∧ Simplex.tryNew b u = .error .b := by
  obtain ⟨i, hi⟩ := h
  exact F_opinion_rejects_b b a u ⟨i, F32_inUnit_special _ hi⟩

theorem F32_simplex_tryNew_rejects_special (b : Tab Float32 n) (u : Float32)
    (h : (∃ i : Fin n, Special32 b[i]) ∨ Special32 u) :
    ∃ e, Simplex.tryNew b u = .error e := by
  apply F_simplex_rejects
  rcases h with ⟨i, hi⟩ | hu
  · exact Or.inl ⟨i, F32_inUnit_special _ hi⟩
  · exact Or.inr (F32_inUnit_special _ hu)

theorem F32_into_opinion_rejects_special (s : Simplex Float32 n) (a : Tab Float32 n)
    (h : ∃ i : Fin n, Special32 a[i]) : Simplex.intoOpinion s a = .error .a := by
  obtain ⟨i, hi⟩ := h
  exact F_into_opinion_rejects s a ⟨i, F32_inUnit_special _ hi⟩

theorem F32_bop_tryNew_rejects_special (b d u a : Float32)
    (h : Special32 b ∨ Special32 d ∨ Special32 u ∨ Special32 a) :
    ∃ e, BOp.tryNew b d u a = .error e := by
  apply F_bop_rejects
  rcases h with h | h | h | h
  · exact Or.inl (F32_inUnit_special _ h)
  · exact Or.inr (Or.inl (F32_inUnit_special _ h))
  · exact Or.inr (Or.inr (Or.inl (F32_inUnit_special _ h)))
  · exact Or.inr (Or.inr (Or.inr (F32_inUnit_special _ h)))

theorem F32_bsimplex_tryNew_rejects_special (b d u : Float32)
    (h : Special32 b ∨ Special32 d ∨ Special32 u) :
    ∃ e, BOp.simplexTryNew b d u = .error e := by
  apply F_bsimplex_rejects
  rcases h with h | h | h
  · exact Or.inl (F32_inUnit_special _ h)
  · exact Or.inr (Or.inl (F32_inUnit_special _ h))
  · exact Or.inr (Or.inr (F32_inUnit_special _ h))

end Ctor32

/-! ## 5. symbolic NaN facts (binary64): the other operand is arbitrary -/

section NaN64
open Float.Model

theorem unpack_nan64 : nan64.toModel.unpack = .notANumber := by rfl

/-- NaN propagates through `+` and `-` -/
theorem F_add_nan (y : Float) : Scalar.add nan64 y = nan64 ∧ Scalar.add y nan64 = nan64 := by
  constructor
  · show Float.ofModel (Float.Model.pack (UnpackedFloat.add Format.binary64 nan64.toModel.unpack y.toModel.unpack)) = nan64
    rw [unpack_nan64]
    simp only [UnpackedFloat.add]
    decide +kernel
  · show Float.ofModel (Float.Model.pack (UnpackedFloat.add Format.binary64 y.toModel.unpack nan64.toModel.unpack)) = nan64
    rw [unpack_nan64]
    have : UnpackedFloat.add Format.binary64 y.toModel.unpack .notANumber = .notANumber := by
      cases y.toModel.unpack <;> simp [UnpackedFloat.add]
    rw [this]
    decide +kernel

theorem F_sub_nan (y : Float) : nan64 - y = nan64 ∧ y - nan64 = nan64 := by
  constructor
  · show Float.ofModel (Float.Model.pack (UnpackedFloat.sub Format.binary64 nan64.toModel.unpack y.toModel.unpack)) = nan64
    rw [unpack_nan64]
    simp only [UnpackedFloat.sub]
    decide +kernel
  · show Float.ofModel (Float.Model.pack (UnpackedFloat.sub Format.binary64 y.toModel.unpack nan64.toModel.unpack)) = nan64
    rw [unpack_nan64]
    have : UnpackedFloat.sub Format.binary64 y.toModel.unpack .notANumber = .notANumber := by
      cases y.toModel.unpack <;> simp [UnpackedFloat.sub]
    rw [this]
    decide +kernel

/-- every comparison with NaN is false -/
theorem F_cmp_nan (y : Float) : Scalar.le nan64 y = false ∧ Scalar.le y nan64 = false ∧
    Scalar.lt nan64 y = false ∧ Scalar.lt y nan64 = false := by
  have h1 : ∀ u : UnpackedFloat, UnpackedFloat.compare .notANumber u = none := by
    intro u; simp [UnpackedFloat.compare]
  have h2 : ∀ u : UnpackedFloat, UnpackedFloat.compare u .notANumber = none := by
    intro u; cases u <;> simp [UnpackedFloat.compare]
  refine ⟨?_, ?_, ?_, ?_⟩
  · show decide (Float.le nan64 y = true) = false
    have : Float.le nan64 y = false := by
      show decide (UnpackedFloat.le nan64.toModel.unpack y.toModel.unpack = true) = false
      rw [unpack_nan64]; simp [UnpackedFloat.le, h1]
    simp [this]
  · show decide (Float.le y nan64 = true) = false
    have : Float.le y nan64 = false := by
      show decide (UnpackedFloat.le y.toModel.unpack nan64.toModel.unpack = true) = false
      rw [unpack_nan64]; simp [UnpackedFloat.le, h2]
    simp [this]
  · show decide (Float.lt nan64 y = true) = false
    have : Float.lt nan64 y = false := by
      show decide (UnpackedFloat.lt nan64.toModel.unpack y.toModel.unpack = true) = false
      rw [unpack_nan64]; simp [UnpackedFloat.lt, h1]
    simp [this]
  · show decide (Float.lt y nan64 = true) = false
    have : Float.lt y nan64 = false := by
      show decide (UnpackedFloat.lt y.toModel.unpack nan64.toModel.unpack = true) = false
      rw [unpack_nan64]; simp [UnpackedFloat.lt, h2]
    simp [this]

/-- `ulps_eq!` never relates NaN to anything, in either position -/
theorem F_ulpsEq_nan (y : Float) : Scalar.ulpsEq nan64 y = false ∧ Scalar.ulpsEq y nan64 = false := by
  have hn : nan64.isNaN = true := by decide +kernel
  have hle : (Float.abs nan64 <= F64.eps) = False := by decide +kernel
  constructor
  · show F64.ulpsEqWith nan64 y F64.eps 4 = false
    unfold F64.ulpsEqWith F64.absDiffEq
    rw [(F_sub_nan y).1]
    simp [hle, hn]
  · show F64.ulpsEqWith y nan64 F64.eps 4 = false
    unfold F64.ulpsEqWith F64.absDiffEq
    rw [(F_sub_nan y).2]
    simp [hle, hn]

/-- hence `is_in_range(NaN, lo, hi)` is false for ARBITRARY bounds -/
theorem F_isInRange_nan (lo hi : Float) : Scalar.isInRange nan64 lo hi = false := by
  unfold Scalar.isInRange Scalar.ge
  rw [(F_cmp_nan lo).2.1, (F_ulpsEq_nan lo).1, (F_ulpsEq_nan hi).1]
  rfl

/-- binomial constructor, NaN component, valid base rate: the SUM check is the one that fails
    (`NaN + d + u = NaN`), label `b+d+u` — as at the exact semantics (`C01_bop_label`) -/
theorem F_bop_nan_label (b d u a : Float) (ha : Scalar.inUnit a = true)
    (h : b.isNaN = true ∨ d.isNaN = true ∨ u.isNaN = true) :
    BOp.tryNew b d u a = .error .bdu ∧ BOp.simplexTryNew b d u = .error .bdu := by
  have hsum : Scalar.add (Scalar.add b d) u = nan64 := by
    rcases h with h | h | h
    · rw [F_eq_nan_of_isNaN b h, (F_add_nan d).1, (F_add_nan u).1]
    · rw [F_eq_nan_of_isNaN d h, (F_add_nan b).2, (F_add_nan u).1]
    · rw [F_eq_nan_of_isNaN u h, (F_add_nan _).2]
  have hone : Scalar.isOne nan64 = false := by decide +kernel
  have hc : BOp.checkSimplex b d u = .error .bdu :=
    F_bcheck_sum b d u (by rw [hsum]; exact hone)
  constructor
  · unfold BOp.tryNew; simp [checkUnit, ha, hc]
  · unfold BOp.simplexTryNew; rw [hc]

end NaN64

/-! ## 5. symbolic NaN facts (binary32): the other operand is arbitrary -/

section NaN32
open Float.Model

theorem unpack_nan32 : nan32.toModel.unpack = .notANumber := by rfl

/-- NaN propagates through `+` and `-` -/
theorem F32_add_nan (y : Float32) : Scalar.add nan32 y = nan32 ∧ Scalar.add y nan32 = nan32 := by
  constructor
  · show Float32.ofModel (Float32.Model.pack (UnpackedFloat.add Format.binary32 nan32.toModel.unpack y.toModel.unpack)) = nan32
    rw [unpack_nan32]
    simp only [UnpackedFloat.add]
    decide +kernel
  · show Float32.ofModel (Float32.Model.pack (UnpackedFloat.add Format.binary32 y.toModel.unpack nan32.toModel.unpack)) = nan32
    rw [unpack_nan32]
    have : UnpackedFloat.add Format.binary32 y.toModel.unpack .notANumber = .notANumber := by
      cases y.toModel.unpack <;> simp [UnpackedFloat.add]
    rw [this]
    decide +kernel

theorem F32_sub_nan (y : Float32) : nan32 - y = nan32 ∧ y - nan32 = nan32 := by
  constructor
  · show Float32.ofModel (Float32.Model.pack (UnpackedFloat.sub Format.binary32 nan32.toModel.unpack y.toModel.unpack)) = nan32
    rw [unpack_nan32]
    simp only [UnpackedFloat.sub]
    decide +kernel
  · show Float32.ofModel (Float32.Model.pack (UnpackedFloat.sub Format.binary32 y.toModel.unpack nan32.toModel.unpack)) = nan32
    rw [unpack_nan32]
    have : UnpackedFloat.sub Format.binary32 y.toModel.unpack .notANumber = .notANumber := by
      cases y.toModel.unpack <;> simp [UnpackedFloat.sub]
    rw [this]
    decide +kernel

/-- every comparison with NaN is false -/
theorem F32_cmp_nan (y : Float32) : Scalar.le nan32 y = false ∧ Scalar.le y nan32 = false ∧
    Scalar.lt nan32 y = false ∧ Scalar.lt y nan32 = false := by
  have h1 : ∀ u : UnpackedFloat, UnpackedFloat.compare .notANumber u = none := by
    intro u; simp [UnpackedFloat.compare]
  have h2 : ∀ u : UnpackedFloat, UnpackedFloat.compare u .notANumber = none := by
    intro u; cases u <;> simp [UnpackedFloat.compare]
  refine ⟨?_, ?_, ?_, ?_⟩
  · show decide (Float32.le nan32 y = true) = false
    have : Float32.le nan32 y = false := by
      show decide (UnpackedFloat.le nan32.toModel.unpack y.toModel.unpack = true) = false
      rw [unpack_nan32]; simp [UnpackedFloat.le, h1]
    simp [this]
  · show decide (Float32.le y nan32 = true) = false
    have : Float32.le y nan32 = false := by
      show decide (UnpackedFloat.le y.toModel.unpack nan32.toModel.unpack = true) = false
      rw [unpack_nan32]; simp [UnpackedFloat.le, h2]
    simp [this]
  · show decide (Float32.lt nan32 y = true) = false
    have : Float32.lt nan32 y = false := by
      show decide (UnpackedFloat.lt nan32.toModel.unpack y.toModel.unpack = true) = false
      rw [unpack_nan32]; simp [UnpackedFloat.lt, h1]
    simp [this]
  · show decide (Float32.lt y nan32 = true) = false
    have : Float32.lt y nan32 = false := by
      show decide (UnpackedFloat.lt y.toModel.unpack nan32.toModel.unpack = true) = false
      rw [unpack_nan32]; simp [UnpackedFloat.lt, h2]
    simp [this]

/-- `ulps_eq!` never relates NaN to anything, in either position -/
theorem F32_ulpsEq_nan (y : Float32) : Scalar.ulpsEq nan32 y = false ∧ Scalar.ulpsEq y nan32 = false := by
  have hn : nan32.isNaN = true := by decide +kernel
  have hle : (Float32.abs nan32 <= F32.eps) = False := by decide +kernel
  constructor
  · show F32.ulpsEqWith nan32 y F32.eps 4 = false
    unfold F32.ulpsEqWith F32.absDiffEq
    rw [(F32_sub_nan y).1]
    simp [hle, hn]
  · show F32.ulpsEqWith y nan32 F32.eps 4 = false
    unfold F32.ulpsEqWith F32.absDiffEq
    rw [(F32_sub_nan y).2]
    simp [hle, hn]

/-- hence `is_in_range(NaN, lo, hi)` is false for ARBITRARY bounds -/
theorem F32_isInRange_nan (lo hi : Float32) : Scalar.isInRange nan32 lo hi = false := by
  unfold Scalar.isInRange Scalar.ge
  rw [(F32_cmp_nan lo).2.1, (F32_ulpsEq_nan lo).1, (F32_ulpsEq_nan hi).1]
  rfl

/-- binomial constructor, NaN component, valid base rate: the SUM check is the one that fails
    (`NaN + d + u = NaN`), label `b+d+u` — as at the exact semantics (`C01_bop_label`) -/
theorem F32_bop_nan_label (b d u a : Float32) (ha : Scalar.inUnit a = true)
    (h : b.isNaN = true ∨ d.isNaN = true ∨ u.isNaN = true) :
    BOp.tryNew b d u a = .error .bdu ∧ BOp.simplexTryNew b d u = .error .bdu := by
  have hsum : Scalar.add (Scalar.add b d) u = nan32 := by
    rcases h with h | h | h
    · rw [F32_eq_nan_of_isNaN b h, (F32_add_nan d).1, (F32_add_nan u).1]
    · rw [F32_eq_nan_of_isNaN d h, (F32_add_nan b).2, (F32_add_nan u).1]
    · rw [F32_eq_nan_of_isNaN u h, (F32_add_nan _).2]
  have hone : Scalar.isOne nan32 = false := by decide +kernel
  have hc : BOp.checkSimplex b d u = .error .bdu :=
    F_bcheck_sum b d u (by rw [hsum]; exact hone)
  constructor
  · unfold BOp.tryNew; simp [checkUnit, ha, hc]
  · unfold BOp.simplexTryNew; rw [hc]

end NaN32

/-! ## non-vacuity -/

/-- a concrete rejected input: NaN base rate in a ternary opinion, other components arbitrary -/
example (b : Tab Float 3) (u : Float) :
    ∃ e, Opinion.tryNew b u (#v[0.5, nan64, 0.5]) = .error e :=
  F_tryNew_rejects_bits b _ u (Or.inr (Or.inr ⟨1, Or.inl rfl⟩))

/-- the constructors are not constantly failing at the float semantics: a concrete accepted opinion -/
example : (Opinion.tryNew (#v[0.25, 0.25] : Tab Float 2) 0.5 (#v[0.5, 0.5])).toBool = true := by
  decide +kernel

example : BOp.tryNew (0.25 : Float) 0.25 0.5 pinf64 = .error .ba :=
  F_bop_rejects_a _ _ _ _ F_inUnit_pinf

end SLV.Props.FloatSpecials
