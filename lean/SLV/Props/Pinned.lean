/-
  Kernel-checked witnesses: the operators of the pinned tree (SLV/Model/Pinned.lean, verbatim copies)
  violate their properties on concrete well-formed inputs.  Each witness was replayed on the real
  implementation (see /verif/pinned/*.json) before the corresponding `fix:` commit in /repo.
-/
import SLV.Model.Pinned
import SLV.Num.XQ
import SLV.Num.Floats
namespace SLV.Props.Pinned
open SLV

def q (n d : Nat) : XQ .f64 := .fin ((n : Rat) / (d : Rat))

def isErr {β} (r : Except Label β) (l : Label) : Bool :=
  match r with | .ok _ => false | .error e => e == l

/-- C12 (pinned): `mul` of (0.5,0.2,0.3;0.4) and (0.3,0.3,0.4;0.6) has b+d+u ≠ 1 — the constructor rejects it. -/
theorem C12_pinned_mul_counterexample :
    isErr (Pinned.mul ⟨q 1 2, q 1 5, q 3 10, q 2 5⟩ ⟨q 3 10, q 3 10, q 2 5, q 3 5⟩) .bdu = true := by
  decide +kernel

/-- C12 (pinned): `comul` of the same operands is rejected as well. -/
theorem C12_pinned_comul_counterexample :
    isErr (Pinned.comul ⟨q 1 2, q 1 5, q 3 10, q 2 5⟩ ⟨q 3 10, q 3 10, q 2 5, q 3 5⟩) .bdu = true := by
  decide +kernel

/-- C12 (repaired model): the same operands are accepted. -/
theorem C12_repaired_accepts :
    (match BOp.mul (⟨q 1 2, q 1 5, q 3 10, q 2 5⟩ : BOp (XQ .f64)) ⟨q 3 10, q 3 10, q 2 5, q 3 5⟩ with
      | .ok _ => true | .error _ => false) = true
    ∧ (match BOp.comul (⟨q 1 2, q 1 5, q 3 10, q 2 5⟩ : BOp (XQ .f64)) ⟨q 3 10, q 3 10, q 2 5, q 3 5⟩ with
      | .ok _ => true | .error _ => false) = true := by
  decide +kernel

/-- C14 (pinned): x=(1/16,6/16,9/16;1/4), y|x=(0,10/16,6/16), y|¬x=(0,5/16,11/16), ay=3/4 (a Case III input):
    the deduced opinion has a negative mass and is rejected. -/
theorem C14_pinned_case3_counterexample :
    (match (Pinned.deduce (⟨q 1 16, q 6 16, q 9 16, q 1 4⟩ : BOp (XQ .f64))
        (q 0 1, q 10 16, q 6 16) (q 0 1, q 5 16, q 11 16) (q 3 4)).1 with
      | .ok _ => false | .error _ => true) = true := by
  decide +kernel

/-- C14 (repaired model): the same input is accepted. -/
theorem C14_repaired_accepts :
    (match (BOp.deduce (⟨q 1 16, q 6 16, q 9 16, q 1 4⟩ : BOp (XQ .f64))
        (q 0 1, q 10 16, q 6 16) (q 0 1, q 5 16, q 11 16) (q 3 4)).1 with
      | .ok _ => true | .error _ => false) = true := by
  decide +kernel

/-- C08 (pinned): base rate (0,1) with conditionals [(1/2,1/4; u=1/4), vacuous]: the only informative
    conditional has base rate 0 and `mbr` returns `some [NaN, NaN]`. -/
theorem C08_pinned_mbr_nan :
    (match Pinned.mbr (#v[q 0 1, q 1 1] : Tab (XQ .f64) 2)
        #v[⟨#v[q 1 2, q 1 4], q 1 4⟩, ⟨#v[q 0 1, q 0 1], q 1 1⟩] with
      | some ay => ay.toList.all XQ.isNaN | none => false) = true := by
  decide +kernel

/-- C08 (repaired model): the same table has no marginal base rate. -/
theorem C08_repaired_mbr_none :
    (match SLV.mbr (#v[q 0 1, q 1 1] : Tab (XQ .f64) 2)
        #v[⟨#v[q 1 2, q 1 4], q 1 4⟩, ⟨#v[q 0 1, q 0 1], q 1 1⟩] with
      | some _ => false | none => true) = true := by
  decide +kernel

/-! ### C06 / C19: product with a zero base-rate entry and an operand that is well-formed only up to the
    constructors' tolerance -/

def pw0 : Opinion (XQ .f64) 2 := ⟨#v[q 1 2, q 1 4], q 1 4, #v[q 0 1, q 1 1]⟩
/-- dogmatic, masses sum to 1 + eps/2 (accepted by the checked constructor) -/
def pw1 : Opinion (XQ .f64) 2 := ⟨#v[q 1 2, .fin (1 / 2 + Fmt.eps .f64 / 2)], q 0 1, #v[q 1 2, q 1 2]⟩

/-- both operands are accepted by `Opinion::try_new` … -/
theorem C06_pinned_operands_accepted :
    (match Opinion.tryNew pw0.b pw0.u pw0.a, Opinion.tryNew pw1.b pw1.u pw1.a with
      | .ok _, .ok _ => true | _, _ => false) = true := by
  decide +kernel

/-- … but the pinned product divides the cell of zero base rate through: its numerator is slightly negative
    (the second factor's projection is normalised by 1 + eps/2), so the "uncertainty" is -inf. -/
theorem C06_pinned_product_minus_infinity :
    (match (Pinned.product2RawBeforeZeroCellFix pw0 pw1).u with | .ninf => true | _ => false) = true := by
  decide +kernel

/-! ### Floating-point witnesses (kernel evaluation of Lean's IEEE-754 model of `Float`) -/

def fb (bits : UInt64) : Float := Float.ofBits bits
def feps : Float := Float.ofBits 0x3CB0000000000000

/-- two nearly vacuous well-formed operands (u = 1-5ε/2 and 1-3ε) with base rates (1/4,3/4), (5/8,3/8) -/
def nv1 : Opinion Float 2 := ⟨#v[1.25 * feps, 1.25 * feps], 1.0 - 2.5 * feps, #v[0.25, 0.75]⟩
def nv2 : Opinion Float 2 := ⟨#v[1.5 * feps, 1.5 * feps], 1.0 - 3.0 * feps, #v[0.625, 0.375]⟩

/-- C02 (pinned, binary64): cumulative fusion returns a "base rate" summing to more than 1.09,
    because `u1 + u2 - 2 u1 u2` is evaluated by catastrophic cancellation. -/
theorem C02_pinned_base_rate_sum :
    (let a := Pinned.computeBaseRate .acm false nv1 nv2; decide (a[0] + a[1] > 1.09)) = true := by
  decide +kernel

/-- C02 (repaired model, binary64): the same operands give a base rate summing to 1 within 4ε. -/
theorem C02_repaired_base_rate_sum :
    (let a := computeBaseRate .acm false nv1 nv2
     decide (a[0] + a[1] ≥ 1.0 - 4.0 * feps) && decide (a[0] + a[1] ≤ 1.0 + 4.0 * feps)) = true := by
  decide +kernel

/-- C13 (pinned, binary64): binomial cumulative fusion of the same operands returns base rate 0.6 where the
    exact value is 5/11 ≈ 0.4545. -/
theorem C13_pinned_cfuse_base_rate :
    (match Pinned.cfuse (⟨1.25 * feps, 1.25 * feps, 1.0 - 2.5 * feps, 0.25⟩ : BOp Float)
        ⟨1.5 * feps, 1.5 * feps, 1.0 - 3.0 * feps, 0.625⟩ with
      | .ok r => decide (r.a > 0.59) | .error _ => false) = true := by
  decide +kernel

/-- C19 (pinned, binary64): binomial weighted fusion of (0.001,0.002,0.997;0.25) and (0.003,0.001,0.996;0.625)
    is rejected by its own 4-ulp self-check although the exact result is well-formed. -/
theorem C19_pinned_wfuse_rejected :
    isErr (Pinned.wfuse (⟨fb 0x3f50624dd2f1a9fc, fb 0x3f60624dd2f1a9fc, fb 0x3fefe76c8b439581, 0.25⟩ : BOp Float)
        ⟨fb 0x3f689374bc6a7efa, fb 0x3f50624dd2f1a9fc, fb 0x3fefdf3b645a1cac, 0.625⟩ 0.5) .bdu = true := by
  decide +kernel

/-- C19 (repaired model, binary64): the same operands are accepted. -/
theorem C19_repaired_wfuse_accepted :
    (match BOp.wfuse (⟨fb 0x3f50624dd2f1a9fc, fb 0x3f60624dd2f1a9fc, fb 0x3fefe76c8b439581, 0.25⟩ : BOp Float)
        ⟨fb 0x3f689374bc6a7efa, fb 0x3f50624dd2f1a9fc, fb 0x3fefdf3b645a1cac, 0.625⟩ 0.5 with
      | .ok _ => true | .error _ => false) = true := by
  decide +kernel

/-- C19 (before repair 003f05d, binary64): `mul` of (1/4,1/4,1/2; a=0.999) and (1/2,1/8,3/8; a=0.998) — dyadic masses,
    unremarkable base rates — is rejected by its own self-check: the divisor `1.0 - a` is taken from the rounded product
    `a = ax*ay`, whose rounding error is amplified by `1/(1-a)`. The exact result is well-formed (`C12_mul_wf`). -/
theorem C19_pinned_mul_rejected_near_one :
    isErr (Pinned.mulCancel (⟨0.25, 0.25, 0.5, fb 0x3feff7ced916872b⟩ : BOp Float)
        ⟨0.5, 0.125, 0.375, fb 0x3fefef9db22d0e56⟩) .bdu = true := by
  decide +kernel

/-- C19 (repaired model, binary64): the same operands are accepted, as are base rates 1-2e-13 and 1-5e-13. -/
theorem C19_repaired_mul_accepted_near_one :
    ((match BOp.mul (⟨0.25, 0.25, 0.5, fb 0x3feff7ced916872b⟩ : BOp Float) ⟨0.5, 0.125, 0.375, fb 0x3fefef9db22d0e56⟩ with
      | .ok _ => true | .error _ => false) &&
     (match BOp.mul (⟨0.25, 0.25, 0.5, fb 0x3feffffffffff8f7⟩ : BOp Float) ⟨0.5, 0.125, 0.375, fb 0x3fefffffffffee68⟩ with
      | .ok _ => true | .error _ => false)) = true := by
  decide +kernel

/-! ### C14: a tie `d0 = d1` between the conditionals, binary32 (before / after repair 4d5bbb1) -/

def fb32 (bits : UInt32) : Float32 := Float32.ofBits bits

/-- x = (0.375, 0.5, 0.125; a = 0.125) -/
def tieX : BOp Float32 := ⟨fb32 0x3ec00000, fb32 0x3f000000, fb32 0x3e000000, fb32 0x3e000000⟩
/-- y|x = (0.125, 0, 0.875) -/
def tieC0 : Float32 × Float32 × Float32 := (fb32 0x3e000000, fb32 0x00000000, fb32 0x3f600000)
/-- y|¬x = (0.1240234375, 0, 0.8759765625) -/
def tieC1 : Float32 × Float32 × Float32 := (fb32 0x3dfe0000, fb32 0x00000000, fb32 0x3f604000)
/-- ay = 0.999755859375 = 1 - 2^-12 -/
def tieAy : Float32 := fb32 0x3f7ff000

/-- C14 (before repair 4d5bbb1, binary32): the two conditionals have no disbelief (`d0 = d1 = 0`) and `b0 > b1`, a Case II
    input.  In exact arithmetic `pyx > r` (sub-case II.B, `k = 0`); in binary32 the margin `a (b0-b1)(1-ay)` is below the
    rounding error of the two sides, `pyx > r` evaluates to false, sub-case II.A.2 is selected and its closed form is
    0/0 = NaN: the constructor's sum check rejects the result (the Rust `new` panics) on well-formed operands. -/
theorem C14_pinned_deduce_tie_nan :
    (match Pinned.deduceNoTie tieX tieC0 tieC1 tieAy with
      | (r, .IIA2) => isErr r .bdu | _ => false) = true := by
  decide +kernel

/-- … the correction term itself is NaN there -/
theorem C14_pinned_deduce_tie_k_nan :
    Float32.isNaN (Pinned.deduceKNoTie tieX tieC0 tieC1 tieAy).1 = true := by
  decide +kernel

/-- C14 (repaired model, binary32): the same operands take the tie arm, `k = 0`, and the result `(bI, dI, uI; ay)` is accepted. -/
theorem C14_repaired_deduce_tie_ok :
    (match BOp.deduce tieX tieC0 tieC1 tieAy with
      | (.ok r, .Tie) => decide (r.d == 0.0) && decide (r.a == tieAy) | _ => false) = true
    ∧ (BOp.deduceK tieX tieC0 tieC1 tieAy).1 = (0.0 : Float32) := by
  decide +kernel

/-- C14 (before repair 4d5bbb1, EXACT arithmetic, boundary `a = 0` of the antecedent's base rate — outside the open domain
    of the property): x = (1/2, 1/4, 1/4; 0), y|x = (1/2, 1/4, 1/4), y|¬x = (1/4, 1/4, 1/2), ay = 1/2 reaches II.A.2 with
    `d0 = d1`: 0/0, rejected although every operand is well-formed. -/
theorem C14_pinned_boundary_a0_rejected :
    (match Pinned.deduceNoTie (⟨q 1 2, q 1 4, q 1 4, q 0 1⟩ : BOp (XQ .f64)) (q 1 2, q 1 4, q 1 4)
        (q 1 4, q 1 4, q 1 2) (q 1 2) with
      | (.error _, .IIA2) => true | _ => false) = true := by
  decide +kernel

/-- C14 (repaired model): the same boundary input takes the tie arm and is accepted. -/
theorem C14_repaired_boundary_a0_accepted :
    (match BOp.deduce (⟨q 1 2, q 1 4, q 1 4, q 0 1⟩ : BOp (XQ .f64)) (q 1 2, q 1 4, q 1 4)
        (q 1 4, q 1 4, q 1 2) (q 1 2) with
      | (.ok _, .Tie) => true | _ => false) = true := by
  decide +kernel

/-! ### C11: the property's own example, binary64 -/

def s3 (a b c u : Float) : Simplex Float 3 := ⟨#v[a / 16.0, b / 16.0, c / 16.0], u / 16.0⟩
def exYX : CondTab Float 2 3 := #v[s3 5 0 11 0, s3 6 6 4 0]
def exYZ : CondTab Float 2 3 := #v[s3 5 5 3 3, s3 3 13 0 0]
def exAX : Tab Float 2 := #v[9.0 / 16.0, 7.0 / 16.0]
def exAZ : Tab Float 2 := #v[6.0 / 16.0, 10.0 / 16.0]
def exAY : Tab Float 3 := #v[7.0 / 16.0, 5.0 / 16.0, 4.0 / 16.0]

/-- C11 (pinned, binary64): the impossible joint cell (x0,z1) gets the absolutely certain opinion (u = 0). -/
theorem C11_pinned_impossible_cell_certain :
    (match Pinned.mergeCond2 false exYX exYZ exAX exAZ exAY with
      | .ok t => decide ((t[1]).u == 0.0) && decide ((t[1]).b[0] == 1.0) | .error _ => false) = true := by
  decide +kernel

/-- C11 (repaired model, binary64): the same cell is vacuous, as in exact arithmetic. -/
theorem C11_repaired_impossible_cell_vacuous :
    (match mergeCond2 false exYX exYZ exAX exAZ exAY with
      | .ok t => decide ((t[1]).u == 1.0) | .error _ => false) = true := by
  decide +kernel

end SLV.Props.Pinned
