/-
  Kernel-checked witnesses: the operators of the pinned tree (SLV/Model/Pinned.lean, verbatim copies)
  violate their properties on concrete well-formed inputs.  Each witness was replayed on the real
  implementation (see /verif/pinned/*.json) before the corresponding `fix:` commit in /repo.
-/
import SLV.Model.Pinned
import SLV.Num.XQ
import SLV.Num.Floats
namespace SLV.Props.Pinned
open SLV

def q (n d : Nat) : XQ .f64 := .fin ((n : Rat) / (d : Rat))

def isErr {β} (r : Except Label β) (l : Label) : Bool :=
  match r with | .ok _ => false | .error e => e == l

/-- C12 (pinned): `mul` of (0.5,0.2,0.3;0.4) and (0.3,0.3,0.4;0.6) has b+d+u ≠ 1 — the constructor rejects it. -/
theorem C12_pinned_mul_counterexample :
    isErr (Pinned.mul ⟨q 1 2, q 1 5, q 3 10, q 2 5⟩ ⟨q 3 10, q 3 10, q 2 5, q 3 5⟩) .bdu = true := by
  decide +kernel

/-- C12 (pinned): `comul` of the same operands is rejected as well. -/
theorem C12_pinned_comul_counterexample :
    isErr (Pinned.comul ⟨q 1 2, q 1 5, q 3 10, q 2 5⟩ ⟨q 3 10, q 3 10, q 2 5, q 3 5⟩) .bdu = true := by
  decide +kernel

/-- C12 (repaired model): the same operands are accepted. -/
theorem C12_repaired_accepts :
    (match BOp.mul (⟨q 1 2, q 1 5, q 3 10, q 2 5⟩ : BOp (XQ .f64)) ⟨q 3 10, q 3 10, q 2 5, q 3 5⟩ with
      | .ok _ => true | .error _ => false) = true
    ∧ (match BOp.comul (⟨q 1 2, q 1 5, q 3 10, q 2 5⟩ : BOp (XQ .f64)) ⟨q 3 10, q 3 10, q 2 5, q 3 5⟩ with
      | .ok _ => true | .error _ => false) = true := by
  decide +kernel

/-- C14 (pinned): x=(1/16,6/16,9/16;1/4), y|x=(0,10/16,6/16), y|¬x=(0,5/16,11/16), ay=3/4 (a Case III input):
    the deduced opinion has a negative mass and is rejected. -/
theorem C14_pinned_case3_counterexample :
    (match (Pinned.deduce (⟨q 1 16, q 6 16, q 9 16, q 1 4⟩ : BOp (XQ .f64))
        (q 0 1, q 10 16, q 6 16) (q 0 1, q 5 16, q 11 16) (q 3 4)).1 with
      | .ok _ => false | .error _ => true) = true := by
  decide +kernel

/-- C14 (repaired model): the same input is accepted. -/
theorem C14_repaired_accepts :
    (match (BOp.deduce (⟨q 1 16, q 6 16, q 9 16, q 1 4⟩ : BOp (XQ .f64))
        (q 0 1, q 10 16, q 6 16) (q 0 1, q 5 16, q 11 16) (q 3 4)).1 with
      | .ok _ => true | .error _ => false) = true := by
  decide +kernel

/-- C08 (pinned): base rate (0,1) with conditionals [(1/2,1/4; u=1/4), vacuous]: the only informative
    conditional has base rate 0 and `mbr` returns `some [NaN, NaN]`. -/
theorem C08_pinned_mbr_nan :
    (match Pinned.mbr (#v[q 0 1, q 1 1] : Tab (XQ .f64) 2)
        #v[⟨#v[q 1 2, q 1 4], q 1 4⟩, ⟨#v[q 0 1, q 0 1], q 1 1⟩] with
      | some ay => ay.toList.all XQ.isNaN | none => false) = true := by
  decide +kernel

/-- C08 (repaired model): the same table has no marginal base rate. -/
theorem C08_repaired_mbr_none :
    (match SLV.mbr (#v[q 0 1, q 1 1] : Tab (XQ .f64) 2)
        #v[⟨#v[q 1 2, q 1 4], q 1 4⟩, ⟨#v[q 0 1, q 0 1], q 1 1⟩] with
      | some _ => false | none => true) = true := by
  decide +kernel

/-! ### C06 / C19: product with a zero base-rate entry and an operand that is well-formed only up to the
    constructors' tolerance -/

def pw0 : Opinion (XQ .f64) 2 := ⟨#v[q 1 2, q 1 4], q 1 4, #v[q 0 1, q 1 1]⟩
/-- dogmatic, masses sum to 1 + eps/2 (accepted by the checked constructor) -/
def pw1 : Opinion (XQ .f64) 2 := ⟨#v[q 1 2, .fin (1 / 2 + Fmt.eps .f64 / 2)], q 0 1, #v[q 1 2, q 1 2]⟩

/-- both operands are accepted by `Opinion::try_new` … -/
theorem C06_pinned_operands_accepted :
    (match Opinion.tryNew pw0.b pw0.u pw0.a, Opinion.tryNew pw1.b pw1.u pw1.a with
      | .ok _, .ok _ => true | _, _ => false) = true := by
  decide +kernel

/-- … but the pinned product divides the cell of zero base rate through: its numerator is slightly negative
    (the second factor's projection is normalised by 1 + eps/2), so the "uncertainty" is -inf. -/
theorem C06_pinned_product_minus_infinity :
    (match (Pinned.product2RawBeforeZeroCellFix pw0 pw1).u with | .ninf => true | _ => false) = true := by
  decide +kernel

/-! ### Floating-point witnesses (kernel evaluation of Lean's IEEE-754 model of `Float`) -/

def fb (bits : UInt64) : Float := Float.ofBits bits
def feps : Float := Float.ofBits 0x3CB0000000000000

/-- two nearly vacuous well-formed operands (u = 1-5ε/2 and 1-3ε) with base rates (1/4,3/4), (5/8,3/8) -/
def nv1 : Opinion Float 2 := ⟨#v[1.25 * feps, 1.25 * feps], 1.0 - 2.5 * feps, #v[0.25, 0.75]⟩
def nv2 : Opinion Float 2 := ⟨#v[1.5 * feps, 1.5 * feps], 1.0 - 3.0 * feps, #v[0.625, 0.375]⟩

/-- C02 (pinned, binary64): cumulative fusion returns a "base rate" summing to more than 1.09,
    because `u1 + u2 - 2 u1 u2` is evaluated by catastrophic cancellation. -/
theorem C02_pinned_base_rate_sum :
    (let a := Pinned.computeBaseRate .acm false nv1 nv2; decide (a[0] + a[1] > 1.09)) = true := by
  decide +kernel

/-- C02 (repaired model, binary64): the same operands give a base rate summing to 1 within 4ε. -/
theorem C02_repaired_base_rate_sum :
    (let a := computeBaseRate .acm false nv1 nv2
     decide (a[0] + a[1] ≥ 1.0 - 4.0 * feps) && decide (a[0] + a[1] ≤ 1.0 + 4.0 * feps)) = true := by
  decide +kernel

/-- C13 (pinned, binary64): binomial cumulative fusion of the same operands returns base rate 0.6 where the
    exact value is 5/11 ≈ 0.4545. -/
theorem C13_pinned_cfuse_base_rate :
    (match Pinned.cfuse (⟨1.25 * feps, 1.25 * feps, 1.0 - 2.5 * feps, 0.25⟩ : BOp Float)
        ⟨1.5 * feps, 1.5 * feps, 1.0 - 3.0 * feps, 0.625⟩ with
      | .ok r => decide (r.a > 0.59) | .error _ => false) = true := by
  decide +kernel

/-- C19 (pinned, binary64): binomial weighted fusion of (0.001,0.002,0.997;0.25) and (0.003,0.001,0.996;0.625)
    is rejected by its own 4-ulp self-check although the exact result is well-formed. -/
theorem C19_pinned_wfuse_rejected :
    isErr (Pinned.wfuse (⟨fb 0x3f50624dd2f1a9fc, fb 0x3f60624dd2f1a9fc, fb 0x3fefe76c8b439581, 0.25⟩ : BOp Float)
        ⟨fb 0x3f689374bc6a7efa, fb 0x3f50624dd2f1a9fc, fb 0x3fefdf3b645a1cac, 0.625⟩ 0.5) .bdu = true := by
  decide +kernel

/-- C19 (repaired model, binary64): the same operands are accepted. -/
theorem C19_repaired_wfuse_accepted :
    (match BOp.wfuse (⟨fb 0x3f50624dd2f1a9fc, fb 0x3f60624dd2f1a9fc, fb 0x3fefe76c8b439581, 0.25⟩ : BOp Float)
        ⟨fb 0x3f689374bc6a7efa, fb 0x3f50624dd2f1a9fc, fb 0x3fefdf3b645a1cac, 0.625⟩ 0.5 with
      | .ok _ => true | .error _ => false) = true := by
  decide +kernel

/-- C19 (before repair 003f05d, binary64): `mul` of (1/4,1/4,1/2; a=0.999) and (1/2,1/8,3/8; a=0.998) — dyadic masses,
    unremarkable base rates — is rejected by its own self-check: the divisor `1.0 - a` is taken from the rounded product
    `a = ax*ay`, whose rounding error is amplified by `1/(1-a)`. The exact result is well-formed (`C12_mul_wf`). -/
theorem C19_pinned_mul_rejected_near_one :
    isErr (Pinned.mulCancel (⟨0.25, 0.25, 0.5, fb 0x3feff7ced916872b⟩ : BOp Float)
        ⟨0.5, 0.125, 0.375, fb 0x3fefef9db22d0e56⟩) .bdu = true := by
  decide +kernel

/-- C19 (repaired model, binary64): the same operands are accepted, as are base rates 1-2e-13 and 1-5e-13. -/
theorem C19_repaired_mul_accepted_near_one :
    ((match BOp.mul (⟨0.25, 0.25, 0.5, fb 0x3feff7ced916872b⟩ : BOp Float) ⟨0.5, 0.125, 0.375, fb 0x3fefef9db22d0e56⟩ with
      | .ok _ => true | .error _ => false) &&
     (match BOp.mul (⟨0.25, 0.25, 0.5, fb 0x3feffffffffff8f7⟩ : BOp Float) ⟨0.5, 0.125, 0.375, fb 0x3fefffffffffee68⟩ with
      | .ok _ => true | .error _ => false)) = true := by
  decide +kernel

/-! ### C14: a tie `d0 = d1` between the conditionals, binary32 (before / after repair 4d5bbb1) -/

def fb32 (bits : UInt32) : Float32 := Float32.ofBits bits

/-- x = (0.375, 0.5, 0.125; a = 0.125) -/
def tieX : BOp Float32 := ⟨fb32 0x3ec00000, fb32 0x3f000000, fb32 0x3e000000, fb32 0x3e000000⟩
/-- y|x = (0.125, 0, 0.875) -/
def tieC0 : Float32 × Float32 × Float32 := (fb32 0x3e000000, fb32 0x00000000, fb32 0x3f600000)
/-- y|¬x = (0.1240234375, 0, 0.8759765625) -/
def tieC1 : Float32 × Float32 × Float32 := (fb32 0x3dfe0000, fb32 0x00000000, fb32 0x3f604000)
/-- ay = 0.999755859375 = 1 - 2^-12 -/
def tieAy : Float32 := fb32 0x3f7ff000

/-- C14 (before repair 4d5bbb1, binary32): the two conditionals have no disbelief (`d0 = d1 = 0`) and `b0 > b1`, a Case II
    input.  In exact arithmetic `pyx > r` (sub-case II.B, `k = 0`); in binary32 the margin `a (b0-b1)(1-ay)` is below the
    rounding error of the two sides, `pyx > r` evaluates to false, sub-case II.A.2 is selected and its closed form is
    0/0 = NaN: the constructor's sum check rejects the result (the Rust `new` panics) on well-formed operands. -/
theorem C14_pinned_deduce_tie_nan :
    (match Pinned.deduceNoTie tieX tieC0 tieC1 tieAy with
      | (r, .IIA2) => isErr r .bdu | _ => false) = true := by
  decide +kernel

/-- … the correction term itself is NaN there -/
theorem C14_pinned_deduce_tie_k_nan :
    Float32.isNaN (Pinned.deduceKNoTie tieX tieC0 tieC1 tieAy).1 = true := by
  decide +kernel

/-- C14 (repaired model, binary32): on the same operands `k = 0` (tie arm of repair 4d5bbb1; since repair b163717 the
    disbelief bound `kb = (1-a) u (d1-d0)/(1-ay) = 0` is the smaller one), and the result `(bI, dI, uI; ay)` is accepted. -/
theorem C14_repaired_deduce_tie_ok :
    (match BOp.deduce tieX tieC0 tieC1 tieAy with
      | (.ok r, .IIB) => decide (r.d == 0.0) && decide (r.a == tieAy) | _ => false) = true
    ∧ (BOp.deduceK tieX tieC0 tieC1 tieAy).1 = (0.0 : Float32) := by
  decide +kernel

/-- C14 (before repair 4d5bbb1, EXACT arithmetic, boundary `a = 0` of the antecedent's base rate — outside the open domain
    of the property): x = (1/2, 1/4, 1/4; 0), y|x = (1/2, 1/4, 1/4), y|¬x = (1/4, 1/4, 1/2), ay = 1/2 reaches II.A.2 with
    `d0 = d1`: 0/0, rejected although every operand is well-formed. -/
theorem C14_pinned_boundary_a0_rejected :
    (match Pinned.deduceNoTie (⟨q 1 2, q 1 4, q 1 4, q 0 1⟩ : BOp (XQ .f64)) (q 1 2, q 1 4, q 1 4)
        (q 1 4, q 1 4, q 1 2) (q 1 2) with
      | (.error _, .IIA2) => true | _ => false) = true := by
  decide +kernel

/-- C14 (repaired model): the same boundary input is accepted (tie arm of 4d5bbb1; both bounds are 0 since b163717). -/
theorem C14_repaired_boundary_a0_accepted :
    (match BOp.deduce (⟨q 1 2, q 1 4, q 1 4, q 0 1⟩ : BOp (XQ .f64)) (q 1 2, q 1 4, q 1 4)
        (q 1 4, q 1 4, q 1 2) (q 1 2) with
      | (.ok _, .IIA) => true | _ => false) = true := by
  decide +kernel

/-! ### C14: plain decimal operands, binary64 (before / after repair b163717) -/

/-- 0.1 (binary64) -/
def dec01 : Float := fb 0x3fb999999999999a

/-- C14 / C19 (after repair 4d5bbb1, before repair b163717, binary64): x = (0, 0, 1; a = 0.1) vacuous, y|x = (1, 0, 0),
    y|¬x = (0.5, 0.5, 0), ay = 0.1 -- a Case II input with exact result (0.5, 0, 0.5; 0.1): `pyx` and `r` are both 0.55
    in exact arithmetic (`ka = kb = 1`).  The nine-branch operator takes a rounding-decided sub-case (II.A.1) whose closed
    form `a u (bI - b1)/(P ay)` comes out slightly above 1, `d = dI - (1-ay) k = -2.8e-16`, and the constructor rejects the
    disbelief (the Rust `new` panics) on exactly well-formed operands. -/
theorem C14_pinned_deduce_decimal_panics :
    (match Pinned.deduceNineBranch (⟨0.0, 0.0, 1.0, dec01⟩ : BOp Float) (1.0, 0.0, 0.0) (0.5, 0.5, 0.0) dec01 with
      | (r, .IIA1) => isErr r .dd | _ => false) = true := by
  decide +kernel

/-- … the rejected disbelief is `-2^-52 - 2^-54` (bits 0xbcb4000000000000, as recorded by the harness hook in
    /verif/pinned/C14_deduce_decimal_pinned_harness_output.txt) -/
theorem C14_pinned_deduce_decimal_residue :
    (let k := (Pinned.deduceKNineBranch (⟨0.0, 0.0, 1.0, dec01⟩ : BOp Float) (1.0, 0.0, 0.0) (0.5, 0.5, 0.0) dec01).1
     let di : Float := 0.0 * 0.0 + 0.0 * 0.5 + 1.0 * (0.0 * dec01 + 0.5 * (1.0 - dec01))
     decide (di - (1.0 - dec01) * k == fb 0xbcb4000000000000)) = true := by
  decide +kernel

/-- C14 (repaired model, binary64): the same operands are accepted; `ka = 0.1·1·0.5/0.1`, `kb = 0.9·1·0.5/0.9`, no
    cancellation, no rounding-decided branch: the result is (0.5, 0, 0.5; 0.1) up to an ulp. -/
theorem C14_repaired_deduce_decimal_ok :
    (match BOp.deduce (⟨0.0, 0.0, 1.0, dec01⟩ : BOp Float) (1.0, 0.0, 0.0) (0.5, 0.5, 0.0) dec01 with
      | (.ok r, _) => decide (0.0 ≤ r.d) && decide (r.d ≤ feps) && decide (r.a == dec01) | _ => false) = true := by
  decide +kernel

/-- C14 (nine-branch operator, EXACT arithmetic, boundary `P = 0` of the antecedent -- outside the open domain of the
    property): x = (0, 1/2, 1/2; 0), y|x = (1/2, 1/4, 1/4), y|¬x = (1/4, 1/2, 1/4), ay = 1/2 (no tie) reaches II.A.1, whose
    divisor is `P·ay = 0` under a zero numerator: 0/0, rejected although every operand is well-formed.  The current
    operator accepts it (`SLV.Props.C14.C14_boundary_P0_accepted`). -/
theorem C14_pinned_boundary_P0_rejected :
    (match Pinned.deduceNineBranch (⟨q 0 1, q 1 2, q 1 2, q 0 1⟩ : BOp (XQ .f64)) (q 1 2, q 1 4, q 1 4)
        (q 1 4, q 1 2, q 1 4) (q 1 2) with
      | (.error _, .IIA1) => true | _ => false) = true := by
  decide +kernel

/-! ### C19: a fold of cumulative fusions on dyadic operands, binary64 (before / after repair df72a91) -/

/-- x = (0, 3/8, 5/8; 1/2) -/
def chX : BOp Float := ⟨0.0, 0.375, 0.625, 0.5⟩
/-- z = (3/4, 1/8, 1/8; 1/2) -/
def chZ : BOp Float := ⟨0.75, 0.125, 0.125, 0.5⟩
/-- s = (0, 1/8, 7/8; 1/2) -/
def chS : BOp Float := ⟨0.0, 0.125, 0.875, 0.5⟩

/-- C19 (before repair df72a91, binary64): three cumulative fusions in a row, `((x ⊕ x) ⊕ z) ⊕ s`, on dyadic,
    non-dogmatic operands.  Every intermediate result is accepted with `b + d + u` an ulp or so away from 1; the deviation
    is carried into the next call un-normalised, amplified, and the third call rejects its own result (label `b+d+u`),
    although the exact result is well-formed (`SLV.Props.C19.C19_cfuse_exact_ok`, three times). -/
theorem C19_pinned_cfuse_chain_rejected :
    isErr (Pinned.cfuseUnnorm chX chX >>= (Pinned.cfuseUnnorm · chZ) >>= (Pinned.cfuseUnnorm · chS)) .bdu = true := by
  decide +kernel

/-- … the first two steps are accepted -/
theorem C19_pinned_cfuse_chain_prefix_ok :
    (match Pinned.cfuseUnnorm chX chX >>= (Pinned.cfuseUnnorm · chZ) with
      | .ok _ => true | .error _ => false) = true := by
  decide +kernel

/-- C19 (repaired model, binary64): with the renormalisation the same fold is accepted. -/
theorem C19_repaired_cfuse_chain_ok :
    (match BOp.cfuse chX chX >>= (BOp.cfuse · chZ) >>= (BOp.cfuse · chS) with
      | .ok _ => true | .error _ => false) = true := by
  decide +kernel

/-! ### C12 / C14 / C19: `mul`, `comul`, `deduce` on plain decimal operands, binary64 (before / after repair d46c983) -/

/-- x = (0, 0.95, 0.05; a = 0.55), the doubles nearest to the decimal literals; `0 + 0.95 + 0.05 = 1` exactly in binary64 -/
def dcX : BOp Float := ⟨fb 0x0, fb 0x3fee666666666666, fb 0x3fa999999999999a, fb 0x3fe199999999999a⟩
/-- y = (0, 0.01, 0.99; a = 0.01) -/
def dcY : BOp Float := ⟨fb 0x0, fb 0x3f847ae147ae147b, fb 0x3fefae147ae147ae, fb 0x3f847ae147ae147b⟩
/-- x = (0.99998, 0, 2e-5; a = 0.57) -/
def dmX : BOp Float := ⟨fb 0x3fefffd60e94ee39, fb 0x0, fb 0x3ef4f8b588e368f1, fb 0x3fe23d70a3d70a3d⟩
/-- y = (2e-5, 0, 0.99998; a = 0.31) -/
def dmY : BOp Float := ⟨fb 0x3ef4f8b588e368f1, fb 0x0, fb 0x3fefffd60e94ee39, fb 0x3fd3d70a3d70a3d7⟩

/-- the four operands are exactly well-formed in binary64: the constructor accepts them and `b + d + u == 1.0` -/
theorem C12_pinned_decimal_operands_wf :
    ([dcX, dcY, dmX, dmY].all fun w =>
      (match BOp.tryNew w.b w.d w.u w.a with | .ok _ => true | .error _ => false) && decide (w.b + w.d + w.u == 1.0))
      = true := by
  decide +kernel

/-- C12 (before repair d46c983, binary64): `comul` of two plain decimal, exactly well-formed operands panics
    (`b + d + u = 1 is not satisfied`): the three masses come from independent formulas, 7-8 roundings on the dominating
    one, and their float sum is `1 - 5·2^-53` where the self-check accepts `1 - 2ε`.  The exact result is well-formed
    (`SLV.Props.C12.C12_comul_ok`). -/
theorem C12_pinned_comul_decimal_panics :
    isErr (Pinned.comulUnnorm dcX dcY) .bdu = true := by
  decide +kernel

/-- C12 (before repair d46c983, binary64): `mul` of two plain decimal, exactly well-formed operands panics likewise. -/
theorem C12_pinned_mul_decimal_panics :
    isErr (Pinned.mulUnnorm dmX dmY) .bdu = true := by
  decide +kernel

/-- C12 (repaired model, binary64): with the renormalisation both calls are accepted, and the result adds up to exactly 1. -/
theorem C12_repaired_comul_decimal_ok :
    (match BOp.comul dcX dcY with
      | .ok r => decide (r.b + r.d + r.u == 1.0) | .error _ => false) = true := by
  decide +kernel

theorem C12_repaired_mul_decimal_ok :
    (match BOp.mul dmX dmY with
      | .ok r => decide (r.b + r.d + r.u == 1.0) | .error _ => false) = true := by
  decide +kernel

/-- antecedent, conditionals and consequent base rate of the second case of pinned/C19_bdeduce_residue.json (arbitrary
    binary64 operands inside the tolerance of the constructors: their sums are 1 - ε, 1 - ε, 1 - ε/2; Case III) -/
def drX : BOp Float := ⟨fb 0x3fe77527cdc793e8, fb 0x3fd01a47ecba9f8b, fb 0x3f8f6d0ef6c71413, fb 0x3fd3dda2bf6f9d8a⟩
def drC0 : Float × Float × Float := (fb 0x3fca7af25479d746, fb 0x3fe729b2e4754199, fb 0x3fb1bc84336244a2)
def drC1 : Float × Float × Float := (fb 0x3fd8db0e777822e2, fb 0x3fe39115c1a45519, fb 0x3f263029f9975502)
def drAy : Float := fb 0x3f9d9c8da0e116a4

/-- C14 / C19 (before repair d46c983, binary64): `deduce` on operands accepted by the constructors panics by the same
    residue: the float sum of the three masses is `1 - 5·2^-53` (about once per million random calls; this was the finding
    `C19 op=bdeduce`; no exactly well-formed operand tuple with this outcome is known: 0 in 9 million decimal / random
    tuples).  In exact arithmetic the two operators agree on well-formed operands (`SLV.Props.C14.C14_eq_unnormalised`). -/
theorem C14_pinned_deduce_unnorm_rejected :
    ((match BOp.tryNew drX.b drX.d drX.u drX.a with | .ok _ => true | .error _ => false)
      && isErr (Pinned.deduceUnnorm drX drC0 drC1 drAy).1 .bdu) = true := by
  decide +kernel

/-- C14 / C19 (repaired model, binary64): the same call is accepted. -/
theorem C14_repaired_deduce_unnorm_ok :
    (match (BOp.deduce drX drC0 drC1 drAy).1 with
      | .ok _ => true | .error _ => false) = true := by
  decide +kernel

/-! ### C12: `comul` with subnormal base rates, binary64 and binary32 (before / after repair a66cfd4) -/

/-- x = (1/4, 1/2, 1/4; a = 2^-1074), y = (1/8, 3/8, 1/2; a = 2^-1074): exactly well-formed, the base rates are the
    smallest positive binary64 value -/
def snX : BOp Float := ⟨0.25, 0.5, 0.25, fb 0x1⟩
def snY : BOp Float := ⟨0.125, 0.375, 0.5, fb 0x1⟩
/-- the same with the smallest positive binary32 value 2^-149 -/
def snX32 : BOp Float32 := ⟨0.25, 0.5, 0.25, fb32 0x1⟩
def snY32 : BOp Float32 := ⟨0.125, 0.375, 0.5, fb32 0x1⟩

/-- C12 (after d46c983, before a66cfd4): with the base rates as factors of the numerators every product
    `a_x (1 - a_y) d_x u_y`, .. underflows to 0 before the division by the (equally small) `a = a_x + a_y - a_x a_y`
    restores the scale: the un-normalised masses are `(b, d_x d_y, u_x u_y)`, the renormalisation turns them into a
    well-formed opinion -- the call is ACCEPTED -- with the belief `0.5238095238095238` (bits 0x3FE0C30C30C30C31) where
    `b = b_x + b_y - b_x b_y = 0.34375` is required (`SLV.Props.C12.C12_comul_lift`); binary32 likewise: `0.52380955`. -/
theorem C12_pinned_comul_subnormal_wrong :
    ((match Pinned.comulNumerFirst snX snY with
      | .ok r => decide (Float.toBits r.b = 0x3FE0C30C30C30C31) && decide (Float.toBits r.d = 0x3FD2492492492492)
          && decide (Float.toBits r.u = 0x3FC8618618618618) && decide (r.b ≠ 0.34375)
      | .error _ => false)
     && (match Pinned.comulNumerFirst snX32 snY32 with
      | .ok r => decide (r.b > 0.5238095) && decide (r.b < 0.5238096) && decide (r.b ≠ 0.34375)
      | .error _ => false)) = true := by
  decide +kernel

/-- C12 (repaired model): the weights `a_x / a = a_y / a = 1/2` are formed first; the result is exactly
    `(0.34375, 0.359375, 0.296875)` in binary64 and in binary32 -/
theorem C12_repaired_comul_subnormal :
    ((match BOp.comul snX snY with
      | .ok r => decide (r.b = 0.34375) && decide (r.d = 0.359375) && decide (r.u = 0.296875)
      | .error _ => false)
     && (match BOp.comul snX32 snY32 with
      | .ok r => decide (r.b = 0.34375) && decide (r.d = 0.359375) && decide (r.u = 0.296875)
      | .error _ => false)) = true := by
  decide +kernel

/-! ### C14: binomial `deduce`, rounding residue of an exactly-zero disbelief, binary64 (before / after repair cf81fd9) -/

/-- vacuous antecedent (0, 0, 1; a = 3/16), conditionals y|x = (0, 9/16, 7/16), y|¬x = (1/16, 0, 15/16), a_y = 3/16:
    every operand is a dyadic rational, exactly well-formed.  Case III; the exact disbelief of the result is 0 -/
def bzX : BOp Float := ⟨0.0, 0.0, 1.0, 0.1875⟩
def bzC0 : Float × Float × Float := (0.0, 0.5625, 0.4375)
def bzC1 : Float × Float × Float := (0.0625, 0.0, 0.9375)
def bzAy : Float := 0.1875

/-- C14 (after d46c983, before cf81fd9, binary64): `di` and `(1 - a_y) k` are two differently rounded evaluations of the
    same product; the difference `-2^-56` is divided by `s` and returned as the disbelief `-1.3877787807814457e-17` (bits
    0xBC70000000000000).  The constructor tolerates it (`|d| ≤ ε`): the call is ACCEPTED with a negative mass. -/
theorem C14_pinned_bdeduce_negative_mass :
    (match (Pinned.bdeduceNoClamp bzX bzC0 bzC1 bzAy).1 with
      | .ok r => decide (Float.toBits r.d = 0xBC70000000000000) && decide (r.d < 0.0)
          && decide (Float.toBits r.b = 0x3F9B13B13B13B13A) && decide (Float.toBits r.u = 0x3FEF276276276276)
      | .error _ => false) = true := by
  decide +kernel

/-- C14 (repaired model, binary64): the same call returns the disbelief `+0` exactly, the other two masses unchanged -/
theorem C14_repaired_bdeduce_nonneg :
    (match (BOp.deduce bzX bzC0 bzC1 bzAy).1 with
      | .ok r => decide (Float.toBits r.d = 0) && decide (r.b ≥ 0.0) && decide (r.u ≤ 1.0)
          && decide (Float.toBits r.b = 0x3F9B13B13B13B13A) && decide (Float.toBits r.u = 0x3FEF276276276276)
      | .error _ => false) = true := by
  decide +kernel

/-! ### C11: the property's own example, binary64 -/

def s3 (a b c u : Float) : Simplex Float 3 := ⟨#v[a / 16.0, b / 16.0, c / 16.0], u / 16.0⟩
def exYX : CondTab Float 2 3 := #v[s3 5 0 11 0, s3 6 6 4 0]
def exYZ : CondTab Float 2 3 := #v[s3 5 5 3 3, s3 3 13 0 0]
def exAX : Tab Float 2 := #v[9.0 / 16.0, 7.0 / 16.0]
def exAZ : Tab Float 2 := #v[6.0 / 16.0, 10.0 / 16.0]
def exAY : Tab Float 3 := #v[7.0 / 16.0, 5.0 / 16.0, 4.0 / 16.0]

/-- C11 (pinned, binary64): the impossible joint cell (x0,z1) gets the absolutely certain opinion (u = 0). -/
theorem C11_pinned_impossible_cell_certain :
    (match Pinned.mergeCond2 false exYX exYZ exAX exAZ exAY with
      | .ok t => decide ((t[1]).u == 0.0) && decide ((t[1]).b[0] == 1.0) | .error _ => false) = true := by
  decide +kernel

/-- C11 (repaired model, binary64): the same cell is vacuous, as in exact arithmetic. -/
theorem C11_repaired_impossible_cell_vacuous :
    (match mergeCond2 false exYX exYZ exAX exAZ exAY with
      | .ok t => decide ((t[1]).u == 1.0) | .error _ => false) = true := by
  decide +kernel

/-! ### C19, recorded findings (NOT repaired; `known_findings.txt`, `op=prod2|prod3 label=sum(a)|sum(b)+u`): the unlabelled products
    reject their own result because the validators re-sum up to 9 / 27 cells left to right against a window of [1-2ε, 1+4ε].
    First pinned witness of each finding (pinned/C19_prod{2,3}_sum_{a,bu}.json); every factor is accepted by the checked
    constructor, the float evaluation of the current model answers with the same label as the crate. -/

def p2aw0 : Opinion Float 3 :=
  ⟨#v[fb 0x3fc4a466508d416f, fb 0x3fc5f7487c7d33bd, fb 0x3fcb7f274c8e36ff], fb 0x3fdcf294f333a9eb, #v[fb 0x3fe32f0499165f74, fb 0x3fd5313d9982b1e5, fb 0x3fb1c2e4d1423cc1]⟩
def p2aw1 : Opinion Float 3 :=
  ⟨#v[fb 0x3fe10c69efeb3839, fb 0x3fca0c00bb36ccac, fb 0x3fd0cb5df50499cd], fb 0x3f55cdcd898f6ac3, #v[fb 0x3fd6e728e2f0eb7a, fb 0x3fe48bf319c18acf, fb 0x3f0e1d317fdc7b99]⟩
def p2bw0 : Opinion Float 3 :=
  ⟨#v[fb 0x3fec11e695d18788, fb 0x3fbd517f192da95d, fb 0x3f80ddf34b1c9742], fb 0x3f0c6e77143bf0e2, #v[fb 0x3fd670545063a178, fb 0x3fde1ee1dd3eb565, fb 0x3fc6e193a4bb5245]⟩
def p2bw1 : Opinion Float 3 :=
  ⟨#v[fb 0x3f8b62b094dad139, fb 0x3ed098f7c2f3e2f3, fb 0x3fabaef6c29e48e2], fb 0x3fedd77d8506ceb4, #v[fb 0x3fdfbaf4137947b7, fb 0x3fceb0a9815f429f, fb 0x3fd0ecb72bd716fa]⟩
def p3aw0 : Opinion Float 3 :=
  ⟨#v[fb 0x3f7c90771af47abb, fb 0x3fc2297c8d4631f0, fb 0x3f672ff839d52914], fb 0x3feb254ff63eb565, #v[fb 0x3fe895e410c077b6, fb 0x3fb662e1412d667f, fb 0x3fc276ff1c676de7]⟩
def p3aw1 : Opinion Float 3 :=
  ⟨#v[fb 0x3f08af4110492fcd, fb 0x3fd71608d233b37d, fb 0x3fdd9e4d68dfb2da], fb 0x3fc695c895c82ebc, #v[fb 0x3fbb8f28a81bebb6, fb 0x3fd36b8c7149239a, fb 0x3fe2d854b257f0bb]⟩
def p3aw2 : Opinion Float 3 :=
  ⟨#v[fb 0x3f95e54eb7d56a4b, fb 0x3fda6f3e3942ff26, fb 0x3fda3cbff6475a6c], fb 0x3fc3eb59c9f09f91, #v[fb 0x3fdb555aabf69c5d, fb 0x3fcb754ef208a4f8, fb 0x3fd6effddb051126]⟩
def p3bw0 : Opinion Float 3 :=
  ⟨#v[fb 0x3fe307bbfb6f5415, fb 0x3fb32a3638419d08, fb 0x3fd3e7bdcee77ded], fb 0x3f93e3cac2972a64, #v[fb 0x3fd142eba41fd0a1, fb 0x3fdd6f89a1eefc21, fb 0x3fd14d8ab9f1333c]⟩
def p3bw1 : Opinion Float 3 :=
  ⟨#v[fb 0x3fe0275c93e29236, fb 0x3fd63de1870d8452, fb 0x3faacb06a8faf12e], fb 0x3fb86811f037e47c, #v[fb 0x3fd9eae212b3c570, fb 0x3fd1ceacd9cab123, fb 0x3fd446711381896e]⟩
def p3bw2 : Opinion Float 3 :=
  ⟨#v[fb 0x3fb4ed9e183613e9, fb 0x3fdc3fb52319f5c7, fb 0x3fd5179a66eabde3], fb 0x3fc2da91dfdb8eba, #v[fb 0x3feee4e1f7d3c97f, fb 0x3f7c09f685cf3898, fb 0x3f9c61436413020a]⟩

/-- all ten factors are accepted by `Opinion::try_new` -/
theorem C19_finding_product_sum_operands_accepted :
    ([p2aw0, p2aw1, p2bw0, p2bw1, p3aw0, p3aw1, p3aw2, p3bw0, p3bw1, p3bw2].all fun w =>
      match Opinion.tryNew w.b w.u w.a with | .ok _ => true | .error _ => false) = true := by
  decide +kernel

/-- C19 (current model = current crate, binary64): `Opinion::new` inside the unlabelled products rejects the result with the
    labels `sum(a)` / `sum(b)+u` -/
theorem C19_finding_product_sum_rejected :
    (isErr (product2U p2aw0 p2aw1) .sumA && isErr (product2U p2bw0 p2bw1) .sumBU
      && isErr (product3U p3aw0 p3aw1 p3aw2) .sumA && isErr (product3U p3bw0 p3bw1 p3bw2) .sumBU) = true := by
  decide +kernel

/-! ### C11, recorded finding (NOT repaired; `op=merge oracle=impossible_cell_vacuous`): an impossible joint cell decided by rounding
    noise above the absolute zero tolerance (pinned/C11_f32_noise_above_eps.json, binary32).  Cell (x1=0, x2=0) has zero belief
    under every y, so the exact composition gives the vacuous conditional (`C11_impossible_cell_vacuous`); in binary32 the
    cell's projected likelihood under y1 is 1.59e-7 > ε = 1.19e-7 and the model -- like the crate -- returns the certain opinion
    (0, 1, 0), u = 0. -/

def icY1 : CondTab Float32 2 3 := #v[⟨#v[fb32 0x00000000, fb32 0x3e800000, fb32 0x3f400000], fb32 0x00000000⟩, ⟨#v[fb32 0x3ec00000, fb32 0x3e800000, fb32 0x3ec00000], fb32 0x00000000⟩]
def icY2 : CondTab Float32 2 3 := #v[⟨#v[fb32 0x3f400000, fb32 0x3e800000, fb32 0x00000000], fb32 0x00000000⟩, ⟨#v[fb32 0x00000000, fb32 0x3f400000, fb32 0x3e800000], fb32 0x00000000⟩]
def icA1 : Tab Float32 2 := #v[fb32 0x3f7ffc00, fb32 0x38800000]
def icA2 : Tab Float32 2 := #v[fb32 0x3f7ff000, fb32 0x39800000]
def icAY : Tab Float32 3 := #v[fb32 0x3e000000, fb32 0x3f200000, fb32 0x3e800000]

theorem C11_finding_impossible_cell_noise_f32 :
    (match mergeCond2 false icY1 icY2 icA1 icA2 icAY with
      | .ok t => decide ((t[0]).u == 0.0) && decide ((t[0]).b[1] == 1.0) && decide ((t[0]).b[0] == 0.0) && decide ((t[0]).b[2] == 0.0)
      | .error _ => false) = true := by
  decide +kernel

/-! ### C11, recorded finding (NOT repaired; `known_findings.txt`, `op=merge oracle=equals_composition`): a joint cell that is possible
    only under a `y` with a small base rate.  Y|X1 = [([5/16, 0], 11/16), ([5/16, 1/8], 9/16)], Y|X2 vacuous, a_X1 = [3/8, 5/8],
    a_X2 = [1/4, 3/4], a_Y = [1 - 2^-40, 2^-40]: X2 is irrelevant and the exact merged conditional of the cells (1, ·) is
    ([0, 3/64], 61/64) (theorems of `Props/C11`); the float evaluation of the model -- bit for bit what the crate returns, see
    pinned/C11_small_ay_pinned_harness_output.txt -- has b[1] = 0.046856696602889644 in cell (1,0): the positive residue that the
    products leave in an exactly-zero joint mass is divided by a marginal base rate of the order 2^-40. -/

def fsa2 (a b u : Float) : Simplex Float 2 := ⟨#v[a, b], u⟩
def fyX1 : CondTab Float 2 2 := #v[fsa2 (5.0 / 16.0) 0.0 (11.0 / 16.0), fsa2 (5.0 / 16.0) (1.0 / 8.0) (9.0 / 16.0)]
def fyX2 : CondTab Float 2 2 := #v[fsa2 0.0 0.0 1.0, fsa2 0.0 0.0 1.0]
def faX1 : Tab Float 2 := #v[3.0 / 8.0, 5.0 / 8.0]
def faX2 : Tab Float 2 := #v[1.0 / 4.0, 3.0 / 4.0]
def faYs : Tab Float 2 := #v[Float.ofBits 0x3FEFFFFFFFFFE000, Float.ofBits 0x3D70000000000000]

/-- C11 (current model = current crate, binary64): cell (1,0) of the merged table has b[1] = 0x3FA7FD99D7041946
    (0.0468567…) where the exact value is 3/64 = 0x3FA8000000000000; the result is well-formed and the other parent order
    gives the same wrong value -/
theorem C11_finding_small_ay_float :
    (match mergeCond2 false fyX1 fyX2 faX1 faX2 faYs with
      | .ok t => decide (Float.toBits ((t[2]).b[1]) = 0x3FA7FD99D7041946)
          && decide (Float.toBits ((t[2]).b[1]) ≠ 0x3FA8000000000000) && decide ((t[2]).b[0] ≥ 0.0) && decide ((t[2]).u ≤ 1.0)
      | .error _ => false) = true := by
  decide +kernel

/-! ### C09: `uncertainty_maximized` under a base rate whose float sum is 1 + 3ε (accepted by the constructors);
    before repair f029db5 the result was not renormalised -/

/-- the vacuous simplex over two values -/
def vac2 : Simplex Float 2 := ⟨#v[0.0, 0.0], 1.0⟩
/-- a = [0.5, 0.5 + 3ε]: both entries and their sum 1 + 3ε are exactly representable -/
def aSum3 : Tab Float 2 := #v[0.5, 0.5 + 3.0 * feps]

/-- the operand (vacuous simplex, base rate summing to 1 + 3ε) is accepted by `Opinion::try_new` -/
theorem C09_pinned_operand_accepted :
    (match Opinion.tryNew vac2.b vac2.u aSum3 with | .ok _ => true | .error _ => false) = true := by
  decide +kernel

/-- C09 (before f029db5, binary64): the "maximised" vacuous simplex has u' = 1 - 3ε and zero masses, so
    Σb' + u' = 1 - 3ε misses the `is_one` test (1 - 2ε is the lower end of the band) and `Simplex::try_new` rejects
    the result with the sum error; it is not even vacuous any more. -/
theorem C09_pinned_maximized_sum_rejected :
    (let w := Pinned.uncertaintyMaximizedUnnorm vac2 aSum3
     decide (w.u == 1.0 - 3.0 * feps) && decide (w.b[0] == 0.0) && decide (w.b[1] == 0.0)
       && !(Scalar.isOne (Scalar.add (Tab.sumIter w.b) w.u)) && !w.isVacuous
       && isErr (Simplex.tryNew w.b w.u) .sumBU) = true := by
  decide +kernel

/-- C09 (repaired model, binary64): the same input gives back the vacuous simplex (u' = 1, zero masses), accepted. -/
theorem C09_repaired_maximized_sum_ok :
    (let w := Simplex.uncertaintyMaximized vac2 aSum3
     decide (w.u == 1.0) && decide (w.b[0] == 0.0) && decide (w.b[1] == 0.0)
       && Scalar.isOne (Scalar.add (Tab.sumIter w.b) w.u) && w.isVacuous
       && (match Simplex.tryNew w.b w.u with | .ok _ => true | .error _ => false)) = true := by
  decide +kernel

/-- the same input at the exact semantics: before the repair the total was 1/(1+3ε), not 1
    (`C09_maximized_sums_to_one` in SLV/Props/C09.lean was false for the old definition) … -/
theorem C09_pinned_maximized_total_exact :
    (let w := Pinned.uncertaintyMaximizedUnnorm (⟨#v[q 0 1, q 0 1], q 1 1⟩ : Simplex (XQ .f64) 2)
        #v[q 1 2, .fin (1 / 2 + 3 * Fmt.eps .f64)]
     decide (Scalar.add (Tab.sumIter w.b) w.u = .fin (1 / (1 + 3 * Fmt.eps .f64)))
       && !decide (Scalar.add (Tab.sumIter w.b) w.u = .fin 1)) = true := by
  decide +kernel

/-- … and is exactly 1 now -/
theorem C09_repaired_maximized_total_exact :
    (let w := Simplex.uncertaintyMaximized (⟨#v[q 0 1, q 0 1], q 1 1⟩ : Simplex (XQ .f64) 2)
        #v[q 1 2, .fin (1 / 2 + 3 * Fmt.eps .f64)]
     decide (Scalar.add (Tab.sumIter w.b) w.u = .fin 1)) = true := by
  decide +kernel

/-! ### C06 / C15 / C16: products on a cell of small joint base rate (before / after repair abca806) -/

/-- binary32, exactly well-formed dyadic operands: `w0 = ([7/8, 1/8 - 2^-12], u = 2^-12, a = [2^-13, 1 - 2^-13])`, -/
def cw0 : Opinion Float32 2 :=
  ⟨#v[fb32 0x3f600000, fb32 0x3dff8000], fb32 0x39800000, #v[fb32 0x39000000, fb32 0x3f7ff800]⟩
/-- `w1 = ([1/2, 1/2], u = 0, a = [1/2, 1/2])` (dogmatic, uniform) -/
def cw1 : Opinion Float32 2 :=
  ⟨#v[fb32 0x3f000000, fb32 0x3f000000], fb32 0x00000000, #v[fb32 0x3f000000, fb32 0x3f000000]⟩

/-- the same operands as rationals -/
def cq0 : Opinion (XQ .f32) 2 :=
  ⟨#v[.fin (7 / 8), .fin (1 / 8 - 1 / 4096)], .fin (1 / 4096), #v[.fin (1 / 8192), .fin (1 - 1 / 8192)]⟩
def cq1 : Opinion (XQ .f32) 2 := ⟨#v[.fin (1 / 2), .fin (1 / 2)], .fin 0, #v[.fin (1 / 2), .fin (1 / 2)]⟩

/-- the operands' masses and base rates sum to exactly 1 in binary32 (no rounding in these sums), and the checked
    constructor accepts both -/
theorem C06_cancel_operands_exactly_wf :
    (decide (cw0.b[0] + cw0.b[1] + cw0.u = 1.0) && decide (cw0.a[0] + cw0.a[1] = 1.0)
      && decide (cw1.b[0] + cw1.b[1] + cw1.u = 1.0) && decide (cw1.a[0] + cw1.a[1] = 1.0)
      && (match Opinion.tryNew cw0.b cw0.u cw0.a, Opinion.tryNew cw1.b cw1.u cw1.a with
          | .ok _, .ok _ => true | _, _ => false)) = true := by
  decide +kernel

/-- at the exact semantics the joint (maximal) uncertainty of the product is `2^-12`, for the cancelling form of
    the code before repair abca806 and for the expanded form alike -/
theorem C06_product_uncertainty_exact :
    (Pinned.product2RawCancel cq0 cq1).u = .fin (1 / 4096) ∧ (product2Raw cq0 cq1).u = .fin (1 / 4096) := by
  decide +kernel

/-- C06 (after repair 06db2ad, before repair abca806, binary32): the product (either family; the labelled one returns
    this `u` unchecked, the unlabelled one accepts it: the result is a well-formed but NOT uncertainty-maximal
    opinion) loses the whole uncertainty, `u = 0` where the exact value is `2^-12`: on the cells of base rate
    `2^-13 * 1/2` the difference `P0*P1 - b0*b1` of two rounded products of order 0.44 is exactly 0. -/
theorem C06_pinned_product_uncertainty_lost :
    (Pinned.product2RawCancel cw0 cw1).u = (0.0 : Float32) := by
  decide +kernel

/-- C06 (repaired model, binary32): the same operands give `u` within 4 ulps of `2^-12` (in fact exactly `2^-12`) -/
theorem C06_repaired_product_uncertainty :
    (let u := (product2Raw cw0 cw1).u
     decide (u ≥ fb32 0x397ffffc) && decide (u ≤ fb32 0x39800002) && decide (u = fb32 0x39800000)) = true := by
  decide +kernel

/-- uniform dogmatic factor -/
def dg0 : Opinion (XQ .f64) 2 := ⟨#v[q 1 2, q 1 2], q 0 1, #v[q 1 2, q 1 2]⟩

/-- C06 (before repair abca806, exact semantics): for the dogmatic operands `dg0` and `pw1` (masses summing to
    `1 + ε/2`, accepted by the checked constructor, all base rates 1/2) the candidates `(P0*P1 - b0*b1)/(a0*a1)` of the
    NORMALISED projections are negative, `u = -(1+ε)ε/(2+ε) < 0`; the expanded candidates of the repaired code are sums
    of products of non-negative numbers (`C06_uncertainty_nonneg_gen` in SLV/Props/C06.lean), here `u = 0` -/
theorem C06_pinned_product_negative_exact :
    (match (Pinned.product2RawCancel dg0 pw1).u with | .fin x => decide (x < 0) | _ => false) = true
    ∧ (product2Raw dg0 pw1).u = .fin 0 := by
  decide +kernel

/-- binary32, well-formed within the constructors' tolerance (accepted by `Opinion::try_new`):
    `w0 = (b, u = 2^-12 (1 + 2^-5), a)` on three values with `a[0] = 2^-13`, whose projection sums to 1 + 1 ulp -/
def dw0 : Opinion Float32 3 :=
  ⟨#v[fb32 0x3f44eeea, fb32 0x3e02c788, fb32 0x3dd275a0], fb32 0x39840000,
    #v[fb32 0x39000000, fb32 0x3f484440, fb32 0x3e5ecf00]⟩
/-- `w1 = ([1/2, 1/2], u = 0, a = [2^-8, 1 - 2^-8])` -/
def dw1 : Opinion Float32 2 :=
  ⟨#v[fb32 0x3f000000, fb32 0x3f000000], fb32 0x00000000, #v[fb32 0x3b800000, fb32 0x3f7f0000]⟩

/-- C06 / C19 (before repair abca806, binary32): both operands are accepted by the checked constructor, the
    product's "uncertainty" is `-1/16`: the labelled product returns an ill-formed opinion silently, the unlabelled
    one (`Opinion::new`) panics -/
theorem C06_pinned_product_negative_uncertainty :
    ((match Opinion.tryNew dw0.b dw0.u dw0.a, Opinion.tryNew dw1.b dw1.u dw1.a with
        | .ok _, .ok _ => true | _, _ => false)
      && decide ((Pinned.product2RawCancel dw0 dw1).u = fb32 0xbd800000)
      && (let r := Pinned.product2RawCancel dw0 dw1; isErr (Opinion.tryNew r.b r.u r.a) .u)) = true := by
  decide +kernel

/-- C06 / C19 (repaired model, binary32): the same operands give a small positive uncertainty
    (`u0 * (1/2) / (1 - 2^-8)` ≈ 1.264e-4) and the validating product accepts its result -/
theorem C06_repaired_product_nonneg_uncertainty :
    (decide ((product2Raw dw0 dw1).u ≥ fb32 0x39040000) && decide ((product2Raw dw0 dw1).u ≤ fb32 0x39050000)
      && (match product2U dw0 dw1 with | .ok _ => true | .error _ => false)) = true := by
  decide +kernel

/-! ### C06 / C19: rounding residue of a joint belief mass (before / after repair b817f74) -/

/-- binary64, decimal operands: the vacuous opinion over `a = [0.01, 0.99]` … -/
def vw0 : Opinion Float 2 :=
  ⟨#v[fb 0x0, fb 0x0], fb 0x3ff0000000000000, #v[fb 0x3f847ae147ae147b, fb 0x3fefae147ae147ae]⟩
/-- … times `([0.02, 0.17], u = 0.81, a = [0.07, 0.93])` -/
def vw1 : Opinion Float 2 :=
  ⟨#v[fb 0x3f947ae147ae147b, fb 0x3fc5c28f5c28f5c3], fb 0x3fe9eb851eb851ec,
    #v[fb 0x3fb1eb851eb851ec, fb 0x3fedc28f5c28f5c3]⟩

/-- first binary64 entry of gen/corpus/prodclamp_hot.txt (a nearly vacuous opinion with zero belief on its dominant
    base-rate element, times another one) -/
def hw0 : Opinion Float 2 :=
  ⟨#v[fb 0x3fab04509260eaf7, fb 0x0], fb 0x3fee4fbaf6d9f151, #v[fb 0x3fb17e7a81137184, fb 0x3fedd030afdd91d0]⟩
def hw1 : Opinion Float 2 :=
  ⟨#v[fb 0x3f65f32b5f1c1e80, fb 0x0], fb 0x3fefea0cd4a0e3e2, #v[fb 0x3fb74d94e967816a, fb 0x3fed164d62d30fd3]⟩

/-- C06 / C19 (after repair abca806, before repair b817f74, binary64): all four operands are accepted by the checked
    constructor.  The exact joint mass of cell `[1,1]` is `b0[1]*b1[1] = 0` in both products; the computed `p - a*u` is
    `-1.5 ε = -3.33e-16` (`0xBCB8000000000000`), below the validators' `-ε`: the unlabelled product (`Opinion::new`) panics
    with the label `b[]`, in either order of the decimal factors, and the labelled product (`Opinion::normalized`, nothing
    validated) returns the negative mass -/
theorem C06_pinned_product_negative_mass :
    ((match Opinion.tryNew vw0.b vw0.u vw0.a, Opinion.tryNew vw1.b vw1.u vw1.a,
            Opinion.tryNew hw0.b hw0.u hw0.a, Opinion.tryNew hw1.b hw1.u hw1.a with
        | .ok _, .ok _, .ok _, .ok _ => true | _, _, _, _ => false)
      && decide ((Pinned.product2NoClamp vw0 vw1).b[3] = fb 0xbcb8000000000000)
      && decide ((Pinned.product2NoClamp vw0 vw1).b[3] < -SLV.F64.eps)
      && isErr (Pinned.product2UNoClamp vw0 vw1) .b && isErr (Pinned.product2UNoClamp vw1 vw0) .b
      && decide ((Pinned.product2LNoClamp vw0 vw1).b[3] = fb 0xbcb8000000000000)
      && decide ((Pinned.product2NoClamp hw0 hw1).b[3] = fb 0xbcb8000000000000)
      && isErr (Pinned.product2UNoClamp hw0 hw1) .b
      && decide ((Pinned.product2LNoClamp hw0 hw1).b[3] = fb 0xbcb8000000000000)) = true := by
  decide +kernel

/-- C06 / C19 (repaired model, binary64): the same products have the mass `+0.0` in that cell, in both families, no
    mass compares below zero, and the unlabelled products accept their results -/
theorem C06_repaired_product_nonneg :
    (decide ((product2Raw vw0 vw1).b[3].toBits = 0) && decide ((product2L vw0 vw1).b[3].toBits = 0)
      && (product2Raw vw0 vw1).b.toList.all (fun x => !Scalar.lt x (Scalar.zero : Float))
      && (match product2U vw0 vw1, product2U vw1 vw0 with | .ok _, .ok _ => true | _, _ => false)
      && decide ((product2Raw hw0 hw1).b[3].toBits = 0) && decide ((product2L hw0 hw1).b[3].toBits = 0)
      && (product2Raw hw0 hw1).b.toList.all (fun x => !Scalar.lt x (Scalar.zero : Float))
      && (match product2U hw0 hw1 with | .ok _ => true | .error _ => false)) = true := by
  decide +kernel

/-! ### C07 / C02 / C03: the per-entry shortcut of `compute_base_rate` (before / after repairs c0b2ed5 + c8a7116) -/

/-- binary32: `l = ([2^-19, 0.99992275], u = 2^-14·1.234375, a = [2^-19, 1 - 2^-19])`,
    `r = ([2^-20·1.5, 0.87621856], u = 0.12378001, a = [2^-19·1.0625, 1 - 2^-19·1.0625])`: the first base-rate entries
    differ by 6.25 % but by less than ε = 2^-23 absolutely, so `ulps_eq!` held for them -/
def cmL : Opinion Float32 2 :=
  ⟨#v[fb32 0x36000000, fb32 0x3f7ffaf0], fb32 0x389e0000, #v[fb32 0x36000000, fb32 0x3f7fffe0]⟩
def cmR : Opinion Float32 2 :=
  ⟨#v[fb32 0x35c00000, fb32 0x3f604fdc], fb32 0x3dfd8060, #v[fb32 0x36080000, fb32 0x3f7fffde]⟩

/-- the operands are exactly well-formed in binary32 and accepted by the checked constructor -/
theorem C07_pinned_operands_accepted :
    (decide (cmL.b[0] + cmL.b[1] + cmL.u = 1.0) && decide (cmL.a[0] + cmL.a[1] = 1.0)
      && decide (cmR.b[0] + cmR.b[1] + cmR.u = 1.0) && decide (cmR.a[0] + cmR.a[1] = 1.0)
      && (match Opinion.tryNew cmL.b cmL.u cmL.a, Opinion.tryNew cmR.b cmR.u cmR.a with
          | .ok _, .ok _ => true | _, _ => false)) = true := by
  decide +kernel

/-- C07 (before repairs c0b2ed5 / c8a7116, binary32): the fused base rate is the LEFT operand's wherever the entries
    are `ulps_eq!`: the two orders of ONE operand pair give different base rates (every operator; shown for ECm's), and
    epistemic cumulative fusion, which divides by the base rate when it maximises the uncertainty, turns the
    difference into u = 0.999999 vs u = 0.941180 -/
theorem C07_pinned_base_rate_not_commutative :
    (let a := Pinned.computeBaseRateLeft .ecm false cmL cmR
     let a' := Pinned.computeBaseRateLeft .ecm false cmR cmL
     decide (a[0] = fb32 0x36000000) && decide (a[1] = fb32 0x3f7fffe0)
       && decide (a'[0] = fb32 0x36080000) && decide (a'[1] = fb32 0x3f7fffde)
       && decide ((Pinned.fuseLeft .ecm false cmL cmR).u = fb32 0x3f7fffe7)
       && decide ((Pinned.fuseLeft .ecm false cmR cmL).u = fb32 0x3f70f124)
       && decide ((Pinned.fuseLeft .ecm false cmL cmR).u > 0.99999)
       && decide ((Pinned.fuseLeft .ecm false cmR cmL).u < 0.94119)) = true := by
  decide +kernel

/-- … and for the other three operators the two orders differ in the base rate (only) -/
theorem C07_pinned_base_rate_not_commutative_others :
    (decide ((Pinned.computeBaseRateLeft .acm false cmL cmR)[0] ≠ (Pinned.computeBaseRateLeft .acm false cmR cmL)[0])
      && decide ((Pinned.computeBaseRateLeft .avg false cmL cmR)[0] ≠ (Pinned.computeBaseRateLeft .avg false cmR cmL)[0])
      && decide ((Pinned.computeBaseRateLeft .wgh false cmL cmR)[0] ≠ (Pinned.computeBaseRateLeft .wgh false cmR cmL)[0])
      && decide ((Pinned.fuseLeft .acm false cmL cmR).u = (Pinned.fuseLeft .acm false cmR cmL).u)) = true := by
  decide +kernel

/-- C07 (repaired model, binary32): the weighted value in both orders, bit for bit, for all four operators; ECm's
    two orders agree in every component (u = 0.999965) -/
theorem C07_repaired_base_rate_commutative :
    (let a := computeBaseRate .ecm false cmL cmR
     let a' := computeBaseRate .ecm false cmR cmL
     let w := fuse .ecm false cmL cmR
     let w' := fuse .ecm false cmR cmL
     decide (a[0] = fb32 0x36000118) && decide (a[1] = fb32 0x3f7fffe0)
       && decide (a'[0] = a[0]) && decide (a'[1] = a[1])
       && decide (w.u = fb32 0x3f7ffdb7) && decide (w'.u = w.u)
       && decide (w'.b[0] = w.b[0]) && decide (w'.b[1] = w.b[1]) && decide (w'.a[0] = w.a[0]) && decide (w'.a[1] = w.a[1])
       && decide (computeBaseRate .acm false cmL cmR = computeBaseRate .acm false cmR cmL)
       && decide (computeBaseRate .avg false cmL cmR = computeBaseRate .avg false cmR cmL)
       && decide (computeBaseRate .wgh false cmL cmR = computeBaseRate .wgh false cmR cmL)) = true := by
  decide +kernel

/-! ### C04 / C05: rounding residue of an exactly-zero belief mass (before / after repair 9ec2d8b)

`deduce_of` and `inverse` build every belief mass as `p - a·u`.  For the coordinate that attains the minimum
defining `u` the two terms are equal in exact arithmetic; in binary64 the difference is a residue down to about
-2.5 ε, and `Simplex::normalized` divides it by a sum just below 1.  The checked constructors accept a mass only down
to -ε, so the result was rejected by the crate's own validators although every operand is exactly well-formed. -/

def s2 (a b u : Float) : Simplex Float 2 := ⟨#v[a, b], u⟩
def s3' (a b c u : Float) : Simplex Float 3 := ⟨#v[a, b, c], u⟩

/-- antecedent `x = ([0, 1/4, 0], u = 3/4, a = [1/2, 0, 1/2])` -/
def rzX : Opinion Float 3 := ⟨#v[0.0, 0.25, 0.0], 0.75, #v[0.5, 0.0, 0.5]⟩
/-- conditionals `[([1/2, 0], 1/2), ([0, 1/2], 1/2), ([0, 1/4], 3/4)]` -/
def rzC : CondTab Float 3 2 := #v[s2 0.5 0.0 0.5, s2 0.0 0.5 0.5, s2 0.0 0.25 0.75]

/-- the operands are exactly well-formed (every sum is exact in binary64) and accepted by the checked constructors -/
theorem C04_residue_operands_exactly_wf :
    (decide (rzX.b[0] + rzX.b[1] + rzX.b[2] + rzX.u = 1.0) && decide (rzX.a[0] + rzX.a[1] + rzX.a[2] = 1.0)
      && (match Opinion.tryNew rzX.b rzX.u rzX.a with | .ok _ => true | .error _ => false)
      && rzC.toList.all (fun c => decide (c.b[0] + c.b[1] + c.u = 1.0)
            && (match Simplex.tryNew c.b c.u with | .ok _ => true | .error _ => false))) = true := by
  decide +kernel

/-- C04 (before 9ec2d8b, binary64): `deduce` (base rate on `Y` = the marginal base rate `[2/3, 1/3]`) returns
    `b[0] = -2.2204460492503136e-16` (bits 0xBCB0000000000001, just below -ε), `b[1] = 1/8`-ish, and
    `Opinion::try_new` rejects the result with the belief-mass error. -/
theorem C04_pinned_deduce_negative_mass :
    (match mbr rzX.a rzC with
      | none => false
      | some ay =>
        let w := Pinned.deduceOfNoClamp rzX rzC ay
        decide (Float.toBits w.b[0] = 0xBCB0000000000001) && decide (w.b[0] < -feps)
          && !(Scalar.isZero w.b[0]) && isErr (Opinion.tryNew w.b w.u w.a) .b) = true := by
  decide +kernel

/-- C04 (repaired model, binary64): the same input gives `b[0] = 0` exactly, and the checked constructor accepts the
    result. -/
theorem C04_repaired_deduce_nonneg :
    (match deduce rzX rzC with
      | none => false
      | some w =>
        decide (Float.toBits w.b[0] = 0) && decide (w.b[1] ≥ 0.0) && decide (w.u ≥ 0.0)
          && (match Opinion.tryNew w.b w.u w.a with | .ok _ => true | .error _ => false)) = true := by
  decide +kernel

/-- observation `y = ([1/4, 0, 1/4], u = 1/2)` -/
def rzY : Simplex Float 3 := s3' 0.25 0.0 0.25 0.5
/-- conditionals `Y|X = [([0, 1/4, 1/4], 1/2), ([0, 1/4, 1/2], 1/4)]`, base rate `a_X = [3/4, 1/4]` -/
def rzCY : CondTab Float 2 3 := #v[s3' 0.0 0.25 0.25 0.5, s3' 0.0 0.25 0.5 0.25]
def rzAX : Tab Float 2 := #v[0.75, 0.25]

/-- C05 (before 9ec2d8b, binary64): `abduce` of exactly well-formed operands returns `b[0] = -2.2204460492503136e-16`
    (bits 0xBCB0000000000001), rejected by `Opinion::try_new`.  (Here the three inverted conditionals are still
    accepted; the residue arises in the `deduce_of` step of the abduction.) -/
theorem C05_pinned_abduce_negative_mass :
    (match mbr rzAX rzCY with
      | none => false
      | some ay =>
        let w := Pinned.abduceWithNoClamp rzY rzCY rzAX ay
        decide (Float.toBits w.b[0] = 0xBCB0000000000001) && decide (w.b[0] < -feps)
          && (Pinned.inverseNoClamp rzCY rzAX ay).toList.all
               (fun c => match Simplex.tryNew c.b c.u with | .ok _ => true | .error _ => false)
          && isErr (Opinion.tryNew w.b w.u w.a) .b) = true := by
  decide +kernel

/-- C05 (repaired model, binary64): the same input gives `b[0] = 0` exactly; accepted. -/
theorem C05_repaired_abduce_nonneg :
    (match abduce rzY rzCY rzAX with
      | none => false
      | some w =>
        decide (Float.toBits w.b[0] = 0) && decide (w.b[1] ≥ 0.0) && decide (w.u ≥ 0.0)
          && (match Opinion.tryNew w.b w.u w.a with | .ok _ => true | .error _ => false)) = true := by
  decide +kernel

/-! ### C09 / C02: rounding residue of the zero mass of `uncertainty_maximized` (before / after repair 8520ade)

`uncertainty_maximized` builds every mass as `p[i] - a[i]·û` with `û = min p/a`: the state that attains the minimum has
mass exactly 0, but `p[i]` and `a[i]·û` round differently.  After repair f029db5 the residue was divided through by
`Simplex::normalized` and returned; since 8520ade it is clamped at zero first. -/

/-- dogmatic simplex `([0, 1], u = 0)` -/
def bandS : Simplex Float 2 := ⟨#v[0.0, 1.0], 0.0⟩
/-- `a = [ε, 1]`: entry 0 at the top of the zero band, sum `1 + ε` (exact), accepted by `check_base_rate` -/
def bandA : Tab Float 2 := #v[feps, 1.0]
def bandS32 : Simplex Float32 2 := ⟨#v[0.0, 1.0], 0.0⟩
/-- the same with the binary32 `ε = 2^-23` -/
def bandA32 : Tab Float32 2 := #v[fb32 0x34000000, 1.0]

/-- the operand is accepted by `Opinion::try_new` (binary64 and binary32) -/
theorem C09_pinned_band_operand_accepted :
    ((match Opinion.tryNew bandS.b bandS.u bandA with | .ok _ => true | .error _ => false)
      && (match Opinion.tryNew bandS32.b bandS32.u bandA32 with | .ok _ => true | .error _ => false)) = true := by
  decide +kernel

/-- C09 (after f029db5, before 8520ade; binary64 and binary32): `û = 1` (entry 0 is skipped by the `is_zero` guard), the
    mass `0 - ε·1 = -ε` is divided by the total `1 - ε` and comes back as `-ε(1 + 2^-52)` (bits 0xBCB0000000000001, just
    below the `-ε` the constructors accept) with `u' = 1 + 2^-52`: `Simplex::try_new` rejects the result with the
    belief-mass error.  Binary32 likewise: bits 0xB4000001, `u' = 1 + 2^-23`. -/
theorem C09_pinned_maximized_band_rejected :
    ((let w := Pinned.uncertaintyMaximizedNoClamp bandS bandA
      decide (Float.toBits w.b[0] = 0xBCB0000000000001) && decide (w.b[0] < -feps) && !(Scalar.isZero w.b[0])
        && decide (Float.toBits w.b[1] = 0) && decide (Float.toBits w.u = 0x3FF0000000000001)
        && isErr (Simplex.tryNew w.b w.u) .b)
     && (let w := Pinned.uncertaintyMaximizedNoClamp bandS32 bandA32
      decide (Float32.toBits w.b[0] = 0xB4000001) && !(Scalar.isZero w.b[0])
        && decide (Float32.toBits w.u = 0x3F800001) && isErr (Simplex.tryNew w.b w.u) .b)) = true := by
  decide +kernel

/-- C09 (repaired model, binary64 and binary32): the same operands give the vacuous simplex, masses exactly `+0`, `u' = 1`;
    accepted. -/
theorem C09_repaired_maximized_band_accepted :
    ((let w := Simplex.uncertaintyMaximized bandS bandA
      decide (Float.toBits w.b[0] = 0) && decide (Float.toBits w.b[1] = 0) && decide (w.u == 1.0)
        && (match Simplex.tryNew w.b w.u with | .ok _ => true | .error _ => false))
     && (let w := Simplex.uncertaintyMaximized bandS32 bandA32
      decide (Float32.toBits w.b[0] = 0) && decide (Float32.toBits w.b[1] = 0) && decide (w.u == 1.0)
        && (match Simplex.tryNew w.b w.u with | .ok _ => true | .error _ => false))) = true := by
  decide +kernel

/-- vacuous opinion over `a = [0, 1]` -/
def ecL : Opinion Float 2 := ⟨#v[0.0, 0.0], 1.0, #v[0.0, 1.0]⟩
/-- `([1/8, 1/2], u = 3/8, a = [7/8, 1/8])`: exactly well-formed dyadic operand -/
def ecR : Opinion Float 2 := ⟨#v[0.125, 0.5], 0.375, #v[0.875, 0.125]⟩

/-- C02 (after f029db5, before 8520ade; binary64): epistemic cumulative fusion of two exactly well-formed dyadic
    opinions, no band involved.  The fused base rate is `[7/8, 1/8]`, `û = (1/8 + 7/8·3/8)/(7/8) = 29/56`, and
    `p[0] - a[0]·û`, exactly 0, is computed as `-2^-54 = -5.551115123125783e-17` (bits 0xBC90000000000000): a negative
    belief mass (inside the `-ε` tolerance of the constructors, so accepted, but negative) in either operand order. -/
theorem C02_pinned_ecm_negative_mass :
    (let w := Pinned.fuseNoClamp .ecm false ecL ecR
     let w' := Pinned.fuseNoClamp .ecm false ecR ecL
     decide (Float.toBits w.b[0] = 0xBC90000000000000) && decide (w.b[0] < 0.0)
       && decide (Float.toBits w'.b[0] = 0xBC90000000000000)
       && decide (w.a[0] == 0.875) && decide (w.a[1] == 0.125)
       && (match Opinion.tryNew ecL.b ecL.u ecL.a, Opinion.tryNew ecR.b ecR.u ecR.a with
           | .ok _, .ok _ => true | _, _ => false)) = true := by
  decide +kernel

/-- C02 (repaired model, binary64): the same fusion returns `b[0] = +0` exactly, the other components unchanged
    (`b[1] = 27/56`, `u = 29/56` to the last bit), and no component is negative. -/
theorem C02_repaired_ecm_nonneg :
    (let w := fuse .ecm false ecL ecR
     let w0 := Pinned.fuseNoClamp .ecm false ecL ecR
     decide (Float.toBits w.b[0] = 0) && decide (w.b[1] ≥ 0.0) && decide (w.u ≥ 0.0) && decide (w.u ≤ 1.0)
       && decide (Float.toBits w.b[1] = Float.toBits w0.b[1]) && decide (Float.toBits w.u = Float.toBits w0.u)
       && decide (Float.toBits (fuse .ecm false ecR ecL).b[0] = 0)
       && (match Opinion.tryNew w.b w.u w.a with | .ok _ => true | .error _ => false)) = true := by
  decide +kernel

end SLV.Props.Pinned
