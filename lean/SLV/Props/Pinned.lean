/-
  Kernel-checked witnesses: the operators of the pinned tree (SLV/Model/Pinned.lean, verbatim copies)
  violate their properties on concrete well-formed inputs.  Each witness was replayed on the real
  implementation (see /verif/pinned/*.json) before the corresponding `fix:` commit in /repo.
-/
import SLV.Model.Pinned
import SLV.Num.XQ
namespace SLV.Props.Pinned
open SLV

def q (n d : Nat) : XQ .f64 := .fin ((n : Rat) / (d : Rat))

def isErr {β} (r : Except Label β) (l : Label) : Bool :=
  match r with | .ok _ => false | .error e => e == l

/-- C12 (pinned): `mul` of (0.5,0.2,0.3;0.4) and (0.3,0.3,0.4;0.6) has b+d+u ≠ 1 — the constructor rejects it. -/
theorem C12_pinned_mul_counterexample :
    isErr (Pinned.mul ⟨q 1 2, q 1 5, q 3 10, q 2 5⟩ ⟨q 3 10, q 3 10, q 2 5, q 3 5⟩) .bdu = true := by
  decide +kernel

/-- C12 (pinned): `comul` of the same operands is rejected as well. -/
theorem C12_pinned_comul_counterexample :
    isErr (Pinned.comul ⟨q 1 2, q 1 5, q 3 10, q 2 5⟩ ⟨q 3 10, q 3 10, q 2 5, q 3 5⟩) .bdu = true := by
  decide +kernel

/-- C12 (repaired model): the same operands are accepted. -/
theorem C12_repaired_accepts :
    (match BOp.mul (⟨q 1 2, q 1 5, q 3 10, q 2 5⟩ : BOp (XQ .f64)) ⟨q 3 10, q 3 10, q 2 5, q 3 5⟩ with
      | .ok _ => true | .error _ => false) = true
    ∧ (match BOp.comul (⟨q 1 2, q 1 5, q 3 10, q 2 5⟩ : BOp (XQ .f64)) ⟨q 3 10, q 3 10, q 2 5, q 3 5⟩ with
      | .ok _ => true | .error _ => false) = true := by
  decide +kernel

/-- C14 (pinned): x=(1/16,6/16,9/16;1/4), y|x=(0,10/16,6/16), y|¬x=(0,5/16,11/16), ay=3/4 (a Case III input):
    the deduced opinion has a negative mass and is rejected. -/
theorem C14_pinned_case3_counterexample :
    (match (Pinned.deduce (⟨q 1 16, q 6 16, q 9 16, q 1 4⟩ : BOp (XQ .f64))
        (q 0 1, q 10 16, q 6 16) (q 0 1, q 5 16, q 11 16) (q 3 4)).1 with
      | .ok _ => false | .error _ => true) = true := by
  decide +kernel

/-- C14 (repaired model): the same input is accepted. -/
theorem C14_repaired_accepts :
    (match (BOp.deduce (⟨q 1 16, q 6 16, q 9 16, q 1 4⟩ : BOp (XQ .f64))
        (q 0 1, q 10 16, q 6 16) (q 0 1, q 5 16, q 11 16) (q 3 4)).1 with
      | .ok _ => true | .error _ => false) = true := by
  decide +kernel

end SLV.Props.Pinned
