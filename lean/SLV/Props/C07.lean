/-
  C07 — Algebraic laws of the fusion operators.
  "Every fusion operator is commutative; averaging and weighted fusion are idempotent; aleatory cumulative
   and weighted fusion return a non-vacuous opinion unchanged when it is fused with a vacuous one; aleatory
   cumulative fusion never leaves more uncertainty than the less uncertain operand had, while averaging and
   weighted fusion keep it between the operands' uncertainties.  For non-dogmatic opinions sharing a base
   rate aleatory cumulative fusion is associative, so folding any sequence of such opinions, in place or by
   value, gives the same opinion for every order and grouping."

  All statements are about the executable model (`fuse`, `fuseAssign`, `computeSimplex` in
  SLV/Model/Fuse.lean) at the exact semantics `XQ f`, for every domain size `n`, applied to lifted rational
  well-formed operands `⟨liftT b, XQ.fin u, liftT a⟩`.   ε = f.eps.
  Guards: `is_dogmatic()` holds on `|u| ≤ ε`, `is_vacuous()` on `1-2ε ≤ u ≤ 1+4ε`.

  RESULTS
  * commutativity — the belief part (b, u) commutes in EVERY arm of EVERY operator (`C07_comm_simplex`,
    `C07_comm_belief`), and so does the base rate, for ALL operands of the model, finite or not
    (`C07_comm_base_rate_unconditional`).  Whole-opinion commutativity of all four operators on well-formed operands
    is UNCONDITIONAL (`C07_comm`, `C07_comm_shared`) since repairs c0b2ed5 / c8a7116 of the crate: before them the
    per-entry shortcut of `compute_base_rate` was taken on `ulps_eq!` (any two entries at most ε apart) and returned
    the LEFT operand's entry, so the two orders differed by `|a1 i - a2 i|` at such an entry, `C07_comm` carried the
    hypothesis "the shortcut is only taken at equal entries", and ECm amplified the difference into the simplex
    (`C07_comm_fails_shortcut`, kept on the pinned definition `Pinned.fuseLeft`; binary32 witnesses in
    SLV/Props/Pinned.lean).
  * idempotence — Avg: exact for `u = 0 ∨ ε < u` (`C07_idem_avg`); Wgh: exact for `u` outside both bands
    (`C07_idem_wgh`); in the dogmatic band `(0, ε]` both return the normalised DOGMATIC opinion
    `(b/(1-u), 0)`, in the vacuous band `[1-2ε, 1)` Wgh returns the VACUOUS opinion: not equal to the
    operand (`C07_idem_fails_dogmatic_band`, `C07_idem_fails_vacuous_band`) but within `2ε`
    (`C07_idem_within`).
  * vacuous neutral — ACm, Wgh: a guard-vacuous operand (`1-2ε ≤ u2`, in particular the vacuous opinion)
    leaves a not-guard-vacuous operand (`u1 < 1-2ε`) unchanged, both orders (`C07_vacuous_neutral`);
    an operand in the vacuous band is NOT returned unchanged (`C07_vacuous_neutral_fails_band`).
  * uncertainty — ACm: `u ≤ min u1 u2` unless both operands are in the vacuous band and not both exactly
    vacuous (`C07_acm_u_le_min`; always `≤ min + 2ε`, `C07_acm_u_within`; witness `C07_acm_u_fails_band`).
    Avg: `min ≤ u ≤ max` unless both operands are in the dogmatic band and both non-zero (`C07_avg_u_between`,
    `C07_avg_u_within`, `C07_avg_u_fails_band`).  Wgh: both exceptions (`C07_wgh_u_between`, `…_within`).
  * associativity / folds — ACm on well-formed operands with `u = 1 ∨ ε < u < 1-2ε` over ONE base rate, the
    fully fused uncertainty staying above `ε`: associative (`C07_acm_assoc`); every grouping (binary tree) of
    a sequence evaluates to the opinion of the total evidence (`C07_tree_closed`), hence every order and
    grouping agree (`C07_tree_perm`, `C07_fold_perm`, `C07_fold_grouping`); in-place = by value
    (`C07_fold_assign`).  The hypothesis on the fused uncertainty cannot be dropped: a partial result in
    `(0, ε]` is treated as dogmatic by the next fusion (`C07_assoc_fails_below_eps`, kernel-checked).
  * ECm is covered by commutativity only: its uncertainty is the MAXIMISED one (≥ ACm's, C09), so the
    `≤ min` clause is not claimed for it.
  * the band witnesses are proved for every format and replayed on the model by the kernel (section Replay).
-/
import SLV.Props.C09
import SLV.Refine.FuseLemmas
import SLV.Refine.C02Lemmas
import SLV.Refine.C07Lemmas
import SLV.Model.Pinned

namespace SLV.Props.C07
open SLV Scalar FuseQ SLV.C07
open SLV.Props.C09 (WF)

set_option linter.unusedSimpArgs false

variable {f : Fmt} {n : Nat}

/-! ### 1. commutativity -/

/-- `compute_simlex` commutes on well-formed simplexes: every operator, every guard arm, tolerance bands
    included -/
theorem C07_comm_simplex (op : FuseOp) {b1 b2 : Fin n → ℚ} {u1 u2 : ℚ} (h1 : SWF b1 u1) (h2 : SWF b2 u2) :
    computeSimplex op (⟨liftT b1, XQ.fin u1⟩ : Simplex (XQ f) n) ⟨liftT b2, XQ.fin u2⟩
      = computeSimplex op (⟨liftT b2, XQ.fin u2⟩ : Simplex (XQ f) n) ⟨liftT b1, XQ.fin u1⟩ := by
  rw [computeSimplex_lift op h1 h2, computeSimplex_lift op h2 h1, simplexQ_comm]

/-- the belief part of `fuse` (ACm, Avg, Wgh) commutes unconditionally: any base rates, shared or not,
    whatever the `ulps_eq!` shortcut does -/
theorem C07_comm_belief {op : FuseOp} (hop : op ≠ .ecm) (same same' : Bool) {b1 b2 : Fin n → ℚ} {u1 u2 : ℚ}
    (h1 : SWF b1 u1) (h2 : SWF b2 u2) (a1 a2 : Fin n → ℚ) :
    (fuse op same (⟨liftT b1, XQ.fin u1, liftT a1⟩ : Opinion (XQ f) n) ⟨liftT b2, XQ.fin u2, liftT a2⟩).simplex
      = (fuse op same' (⟨liftT b2, XQ.fin u2, liftT a2⟩ : Opinion (XQ f) n)
          ⟨liftT b1, XQ.fin u1, liftT a1⟩).simplex := by
  rw [fuse_lift hop same h1 h2, fuse_lift hop same' h2 h1, simplexQ_comm]
  rfl

/-- the MODEL's `compute_base_rate` is commutative for ALL operands — any extended values (finite, ±∞, NaN), every
    operator, every guard arm, shortcut or not.  `same` models `std::ptr::eq(lhs.base_rate, rhs.base_rate)`, which is
    symmetric in the operands: the flag is the same for both orders, and when it is set the two base rates are the
    same object, hence equal (hypothesis `hsame`; the shared object is returned). -/
theorem C07_comm_base_rate_unconditional (op : FuseOp) (same : Bool) (l r : Opinion (XQ f) n)
    (hsame : same = true → l.a = r.a) :
    computeBaseRate op same l r = computeBaseRate op same r l := by
  cases same
  · exact computeBaseRate_comm op l r
  · rw [computeBaseRate_same, computeBaseRate_same]; exact hsame rfl

/-- hence ACm / Avg / Wgh fusion of ANY two model opinions (finite or not, well-formed or not) commutes as soon as
    `compute_simlex` does on their simplexes (it does on well-formed ones: `C07_comm_simplex`), and so does ECm
    (a function of that simplex and the fused base rate) -/
theorem C07_comm_of_simplex (op : FuseOp) (same : Bool) (l r : Opinion (XQ f) n)
    (hsame : same = true → l.a = r.a)
    (hs : computeSimplex op l.simplex r.simplex = computeSimplex op r.simplex l.simplex) :
    fuse op same l r = fuse op same r l := by
  unfold fuse
  simp only [hs, C07_comm_base_rate_unconditional op same l r hsame]

/-- COMMUTATIVITY, all four operators, all arms, any two well-formed operands (no hypothesis on the base rates
    since repair c8a7116; with the `ulps_eq!` shortcut: "when the shortcut is only taken at equal entries") -/
theorem C07_comm (op : FuseOp) {b1 b2 a1 a2 : Fin n → ℚ} {u1 u2 : ℚ}
    (h1 : WF b1 u1 a1) (h2 : WF b2 u2 a2) :
    fuse op false (⟨liftT b1, XQ.fin u1, liftT a1⟩ : Opinion (XQ f) n) ⟨liftT b2, XQ.fin u2, liftT a2⟩
      = fuse op false (⟨liftT b2, XQ.fin u2, liftT a2⟩ : Opinion (XQ f) n) ⟨liftT b1, XQ.fin u1, liftT a1⟩ := by
  rw [fuse_lift_all op false h1 h2, fuse_lift_all op false h2 h1, fuseQ_comm f op b1 u1 a1 b2 u2 a2]

/-- the same through the model-level statement: only the SIMPLEX parts need to be well-formed, the base rates are
    arbitrary extended tables (NaN / ∞ entries included) -/
theorem C07_comm_any_base_rate (op : FuseOp) {b1 b2 : Fin n → ℚ} {u1 u2 : ℚ}
    (h1 : SWF b1 u1) (h2 : SWF b2 u2) (al ar : Tab (XQ f) n) :
    fuse op false (⟨liftT b1, XQ.fin u1, al⟩ : Opinion (XQ f) n) ⟨liftT b2, XQ.fin u2, ar⟩
      = fuse op false (⟨liftT b2, XQ.fin u2, ar⟩ : Opinion (XQ f) n) ⟨liftT b1, XQ.fin u1, al⟩ :=
  C07_comm_of_simplex op false _ _ (fun h => absurd h (by decide)) (C07_comm_simplex op h1 h2)

/-- (kept) the former hypothesis of `C07_comm` is symmetric (`ulps_eq!` is) -/
theorem C07_shortcut_symm {a1 a2 : Fin n → ℚ}
    (hsc : ∀ i, XQ.ulpsEq (XQ.fin (a1 i) : XQ f) (XQ.fin (a2 i)) = true → a1 i = a2 i) :
    ∀ i, XQ.ulpsEq (XQ.fin (a2 i) : XQ f) (XQ.fin (a1 i)) = true → a2 i = a1 i :=
  fun i h => (hsc i (by rw [XQ.ulpsEq_comm]; exact h)).symm

/-- operands sharing one base rate (same object, `same = true`, or equal values, `same = false`):
    commutative, all four operators -/
theorem C07_comm_shared (op : FuseOp) (same : Bool) {b1 b2 a : Fin n → ℚ} {u1 u2 : ℚ}
    (h1 : WF b1 u1 a) (h2 : WF b2 u2 a) :
    fuse op same (⟨liftT b1, XQ.fin u1, liftT a⟩ : Opinion (XQ f) n) ⟨liftT b2, XQ.fin u2, liftT a⟩
      = fuse op same (⟨liftT b2, XQ.fin u2, liftT a⟩ : Opinion (XQ f) n) ⟨liftT b1, XQ.fin u1, liftT a⟩ := by
  cases same
  · exact C07_comm op h1 h2
  · rw [fuse_lift_all op true h1 h2, fuse_lift_all op true h2 h1, fuseQ_comm_same]

/-- (kept from the `ulps_eq!` shortcut; now a consequence of `C07_comm`, both sides being zero) ACm, Avg, Wgh: belief
    parts equal; the base rates of the two orders differ at entry `i` by at most `|a1 i - a2 i|` if the entries are
    `ulps_eq!`, and not at all otherwise -/
theorem C07_comm_within {op : FuseOp} (hop : op ≠ .ecm) {b1 b2 a1 a2 : Fin n → ℚ} {u1 u2 : ℚ}
    (h1 : WF b1 u1 a1) (h2 : WF b2 u2 a2) :
    ∃ (b : Fin n → ℚ) (u : ℚ) (a a' : Fin n → ℚ),
      fuse op false (⟨liftT b1, XQ.fin u1, liftT a1⟩ : Opinion (XQ f) n) ⟨liftT b2, XQ.fin u2, liftT a2⟩
        = ⟨liftT b, XQ.fin u, liftT a⟩ ∧
      fuse op false (⟨liftT b2, XQ.fin u2, liftT a2⟩ : Opinion (XQ f) n) ⟨liftT b1, XQ.fin u1, liftT a1⟩
        = ⟨liftT b, XQ.fin u, liftT a'⟩ ∧
      ∀ i, |a i - a' i|
        ≤ if XQ.ulpsEq (XQ.fin (a1 i) : XQ f) (XQ.fin (a2 i)) = true then |a1 i - a2 i| else 0 := by
  refine ⟨(simplexQ f op b1 u1 b2 u2).1, (simplexQ f op b1 u1 b2 u2).2, baseRateQ f op false a1 u1 a2 u2,
    baseRateQ f op false a2 u2 a1 u1, fuse_lift hop false h1.swf h2.swf a1 a2, ?_, fun i => ?_⟩
  · rw [fuse_lift hop false h2.swf h1.swf a2 a1, simplexQ_comm]
  · rw [baseRateQ_comm f op a2 u2 a1 u1, sub_self, abs_zero]; split
    · exact abs_nonneg _
    · exact le_refl _

/-- (kept) the same for ECm -/
theorem C07_comm_within_ecm {b1 b2 a1 a2 : Fin n → ℚ} {u1 u2 : ℚ}
    (h1 : WF b1 u1 a1) (h2 : WF b2 u2 a2) :
    ∃ (b b' : Fin n → ℚ) (u u' : ℚ) (a a' : Fin n → ℚ),
      fuse .ecm false (⟨liftT b1, XQ.fin u1, liftT a1⟩ : Opinion (XQ f) n) ⟨liftT b2, XQ.fin u2, liftT a2⟩
        = ⟨liftT b, XQ.fin u, liftT a⟩ ∧
      fuse .ecm false (⟨liftT b2, XQ.fin u2, liftT a2⟩ : Opinion (XQ f) n) ⟨liftT b1, XQ.fin u1, liftT a1⟩
        = ⟨liftT b', XQ.fin u', liftT a'⟩ ∧
      ∀ i, |a i - a' i|
        ≤ if XQ.ulpsEq (XQ.fin (a1 i) : XQ f) (XQ.fin (a2 i)) = true then |a1 i - a2 i| else 0 := by
  refine ⟨_, _, _, _, _, _, fuse_lift_all .ecm false h1 h2, fuse_lift_all .ecm false h2 h1, fun i => ?_⟩
  rw [fuseQ_a, fuseQ_a, baseRateQ_comm f .ecm a2 u2 a1 u1, sub_self, abs_zero]; split
  · exact abs_nonneg _
  · exact le_refl _

/-! ### 2. idempotence of Avg and Wgh -/

/-- Avg: `fuse(l, l) = l` for every well-formed `l` with `u = 0 ∨ ε < u` (the whole vacuous band included) -/
theorem C07_idem_avg (same : Bool) {b a : Fin n → ℚ} {u : ℚ} (h : WF b u a) (p : u = 0 ∨ f.eps < u) :
    fuse .avg same (⟨liftT b, XQ.fin u, liftT a⟩ : Opinion (XQ f) n) ⟨liftT b, XQ.fin u, liftT a⟩
      = ⟨liftT b, XQ.fin u, liftT a⟩ := by
  rw [fuse_lift (by decide) same h.swf h.swf, simplexQ_idem_avg h.swf p,
    baseRateQ_idem f .avg same a h.hu h.swf.u_le_one h.hu h.swf.u_le_one]

/-- Wgh: `fuse(l, l) = l` for every well-formed `l` with `u` outside both tolerance bands -/
theorem C07_idem_wgh (same : Bool) {b a : Fin n → ℚ} {u : ℚ} (h : WF b u a)
    (p : u = 0 ∨ u = 1 ∨ (f.eps < u ∧ u < 1 - 2 * f.eps)) :
    fuse .wgh same (⟨liftT b, XQ.fin u, liftT a⟩ : Opinion (XQ f) n) ⟨liftT b, XQ.fin u, liftT a⟩
      = ⟨liftT b, XQ.fin u, liftT a⟩ := by
  rw [fuse_lift (by decide) same h.swf h.swf, simplexQ_idem_wgh h.swf p,
    baseRateQ_idem f .wgh same a h.hu h.swf.u_le_one h.hu h.swf.u_le_one]

/-- Avg, Wgh on ANY well-formed operand (bands included): the base rate is returned exactly, every mass and
    the uncertainty within `2ε` -/
theorem C07_idem_within {op : FuseOp} (hop : op = .avg ∨ op = .wgh) (same : Bool) {b a : Fin n → ℚ} {u : ℚ}
    (h : WF b u a) :
    ∃ (b' : Fin n → ℚ) (u' : ℚ),
      fuse op same (⟨liftT b, XQ.fin u, liftT a⟩ : Opinion (XQ f) n) ⟨liftT b, XQ.fin u, liftT a⟩
        = ⟨liftT b', XQ.fin u', liftT a⟩ ∧
      (∀ i, |b' i - b i| ≤ 2 * f.eps) ∧ |u' - u| ≤ 2 * f.eps := by
  have hne : op ≠ .ecm := by rcases hop with rfl | rfl <;> decide
  refine ⟨_, _, ?_, simplexQ_idem_within hop h.swf⟩
  rw [fuse_lift hne same h.swf h.swf, baseRateQ_idem f op same a h.hu h.swf.u_le_one h.hu h.swf.u_le_one]

/-- FINDING witness (every format): `l = ((1-ε, 0); u = ε)` is well-formed, in the dogmatic band; Avg and Wgh
    of `l` with itself return uncertainty `0 ≠ ε` -/
theorem C07_idem_fails_dogmatic_band (f : Fmt) {op : FuseOp} (hop : op = .avg ∨ op = .wgh) :
    WF (n := 2) ![1 - f.eps, 0] f.eps ![1/2, 1/2] ∧
    fuse op false (⟨liftT ![1 - f.eps, 0], XQ.fin f.eps, liftT ![1/2, 1/2]⟩ : Opinion (XQ f) 2)
        ⟨liftT ![1 - f.eps, 0], XQ.fin f.eps, liftT ![1/2, 1/2]⟩
      ≠ ⟨liftT ![1 - f.eps, 0], XQ.fin f.eps, liftT ![1/2, 1/2]⟩ := by
  have he := XQ.eps_pos f
  have hl := XQ.eps_lt f
  have h : WF (n := 2) ![1 - f.eps, 0] f.eps ![1/2, 1/2] := by
    constructor
    · exact Fin.forall_fin_two.mpr ⟨by simp; linarith, by simp⟩
    · exact he.le
    · simp [Fin.sum_univ_two]
    · exact Fin.forall_fin_two.mpr ⟨by norm_num, by norm_num⟩
    · simp [Fin.sum_univ_two]; norm_num
  have hne : op ≠ .ecm := by rcases hop with rfl | rfl <;> decide
  refine ⟨h, fun heq => ?_⟩
  rw [fuse_lift hne false h.swf h.swf,
    simplexQ_self_dog op ((GDog_iff he.le).mpr (le_refl _))] at heq
  have := (opinion_lift_inj heq).2.1
  linarith

/-- FINDING witness (every format): `l = ((2ε, 0); u = 1-2ε)` is well-formed, in the vacuous band; Wgh of
    `l` with itself returns the vacuous opinion (uncertainty `1 ≠ 1-2ε`) -/
theorem C07_idem_fails_vacuous_band (f : Fmt) :
    WF (n := 2) ![2 * f.eps, 0] (1 - 2 * f.eps) ![1/2, 1/2] ∧
    fuse .wgh false (⟨liftT ![2 * f.eps, 0], XQ.fin (1 - 2 * f.eps), liftT ![1/2, 1/2]⟩ : Opinion (XQ f) 2)
        ⟨liftT ![2 * f.eps, 0], XQ.fin (1 - 2 * f.eps), liftT ![1/2, 1/2]⟩
      ≠ ⟨liftT ![2 * f.eps, 0], XQ.fin (1 - 2 * f.eps), liftT ![1/2, 1/2]⟩ := by
  have he := XQ.eps_pos f
  have hl := XQ.eps_lt f
  have h : WF (n := 2) ![2 * f.eps, 0] (1 - 2 * f.eps) ![1/2, 1/2] := by
    constructor
    · exact Fin.forall_fin_two.mpr ⟨by simp; linarith, by simp⟩
    · linarith
    · simp [Fin.sum_univ_two]
    · exact Fin.forall_fin_two.mpr ⟨by norm_num, by norm_num⟩
    · simp [Fin.sum_univ_two]; norm_num
  refine ⟨h, fun heq => ?_⟩
  rw [fuse_lift (by decide) false h.swf h.swf,
    simplexQ_self_vac_wgh ((GVac_iff h.swf.u_le_one).mpr (le_refl _))] at heq
  have := (opinion_lift_inj heq).2.1
  linarith

/-! ### 3. a vacuous operand is neutral for ACm and Wgh -/

/-- ACm, Wgh: fusing a not-guard-vacuous well-formed opinion `l` (`u1 < 1-2ε`) with a guard-vacuous one
    (`1-2ε ≤ u2`; in particular the exactly vacuous opinion, any base rate) returns `l` unchanged — belief
    masses, uncertainty AND base rate — in both orders -/
theorem C07_vacuous_neutral {op : FuseOp} (hop : op = .acm ∨ op = .wgh) {b1 b2 a1 a2 : Fin n → ℚ} {u1 u2 : ℚ}
    (h1 : WF b1 u1 a1) (h2 : WF b2 u2 a2) (nv1 : u1 < 1 - 2 * f.eps) (v2 : 1 - 2 * f.eps ≤ u2) :
    fuse op false (⟨liftT b1, XQ.fin u1, liftT a1⟩ : Opinion (XQ f) n) ⟨liftT b2, XQ.fin u2, liftT a2⟩
      = ⟨liftT b1, XQ.fin u1, liftT a1⟩ ∧
    fuse op false (⟨liftT b2, XQ.fin u2, liftT a2⟩ : Opinion (XQ f) n) ⟨liftT b1, XQ.fin u1, liftT a1⟩
      = ⟨liftT b1, XQ.fin u1, liftT a1⟩ := by
  have hne : op ≠ .ecm := by rcases hop with rfl | rfl <;> decide
  have hna : op ≠ .avg := by rcases hop with rfl | rfl <;> decide
  have g1 : ¬ GVac f u1 := fun v => by have := v.1; linarith
  have g2 : GVac f u2 := (GVac_iff h2.swf.u_le_one).mpr v2
  constructor
  · rw [fuse_lift hne false h1.swf h2.swf, simplexQ_neutral_right hna b1 b2 g1 g2,
      baseRateQ_neutral_right hna a1 a2 g1 g2]
  · rw [fuse_lift hne false h2.swf h1.swf, simplexQ_neutral_left hna b1 b2 g1 g2,
      baseRateQ_neutral_left hna a1 a2 g1 g2]

/-- the special case of the property text: the right operand is EXACTLY vacuous -/
theorem C07_vacuous_neutral_exact {op : FuseOp} (hop : op = .acm ∨ op = .wgh) {b1 a1 a2 : Fin n → ℚ} {u1 : ℚ}
    (h1 : WF b1 u1 a1) (ha0 : ∀ i, 0 ≤ a2 i) (ha : ∑ i, a2 i = 1) (nv1 : u1 < 1 - 2 * f.eps) :
    fuse op false (⟨liftT b1, XQ.fin u1, liftT a1⟩ : Opinion (XQ f) n)
        ⟨liftT (fun _ => (0 : ℚ)), XQ.fin 1, liftT a2⟩ = ⟨liftT b1, XQ.fin u1, liftT a1⟩ ∧
    fuse op false (⟨liftT (fun _ => (0 : ℚ)), XQ.fin 1, liftT a2⟩ : Opinion (XQ f) n)
        ⟨liftT b1, XQ.fin u1, liftT a1⟩ = ⟨liftT b1, XQ.fin u1, liftT a1⟩ := by
  have he := XQ.eps_pos f
  exact C07_vacuous_neutral hop h1 (SWF.vacuous.toWF ha0 ha) nv1 (by linarith)

/-- FINDING witness (every format): `l = ((2ε, 0); u = 1-2ε)` is well-formed and NOT vacuous, but lies in the
    vacuous band; ACm and Wgh with the vacuous opinion (same base rate) return the VACUOUS opinion, not `l` -/
theorem C07_vacuous_neutral_fails_band (f : Fmt) {op : FuseOp} (hop : op = .acm ∨ op = .wgh) :
    WF (n := 2) ![2 * f.eps, 0] (1 - 2 * f.eps) ![1/2, 1/2] ∧
    fuse op false (⟨liftT ![2 * f.eps, 0], XQ.fin (1 - 2 * f.eps), liftT ![1/2, 1/2]⟩ : Opinion (XQ f) 2)
        ⟨liftT (fun _ => (0 : ℚ)), XQ.fin 1, liftT ![1/2, 1/2]⟩
      ≠ ⟨liftT ![2 * f.eps, 0], XQ.fin (1 - 2 * f.eps), liftT ![1/2, 1/2]⟩ := by
  have he := XQ.eps_pos f
  have hl := XQ.eps_lt f
  have h : WF (n := 2) ![2 * f.eps, 0] (1 - 2 * f.eps) ![1/2, 1/2] := by
    constructor
    · exact Fin.forall_fin_two.mpr ⟨by simp; linarith, by simp⟩
    · linarith
    · simp [Fin.sum_univ_two]
    · exact Fin.forall_fin_two.mpr ⟨by norm_num, by norm_num⟩
    · simp [Fin.sum_univ_two]; norm_num
  have hne : op ≠ .ecm := by rcases hop with rfl | rfl <;> decide
  have hna : op ≠ .avg := by rcases hop with rfl | rfl <;> decide
  refine ⟨h, fun heq => ?_⟩
  rw [fuse_lift hne false h.swf SWF.vacuous,
    simplexQ_both_vac hna _ _ ((GVac_iff h.swf.u_le_one).mpr (le_refl _)) GVac_one] at heq
  have := (opinion_lift_inj heq).2.1
  linarith

/-! ### 4. the fused uncertainty -/

/-- ACm never leaves more uncertainty than the less uncertain operand had — every arm, provided the
    operands are not both in the vacuous band without being both exactly vacuous -/
theorem C07_acm_u_le_min (same : Bool) {b1 b2 a1 a2 : Fin n → ℚ} {u1 u2 : ℚ}
    (h1 : WF b1 u1 a1) (h2 : WF b2 u2 a2)
    (hband : 1 - 2 * f.eps ≤ u1 → 1 - 2 * f.eps ≤ u2 → u1 = 1 ∧ u2 = 1) :
    ∃ (b : Fin n → ℚ) (u : ℚ) (a : Fin n → ℚ),
      fuse .acm same (⟨liftT b1, XQ.fin u1, liftT a1⟩ : Opinion (XQ f) n) ⟨liftT b2, XQ.fin u2, liftT a2⟩
        = ⟨liftT b, XQ.fin u, liftT a⟩ ∧ u ≤ min u1 u2 := by
  refine ⟨_, _, _, fuse_lift (by decide) same h1.swf h2.swf a1 a2, ?_⟩
  by_cases hv : GVac f u1 ∧ GVac f u2
  · obtain ⟨e1, e2⟩ := hband hv.1.1 hv.2.1
    rw [simplexQ_both_vac (by decide) b1 b2 hv.1 hv.2, e1, e2]
    simp
  · exact simplexQ_acm_u_le (Or.inl rfl) h1.swf h2.swf hv

/-- unconditionally: at most `2ε` above the smaller operand uncertainty -/
theorem C07_acm_u_within (same : Bool) {b1 b2 a1 a2 : Fin n → ℚ} {u1 u2 : ℚ}
    (h1 : WF b1 u1 a1) (h2 : WF b2 u2 a2) :
    ∃ (b : Fin n → ℚ) (u : ℚ) (a : Fin n → ℚ),
      fuse .acm same (⟨liftT b1, XQ.fin u1, liftT a1⟩ : Opinion (XQ f) n) ⟨liftT b2, XQ.fin u2, liftT a2⟩
        = ⟨liftT b, XQ.fin u, liftT a⟩ ∧ u ≤ min u1 u2 + 2 * f.eps := by
  have he := XQ.eps_pos f
  refine ⟨_, _, _, fuse_lift (by decide) same h1.swf h2.swf a1 a2, ?_⟩
  by_cases hv : GVac f u1 ∧ GVac f u2
  · rw [simplexQ_both_vac (by decide) b1 b2 hv.1 hv.2]
    have := le_min hv.1.1 hv.2.1
    show (1 : ℚ) ≤ min u1 u2 + 2 * f.eps
    linarith
  · have := simplexQ_acm_u_le (f := f) (Or.inl rfl) h1.swf h2.swf hv
    linarith

/-- FINDING witness (every format): two well-formed operands with `u1 = u2 = 1-2ε` (vacuous band): ACm
    returns uncertainty `1 > min u1 u2` -/
theorem C07_acm_u_fails_band (f : Fmt) :
    WF (n := 2) ![2 * f.eps, 0] (1 - 2 * f.eps) ![1/2, 1/2] ∧
    ∃ (b a : Fin 2 → ℚ),
      fuse .acm false (⟨liftT ![2 * f.eps, 0], XQ.fin (1 - 2 * f.eps), liftT ![1/2, 1/2]⟩ : Opinion (XQ f) 2)
          ⟨liftT ![2 * f.eps, 0], XQ.fin (1 - 2 * f.eps), liftT ![1/2, 1/2]⟩ = ⟨liftT b, XQ.fin 1, liftT a⟩ ∧
      min (1 - 2 * f.eps) (1 - 2 * f.eps) < 1 := by
  have he := XQ.eps_pos f
  have hl := XQ.eps_lt f
  have h : WF (n := 2) ![2 * f.eps, 0] (1 - 2 * f.eps) ![1/2, 1/2] := by
    constructor
    · exact Fin.forall_fin_two.mpr ⟨by simp; linarith, by simp⟩
    · linarith
    · simp [Fin.sum_univ_two]
    · exact Fin.forall_fin_two.mpr ⟨by norm_num, by norm_num⟩
    · simp [Fin.sum_univ_two]; norm_num
  have v : GVac f (1 - 2 * f.eps) := (GVac_iff h.swf.u_le_one).mpr (le_refl _)
  refine ⟨h, (fun _ => 0), baseRateQ f .acm false ![1/2, 1/2] (1 - 2 * f.eps) ![1/2, 1/2] (1 - 2 * f.eps), ?_,
    by rw [min_self]; linarith⟩
  rw [fuse_lift (by decide) false h.swf h.swf, simplexQ_both_vac (by decide) _ _ v v]

/-- Avg keeps the uncertainty between the operands' uncertainties — every arm, provided the operands are
    not both in the dogmatic band with both uncertainties non-zero -/
theorem C07_avg_u_between (same : Bool) {b1 b2 a1 a2 : Fin n → ℚ} {u1 u2 : ℚ}
    (h1 : WF b1 u1 a1) (h2 : WF b2 u2 a2) (hdog : u1 ≤ f.eps → u2 ≤ f.eps → u1 = 0 ∨ u2 = 0) :
    ∃ (b : Fin n → ℚ) (u : ℚ) (a : Fin n → ℚ),
      fuse .avg same (⟨liftT b1, XQ.fin u1, liftT a1⟩ : Opinion (XQ f) n) ⟨liftT b2, XQ.fin u2, liftT a2⟩
        = ⟨liftT b, XQ.fin u, liftT a⟩ ∧ min u1 u2 ≤ u ∧ u ≤ max u1 u2 := by
  refine ⟨_, _, _, fuse_lift (by decide) same h1.swf h2.swf a1 a2, ?_⟩
  by_cases hd : GDog f u1 ∧ GDog f u2
  · rw [simplexQ_both_dog_u .avg b1 b2 hd.1 hd.2]
    refine ⟨?_, le_trans h1.hu (le_max_left _ _)⟩
    rcases hdog ((GDog_iff h1.hu).mp hd.1) ((GDog_iff h2.hu).mp hd.2) with e | e
    · rw [e]; exact min_le_left _ _
    · rw [e]; exact min_le_right _ _
  · exact simplexQ_avg_u h1.swf h2.swf hd

/-- unconditionally: `min u1 u2 - ε ≤ u ≤ max u1 u2` -/
theorem C07_avg_u_within (same : Bool) {b1 b2 a1 a2 : Fin n → ℚ} {u1 u2 : ℚ}
    (h1 : WF b1 u1 a1) (h2 : WF b2 u2 a2) :
    ∃ (b : Fin n → ℚ) (u : ℚ) (a : Fin n → ℚ),
      fuse .avg same (⟨liftT b1, XQ.fin u1, liftT a1⟩ : Opinion (XQ f) n) ⟨liftT b2, XQ.fin u2, liftT a2⟩
        = ⟨liftT b, XQ.fin u, liftT a⟩ ∧ min u1 u2 - f.eps ≤ u ∧ u ≤ max u1 u2 := by
  have he := XQ.eps_pos f
  refine ⟨_, _, _, fuse_lift (by decide) same h1.swf h2.swf a1 a2, ?_⟩
  by_cases hd : GDog f u1 ∧ GDog f u2
  · rw [simplexQ_both_dog_u .avg b1 b2 hd.1 hd.2]
    refine ⟨?_, le_trans h1.hu (le_max_left _ _)⟩
    have := (GDog_iff h1.hu).mp hd.1
    have := min_le_left u1 u2
    linarith
  · obtain ⟨l, r⟩ := simplexQ_avg_u (f := f) h1.swf h2.swf hd
    exact ⟨by linarith, r⟩

/-- Wgh keeps the uncertainty between the operands' uncertainties — every arm, provided the operands are
    neither both in the dogmatic band with non-zero uncertainties nor both in the vacuous band without being
    both exactly vacuous -/
theorem C07_wgh_u_between (same : Bool) {b1 b2 a1 a2 : Fin n → ℚ} {u1 u2 : ℚ}
    (h1 : WF b1 u1 a1) (h2 : WF b2 u2 a2) (hdog : u1 ≤ f.eps → u2 ≤ f.eps → u1 = 0 ∨ u2 = 0)
    (hband : 1 - 2 * f.eps ≤ u1 → 1 - 2 * f.eps ≤ u2 → u1 = 1 ∨ u2 = 1) :
    ∃ (b : Fin n → ℚ) (u : ℚ) (a : Fin n → ℚ),
      fuse .wgh same (⟨liftT b1, XQ.fin u1, liftT a1⟩ : Opinion (XQ f) n) ⟨liftT b2, XQ.fin u2, liftT a2⟩
        = ⟨liftT b, XQ.fin u, liftT a⟩ ∧ min u1 u2 ≤ u ∧ u ≤ max u1 u2 := by
  refine ⟨_, _, _, fuse_lift (by decide) same h1.swf h2.swf a1 a2, ?_⟩
  by_cases hd : GDog f u1 ∧ GDog f u2
  · rw [simplexQ_both_dog_u .wgh b1 b2 hd.1 hd.2]
    refine ⟨?_, le_trans h1.hu (le_max_left _ _)⟩
    rcases hdog ((GDog_iff h1.hu).mp hd.1) ((GDog_iff h2.hu).mp hd.2) with e | e
    · rw [e]; exact min_le_left _ _
    · rw [e]; exact min_le_right _ _
  by_cases hv : GVac f u1 ∧ GVac f u2
  · rw [simplexQ_both_vac (by decide) b1 b2 hv.1 hv.2]
    refine ⟨le_trans (min_le_left _ _) h1.swf.u_le_one, ?_⟩
    rcases hband hv.1.1 hv.2.1 with e | e
    · rw [e]; exact le_max_left _ _
    · rw [e]; exact le_max_right _ _
  · exact simplexQ_wgh_u h1.swf h2.swf hd hv

/-- unconditionally: `min u1 u2 - ε ≤ u ≤ max u1 u2 + 2ε` -/
theorem C07_wgh_u_within (same : Bool) {b1 b2 a1 a2 : Fin n → ℚ} {u1 u2 : ℚ}
    (h1 : WF b1 u1 a1) (h2 : WF b2 u2 a2) :
    ∃ (b : Fin n → ℚ) (u : ℚ) (a : Fin n → ℚ),
      fuse .wgh same (⟨liftT b1, XQ.fin u1, liftT a1⟩ : Opinion (XQ f) n) ⟨liftT b2, XQ.fin u2, liftT a2⟩
        = ⟨liftT b, XQ.fin u, liftT a⟩ ∧ min u1 u2 - f.eps ≤ u ∧ u ≤ max u1 u2 + 2 * f.eps := by
  have he := XQ.eps_pos f
  refine ⟨_, _, _, fuse_lift (by decide) same h1.swf h2.swf a1 a2, ?_⟩
  by_cases hd : GDog f u1 ∧ GDog f u2
  · rw [simplexQ_both_dog_u .wgh b1 b2 hd.1 hd.2]
    have := (GDog_iff h1.hu).mp hd.1
    have := min_le_left u1 u2
    have := le_trans h1.hu (le_max_left u1 u2)
    exact ⟨by linarith, by linarith⟩
  by_cases hv : GVac f u1 ∧ GVac f u2
  · rw [simplexQ_both_vac (by decide) b1 b2 hv.1 hv.2]
    have := le_trans (min_le_left u1 u2) h1.swf.u_le_one
    have := hv.1.1
    have := le_max_left u1 u2
    exact ⟨by show min u1 u2 - f.eps ≤ 1; linarith, by show (1 : ℚ) ≤ max u1 u2 + 2 * f.eps; linarith⟩
  · obtain ⟨l, r⟩ := simplexQ_wgh_u (f := f) h1.swf h2.swf hd hv
    exact ⟨by linarith, by linarith⟩

/-- FINDING witness (every format): two well-formed operands with `u1 = u2 = ε` (dogmatic band): Avg and Wgh
    return uncertainty `0 < min u1 u2`; with `u1 = u2 = 1-2ε` Wgh returns `1 > max u1 u2` -/
theorem C07_u_between_fails_band (f : Fmt) :
    WF (n := 2) ![1 - f.eps, 0] f.eps ![1/2, 1/2] ∧ WF (n := 2) ![2 * f.eps, 0] (1 - 2 * f.eps) ![1/2, 1/2] ∧
    (∀ op : FuseOp, op = .avg ∨ op = .wgh → ∃ (b a : Fin 2 → ℚ),
      fuse op false (⟨liftT ![1 - f.eps, 0], XQ.fin f.eps, liftT ![1/2, 1/2]⟩ : Opinion (XQ f) 2)
          ⟨liftT ![1 - f.eps, 0], XQ.fin f.eps, liftT ![1/2, 1/2]⟩ = ⟨liftT b, XQ.fin 0, liftT a⟩) ∧
    (∃ (b a : Fin 2 → ℚ),
      fuse .wgh false (⟨liftT ![2 * f.eps, 0], XQ.fin (1 - 2 * f.eps), liftT ![1/2, 1/2]⟩ : Opinion (XQ f) 2)
          ⟨liftT ![2 * f.eps, 0], XQ.fin (1 - 2 * f.eps), liftT ![1/2, 1/2]⟩ = ⟨liftT b, XQ.fin 1, liftT a⟩) ∧
    0 < min f.eps f.eps ∧ max (1 - 2 * f.eps) (1 - 2 * f.eps) < 1 := by
  have he := XQ.eps_pos f
  have hl := XQ.eps_lt f
  have h : WF (n := 2) ![1 - f.eps, 0] f.eps ![1/2, 1/2] := (C07_idem_fails_dogmatic_band f (Or.inl rfl)).1
  have h' : WF (n := 2) ![2 * f.eps, 0] (1 - 2 * f.eps) ![1/2, 1/2] := (C07_idem_fails_vacuous_band f).1
  have d : GDog f f.eps := (GDog_iff he.le).mpr (le_refl _)
  have v : GVac f (1 - 2 * f.eps) := (GVac_iff h'.swf.u_le_one).mpr (le_refl _)
  refine ⟨h, h', fun op hop => ?_, ?_, by rw [min_self]; exact he, by rw [max_self]; linarith⟩
  · have hne : op ≠ .ecm := by rcases hop with rfl | rfl <;> decide
    refine ⟨fun i => ![1 - f.eps, 0] i / (1 - f.eps),
      baseRateQ f op false ![1/2, 1/2] f.eps ![1/2, 1/2] f.eps, ?_⟩
    rw [fuse_lift hne false h.swf h.swf, simplexQ_self_dog op d]
  · refine ⟨fun _ => 0, baseRateQ f .wgh false ![1/2, 1/2] (1 - 2 * f.eps) ![1/2, 1/2] (1 - 2 * f.eps), ?_⟩
    rw [fuse_lift (by decide) false h'.swf h'.swf, simplexQ_both_vac (by decide) _ _ v v]

/-! ### 5. associativity of ACm; folds in every order and grouping

Operands: well-formed simplexes `(b, u)` with `u = 1 ∨ ε < u < 1-2ε` (`NV`: non-dogmatic, outside both
bands), all over ONE base rate `a` (any rational table; `same` = the operands share the base-rate object or
not — the values are equal anyway).  The only further hypothesis is that the uncertainty of the FULLY fused
opinion stays above `ε` (then every partial result is `NV` again: more evidence means less uncertainty, and
a partial result below `ε` would be treated as dogmatic by the next fusion). -/

/-- ACm is associative -/
theorem C07_acm_assoc (same : Bool) (a : Fin n → ℚ) {b1 b2 b3 : Fin n → ℚ} {u1 u2 u3 : ℚ}
    (h1 : SWF b1 u1) (h2 : SWF b2 u2) (h3 : SWF b3 u3)
    (n1 : u1 = 1 ∨ (f.eps < u1 ∧ u1 < 1 - 2 * f.eps)) (n2 : u2 = 1 ∨ (f.eps < u2 ∧ u2 < 1 - 2 * f.eps))
    (n3 : u3 = 1 ∨ (f.eps < u3 ∧ u3 < 1 - 2 * f.eps))
    (htot : f.eps < acmU (acmU u1 u2) u3) :
    fuse .acm same (fuse .acm same (⟨liftT b1, XQ.fin u1, liftT a⟩ : Opinion (XQ f) n)
        ⟨liftT b2, XQ.fin u2, liftT a⟩) ⟨liftT b3, XQ.fin u3, liftT a⟩
      = fuse .acm same (⟨liftT b1, XQ.fin u1, liftT a⟩ : Opinion (XQ f) n)
          (fuse .acm same ⟨liftT b2, XQ.fin u2, liftT a⟩ ⟨liftT b3, XQ.fin u3, liftT a⟩) := by
  have hg : Good f [(b1, u1), (b2, u2), (b3, u3)] := by
    intro p hp
    simp only [List.mem_cons, List.not_mem_nil, or_false] at hp
    rcases hp with rfl | rfl | rfl
    · exact ⟨h1, n1⟩
    · exact ⟨h2, n2⟩
    · exact ⟨h3, n3⟩
  have ht : f.eps < (ofEvQ (evSum [(b1, u1), (b2, u2), (b3, u3)])).2 := by rw [total3 hg]; exact htot
  have e1 := eval_closed same a (.node (.node (.leaf (b1, u1)) (.leaf (b2, u2))) (.leaf (b3, u3))) hg ht
  have e2 := eval_closed same a (.node (.leaf (b1, u1)) (.node (.leaf (b2, u2)) (.leaf (b3, u3)))) hg ht
  exact e1.trans e2.symm

/-- the fully fused uncertainty is at most every partial one (so `htot` bounds them all) -/
theorem C07_acm_u_partial {u1 u2 u3 : ℚ} (p1 : 0 < u1) (l1 : u1 ≤ 1) (p2 : 0 < u2) (l2 : u2 ≤ 1)
    (p3 : 0 ≤ u3) (l3 : u3 ≤ 1) : acmU (acmU u1 u2) u3 ≤ acmU u1 u2 :=
  acmU_le_left (acmU_pos p1 l1 p2) (le_trans (acmU_le_left p1 l1 p2.le l2) l1) p3 l3

/-- EVERY GROUPING, closed form: a binary fusion tree `t` over operands `t.leaves`, evaluated with the
    model's `fuse .acm`, returns the opinion of the total evidence `Σ_k b_k / u_k`:
    `u = 1 / (1 + Σ_k (1/u_k - 1))`, `b = u · Σ_k b_k / u_k`, base rate `a` -/
theorem C07_tree_closed (same : Bool) (a : Fin n → ℚ) (t : FTree n)
    (hL : ∀ p ∈ t.leaves, SWF p.1 p.2 ∧ (p.2 = 1 ∨ (f.eps < p.2 ∧ p.2 < 1 - 2 * f.eps)))
    (htot : f.eps < 1 / (1 + (t.leaves.map fun p => 1 / p.2 - 1).sum)) :
    t.eval f same a = ⟨liftT (ofEvQ (evSum t.leaves)).1, XQ.fin (ofEvQ (evSum t.leaves)).2, liftT a⟩ ∧
    (ofEvQ (evSum t.leaves)).2 = 1 / (1 + (t.leaves.map fun p => 1 / p.2 - 1).sum) ∧
    (∀ i, (ofEvQ (evSum t.leaves)).1 i
      = (t.leaves.map fun p => p.1 i / p.2).sum * (ofEvQ (evSum t.leaves)).2) := by
  have hg : Good f t.leaves := hL
  have hu := evSum_total hg
  refine ⟨eval_closed same a t hg (by rw [hu]; exact htot), hu, fun i => ?_⟩
  have : evSum t.leaves i = (t.leaves.map fun p => p.1 i / p.2).sum := by
    generalize t.leaves = L
    induction L with
    | nil => rfl
    | cons p L ih => rw [evSum_cons, List.map_cons, List.sum_cons, ← ih]; rfl
  show evSum t.leaves i / (1 + ∑ j, evSum t.leaves j) = _ * (1 / (1 + ∑ j, evSum t.leaves j))
  rw [this]; ring

/-- EVERY ORDER AND GROUPING: two fusion trees whose operand sequences are permutations of each other
    evaluate to the same opinion -/
theorem C07_tree_perm (same same' : Bool) (a : Fin n → ℚ) (t t' : FTree n) (hp : t.leaves.Perm t'.leaves)
    (hL : ∀ p ∈ t.leaves, SWF p.1 p.2 ∧ (p.2 = 1 ∨ (f.eps < p.2 ∧ p.2 < 1 - 2 * f.eps)))
    (htot : f.eps < 1 / (1 + (t.leaves.map fun p => 1 / p.2 - 1).sum)) :
    t'.eval f same' a = t.eval f same a := by
  have hg : Good f t.leaves := hL
  have hg' : Good f t'.leaves := hg.perm hp
  have ht : f.eps < (ofEvQ (evSum t.leaves)).2 := by rw [evSum_total hg]; exact htot
  rw [eval_closed same a t hg ht, eval_closed same' a t' hg' (by rw [← evSum_perm hp]; exact ht),
    evSum_perm hp]

/-- LEFT FOLD, closed form: `fold(w0, [w1, …, wk])` by `fuse .acm` is the opinion of the total evidence -/
theorem C07_fold_closed (same : Bool) (a : Fin n → ℚ) (w0 : (Fin n → ℚ) × ℚ) (L : List ((Fin n → ℚ) × ℚ))
    (hL : ∀ p ∈ w0 :: L, SWF p.1 p.2 ∧ (p.2 = 1 ∨ (f.eps < p.2 ∧ p.2 < 1 - 2 * f.eps)))
    (htot : f.eps < 1 / (1 + ((w0 :: L).map fun p => 1 / p.2 - 1).sum)) :
    (L.map fun p => (⟨liftT p.1, XQ.fin p.2, liftT a⟩ : Opinion (XQ f) n)).foldl (fuse .acm same)
        ⟨liftT w0.1, XQ.fin w0.2, liftT a⟩
      = ⟨liftT (ofEvQ (evSum (w0 :: L))).1, XQ.fin (ofEvQ (evSum (w0 :: L))).2, liftT a⟩ := by
  have hl : (combL (.leaf w0) L).leaves = w0 :: L := by rw [leaves_combL]; rfl
  have := foldl_eq_eval (f := f) same a (.leaf w0) L
  rw [show (FTree.leaf w0).eval f same a = opQ a w0 from rfl] at this
  show (L.map (opQ a)).foldl (fuse .acm same) (opQ a w0) = _
  rw [this]
  have hc := C07_tree_closed same a (combL (.leaf w0) L) (by rw [hl]; exact hL) (by rw [hl]; exact htot)
  rw [hl] at hc
  exact hc.1

/-- ORDER INDEPENDENCE of the left fold: folding a permutation of the sequence (any operand first) gives the
    same opinion; unbounded length -/
theorem C07_fold_perm (same same' : Bool) (a : Fin n → ℚ) (w0 w0' : (Fin n → ℚ) × ℚ)
    (L L' : List ((Fin n → ℚ) × ℚ)) (hp : (w0 :: L).Perm (w0' :: L'))
    (hL : ∀ p ∈ w0 :: L, SWF p.1 p.2 ∧ (p.2 = 1 ∨ (f.eps < p.2 ∧ p.2 < 1 - 2 * f.eps)))
    (htot : f.eps < 1 / (1 + ((w0 :: L).map fun p => 1 / p.2 - 1).sum)) :
    (L'.map fun p => (⟨liftT p.1, XQ.fin p.2, liftT a⟩ : Opinion (XQ f) n)).foldl (fuse .acm same')
        ⟨liftT w0'.1, XQ.fin w0'.2, liftT a⟩
      = (L.map fun p => (⟨liftT p.1, XQ.fin p.2, liftT a⟩ : Opinion (XQ f) n)).foldl (fuse .acm same)
          ⟨liftT w0.1, XQ.fin w0.2, liftT a⟩ := by
  have hL' : ∀ p ∈ w0' :: L', SWF p.1 p.2 ∧ (p.2 = 1 ∨ (f.eps < p.2 ∧ p.2 < 1 - 2 * f.eps)) :=
    fun p hp' => hL p (hp.mem_iff.mpr hp')
  have htot' : f.eps < 1 / (1 + ((w0' :: L').map fun p => 1 / p.2 - 1).sum) := by
    rw [← (hp.map fun p => 1 / p.2 - 1).sum_eq]; exact htot
  rw [C07_fold_closed same a w0 L hL htot, C07_fold_closed same' a w0' L' hL' htot', evSum_perm hp]

/-- starting from the vacuous opinion over the same base rate (the neutral element) changes nothing -/
theorem C07_fold_from_vacuous (same : Bool) (a : Fin n → ℚ) (w0 : (Fin n → ℚ) × ℚ)
    (L : List ((Fin n → ℚ) × ℚ))
    (hL : ∀ p ∈ w0 :: L, SWF p.1 p.2 ∧ (p.2 = 1 ∨ (f.eps < p.2 ∧ p.2 < 1 - 2 * f.eps)))
    (htot : f.eps < 1 / (1 + ((w0 :: L).map fun p => 1 / p.2 - 1).sum)) :
    ((w0 :: L).map fun p => (⟨liftT p.1, XQ.fin p.2, liftT a⟩ : Opinion (XQ f) n)).foldl (fuse .acm same)
        ⟨liftT (fun _ => (0 : ℚ)), XQ.fin 1, liftT a⟩
      = (L.map fun p => (⟨liftT p.1, XQ.fin p.2, liftT a⟩ : Opinion (XQ f) n)).foldl (fuse .acm same)
          ⟨liftT w0.1, XQ.fin w0.2, liftT a⟩ := by
  have hV : ∀ p ∈ ((fun _ => (0 : ℚ)), (1 : ℚ)) :: w0 :: L,
      SWF p.1 p.2 ∧ (p.2 = 1 ∨ (f.eps < p.2 ∧ p.2 < 1 - 2 * f.eps)) := by
    intro p hp
    rcases List.mem_cons.mp hp with rfl | hp
    · exact ⟨SWF.vacuous, Or.inl rfl⟩
    · exact hL p hp
  have hs : ((((fun _ => (0 : ℚ)), (1 : ℚ)) :: w0 :: L).map fun p : (Fin n → ℚ) × ℚ => 1 / p.2 - 1).sum
      = ((w0 :: L).map fun p => 1 / p.2 - 1).sum := by
    rw [List.map_cons, List.sum_cons]; norm_num
  have := C07_fold_closed same a ((fun _ => (0 : ℚ)), (1 : ℚ)) (w0 :: L) hV (by rw [hs]; exact htot)
  rw [this, C07_fold_closed same a w0 L hL htot, evSum_cons]
  have z : evQ (fun _ : Fin n => (0 : ℚ)) 1 = 0 := by funext i; simp [evQ]
  rw [z, zero_add]

/-- GROUPING: the right-nested fold `w1 ⊕ (w2 ⊕ (… ⊕ w0))` equals the left fold `((w0 ⊕ w1) ⊕ w2) ⊕ …` -/
theorem C07_fold_grouping (same : Bool) (a : Fin n → ℚ) (w0 : (Fin n → ℚ) × ℚ) (L : List ((Fin n → ℚ) × ℚ))
    (hL : ∀ p ∈ w0 :: L, SWF p.1 p.2 ∧ (p.2 = 1 ∨ (f.eps < p.2 ∧ p.2 < 1 - 2 * f.eps)))
    (htot : f.eps < 1 / (1 + ((w0 :: L).map fun p => 1 / p.2 - 1).sum)) :
    (L.map fun p => (⟨liftT p.1, XQ.fin p.2, liftT a⟩ : Opinion (XQ f) n)).foldr (fuse .acm same)
        ⟨liftT w0.1, XQ.fin w0.2, liftT a⟩
      = (L.map fun p => (⟨liftT p.1, XQ.fin p.2, liftT a⟩ : Opinion (XQ f) n)).foldl (fuse .acm same)
          ⟨liftT w0.1, XQ.fin w0.2, liftT a⟩ := by
  have e1 := foldl_eq_eval (f := f) same a (.leaf w0) L
  have e2 := foldr_eq_eval (f := f) same a (.leaf w0) L
  rw [show (FTree.leaf w0).eval f same a = opQ a w0 from rfl] at e1 e2
  show (L.map (opQ a)).foldr (fuse .acm same) (opQ a w0) = (L.map (opQ a)).foldl (fuse .acm same) (opQ a w0)
  rw [e1, e2]
  have hl : (combL (.leaf w0) L).leaves = w0 :: L := by rw [leaves_combL]; rfl
  have hr : (combR L (.leaf w0)).leaves = L ++ [w0] := by rw [leaves_combR]; rfl
  have hp : (combL (.leaf w0) L).leaves.Perm (combR L (.leaf w0)).leaves := by
    rw [hl, hr]; exact (List.perm_append_singleton w0 L).symm
  exact C07_tree_perm same same a _ _ hp (by rw [hl]; exact hL) (by rw [hl]; exact htot)

/-- IN PLACE = BY VALUE: `fuse_assign` is `*lhs = fuse(lhs, rhs)`, so folding in place is the same fold
    (any scalar type, any operator, any operands) -/
theorem C07_fold_assign {α : Type} [Scalar α] (op : FuseOp) (same : Bool) (w0 : Opinion α n)
    (L : List (Opinion α n)) :
    L.foldl (fuseAssign op same) w0 = L.foldl (fuse op same) w0 := rfl

/-! ### kernel-checked replays on the executable model (binary64 / binary32 tolerances, exact arithmetic)

Independent of the lifting lemmas: the model itself is evaluated by the kernel on concrete operands. -/

section Replay

def q (n d : Nat) : XQ .f64 := .fin ((n : Rat) / (d : Rat))
def q32 (n d : Nat) : XQ .f32 := .fin ((n : Rat) / (d : Rat))

/-- componentwise equality test of two model opinions -/
def sameOp {α : Type} [DecidableEq α] {n : Nat} (x y : Opinion α n) : Bool :=
  decide (x.b.toList = y.b.toList) && decide (x.u = y.u) && decide (x.a.toList = y.a.toList)

/-- dogmatic band: `((1-ε, 0); ε)`; vacuous band: `((2ε, 0); 1-2ε)`; the vacuous opinion (ε = 2⁻⁵²) -/
def lD : Opinion (XQ .f64) 2 := ⟨#v[q (2^52 - 1) (2^52), q 0 1], q 1 (2^52), #v[q 1 2, q 1 2]⟩
def lV : Opinion (XQ .f64) 2 := ⟨#v[q 2 (2^52), q 0 1], q (2^52 - 2) (2^52), #v[q 1 2, q 1 2]⟩
def vac2 : Opinion (XQ .f64) 2 := ⟨#v[q 0 1, q 0 1], q 1 1, #v[q 1 2, q 1 2]⟩

/-- idempotence fails in the dogmatic band (Avg, Wgh return `u = 0`) -/
theorem C07_replay_idem_dogmatic_band :
    (decide ((fuse .avg false lD lD).u = q 0 1) && decide ((fuse .wgh false lD lD).u = q 0 1)) = true := by
  decide +kernel

/-- in the vacuous band: Wgh self-fusion, ACm self-fusion and ACm with the vacuous opinion all return `u = 1`
    (not idempotent / more uncertainty than either operand / the non-vacuous operand is not returned) -/
theorem C07_replay_vacuous_band :
    (decide ((fuse .wgh false lV lV).u = q 1 1) && decide ((fuse .acm false lV lV).u = q 1 1)
      && decide ((fuse .acm false lV vac2).u = q 1 1) && !(sameOp (fuse .acm false lV vac2) lV)) = true := by
  decide +kernel

/-- REPAIRED FINDING (f32, Avg, ternary domain; the operands of `C02_base_rate_sum_defect`): both operands
    `b = (1/4, 1/4, 0)`, `u = 1/2`; `a1 = (1/2 + ε/2, 1/2 - ε/2, 0)`, `a2 = (1/2, 0, 1/2)`.  Entry 0 is `ulps_eq!`
    with unequal values -/
def b3 : Tab (XQ .f32) 3 := #v[q32 1 4, q32 1 4, q32 0 1]
def l32 : Opinion (XQ .f32) 3 := ⟨b3, q32 1 2, #v[q32 8388609 16777216, q32 8388607 16777216, q32 0 1]⟩
def r32 : Opinion (XQ .f32) 3 := ⟨b3, q32 1 2, #v[q32 1 2, q32 0 1, q32 1 2]⟩

/-- before repairs c0b2ed5 / c8a7116 (`Pinned.fuseLeft`: the shortcut on `ulps_eq!`, LEFT entry): `fuse(l, r)` had
    base-rate entry `1/2 + ε/2`, `fuse(r, l)` had `1/2` — averaging fusion was NOT commutative on these well-formed
    operands -/
theorem C07_comm_fails_shortcut :
    (decide ((Pinned.fuseLeft .avg false l32 r32).a[0] = q32 8388609 16777216) &&
      decide ((Pinned.fuseLeft .avg false r32 l32).a[0] = q32 1 2) &&
      !(sameOp (Pinned.fuseLeft .avg false l32 r32) (Pinned.fuseLeft .avg false r32 l32))) = true := by
  decide +kernel

/-- the current definition on the same operands: entry 0 is the mean `1/2 + ε/4` in both orders, and the two orders
    agree in every component, for all four operators -/
theorem C07_replay_comm_shortcut :
    (decide ((fuse .avg false l32 r32).a[0] = q32 16777217 33554432) &&
      decide ((fuse .avg false r32 l32).a[0] = q32 16777217 33554432) &&
      sameOp (fuse .avg false l32 r32) (fuse .avg false r32 l32) &&
      sameOp (fuse .acm false l32 r32) (fuse .acm false r32 l32) &&
      sameOp (fuse .ecm false l32 r32) (fuse .ecm false r32 l32) &&
      sameOp (fuse .wgh false l32 r32) (fuse .wgh false r32 l32)) = true := by
  decide +kernel

/-- FINDING witness: the hypothesis `htot` of `C07_acm_assoc` cannot be dropped.  `x = y = ((1-3ε/2, 0); 3ε/2)`
    and `z = ((1/2, 0); 1/2)` are well-formed with `ε < u < 1-2ε` and share the base rate, but
    `x ⊕ y` has uncertainty `3/(2⁵⁴-3) ≤ ε`: the next fusion treats it as dogmatic and returns it unchanged,
    whereas `x ⊕ (y ⊕ z)` uses the formula in both steps.  ACm is not associative here. -/
def xA : Opinion (XQ .f64) 2 := ⟨#v[q (2^53 - 3) (2^53), q 0 1], q 3 (2^53), #v[q 1 2, q 1 2]⟩
def zA : Opinion (XQ .f64) 2 := ⟨#v[q 1 2, q 0 1], q 1 2, #v[q 1 2, q 1 2]⟩

theorem C07_assoc_fails_below_eps :
    (decide ((fuse .acm false xA xA).u = q 3 (2^54 - 3)) &&
      sameOp (fuse .acm false (fuse .acm false xA xA) zA) (fuse .acm false xA xA) &&
      !(sameOp (fuse .acm false (fuse .acm false xA xA) zA)
          (fuse .acm false xA (fuse .acm false xA zA)))) = true := by
  decide +kernel

/-- a positive replay of `C07_fold_perm`, `C07_fold_grouping`, `C07_fold_assign` (ternary domain, one
    operand vacuous): three orders / groupings give the same opinion, total uncertainty `1/5` -/
def w1 : Opinion (XQ .f64) 3 := ⟨#v[q 1 4, q 1 8, q 1 8], q 1 2, #v[q 1 2, q 1 4, q 1 4]⟩
def w2 : Opinion (XQ .f64) 3 := ⟨#v[q 1 2, q 0 1, q 1 4], q 1 4, #v[q 1 2, q 1 4, q 1 4]⟩
def w3 : Opinion (XQ .f64) 3 := ⟨#v[q 0 1, q 0 1, q 0 1], q 1 1, #v[q 1 2, q 1 4, q 1 4]⟩

theorem C07_replay_fold :
    (sameOp ([w2, w3].foldl (fuse .acm false) w1) ([w1, w2].foldl (fuse .acm false) w3) &&
      sameOp ([w2, w3].foldl (fuse .acm false) w1) ([w2, w3].foldr (fuse .acm false) w1) &&
      decide (([w2, w3].foldl (fuseAssign .acm false) w1).u = q 1 5)) = true := by
  decide +kernel

end Replay

/-! ### non-vacuity -/

/-- `C07_comm`: two different well-formed ternary opinions whose base rates differ; and the operands of the repaired
    finding (base-rate entries `1/2 + ε/2` and `1/2` at f32) -/
example :
    WF (n := 3) ![1/4, 1/8, 1/8] (1/2) ![1/2, 1/2, 0] ∧ WF (n := 3) ![1/2, 0, 1/4] (1/4) ![1/2, 0, 1/2] ∧
    WF (n := 3) ![1/4, 1/4, 0] (1/2) ![8388609/16777216, 8388607/16777216, 0] ∧
    WF (n := 3) ![1/4, 1/4, 0] (1/2) ![1/2, 0, 1/2] := by
  refine ⟨?_, ?_, ?_, ?_⟩ <;> constructor <;> simp [Fin.forall_fin_succ, Fin.sum_univ_succ] <;> norm_num

/-- `C07_comm_base_rate_unconditional` / `C07_comm_any_base_rate` on non-finite base rates: NaN and ∞ entries -/
example :
    fuse .ecm false (⟨liftT ![1/4, 1/4], XQ.fin (1/2), #v[XQ.nan, XQ.pinf]⟩ : Opinion (XQ f) 2)
        ⟨liftT ![1/2, 1/4], XQ.fin (1/4), #v[XQ.fin (1/2), XQ.ninf]⟩
      = fuse .ecm false (⟨liftT ![1/2, 1/4], XQ.fin (1/4), #v[XQ.fin (1/2), XQ.ninf]⟩ : Opinion (XQ f) 2)
          ⟨liftT ![1/4, 1/4], XQ.fin (1/2), #v[XQ.nan, XQ.pinf]⟩ := by
  apply C07_comm_any_base_rate <;> constructor <;> simp [Fin.forall_fin_two, Fin.sum_univ_two] <;> norm_num

/-- `C07_idem_*`, `C07_vacuous_neutral`, `C07_*_u_*`: a plain operand and a band operand (every format) -/
example : WF (n := 2) ![1/4, 1/4] (1/2) ![1/4, 3/4] ∧ (f.eps < (1/2 : ℚ) ∧ (1/2 : ℚ) < 1 - 2 * f.eps) ∧
    WF (n := 2) ![f.eps, 0] (1 - f.eps) ![1/4, 3/4] ∧ 1 - 2 * f.eps ≤ 1 - f.eps := by
  have he := XQ.eps_pos f
  have hl := XQ.eps_lt f
  refine ⟨?_, ⟨by linarith, by linarith⟩, ?_, by linarith⟩
  · constructor <;> simp [Fin.forall_fin_two, Fin.sum_univ_two] <;> norm_num
  · constructor
    · exact Fin.forall_fin_two.mpr ⟨by simpa using he.le, by simp⟩
    · linarith
    · simp [Fin.sum_univ_two]
    · exact Fin.forall_fin_two.mpr ⟨by norm_num, by norm_num⟩
    · simp [Fin.sum_univ_two]; norm_num

/-- `C07_acm_assoc` / `C07_fold_*`: three operands (one vacuous) over a ternary domain, every format: the
    hypotheses hold, the total uncertainty is `1/5` -/
example :
    (∀ p ∈ [((![1/4, 1/8, 1/8] : Fin 3 → ℚ), (1/2 : ℚ)), (![1/2, 0, 1/4], 1/4), (fun _ => 0, 1)],
      SWF p.1 p.2 ∧ (p.2 = 1 ∨ (f.eps < p.2 ∧ p.2 < 1 - 2 * f.eps))) ∧
    f.eps < 1 / (1 + ([((![1/4, 1/8, 1/8] : Fin 3 → ℚ), (1/2 : ℚ)), (![1/2, 0, 1/4], 1/4),
      (fun _ => 0, 1)].map fun p => 1 / p.2 - 1).sum) ∧
    f.eps < acmU (acmU (1/2) (1/4)) 1 := by
  have he := XQ.eps_pos f
  have hl := XQ.eps_lt f
  refine ⟨?_, ?_, ?_⟩
  · intro p hp
    simp only [List.mem_cons, List.not_mem_nil, or_false] at hp
    rcases hp with rfl | rfl | rfl
    · refine ⟨?_, Or.inr ⟨by show f.eps < 1/2; linarith, by show (1/2 : ℚ) < _; linarith⟩⟩
      constructor <;> simp [Fin.forall_fin_succ, Fin.sum_univ_succ]; norm_num
    · refine ⟨?_, Or.inr ⟨by show f.eps < 1/4; linarith, by show (1/4 : ℚ) < _; linarith⟩⟩
      constructor <;> simp [Fin.forall_fin_succ, Fin.sum_univ_succ]; norm_num
    · exact ⟨SWF.vacuous, Or.inl rfl⟩
  · norm_num; linarith
  · unfold acmU; norm_num; linarith

end SLV.Props.C07
