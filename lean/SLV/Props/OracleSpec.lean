/-
  OracleSpec — the executable specification functions evaluated by the driver on the IMPLEMENTATION's
  outputs (SLV/Oracle/Basic.lean, SLV/Oracle/Spec.lean, over `List Rat`) are the closed forms of the
  kernel-checked property theorems (over `Fin n → ℚ`).

  Every theorem below has the shape
      `Oracle.<spec> (List.ofFn …) … = List.ofFn (<closed form of the property file>)`
  so that "statement proved about the model" and "predicate evaluated on the implementation" are the
  same mathematics.  Conditional tables are handed to the oracles as `cs : List (List Rat × Rat)`;
  from rational data `cb : Fin n → Fin m → ℚ`, `cu : Fin n → ℚ` this is
      `csOf cb cu = List.ofFn fun x => (List.ofFn (cb x), cu x)`   (SLV/Refine/OracleSpecLemmas.lean).

  Which oracle predicate uses which specification, and which property theorem states the same closed form
  about the executable model:

  | property | oracle (SLV/Oracle/All.lean) evaluates | = closed form (this file)            | model theorem with that closed form |
  |----------|----------------------------------------|--------------------------------------|-------------------------------------|
  | C03      | `Oracle.fuseSpec`                       | `FuseQ.idealS/idealA`, `C09.bmax/uhat` (SLV/Refine/C03Lemmas.lean: `fuseSpec_ofFn_*`) | `C03.C03_refines_spec` |
  | C04      | `Oracle.deduceSpec`                     | `(bRes, uRes)`        `OS_deduceSpec`    | `C04.C04_refines`, `C04.C04_mixture_form` |
  | C04      | `Oracle.totalProbSpec`                  | `ptot`                `OS_totalProbSpec` | `C04.C04_total_probability`, `C04.C04_projection` |
  | C04      | `Oracle.pyhxSpec/bminSpec/apexUSpec`    | `pyhx`, `bmin`, `uhat` `OS_pyhxSpec` …   | `C04.C04_apex`, `C04.C04_uhat_char`, `C04.C04_bmin_char` |
  | C06      | `Oracle.productSpec` (2 / 3 factors)    | `(P2, A2, B2, uhat2)` `OS_productSpec2/3`| `C06.C06_refines`, `C06.C06_outer`, `C06.C06_max_u` (and the `…3` versions) |
  | C06      | `Oracle.outerSpec`                      | row-major `idx2`/`idx3` `OS_outerSpec2/3`| `C06.C06_outer_base_rate`, `C06.C06_index` |
  | C08      | `Oracle.mbrSpec`                        | `may` / `none` iff `S = 0` `OS_mbrSpec`  | `C08.C08_lift` |
  | C09      | `Oracle.projQ`                          | `b + a u`             `OS_projQ`         | `C09.C09_projection` |
  | C09      | `Oracle.maxUQ`                          | `C09.uhat`            `OS_maxUQ`         | `C09.C09_max_lift`, `C09.C09_max_u_formula` |

  Differences between an oracle specification and the model's closed form, made explicit here:
  * C09 `maxUQ` skips entries with `a i ≤ 0`, the model skips `|a i| ≤ ε`: equal when no base-rate entry
    lies in the guard band `(0, ε]` (`OS_maxUQ`; the oracle excludes such cases from its domain);
    `OS_maxUQ_general` / `OS_maxUQ_char` give the band-free value.
  * C08 `mbrSpec` is `none` exactly when `S = 0`; the model (`C08_lift`) is also `none` when every
    conditional is vacuous up to tolerance (`AllVac`).  The oracle applies that guard itself
    (`if allVac then none else mbrSpec ax cs m`), and `OS_mbrGuarded` / `OS_mbrGuarded_model` show that
    this guarded expression IS the closed form of `C08_lift`; `OS_mbrSpec_band_witness` shows the guard
    is needed.
  * C04 `apexUSpec`, C06 `productSpec`: an optional running minimum over the entries with positive base
    rate = the `Finset.min'` of the property files (`optFold_finRange_eq_min'`); `none` iff no such entry,
    which well-formed inputs exclude.
  All statements are over exact rationals; nothing here mentions `XQ`.
-/
import SLV.Refine.OracleSpecLemmas
import SLV.Props.C03
import SLV.Props.C04
import SLV.Props.C06
import SLV.Props.C08
import Mathlib.Data.Fin.VecNotation
import Mathlib.Tactic.FinCases

namespace SLV.Props.OracleSpec
open SLV SLV.OracleSpec

variable {f : Fmt} {n m : Nat}

/-! ### C09: projection and largest uncertainty -/

/-- 1. `projQ` is `b + a u` -/
theorem OS_projQ (b a : Fin n → ℚ) (u : ℚ) :
    Oracle.projQ (List.ofFn b) u (List.ofFn a) = List.ofFn fun i => b i + a i * u :=
  projQ_ofFn b a u

/-- 2. `maxUQ` (skips `a i ≤ 0`) is C09's `uhat` (skips `|a i| ≤ ε`) when no base-rate entry lies in the
    guard band `(0, ε]`; the band hypothesis contains `0 ≤ a i` -/
theorem OS_maxUQ (b a : Fin n → ℚ) (u : ℚ) (hband : ∀ i, a i = 0 ∨ f.eps < a i) :
    Oracle.maxUQ (List.ofFn b) u (List.ofFn a) = C09.uhat f b a u :=
  maxUQ_ofFn b a u hband

/-- 2'. without the band hypothesis: the running minimum, started at 1, of `P i / a i` over `a i > 0` -/
theorem OS_maxUQ_general (b a : Fin n → ℚ) (u : ℚ) :
    Oracle.maxUQ (List.ofFn b) u (List.ofFn a)
      = foldMin (fun i => if 0 < a i then (b i + a i * u) / a i else 1) 1 := by
  unfold Oracle.maxUQ foldMin
  rw [projQ_ofFn]
  show List.foldl _ 1 (List.zipWith Prod.mk (List.ofFn _) (List.ofFn a)) = _
  rw [zipWith_ofFn, List.ofFn_eq_map, List.foldl_map]
  have key : ∀ (l : List (Fin n)) (acc : ℚ), acc ≤ 1 →
      l.foldl (fun acc i => if (b i + a i * u, a i).2 > 0 then
          Oracle.minQ acc ((b i + a i * u, a i).1 / (b i + a i * u, a i).2) else acc) acc
        = l.foldl (fun acc i => min acc (if 0 < a i then (b i + a i * u) / a i else 1)) acc := by
    intro l
    induction l with
    | nil => intro acc _; rfl
    | cons i l ih =>
      intro acc hacc
      rw [List.foldl_cons, List.foldl_cons]
      have step : (if (b i + a i * u, a i).2 > 0 then
          Oracle.minQ acc ((b i + a i * u, a i).1 / (b i + a i * u, a i).2) else acc)
            = min acc (if 0 < a i then (b i + a i * u) / a i else 1) := by
        by_cases hp : 0 < a i
        · rw [if_pos hp, if_pos hp, minQ_eq_min]
        · rw [if_neg hp, if_neg hp]; exact (min_eq_left hacc).symm
      rw [step]
      exact ih _ (le_trans (min_le_left _ _) hacc)
  exact key _ 1 (le_refl _)

/-- 2''. … that is: `min(1, min_{a i > 0} P i / a i)` -/
theorem OS_maxUQ_char (b a : Fin n → ℚ) (u : ℚ) :
    Oracle.maxUQ (List.ofFn b) u (List.ofFn a) ≤ 1 ∧
    (∀ i, 0 < a i → Oracle.maxUQ (List.ofFn b) u (List.ofFn a) ≤ (b i + a i * u) / a i) ∧
    (Oracle.maxUQ (List.ofFn b) u (List.ofFn a) = 1 ∨
      ∃ i, 0 < a i ∧ Oracle.maxUQ (List.ofFn b) u (List.ofFn a) = (b i + a i * u) / a i) := by
  rw [OS_maxUQ_general]
  obtain ⟨h1, h2, h3⟩ := foldMin_spec (fun i => if 0 < a i then (b i + a i * u) / a i else 1) 1
  refine ⟨h1, ?_, ?_⟩
  · intro i hi
    have := h2 i
    simp only [if_pos hi] at this
    exact this
  · rcases h3 with h | ⟨i, hi⟩
    · left; exact h
    · by_cases hp : 0 < a i
      · right; refine ⟨i, hp, ?_⟩
        simp only [if_pos hp] at hi
        exact hi
      · left
        simp only [if_neg hp] at hi
        exact hi

/-! ### C08: marginal base rate -/

section cond
variable (bx ax : Fin n → ℚ) (ux : ℚ) (cb : Fin n → Fin m → ℚ) (cu : Fin n → ℚ) (ay : Fin m → ℚ)

theorem mbr_raw_ofFn :
    ((List.range m).map fun y =>
        Oracle.sumQ (List.zipWith (fun a cc => a * cc.1.getD y 0) (List.ofFn ax) (csOf cb cu)))
      = List.ofFn (C08.raw ax cb) := by
  apply range_map_eq_ofFn
  intro y
  rw [sumQ_zip_cs]
  simp only [getD_ofFn]
  rfl

/-- 3'. `mbrSpec` with no hypotheses: normalise `raw y = Σ_x a(x) b(y|x)` by its total -/
theorem OS_mbrSpec_general :
    Oracle.mbrSpec (List.ofFn ax) (csOf cb cu) m
      = if ∑ y, C08.raw ax cb y = 0 then none
        else some (List.ofFn fun y => C08.raw ax cb y / ∑ y', C08.raw ax cb y') := by
  unfold Oracle.mbrSpec
  simp only [mbr_raw_ofFn, sumQ_ofFn, map_ofFn']

variable {ax cb cu}

/-- 3. `mbrSpec` on a well-formed table is C08's `may`, absent exactly when `S = 0` -/
theorem OS_mbrSpec (h : C08.HypM ax cb cu) :
    Oracle.mbrSpec (List.ofFn ax) (csOf cb cu) m
      = if C08.S ax cu = 0 then none else some (List.ofFn (C08.may ax cb cu)) := by
  rw [OS_mbrSpec_general, C08.sum_raw h]
  rfl

/-- 3''. relation with the model (`C08_lift`): the model returns `none` also when all conditionals are
    vacuous up to tolerance; otherwise model and specification carry the same rational table -/
theorem OS_mbrSpec_model (h : C08.HypM ax cb cu) (hv : ¬ C08.AllVac f cu) :
    mbr (liftT ax : Tab (XQ f) n) (C04.condTab cb cu f)
      = (Oracle.mbrSpec (List.ofFn ax) (csOf cb cu) m).map
          (fun l => liftT (fun y : Fin m => l.getD y.val 0)) := by
  rw [C08.mbr_lift h, OS_mbrSpec h]
  by_cases hS : C08.S ax cu = 0
  · rw [if_pos (Or.inr hS), if_pos hS]; rfl
  · rw [if_neg (by rintro (hc | hc); exact hv hc; exact hS hc), if_neg hS]
    simp only [Option.map_some, getD_ofFn]

/-- the oracle's vacuity guard on the conditional table (`oracleC04`: `cs.all fun cc => 1 - 2ε ≤ cc.2`)
    is C08's `AllVac` -/
theorem OS_allVac_iff (cu : Fin n → ℚ) (cb : Fin n → Fin m → ℚ) :
    ((csOf cb cu).all fun cc => decide (1 - 2 * f.eps ≤ cc.2)) = true ↔ C08.AllVac f cu := by
  unfold csOf C08.AllVac
  rw [List.all_eq_true]
  constructor
  · intro h x
    simpa using h _ (List.mem_ofFn.mpr ⟨x, rfl⟩)
  · intro h cc hc
    obtain ⟨x, rfl⟩ := List.mem_ofFn.mp hc
    simpa using h x

/-- 3a. the guarded expression the C04/C08 oracle evaluates (`if allVac then none else mbrSpec ax cs m`)
    is exactly the closed form of `C08_lift`: absent iff `AllVac ∨ S = 0`, else `may` -/
theorem OS_mbrGuarded (h : C08.HypM ax cb cu) [Decidable (C08.AllVac f cu ∨ C08.S ax cu = 0)] :
    (if ((csOf cb cu).all fun cc => decide (1 - 2 * f.eps ≤ cc.2)) = true then none
      else Oracle.mbrSpec (List.ofFn ax) (csOf cb cu) m)
      = if C08.AllVac f cu ∨ C08.S ax cu = 0 then none else some (List.ofFn (C08.may ax cb cu)) := by
  rw [OS_mbrSpec h]
  by_cases hv : C08.AllVac f cu
  · rw [if_pos ((OS_allVac_iff cu cb).mpr hv), if_pos (Or.inl hv)]
  · rw [if_neg (fun hc => hv ((OS_allVac_iff cu cb).mp hc))]
    by_cases hS : C08.S ax cu = 0
    · rw [if_pos hS, if_pos (Or.inr hS)]
    · rw [if_neg hS, if_neg (by rintro (hc | hc); exact hv hc; exact hS hc)]

/-- 3b. hence the model's `mbr` on the lifted table is the lift of the oracle's guarded expression,
    with no side condition beyond well-formedness -/
theorem OS_mbrGuarded_model (h : C08.HypM ax cb cu) :
    mbr (liftT ax : Tab (XQ f) n) (C04.condTab cb cu f)
      = (if ((csOf cb cu).all fun cc => decide (1 - 2 * f.eps ≤ cc.2)) = true then none
          else Oracle.mbrSpec (List.ofFn ax) (csOf cb cu) m).map
          (fun l => liftT (fun y : Fin m => l.getD y.val 0)) := by
  rw [C08.mbr_lift h, OS_mbrGuarded h]
  split
  · rfl
  · simp only [Option.map_some, getD_ofFn]

/-! ### C04: deduction -/

variable (ax cb cu)

/-- 4a. `pyhxSpec` is `P(y ‖ X̂) = Σ_x a(x) (b(y|x) + a(y) u_x)` -/
theorem OS_pyhxSpec :
    Oracle.pyhxSpec (List.ofFn ax) (csOf cb cu) (List.ofFn ay) m = List.ofFn (C04.pyhx ax cb cu ay) := by
  unfold Oracle.pyhxSpec
  apply range_map_eq_ofFn
  intro y
  rw [sumQ_zip_cs]
  simp only [getD_ofFn]
  rfl

/-- 4b. `bminSpec` is the least conditional belief mass per `y` (both are 0 for an empty table) -/
theorem OS_bminSpec : Oracle.bminSpec (csOf cb cu) m = List.ofFn (C04.bmin cb) := by
  unfold Oracle.bminSpec
  apply range_map_eq_ofFn
  intro y
  have hmap : ((csOf cb cu).map fun cc => cc.1.getD y.val 0) = List.ofFn fun x => cb x y := by
    unfold csOf
    rw [map_ofFn']
    simp only [getD_ofFn]
  rw [hmap]
  rcases Nat.eq_zero_or_pos n with h0 | hn
  · subst h0
    unfold C04.bmin csOf
    simp
  · obtain ⟨k, rfl⟩ : ∃ k, n = k + 1 := ⟨n - 1, by omega⟩
    have hhead : ((csOf cb cu).headD ([], 0)).1.getD y.val 0 = cb 0 y := by
      unfold csOf
      rw [List.ofFn_succ, List.headD_cons]
      exact getD_ofFn _ _
    rw [hhead]
    obtain ⟨_, h2, h3⟩ := foldl_minQ_spec (List.ofFn fun x => cb x y) (cb 0 y)
    apply C04.bmin_unique hn
    · intro x
      exact h2 _ (List.mem_ofFn.mpr ⟨x, rfl⟩)
    · rcases h3 with e | e
      · exact ⟨0, e⟩
      · obtain ⟨x, hx⟩ := List.mem_ofFn.mp e
        exact ⟨x, hx.symm⟩

/-- the oracle's apex fold is the optional running minimum of `ucand` over `ay y > 0` -/
theorem apexUSpec_eq_optFold :
    Oracle.apexUSpec (List.ofFn ax) (csOf cb cu) (List.ofFn ay) m
      = (List.finRange m).foldl
          (optStep (fun y : Fin m => 0 < ay y) (C04.ucand ax cb cu ay)) none := by
  unfold Oracle.apexUSpec
  simp only [OS_pyhxSpec, OS_bminSpec]
  rw [foldl_range]
  congr 1
  funext acc y
  simp only [getD_ofFn]
  rfl

/-- 4c'. `apexUSpec` with no hypotheses: C04's `uhat` when some `ay y > 0`, absent otherwise -/
theorem OS_apexUSpec_general :
    Oracle.apexUSpec (List.ofFn ax) (csOf cb cu) (List.ofFn ay) m
      = if (C04.supp ay).Nonempty then some (C04.uhat ax cb cu ay) else none := by
  rw [apexUSpec_eq_optFold, optFold_finRange_eq_min']
  by_cases h : (C04.supp ay).Nonempty
  · rw [if_pos h]
    unfold C04.uhat
    rw [dif_pos h]
    exact dif_pos h
  · rw [if_neg h]
    exact dif_neg h

variable {bx ax ux cb cu ay}

/-- 4c. `apexUSpec` under C04's hypotheses is `some uhat` (the running minimum over `List.range m`
    restricted to `ay y > 0` is the `Finset.min'` of the property file) -/
theorem OS_apexUSpec (h : C04.Hyp bx ax ux cb cu ay) :
    Oracle.apexUSpec (List.ofFn ax) (csOf cb cu) (List.ofFn ay) m = some (C04.uhat ax cb cu ay) := by
  rw [OS_apexUSpec_general, if_pos (C04.supp_nonempty h)]

variable (bx ax ux cb cu ay)

/-- 5'. `deduceSpec` whenever some `ay y > 0` (no well-formedness needed): C04's `(bRes, uRes)` -/
theorem OS_deduceSpec_general (hne : (C04.supp ay).Nonempty) :
    Oracle.deduceSpec (List.ofFn bx) ux (List.ofFn ax) (csOf cb cu) (List.ofFn ay) m
      = some (List.ofFn (C04.bRes bx ax ux cb cu ay), C04.uRes bx ax ux cb cu ay) := by
  unfold Oracle.deduceSpec
  rw [OS_apexUSpec_general, if_pos hne]
  simp only [OS_pyhxSpec]
  congr 2
  · apply range_map_eq_ofFn
    intro y
    rw [sumQ_zip_cs]
    simp only [getD_ofFn]
    exact ((C04.C04_mixture_form bx ax ux cb cu ay).1 y).symm
  · rw [sumQ_zip_cs]
    rfl

/-- 5b. `totalProbSpec` is `Σ_x P(x) P(y|x)` -/
theorem OS_totalProbSpec :
    Oracle.totalProbSpec (List.ofFn bx) ux (List.ofFn ax) (csOf cb cu) (List.ofFn ay) m
      = List.ofFn (C04.ptot bx ax ux cb cu ay) := by
  unfold Oracle.totalProbSpec
  simp only [projQ_ofFn]
  apply range_map_eq_ofFn
  intro y
  rw [sumQ_zip_cs]
  simp only [getD_ofFn]
  rfl

variable {bx ax ux cb cu ay}

/-- 5a. `deduceSpec` under C04's hypotheses is the closed form `(bRes, uRes)` of `C04_refines` -/
theorem OS_deduceSpec (h : C04.Hyp bx ax ux cb cu ay) :
    Oracle.deduceSpec (List.ofFn bx) ux (List.ofFn ax) (csOf cb cu) (List.ofFn ay) m
      = some (List.ofFn (C04.bRes bx ax ux cb cu ay), C04.uRes bx ax ux cb cu ay) :=
  OS_deduceSpec_general bx ax ux cb cu ay (C04.supp_nonempty h)

/-- 5c. the oracle's "projection of the deduced opinion = total probability" identity, on the closed forms -/
theorem OS_deduce_projects_to_totalProb (h : C04.Hyp bx ax ux cb cu ay) :
    ∃ b u, Oracle.deduceSpec (List.ofFn bx) ux (List.ofFn ax) (csOf cb cu) (List.ofFn ay) m = some (b, u) ∧
      Oracle.projQ b u (List.ofFn ay)
        = Oracle.totalProbSpec (List.ofFn bx) ux (List.ofFn ax) (csOf cb cu) (List.ofFn ay) m := by
  refine ⟨_, _, OS_deduceSpec h, ?_⟩
  rw [OS_totalProbSpec, projQ_ofFn]
  apply congrArg List.ofFn
  funext y
  exact C04.C04_total_probability bx ax ux cb cu ay y

end cond

/-! ### C06: products -/

section prod
variable {n0 n1 n2 : Nat}

/-- 6a. `outerSpec` of two tables is the row-major outer product -/
theorem OS_outerSpec2 (v0 : Fin n0 → ℚ) (v1 : Fin n1 → ℚ) :
    Oracle.outerSpec [List.ofFn v0, List.ofFn v1]
      = List.ofFn fun k : Fin (n0 * n1) => v0 (idx2 k).1 * v1 (idx2 k).2 := by
  unfold Oracle.outerSpec
  rw [List.foldl_cons, List.foldl_cons, List.foldl_nil, outer_init, outer_step]

/-- 6b. `outerSpec` of three tables is the row-major outer product -/
theorem OS_outerSpec3 (v0 : Fin n0 → ℚ) (v1 : Fin n1 → ℚ) (v2 : Fin n2 → ℚ) :
    Oracle.outerSpec [List.ofFn v0, List.ofFn v1, List.ofFn v2]
      = List.ofFn fun k : Fin (n0 * n1 * n2) =>
          v0 (idx3 k).1 * v1 (idx3 k).2.1 * v2 (idx3 k).2.2 := by
  unfold Oracle.outerSpec
  rw [List.foldl_cons, List.foldl_cons, List.foldl_cons, List.foldl_nil, outer_init, outer_step,
    outer_step]
  rfl

/-- the uncertainty fold of `productSpec` on cell tables: C06's `uhat` when some cell has a positive
    base rate, absent otherwise -/
theorem prodU_ofFn {N : Nat} (P A B : Fin N → ℚ) :
    (List.zip (List.zip (List.ofFn P) (List.ofFn B)) (List.ofFn A)).foldl
        (fun (acc : Option Rat) (t : (Rat × Rat) × Rat) => if t.2 > 0 then
            let v := (t.1.1 - t.1.2) / t.2
            match acc with | none => some v | some m => some (Oracle.minQ m v)
          else acc) none
      = if (C06.supp A).Nonempty then some (C06.uhat P A B) else none := by
  show List.foldl _ none (List.zipWith Prod.mk (List.zipWith Prod.mk (List.ofFn P) (List.ofFn B))
    (List.ofFn A)) = _
  rw [zipWith_ofFn, zipWith_ofFn, List.ofFn_eq_map, List.foldl_map]
  have e : (fun (acc : Option Rat) (k : Fin N) =>
      if ((P k, B k), A k).2 > 0 then
        let v := (((P k, B k), A k).1.1 - ((P k, B k), A k).1.2) / ((P k, B k), A k).2
        match acc with | none => some v | some m => some (Oracle.minQ m v)
      else acc) = optStep (fun k : Fin N => 0 < A k) (C06.ucand P A B) := by
    funext acc k
    rfl
  rw [e, optFold_finRange_eq_min']
  by_cases h : (C06.supp A).Nonempty
  · rw [if_pos h]
    unfold C06.uhat
    rw [dif_pos h]
    exact dif_pos h
  · rw [if_neg h]
    exact dif_neg h

/-- 6c'. `productSpec` of two opinions with no hypotheses -/
theorem OS_productSpec2_general (b0 a0 : Fin n0 → ℚ) (u0 : ℚ) (b1 a1 : Fin n1 → ℚ) (u1 : ℚ) :
    Oracle.productSpec [(List.ofFn b0, u0, List.ofFn a0), (List.ofFn b1, u1, List.ofFn a1)]
      = (List.ofFn (C06.P2 b0 u0 a0 b1 u1 a1), List.ofFn (C06.A2 a0 a1), List.ofFn (C06.B2 b0 b1),
          if (C06.supp (C06.A2 a0 a1)).Nonempty then some (C06.uhat2 b0 u0 a0 b1 u1 a1) else none) := by
  have hP : Oracle.outerSpec [Oracle.projQ (List.ofFn b0) u0 (List.ofFn a0),
      Oracle.projQ (List.ofFn b1) u1 (List.ofFn a1)] = List.ofFn (C06.P2 b0 u0 a0 b1 u1 a1) := by
    rw [projQ_ofFn, projQ_ofFn, OS_outerSpec2]; rfl
  have hA : Oracle.outerSpec [List.ofFn a0, List.ofFn a1] = List.ofFn (C06.A2 a0 a1) := by
    rw [OS_outerSpec2]; rfl
  have hB : Oracle.outerSpec [List.ofFn b0, List.ofFn b1] = List.ofFn (C06.B2 b0 b1) := by
    rw [OS_outerSpec2]; rfl
  unfold Oracle.productSpec
  simp only [List.map_cons, List.map_nil, hP, hA, hB]
  refine Prod.ext rfl (Prod.ext rfl (Prod.ext rfl ?_))
  exact prodU_ofFn _ _ _

/-- 6c. `productSpec` of two well-formed opinions: the cell tables and joint uncertainty of `C06_refines` -/
theorem OS_productSpec2 {b0 a0 : Fin n0 → ℚ} {u0 : ℚ} {b1 a1 : Fin n1 → ℚ} {u1 : ℚ}
    (h0 : C09.WF b0 u0 a0) (h1 : C09.WF b1 u1 a1) :
    Oracle.productSpec [(List.ofFn b0, u0, List.ofFn a0), (List.ofFn b1, u1, List.ofFn a1)]
      = (List.ofFn (C06.P2 b0 u0 a0 b1 u1 a1), List.ofFn (C06.A2 a0 a1), List.ofFn (C06.B2 b0 b1),
          some (C06.uhat2 b0 u0 a0 b1 u1 a1)) := by
  rw [OS_productSpec2_general, if_pos (C06.supp_nonempty (C06.cell2 h0 h1))]

/-- 6d'. `productSpec` of three opinions with no hypotheses -/
theorem OS_productSpec3_general (b0 a0 : Fin n0 → ℚ) (u0 : ℚ) (b1 a1 : Fin n1 → ℚ) (u1 : ℚ)
    (b2 a2 : Fin n2 → ℚ) (u2 : ℚ) :
    Oracle.productSpec [(List.ofFn b0, u0, List.ofFn a0), (List.ofFn b1, u1, List.ofFn a1),
        (List.ofFn b2, u2, List.ofFn a2)]
      = (List.ofFn (C06.P3 b0 u0 a0 b1 u1 a1 b2 u2 a2), List.ofFn (C06.A3 a0 a1 a2),
          List.ofFn (C06.B3 b0 b1 b2),
          if (C06.supp (C06.A3 a0 a1 a2)).Nonempty then some (C06.uhat3 b0 u0 a0 b1 u1 a1 b2 u2 a2)
          else none) := by
  have hP : Oracle.outerSpec [Oracle.projQ (List.ofFn b0) u0 (List.ofFn a0),
      Oracle.projQ (List.ofFn b1) u1 (List.ofFn a1), Oracle.projQ (List.ofFn b2) u2 (List.ofFn a2)]
        = List.ofFn (C06.P3 b0 u0 a0 b1 u1 a1 b2 u2 a2) := by
    rw [projQ_ofFn, projQ_ofFn, projQ_ofFn, OS_outerSpec3]; rfl
  have hA : Oracle.outerSpec [List.ofFn a0, List.ofFn a1, List.ofFn a2]
      = List.ofFn (C06.A3 a0 a1 a2) := by
    rw [OS_outerSpec3]; rfl
  have hB : Oracle.outerSpec [List.ofFn b0, List.ofFn b1, List.ofFn b2]
      = List.ofFn (C06.B3 b0 b1 b2) := by
    rw [OS_outerSpec3]; rfl
  unfold Oracle.productSpec
  simp only [List.map_cons, List.map_nil, hP, hA, hB]
  refine Prod.ext rfl (Prod.ext rfl (Prod.ext rfl ?_))
  exact prodU_ofFn _ _ _

/-- 6d. `productSpec` of three well-formed opinions: the closed forms of `C06_refines3` -/
theorem OS_productSpec3 {b0 a0 : Fin n0 → ℚ} {u0 : ℚ} {b1 a1 : Fin n1 → ℚ} {u1 : ℚ}
    {b2 a2 : Fin n2 → ℚ} {u2 : ℚ}
    (h0 : C09.WF b0 u0 a0) (h1 : C09.WF b1 u1 a1) (h2 : C09.WF b2 u2 a2) :
    Oracle.productSpec [(List.ofFn b0, u0, List.ofFn a0), (List.ofFn b1, u1, List.ofFn a1),
        (List.ofFn b2, u2, List.ofFn a2)]
      = (List.ofFn (C06.P3 b0 u0 a0 b1 u1 a1 b2 u2 a2), List.ofFn (C06.A3 a0 a1 a2),
          List.ofFn (C06.B3 b0 b1 b2), some (C06.uhat3 b0 u0 a0 b1 u1 a1 b2 u2 a2)) := by
  rw [OS_productSpec3_general, if_pos (C06.supp_nonempty (C06.cell3 h0 h1 h2))]

/-- 6e. the joint belief masses the oracle derives from `productSpec` (`P − A û`) are C06's `bJ2` -/
theorem OS_product_belief2 (b0 a0 : Fin n0 → ℚ) (u0 : ℚ) (b1 a1 : Fin n1 → ℚ) (u1 : ℚ)
    (k : Fin (n0 * n1)) :
    C06.P2 b0 u0 a0 b1 u1 a1 k - C06.A2 a0 a1 k * C06.uhat2 b0 u0 a0 b1 u1 a1
      = C06.bJ2 b0 u0 a0 b1 u1 a1 k := rfl

end prod

/-! ### the model theorems named in the table above (checked to exist with these statements' closed forms) -/

section links
open SLV.Props in
/-- the names used in the summary table resolve -/
example : True := by
  have _ := @C03.C03_refines_spec
  have _ := @C04.C04_refines
  have _ := @C04.C04_mixture_form
  have _ := @C04.C04_total_probability
  have _ := @C04.C04_projection
  have _ := @C04.C04_apex
  have _ := @C06.C06_refines
  have _ := @C06.C06_refines3
  have _ := @C06.C06_outer
  have _ := @C06.C06_max_u
  have _ := @C06.C06_outer_base_rate
  have _ := @C08.C08_lift
  have _ := @C09.C09_projection
  have _ := @C09.C09_max_lift
  have _ := @C09.C09_max_u_formula
  trivial
end links

/-! ### non-vacuity and witnesses for the two stated differences -/

/-- the deduction hypotheses hold on a non-trivial input (a base rate with a zero entry), so
    `OS_deduceSpec` / `OS_apexUSpec` apply to it -/
theorem hypEx : C04.Hyp (n := 2) (m := 3) ![1/2, 1/4] ![1/3, 2/3] (1/4)
    ![![1/2, 1/4, 0], ![0, 1/2, 1/4]] ![1/4, 1/4] ![1/2, 0, 1/2] := by
  constructor <;>
    simp [Fin.sum_univ_two, Fin.sum_univ_three, Fin.forall_fin_succ] <;> norm_num

example : Oracle.deduceSpec (List.ofFn ![1/2, 1/4]) (1/4) (List.ofFn ![1/3, 2/3])
      (csOf ![![1/2, 1/4, 0], ![0, 1/2, 1/4]] ![1/4, 1/4]) (List.ofFn ![1/2, 0, 1/2]) 3
    = some (List.ofFn (C04.bRes ![1/2, 1/4] ![1/3, 2/3] (1/4) ![![1/2, 1/4, 0], ![0, 1/2, 1/4]]
        ![1/4, 1/4] ![1/2, 0, 1/2]),
      C04.uRes ![1/2, 1/4] ![1/3, 2/3] (1/4) ![![1/2, 1/4, 0], ![0, 1/2, 1/4]] ![1/4, 1/4]
        ![1/2, 0, 1/2]) :=
  OS_deduceSpec hypEx

example : C08.HypM (n := 2) (m := 3) ![1/3, 2/3] ![![1/2, 1/4, 0], ![0, 1/2, 1/4]] ![1/4, 1/4] :=
  C08.HypM.of_hyp hypEx

/-- well-formed factors with zeros in belief and base rate, so `OS_productSpec2/3` apply -/
example : C09.WF (n := 2) ![1/4, 1/4] (1/2) ![1/2, 1/2] ∧ C09.WF (n := 3) ![1/2, 1/4, 0] (1/4) ![1/2, 0, 1/2] :=
  ⟨C06.wfA, C06.wfB⟩

/-- the band hypothesis of `OS_maxUQ` holds on a non-trivial base rate with a zero entry -/
example : ∀ i, (![1/2, 0, 1/2] : Fin 3 → ℚ) i = 0 ∨ f.eps < (![1/2, 0, 1/2] : Fin 3 → ℚ) i := by
  have := C08.eps_small f
  intro i
  fin_cases i
  · right; show f.eps < 1 / 2; linarith
  · left; rfl
  · right; show f.eps < 1 / 2; linarith

/-- the band hypothesis of `OS_maxUQ` cannot be dropped: with a base-rate entry equal to `ε` the
    specification (`≤ 1/2`) and the model's closed form (`= 1`, the entry is skipped by the guard)
    differ on a well-formed opinion -/
theorem OS_maxUQ_band_witness :
    C09.WF (n := 2) ![0, 1/2] (1/2) ![f.eps, 1 - f.eps] ∧
    Oracle.maxUQ (List.ofFn ![0, 1/2]) (1/2) (List.ofFn ![f.eps, 1 - f.eps]) ≤ 1 / 2 ∧
    C09.uhat f ![0, 1/2] ![f.eps, 1 - f.eps] (1/2) = 1 := by
  have he := XQ.eps_pos f
  have hs := C08.eps_small f
  have hw : C09.WF (n := 2) ![0, 1/2] (1/2) ![f.eps, 1 - f.eps] := by
    constructor <;> simp [Fin.sum_univ_two, Fin.forall_fin_two] <;>
      first | (constructor <;> linarith) | linarith
  refine ⟨hw, ?_, ?_⟩
  · have := (OS_maxUQ_char (![0, 1/2] : Fin 2 → ℚ) ![f.eps, 1 - f.eps] (1/2)).2.1 0 (by simpa using he)
    refine le_trans this ?_
    have hne : f.eps ≠ 0 := ne_of_gt he
    show (0 + f.eps * (1 / 2)) / f.eps ≤ 1 / 2
    rw [div_le_iff₀ he]
    linarith
  · rcases (C09.C09_max_u_formula (f := f) hw).2.2 with h1 | ⟨i, hi, e⟩
    · exact h1
    · apply le_antisymm (C09.uhat_le_one _ _ _)
      rw [e]
      fin_cases i
      · exact absurd hi (by simp)
      · have hpos : (0 : ℚ) < 1 - f.eps := by linarith
        show 1 ≤ (1 / 2 + (1 - f.eps) * (1 / 2)) / (1 - f.eps)
        rw [le_div_iff₀ hpos]
        linarith

/-- the `AllVac` clause of `OS_mbrSpec_model` cannot be dropped: on C08's band witness the model returns
    `none` while the specification returns a table (`S = ε ≠ 0`) -/
theorem OS_mbrSpec_band_witness :
    mbr (liftT ![1/2, 1/2] : Tab (XQ f) 2)
      (C04.condTab ![![f.eps, 0], ![0, f.eps]] ![1 - f.eps, 1 - f.eps] f) = none ∧
    Oracle.mbrSpec (List.ofFn ![1/2, 1/2])
        (csOf ![![f.eps, 0], ![0, f.eps]] ![1 - f.eps, 1 - f.eps]) 2
      = some (List.ofFn (C08.may ![1/2, 1/2] ![![f.eps, 0], ![0, f.eps]] ![1 - f.eps, 1 - f.eps])) := by
  obtain ⟨hm, hS, hnone⟩ := C08.C08_band_witness (f := f)
  refine ⟨hnone, ?_⟩
  rw [OS_mbrSpec hm, if_neg]
  rw [hS]
  exact ne_of_gt (XQ.eps_pos f)

end SLV.Props.OracleSpec
