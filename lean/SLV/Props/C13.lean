/-
  C13 — Binomial ↔ binary multinomial.
  "Converting a binomial opinion to a two-state multinomial opinion and back is lossless and preserves the
   projected probability.  Binomial cumulative, averaging and weighted fusion return the same opinion as
   the corresponding multinomial operator applied to the converted operands; the cumulative form reports
   an error instead of a value only when both operands are dogmatic, and equal-weight averaging or
   weighting of two dogmatic opinions matches the multinomial mean."
  (Quantifier note: uncertainties in (0, machine epsilon] are excluded because the two families
   deliberately classify them differently; nearly vacuous operands are included.)

  All statements are about the executable model (`BOp.toOpinion`, `BOp.ofOpinion`, `BOp.projection`,
  `BOp.cfuse/afuse/wfuse` in SLV/Model/Bi.lean ≙ src/convert.rs, src/bi.rs:192-257; `fuse`,
  `Opinion.projection` in SLV/Model/Fuse.lean, Basic.lean ≙ src/mul.rs) at the exact semantics `XQ f`, on
  lifted rational operands `bop b d u a = ⟨fin b, fin d, fin u, fin a⟩`.  `ε = f.eps`.
  The multinomial operator is applied with `same = false`: the two converted operands own distinct
  base-rate arrays.  `.ok` ≙ the Rust call returns, `.error l` ≙ the checked constructor rejects.

  `Plain f u :⇔ u = 0 ∨ u = 1 ∨ ε < u < 1-2ε`  (outside both tolerance bands),
  `PlainD f u :⇔ u = 0 ∨ ε < u`              (outside the dogmatic band only; Avg has no vacuity test).

  HYPOTHESIS DROPPED (`hsc`): the multinomial `compute_base_rate` takes a per-entry shortcut
  `if a1 == a2 { a1 } else { formula }` that the binomial code does not have.  Until repair c8a7116 of the crate the
  test was `ulps_eq!(a1, a2)`: when the two base rates were `ulps_eq!` but different the two families returned
  different base rates, and `C13_cfuse_eq_acm`, `C13_cfuse_value`, `C13_afuse_eq_avg`, `C13_wfuse_eq_wgh` carried the
  hypothesis `hsc` "the shortcut is only taken at equal first entries".  With the exact test the shortcut is
  invisible (at equal entries every weighted mean returns the common entry) and the hypothesis is gone; the former
  counterexample now agrees (`C13_shortcut_agrees`, every format).

  The vacuous band `[1-2ε, 1)`: Avg is covered exactly (`C13_afuse_eq_avg` holds on `PlainD`).  For
  ACm / Wgh the multinomial code replaces such an operand by the vacuous opinion whereas the binomial
  formulas keep it: see section 6.
-/
import SLV.Props.C12
import SLV.Refine.C13Lemmas
import SLV.Refine.C02Lemmas

namespace SLV.Props.C13
open SLV Scalar FuseQ
open SLV.Props.C10 (BWF)
open SLV.Props.C09 (WF)
open SLV.Props.C12 (bop)
open SLV.C19 SLV.C13

variable {f : Fmt}
variable {b₁ d₁ u₁ a₁ b₂ d₂ u₂ a₂ : ℚ}

/-! ### 1. the round trip -/

/-- binomial → binary multinomial → binomial is the identity, for EVERY scalar type and every opinion
    (no well-formedness, no finiteness) -/
theorem C13_roundtrip {α : Type} [Scalar α] (w : BOp α) : BOp.ofOpinion (BOp.toOpinion w) = w := by
  cases w; rfl

/-- binary multinomial → binomial → binary multinomial is the identity exactly on the opinions whose
    second base-rate entry is `1 - a[0]` (the conversion stores `1 - a`, it never reads `a[1]`).
    Nothing is required of the masses: `b[0]`, `b[1]` and `u` are copied. -/
theorem C13_roundtrip_multinomial {α : Type} [Scalar α] (o : Opinion α 2) :
    BOp.toOpinion (BOp.ofOpinion o) = o ↔ o.a[1] = Scalar.one - o.a[0] := by
  obtain ⟨b, u, a⟩ := o
  have hb : (#v[b[0], b[1]] : Vector α 2) = b := by
    apply Vector.ext; intro i hi
    match i, hi with
    | 0, _ => rfl
    | 1, _ => rfl
  unfold BOp.toOpinion BOp.ofOpinion
  simp only [hb]
  constructor
  · intro h
    have ha : (#v[a[0], Scalar.one - a[0]] : Vector α 2) = a := by injection h
    have := congrArg (fun v : Vector α 2 => v[1]) ha
    simpa using this.symm
  · intro h
    have ha : (#v[a[0], Scalar.one - a[0]] : Vector α 2) = a := by
      apply Vector.ext; intro i hi
      match i, hi with
      | 0, _ => rfl
      | 1, _ => simpa using h.symm
    rw [ha]

/-- on lifted data: the converted opinion is the lifted binary opinion `(![b, d], u, ![a, 1-a])`, which is
    a well-formed multinomial opinion, and it reads back as the original -/
theorem C13_convert_wf {b d u a : ℚ} (h : BWF b d u a) :
    BOp.toOpinion (bop b d u a : BOp (XQ f)) = ⟨liftT ![b, d], XQ.fin u, liftT ![a, 1 - a]⟩ ∧
    WF (n := 2) ![b, d] u ![a, 1 - a] ∧
    BOp.ofOpinion (⟨liftT ![b, d], XQ.fin u, liftT ![a, 1 - a]⟩ : Opinion (XQ f) 2) = bop b d u a :=
  ⟨BOp.toOpinion_fin b d u a, h.toWF, by rw [ofOpinion_lift]; simp⟩

/-! ### 2. the projected probability -/

/-- the (normalised) multinomial projection of the converted opinion is `(b + a u, d + (1-a) u)`: its
    first entry is the binomial projection `P(x)`, its second entry is `1 - P(x)` -/
theorem C13_projection {b d u a : ℚ} (h : BWF b d u a) :
    (BOp.toOpinion (bop b d u a : BOp (XQ f))).projection = liftT ![b + a * u, d + (1 - a) * u] ∧
    (bop b d u a : BOp (XQ f)).projection = XQ.fin (b + a * u) ∧
    ((BOp.toOpinion (bop b d u a : BOp (XQ f))).projection)[0] = (bop b d u a : BOp (XQ f)).projection ∧
    ((BOp.toOpinion (bop b d u a : BOp (XQ f))).projection)[1]
      = Scalar.one - (bop b d u a : BOp (XQ f)).projection := by
  have e1 : (BOp.toOpinion (bop b d u a : BOp (XQ f))).projection
      = liftT ![b + a * u, d + (1 - a) * u] := by
    rw [BOp.toOpinion_fin]
    unfold Opinion.projection
    rw [C09.C09_projection h.toWF]
    apply liftT_congr
    exact Fin.forall_fin_two.mpr ⟨by simp, by simp⟩
  have e2 : (bop b d u a : BOp (XQ f)).projection = XQ.fin (b + a * u) := by
    unfold BOp.projection; simp only [XQ.mul_fin, XQ.add_fin]
  refine ⟨e1, e2, ?_, ?_⟩
  · rw [e1, e2]; simp
  · rw [e1, e2, XQ.one_def, XQ.sub_fin]
    have : d + (1 - a) * u = 1 - (b + a * u) := by linarith [h.hs]
    simp [this]

/-! ### 3. cumulative fusion = multinomial ACm -/

/-- MAIN (cumulative).  On well-formed operands with plain uncertainties, not both dogmatic, the binomial
    `cfuse` returns, and its value is the multinomial aleatory cumulative fusion of the converted
    operands, converted back.  The binomial code has no guard ladder for the simplex: its closed forms
    degenerate to the ladder's clone arms (see `C13_cfuse_arms`). -/
theorem C13_cfuse_eq_acm (h₁ : BWF b₁ d₁ u₁ a₁) (h₂ : BWF b₂ d₂ u₂ a₂)
    (p₁ : Plain f u₁) (p₂ : Plain f u₂) (hnd : ¬ (u₁ = 0 ∧ u₂ = 0)) :
    BOp.cfuse (bop b₁ d₁ u₁ a₁ : BOp (XQ f)) (bop b₂ d₂ u₂ a₂)
      = .ok (BOp.ofOpinion (fuse .acm false (BOp.toOpinion (bop b₁ d₁ u₁ a₁ : BOp (XQ f)))
          (BOp.toOpinion (bop b₂ d₂ u₂ a₂ : BOp (XQ f))))) := by
  rw [BOp.cfuse_fin_ok h₁ h₂ hnd, ofOpinion_fuse_plain (by decide) h₁ h₂ p₁ p₂,
    idealS_acm _ _ hnd, idealA_acm_cfA p₁ p₂ hnd]
  rfl

/-- the common value, in closed form -/
theorem C13_cfuse_value (h₁ : BWF b₁ d₁ u₁ a₁) (h₂ : BWF b₂ d₂ u₂ a₂)
    (p₁ : Plain f u₁) (p₂ : Plain f u₂) (hnd : ¬ (u₁ = 0 ∧ u₂ = 0)) :
    BOp.ofOpinion (fuse .acm false (BOp.toOpinion (bop b₁ d₁ u₁ a₁ : BOp (XQ f)))
        (BOp.toOpinion (bop b₂ d₂ u₂ a₂ : BOp (XQ f))))
      = bop ((b₁ * u₂ + b₂ * u₁) / (u₁ + u₂ - u₁ * u₂)) ((d₁ * u₂ + d₂ * u₁) / (u₁ + u₂ - u₁ * u₂))
          (u₁ * u₂ / (u₁ + u₂ - u₁ * u₂))
          (if u₁ = 1 ∧ u₂ = 1 then (a₁ + a₂) / 2
            else (a₁ * u₂ * (1 - u₁) + a₂ * u₁ * (1 - u₂)) / (u₂ * (1 - u₁) + u₁ * (1 - u₂))) ∧
    0 < u₁ + u₂ - u₁ * u₂ ∧
    (¬ (u₁ = 1 ∧ u₂ = 1) → 0 < u₂ * (1 - u₁) + u₁ * (1 - u₂)) := by
  have e := C13_cfuse_eq_acm h₁ h₂ p₁ p₂ hnd
  rw [BOp.cfuse_fin_ok h₁ h₂ hnd] at e
  refine ⟨?_, kap_pos h₁ h₂ hnd, fun hnv => cross_pos h₁ h₂ hnd hnv⟩
  rw [← Except.ok.inj e]
  unfold cfA
  simp only [GV_iff_plain p₁, GV_iff_plain p₂]
  rfl

/-- arm by arm: the values to which the binomial closed forms degenerate — exactly the clone arms of the
    multinomial guard ladder.  (i) left operand vacuous, right plain and not vacuous: the right operand
    (κ = 1; base-rate weights 0 : 1-u₂), also when the right operand is dogmatic; (ii) symmetric;
    (iii) left dogmatic, right not: the left operand (κ = u₂, `b₁u₂/u₂`; base-rate weights u₂ : 0);
    (iv) symmetric; (v) both vacuous: the vacuous opinion over the MEAN base rate (guard arm). -/
theorem C13_cfuse_arms :
    (BWF 0 0 1 a₁ → BWF b₂ d₂ u₂ a₂ → Plain f u₂ → u₂ ≠ 1 →
      BOp.cfuse (bop 0 0 1 a₁ : BOp (XQ f)) (bop b₂ d₂ u₂ a₂) = .ok (bop b₂ d₂ u₂ a₂)) ∧
    (BWF b₁ d₁ u₁ a₁ → BWF 0 0 1 a₂ → Plain f u₁ → u₁ ≠ 1 →
      BOp.cfuse (bop b₁ d₁ u₁ a₁ : BOp (XQ f)) (bop 0 0 1 a₂) = .ok (bop b₁ d₁ u₁ a₁)) ∧
    (BWF b₁ d₁ 0 a₁ → BWF b₂ d₂ u₂ a₂ → u₂ ≠ 0 →
      BOp.cfuse (bop b₁ d₁ 0 a₁ : BOp (XQ f)) (bop b₂ d₂ u₂ a₂) = .ok (bop b₁ d₁ 0 a₁)) ∧
    (BWF b₁ d₁ u₁ a₁ → BWF b₂ d₂ 0 a₂ → u₁ ≠ 0 →
      BOp.cfuse (bop b₁ d₁ u₁ a₁ : BOp (XQ f)) (bop b₂ d₂ 0 a₂) = .ok (bop b₂ d₂ 0 a₂)) ∧
    (BWF 0 0 1 a₁ → BWF 0 0 1 a₂ →
      BOp.cfuse (bop 0 0 1 a₁ : BOp (XQ f)) (bop 0 0 1 a₂) = .ok (bop 0 0 1 ((a₁ + a₂) / 2))) := by
  refine ⟨?_, ?_, ?_, ?_, ?_⟩
  · intro h₁ h₂ p₂ hne
    have hg : ¬ GV f u₂ := fun h => hne ((GV_iff_plain p₂).mp h)
    rw [BOp.cfuse_fin_ok h₁ h₂ (by simp), cfB_vac_left, cfB_vac_left, cfU_vac_left, cfA_vac_left hg hne]
  · intro h₁ h₂ p₁ hne
    have hg : ¬ GV f u₁ := fun h => hne ((GV_iff_plain p₁).mp h)
    rw [BOp.cfuse_fin_ok h₁ h₂ (by simp), cfB_vac_right, cfB_vac_right, cfU_vac_right,
      cfA_vac_right hg hne]
  · intro h₁ h₂ hne
    rw [BOp.cfuse_fin_ok h₁ h₂ (fun h => hne h.2), cfB_dog_left hne, cfB_dog_left hne, cfU_dog_left,
      cfA_dog_left hne]
  · intro h₁ h₂ hne
    rw [BOp.cfuse_fin_ok h₁ h₂ (fun h => hne h.1), cfB_dog_right hne, cfB_dog_right hne, cfU_dog_right,
      cfA_dog_right hne]
  · intro h₁ h₂
    rw [BOp.cfuse_fin_ok h₁ h₂ (by simp), cfB_vac_left, cfU_vac_left, cfA_vac_vac]

/-! ### 4. the error of `cfuse` -/

/-- on well-formed operands `cfuse` reports an error instead of a value iff BOTH operands are (exactly)
    dogmatic — the label is that of the base rate (`0/0 = NaN` is rejected first) — and returns a value
    otherwise; in the error case the multinomial ACm of the converted operands is defined: it is the
    arithmetic mean of the two opinions, masses and base rate (no `ulps_eq!` shortcut in this arm, so no
    hypothesis on the base rates) -/
theorem C13_cfuse_err_iff (h₁ : BWF b₁ d₁ u₁ a₁) (h₂ : BWF b₂ d₂ u₂ a₂) :
    ((∃ l, BOp.cfuse (bop b₁ d₁ u₁ a₁ : BOp (XQ f)) (bop b₂ d₂ u₂ a₂) = .error l) ↔ (u₁ = 0 ∧ u₂ = 0)) ∧
    ((∃ w, BOp.cfuse (bop b₁ d₁ u₁ a₁ : BOp (XQ f)) (bop b₂ d₂ u₂ a₂) = .ok w) ↔ ¬ (u₁ = 0 ∧ u₂ = 0)) ∧
    ((u₁ = 0 ∧ u₂ = 0) →
      BOp.cfuse (bop b₁ d₁ u₁ a₁ : BOp (XQ f)) (bop b₂ d₂ u₂ a₂) = .error .ba ∧
      BOp.ofOpinion (fuse .acm false (BOp.toOpinion (bop b₁ d₁ u₁ a₁ : BOp (XQ f)))
          (BOp.toOpinion (bop b₂ d₂ u₂ a₂ : BOp (XQ f))))
        = bop ((b₁ + b₂) / 2) ((d₁ + d₂) / 2) 0 ((a₁ + a₂) / 2)) := by
  have hc : (u₁ = 0 ∧ u₂ = 0) →
      BOp.cfuse (bop b₁ d₁ u₁ a₁ : BOp (XQ f)) (bop b₂ d₂ u₂ a₂) = .error .ba := by
    rintro ⟨rfl, rfl⟩; exact BOp.cfuse_dogmatic_error _ _ _ _ _ _
  refine ⟨⟨?_, fun h => ⟨_, hc h⟩⟩, ⟨?_, fun h => ⟨_, BOp.cfuse_fin_ok h₁ h₂ h⟩⟩, fun h => ⟨hc h, ?_⟩⟩
  · rintro ⟨l, hl⟩
    by_contra h
    rw [BOp.cfuse_fin_ok h₁ h₂ h] at hl
    cases hl
  · rintro ⟨w, hw⟩ h
    rw [hc h] at hw
    cases hw
  · obtain ⟨rfl, rfl⟩ := h
    rw [ofOpinion_fuse (by decide) h₁ h₂]
    have hS : simplexQ f .acm (![b₁, d₁] : Fin 2 → ℚ) 0 ![b₂, d₂] 0 = (meanA ![b₁, d₁] ![b₂, d₂], 0) := by
      unfold simplexQ; rw [if_pos ⟨GDog_zero, GDog_zero⟩, dogB_zero]
    have hA : baseRateQ f .acm false (![a₁, 1 - a₁] : Fin 2 → ℚ) 0 ![a₂, 1 - a₂] 0
        = meanA ![a₁, 1 - a₁] ![a₂, 1 - a₂] := by
      unfold baseRateQ; simp only [Bool.false_eq_true, if_false]; rw [if_pos ⟨GDog_zero, GDog_zero⟩]
    rw [hS, hA]
    simp [meanA]

/-! ### 5. averaging and weighted fusion -/

/-- two (exactly) dogmatic operands, equal weights `γ = 1/2`: `afuse` and `wfuse` return the arithmetic
    mean of the two opinions, which is what the multinomial Avg / Wgh return on the converted operands
    (their both-dogmatic arm normalises by `s = (2-u₁-u₂)/2 = 1` and has no `ulps_eq!` shortcut: no
    hypothesis on the base rates) -/
theorem C13_two_dogmatic_mean (h₁ : BWF b₁ d₁ 0 a₁) (h₂ : BWF b₂ d₂ 0 a₂) :
    BOp.afuse (bop b₁ d₁ 0 a₁ : BOp (XQ f)) (bop b₂ d₂ 0 a₂) (XQ.fin (1 / 2))
      = .ok (bop ((b₁ + b₂) / 2) ((d₁ + d₂) / 2) 0 ((a₁ + a₂) / 2)) ∧
    BOp.wfuse (bop b₁ d₁ 0 a₁ : BOp (XQ f)) (bop b₂ d₂ 0 a₂) (XQ.fin (1 / 2))
      = .ok (bop ((b₁ + b₂) / 2) ((d₁ + d₂) / 2) 0 ((a₁ + a₂) / 2)) ∧
    (∀ op : FuseOp, op ≠ .ecm →
      BOp.ofOpinion (fuse op false (BOp.toOpinion (bop b₁ d₁ 0 a₁ : BOp (XQ f)))
          (BOp.toOpinion (bop b₂ d₂ 0 a₂ : BOp (XQ f))))
        = bop ((b₁ + b₂) / 2) ((d₁ + d₂) / 2) 0 ((a₁ + a₂) / 2)) := by
  have hd : GD f 0 ∧ GD f 0 := ⟨GD_zero, GD_zero⟩
  refine ⟨?_, ?_, ?_⟩
  · rw [BOp.afuse_fin_dog0 h₁ h₂ (by norm_num) (by norm_num), gmix_half, gmix_half, gmix_half]
  · rw [BOp.wfuse_fin_dog0 h₁ h₂ (by norm_num) (by norm_num), gmix_half, gmix_half, gmix_half]
  · intro op hop
    rw [ofOpinion_fuse hop h₁ h₂]
    have hS : simplexQ f op (![b₁, d₁] : Fin 2 → ℚ) 0 ![b₂, d₂] 0 = (meanA ![b₁, d₁] ![b₂, d₂], 0) := by
      unfold simplexQ; rw [if_pos ⟨GDog_zero, GDog_zero⟩, dogB_zero]
    have hA : baseRateQ f op false (![a₁, 1 - a₁] : Fin 2 → ℚ) 0 ![a₂, 1 - a₂] 0
        = meanA ![a₁, 1 - a₁] ![a₂, 1 - a₂] := by
      unfold baseRateQ; simp only [Bool.false_eq_true, if_false]; rw [if_pos ⟨GDog_zero, GDog_zero⟩]
    rw [hS, hA]
    simp [meanA]

/-- MAIN (averaging).  On well-formed operands with uncertainties outside the dogmatic band
    (`u = 0 ∨ ε < u`: the whole vacuous band is INCLUDED, Avg has no vacuity test in either family)
    `afuse` returns the multinomial averaging fusion of the converted operands, converted back:
    for EVERY weight argument `ga` (finite or not) when the operands are not both dogmatic (the argument
    is not used there), and for the weight `1/2` (the multinomial mean) when both are dogmatic. -/
theorem C13_afuse_eq_avg (h₁ : BWF b₁ d₁ u₁ a₁) (h₂ : BWF b₂ d₂ u₂ a₂)
    (p₁ : PlainD f u₁) (p₂ : PlainD f u₂) (ga : XQ f) (hγ : (u₁ = 0 ∧ u₂ = 0) → ga = XQ.fin (1 / 2)) :
    BOp.afuse (bop b₁ d₁ u₁ a₁ : BOp (XQ f)) (bop b₂ d₂ u₂ a₂) ga
      = .ok (BOp.ofOpinion (fuse .avg false (BOp.toOpinion (bop b₁ d₁ u₁ a₁ : BOp (XQ f)))
          (BOp.toOpinion (bop b₂ d₂ u₂ a₂ : BOp (XQ f))))) := by
  by_cases hd : u₁ = 0 ∧ u₂ = 0
  · rw [hγ hd]
    obtain ⟨rfl, rfl⟩ := hd
    obtain ⟨e, -, e'⟩ := C13_two_dogmatic_mean (f := f) h₁ h₂
    rw [e, e' .avg (by decide)]
  · have hd' : ¬ (GD f u₁ ∧ GD f u₂) := fun h =>
      hd ⟨(GD_iff_plainD p₁).mp h.1, (GD_iff_plainD p₂).mp h.2⟩
    rw [BOp.afuse_fin_formula h₁ h₂ hd', ofOpinion_fuse_avg_plainD h₁ h₂ p₁ p₂,
      idealS_avg _ _ hd, idealA_avg]
    rfl

/-- MAIN (weighted).  On well-formed operands with plain uncertainties `wfuse` returns the multinomial
    weighted fusion of the converted operands, converted back — in all three guard arms (both dogmatic
    with `γ = 1/2`; both vacuous; one dogmatic / one vacuous, where the formula degenerates to the clone)
    and in the formula arm. -/
theorem C13_wfuse_eq_wgh (h₁ : BWF b₁ d₁ u₁ a₁) (h₂ : BWF b₂ d₂ u₂ a₂)
    (p₁ : Plain f u₁) (p₂ : Plain f u₂) (ga : XQ f) (hγ : (u₁ = 0 ∧ u₂ = 0) → ga = XQ.fin (1 / 2)) :
    BOp.wfuse (bop b₁ d₁ u₁ a₁ : BOp (XQ f)) (bop b₂ d₂ u₂ a₂) ga
      = .ok (BOp.ofOpinion (fuse .wgh false (BOp.toOpinion (bop b₁ d₁ u₁ a₁ : BOp (XQ f)))
          (BOp.toOpinion (bop b₂ d₂ u₂ a₂ : BOp (XQ f))))) := by
  by_cases hd : u₁ = 0 ∧ u₂ = 0
  · rw [hγ hd]
    obtain ⟨rfl, rfl⟩ := hd
    obtain ⟨-, e, e'⟩ := C13_two_dogmatic_mean (f := f) h₁ h₂
    rw [e, e' .wgh (by decide)]
  have hd' : ¬ (GD f u₁ ∧ GD f u₂) := fun h =>
    hd ⟨(GD_iff_plain p₁).mp h.1, (GD_iff_plain p₂).mp h.2⟩
  by_cases hv : u₁ = 1 ∧ u₂ = 1
  · obtain ⟨rfl, rfl⟩ := hv
    rw [BOp.wfuse_fin_vac h₁ h₂ hd' ⟨GV_one, GV_one⟩, ofOpinion_fuse_plain (by decide) h₁ h₂ p₁ p₂,
      idealS_wgh_vac, idealA_wgh_vac]
    simp [meanA]
  · have hg' : ¬ (GV f u₁ ∧ GV f u₂) := fun h =>
      hv ⟨(GV_iff_plain p₁).mp h.1, (GV_iff_plain p₂).mp h.2⟩
    rw [BOp.wfuse_fin_formula h₁ h₂ hd' hg', ofOpinion_fuse_plain (by decide) h₁ h₂ p₁ p₂,
      idealS_wgh _ _ hd hv, idealA_wgh _ _ hd hv]
    simp only [wghB_eq_wfB, wghU_eq_wfU, wghA_eq_wfA]
    rfl

/-! ### 6. the vacuous band `[1-2ε, 1)` for cumulative fusion

The multinomial code treats an operand with `1-2ε ≤ u` as THE vacuous opinion (clone arm), the binomial
formulas keep it.  The belief masses and the uncertainty of the two results differ by at most `2ε` when
the other operand is not in the band (any other operand: plain, dogmatic, or in the dogmatic band), and
by at most `4ε` when both are in the band (the multinomial result is then the vacuous simplex).  The base
rate is NOT close in general (`C13_vacuous_band_base_rate_jump`).  Averaging fusion agrees exactly on the
band (`C13_afuse_eq_avg`). -/

/-- left operand in the vacuous band, ANY well-formed right operand -/
theorem C13_vacuous_band_within (h₁ : BWF b₁ d₁ u₁ a₁) (h₂ : BWF b₂ d₂ u₂ a₂) (hv : 1 - 2 * f.eps ≤ u₁) :
    ∃ b d u a b' d' u' a' : ℚ,
      BOp.cfuse (bop b₁ d₁ u₁ a₁ : BOp (XQ f)) (bop b₂ d₂ u₂ a₂) = .ok (bop b d u a) ∧
      BOp.ofOpinion (fuse .acm false (BOp.toOpinion (bop b₁ d₁ u₁ a₁ : BOp (XQ f)))
          (BOp.toOpinion (bop b₂ d₂ u₂ a₂ : BOp (XQ f)))) = bop b' d' u' a' ∧
      |b - b'| ≤ 4 * f.eps ∧ |d - d'| ≤ 4 * f.eps ∧ |u - u'| ≤ 4 * f.eps ∧
      (u₂ < 1 - 2 * f.eps →
        |b - b'| ≤ 2 * f.eps ∧ |d - d'| ≤ 2 * f.eps ∧ |u - u'| ≤ 2 * f.eps ∧
        b' = b₂ ∧ d' = d₂ ∧ u' = u₂ ∧ a' = a₂) := by
  have he := XQ.eps_pos f
  have hl := eps_lt f
  have v1 : GVac f u₁ := (GVac_iff (BWF.u_le_one h₁)).mpr hv
  have hnd : ¬ (u₁ = 0 ∧ u₂ = 0) := fun h => by linarith [h.1]
  have hc := BOp.cfuse_fin_ok (f := f) h₁ h₂ hnd
  have hm := ofOpinion_fuse (f := f) (op := .acm) (by decide) h₁ h₂
  rw [simplexQ_acm_vac_left _ _ u₂ v1, baseRateQ_acm_vac_left _ _ u₂ v1] at hm
  by_cases v2 : GVac f u₂
  · rw [if_pos v2, if_pos v2] at hm
    obtain ⟨k1, k2, k3⟩ := band_bound_vac h₁ h₂ hv v2.1
    exact ⟨_, _, _, _, _, _, _, _, hc, hm, k1, k2, k3, fun h => absurd v2.1 (not_le.mpr h)⟩
  · rw [if_neg v2, if_neg v2] at hm
    obtain ⟨k1, k2, k3⟩ := band_bound_clone h₁ h₂ hv
    refine ⟨_, _, _, _, _, _, _, _, hc, hm, ?_, ?_, ?_, fun _ => ⟨?_, ?_, ?_, ?_, ?_, ?_, ?_⟩⟩ <;>
      first | (simp; done) | (simp; linarith)

/-- right operand in the vacuous band, ANY well-formed left operand -/
theorem C13_vacuous_band_within_right (h₁ : BWF b₁ d₁ u₁ a₁) (h₂ : BWF b₂ d₂ u₂ a₂)
    (hv : 1 - 2 * f.eps ≤ u₂) :
    ∃ b d u a b' d' u' a' : ℚ,
      BOp.cfuse (bop b₁ d₁ u₁ a₁ : BOp (XQ f)) (bop b₂ d₂ u₂ a₂) = .ok (bop b d u a) ∧
      BOp.ofOpinion (fuse .acm false (BOp.toOpinion (bop b₁ d₁ u₁ a₁ : BOp (XQ f)))
          (BOp.toOpinion (bop b₂ d₂ u₂ a₂ : BOp (XQ f)))) = bop b' d' u' a' ∧
      |b - b'| ≤ 4 * f.eps ∧ |d - d'| ≤ 4 * f.eps ∧ |u - u'| ≤ 4 * f.eps ∧
      (u₁ < 1 - 2 * f.eps →
        |b - b'| ≤ 2 * f.eps ∧ |d - d'| ≤ 2 * f.eps ∧ |u - u'| ≤ 2 * f.eps ∧
        b' = b₁ ∧ d' = d₁ ∧ u' = u₁ ∧ a' = a₁) := by
  have he := XQ.eps_pos f
  have hl := eps_lt f
  have v2 : GVac f u₂ := (GVac_iff (BWF.u_le_one h₂)).mpr hv
  have hnd : ¬ (u₁ = 0 ∧ u₂ = 0) := fun h => by linarith [h.2]
  have hc := BOp.cfuse_fin_ok (f := f) h₁ h₂ hnd
  have hm := ofOpinion_fuse (f := f) (op := .acm) (by decide) h₁ h₂
  rw [simplexQ_acm_vac_right _ _ u₁ v2, baseRateQ_acm_vac_right _ _ u₁ v2] at hm
  rw [cfB_comm b₁, cfB_comm d₁, cfU_comm u₁] at hc
  by_cases v1 : GVac f u₁
  · rw [if_pos v1, if_pos v1] at hm
    obtain ⟨k1, k2, k3⟩ := band_bound_vac h₂ h₁ hv v1.1
    exact ⟨_, _, _, _, _, _, _, _, hc, hm, k1, k2, k3, fun h => absurd v1.1 (not_le.mpr h)⟩
  · rw [if_neg v1, if_neg v1] at hm
    obtain ⟨k1, k2, k3⟩ := band_bound_clone h₂ h₁ hv
    refine ⟨_, _, _, _, _, _, _, _, hc, hm, ?_, ?_, ?_, fun _ => ⟨?_, ?_, ?_, ?_, ?_, ?_, ?_⟩⟩ <;>
      first | (simp; done) | (simp; linarith)

/-- FINDING (tolerance guard of the multinomial family × binomial formula).  In the vacuous band the
    fused BASE RATES of the two families are far apart: `u₁ = 1-2ε` (multinomial: treated as vacuous, the
    right operand's base rate `a₂ = 0` is returned), `u₂ = 1-3ε` (plain), `a₁ = 1`.  The binomial formula
    weighs `a₁ : a₂` as `u₂(1-u₁) : u₁(1-u₂) ≈ 2 : 3` and returns a base rate `≥ 1/3`.  Every format.
    (The masses and the uncertainty agree within `2ε`, `C13_vacuous_band_within`.) -/
theorem C13_vacuous_band_base_rate_jump (f : Fmt) :
    BWF (2 * f.eps) 0 (1 - 2 * f.eps) 1 ∧ BWF (3 * f.eps) 0 (1 - 3 * f.eps) 0 ∧
    Plain f (1 - 3 * f.eps) ∧ 1 - 2 * f.eps ≤ 1 - 2 * f.eps ∧
    ∃ b d u a b' d' u' : ℚ,
      BOp.cfuse (bop (2 * f.eps) 0 (1 - 2 * f.eps) 1 : BOp (XQ f)) (bop (3 * f.eps) 0 (1 - 3 * f.eps) 0)
        = .ok (bop b d u a) ∧ 1 / 3 ≤ a ∧
      BOp.ofOpinion (fuse .acm false (BOp.toOpinion (bop (2 * f.eps) 0 (1 - 2 * f.eps) 1 : BOp (XQ f)))
          (BOp.toOpinion (bop (3 * f.eps) 0 (1 - 3 * f.eps) 0 : BOp (XQ f)))) = bop b' d' u' 0 := by
  have he := XQ.eps_pos f
  have hl := eps_lt f
  have h₁ : BWF (2 * f.eps) 0 (1 - 2 * f.eps) 1 :=
    ⟨by linarith, le_refl _, by linarith, by ring, by norm_num, le_refl _⟩
  have h₂ : BWF (3 * f.eps) 0 (1 - 3 * f.eps) 0 :=
    ⟨by linarith, le_refl _, by linarith, by ring, le_refl _, by norm_num⟩
  have p₂ : Plain f (1 - 3 * f.eps) := Or.inr (Or.inr ⟨by linarith, by linarith⟩)
  obtain ⟨b, d, u, a, b', d', u', a', hc, hm, -, -, -, hcl⟩ :=
    C13_vacuous_band_within (f := f) h₁ h₂ (le_refl _)
  obtain ⟨-, -, -, -, -, -, ha'⟩ := hcl (by linarith)
  rw [ha'] at hm
  refine ⟨h₁, h₂, p₂, le_refl _, b, d, u, a, b', d', u', hc, ?_, hm⟩
  have hnd : ¬ ((1 : ℚ) - 2 * f.eps = 0 ∧ (1 : ℚ) - 3 * f.eps = 0) := fun h => by linarith [h.1]
  rw [BOp.cfuse_fin_ok h₁ h₂ hnd] at hc
  have ea : cfA f (1 - 2 * f.eps) 1 (1 - 3 * f.eps) 0 = a := by
    have := congrArg BOp.a (Except.ok.inj hc)
    simpa using this
  rw [← ea]
  have hg : ¬ (GV f (1 - 2 * f.eps) ∧ GV f (1 - 3 * f.eps)) := fun h => by linarith [h.2.1]
  unfold cfA
  rw [if_neg hg, le_div_iff₀ (by nlinarith)]
  nlinarith

/-- BOTH operands in the vacuous band `[1-2ε, 1]` (cumulative): both families take their both-vacuous
    guard arm for the base rate and return the MEAN `(a₁ + a₂)/2` — the base rates agree exactly on the
    whole both-vacuous band (contrast `C13_vacuous_band_base_rate_jump`, where only one operand is in the
    band), although the masses differ: the multinomial result is the vacuous simplex `(0, 0, 1)`, the
    binomial formula keeps masses up to `4ε` away from it. -/
theorem C13_both_vacuous_band_base_rate_cfuse (h₁ : BWF b₁ d₁ u₁ a₁) (h₂ : BWF b₂ d₂ u₂ a₂)
    (hv₁ : 1 - 2 * f.eps ≤ u₁) (hv₂ : 1 - 2 * f.eps ≤ u₂) :
    ∃ b d u b' d' u' : ℚ,
      BOp.cfuse (bop b₁ d₁ u₁ a₁ : BOp (XQ f)) (bop b₂ d₂ u₂ a₂) = .ok (bop b d u ((a₁ + a₂) / 2)) ∧
      BOp.ofOpinion (fuse .acm false (BOp.toOpinion (bop b₁ d₁ u₁ a₁ : BOp (XQ f)))
          (BOp.toOpinion (bop b₂ d₂ u₂ a₂ : BOp (XQ f)))) = bop b' d' u' ((a₁ + a₂) / 2) ∧
      b' = 0 ∧ d' = 0 ∧ u' = 1 ∧
      |b - b'| ≤ 4 * f.eps ∧ |d - d'| ≤ 4 * f.eps ∧ |u - u'| ≤ 4 * f.eps := by
  have hl := eps_lt f
  have v1 : GVac f u₁ := (GVac_iff (BWF.u_le_one h₁)).mpr hv₁
  have v2 : GVac f u₂ := (GVac_iff (BWF.u_le_one h₂)).mpr hv₂
  have hnd : ¬ (u₁ = 0 ∧ u₂ = 0) := fun h => by linarith [h.1]
  have hc := BOp.cfuse_fin_ok (f := f) h₁ h₂ hnd
  have ea : cfA f u₁ a₁ u₂ a₂ = (a₁ + a₂) / 2 := by
    unfold cfA; rw [if_pos ⟨v1, v2⟩]
  rw [ea] at hc
  have hm := ofOpinion_fuse (f := f) (op := .acm) (by decide) h₁ h₂
  rw [simplexQ_acm_vac_left _ _ u₂ v1, baseRateQ_acm_vac_left _ _ u₂ v1, if_pos v2, if_pos v2,
    short_eq (fun i h => by unfold meanA; rw [h]; ring)] at hm
  have em : meanA (![a₁, 1 - a₁] : Fin 2 → ℚ) ![a₂, 1 - a₂] 0 = (a₁ + a₂) / 2 := by simp [meanA]
  rw [em] at hm
  obtain ⟨k1, k2, k3⟩ := band_bound_vac h₁ h₂ hv₁ hv₂
  exact ⟨_, _, _, _, _, _, hc, hm, rfl, rfl, rfl, k1, k2, k3⟩

/-- BOTH operands in the vacuous band `[1-2ε, 1]` (weighted), ANY weight argument `ga` (it is only read in the
    both-dogmatic arm): both families take their both-vacuous guard arm and return the same opinion, the
    vacuous opinion `(0, 0, 1)` over the MEAN base rate `(a₁ + a₂)/2`.  Here the two families agree on the
    whole result, not only on the base rate. -/
theorem C13_both_vacuous_band_base_rate_wfuse (h₁ : BWF b₁ d₁ u₁ a₁) (h₂ : BWF b₂ d₂ u₂ a₂)
    (hv₁ : 1 - 2 * f.eps ≤ u₁) (hv₂ : 1 - 2 * f.eps ≤ u₂) (ga : XQ f) :
    BOp.wfuse (bop b₁ d₁ u₁ a₁ : BOp (XQ f)) (bop b₂ d₂ u₂ a₂) ga = .ok (bop 0 0 1 ((a₁ + a₂) / 2)) ∧
    BOp.ofOpinion (fuse .wgh false (BOp.toOpinion (bop b₁ d₁ u₁ a₁ : BOp (XQ f)))
        (BOp.toOpinion (bop b₂ d₂ u₂ a₂ : BOp (XQ f)))) = bop 0 0 1 ((a₁ + a₂) / 2) := by
  have hl := eps_lt f
  have v1 : GVac f u₁ := (GVac_iff (BWF.u_le_one h₁)).mpr hv₁
  have v2 : GVac f u₂ := (GVac_iff (BWF.u_le_one h₂)).mpr hv₂
  have nd1 : ¬ GDog f u₁ := fun d => d.not_GVac v1
  have hd' : ¬ (GD f u₁ ∧ GD f u₂) := fun h => nd1 h.1
  refine ⟨BOp.wfuse_fin_vac h₁ h₂ hd' ⟨v1, v2⟩ ga, ?_⟩
  rw [ofOpinion_fuse (by decide) h₁ h₂]
  have hS : simplexQ f .wgh (![b₁, d₁] : Fin 2 → ℚ) u₁ ![b₂, d₂] u₂ = (fun _ => 0, 1) := by
    unfold simplexQ; simp [nd1, v1, v2]
  have hA : baseRateQ f .wgh false (![a₁, 1 - a₁] : Fin 2 → ℚ) u₁ ![a₂, 1 - a₂] u₂
      = meanA ![a₁, 1 - a₁] ![a₂, 1 - a₂] := by
    unfold baseRateQ
    simp only [Bool.false_eq_true, if_false]
    rw [if_neg (fun h => nd1 h.1), if_pos ⟨v1, v2⟩,
      short_eq (fun i h => by unfold meanA; rw [h]; ring)]
  rw [hS, hA]
  simp [meanA]

/-! ### 7. the former counterexample of the `ulps_eq!` shortcut -/

/-- REPAIRED FINDING (formerly `C13_shortcut_differs`, the necessity of `hsc`).  Base rates `a₁ = 1/2`,
    `a₂ = 1/2 + ε/2` are `ulps_eq!` but different; operands `(1/2, 0, 1/2)` twice (plain, formula arm).  The binomial
    `cfuse` returns the base rate `1/2 + ε/4` (the weighted mean).  Before repair c8a7116 the multinomial ACm took
    the per-entry shortcut on `ulps_eq!` and returned `a₁ = 1/2`; now it returns the weighted mean as well and the
    two families agree, for every format. -/
theorem C13_shortcut_agrees (f : Fmt) :
    BWF (1/2) 0 (1/2) (1/2) ∧ BWF (1/2) 0 (1/2) (1/2 + f.eps / 2) ∧ Plain f (1/2) ∧
    XQ.ulpsEq (XQ.fin (1/2) : XQ f) (XQ.fin (1/2 + f.eps / 2)) = true ∧
    BOp.cfuse (bop (1/2) 0 (1/2) (1/2) : BOp (XQ f)) (bop (1/2) 0 (1/2) (1/2 + f.eps / 2))
      = .ok (bop (2/3) 0 (1/3) (1/2 + f.eps / 4)) ∧
    BOp.ofOpinion (fuse .acm false (BOp.toOpinion (bop (1/2) 0 (1/2) (1/2) : BOp (XQ f)))
        (BOp.toOpinion (bop (1/2) 0 (1/2) (1/2 + f.eps / 2) : BOp (XQ f))))
      = bop (2/3) 0 (1/3) (1/2 + f.eps / 4) := by
  have he := XQ.eps_pos f
  have hl := eps_lt f
  have h₁ : BWF (1/2) 0 (1/2) (1/2) := by constructor <;> norm_num
  have h₂ : BWF (1/2) 0 (1/2) (1/2 + f.eps / 2) :=
    ⟨by norm_num, le_refl _, by norm_num, by norm_num, by linarith, by linarith⟩
  have pl : Plain f (1/2) := Or.inr (Or.inr ⟨by linarith, by linarith⟩)
  have hul : XQ.ulpsEq (XQ.fin (1/2) : XQ f) (XQ.fin (1/2 + f.eps / 2)) = true := by
    have : XQ.absQ ((1/2 : ℚ) - (1/2 + f.eps / 2)) ≤ f.eps := by
      have e : (1/2 : ℚ) - (1/2 + f.eps / 2) = -(f.eps / 2) := by ring
      rw [e]; unfold XQ.absQ; split_ifs <;> linarith
    show (decide (XQ.absQ ((1/2 : ℚ) - (1/2 + f.eps / 2)) ≤ f.eps) || _) = true
    rw [Bool.or_eq_true]; left; exact decide_eq_true this
  have hnd : ¬ ((1/2 : ℚ) = 0 ∧ (1/2 : ℚ) = 0) := by norm_num
  have hg : ¬ (GV f (1/2) ∧ GV f (1/2)) := fun h => by linarith [h.1.1]
  have e1 : BOp.cfuse (bop (1/2) 0 (1/2) (1/2) : BOp (XQ f)) (bop (1/2) 0 (1/2) (1/2 + f.eps / 2))
      = .ok (bop (2/3) 0 (1/3) (1/2 + f.eps / 4)) := by
    rw [BOp.cfuse_fin_ok h₁ h₂ hnd]
    have ea : cfA f (1/2) (1/2) (1/2) (1/2 + f.eps / 2) = 1/2 + f.eps / 4 := by
      unfold cfA; rw [if_neg hg]; ring
    rw [ea]
    norm_num [cfB, cfU, kap]
  refine ⟨h₁, h₂, pl, hul, e1, ?_⟩
  have e := C13_cfuse_eq_acm (f := f) h₁ h₂ pl pl hnd
  rw [e1] at e
  exact (Except.ok.inj e).symm

/-! ### 8. non-vacuity -/

/-- all hypotheses of `C13_cfuse_eq_acm`, `C13_afuse_eq_avg`, `C13_wfuse_eq_wgh` hold for a non-trivial
    binary32 instance with DIFFERENT base rates `1/2` and `0`, uncertainties `1/4`, `1/2` -/
example :
    BWF (1/2) (1/4) (1/4) (1/2) ∧ BWF (1/8) (3/8) (1/2) 0 ∧ Plain Fmt.f32 (1/4) ∧ Plain Fmt.f32 (1/2) ∧
    PlainD Fmt.f32 (1/4) ∧ PlainD Fmt.f32 (1/2) ∧ ¬ ((1/4 : ℚ) = 0 ∧ (1/2 : ℚ) = 0) ∧
    (((1/4 : ℚ) = 0 ∧ (1/2 : ℚ) = 0) → (XQ.nan : XQ Fmt.f32) = XQ.fin (1/2)) := by
  have hl := eps_lt Fmt.f32
  have p1 : Plain Fmt.f32 (1/4) := Or.inr (Or.inr ⟨by linarith, by linarith⟩)
  have p2 : Plain Fmt.f32 (1/2) := Or.inr (Or.inr ⟨by linarith, by linarith⟩)
  refine ⟨by constructor <;> norm_num, by constructor <;> norm_num, p1, p2, p1.plainD, p2.plainD,
    by norm_num, fun h => absurd h.1 (by norm_num)⟩

/-- … and the three results on that instance, computed (binary32): the two families agree -/
example :
    BOp.cfuse (bop (1/2) (1/4) (1/4) (1/2) : BOp (XQ Fmt.f32)) (bop (1/8) (3/8) (1/2) 0)
      = .ok (bop (9/20) (7/20) (1/5) (3/8)) ∧
    BOp.ofOpinion (fuse .acm false (BOp.toOpinion (bop (1/2) (1/4) (1/4) (1/2) : BOp (XQ Fmt.f32)))
        (BOp.toOpinion (bop (1/8) (3/8) (1/2) 0 : BOp (XQ Fmt.f32)))) = bop (9/20) (7/20) (1/5) (3/8) := by
  have hl := eps_lt Fmt.f32
  have h₁ : BWF (1/2) (1/4) (1/4) (1/2) := by constructor <;> norm_num
  have h₂ : BWF (1/8) (3/8) (1/2) 0 := by constructor <;> norm_num
  have p1 : Plain Fmt.f32 (1/4) := Or.inr (Or.inr ⟨by linarith, by linarith⟩)
  have p2 : Plain Fmt.f32 (1/2) := Or.inr (Or.inr ⟨by linarith, by linarith⟩)
  have hv := (C13_cfuse_value h₁ h₂ p1 p2 (by norm_num)).1
  have e := C13_cfuse_eq_acm h₁ h₂ p1 p2 (by norm_num)
  rw [e, hv]
  norm_num

/-- every format, equal base rates, the corners: a dogmatic and a vacuous operand -/
example : BWF (1/2) (1/2) 0 (1/4) ∧ BWF 0 0 1 (1/4) ∧ Plain f 0 ∧ Plain f 1 ∧
    ¬ ((0 : ℚ) = 0 ∧ (1 : ℚ) = 0) :=
  ⟨by constructor <;> norm_num, by constructor <;> norm_num, Or.inl rfl, Or.inr (Or.inl rfl),
    by norm_num⟩

/-- two dogmatic operands (`C13_two_dogmatic_mean`, `C13_cfuse_err_iff`) -/
example : BWF (1/2) (1/2) 0 (1/4) ∧ BWF (1/4) (3/4) 0 (5/8) :=
  ⟨by constructor <;> norm_num, by constructor <;> norm_num⟩

/-- the vacuous band is inhabited by a non-vacuous well-formed operand (`C13_vacuous_band_within`) -/
example : BWF f.eps 0 (1 - f.eps) (1/4) ∧ 1 - 2 * f.eps ≤ 1 - f.eps ∧ 1 - f.eps < 1 := by
  have he := XQ.eps_pos f
  have := eps_lt f
  exact ⟨⟨he.le, le_refl _, by linarith, by ring, by norm_num, by norm_num⟩, by linarith, by linarith⟩

/-- the hypotheses of `C13_both_vacuous_band_base_rate_cfuse` / `_wfuse` hold for a binary32 pair with
    DIFFERENT base rates `1/4`, `3/4`, the left operand strictly inside the band and not vacuous
    (`b₁ = ε > 0`, `u₁ = 1-ε < 1`), the right operand vacuous; the common fused base rate is `1/2` -/
example :
    BWF Fmt.f32.eps 0 (1 - Fmt.f32.eps) (1/4) ∧ BWF 0 0 1 (3/4) ∧
    1 - 2 * Fmt.f32.eps ≤ 1 - Fmt.f32.eps ∧ 1 - 2 * Fmt.f32.eps ≤ (1 : ℚ) ∧
    1 - Fmt.f32.eps < 1 ∧ (0 : ℚ) < Fmt.f32.eps ∧ (1/4 : ℚ) ≠ 3/4 ∧ ((1/4 : ℚ) + 3/4) / 2 = 1/2 := by
  have he := XQ.eps_pos Fmt.f32
  have := eps_lt Fmt.f32
  exact ⟨⟨he.le, le_refl _, by linarith, by ring, by norm_num, by norm_num⟩,
    by constructor <;> norm_num, by linarith, by linarith, by linarith, he, by norm_num, by norm_num⟩

/-- … and the two theorems applied to that instance (binary32): both families return the base rate `1/2` -/
example :
    (∃ b d u b' d' u' : ℚ,
      BOp.cfuse (bop Fmt.f32.eps 0 (1 - Fmt.f32.eps) (1/4) : BOp (XQ Fmt.f32)) (bop 0 0 1 (3/4))
        = .ok (bop b d u (1/2)) ∧
      BOp.ofOpinion (fuse .acm false
          (BOp.toOpinion (bop Fmt.f32.eps 0 (1 - Fmt.f32.eps) (1/4) : BOp (XQ Fmt.f32)))
          (BOp.toOpinion (bop 0 0 1 (3/4) : BOp (XQ Fmt.f32)))) = bop b' d' u' (1/2)) ∧
    BOp.wfuse (bop Fmt.f32.eps 0 (1 - Fmt.f32.eps) (1/4) : BOp (XQ Fmt.f32)) (bop 0 0 1 (3/4))
        (XQ.fin (1/2)) = .ok (bop 0 0 1 (1/2)) := by
  have he := XQ.eps_pos Fmt.f32
  have := eps_lt Fmt.f32
  have h₁ : BWF Fmt.f32.eps 0 (1 - Fmt.f32.eps) (1/4) :=
    ⟨he.le, le_refl _, by linarith, by ring, by norm_num, by norm_num⟩
  have h₂ : BWF 0 0 1 (3/4) := by constructor <;> norm_num
  have e : ((1/4 : ℚ) + 3/4) / 2 = 1/2 := by norm_num
  obtain ⟨b, d, u, b', d', u', hc, hm, -⟩ :=
    C13_both_vacuous_band_base_rate_cfuse (f := Fmt.f32) h₁ h₂ (by linarith) (by linarith)
  have hw := (C13_both_vacuous_band_base_rate_wfuse (f := Fmt.f32) h₁ h₂ (by linarith) (by linarith)
    (XQ.fin (1/2))).1
  rw [e] at hc hm hw
  exact ⟨⟨b, d, u, b', d', u', hc, hm⟩, hw⟩

/-- an opinion satisfying the side condition of `C13_roundtrip_multinomial` (any scalar type) -/
example {α : Type} [Scalar α] (b d u a : α) :
    (⟨#v[b, d], u, #v[a, Scalar.one - a]⟩ : Opinion α 2).a[1]
      = Scalar.one - (⟨#v[b, d], u, #v[a, Scalar.one - a]⟩ : Opinion α 2).a[0] := rfl

end SLV.Props.C13
