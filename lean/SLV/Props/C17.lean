/-
  C17 — Multi-arrays store, iterate and index the same cells in the same order.
  Statements are about the executable model SLV/Model/MArr.lean (nested `Vec` storage, constructors with their
  panics as `none`, the `Iter` state machine) and relate it to a flat row-major list:
    abstraction  `flat1/2/3` (unlabelled), `flat? a.toU` (labelled, `toU` erases the wrappers),
    invariant    `Shape1/2/3` = "the storage has the declared shape" (all rows have the declared length).
  Helper lemmas: SLV/Refine/ArrLemmas{,2,..,8}.lean, ArrProg{1,2,3,U1,U2,U3,L1,L2,L3}.lean.  Ranks 1..3, both families, every shape, every cell content.
-/
import SLV.Refine.ArrProgU1
import SLV.Refine.ArrProgU2
import SLV.Refine.ArrProgU3
import SLV.Refine.ArrProgL1
import SLV.Refine.ArrProgL2
import SLV.Refine.ArrProgL3

namespace SLV.Props.C17
open SLV.MArr

variable {V : Type}

/-! ## indexing -/

/-- `index k` reads the cell at the row-major position of `k` when `k` is inside the shape (unlabelled) -/
theorem C17_index {k0 k1 k2 : Nat} :
    (∀ (a : MArr1 V) i, Shape1 k0 a → i < k0 →
        MArr1.index a i = (flat1 a)[pos [k0] [i]]? ∧ pos [k0] [i] < (flat1 a).length) ∧
    (∀ (a : MArr2 V) i j, Shape2 k0 k1 a → i < k0 → j < k1 →
        MArr2.index a i j = (flat2 a)[pos [k0, k1] [i, j]]? ∧ pos [k0, k1] [i, j] < (flat2 a).length) ∧
    (∀ (a : MArr3 V) i j k, Shape3 k0 k1 k2 a → i < k0 → j < k1 → k < k2 →
        MArr3.index a i j k = (flat3 a)[pos [k0, k1, k2] [i, j, k]]? ∧
          pos [k0, k1, k2] [i, j, k] < (flat3 a).length) := by
  refine ⟨fun a i h hi => ?_, fun a i j h hi hj => ?_, fun a i j k h hi hj hk => ?_⟩
  · simp only [pos1]; exact ⟨rfl, by rw [flat1_length h]; exact hi⟩
  · simp only [pos2]; exact ⟨U2.index_eq h i j hj, by rw [flat2_length h]; exact pos2_lt hi hj⟩
  · simp only [pos3]; exact ⟨U3.index_eq h i j k hj hk, by rw [flat3_length h]; exact pos3_lt hi hj hk⟩

/-- the same for the labelled family -/
theorem C17_index_labelled {d0 d1 d2 : Nat} :
    (∀ (a : MArrD1 V) i, Shape1 d0 a.toU → i < d0 →
        a.index i = (flat1 a.toU)[pos [d0] [i]]? ∧ pos [d0] [i] < (flat1 a.toU).length) ∧
    (∀ (a : MArrD2 V) i j, Shape2 d0 d1 a.toU → i < d0 → j < d1 →
        a.index i j = (flat2 a.toU)[pos [d0, d1] [i, j]]? ∧ pos [d0, d1] [i, j] < (flat2 a.toU).length) ∧
    (∀ (a : MArrD3 V) i j k, Shape3 d0 d1 d2 a.toU → i < d0 → j < d1 → k < d2 →
        a.index i j k = (flat3 a.toU)[pos [d0, d1, d2] [i, j, k]]? ∧
          pos [d0, d1, d2] [i, j, k] < (flat3 a.toU).length) := by
  obtain ⟨h1, h2, h3⟩ := C17_index (V := V) (k0 := d0) (k1 := d1) (k2 := d2)
  refine ⟨fun a i h hi => ?_, fun a i j h hi hj => ?_, fun a i j k h hi hj hk => ?_⟩
  · rw [L1.index_toU]; exact h1 _ i h hi
  · rw [L2.index_toU]; exact h2 _ i j h hi hj
  · rw [L3.index_toU]; exact h3 _ i j k h hi hj hk

/-- an index outside the shape is refused (`none` ≙ the `Vec` bounds panic) by `index` and `index_mut`:
    it is never aliased to another cell (both families) -/
theorem C17_oob_refused {k0 k1 k2 : Nat} (v : V) :
    (∀ (a : MArr1 V) i, Shape1 k0 a → ¬ i < k0 → MArr1.index a i = none ∧ MArr1.indexMut a i v = none) ∧
    (∀ (a : MArr2 V) i j, Shape2 k0 k1 a → ¬ (i < k0 ∧ j < k1) →
        MArr2.index a i j = none ∧ MArr2.indexMut a i j v = none) ∧
    (∀ (a : MArr3 V) i j k, Shape3 k0 k1 k2 a → ¬ (i < k0 ∧ j < k1 ∧ k < k2) →
        MArr3.index a i j k = none ∧ MArr3.indexMut a i j k v = none) ∧
    (∀ (a : MArrD1 V) i, Shape1 k0 a.toU → ¬ i < k0 → a.index i = none ∧ a.indexMut i v = none) ∧
    (∀ (a : MArrD2 V) i j, Shape2 k0 k1 a.toU → ¬ (i < k0 ∧ j < k1) →
        a.index i j = none ∧ a.indexMut i j v = none) ∧
    (∀ (a : MArrD3 V) i j k, Shape3 k0 k1 k2 a.toU → ¬ (i < k0 ∧ j < k1 ∧ k < k2) →
        a.index i j k = none ∧ a.indexMut i j k v = none) := by
  refine ⟨fun a i h hi => U1.oob h i hi v, fun a i j h hij => U2.oob h i j hij v,
    fun a i j k h hijk => U3.oob h i j k hijk v, fun a i h hi => ?_, fun a i j h hij => ?_,
    fun a i j k h hijk => ?_⟩
  · have := U1.oob h i hi v
    rw [← L1.index_toU, ← L1.indexMut_toU] at this
    exact ⟨this.1, by simpa using this.2⟩
  · have := U2.oob h i j hij v
    rw [← L2.index_toU, ← L2.indexMut_toU] at this
    exact ⟨this.1, by simpa using this.2⟩
  · have := U3.oob h i j k hijk v
    rw [← L3.index_toU, ← L3.indexMut_toU] at this
    exact ⟨this.1, by simpa using this.2⟩

/-- writing through `index_mut` inside the shape succeeds, keeps the shape and changes the flat list exactly at the
    row-major position of the index (`List.set`: every other cell is untouched) -/
theorem C17_write_frame {k0 k1 k2 : Nat} (v : V) :
    (∀ (a : MArr1 V) i, Shape1 k0 a → i < k0 →
        ∃ a', MArr1.indexMut a i v = some a' ∧ Shape1 k0 a' ∧ flat1 a' = (flat1 a).set (pos [k0] [i]) v) ∧
    (∀ (a : MArr2 V) i j, Shape2 k0 k1 a → i < k0 → j < k1 →
        ∃ a', MArr2.indexMut a i j v = some a' ∧ Shape2 k0 k1 a' ∧
          flat2 a' = (flat2 a).set (pos [k0, k1] [i, j]) v) ∧
    (∀ (a : MArr3 V) i j k, Shape3 k0 k1 k2 a → i < k0 → j < k1 → k < k2 →
        ∃ a', MArr3.indexMut a i j k v = some a' ∧ Shape3 k0 k1 k2 a' ∧
          flat3 a' = (flat3 a).set (pos [k0, k1, k2] [i, j, k]) v) := by
  refine ⟨fun a i h hi => ?_, fun a i j h hi hj => ?_, fun a i j k h hi hj hk => ?_⟩
  · simp only [pos1]; exact U1.write h i hi v
  · simp only [pos2]; exact U2.write h i j hi hj v
  · simp only [pos3]; exact U3.write h i j k hi hj hk v

theorem C17_write_frame_labelled {d0 d1 d2 : Nat} (v : V) :
    (∀ (a : MArrD1 V) i, Shape1 d0 a.toU → i < d0 →
        ∃ a', a.indexMut i v = some a' ∧ Shape1 d0 a'.toU ∧ flat1 a'.toU = (flat1 a.toU).set (pos [d0] [i]) v) ∧
    (∀ (a : MArrD2 V) i j, Shape2 d0 d1 a.toU → i < d0 → j < d1 →
        ∃ a', a.indexMut i j v = some a' ∧ Shape2 d0 d1 a'.toU ∧
          flat2 a'.toU = (flat2 a.toU).set (pos [d0, d1] [i, j]) v) ∧
    (∀ (a : MArrD3 V) i j k, Shape3 d0 d1 d2 a.toU → i < d0 → j < d1 → k < d2 →
        ∃ a', a.indexMut i j k v = some a' ∧ Shape3 d0 d1 d2 a'.toU ∧
          flat3 a'.toU = (flat3 a.toU).set (pos [d0, d1, d2] [i, j, k]) v) := by
  obtain ⟨h1, h2, h3⟩ := C17_write_frame (k0 := d0) (k1 := d1) (k2 := d2) v
  refine ⟨fun a i h hi => ?_, fun a i j h hi hj => ?_, fun a i j k h hi hj hk => ?_⟩
  · obtain ⟨u, hu, hs, hf⟩ := h1 _ i h hi
    rw [← L1.indexMut_toU] at hu
    cases hm : a.indexMut i v with
    | none => simp [hm] at hu
    | some a' => simp [hm] at hu; exact ⟨a', rfl, hu ▸ hs, hu ▸ hf⟩
  · obtain ⟨u, hu, hs, hf⟩ := h2 _ i j h hi hj
    rw [← L2.indexMut_toU] at hu
    cases hm : a.indexMut i j v with
    | none => simp [hm] at hu
    | some a' => simp [hm] at hu; exact ⟨a', rfl, hu ▸ hs, hu ▸ hf⟩
  · obtain ⟨u, hu, hs, hf⟩ := h3 _ i j k h hi hj hk
    rw [← L3.indexMut_toU] at hu
    cases hm : a.indexMut i j k v with
    | none => simp [hm] at hu
    | some a' => simp [hm] at hu; exact ⟨a', rfl, hu ▸ hs, hu ▸ hf⟩

/-! ## construction -/

/-- building from a flat sequence fills the cells in row-major order; ranks 2 and 3 need at least `∏ dims` items
    (extra items are ignored) and panic (`none`) when the iterator is short.  Unlabelled rank 1 stores whatever it is
    given (`MArr1::from_iter` does not check the length: the shape invariant holds iff the length is right). -/
theorem C17_from_iter {k0 k1 k2 : Nat} (l : List V) :
    (flat1 (MArr1.fromIter l) = l ∧ (Shape1 k0 (MArr1.fromIter l) ↔ l.length = k0)) ∧
    (k0 * k1 ≤ l.length →
        ∃ a, MArr2.fromIter k0 k1 l = some a ∧ Shape2 k0 k1 a ∧ flat2 a = l.take (k0 * k1)) ∧
    (l.length < k0 * k1 → MArr2.fromIter k0 k1 l = none) ∧
    (k0 * k1 * k2 ≤ l.length →
        ∃ a, MArr3.fromIter k0 k1 k2 l = some a ∧ Shape3 k0 k1 k2 a ∧ flat3 a = l.take (k0 * k1 * k2)) ∧
    (l.length < k0 * k1 * k2 → MArr3.fromIter k0 k1 k2 l = none) :=
  ⟨⟨rfl, Iff.rfl⟩, U2.fromIter_ok k0 k1 l, U2.fromIter_short k0 k1 l, U3.fromIter_ok k0 k1 k2 l,
    U3.fromIter_short k0 k1 k2 l⟩

/-- labelled: rank 1 needs exactly `D0::LEN` items (`new` asserts), ranks 2 and 3 drain `∏ dims` items and panic
    when fewer are available -/
theorem C17_from_iter_labelled {d0 d1 d2 : Nat} (l : List V) :
    (l.length = d0 → ∃ a, MArrD1.fromIter d0 l = some a ∧ Shape1 d0 a.toU ∧ flat1 a.toU = l) ∧
    (l.length ≠ d0 → MArrD1.fromIter d0 l = none) ∧
    (d0 * d1 ≤ l.length →
        ∃ a, MArrD2.fromIter d0 d1 l = some a ∧ Shape2 d0 d1 a.toU ∧ flat2 a.toU = l.take (d0 * d1)) ∧
    (l.length < d0 * d1 → MArrD2.fromIter d0 d1 l = none) ∧
    (d0 * d1 * d2 ≤ l.length →
        ∃ a, MArrD3.fromIter d0 d1 d2 l = some a ∧ Shape3 d0 d1 d2 a.toU ∧ flat3 a.toU = l.take (d0 * d1 * d2)) ∧
    (l.length < d0 * d1 * d2 → MArrD3.fromIter d0 d1 d2 l = none) := by
  refine ⟨fun h => ⟨⟨l⟩, by simp [MArrD1.fromIter, MArrD1.new, h], h, rfl⟩,
    fun h => by simp [MArrD1.fromIter, MArrD1.new, h],
    L2.fromIter_ok d0 d1 l, L2.fromIter_short d0 d1 l, L3.fromIter_ok d0 d1 d2 l, L3.fromIter_short d0 d1 d2 l⟩

/-- building from a function stores `f k` at index `k`: the flat list is `lexList dims` mapped by `f`
    (never panics) -/
theorem C17_from_fn {k0 k1 k2 : Nat} (f : List Nat → V) :
    (Shape1 k0 (MArr1.fromFn k0 f) ∧ flat1 (MArr1.fromFn k0 f) = (lexList [k0]).map f) ∧
    (∃ a, MArr2.fromFn k0 k1 f = some a ∧ Shape2 k0 k1 a ∧ flat2 a = (lexList [k0, k1]).map f) ∧
    (∃ a, MArr3.fromFn k0 k1 k2 f = some a ∧ Shape3 k0 k1 k2 a ∧ flat3 a = (lexList [k0, k1, k2]).map f) := by
  refine ⟨?_, ?_, ?_⟩
  · simp [MArr1.fromFn, MArr1.fromIter, toList_eq_lexList, Shape1, flat1, lexList_length]
  · have hl : ((lexList [k0, k1]).map f).length = k0 * k1 := by simp [lexList_length]
    obtain ⟨a, h1, h2, h3⟩ := U2.fromIter_ok k0 k1 ((lexList [k0, k1]).map f) (by omega)
    exact ⟨a, by rw [MArr2.fromFn, toList_eq_lexList, h1], h2, by rw [h3, ← hl, List.take_length]⟩
  · have hl : ((lexList [k0, k1, k2]).map f).length = k0 * k1 * k2 := by simp [lexList_length, Nat.mul_assoc]
    obtain ⟨a, h1, h2, h3⟩ := U3.fromIter_ok k0 k1 k2 ((lexList [k0, k1, k2]).map f) (by omega)
    exact ⟨a, by rw [MArr3.fromFn, toList_eq_lexList, h1], h2, by rw [h3, ← hl, List.take_length]⟩

theorem C17_from_fn_labelled {d0 d1 d2 : Nat} (f : List Nat → V) :
    (∃ a, MArrD1.fromFn d0 (fun i => f [i]) = some a ∧ Shape1 d0 a.toU ∧ flat1 a.toU = (lexList [d0]).map f) ∧
    (∃ a, MArrD2.fromFn d0 d1 (fun p => f [p.1, p.2]) = some a ∧ Shape2 d0 d1 a.toU ∧
        flat2 a.toU = (lexList [d0, d1]).map f) ∧
    (∃ a, MArrD3.fromFn d0 d1 d2 (fun p => f [p.1, p.2.1, p.2.2]) = some a ∧ Shape3 d0 d1 d2 a.toU ∧
        flat3 a.toU = (lexList [d0, d1, d2]).map f) := by
  obtain ⟨e1, e2, e3⟩ := keys_lex d0 d1 d2
  have m1 : (keys d0).map (fun i => f [i]) = (lexList [d0]).map f := by rw [← e1, List.map_map]; rfl
  have m2 : (keysD2 d0 d1).map (fun p => f [p.1, p.2]) = (lexList [d0, d1]).map f := by
    rw [← e2, List.map_map]; rfl
  have m3 : (keysD3 d0 d1 d2).map (fun p => f [p.1, p.2.1, p.2.2]) = (lexList [d0, d1, d2]).map f := by
    rw [← e3, List.map_map]; rfl
  refine ⟨?_, ?_, ?_⟩
  · have hl : ((lexList [d0]).map f).length = d0 := by simp [lexList_length]
    exact ⟨⟨(lexList [d0]).map f⟩, by simp [MArrD1.fromFn, m1, MArrD1.fromIter, MArrD1.new, hl], hl, rfl⟩
  · have hl : ((lexList [d0, d1]).map f).length = d0 * d1 := by simp [lexList_length]
    obtain ⟨a, h1, h2, h3⟩ := L2.fromIter_ok d0 d1 ((lexList [d0, d1]).map f) (by omega)
    exact ⟨a, by rw [MArrD2.fromFn, m2, h1], h2, by rw [h3, ← hl, List.take_length]⟩
  · have hl : ((lexList [d0, d1, d2]).map f).length = d0 * d1 * d2 := by simp [lexList_length, Nat.mul_assoc]
    obtain ⟨a, h1, h2, h3⟩ := L3.fromIter_ok d0 d1 d2 ((lexList [d0, d1, d2]).map f) (by omega)
    exact ⟨a, by rw [MArrD3.fromFn, m3, h1], h2, by rw [h3, ← hl, List.take_length]⟩

/-! ## iteration -/

/-- shared iteration is complete and fused: under the shape invariant the `Iter` state machine, driven until its
    first `None` (any fuel above the number of cells), yields exactly the flat list in row-major order, and every
    later `next()` is `None` (rank 1 is a slice iterator; ranks 2, 3 the flattening adaptor) -/
theorem C17_iter_complete {k0 k1 k2 : Nat} :
    (∀ (a : MArr1 V) fuel, a.length < fuel →
        ∃ s, drain SliceIter.next fuel (MArr1.iter a) = (flat1 a, s) ∧
          ∀ m, (nextN SliceIter.next m s).1 = List.replicate m none) ∧
    (∀ (a : MArr2 V) fuel, Shape2 k0 k1 a → k0 * k1 < fuel →
        ∃ s, drain MArr2.itNext fuel (MArr2.iter a) = (flat2 a, s) ∧
          ∀ m, (nextN MArr2.itNext m s).1 = List.replicate m none) ∧
    (∀ (a : MArr3 V) fuel, Shape3 k0 k1 k2 a → k0 * k1 * k2 < fuel →
        ∃ s, drain MArr3.itNext fuel (MArr3.iter a) = (flat3 a, s) ∧
          ∀ m, (nextN MArr3.itNext m s).1 = List.replicate m none) := by
  refine ⟨fun a fuel hf => sliceLL.complete (MArr1.iter a) trivial fuel hf, fun a fuel h hf => ?_,
    fun a fuel h hf => ?_⟩
  · obtain ⟨hg, hc⟩ := U2.iter_init h
    have := (U2.LL k1).complete (MArr2.iter a) hg fuel (by rw [hc, flat2_length h]; exact hf)
    rwa [hc] at this
  · obtain ⟨hg, hc⟩ := U3.iter_init h
    have := (U3.LL k1 k2).complete (MArr3.iter a) hg fuel (by rw [hc, flat3_length h]; exact hf)
    rwa [hc] at this

theorem C17_iter_complete_labelled {d0 d1 d2 : Nat} :
    (∀ (a : MArrD1 V) fuel, a.inner.length < fuel →
        ∃ s, drain SliceIter.next fuel a.iter = (flat1 a.toU, s) ∧
          ∀ m, (nextN SliceIter.next m s).1 = List.replicate m none) ∧
    (∀ (a : MArrD2 V) fuel, Shape2 d0 d1 a.toU → d0 * d1 < fuel →
        ∃ s, drain MArrD2.itNext fuel a.iter = (flat2 a.toU, s) ∧
          ∀ m, (nextN MArrD2.itNext m s).1 = List.replicate m none) ∧
    (∀ (a : MArrD3 V) fuel, Shape3 d0 d1 d2 a.toU → d0 * d1 * d2 < fuel →
        ∃ s, drain MArrD3.itNext fuel a.iter = (flat3 a.toU, s) ∧
          ∀ m, (nextN MArrD3.itNext m s).1 = List.replicate m none) := by
  refine ⟨fun a fuel hf => sliceLL.complete a.iter trivial fuel hf, fun a fuel h hf => ?_,
    fun a fuel h hf => ?_⟩
  · obtain ⟨hg, hc⟩ := L2.iter_init h
    have := (L2.LL d1).complete a.iter hg fuel (by rw [hc, flat2_length h]; exact hf)
    rwa [hc] at this
  · obtain ⟨hg, hc⟩ := L3.iter_init h
    have := (L3.LL d1 d2).complete a.iter hg fuel (by rw [hc, flat3_length h]; exact hf)
    rwa [hc] at this

/-- mutable iteration (`IterMut`, the same state machine over `&mut` cells; a reference is modelled by the storage
    address of its cell): the references come out in row-major order — the addresses are exactly `lexList dims` —
    and `for (p, x) in a.iter_mut().enumerate() { *x = g(p, *x) }` keeps the shape and maps `g` over the flat list
    by position: every cell is visited exactly once, in order, and nothing else changes -/
theorem C17_iter_mut (g : Nat → V → V) {d0 d1 d2 : Nat} :
    (∀ a : MArrD1 V, Shape1 d0 a.toU → a.iterMutRefs = lexList [d0] ∧
        Shape1 d0 (a.iterMutApply g).toU ∧ flat1 (a.iterMutApply g).toU = (flat1 a.toU).mapIdx g) ∧
    (∀ a : MArrD2 V, Shape2 d0 d1 a.toU → a.iterMutRefs = lexList [d0, d1] ∧
        Shape2 d0 d1 (a.iterMutApply g).toU ∧ flat2 (a.iterMutApply g).toU = (flat2 a.toU).mapIdx g) ∧
    (∀ a : MArrD3 V, Shape3 d0 d1 d2 a.toU → a.iterMutRefs = lexList [d0, d1, d2] ∧
        Shape3 d0 d1 d2 (a.iterMutApply g).toU ∧ flat3 (a.iterMutApply g).toU = (flat3 a.toU).mapIdx g) :=
  ⟨fun _ h => ⟨L1.refs h, L1.iterMutApply_ok g h⟩, fun _ h => ⟨L2.refs h, L2.iterMutApply_ok g h⟩,
   fun _ h => ⟨L3.refs h, L3.iterMutApply_ok g h⟩⟩

/-- Observation forced by the proof (outside the property: ragged rows can only be built through the unlabelled
    `MArr1::from_iter`, which does not check its length): with an empty row in the middle the adaptor returns `None`
    early and `Some` again afterwards — it is not fused on ragged storage. -/
theorem C17_ragged_observation :
    (nextN MArr2.itNext 5 (MArr2.iter [[1, 2], [], [5, 6]])).1 = [some 1, some 2, none, some 5, some 6] := by
  decide

/-- index-paired iteration (`Container::iter_with` = `indexes().map(|i| (i, &self[i]))`) pairs the k-th index of
    `lexList dims` with the k-th cell of the flat list; reading every index of `indexes()` gives the flat list
    (indexing order = iteration order) -/
theorem C17_iter_with {k0 k1 k2 : Nat} :
    (∀ a : MArr1 V, Shape1 k0 a →
        (MultiRange.toList [k0]).mapM (fun k => (U1.idx' a k).map fun v => (k, v)) = some ((lexList [k0]).zip (flat1 a)) ∧
        (MultiRange.toList [k0]).mapM (U1.idx' a) = some (flat1 a)) ∧
    (∀ a : MArr2 V, Shape2 k0 k1 a →
        (MultiRange.toList [k0, k1]).mapM (fun k => (U2.idx' a k).map fun v => (k, v))
          = some ((lexList [k0, k1]).zip (flat2 a)) ∧
        (MultiRange.toList [k0, k1]).mapM (U2.idx' a) = some (flat2 a)) ∧
    (∀ a : MArr3 V, Shape3 k0 k1 k2 a →
        (MultiRange.toList [k0, k1, k2]).mapM (fun k => (U3.idx' a k).map fun v => (k, v))
          = some ((lexList [k0, k1, k2]).zip (flat3 a)) ∧
        (MultiRange.toList [k0, k1, k2]).mapM (U3.idx' a) = some (flat3 a)) := by
  refine ⟨fun a h => ?_, fun a h => ?_, fun a h => ?_⟩ <;> simp only [toList_eq_lexList]
  · have hl : (lexList [k0]).length = (flat1 a).length := by rw [flat1_length h]; simp [lexList_length]
    exact ⟨iterWith_of _ _ _ hl (U1.idx_lex h), mapM_getElem _ _ _ hl (U1.idx_lex h)⟩
  · have hl : (lexList [k0, k1]).length = (flat2 a).length := by rw [flat2_length h]; simp [lexList_length]
    exact ⟨iterWith_of _ _ _ hl (U2.idx_lex h), mapM_getElem _ _ _ hl (U2.idx_lex h)⟩
  · have hl : (lexList [k0, k1, k2]).length = (flat3 a).length := by
      rw [flat3_length h]; simp [lexList_length, Nat.mul_assoc]
    exact ⟨iterWith_of _ _ _ hl (U3.idx_lex h), mapM_getElem _ _ _ hl (U3.idx_lex h)⟩

/-- the labelled family (its index enumeration is `iproduct!` of the axis keys = `lexList`, C18_labelled) -/
theorem C17_iter_with_labelled {d0 d1 d2 : Nat} :
    (∀ a : MArrD1 V, Shape1 d0 a.toU →
        ((keys d0).map fun i => [i]).mapM (fun k => (L1.idx' a k).map fun v => (k, v))
          = some ((lexList [d0]).zip (flat1 a.toU))) ∧
    (∀ a : MArrD2 V, Shape2 d0 d1 a.toU →
        ((keysD2 d0 d1).map fun p => [p.1, p.2]).mapM (fun k => (L2.idx' a k).map fun v => (k, v))
          = some ((lexList [d0, d1]).zip (flat2 a.toU))) ∧
    (∀ a : MArrD3 V, Shape3 d0 d1 d2 a.toU →
        ((keysD3 d0 d1 d2).map fun p => [p.1, p.2.1, p.2.2]).mapM (fun k => (L3.idx' a k).map fun v => (k, v))
          = some ((lexList [d0, d1, d2]).zip (flat3 a.toU))) := by
  obtain ⟨e1, e2, e3⟩ := keys_lex d0 d1 d2
  obtain ⟨h1, h2, h3⟩ := C17_iter_with (V := V) (k0 := d0) (k1 := d1) (k2 := d2)
  refine ⟨fun a h => ?_, fun a h => ?_, fun a h => ?_⟩
  · rw [e1, L1.idx'_toU]; have := (h1 _ h).1; rwa [toList_eq_lexList] at this
  · rw [e2, L2.idx'_toU]; have := (h2 _ h).1; rwa [toList_eq_lexList] at this
  · rw [e3, L3.idx'_toU]; have := (h3 _ h).1; rwa [toList_eq_lexList] at this

/-! ## sub-arrays, clone, equality, conversions -/

/-- `down(i)` is the i-th slice of the flat list (and has the sub-shape); `*down_mut(i) = sub` replaces exactly that
    slice; an `i` outside the first dimension is refused -/
theorem C17_down {d0 d1 d2 : Nat} :
    (∀ (a : MArrD2 V) i, Shape2 d0 d1 a.toU → i < d0 →
        ∃ r, a.down i = some r ∧ Shape1 d1 r.toU ∧ flat1 r.toU = ((flat2 a.toU).drop (i * d1)).take d1) ∧
    (∀ (a : MArrD3 V) i, Shape3 d0 d1 d2 a.toU → i < d0 →
        ∃ p, a.down i = some p ∧ Shape2 d1 d2 p.toU ∧
          flat2 p.toU = ((flat3 a.toU).drop (i * (d1 * d2))).take (d1 * d2)) ∧
    (∀ (a : MArrD2 V) i (sub : MArrD1 V), Shape2 d0 d1 a.toU → i < d0 → Shape1 d1 sub.toU →
        ∃ a', a.downMutSet i sub = some a' ∧ Shape2 d0 d1 a'.toU ∧
          flat2 a'.toU = (flat2 a.toU).take (i * d1) ++ flat1 sub.toU ++ (flat2 a.toU).drop ((i + 1) * d1)) ∧
    (∀ (a : MArrD3 V) i (sub : MArrD2 V), Shape3 d0 d1 d2 a.toU → i < d0 → Shape2 d1 d2 sub.toU →
        ∃ a', a.downMutSet i sub = some a' ∧ Shape3 d0 d1 d2 a'.toU ∧
          flat3 a'.toU = (flat3 a.toU).take (i * (d1 * d2)) ++ flat2 sub.toU ++
            (flat3 a.toU).drop ((i + 1) * (d1 * d2))) ∧
    (∀ (a : MArrD2 V) i sub, Shape2 d0 d1 a.toU → ¬ i < d0 → a.down i = none ∧ a.downMutSet i sub = none) ∧
    (∀ (a : MArrD3 V) i sub, Shape3 d0 d1 d2 a.toU → ¬ i < d0 → a.down i = none ∧ a.downMutSet i sub = none) :=
  ⟨fun _ i h hi => L2.down_ok h i hi, fun _ i h hi => L3.down_ok h i hi,
   fun _ i sub h hi hs => L2.downMutSet_ok h i hi sub hs, fun _ i sub h hi hs => L3.downMutSet_ok h i hi sub hs,
   fun _ i sub h hi => L2.down_oob h i hi sub, fun _ i sub h hi => L3.down_oob h i hi sub⟩

/-- a clone is equal to the original; `==` decides equality of the storage (for a lawful cell equality); two arrays
    of the same shape are equal iff their flat lists are equal.  (Unlabelled arrays: `derive(Clone, PartialEq)` on
    nested `Vec`s, i.e. the identity and list equality.) -/
theorem C17_clone_eq [BEq V] [LawfulBEq V] {k0 k1 k2 : Nat} :
    (∀ a : MArrD1 V, a.clone = a) ∧ (∀ a : MArrD2 V, a.clone = a) ∧ (∀ a : MArrD3 V, a.clone = a) ∧
    (∀ a b : MArrD1 V, (a == b) = true ↔ a = b) ∧ (∀ a b : MArrD2 V, (a == b) = true ↔ a = b) ∧
    (∀ a b : MArrD3 V, (a == b) = true ↔ a = b) ∧
    (∀ a b : MArr2 V, (a == b) = true ↔ a = b) ∧ (∀ a b : MArr3 V, (a == b) = true ↔ a = b) ∧
    (∀ a b : MArr2 V, Shape2 k0 k1 a → Shape2 k0 k1 b → (a = b ↔ flat2 a = flat2 b)) ∧
    (∀ a b : MArr3 V, Shape3 k0 k1 k2 a → Shape3 k0 k1 k2 b → (a = b ↔ flat3 a = flat3 b)) ∧
    (∀ a b : MArrD1 V, a = b ↔ flat1 a.toU = flat1 b.toU) ∧
    (∀ a b : MArrD2 V, Shape2 k0 k1 a.toU → Shape2 k0 k1 b.toU → (a = b ↔ flat2 a.toU = flat2 b.toU)) ∧
    (∀ a b : MArrD3 V, Shape3 k0 k1 k2 a.toU → Shape3 k0 k1 k2 b.toU → (a = b ↔ flat3 a.toU = flat3 b.toU)) := by
  refine ⟨L1.clone_eq, L2.clone_eq, L3.clone_eq, fun a b => beq_iff_eq, fun a b => beq_iff_eq,
    fun a b => beq_iff_eq, fun a b => beq_iff_eq, fun a b => beq_iff_eq,
    fun a b ha hb => ⟨fun h => h ▸ rfl, ha.eq_of_flat hb⟩, fun a b ha hb => ⟨fun h => h ▸ rfl, ha.eq_of_flat hb⟩,
    fun a b => ⟨fun h => h ▸ rfl, fun h => toU1_inj h⟩,
    fun a b ha hb => ⟨fun h => h ▸ rfl, fun h => toU2_inj (ha.eq_of_flat hb h)⟩,
    fun a b ha hb => ⟨fun h => h ▸ rfl, fun h => toU3_inj (ha.eq_of_flat hb h)⟩⟩

/-- domain conversion and reference views keep the cells and their order; zero/default construction yields the
    all-zero array of the declared shape (`default` is the same code path with `V::default()`) -/
theorem C17_conv_asref_zeros_default {k0 k1 k2 : Nat} (z : V) :
    (∀ a : MArrD1 V, a.conv = a) ∧
    (∀ a : MArrD1 V, Shape1 k0 a.toU → a.asRef k0 = some a) ∧
    (Shape1 k0 (MArr1.zeros z k0) ∧ flat1 (MArr1.zeros z k0) = List.replicate k0 z) ∧
    (Shape2 k0 k1 (MArr2.zeros z k0 k1) ∧ flat2 (MArr2.zeros z k0 k1) = List.replicate (k0 * k1) z) ∧
    (Shape3 k0 k1 k2 (MArr3.zeros z k0 k1 k2) ∧
      flat3 (MArr3.zeros z k0 k1 k2) = List.replicate (k0 * k1 * k2) z) ∧
    (∃ a, MArrD1.zeros z k0 = some a ∧ Shape1 k0 a.toU ∧ flat1 a.toU = List.replicate k0 z) ∧
    (∃ a, MArrD2.zeros z k0 k1 = some a ∧ Shape2 k0 k1 a.toU ∧ flat2 a.toU = List.replicate (k0 * k1) z) ∧
    (∃ a, MArrD3.zeros z k0 k1 k2 = some a ∧ Shape3 k0 k1 k2 a.toU ∧
      flat3 a.toU = List.replicate (k0 * k1 * k2) z) := by
  refine ⟨fun a => rfl, fun a h => ?_, U1.zeros_ok z k0, U2.zeros_ok z k0 k1, U3.zeros_ok z k0 k1 k2,
    L1.zeros_ok z k0, L2.zeros_ok z k0 k1, L3.zeros_ok z k0 k1 k2⟩
  obtain ⟨s, hs, _⟩ := sliceLL.complete a.iter trivial (a.inner.length + 1) (by simp [MArrD1.iter])
  have hl : a.inner.length = k0 := h
  unfold MArrD1.asRef
  rw [hs]
  simp [MArrD1.fromIter, MArrD1.new, MArrD1.iter, hl]

/-! ## outer products -/

/-- outer products: cell (i, j[, k]) holds `w0[i] * w1[j] [* w2[k]]`, row-major, for both families;
    `product2_iter` / `product3_iter` yield that same list -/
theorem C17_product (mul : V → V → V) (z : V) {d0 d1 d2 : Nat} :
    (∀ w0 w1 : List V, ∃ a, MArr2.product2 mul z w0 w1 = some a ∧ Shape2 w0.length w1.length a ∧
        flat2 a = w0.flatMap fun x => w1.map fun y => mul x y) ∧
    (∀ w0 w1 w2 : List V, ∃ a, MArr3.product3 mul z w0 w1 w2 = some a ∧
        Shape3 w0.length w1.length w2.length a ∧
        flat3 a = w0.flatMap fun x => w1.flatMap fun y => w2.map fun t => mul (mul x y) t) ∧
    (∀ w0 w1 : MArrD1 V, product2Iter mul w0 w1 = w0.inner.flatMap fun x => w1.inner.map fun y => mul x y) ∧
    (∀ w0 w1 w2 : MArrD1 V, product3Iter mul w0 w1 w2 =
        w0.inner.flatMap fun x => w1.inner.flatMap fun y => w2.inner.map fun t => mul (mul x y) t) ∧
    (∀ w0 w1 : MArrD1 V, Shape1 d0 w0.toU → Shape1 d1 w1.toU →
        ∃ a, MArrD2.product2 mul d0 d1 w0 w1 = some a ∧ Shape2 d0 d1 a.toU ∧
          flat2 a.toU = w0.inner.flatMap fun x => w1.inner.map fun y => mul x y) ∧
    (∀ w0 w1 w2 : MArrD1 V, Shape1 d0 w0.toU → Shape1 d1 w1.toU → Shape1 d2 w2.toU →
        ∃ a, MArrD3.product3 mul d0 d1 d2 w0 w1 w2 = some a ∧ Shape3 d0 d1 d2 a.toU ∧
          flat3 a.toU = w0.inner.flatMap fun x => w1.inner.flatMap fun y => w2.inner.map fun t => mul (mul x y) t) :=
  ⟨U2.product_ok mul z, U3.product_ok mul z, product2Iter_eq mul, product3Iter_eq mul,
   fun w0 w1 h0 h1 => L2.product_ok mul w0 w1 h0 h1, fun w0 w1 w2 h0 h1 h2 => L3.product_ok mul w0 w1 w2 h0 h1 h2⟩

/-! ## element-wise fallible conversion -/

/-- `TryFrom`: the reported error is the error of the first failing cell in row-major order (`errOf` of the result
    = `findSome?` over the flat input); when it succeeds every cell is the conversion of the input cell at the same
    place.  For the labelled family an input of the declared shape gives the unlabelled outcome (no panic). -/
theorem C17_try_from_first_error {T U E : Type} (cv : T → Except E U) {d0 d1 d2 : Nat} :
    (∀ v : List T, errOf (MArr1.tryFrom cv v) = (flat1 v).findSome? fun x => errOf (cv x)) ∧
    (∀ v : List (List T), errOf (MArr2.tryFrom cv v) = (flat2 v).findSome? fun x => errOf (cv x)) ∧
    (∀ v : List (List (List T)), errOf (MArr3.tryFrom cv v) = (flat3 v).findSome? fun x => errOf (cv x)) ∧
    (∀ (v : List T) a, MArr1.tryFrom cv v = .ok a → List.Forall₂ (fun x u => cv x = .ok u) v a) ∧
    (∀ (v : List (List T)) a, MArr2.tryFrom cv v = .ok a →
        List.Forall₂ (List.Forall₂ fun x u => cv x = .ok u) v a) ∧
    (∀ (v : List (List (List T))) a, MArr3.tryFrom cv v = .ok a →
        List.Forall₂ (List.Forall₂ (List.Forall₂ fun x u => cv x = .ok u)) v a) ∧
    (∀ v : List T, v.length = d0 → MArrD1.tryFrom cv d0 v = liftRes MArrD1.mk (MArr1.tryFrom cv v)) ∧
    (∀ v : List (List T), Shape2 d0 d1 v →
        MArrD2.tryFrom cv d0 d1 v = liftRes (fun a => ⟨⟨a.map MArrD1.mk⟩⟩) (MArr2.tryFrom cv v)) ∧
    (∀ v : List (List (List T)), Shape3 d0 d1 d2 v →
        MArrD3.tryFrom cv d0 d1 d2 v =
          liftRes (fun a => ⟨⟨a.map fun p => ⟨⟨p.map MArrD1.mk⟩⟩⟩⟩) (MArr3.tryFrom cv v)) :=
  ⟨tryCells_err cv, U2.tryFrom_err cv, U3.tryFrom_err cv, tryCells_ok cv, U2.tryFrom_ok cv, U3.tryFrom_ok cv,
   fun v hv => L1.tryFrom_shape cv d0 v hv, fun v hv => L2.tryFrom_shape cv d0 d1 v hv,
   fun v hv => L3.tryFrom_shape cv d0 d1 d2 v hv⟩

/-! ## labelled constructors never yield an array whose shape differs from its domains -/

theorem C17_labelled_shape {d0 d1 d2 : Nat} :
    (∀ (l : List V) a, MArrD1.new d0 l = some a → Shape1 d0 a.toU) ∧
    (∀ (l : List V) a, MArrD1.fromIter d0 l = some a → Shape1 d0 a.toU) ∧
    (∀ (rows : List (MArrD1 V)) a, (∀ r ∈ rows, Shape1 d1 r.toU) → MArrD2.new d0 rows = some a →
        Shape2 d0 d1 a.toU) ∧
    (∀ (ps : List (MArrD2 V)) a, (∀ p ∈ ps, Shape2 d1 d2 p.toU) → MArrD3.new d0 ps = some a →
        Shape3 d0 d1 d2 a.toU) ∧
    (∀ (l : List V) a, MArrD2.fromIter d0 d1 l = some a → Shape2 d0 d1 a.toU) ∧
    (∀ (l : List V) a, MArrD3.fromIter d0 d1 d2 l = some a → Shape3 d0 d1 d2 a.toU) ∧
    (∀ (it : List (List V)) a, MArrD2.fromMultiIter d0 d1 it = some a → Shape2 d0 d1 a.toU ∧ a.toU = it) ∧
    (∀ (it : List (List (List V))) a, MArrD3.fromMultiIter d0 d1 d2 it = some a →
        Shape3 d0 d1 d2 a.toU ∧ a.toU = it) ∧
    (∀ (f : Nat → V) a, MArrD1.fromFn d0 f = some a → Shape1 d0 a.toU) ∧
    (∀ (f : Nat × Nat → V) a, MArrD2.fromFn d0 d1 f = some a → Shape2 d0 d1 a.toU) ∧
    (∀ (f : Nat × Nat × Nat → V) a, MArrD3.fromFn d0 d1 d2 f = some a → Shape3 d0 d1 d2 a.toU) ∧
    (∀ (mul : V → V → V) w0 w1 a, MArrD2.product2 mul d0 d1 w0 w1 = some a → Shape2 d0 d1 a.toU) ∧
    (∀ (mul : V → V → V) w0 w1 w2 a, MArrD3.product3 mul d0 d1 d2 w0 w1 w2 = some a → Shape3 d0 d1 d2 a.toU) :=
  ⟨fun _ _ h => (L1.new_shape h).1, fun _ _ h => (L1.new_shape h).1, fun _ _ hr h => L2.new_shape hr h,
   fun _ _ hr h => L3.new_shape hr h, fun _ _ h => (L2.fromIter_shape h).1, fun _ _ h => (L3.fromIter_shape h).1,
   fun _ _ h => L2.fromMultiIter_shape h, fun _ _ h => L3.fromMultiIter_shape h,
   fun _ _ h => (L1.new_shape h).1, fun _ _ h => (L2.fromIter_shape h).1, fun _ _ h => (L3.fromIter_shape h).1,
   fun _ _ _ _ h => (L2.fromIter_shape h).1, fun _ _ _ _ _ h => (L3.fromIter_shape h).1⟩

/-! ## programs -/

/-- Every PROGRAM (list of ops of the harness' op language: build from function / flat / nested sequence, get, set via
    index_mut, iter_mut, down / down_mut, clone, ==, swap, conv, as_ref, zeros / default, product2/3(_iter), try_from,
    dumps by iteration / iter_with / indexing, indexes, keys, len) produces the same observation trace — the tokens
    printed after every step — on the nested model of the array kind selected by family / index type / shape
    (`runNested`: MArr1/2/3, MArrD1/2/3) and on the flat row-major specification (`runSpec`), provided no step builds
    ragged unlabelled storage (`Op.safe`: the only ops the specification refuses to describe are an unlabelled rank-1
    `from_iter` of the wrong length and an unlabelled nested literal with a wrong innermost row length — outside the
    property, see `C17_ragged_observation`).  Proof: per-op refinement (`Refines`, one instance per kind) and
    induction over the op list (`run_sim`). -/
theorem C17_programs (labelled newtype : Bool) (dims : List Nat) (prog : List Op)
    (hnt : labelled = false → newtype = false)
    (hsafe : ∀ op ∈ prog, op.safe (kindSpec labelled newtype dims)) :
    ∀ tr, runNested labelled newtype dims prog = some tr → tr = runSpec labelled newtype dims prog := by
  intro tr h
  cases labelled with
  | false =>
    have hn : newtype = false := hnt rfl
    subst hn
    match dims, h, hsafe with
    | [a], h, hsafe =>
      simp only [runNested, Option.some.injEq] at h; subst h
      exact run_sim (refinesU1 a) prog hsafe
    | [a, b], h, hsafe =>
      simp only [runNested, Option.some.injEq] at h; subst h
      exact run_sim (refinesU2 a b) prog hsafe
    | [a, b, c], h, hsafe =>
      simp only [runNested, Option.some.injEq] at h; subst h
      exact run_sim (refinesU3 a b c) prog hsafe
    | [], h, _ => simp [runNested] at h
    | _ :: _ :: _ :: _ :: _, h, _ => simp [runNested] at h
  | true =>
    match dims, h, hsafe with
    | [a], h, hsafe =>
      simp only [runNested, Option.some.injEq] at h; subst h
      exact run_sim (refinesL1 newtype a) prog hsafe
    | [a, b], h, hsafe =>
      simp only [runNested, Option.some.injEq] at h; subst h
      exact run_sim (refinesL2 newtype a b) prog hsafe
    | [a, b, c], h, hsafe =>
      simp only [runNested, Option.some.injEq] at h; subst h
      exact run_sim (refinesL3 newtype a b c) prog hsafe
    | [], h, _ => simp [runNested] at h
    | _ :: _ :: _ :: _ :: _, h, _ => simp [runNested] at h

/-- the model is defined for exactly the ranks the crate implements -/
theorem C17_programs_defined (labelled newtype : Bool) (dims : List Nat) (prog : List Op) :
    (runNested labelled newtype dims prog).isSome = true ↔ (1 ≤ dims.length ∧ dims.length ≤ 3) := by
  cases labelled <;>
  · match dims with
    | [] => simp [runNested]
    | [_] => simp [runNested]
    | [_, _] => simp [runNested]
    | [_, _, _] => simp [runNested]
    | _ :: _ :: _ :: _ :: _ => simp [runNested]

/-- non-vacuity: a concrete safe program on a 2 x 2 labelled (newtype index) array, with an out-of-shape read -/
example : runNested true true [2, 2] [.fn 1, .imadd 3, .get [1, 0], .get [0, 2], .down 1] =
    some (runSpec true true [2, 2] [.fn 1, .imadd 3, .get [1, 0], .get [0, 2], .down 1]) := by decide

end SLV.Props.C17
