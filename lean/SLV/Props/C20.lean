/-
  C20 — Comparisons.
  "Two binomial opinions compare equal - exactly, or under the absolute-difference, relative and ulps
   notions of approximate equality with any tolerance - precisely when their belief, disbelief,
   uncertainty and base rate all compare equal under that same notion.  Every such comparison is
   reflexive and symmetric, a difference beyond the tolerance in any single component makes the opinions
   unequal, and exact equality of multinomial simplexes and opinions likewise holds precisely when every
   belief mass, the uncertainty and every base rate are equal."

  All statements are about the executable model of SLV/Model/Eq.lean: `Cmp.bopCmp kind eps maxRel maxUlps`
  (src/bi.rs:379-423 and the derived `PartialEq`; kind 0 `==`, 1 `abs_diff_eq`, 2 `relative_eq`, 3 — and
  every larger number — `ulps_eq`), the scalar comparisons `Cmp.absDiffEq` / `Cmp.relativeEq` / `Cmp.ulpsEq`
  (approx-0.5.1) and the cell-wise `Cmp.tabEq` / `Cmp.simplexEq` / `Cmp.opinionEq`.

  * Parts 1, 2, 6, 7 (conjunction over the components, a single failing component) hold for ANY
    `[CmpScalar α]`, hence for the native `Float` / `Float32` instances too.
  * Parts 3, 4, 5 are at the exact semantics `XQ f`.  Symmetry (`C20_symm`) holds for all values,
    specials included, and all parameters.  Reflexivity needs hypotheses, both necessary:
      - the components must not be NaN (`C20_nan_not_refl`: IEEE `NaN == NaN` is false, and so is every
        approximate comparison with a NaN operand — `C20_nan_unequal`);
      - for `abs_diff_eq` and `ulps_eq` the tolerance must be non-negative (`C20_refl_neg_eps`:
        with `eps < 0`, `abs_diff_eq(x, x, eps)` is false).  `==` and `relative_eq` need nothing.
  * The bit-level clause of the native `ulps_eq` is symmetric too (`C20_ulpsWithin_float_symm`, pure
    Bool/Nat arithmetic over the opaque `isNaN`/`toBits`).  Symmetry of the native `==`, `abs_diff_eq`,
    `relative_eq` is NOT proved: `Float.sub`/`Float.abs`/`Float.le` are opaque here.
-/
import SLV.Refine.C20Lemmas

namespace SLV.Props.C20
open SLV Scalar

variable {f : Fmt}

/-- a binomial opinion with finite rational components -/
abbrev liftB (b d u a : ℚ) : BOp (XQ f) := ⟨XQ.fin b, XQ.fin d, XQ.fin u, XQ.fin a⟩
/-- a multinomial opinion with finite rational entries -/
abbrev liftO {n : Nat} (b : Fin n → ℚ) (u : ℚ) (a : Fin n → ℚ) : Opinion (XQ f) n :=
  ⟨liftT b, XQ.fin u, liftT a⟩
/-- a simplex with finite rational entries -/
abbrev liftSx {n : Nat} (b : Fin n → ℚ) (u : ℚ) : Simplex (XQ f) n := ⟨liftT b, XQ.fin u⟩

/-! ## 1–2. binomial opinions: the conjunction over b, d, u AND a -/

section generic
variable {α : Type} [CmpScalar α]

/-- Two binomial opinions compare equal under a notion (any kind, any tolerances) iff all FOUR components —
    belief, disbelief, uncertainty and base rate — do.  Near-definitional: `bopCmp` is the `&&` of the four
    scalar comparisons, so this is `Bool.and_eq_true` three times; the content is that the model (which
    mirrors src/bi.rs:379-423) includes the base rate. -/
theorem C20_bop_iff (kind : Nat) (eps maxRel : α) (maxUlps : Nat) (x y : BOp α) :
    Cmp.bopCmp kind eps maxRel maxUlps x y = true ↔
      Cmp.scalarCmp kind eps maxRel maxUlps x.b y.b = true ∧
      Cmp.scalarCmp kind eps maxRel maxUlps x.d y.d = true ∧
      Cmp.scalarCmp kind eps maxRel maxUlps x.u y.u = true ∧
      Cmp.scalarCmp kind eps maxRel maxUlps x.a y.a = true := by
  simp only [Cmp.bopCmp, Bool.and_eq_true, and_assoc]

/-- the four instances of `C20_bop_iff`, spelled out per notion -/
theorem C20_bop_eq_iff (eps maxRel : α) (maxUlps : Nat) (x y : BOp α) :
    Cmp.bopCmp 0 eps maxRel maxUlps x y = true ↔
      Scalar.eq x.b y.b = true ∧ Scalar.eq x.d y.d = true ∧
      Scalar.eq x.u y.u = true ∧ Scalar.eq x.a y.a = true :=
  C20_bop_iff 0 eps maxRel maxUlps x y

theorem C20_bop_absDiff_iff (eps maxRel : α) (maxUlps : Nat) (x y : BOp α) :
    Cmp.bopCmp 1 eps maxRel maxUlps x y = true ↔
      Cmp.absDiffEq x.b y.b eps = true ∧ Cmp.absDiffEq x.d y.d eps = true ∧
      Cmp.absDiffEq x.u y.u eps = true ∧ Cmp.absDiffEq x.a y.a eps = true :=
  C20_bop_iff 1 eps maxRel maxUlps x y

theorem C20_bop_relative_iff (eps maxRel : α) (maxUlps : Nat) (x y : BOp α) :
    Cmp.bopCmp 2 eps maxRel maxUlps x y = true ↔
      Cmp.relativeEq x.b y.b eps maxRel = true ∧ Cmp.relativeEq x.d y.d eps maxRel = true ∧
      Cmp.relativeEq x.u y.u eps maxRel = true ∧ Cmp.relativeEq x.a y.a eps maxRel = true :=
  C20_bop_iff 2 eps maxRel maxUlps x y

theorem C20_bop_ulps_iff (eps maxRel : α) (maxUlps : Nat) (x y : BOp α) :
    Cmp.bopCmp 3 eps maxRel maxUlps x y = true ↔
      Cmp.ulpsEq x.b y.b eps maxUlps = true ∧ Cmp.ulpsEq x.d y.d eps maxUlps = true ∧
      Cmp.ulpsEq x.u y.u eps maxUlps = true ∧ Cmp.ulpsEq x.a y.a eps maxUlps = true :=
  C20_bop_iff 3 eps maxRel maxUlps x y

/-- One failing component — belief, disbelief, uncertainty or base rate — makes the opinions unequal. -/
theorem C20_single_component (kind : Nat) (eps maxRel : α) (maxUlps : Nat) (x y : BOp α)
    (h : Cmp.scalarCmp kind eps maxRel maxUlps x.b y.b = false ∨
         Cmp.scalarCmp kind eps maxRel maxUlps x.d y.d = false ∨
         Cmp.scalarCmp kind eps maxRel maxUlps x.u y.u = false ∨
         Cmp.scalarCmp kind eps maxRel maxUlps x.a y.a = false) :
    Cmp.bopCmp kind eps maxRel maxUlps x y = false := by
  rw [← Bool.not_eq_true, C20_bop_iff]
  rintro ⟨hb, hd, hu, ha⟩
  rcases h with h | h | h | h
  · rw [hb] at h; exact Bool.noConfusion h
  · rw [hd] at h; exact Bool.noConfusion h
  · rw [hu] at h; exact Bool.noConfusion h
  · rw [ha] at h; exact Bool.noConfusion h

/-- in particular the base rate alone decides against equality -/
theorem C20_base_rate_component (kind : Nat) (eps maxRel : α) (maxUlps : Nat) (x y : BOp α)
    (h : Cmp.scalarCmp kind eps maxRel maxUlps x.a y.a = false) :
    Cmp.bopCmp kind eps maxRel maxUlps x y = false :=
  C20_single_component kind eps maxRel maxUlps x y (Or.inr (Or.inr (Or.inr h)))

/-- and conversely: unequal opinions differ (under that notion) in at least one component -/
theorem C20_unequal_iff (kind : Nat) (eps maxRel : α) (maxUlps : Nat) (x y : BOp α) :
    Cmp.bopCmp kind eps maxRel maxUlps x y = false ↔
      (Cmp.scalarCmp kind eps maxRel maxUlps x.b y.b = false ∨
       Cmp.scalarCmp kind eps maxRel maxUlps x.d y.d = false ∨
       Cmp.scalarCmp kind eps maxRel maxUlps x.u y.u = false ∨
       Cmp.scalarCmp kind eps maxRel maxUlps x.a y.a = false) := by
  refine ⟨fun h => ?_, C20_single_component kind eps maxRel maxUlps x y⟩
  simp only [Cmp.bopCmp, Bool.and_eq_false_iff] at h
  tauto

end generic

/-! ## 3. the scalar comparisons at the exact semantics, finite values -/

/-- `==` -/
theorem C20_eq_fin (a b : ℚ) : Scalar.eq (XQ.fin a : XQ f) (XQ.fin b) = decide (a = b) := rfl

/-- `abs_diff_eq(a, b, e)` is `|a - b| ≤ e` -/
theorem C20_absDiffEq_fin (a b e : ℚ) :
    Cmp.absDiffEq (XQ.fin a : XQ f) (XQ.fin b) (XQ.fin e) = decide (|a - b| ≤ e) :=
  Cmp.absDiffEq_fin a b e

/-- `relative_eq(a, b, e, r)` is `a = b ∨ |a - b| ≤ e ∨ |a - b| ≤ max |a| |b| · r` -/
theorem C20_relativeEq_fin (a b e r : ℚ) :
    Cmp.relativeEq (XQ.fin a : XQ f) (XQ.fin b) (XQ.fin e) (XQ.fin r)
      = decide (a = b ∨ |a - b| ≤ e ∨ |a - b| ≤ max |a| |b| * r) :=
  Cmp.relativeEq_fin a b e r

/-- `ulps_eq(a, b, e, k)` is `|a - b| ≤ e`, or same sign and at most `k` representable steps apart -/
theorem C20_ulpsEq_fin (a b e : ℚ) (k : Nat) :
    Cmp.ulpsEq (XQ.fin a : XQ f) (XQ.fin b) (XQ.fin e) k
      = (decide (|a - b| ≤ e)
          || (decide ((0 ≤ a) ↔ (0 ≤ b)) && decide (|ulpIdx f a - ulpIdx f b| ≤ (k : ℚ)))) :=
  Cmp.ulpsEq_fin a b e k

/-- binomial opinions with finite components: exact equality is equality of the rational data -/
theorem C20_bop_eq_fin (eps maxRel : XQ f) (k : Nat) (b d u a b' d' u' a' : ℚ) :
    Cmp.bopCmp 0 eps maxRel k (liftB b d u a) (liftB b' d' u' a') = true ↔
      b = b' ∧ d = d' ∧ u = u' ∧ a = a' := by
  rw [C20_bop_eq_iff]
  simp only [XQ.eq_fin, decide_eq_true_eq]

/-- binomial opinions with finite components: `abs_diff_eq` is `|·| ≤ e` in all four components -/
theorem C20_bop_absDiff_fin (e : ℚ) (maxRel : XQ f) (k : Nat) (b d u a b' d' u' a' : ℚ) :
    Cmp.bopCmp 1 (XQ.fin e) maxRel k (liftB b d u a) (liftB b' d' u' a') = true ↔
      |b - b'| ≤ e ∧ |d - d'| ≤ e ∧ |u - u'| ≤ e ∧ |a - a'| ≤ e := by
  rw [C20_bop_absDiff_iff]
  simp only [Cmp.absDiffEq_fin, decide_eq_true_eq]

/-- A difference beyond the tolerance in any single component (base rate included) makes the opinions
    `abs_diff`-unequal. -/
theorem C20_beyond_tolerance (e : ℚ) (maxRel : XQ f) (k : Nat) (b d u a b' d' u' a' : ℚ)
    (h : e < |b - b'| ∨ e < |d - d'| ∨ e < |u - u'| ∨ e < |a - a'|) :
    Cmp.bopCmp 1 (XQ.fin e) maxRel k (liftB b d u a) (liftB b' d' u' a') = false := by
  rw [← Bool.not_eq_true, C20_bop_absDiff_fin]
  rintro ⟨hb, hd, hu, ha⟩
  rcases h with h | h | h | h <;> linarith

/-- beyond the tolerance for `relative_eq`: different, farther apart than `e` and than `max |a| |b| · r` -/
theorem C20_relativeEq_beyond (a b e r : ℚ) (hne : a ≠ b) (he : e < |a - b|)
    (hr : max |a| |b| * r < |a - b|) :
    Cmp.relativeEq (XQ.fin a : XQ f) (XQ.fin b) (XQ.fin e) (XQ.fin r) = false := by
  rw [C20_relativeEq_fin, decide_eq_false_iff_not]
  rintro (h | h | h)
  · exact hne h
  · linarith
  · linarith

/-- … and such a pair in one component makes the opinions `relative`-unequal -/
theorem C20_beyond_tolerance_rel (e r : ℚ) (k : Nat) (x y : BOp (XQ f)) (p q : ℚ)
    (hc : (x.b = XQ.fin p ∧ y.b = XQ.fin q) ∨ (x.d = XQ.fin p ∧ y.d = XQ.fin q) ∨
          (x.u = XQ.fin p ∧ y.u = XQ.fin q) ∨ (x.a = XQ.fin p ∧ y.a = XQ.fin q))
    (hne : p ≠ q) (he : e < |p - q|) (hr : max |p| |q| * r < |p - q|) :
    Cmp.bopCmp 2 (XQ.fin e) (XQ.fin r) k x y = false := by
  have hs : Cmp.scalarCmp 2 (XQ.fin e) (XQ.fin r) k (XQ.fin p : XQ f) (XQ.fin q) = false :=
    C20_relativeEq_beyond p q e r hne he hr
  apply C20_single_component
  rcases hc with ⟨h1, h2⟩ | ⟨h1, h2⟩ | ⟨h1, h2⟩ | ⟨h1, h2⟩
  · left; rw [h1, h2]; exact hs
  · right; left; rw [h1, h2]; exact hs
  · right; right; left; rw [h1, h2]; exact hs
  · right; right; right; rw [h1, h2]; exact hs

/-- beyond the tolerance for `ulps_eq`: farther apart than `e`, and of different sign or more than `k`
    representable steps apart -/
theorem C20_ulpsEq_beyond (a b e : ℚ) (k : Nat) (he : e < |a - b|)
    (hk : ¬ ((0 ≤ a) ↔ (0 ≤ b)) ∨ (k : ℚ) < |ulpIdx f a - ulpIdx f b|) :
    Cmp.ulpsEq (XQ.fin a : XQ f) (XQ.fin b) (XQ.fin e) k = false := by
  rw [C20_ulpsEq_fin]
  have h1 : decide (|a - b| ≤ e) = false := decide_eq_false (not_le.mpr he)
  rw [h1, Bool.false_or, Bool.and_eq_false_iff]
  rcases hk with hk | hk
  · left; exact decide_eq_false hk
  · right; exact decide_eq_false (not_le.mpr hk)

/-! ## 4. reflexivity -/

/-- every comparison holds between a finite scalar and itself (tolerance `e ≥ 0`; any `maxRel`, any `k`) -/
theorem C20_scalar_refl (kind : Nat) (e : ℚ) (he : 0 ≤ e) (maxRel : XQ f) (k : Nat) (a : ℚ) :
    Cmp.scalarCmp kind (XQ.fin e) maxRel k (XQ.fin a : XQ f) (XQ.fin a) = true :=
  Cmp.scalarCmp_refl_fin kind e he maxRel k a

/-- Reflexivity: an opinion with finite components equals itself under every notion, for every
    non-negative tolerance `eps`, every `max_relative` (special values included) and every `max_ulps`. -/
theorem C20_refl (kind : Nat) (e : ℚ) (he : 0 ≤ e) (maxRel : XQ f) (k : Nat) (b d u a : ℚ) :
    Cmp.bopCmp kind (XQ.fin e) maxRel k (liftB b d u a) (liftB b d u a) = true := by
  rw [C20_bop_iff]
  exact ⟨C20_scalar_refl kind e he maxRel k b, C20_scalar_refl kind e he maxRel k d,
    C20_scalar_refl kind e he maxRel k u, C20_scalar_refl kind e he maxRel k a⟩

/-- `==` and `relative_eq` are reflexive on finite opinions whatever the tolerances are -/
theorem C20_refl_eq (eps maxRel : XQ f) (k : Nat) (b d u a : ℚ) :
    Cmp.bopCmp 0 eps maxRel k (liftB b d u a) (liftB b d u a) = true := by
  rw [C20_bop_eq_fin]; exact ⟨rfl, rfl, rfl, rfl⟩

theorem C20_refl_relative (eps maxRel : XQ f) (k : Nat) (b d u a : ℚ) :
    Cmp.bopCmp 2 eps maxRel k (liftB b d u a) (liftB b d u a) = true := by
  rw [C20_bop_relative_iff]
  simp [Cmp.relativeEq]

/-- the hypothesis `0 ≤ e` of `C20_refl` is necessary for `abs_diff_eq`: a negative tolerance makes even
    `x` and `x` unequal -/
theorem C20_refl_neg_eps (e : ℚ) (he : e < 0) (maxRel : XQ f) (k : Nat) (b d u a : ℚ) :
    Cmp.bopCmp 1 (XQ.fin e) maxRel k (liftB b d u a) (liftB b d u a) = false := by
  apply C20_beyond_tolerance
  left; simpa using he

/-- IEEE: `NaN == NaN` is false -/
theorem C20_nan_ne_nan : Scalar.eq (XQ.nan : XQ f) XQ.nan = false := rfl

/-- a NaN operand makes every scalar comparison false -/
theorem C20_scalar_nan (kind : Nat) (eps maxRel : XQ f) (k : Nat) (z : XQ f) :
    Cmp.scalarCmp kind eps maxRel k (XQ.nan : XQ f) z = false ∧
    Cmp.scalarCmp kind eps maxRel k z (XQ.nan : XQ f) = false :=
  ⟨Cmp.scalarCmp_nan_left kind eps maxRel k z, Cmp.scalarCmp_nan_right kind eps maxRel k z⟩

/-- an opinion with a NaN component is unequal to every opinion, under every notion and tolerance -/
theorem C20_nan_unequal (kind : Nat) (eps maxRel : XQ f) (k : Nat) (x y : BOp (XQ f))
    (h : x.b = XQ.nan ∨ x.d = XQ.nan ∨ x.u = XQ.nan ∨ x.a = XQ.nan) :
    Cmp.bopCmp kind eps maxRel k x y = false := by
  apply C20_single_component
  rcases h with h | h | h | h
  · left; rw [h]; exact Cmp.scalarCmp_nan_left ..
  · right; left; rw [h]; exact Cmp.scalarCmp_nan_left ..
  · right; right; left; rw [h]; exact Cmp.scalarCmp_nan_left ..
  · right; right; right; rw [h]; exact Cmp.scalarCmp_nan_left ..

/-- … in particular to itself: reflexivity fails outside the finite (non-NaN) opinions -/
theorem C20_nan_not_refl (kind : Nat) (eps maxRel : XQ f) (k : Nat) (x : BOp (XQ f))
    (h : x.b = XQ.nan ∨ x.d = XQ.nan ∨ x.u = XQ.nan ∨ x.a = XQ.nan) :
    Cmp.bopCmp kind eps maxRel k x x = false :=
  C20_nan_unequal kind eps maxRel k x x h

/-! ## 5. symmetry -/

/-- every scalar comparison is symmetric, for all values (infinities and NaN included) and all parameters -/
theorem C20_scalar_symm (kind : Nat) (eps maxRel : XQ f) (k : Nat) (a b : XQ f) :
    Cmp.scalarCmp kind eps maxRel k a b = Cmp.scalarCmp kind eps maxRel k b a :=
  Cmp.scalarCmp_symm kind eps maxRel k a b

/-- Symmetry: for all opinions (any component values) and all parameters. -/
theorem C20_symm (kind : Nat) (eps maxRel : XQ f) (k : Nat) (x y : BOp (XQ f)) :
    Cmp.bopCmp kind eps maxRel k x y = Cmp.bopCmp kind eps maxRel k y x := by
  unfold Cmp.bopCmp
  rw [C20_scalar_symm kind eps maxRel k x.b y.b, C20_scalar_symm kind eps maxRel k x.d y.d,
    C20_scalar_symm kind eps maxRel k x.u y.u, C20_scalar_symm kind eps maxRel k x.a y.a]

/-- native binary64: the sign-and-bit-distance clause of `ulps_eq` is symmetric -/
theorem C20_ulpsWithin_float_symm (a b : Float) (k : Nat) :
    CmpScalar.ulpsWithin a b k = CmpScalar.ulpsWithin b a k :=
  ulpsWithin_float_symm a b k

/-- native binary32: the sign-and-bit-distance clause of `ulps_eq` is symmetric -/
theorem C20_ulpsWithin_float32_symm (a b : Float32) (k : Nat) :
    CmpScalar.ulpsWithin a b k = CmpScalar.ulpsWithin b a k :=
  ulpsWithin_float32_symm a b k

/-! ## 6–7. multinomial simplexes and opinions: exact equality is cell-wise -/

section generic
variable {α : Type} [CmpScalar α] {n : Nat}

theorem C20_tab_eq_iff (x y : Tab α n) :
    Cmp.tabEq x y = true ↔ ∀ i : Fin n, Scalar.eq x[i] y[i] = true :=
  Cmp.tabEq_iff x y

theorem C20_simplex_eq_iff (x y : Simplex α n) :
    Cmp.simplexEq x y = true ↔
      (∀ i : Fin n, Scalar.eq x.b[i] y.b[i] = true) ∧ Scalar.eq x.u y.u = true := by
  simp only [Cmp.simplexEq, Bool.and_eq_true, Cmp.tabEq_iff]

/-- two multinomial opinions are `==` iff every belief mass, the uncertainty and every base rate are -/
theorem C20_mul_eq_iff (x y : Opinion α n) :
    Cmp.opinionEq x y = true ↔
      (∀ i : Fin n, Scalar.eq x.b[i] y.b[i] = true) ∧ Scalar.eq x.u y.u = true ∧
      (∀ i : Fin n, Scalar.eq x.a[i] y.a[i] = true) := by
  simp only [Cmp.opinionEq, Bool.and_eq_true, C20_simplex_eq_iff, Cmp.tabEq_iff, Opinion.simplex,
    and_assoc]

theorem C20_simplex_single_cell (x y : Simplex α n)
    (h : (∃ i : Fin n, Scalar.eq x.b[i] y.b[i] = false) ∨ Scalar.eq x.u y.u = false) :
    Cmp.simplexEq x y = false := by
  rw [← Bool.not_eq_true, C20_simplex_eq_iff]
  rintro ⟨hb, hu⟩
  rcases h with ⟨i, h⟩ | h
  · rw [hb i] at h; exact Bool.noConfusion h
  · rw [hu] at h; exact Bool.noConfusion h

/-- one unequal belief mass, an unequal uncertainty or one unequal base rate makes the opinions unequal -/
theorem C20_mul_single_cell (x y : Opinion α n)
    (h : (∃ i : Fin n, Scalar.eq x.b[i] y.b[i] = false) ∨ Scalar.eq x.u y.u = false ∨
         (∃ i : Fin n, Scalar.eq x.a[i] y.a[i] = false)) :
    Cmp.opinionEq x y = false := by
  rw [← Bool.not_eq_true, C20_mul_eq_iff]
  rintro ⟨hb, hu, ha⟩
  rcases h with ⟨i, h⟩ | h | ⟨i, h⟩
  · rw [hb i] at h; exact Bool.noConfusion h
  · rw [hu] at h; exact Bool.noConfusion h
  · rw [ha i] at h; exact Bool.noConfusion h

end generic

/-- finite simplex on the left: `==` is equality of the structures -/
theorem C20_simplex_eq_iff_fin {n : Nat} (x y : Simplex (XQ f) n) (hb : FinTab x.b)
    (hu : ∃ q, x.u = XQ.fin q) :
    Cmp.simplexEq x y = true ↔ x = y := by
  obtain ⟨q, hq⟩ := hu
  obtain ⟨xb, xu⟩ := x
  obtain ⟨yb, yu⟩ := y
  simp only at hq hb
  subst hq
  simp only [Cmp.simplexEq, Bool.and_eq_true, Cmp.tabEq_iff_eq_of_fin _ _ hb, XQ.seq_fin_left_iff,
    Simplex.mk.injEq]
  exact ⟨fun ⟨h1, h2⟩ => ⟨h1, h2.symm⟩, fun ⟨h1, h2⟩ => ⟨h1, h2.symm⟩⟩

/-- finite opinion on the left (all entries `fin`): `==` is equality of the structures -/
theorem C20_mul_eq_iff_fin {n : Nat} (x y : Opinion (XQ f) n) (hb : FinTab x.b)
    (hu : ∃ q, x.u = XQ.fin q) (ha : FinTab x.a) :
    Cmp.opinionEq x y = true ↔ x = y := by
  obtain ⟨q, hq⟩ := hu
  obtain ⟨xb, xu, xa⟩ := x
  obtain ⟨yb, yu, ya⟩ := y
  simp only at hq hb ha
  subst hq
  simp only [Cmp.opinionEq, Cmp.simplexEq, Opinion.simplex, Bool.and_eq_true,
    Cmp.tabEq_iff_eq_of_fin _ _ hb, Cmp.tabEq_iff_eq_of_fin _ _ ha, XQ.seq_fin_left_iff,
    Opinion.mk.injEq, and_assoc]
  exact ⟨fun ⟨h1, h2, h3⟩ => ⟨h1, h2.symm, h3⟩, fun ⟨h1, h2, h3⟩ => ⟨h1, h2.symm, h3⟩⟩

/-- on lifted rational data: `==` iff the rational data are equal -/
theorem C20_mul_eq_lift {n : Nat} (b b' : Fin n → ℚ) (u u' : ℚ) (a a' : Fin n → ℚ) :
    Cmp.opinionEq (liftO (f := f) b u a) (liftO b' u' a') = true ↔ b = b' ∧ u = u' ∧ a = a' := by
  simp only [Cmp.opinionEq, Cmp.simplexEq, Opinion.simplex, Bool.and_eq_true, Cmp.tabEq_liftT,
    XQ.eq_fin, decide_eq_true_eq, and_assoc]

theorem C20_simplex_eq_lift {n : Nat} (b b' : Fin n → ℚ) (u u' : ℚ) :
    Cmp.simplexEq (liftSx (f := f) b u) (liftSx b' u') = true ↔ b = b' ∧ u = u' := by
  simp only [Cmp.simplexEq, Bool.and_eq_true, Cmp.tabEq_liftT, XQ.eq_fin, decide_eq_true_eq]

/-- multinomial `==` is reflexive on finite opinions -/
theorem C20_mul_eq_refl {n : Nat} (b : Fin n → ℚ) (u : ℚ) (a : Fin n → ℚ) :
    Cmp.opinionEq (liftO (f := f) b u a) (liftO b u a) = true :=
  (C20_mul_eq_lift b b u u a a).mpr ⟨rfl, rfl, rfl⟩

/-- multinomial `==` is symmetric, for all entries (specials included) -/
theorem C20_mul_eq_symm {n : Nat} (x y : Opinion (XQ f) n) :
    Cmp.opinionEq x y = Cmp.opinionEq y x := by
  rw [Bool.eq_iff_iff, C20_mul_eq_iff, C20_mul_eq_iff]
  simp only [XQ.seq_symm x.u y.u, fun i : Fin n => XQ.seq_symm x.b[i] y.b[i],
    fun i : Fin n => XQ.seq_symm x.a[i] y.a[i]]

theorem C20_simplex_eq_symm {n : Nat} (x y : Simplex (XQ f) n) :
    Cmp.simplexEq x y = Cmp.simplexEq y x := by
  rw [Bool.eq_iff_iff, C20_simplex_eq_iff, C20_simplex_eq_iff]
  simp only [XQ.seq_symm x.u y.u, fun i : Fin n => XQ.seq_symm x.b[i] y.b[i]]

/-- a NaN cell makes a multinomial opinion unequal to itself -/
theorem C20_mul_nan_not_refl {n : Nat} (x : Opinion (XQ f) n)
    (h : (∃ i : Fin n, x.b[i] = XQ.nan) ∨ x.u = XQ.nan ∨ (∃ i : Fin n, x.a[i] = XQ.nan)) :
    Cmp.opinionEq x x = false := by
  apply C20_mul_single_cell
  rcases h with ⟨i, h⟩ | h | ⟨i, h⟩
  · left; exact ⟨i, by rw [h]; rfl⟩
  · right; left; rw [h]; rfl
  · right; right; exact ⟨i, by rw [h]; rfl⟩

/-! ## 8. non-vacuity -/

/-- only the base rate differs (by 0.2 > eps = 0.01): unequal under `abs_diff_eq` … -/
example : Cmp.bopCmp 1 (XQ.fin (1/100)) (XQ.fin (1/100)) 4
    (liftB (f := .f64) (1/2) (1/4) (1/4) (1/2)) (liftB (1/2) (1/4) (1/4) (7/10)) = false := by
  apply C20_beyond_tolerance
  right; right; right; norm_num [abs_of_neg]

/-- … under `==` … -/
example : Cmp.bopCmp 0 (XQ.fin (1/100)) (XQ.fin (1/100)) 4
    (liftB (f := .f64) (1/2) (1/4) (1/4) (1/2)) (liftB (1/2) (1/4) (1/4) (7/10)) = false := by
  rw [← Bool.not_eq_true, C20_bop_eq_fin]; norm_num

/-- … under `relative_eq` (0.2 > 0.01 and 0.2 > 0.7 · 0.01) … -/
example : Cmp.bopCmp 2 (XQ.fin (1/100)) (XQ.fin (1/100)) 4
    (liftB (f := .f64) (1/2) (1/4) (1/4) (1/2)) (liftB (1/2) (1/4) (1/4) (7/10)) = false := by
  apply C20_beyond_tolerance_rel (p := 1/2) (q := 7/10)
  · right; right; right; exact ⟨rfl, rfl⟩
  · norm_num
  · norm_num [abs_of_neg]
  · norm_num [abs_of_neg, abs_of_pos]

/-- … and under `ulps_eq` when the base rates have different sign (no step count needed). -/
example : Cmp.bopCmp 3 (XQ.fin (1/100)) (XQ.fin (1/100)) 4
    (liftB (f := .f64) (1/2) (1/4) (1/4) (1/2)) (liftB (1/2) (1/4) (1/4) (-1/2)) = false := by
  apply C20_base_rate_component
  apply C20_ulpsEq_beyond
  · norm_num
  · left; norm_num

/-- all four components within the tolerance 0.01 (differences 0.005, 0.005, 0, 0.01): equal under
    `abs_diff_eq`, `relative_eq` and `ulps_eq`, but not under `==` -/
example : Cmp.bopCmp 1 (XQ.fin (1/100)) (XQ.fin (1/100)) 4
    (liftB (f := .f64) (1/2) (1/4) (1/4) (1/2)) (liftB (101/200) (49/200) (1/4) (51/100)) = true := by
  rw [C20_bop_absDiff_fin]
  norm_num [abs_le]

example : Cmp.bopCmp 2 (XQ.fin (1/100)) (XQ.fin (1/100)) 4
    (liftB (f := .f64) (1/2) (1/4) (1/4) (1/2)) (liftB (101/200) (49/200) (1/4) (51/100)) = true := by
  rw [C20_bop_relative_iff]
  simp only [C20_relativeEq_fin, decide_eq_true_eq]
  norm_num [abs_le]

example : Cmp.bopCmp 3 (XQ.fin (1/100)) (XQ.fin (1/100)) 4
    (liftB (f := .f64) (1/2) (1/4) (1/4) (1/2)) (liftB (101/200) (49/200) (1/4) (51/100)) = true := by
  rw [C20_bop_ulps_iff]
  simp only [C20_ulpsEq_fin, Bool.or_eq_true, decide_eq_true_eq]
  refine ⟨Or.inl ?_, Or.inl ?_, Or.inl ?_, Or.inl ?_⟩ <;> norm_num [abs_le]

example : Cmp.bopCmp 0 (XQ.fin (1/100)) (XQ.fin (1/100)) 4
    (liftB (f := .f64) (1/2) (1/4) (1/4) (1/2)) (liftB (101/200) (49/200) (1/4) (51/100)) = false := by
  rw [← Bool.not_eq_true, C20_bop_eq_fin]; norm_num

/-- `relative_eq` accepts what `abs_diff_eq` rejects: 1000 vs 1001 with eps = 0.01, max_relative = 0.01 -/
example : Cmp.relativeEq (XQ.fin 1000 : XQ .f64) (XQ.fin 1001) (XQ.fin (1/100)) (XQ.fin (1/100)) = true ∧
    Cmp.absDiffEq (XQ.fin 1000 : XQ .f64) (XQ.fin 1001) (XQ.fin (1/100)) = false := by
  rw [C20_relativeEq_fin, C20_absDiffEq_fin]
  norm_num [abs_of_neg, abs_of_pos]

/-- `ulps_eq` by step count (binary32, eps = 0): base rates `1/2` and `1/2 + 3·2⁻²⁴` are 3 representable steps
    apart — equal with `max_ulps = 4`, unequal with `max_ulps = 2`; the other components coincide.
    (`decide +kernel`: plain kernel evaluation of the model, no extra axiom.) -/
example : Cmp.bopCmp 3 (XQ.fin 0) (XQ.fin 0) 4
    (liftB (f := .f32) (1/4) (1/4) (1/2) (1/2)) (liftB (1/4) (1/4) (1/2) (8388611/16777216)) = true := by
  decide +kernel

example : Cmp.bopCmp 3 (XQ.fin 0) (XQ.fin 0) 2
    (liftB (f := .f32) (1/4) (1/4) (1/2) (1/2)) (liftB (1/4) (1/4) (1/2) (8388611/16777216)) = false := by
  decide +kernel

/-- reflexivity and symmetry instances -/
example : Cmp.bopCmp 3 (XQ.fin 0) (XQ.fin 0) 0
    (liftB (f := .f32) (1/2) (1/4) (1/4) (1/2)) (liftB (1/2) (1/4) (1/4) (1/2)) = true :=
  C20_refl 3 0 le_rfl _ 0 _ _ _ _

example : Cmp.bopCmp 2 (XQ.fin (1/100)) XQ.pinf 4
    (⟨XQ.pinf, XQ.nan, XQ.fin 1, XQ.ninf⟩ : BOp (XQ .f64)) (liftB 0 0 1 (1/2))
    = Cmp.bopCmp 2 (XQ.fin (1/100)) XQ.pinf 4
    (liftB 0 0 1 (1/2)) (⟨XQ.pinf, XQ.nan, XQ.fin 1, XQ.ninf⟩ : BOp (XQ .f64)) :=
  C20_symm ..

/-- NaN: the vacuous opinion with a NaN base rate is not equal to itself -/
example : Cmp.bopCmp 0 (XQ.fin 0) (XQ.fin 0) 0
    (⟨XQ.fin 0, XQ.fin 0, XQ.fin 1, XQ.nan⟩ : BOp (XQ .f64)) ⟨XQ.fin 0, XQ.fin 0, XQ.fin 1, XQ.nan⟩
    = false :=
  C20_nan_not_refl 0 _ _ 0 _ (Or.inr (Or.inr (Or.inr rfl)))

/-- multinomial: equal data compare equal; changing one base-rate cell makes them unequal -/
example : Cmp.opinionEq (liftO (f := .f64) ![1/2, 1/4] (1/4) ![1/2, 1/2])
    (liftO ![1/2, 1/4] (1/4) ![1/2, 1/2]) = true :=
  C20_mul_eq_refl _ _ _

example : Cmp.opinionEq (liftO (f := .f64) ![1/2, 1/4] (1/4) ![1/2, 1/2])
    (liftO ![1/2, 1/4] (1/4) ![1/2, 1/3]) = false := by
  apply C20_mul_single_cell
  right; right
  refine ⟨1, ?_⟩
  simp

end SLV.Props.C20
