/-
  C15 — Applying any permutation to the value order of X and/or Y consistently in all operands (belief
  masses, base rates, rows and columns of conditional tables) of fusion, discounting, projection,
  uncertainty maximisation, deduction, inversion, abduction, product and merging permutes the result in
  the same way and changes nothing else.

  Equivariance is structural, so every theorem here is stated at the exact semantics `XQ f` for
  ARBITRARY operands (finite or not, well-formed or not, NaN and ±inf included), every size and every
  permutation; no hypothesis was needed for any operator.  What makes this true at `XQ f`:
  `Scalar.add`, `Scalar.min`, `Scalar.max` are commutative and associative on all of `XQ`
  (`xq_add_comm/assoc`, `xq_min_comm/assoc`, `xq_max_comm/assoc` in SLV/Refine/C15Lemmas.lean), so
  `sumIter`, `sumLoop`, `reduceMin`, `reduceMax`, `reduceL min` and the running minimum of `max_uncertainty`
  do not see the order; all guards look at `u` only or at "all entries"; the validation labels carry no
  index.  (The statement is about exact arithmetic: with rounding, `+` is not associative.)

  The action (SLV/Refine/C15Lemmas.lean):
    `permT σ v`        entry `i` of the result is entry `σ i` of `v`
    `permS σ s`, `permO σ w`   component-wise on simplexes / opinions (`u` untouched)
    `permC σ ρ c`      conditional table: `σ` on the rows (values of X), `ρ` inside each row (values of Y)
    `prodPerm σ0 σ1`   factor-wise permutation of the row-major joint domain `Fin (n0 * n1)`:
                       cell `(i, j) ↦ (σ0 i, σ1 j)`, i.e. `idx2 (prodPerm σ0 σ1 k) = (σ0 (idx2 k).1,
                       σ1 (idx2 k).2)`;  `prodPerm3` likewise for three factors (`idx3`).
  Property statements only; all proofs are the `*_eqv` lemmas of SLV/Refine/C15Lemmas.lean.

  The one place where "changes nothing else" has a caveat: `merge_cond2` of the validating (unlabelled)
  family collects one possibly-rejected cell per value of Y and reports the FIRST rejection, so a
  permutation of Y can change WHICH label is reported (never whether the call is rejected); see
  `C15_mergeCond2_label_depends_on_Y_order`.  Permutations of X1, X2 alone keep the label
  (`C15_mergeCond2_X`), the non-validating family is fully equivariant (`C15_mergeCond2_labelled`).
-/
import SLV.Refine.C15Lemmas
import Mathlib.Data.Fin.VecNotation

namespace SLV.Props.C15
open SLV Scalar SLV.C15

variable {f : Fmt} {n m : Nat}

/-! ### normalisation, projection, uncertainty maximisation, discounting -/

/-- `normalize_prob_dist` commutes with a permutation of the value order -/
theorem C15_normalizeProbDist (σ : Equiv.Perm (Fin n)) (p : Tab (XQ f) n) :
    normalizeProbDist (permT σ p) = permT σ (normalizeProbDist p) :=
  normalizeProbDist_eqv ..

/-- `Simplex::normalized` commutes with a permutation of the value order -/
theorem C15_normalized (σ : Equiv.Perm (Fin n)) (b : Tab (XQ f) n) (u : XQ f) :
    Simplex.normalized (permT σ b) u = permS σ (Simplex.normalized b u) :=
  normalized_eqv ..

/-- projection: permuting belief masses and base rate permutes the projected probabilities -/
theorem C15_projection (σ : Equiv.Perm (Fin n)) (b : Tab (XQ f) n) (u : XQ f) (a : Tab (XQ f) n) :
    projection (permT σ b) u (permT σ a) = permT σ (projection b u a) :=
  projection_eqv ..

theorem C15_projection_simplex (σ : Equiv.Perm (Fin n)) (s : Simplex (XQ f) n) (a : Tab (XQ f) n) :
    (permS σ s).projection (permT σ a) = permT σ (s.projection a) :=
  projection_simplex_eqv ..

theorem C15_projection_opinion (σ : Equiv.Perm (Fin n)) (w : Opinion (XQ f) n) :
    (permO σ w).projection = permT σ w.projection :=
  projection_opinion_eqv ..

/-- `max_uncertainty` (a running NaN-skipping minimum from 1) does not see the value order -/
theorem C15_maxUncertainty (σ : Equiv.Perm (Fin n)) (s : Simplex (XQ f) n) (a : Tab (XQ f) n) :
    (permS σ s).maxUncertainty (permT σ a) = s.maxUncertainty a :=
  maxUncertainty_eqv ..

/-- uncertainty maximisation is equivariant -/
theorem C15_uncertaintyMaximized (σ : Equiv.Perm (Fin n)) (s : Simplex (XQ f) n) (a : Tab (XQ f) n) :
    (permS σ s).uncertaintyMaximized (permT σ a) = permS σ (s.uncertaintyMaximized a) :=
  uncertaintyMaximized_eqv ..

/-- the vacuous simplex is a fixed point -/
theorem C15_vacuous (σ : Equiv.Perm (Fin n)) :
    permS σ (Simplex.vacuous : Simplex (XQ f) n) = Simplex.vacuous :=
  vacuous_eqv ..

/-- trust discounting of a simplex is equivariant (any trust value `t`, NaN/inf included) -/
theorem C15_discount (σ : Equiv.Perm (Fin n)) (s : Simplex (XQ f) n) (t : XQ f) :
    (permS σ s).discount t = permS σ (s.discount t) :=
  discount_eqv ..

/-- trust discounting of an opinion is equivariant -/
theorem C15_discount_opinion (σ : Equiv.Perm (Fin n)) (w : Opinion (XQ f) n) (t : XQ f) :
    (permO σ w).discount t = permO σ (w.discount t) :=
  discount_opinion_eqv ..

/-! ### fusion -/

/-- `compute_simlex` for all four operators: the guards look at `u` only -/
theorem C15_computeSimplex (σ : Equiv.Perm (Fin n)) (op : FuseOp) (l r : Simplex (XQ f) n) :
    computeSimplex op (permS σ l) (permS σ r) = permS σ (computeSimplex op l r) :=
  computeSimplex_eqv ..

/-- `compute_base_rate` for all four operators and both values of the pointer-equality flag -/
theorem C15_computeBaseRate (σ : Equiv.Perm (Fin n)) (op : FuseOp) (same : Bool)
    (l r : Opinion (XQ f) n) :
    computeBaseRate op same (permO σ l) (permO σ r) = permT σ (computeBaseRate op same l r) :=
  computeBaseRate_eqv ..

/-- fusion (cumulative, epistemic-cumulative, averaging, weighted) is equivariant -/
theorem C15_fuse (σ : Equiv.Perm (Fin n)) (op : FuseOp) (same : Bool) (l r : Opinion (XQ f) n) :
    fuse op same (permO σ l) (permO σ r) = permO σ (fuse op same l r) :=
  fuse_eqv ..

theorem C15_fuseSimplex (σ : Equiv.Perm (Fin n)) (op : FuseOp) (l : Opinion (XQ f) n)
    (r : Simplex (XQ f) n) :
    fuseSimplex op (permO σ l) (permS σ r) = permO σ (fuseSimplex op l r) :=
  fuseSimplex_eqv ..

theorem C15_fuseSS (σ : Equiv.Perm (Fin n)) (op : FuseOp) (l r : Simplex (XQ f) n) :
    fuseSS op (permS σ l) (permS σ r) = (fuseSS op l r).map (permS σ) :=
  fuseSS_eqv ..

/-! ### conditional tables: `σ` permutes the values of X, `ρ` the values of Y -/

/-- marginal base rate: `σ` on X disappears (the result is a table over Y), `ρ` on Y permutes it;
    `none` stays `none` -/
theorem C15_mbr (σ : Equiv.Perm (Fin n)) (ρ : Equiv.Perm (Fin m)) (ax : Tab (XQ f) n)
    (conds : CondTab (XQ f) n m) :
    mbr (permT σ ax) (permC σ ρ conds) = (mbr ax conds).map (permT ρ) :=
  mbr_eqv ..

/-- deduction: `σ` on X disappears, `ρ` on Y permutes the deduced opinion -/
theorem C15_deduceOf (σ : Equiv.Perm (Fin n)) (ρ : Equiv.Perm (Fin m)) (wx : Opinion (XQ f) n)
    (conds : CondTab (XQ f) n m) (ay : Tab (XQ f) m) :
    deduceOf (permO σ wx) (permC σ ρ conds) (permT ρ ay) = permO ρ (deduceOf wx conds ay) :=
  deduceOf_eqv ..

theorem C15_deduce (σ : Equiv.Perm (Fin n)) (ρ : Equiv.Perm (Fin m)) (wx : Opinion (XQ f) n)
    (conds : CondTab (XQ f) n m) :
    deduce (permO σ wx) (permC σ ρ conds) = (deduce wx conds).map (permO ρ) :=
  deduce_eqv ..

/-- `deduce_with`: the fallback base rate is permuted like every other table over Y; whether the
    fallback closure is called is unchanged -/
theorem C15_deduceWith (σ : Equiv.Perm (Fin n)) (ρ : Equiv.Perm (Fin m)) (wx : Opinion (XQ f) n)
    (conds : CondTab (XQ f) n m) (fallback : Unit → Tab (XQ f) m) :
    deduceWith (permO σ wx) (permC σ ρ conds) (fun u => permT ρ (fallback u))
      = ((fun r : Opinion (XQ f) m × Bool => (permO ρ r.1, r.2)) (deduceWith wx conds fallback)) :=
  deduceWith_eqv ..

/-- inversion: the result is a table with one row per value of Y (permuted by `ρ`), each row a simplex
    over X (permuted by `σ`) -/
theorem C15_inverse (σ : Equiv.Perm (Fin n)) (ρ : Equiv.Perm (Fin m))
    (conds : CondTab (XQ f) n m) (ax : Tab (XQ f) n) (ay : Tab (XQ f) m) :
    inverse (permC σ ρ conds) (permT σ ax) (permT ρ ay) = permC ρ σ (inverse conds ax ay) :=
  inverse_eqv ..

/-- abduction: `ρ` on Y disappears, `σ` on X permutes the abduced opinion -/
theorem C15_abduceWith (σ : Equiv.Perm (Fin n)) (ρ : Equiv.Perm (Fin m)) (wy : Simplex (XQ f) m)
    (conds : CondTab (XQ f) n m) (ax : Tab (XQ f) n) (ay : Tab (XQ f) m) :
    abduceWith (permS ρ wy) (permC σ ρ conds) (permT σ ax) (permT ρ ay)
      = permO σ (abduceWith wy conds ax ay) :=
  abduceWith_eqv ..

theorem C15_abduce (σ : Equiv.Perm (Fin n)) (ρ : Equiv.Perm (Fin m)) (wy : Simplex (XQ f) m)
    (conds : CondTab (XQ f) n m) (ax : Tab (XQ f) n) :
    abduce (permS ρ wy) (permC σ ρ conds) (permT σ ax) = (abduce wy conds ax).map (permO σ) :=
  abduce_eqv ..

/-! ### products on joint domains: the factors' permutations act cell-wise (`prodPerm`, `prodPerm3`) -/

section products
variable {n0 n1 n2 : Nat}

theorem C15_outer2 (σ0 : Equiv.Perm (Fin n0)) (σ1 : Equiv.Perm (Fin n1)) (v0 : Tab (XQ f) n0)
    (v1 : Tab (XQ f) n1) :
    outer2 (permT σ0 v0) (permT σ1 v1) = permT (prodPerm σ0 σ1) (outer2 v0 v1) :=
  outer2_eqv ..

theorem C15_outer3 (σ0 : Equiv.Perm (Fin n0)) (σ1 : Equiv.Perm (Fin n1)) (σ2 : Equiv.Perm (Fin n2))
    (v0 : Tab (XQ f) n0) (v1 : Tab (XQ f) n1) (v2 : Tab (XQ f) n2) :
    outer3 (permT σ0 v0) (permT σ1 v1) (permT σ2 v2)
      = permT (prodPerm3 σ0 σ1 σ2) (outer3 v0 v1 v2) :=
  outer3_eqv ..

/-- the raw product of two opinions -/
theorem C15_product2Raw (σ0 : Equiv.Perm (Fin n0)) (σ1 : Equiv.Perm (Fin n1))
    (w0 : Opinion (XQ f) n0) (w1 : Opinion (XQ f) n1) :
    product2Raw (permO σ0 w0) (permO σ1 w1) = permO (prodPerm σ0 σ1) (product2Raw w0 w1) :=
  product2Raw_eqv ..

/-- the raw product of three opinions -/
theorem C15_product3Raw (σ0 : Equiv.Perm (Fin n0)) (σ1 : Equiv.Perm (Fin n1))
    (σ2 : Equiv.Perm (Fin n2))
    (w0 : Opinion (XQ f) n0) (w1 : Opinion (XQ f) n1) (w2 : Opinion (XQ f) n2) :
    product3Raw (permO σ0 w0) (permO σ1 w1) (permO σ2 w2)
      = permO (prodPerm3 σ0 σ1 σ2) (product3Raw w0 w1 w2) :=
  product3Raw_eqv ..

/-- the checked constructor: accepted data is permuted, a rejection keeps its label (labels carry no
    index) -/
theorem C15_tryNew (τ : Equiv.Perm (Fin n)) (b : Tab (XQ f) n) (u : XQ f) (a : Tab (XQ f) n) :
    Opinion.tryNew (permT τ b) u (permT τ a) = (Opinion.tryNew b u a).map (permO τ) :=
  tryNew_eqv ..

/-- unlabelled (validating) product of two opinions, rejection label included -/
theorem C15_product2U (σ0 : Equiv.Perm (Fin n0)) (σ1 : Equiv.Perm (Fin n1))
    (w0 : Opinion (XQ f) n0) (w1 : Opinion (XQ f) n1) :
    product2U (permO σ0 w0) (permO σ1 w1)
      = (product2U w0 w1).map (permO (prodPerm σ0 σ1)) :=
  product2U_eqv ..

theorem C15_product3U (σ0 : Equiv.Perm (Fin n0)) (σ1 : Equiv.Perm (Fin n1))
    (σ2 : Equiv.Perm (Fin n2))
    (w0 : Opinion (XQ f) n0) (w1 : Opinion (XQ f) n1) (w2 : Opinion (XQ f) n2) :
    product3U (permO σ0 w0) (permO σ1 w1) (permO σ2 w2)
      = (product3U w0 w1 w2).map (permO (prodPerm3 σ0 σ1 σ2)) :=
  product3U_eqv ..

/-- labelled (renormalising) product of two opinions -/
theorem C15_product2L (σ0 : Equiv.Perm (Fin n0)) (σ1 : Equiv.Perm (Fin n1))
    (w0 : Opinion (XQ f) n0) (w1 : Opinion (XQ f) n1) :
    product2L (permO σ0 w0) (permO σ1 w1) = permO (prodPerm σ0 σ1) (product2L w0 w1) :=
  product2L_eqv ..

theorem C15_product3L (σ0 : Equiv.Perm (Fin n0)) (σ1 : Equiv.Perm (Fin n1))
    (σ2 : Equiv.Perm (Fin n2))
    (w0 : Opinion (XQ f) n0) (w1 : Opinion (XQ f) n1) (w2 : Opinion (XQ f) n2) :
    product3L (permO σ0 w0) (permO σ1 w1) (permO σ2 w2)
      = permO (prodPerm3 σ0 σ1 σ2) (product3L w0 w1 w2) :=
  product3L_eqv ..

end products

/-! ### merging conditionals on a joint antecedent
  `σ1` on X1, `σ2` on X2, `ρ` on Y: the rows of the result (cells of X1×X2) are permuted by
  `prodPerm σ1 σ2`, each row's simplex over Y by `ρ`. -/

section merge
variable {n1 n2 : Nat}

/-- accepted case, either family: the permuted call is accepted with the permuted table -/
theorem C15_mergeCond2_ok (σ1 : Equiv.Perm (Fin n1)) (σ2 : Equiv.Perm (Fin n2))
    (ρ : Equiv.Perm (Fin m)) (validate : Bool) (yx1 : CondTab (XQ f) n1 m) (yx2 : CondTab (XQ f) n2 m)
    (ax1 : Tab (XQ f) n1) (ax2 : Tab (XQ f) n2) (ay : Tab (XQ f) m)
    (r : CondTab (XQ f) (n1 * n2) m)
    (h : mergeCond2 validate yx1 yx2 ax1 ax2 ay = .ok r) :
    mergeCond2 validate (permC σ1 ρ yx1) (permC σ2 ρ yx2) (permT σ1 ax1) (permT σ2 ax2) (permT ρ ay)
      = .ok (permC (prodPerm σ1 σ2) ρ r) :=
  mergeCond2_ok_eqv σ1 σ2 ρ validate yx1 yx2 ax1 ax2 ay r h

/-- rejected case, either family: the permuted call is rejected too (the label may be that of a
    different cell when `ρ` moves the first rejected value of Y, see
    `C15_mergeCond2_label_depends_on_Y_order`) -/
theorem C15_mergeCond2_error (σ1 : Equiv.Perm (Fin n1)) (σ2 : Equiv.Perm (Fin n2))
    (ρ : Equiv.Perm (Fin m)) (validate : Bool) (yx1 : CondTab (XQ f) n1 m) (yx2 : CondTab (XQ f) n2 m)
    (ax1 : Tab (XQ f) n1) (ax2 : Tab (XQ f) n2) (ay : Tab (XQ f) m) (e : Label)
    (h : mergeCond2 validate yx1 yx2 ax1 ax2 ay = .error e) :
    ∃ e', mergeCond2 validate (permC σ1 ρ yx1) (permC σ2 ρ yx2) (permT σ1 ax1) (permT σ2 ax2)
      (permT ρ ay) = .error e' :=
  mergeCond2_error_eqv σ1 σ2 ρ validate yx1 yx2 ax1 ax2 ay e h

/-- labelled family (`validate = false`, never rejects): merging is fully equivariant -/
theorem C15_mergeCond2_labelled (σ1 : Equiv.Perm (Fin n1)) (σ2 : Equiv.Perm (Fin n2))
    (ρ : Equiv.Perm (Fin m)) (yx1 : CondTab (XQ f) n1 m) (yx2 : CondTab (XQ f) n2 m)
    (ax1 : Tab (XQ f) n1) (ax2 : Tab (XQ f) n2) (ay : Tab (XQ f) m) :
    mergeCond2 false (permC σ1 ρ yx1) (permC σ2 ρ yx2) (permT σ1 ax1) (permT σ2 ax2) (permT ρ ay)
      = (mergeCond2 false yx1 yx2 ax1 ax2 ay).map (permC (prodPerm σ1 σ2) ρ) :=
  mergeCond2_labelled_eqv ..

/-- permutations of X1 and X2 only (value order of Y untouched): fully equivariant in both families,
    including the rejection label -/
theorem C15_mergeCond2_X (σ1 : Equiv.Perm (Fin n1)) (σ2 : Equiv.Perm (Fin n2)) (validate : Bool)
    (yx1 : CondTab (XQ f) n1 m) (yx2 : CondTab (XQ f) n2 m)
    (ax1 : Tab (XQ f) n1) (ax2 : Tab (XQ f) n2) (ay : Tab (XQ f) m) :
    mergeCond2 validate (permC σ1 (Equiv.refl _) yx1) (permC σ2 (Equiv.refl _) yx2)
        (permT σ1 ax1) (permT σ2 ax2) ay
      = (mergeCond2 validate yx1 yx2 ax1 ax2 ay).map
          (permC (prodPerm σ1 σ2) (Equiv.refl _)) :=
  mergeCond2_X_eqv ..

end merge

/-! ### lifted rational operands (house style) -/

/-- fusing the permuted lifted opinions gives the permuted result -/
theorem C15_fuse_lift (σ : Equiv.Perm (Fin n)) (op : FuseOp) (same : Bool)
    (b1 a1 b2 a2 : Fin n → ℚ) (u1 u2 : ℚ) :
    fuse op same
        (⟨liftT fun i => b1 (σ i), XQ.fin u1, liftT fun i => a1 (σ i)⟩ : Opinion (XQ f) n)
        ⟨liftT fun i => b2 (σ i), XQ.fin u2, liftT fun i => a2 (σ i)⟩
      = permO σ (fuse op same ⟨liftT b1, XQ.fin u1, liftT a1⟩ ⟨liftT b2, XQ.fin u2, liftT a2⟩) := by
  rw [← C15_fuse]
  simp only [permO, permT_liftT]

/-- deduction from permuted lifted operands: `σ` on X disappears, `ρ` on Y permutes the result -/
theorem C15_deduceOf_lift (σ : Equiv.Perm (Fin n)) (ρ : Equiv.Perm (Fin m))
    (bx ax : Fin n → ℚ) (ux : ℚ) (cb : Fin n → Fin m → ℚ) (cu : Fin n → ℚ) (ay : Fin m → ℚ) :
    deduceOf (⟨liftT fun x => bx (σ x), XQ.fin ux, liftT fun x => ax (σ x)⟩ : Opinion (XQ f) n)
        (condTab (fun x y => cb (σ x) (ρ y)) (fun x => cu (σ x))) (liftT fun y => ay (ρ y))
      = permO ρ (deduceOf ⟨liftT bx, XQ.fin ux, liftT ax⟩ (condTab cb cu) (liftT ay)) := by
  rw [← C15_deduceOf σ ρ, permC_condTab]
  simp only [permO, permT_liftT]

/-! ### non-vacuity and the label caveat -/

section examples

def q (a : Int) (b : Nat) : XQ .f64 := .fin ((a : Rat) / (b : Rat))

/-- reversal of the value order of a three-valued domain -/
def rev3 : Equiv.Perm (Fin 3) := Equiv.swap 0 2

def w1 : Opinion (XQ .f64) 3 := ⟨#v[q 1 2, q 1 4, q 0 1], q 1 4, #v[q 1 2, q 1 4, q 1 4]⟩
def w2 : Opinion (XQ .f64) 3 := ⟨#v[q 1 8, q 1 8, q 1 4], q 1 2, #v[q 1 4, q 1 4, q 1 2]⟩

/-- a non-identity permutation really moves the operand and the fused result (so the equivariance
    theorems are not statements about fixed points) -/
example : (permO rev3 w1).b[0] ≠ w1.b[0] ∧
    (permO rev3 (fuse .acm false w1 w2)).b[0] ≠ (fuse .acm false w1 w2).b[0] ∧
    (fuse .acm false (permO rev3 w1) (permO rev3 w2)).b[0] = (fuse .acm false w1 w2).b[2] := by
  decide +kernel

def errLabel {β : Type} (r : Except Label β) : Option Label :=
  match r with | .ok _ => none | .error e => some e

def yx1 : CondTab (XQ .f64) 2 2 := #v[⟨#v[q 1 4, q 1 4], q 1 2⟩, ⟨#v[q 0 1, q 1 1], q 0 1⟩]
def yx2 : CondTab (XQ .f64) 1 2 := #v[⟨#v[q 1 4, q 1 4], q 1 2⟩]

/-- FINDING (error label only): in the validating family `merge_cond2` reports the first rejected cell
    in the value order of Y, so swapping the two values of Y turns the label `sum(a)` into `sum(b)+u` on these
    in-range operands whose base rates do not sum to one: conditionals `y|x1 = (1/4,1/4;1/2), (0,1;0)`,
    `y|x2 = (1/4,1/4;1/2)`, `a_X1 = (1/2,1)`, `a_X2 = (1/2)`, `a_Y = (1/4,0)`.
    (Whether the call is rejected never depends on the order: `C15_mergeCond2_error`.)
    Before repair abca806 of the products the second label was `u`: on the operands of the rejected cell,
    which are not well-formed (the projections are renormalised by a factor ≠ 1), the cancelling candidate
    `(P - B)/A` gave `u = 28/27 > 1`, the expanded one gives `u = 7/10`, so the cell now fails the next
    check of `Opinion::new`. -/
theorem C15_mergeCond2_label_depends_on_Y_order :
    errLabel (mergeCond2 true yx1 yx2 #v[q 1 2, q 1 1] #v[q 1 2] #v[q 1 4, q 0 1]) = some .sumA ∧
    errLabel (mergeCond2 true (permC (Equiv.refl _) (Equiv.swap 0 1) yx1)
        (permC (Equiv.refl _) (Equiv.swap 0 1) yx2) #v[q 1 2, q 1 1] #v[q 1 2]
        (permT (Equiv.swap 0 1) #v[q 1 4, q 0 1])) = some .sumBU := by
  decide +kernel

end examples
end SLV.Props.C15
