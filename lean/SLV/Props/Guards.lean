/-
  Guards — the closed-form tolerance guards of the exact semantics are the crate's `ulps_eq!`.

  The Rust crate defines `is_zero(v) = ulps_eq!(v, 0.0)`, `is_one(v) = ulps_eq!(v, 1.0)` and
  `in_unit_interval(v) = is_in_range(v, 0, 1)` (the latter with two more `ulps_eq!`).  The exact
  semantics `XQ f` gives `ulps_eq!` its generic value-level meaning (`XQ.ulpsEq`: `|a-b| ≤ ε`, or same sign
  and at most 4 steps apart in `ulpIdx`, the piecewise-linear extension of "bit pattern as an integer"), but
  implements the two guards by CLOSED FORMS: `isZero (fin a) = (|a| ≤ ε)`, `isOne (fin a) = (1-2ε ≤ a ≤ 1+4ε)`.
  This file proves that the closed forms are equal to the generic definition, for both formats and for every
  extended value (finite, `±inf`, NaN), and derives the `4ε` bound on `ulps_eq!` entries that the fusion
  theorems (C02) left open while `compute_base_rate` took its per-entry shortcut on `ulps_eq!` (until repair c8a7116).

  Helper lemmas: SLV/Refine/GuardLemmas.lean (namespace `SLV.Guard`).
-/
import SLV.Refine.GuardLemmas
import SLV.Props.C02

namespace SLV.Props.Guards
open SLV Scalar FuseQ
open SLV.Props.C09 (WF)

variable {f : Fmt} {n : Nat}

/-! ## 1. `pow2` and `ilog2` -/

/-- `Fmt.pow2 e` is `2^e` -/
theorem Guards_pow2_zpow (e : ℤ) : Fmt.pow2 e = (2 : ℚ) ^ e := Guard.pow2_eq_zpow e

theorem Guards_pow2_add (a b : ℤ) : Fmt.pow2 (a + b) = Fmt.pow2 a * Fmt.pow2 b := Guard.pow2_add a b

theorem Guards_pow2_pos (e : ℤ) : 0 < Fmt.pow2 e := Guard.pow2_pos e

theorem Guards_pow2_mono {a b : ℤ} : (Fmt.pow2 a ≤ Fmt.pow2 b ↔ a ≤ b) ∧ (Fmt.pow2 a < Fmt.pow2 b ↔ a < b) :=
  ⟨Guard.pow2_le_pow2, Guard.pow2_lt_pow2⟩

/-- `ilog2 q = ⌊log₂ q⌋` for every positive rational -/
theorem Guards_ilog2_spec (q : ℚ) (hq : 0 < q) :
    Fmt.pow2 (ilog2 q) ≤ q ∧ q < Fmt.pow2 (ilog2 q + 1) := Guard.ilog2_spec q hq

/-- … and it is the only such integer -/
theorem Guards_ilog2_unique {q : ℚ} {e : ℤ} (h1 : Fmt.pow2 e ≤ q) (h2 : q < Fmt.pow2 (e + 1)) :
    ilog2 q = e := Guard.ilog2_unique h1 h2

/-! ## 2. `ulpIdx` -/

theorem Guards_ulpIdx_zero (f : Fmt) : ulpIdx f 0 = 0 := Guard.ulpIdx_zero f

/-- the bit pattern of 1.0 read as an integer: `(bias) · 2^mant` -/
theorem Guards_ulpIdx_one (f : Fmt) : ulpIdx f 1 = (1 - (f.emin : ℚ)) * (2 : ℚ) ^ f.mant := by
  rw [Guard.ulpIdx_one, Guard.P_eq]

/-- concretely: `0x3F800000` and `0x3FF0000000000000` -/
theorem Guards_ulpIdx_one_bits : ulpIdx .f32 1 = 0x3F800000 ∧ ulpIdx .f64 1 = 0x3FF0000000000000 := by
  constructor <;> (rw [Guards_ulpIdx_one]; norm_num [Fmt.emin, Fmt.mant])

/-- closed form on a binade `2^e ≤ x < 2^(e+1)`, `e ≥ emin` (normal numbers), and on `[0, 2^emin)` (subnormals) -/
theorem Guards_ulpIdx_normal {e : ℤ} {x : ℚ} (he : f.emin ≤ e) (h1 : Fmt.pow2 e ≤ x) (h2 : x < Fmt.pow2 (e + 1)) :
    ulpIdx f x = ((e : ℚ) - f.emin + x / Fmt.pow2 e) * (2 : ℚ) ^ f.mant := by
  have hx : 0 ≤ x := le_trans (Guard.pow2_pos e).le h1
  rw [Guard.ulpIdx_bin ⟨he, Or.inl h1, hx, h2⟩, Guard.P_eq]; push_cast; rfl

theorem Guards_ulpIdx_subnormal {x : ℚ} (h1 : 0 ≤ x) (h2 : x < Fmt.pow2 f.emin) :
    ulpIdx f x = x / Fmt.pow2 f.emin * (2 : ℚ) ^ f.mant := by
  rw [Guard.ulpIdx_bin ⟨le_rfl, Or.inr rfl, h1, lt_of_lt_of_le h2 (Guard.pow2_mono (by omega))⟩,
    Guard.P_eq]
  simp

/-- `ulpIdx` only depends on `|q|`, is non-negative, and strictly increasing in `|q|` -/
theorem Guards_ulpIdx_mono (f : Fmt) :
    (∀ q, ulpIdx f (-q) = ulpIdx f q) ∧ (∀ q, 0 ≤ ulpIdx f q) ∧
    (∀ a b : ℚ, 0 ≤ a → a < b → ulpIdx f a < ulpIdx f b) :=
  ⟨Guard.ulpIdx_neg f, Guard.ulpIdx_nonneg f, fun _ _ ha hab => Guard.ulpIdx_lt ha hab⟩

/-- below 2 the representable values are at most `ε` apart: `ulpIdx` grows at least `2^mant` per unit -/
theorem Guards_ulpIdx_slope {a b : ℚ} (ha : 0 ≤ a) (hab : a ≤ b) (hb : b < 2) :
    (2 : ℚ) ^ f.mant * (b - a) ≤ ulpIdx f b - ulpIdx f a := by
  rw [← Guard.P_eq]; exact Guard.ulpIdx_sub_ge ha hab hb

/-! ## 3–5. the guards are `ulps_eq!` -/

/-- `is_zero(v) = ulps_eq!(v, 0.0)`, on rationals … -/
theorem Guards_isZero_eq_ulpsEq (a : ℚ) :
    XQ.isZero (XQ.fin a : XQ f) = XQ.ulpsEq (XQ.fin a : XQ f) (XQ.fin 0) := Guard.isZero_eq_ulpsEq a

/-- … and as `Scalar` operations on every extended value -/
theorem Guards_isZero_eq_ulpsEq' (x : XQ f) : Scalar.isZero x = Scalar.ulpsEq x (Scalar.zero : XQ f) := by
  cases x with
  | fin a => exact Guard.isZero_eq_ulpsEq a
  | pinf => rfl
  | ninf => rfl
  | nan => rfl

/-- `is_one(v) = ulps_eq!(v, 1.0)` -/
theorem Guards_isOne_eq_ulpsEq (a : ℚ) :
    XQ.isOne (XQ.fin a : XQ f) = XQ.ulpsEq (XQ.fin a : XQ f) (XQ.fin 1) := Guard.isOne_eq_ulpsEq a

theorem Guards_isOne_eq_ulpsEq' (x : XQ f) : Scalar.isOne x = Scalar.ulpsEq x (Scalar.one : XQ f) := by
  cases x with
  | fin a => exact Guard.isOne_eq_ulpsEq a
  | pinf => rfl
  | ninf => rfl
  | nan => rfl

/-- the 4-step clause of `ulps_eq!(v, 1.0)` alone, for `v ≥ 0`: exactly `[1-2ε, 1+4ε]`
    (steps are `ε/2` below 1 and `ε` above) -/
theorem Guards_four_steps_of_one {a : ℚ} (ha : 0 ≤ a) :
    |ulpIdx f a - ulpIdx f 1| ≤ 4 ↔ 1 - 2 * f.eps ≤ a ∧ a ≤ 1 + 4 * f.eps := Guard.ulpIdx_near_one ha

/-- the 4-step clause of `ulps_eq!(v, 0.0)` alone, for `v ≥ 0`: exactly `v ≤ 4·2^(emin-mant)` (four
    subnormal steps), which is below `ε` -/
theorem Guards_four_steps_of_zero {a : ℚ} (ha : 0 ≤ a) :
    (|ulpIdx f a - ulpIdx f 0| ≤ 4 ↔ a ≤ 4 * Fmt.pow2 f.emin * f.eps) ∧
    4 * Fmt.pow2 f.emin * f.eps ≤ f.eps := by
  have h0 := XQ.eps_pos f
  have hp := Guard.pow2_pos f.emin
  have hx0 : 0 ≤ 4 * Fmt.pow2 f.emin * f.eps := by positivity
  constructor
  · rw [Guard.ulpIdx_zero, sub_zero, abs_of_nonneg (Guard.ulpIdx_nonneg f a),
      ← Guard.ulpIdx_le_iff (f := f) ha hx0, Guard.ulpIdx_four]
  · exact Guard.le_eps_of_ulpIdx_le_four hx0 (Guard.ulpIdx_four f).le

/-- `in_unit_interval(v)` (model text: `is_zero`/`is_one`) is `is_in_range(v, 0, 1)` (crate text: `ulps_eq!`) -/
theorem Guards_inUnit_eq_isInRange (a : ℚ) :
    Scalar.inUnit (XQ.fin a : XQ f) = Scalar.isInRange (XQ.fin a) (XQ.fin 0 : XQ f) (XQ.fin 1) :=
  Guard.inUnit_eq_isInRange a

theorem Guards_inUnit_eq_isInRange' (x : XQ f) :
    Scalar.inUnit x = Scalar.isInRange x (Scalar.zero : XQ f) Scalar.one := by
  unfold Scalar.inUnit Scalar.isInRange
  rw [Guards_isZero_eq_ulpsEq', Guards_isOne_eq_ulpsEq']

/-! ## 6. `ulps_eq!` entries are `4ε`-close; the base-rate sum of a fused opinion -/

/-- two values of magnitude below 2 (in particular two entries in `[0, 1+4ε]`) that are `ulps_eq!`
    differ by at most `4ε` (sharp: `1` and `1+4ε`) -/
theorem Guards_ulpsEq_entry_bound {a b : ℚ} (ha : |a| < 2) (hb : |b| < 2)
    (h : XQ.ulpsEq (XQ.fin a : XQ f) (XQ.fin b) = true) : |a - b| ≤ 4 * f.eps :=
  Guard.ulpsEq_bound ha hb h

/-- the form asked for: entries in `[0, 1+4ε]` -/
theorem Guards_ulpsEq_entry_bound' {a b : ℚ} (ha : 0 ≤ a ∧ a ≤ 1 + 4 * f.eps)
    (hb : 0 ≤ b ∧ b ≤ 1 + 4 * f.eps)
    (h : XQ.ulpsEq (XQ.fin a : XQ f) (XQ.fin b) = true) : |a - b| ≤ 4 * f.eps := by
  have h1 := Guard.eps_le_eighth f
  apply Guards_ulpsEq_entry_bound _ _ h
  · rw [abs_of_nonneg ha.1]; linarith [ha.2]
  · rw [abs_of_nonneg hb.1]; linarith [hb.2]

theorem Guards_entry_bound_sharp :
    XQ.ulpsEq (XQ.fin 1 : XQ f) (XQ.fin (1 + 4 * f.eps)) = true ∧ |1 - (1 + 4 * f.eps)| = 4 * f.eps := by
  have h0 := XQ.eps_pos f
  constructor
  · simp only [XQ.ulpsEq, XQ.absQ_eq_abs, Bool.or_eq_true, Bool.and_eq_true, decide_eq_true_eq]
    right
    refine ⟨⟨fun _ => by linarith, fun _ => zero_le_one⟩, ?_⟩
    rw [Guard.ulpIdx_hi]; simp
  · rw [abs_sub_comm, abs_of_nonneg (by linarith)]; ring

/-- C02, base-rate sum: the fused base rate of two well-formed opinions sums to one up to `4·n·ε`.  (Proved for the
    `ulps_eq!` shortcut of `compute_base_rate` from `Guards_ulpsEq_entry_bound`; since repair c8a7116 of the crate the
    shortcut is taken at exactly equal entries only, the sum is exactly one -- `C02_base_rate_sum` -- and this bound
    is kept as its corollary.  The entry bound above remains a fact about `ulps_eq!`; fusion no longer uses it.) -/
theorem C02_base_rate_sum_eps (op : FuseOp) (same : Bool) {b1 b2 a1 a2 : Fin n → ℚ} {u1 u2 : ℚ}
    (h1 : WF b1 u1 a1) (h2 : WF b2 u2 a2) :
    |∑ i, (fuseQ f op same b1 u1 a1 b2 u2 a2).2.2 i - 1| ≤ 4 * n * f.eps := by
  have h0 := XQ.eps_pos f
  rw [C02.C02_base_rate_sum (f := f) op same h1 h2, sub_self, abs_zero]
  positivity

/-! ## non-vacuity / concrete values -/

/-- the closed form and the generic definition on concrete values (f32): `ε` itself is `ulps_eq!` to 0,
    `1 + 4ε` is `ulps_eq!` to 1 only through the 4-step clause, `1 + 5ε` is not -/
example : XQ.ulpsEq (XQ.fin Fmt.f32.eps : XQ .f32) (XQ.fin 0) = true := by
  rw [← Guards_isZero_eq_ulpsEq]
  simp [XQ.isZero, XQ.absQ_eq_abs, abs_of_pos (XQ.eps_pos _)]

example : XQ.ulpsEq (XQ.fin (1 + 4 * Fmt.f32.eps) : XQ .f32) (XQ.fin 1) = true := by
  rw [← Guards_isOne_eq_ulpsEq]
  have := XQ.eps_pos Fmt.f32
  simp only [XQ.isOne, decide_eq_true_eq]
  exact ⟨by linarith, le_rfl⟩

example : XQ.ulpsEq (XQ.fin (1 + 5 * Fmt.f64.eps) : XQ .f64) (XQ.fin 1) = false := by
  rw [← Guards_isOne_eq_ulpsEq]
  have := XQ.eps_pos Fmt.f64
  simp only [XQ.isOne, decide_eq_false_iff_not, not_and, not_le]
  intro _; linarith

/-- `C02_base_rate_sum_eps` applies to the operands of the repaired C02 defect witness (a fused base rate that summed
    to `1 + ε/4` before repair c8a7116) -/
example : WF (n := 3) ![1/4, 1/4, 0] (1/2) ![8388609/16777216, 8388607/16777216, 0] ∧
    WF (n := 3) ![1/4, 1/4, 0] (1/2) ![1/2, 0, 1/2] := by
  constructor <;> constructor <;> simp [Fin.forall_fin_succ, Fin.sum_univ_succ] <;> norm_num

end SLV.Props.Guards
