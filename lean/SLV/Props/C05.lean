/-
  C05 — For well-formed conditionals X->Y and strictly positive base rates on X, the inverted
  conditionals Y->X are well-formed, their projected probabilities satisfy Bayes' theorem
  P(x|y) = a(x)P(y|x) / Σ_x' a(x')P(y|x'), their uncertainty never exceeds the largest value compatible
  with that projection (scaled by the conditionals' relative uncertainty and by the irrelevance of y to
  X), and an outcome y that is equally likely under every x inverts to the vacuous opinion.  Abduction
  from an opinion on Y returns a well-formed opinion on X carrying the supplied base rate, whose
  projection is Σ_y P(y)P(x|y) with P(y) taken under the marginal base rate of Y, i.e. the deduction of
  that opinion through the inverted conditionals; it returns nothing exactly when the marginal base
  rate is undefined.

  Property theorems only; helper lemmas and the rational closed forms live in SLV/Refine/C05Lemmas.lean
  (X has `n` values, Y has `m`; `cb x y`, `cu x` the conditionals; `ax`, `ay` the base rates; ε = `f.eps`):
    `InvHyp cb cu ax ay`   conditionals are well-formed simplexes, `ax x > 0`, `Σ ax = 1`, `ay y ≥ 0`, `Σ ay = 1`
    `Pc cb cu ay x y = cb x y + ay y * cu x`                 P(y|x)                    (from C04Lemmas)
    `zcol y    = ∀ x, |P(y|x)| ≤ ε`                            the model's zero-column test
    `qy y      = Σ_x ax x * P(y|x)`                            evidence
    `temp y x  = if zcol y then 1 else P(y|x) / qy y`          likelihood ratio
    `post y x  = temp y x * ax x`                              Bayes posterior (`ax x` on a zero column)
    `irrel y   = 1 - max_x P(y|x) + min_x P(y|x)`
    `maxUxy y  = min_x temp y x`
    `uyx x     = C09.uhat f (cb x) ay (cu x)`                  `max_uncertainty` of the conditional for x
    `weights x = if Σ uyx = 0 then 0 else uyx x / Σ uyx`
    `maxUyx x  = min over {y : |ay y| > ε} of P(y|x) / ay y`  (1 if there is no such y)
    `weightedU x = if |maxUyx x| ≤ ε then 0 else weights x * uyx x / maxUyx x`,  `wprop = Σ_x weightedU x`
    `phi y     = wprop + irrel y - wprop * irrel y`
    `uI y      = maxUxy y * phi y`,   `bI y x = post y x - uI y * ax x`         the inverted conditionals
  All statements are about the executable model `inverse` / `abduceWith` / `abduce` (SLV/Model/Cond.lean)
  at the exact semantics `XQ f`, for every `n`, `m` (`0 < n`, `0 < m` follow from `Σ ax = 1`, `Σ ay = 1`).

  Tolerance bands.  No tolerance-band hypothesis is needed any more (model after fix e624e49: `max_u_yx`
  skips the values of `Y` whose base rate passes `is_zero`, exactly as `max_uncertainty` does, so
  `u_yx[x] = min(1, max_u_yx[x])` and every term of `wprop` is at most the corresponding weight).  The base
  rate on `Y` may even contain zeros.  A column that fails the model's test `∀ x, |P(y|x)| ≤ ε` has
  positive evidence; one that passes it is treated as a zero column, which is a well-formed outcome
  too.  The only theorem with a band hypothesis is the observation `C05_wprop_one` (`∀ y, ε < ay y`).
  What the model did before that fix on a base rate inside the band: SLV/Props/PinnedC05.lean.
-/
import SLV.Refine.C05Lemmas
import SLV.Props.C04
import Mathlib.Data.Fin.VecNotation
import Mathlib.Tactic.FinCases

namespace SLV.Props.C05
open SLV Scalar SLV.C05 SLV.Props.C09
open SLV.C04 (Pc condTab condTab_get bRes uRes)

variable {f : Fmt} {n m : Nat}
variable {cb : Fin n → Fin m → ℚ} {cu : Fin n → ℚ} {ax : Fin n → ℚ} {ay : Fin m → ℚ}

/-! ### 1. refinement -/

/-- the model on lifted well-formed inputs returns the lifted rational table `(bI, uI)`: every division
    has a non-zero denominator (evidence of a column failing the zero test; `ay y` behind the `is_zero`
    filter; `Σ u_yx` and `max_u_yx[x]` behind their guards) and the final normaliser is exactly 1 -/
theorem C05_refines (h : InvHyp cb cu ax ay) :
    inverse (condTab cb cu f) (liftT ax) (liftT ay)
      = condTab (bI f cb cu ax ay) (uI f cb cu ax ay) f :=
  inverse_lift h

/-- entry `y` of the inverted table, spelled out -/
theorem C05_refines_entry (h : InvHyp cb cu ax ay) (y : Fin m) :
    (inverse (condTab cb cu f) (liftT ax) (liftT ay))[y]
      = (⟨liftT (fun x => post f cb cu ax ay y x - uI f cb cu ax ay y * ax x),
          XQ.fin (maxUxy f cb cu ax ay y * phi f cb cu ay y)⟩ : Simplex (XQ f) n) := by
  rw [C05_refines h, condTab_get]
  rfl

/-- `post` is the Bayes posterior on a column that fails the model's zero test, and the prior `ax` on
    one that passes it -/
theorem C05_post_char (y : Fin m) (x : Fin n) :
    ((∀ x, |cb x y + ay y * cu x| ≤ f.eps) → post f cb cu ax ay y x = ax x) ∧
    ((¬ ∀ x, |cb x y + ay y * cu x| ≤ f.eps) → post f cb cu ax ay y x
        = ax x * (cb x y + ay y * cu x) / ∑ x', ax x' * (cb x' y + ay y * cu x')) :=
  ⟨fun hz => post_of_zcol y hz x, fun hz => post_of_not_zcol y hz x⟩

/-- `irrel y = 1 - max_x P(y|x) + min_x P(y|x)` -/
theorem C05_irrel_char (h : InvHyp cb cu ax ay) (y : Fin m) :
    ∃ pmax pmin, irrel cb cu ay y = 1 - pmax + pmin ∧
      (∀ x, cb x y + ay y * cu x ≤ pmax) ∧ (∃ x, pmax = cb x y + ay y * cu x) ∧
      (∀ x, pmin ≤ cb x y + ay y * cu x) ∧ (∃ x, pmin = cb x y + ay y * cu x) :=
  ⟨_, _, rfl, (vmax_spec h.npos _).1, (vmax_spec h.npos _).2, (vmin_spec h.npos _).1,
    (vmin_spec h.npos _).2⟩

/-- `maxUyx x` is the least `P(y|x)/a(y)` over the values of `Y` with `a(y) > ε` (1 if there is none); the
    model's `max_uncertainty` of the conditional for `x` is `min(1, maxUyx x)` -/
theorem C05_uyx_char (h : InvHyp cb cu ax ay) (x : Fin n) :
    uyx f cb cu ay x = min 1 (maxUyx f cb cu ay x) ∧
    (∀ y, f.eps < ay y → maxUyx f cb cu ay x ≤ (cb x y + ay y * cu x) / ay y) ∧
    (((∀ y, ay y ≤ f.eps) ∧ maxUyx f cb cu ay x = 1) ∨
      ∃ y, f.eps < ay y ∧ maxUyx f cb cu ay x = (cb x y + ay y * cu x) / ay y) ∧
    0 ≤ maxUyx f cb cu ay x := by
  have hiff : ∀ y, ¬ |ay y| ≤ f.eps ↔ f.eps < ay y := fun y => by
    rw [abs_of_nonneg (h.hay0 y), not_le]
  obtain ⟨s1, s2⟩ := maxUyx_spec (f := f) (cb := cb) (cu := cu) (ay := ay) x
  refine ⟨uyx_eq_min x, fun y hy => s1 y ((hiff y).mpr hy), ?_, maxUyx_nonneg h x⟩
  rcases s2 with ⟨ha, e⟩ | ⟨y, hy, e⟩
  · left
    exact ⟨fun y => by have := ha y; rwa [abs_of_nonneg (h.hay0 y)] at this, e⟩
  · right
    exact ⟨y, (hiff y).mp hy, e⟩

/-- when every base rate on `Y` is above the band, `maxUyx x ≤ 1` and `max_uncertainty` equals it -/
theorem C05_uyx_char_above_band (h : InvHyp cb cu ax ay) (hay : ∀ y, f.eps < ay y) (x : Fin n) :
    uyx f cb cu ay x = maxUyx f cb cu ay x ∧ maxUyx f cb cu ay x ≤ 1 :=
  ⟨uyx_eq_maxUyx h hay x, maxUyx_le_one h hay x⟩

/-- the weighted proportional uncertainty: each term lies between 0 and `weights x` (it is
    `weights x · min(1, maxUyx x)/maxUyx x`, or 0 behind the guard), the weights are non-negative and sum
    to at most one, hence `wprop ∈ [0,1]` -/
theorem C05_wprop_char (h : InvHyp cb cu ax ay) :
    (∀ x, 0 ≤ weightedU f cb cu ay x ∧ weightedU f cb cu ay x ≤ weights f cb cu ay x) ∧
    (∀ x, maxUyx f cb cu ay x ≤ 1 → weightedU f cb cu ay x
        = if |maxUyx f cb cu ay x| ≤ f.eps then 0 else weights f cb cu ay x) ∧
    (∀ x, 0 ≤ weights f cb cu ay x) ∧ ∑ x, weights f cb cu ay x ≤ 1 ∧
    0 ≤ wprop f cb cu ay ∧ wprop f cb cu ay ≤ 1 := by
  refine ⟨weightedU_bounds h, ?_, weights_nonneg h, sum_weights_le_one, wprop_nonneg h,
    wprop_le_one h⟩
  intro x hle
  unfold weightedU
  split
  · rfl
  · rename_i hne
    have hne0 : maxUyx f cb cu ay x ≠ 0 := by
      intro h0; apply hne; rw [h0]; simpa using le_of_lt (XQ.eps_pos f)
    rw [uyx_eq_min, min_eq_right hle, mul_div_assoc, div_self hne0, mul_one]

/-- observation: as soon as every conditional has `min_y P(y|x)/a(y) > ε`, the weighted proportional
    uncertainty is 1 — whatever the uncertainty masses `cu` of the conditionals are (the model feeds
    `max_uncertainty` of each conditional, not its own uncertainty mass, into the ratio) — and the
    inverted opinions carry the largest uncertainty compatible with Bayes' posterior -/
theorem C05_wprop_one (h : InvHyp cb cu ax ay) (hay : ∀ y, f.eps < ay y)
    (hall : ∀ x, f.eps < maxUyx f cb cu ay x) :
    wprop f cb cu ay = 1 ∧ ∀ y, phi f cb cu ay y = 1 ∧ uI f cb cu ax ay y = maxUxy f cb cu ax ay y := by
  have hw := wprop_eq_one h hay hall
  refine ⟨hw, fun y => ?_⟩
  have hp : phi f cb cu ay y = 1 := by rw [phi_eq, hw]; ring
  exact ⟨hp, by unfold uI; rw [hp, mul_one]⟩

/-! ### 2. Bayes -/

/-- Bayes' theorem on the closed form: for a column with some `P(y|x) > ε`, the projection of the
    inverted opinion under `ax` is the posterior -/
theorem C05_bayes_closed (h : InvHyp cb cu ax ay) (y : Fin m)
    (hnz : ∃ x, f.eps < cb x y + ay y * cu x) (x : Fin n) :
    bI f cb cu ax ay y x + ax x * uI f cb cu ax ay y
      = ax x * (cb x y + ay y * cu x) / ∑ x', ax x' * (cb x' y + ay y * cu x') := by
  rw [proj_bI]
  exact post_of_not_zcol y (not_zcol_of_exists h y hnz) x

/-- the posterior is a distribution over `X` (the evidence is positive) -/
theorem C05_bayes_dist (h : InvHyp cb cu ax ay) (y : Fin m)
    (hnz : ∃ x, f.eps < cb x y + ay y * cu x) :
    0 < ∑ x', ax x' * (cb x' y + ay y * cu x') ∧
    (∀ x, 0 ≤ ax x * (cb x y + ay y * cu x) / ∑ x', ax x' * (cb x' y + ay y * cu x')) ∧
    ∑ x, ax x * (cb x y + ay y * cu x) / ∑ x', ax x' * (cb x' y + ay y * cu x') = 1 := by
  have hz := not_zcol_of_exists h y hnz
  refine ⟨qy_pos h y hz, ?_, ?_⟩
  · intro x
    have := post_nonneg (f := f) h y x
    rw [post_of_not_zcol y hz x] at this
    exact this
  · rw [← sum_post (f := f) h y]
    exact Finset.sum_congr rfl fun x _ => (post_of_not_zcol y hz x).symm

/-! ### 3. well-formedness -/

/-- every inverted opinion is a well-formed simplex -/
theorem C05_wf (h : InvHyp cb cu ax ay) (y : Fin m) :
    (∀ x, 0 ≤ bI f cb cu ax ay y x) ∧ 0 ≤ uI f cb cu ax ay y ∧ uI f cb cu ax ay y ≤ 1 ∧
    ∑ x, bI f cb cu ax ay y x + uI f cb cu ax ay y = 1 :=
  ⟨bI_nonneg h y, uI_nonneg h y, uI_le_one h y, sum_bI h y⟩

/-- … as an opinion with base rate `ax` (the `WF` predicate of C09) -/
theorem C05_wf_opinion (h : InvHyp cb cu ax ay) (y : Fin m) :
    WF (bI f cb cu ax ay y) (uI f cb cu ax ay y) ax :=
  ⟨bI_nonneg h y, uI_nonneg h y, sum_bI h y, fun x => le_of_lt (h.hax0 x), h.hax⟩

/-- Bayes' theorem on the model: the projection (under `ax`) of the inverted opinion for `y` is
    `P(x|y) = a(x) P(y|x) / Σ_x' a(x') P(y|x')` -/
theorem C05_bayes (h : InvHyp cb cu ax ay) (y : Fin m)
    (hnz : ∃ x, f.eps < cb x y + ay y * cu x) :
    ((inverse (condTab cb cu f) (liftT ax) (liftT ay))[y]).projection (liftT ax)
      = liftT (fun x => ax x * (cb x y + ay y * cu x) / ∑ x', ax x' * (cb x' y + ay y * cu x')) := by
  rw [C05_refines h, condTab_get]
  unfold Simplex.projection
  simp only []
  rw [C09_projection (C05_wf_opinion h y)]
  congr 1
  funext x
  exact C05_bayes_closed h y hnz x

/-- in every case (zero column or not) the projection of the inverted opinion is `post y` -/
theorem C05_projection (h : InvHyp cb cu ax ay) (y : Fin m) :
    ((inverse (condTab cb cu f) (liftT ax) (liftT ay))[y]).projection (liftT ax)
      = liftT (post f cb cu ax ay y) := by
  rw [C05_refines h, condTab_get]
  unfold Simplex.projection
  simp only []
  rw [C09_projection (C05_wf_opinion h y)]
  congr 1
  funext x
  exact proj_bI y x

/-! ### 4. the uncertainty bound -/

/-- the uncertainty is `maxUxy y` scaled by `φ y = wprop ⊔ irrel y ∈ [0,1]`; `maxUxy y = min_x P(x|y)/a(x)`
    is the largest uncertainty compatible with the projection `post y` under the base rate `ax`: with a
    larger one some belief mass would be negative -/
theorem C05_u_bound (h : InvHyp cb cu ax ay) (y : Fin m) :
    uI f cb cu ax ay y = maxUxy f cb cu ax ay y * phi f cb cu ay y ∧
    phi f cb cu ay y = wprop f cb cu ay + irrel cb cu ay y - wprop f cb cu ay * irrel cb cu ay y ∧
    0 ≤ wprop f cb cu ay ∧ wprop f cb cu ay ≤ 1 ∧
    0 ≤ irrel cb cu ay y ∧ irrel cb cu ay y ≤ 1 ∧
    0 ≤ phi f cb cu ay y ∧ phi f cb cu ay y ≤ 1 ∧
    uI f cb cu ax ay y ≤ maxUxy f cb cu ax ay y ∧
    (∀ x, maxUxy f cb cu ax ay y ≤ post f cb cu ax ay y x / ax x) ∧
    (∃ x, maxUxy f cb cu ax ay y = post f cb cu ax ay y x / ax x) ∧
    (∀ u', maxUxy f cb cu ax ay y < u' → ∃ x, post f cb cu ax ay y x - u' * ax x < 0) := by
  have hdiv : ∀ x, post f cb cu ax ay y x / ax x = temp f cb cu ax ay y x := by
    intro x; unfold post; exact mul_div_cancel_right₀ _ (ne_of_gt (h.hax0 x))
  refine ⟨rfl, rfl, wprop_nonneg h, wprop_le_one h, irrel_nonneg h y, irrel_le_one h y,
    phi_nonneg h y, phi_le_one h y, uI_le_maxUxy h y, ?_, ?_, ?_⟩
  · intro x; rw [hdiv]; exact (maxUxy_spec h y).1 x
  · obtain ⟨x, e⟩ := (maxUxy_spec (f := f) h y).2
    exact ⟨x, by rw [hdiv]; exact e⟩
  · intro u' hu'
    obtain ⟨x, e⟩ := (maxUxy_spec (f := f) h y).2
    refine ⟨x, ?_⟩
    unfold post
    rw [← e]
    have := mul_lt_mul_of_pos_right hu' (h.hax0 x)
    linarith

/-! ### 5. irrelevant outcomes and zero columns -/

/-- an outcome `y` that is equally likely under every `x` inverts to the vacuous opinion -/
theorem C05_irrelevant (h : InvHyp cb cu ax ay) (y : Fin m)
    (hc : ∀ x x', cb x y + ay y * cu x = cb x' y + ay y * cu x') :
    (inverse (condTab cb cu f) (liftT ax) (liftT ay))[y] = Simplex.vacuous := by
  rw [C05_refines h, condTab_get]
  have e : bI f cb cu ax ay y = fun _ => 0 := funext (bI_irrelevant h y hc)
  rw [e, uI_irrelevant h y hc]
  unfold Simplex.vacuous
  rw [XQ.zero_def, replicate_fin]
  rfl

/-- on the closed form: `irrel y = 1`, `φ y = 1`, every likelihood ratio is 1, `u = 1`, `b = 0` -/
theorem C05_irrelevant_closed (h : InvHyp cb cu ax ay) (y : Fin m)
    (hc : ∀ x x', cb x y + ay y * cu x = cb x' y + ay y * cu x') :
    irrel cb cu ay y = 1 ∧ phi f cb cu ay y = 1 ∧ maxUxy f cb cu ax ay y = 1 ∧
    uI f cb cu ax ay y = 1 ∧ ∀ x, bI f cb cu ax ay y x = 0 := by
  have hi := irrel_irrelevant h y hc
  refine ⟨hi, by rw [phi_eq, hi]; ring, ?_, uI_irrelevant h y hc, bI_irrelevant h y hc⟩
  unfold maxUxy
  have e : temp f cb cu ax ay y = fun _ => 1 := funext (temp_irrelevant h y hc)
  rw [e, vmin_const h.npos]

/-- an outcome that is impossible under every `x` inverts to the vacuous opinion -/
theorem C05_zero_column (h : InvHyp cb cu ax ay) (y : Fin m)
    (hz : ∀ x, cb x y + ay y * cu x = 0) :
    (inverse (condTab cb cu f) (liftT ax) (liftT ay))[y] = Simplex.vacuous :=
  C05_irrelevant h y fun x x' => by rw [hz x, hz x']

/-! ### 6. abduction -/

section abduction
variable {α : Type} [Scalar α]

/-- abduction is the deduction of the opinion on `Y` (with base rate `ay`) through the inverted
    conditionals, for every scalar type -/
theorem C05_abduce_eq (wy : Simplex α m) (conds : CondTab α n m) (ax : Tab α n) (ay : Tab α m) :
    abduceWith wy conds ax ay = deduceOf (Opinion.mk' wy ay) (inverse conds ax ay) ax := rfl

/-- `abduce` returns nothing exactly when the marginal base rate is undefined -/
theorem C05_abduce_none_iff (wy : Simplex α m) (conds : CondTab α n m) (ax : Tab α n) :
    abduce wy conds ax = none ↔ mbr ax conds = none := by
  unfold abduce
  cases mbr ax conds <;> simp

/-- … and otherwise abduces with that marginal base rate -/
theorem C05_abduce_some (wy : Simplex α m) (conds : CondTab α n m) (ax : Tab α n) (ay : Tab α m)
    (hm : mbr ax conds = some ay) :
    abduce wy conds ax = some (abduceWith wy conds ax ay) := by
  unfold abduce
  rw [hm]

end abduction

variable {wb : Fin m → ℚ} {wu : ℚ}

/-- the hypotheses of C04 hold for the opinion on `Y` and the inverted table -/
theorem C05_abduce_hyp (h : InvHyp cb cu ax ay) (hw : WF wb wu ay) :
    SLV.C04.Hyp wb ay wu (bI f cb cu ax ay) (uI f cb cu ax ay) ax :=
  toC04 h hw

/-- abduction on lifted inputs returns the lifted deduction (C04's closed form `bRes`, `uRes`) of the
    opinion `(wb, wu, ay)` through the inverted table `(bI, uI)` under the base rate `ax` -/
theorem C05_abduce_refines (h : InvHyp cb cu ax ay) (hw : WF wb wu ay) :
    abduceWith (⟨liftT wb, XQ.fin wu⟩ : Simplex (XQ f) m) (condTab cb cu f) (liftT ax) (liftT ay)
      = ⟨liftT (bRes wb ay wu (bI f cb cu ax ay) (uI f cb cu ax ay) ax),
         XQ.fin (uRes wb ay wu (bI f cb cu ax ay) (uI f cb cu ax ay) ax), liftT ax⟩ := by
  rw [C05_abduce_eq, C05_refines h]
  exact SLV.Props.C04.C04_refines (C05_abduce_hyp h hw)

/-- the abduced opinion is well-formed -/
theorem C05_abduce_wf (h : InvHyp cb cu ax ay) (hw : WF wb wu ay) :
    WF (bRes wb ay wu (bI f cb cu ax ay) (uI f cb cu ax ay) ax)
      (uRes wb ay wu (bI f cb cu ax ay) (uI f cb cu ax ay) ax) ax :=
  SLV.Props.C04.C04_wf_opinion (C05_abduce_hyp h hw)

/-- … its uncertainty is at most one (with `WF`: all masses in [0,1], summing to one) -/
theorem C05_abduce_u_le_one (h : InvHyp cb cu ax ay) (hw : WF wb wu ay) :
    uRes wb ay wu (bI f cb cu ax ay) (uI f cb cu ax ay) ax ≤ 1 :=
  (SLV.Props.C04.C04_wf (C05_abduce_hyp h hw)).2.2.1

/-- … and carries the supplied base rate -/
theorem C05_abduce_base_rate (h : InvHyp cb cu ax ay) (hw : WF wb wu ay) :
    (abduceWith (⟨liftT wb, XQ.fin wu⟩ : Simplex (XQ f) m) (condTab cb cu f) (liftT ax)
      (liftT ay)).a = liftT ax := by
  rw [C05_abduce_refines h hw]

/-- its projection is `P(x) = Σ_y P(y) P(x|y)` with `P(y) = b(y) + a(y) u` the projection of the opinion
    on `Y` under `ay` and `P(x|y) = post y x` the projection of the inverted opinion for `y` under `ax`
    (`C05_projection`; the Bayes posterior whenever the column is not a zero column, `C05_post_char`) -/
theorem C05_abduce_projection (h : InvHyp cb cu ax ay) (hw : WF wb wu ay) :
    (abduceWith (⟨liftT wb, XQ.fin wu⟩ : Simplex (XQ f) m) (condTab cb cu f) (liftT ax)
      (liftT ay)).projection
      = liftT (fun x => ∑ y, (wb y + ay y * wu) * post f cb cu ax ay y x) := by
  rw [C05_abduce_eq, C05_refines h]
  show (deduceOf (⟨liftT wb, XQ.fin wu, liftT ay⟩ : Opinion (XQ f) m) _ _).projection = _
  rw [SLV.Props.C04.C04_projection (C05_abduce_hyp h hw)]
  congr 1
  funext x
  exact Finset.sum_congr rfl fun y _ => by rw [proj_bI]

/-- … in particular, when no column passes the model's zero test, Bayes' posterior throughout -/
theorem C05_abduce_projection_bayes (h : InvHyp cb cu ax ay) (hw : WF wb wu ay) (hnz : ∀ y, ∃ x, f.eps < cb x y + ay y * cu x) :
    (abduceWith (⟨liftT wb, XQ.fin wu⟩ : Simplex (XQ f) m) (condTab cb cu f) (liftT ax)
      (liftT ay)).projection
      = liftT (fun x => ∑ y, (wb y + ay y * wu) *
          (ax x * (cb x y + ay y * cu x) / ∑ x', ax x' * (cb x' y + ay y * cu x'))) := by
  rw [C05_abduce_projection h hw]
  congr 1
  funext x
  exact Finset.sum_congr rfl fun y _ => by
    rw [post_of_not_zcol y (not_zcol_of_exists h y (hnz y)) x]; rfl

/-- the abduced projection is a distribution over `X` -/
theorem C05_abduce_projection_dist (h : InvHyp cb cu ax ay) (hw : WF wb wu ay) :
    (∀ x, 0 ≤ ∑ y, (wb y + ay y * wu) * post f cb cu ax ay y x) ∧
    ∑ x, ∑ y, (wb y + ay y * wu) * post f cb cu ax ay y x = 1 := by
  constructor
  · intro x
    exact Finset.sum_nonneg fun y _ =>
      mul_nonneg (add_nonneg (hw.hb y) (mul_nonneg (hw.ha0 y) hw.hu)) (post_nonneg h y x)
  · rw [Finset.sum_comm]
    simp only [← Finset.mul_sum, sum_post h, mul_one]
    exact sum_proj hw

/-! ### 6b. repair 9ec2d8b: clamped belief masses, for ALL operands

`inverse` clamps every belief mass `b[x] = p_xy[y][x] - u·ax[x]` at zero before `Simplex::normalized` (the uncertainty
`u = max_u_xy[y]·(…)` is a product, not a difference, and is not clamped).  `abduce` / `abduce_with` end in `deduce_of`,
which clamps both.  No well-formedness and no finiteness of the operands is assumed below. -/

/-- every inverted conditional is the normalisation `Simplex::normalized b u` of belief masses none of which is below
    zero (finite `≥ 0`, `+∞` or NaN) and of an uncertainty `u`; whenever that `u` is not below zero either, no belief mass
    and not the uncertainty of the inverted conditional is below zero -/
theorem C05_masses_nonneg_gen (conds : CondTab (XQ f) n m) (ax : Tab (XQ f) n) (ay : Tab (XQ f) m) (y : Fin m) :
    ∃ (b : Tab (XQ f) n) (u : XQ f),
      (inverse conds ax ay)[y] = Simplex.normalized b u ∧
      (∀ x : Fin n, Scalar.lt b[x] (Scalar.zero : XQ f) = false) ∧
      (Scalar.lt u (Scalar.zero : XQ f) = false →
        (∀ x : Fin n, Scalar.lt ((inverse conds ax ay)[y]).b[x] (Scalar.zero : XQ f) = false) ∧
        Scalar.lt ((inverse conds ax ay)[y]).u (Scalar.zero : XQ f) = false) := by
  unfold inverse
  simp only [Fin.getElem_fin, Vector.getElem_ofFn]
  refine ⟨_, _, rfl, fun x => ?_, fun hu => XQ.notNeg_normalized _ _ (fun x => ?_) hu⟩ <;>
  · simp only [Fin.getElem_fin, Vector.getElem_ofFn]
    exact XQ.notNeg_clamp _

/-- abduction (with a given or the marginal base rate on `Y`): no belief mass and not the uncertainty of the result
    is below zero, for all operands whatsoever -/
theorem C05_abduce_masses_nonneg_gen (wy : Simplex (XQ f) m) (conds : CondTab (XQ f) n m) (ax : Tab (XQ f) n)
    (ay : Tab (XQ f) m) :
    (∀ x : Fin n, Scalar.lt (abduceWith wy conds ax ay).b[x] (Scalar.zero : XQ f) = false) ∧
    Scalar.lt (abduceWith wy conds ax ay).u (Scalar.zero : XQ f) = false :=
  SLV.Props.C04.C04_masses_nonneg_gen _ _ _

/-- … every finite belief mass and a finite uncertainty of an abduced opinion are `≥ 0` -/
theorem C05_abduce_masses_nonneg_fin (wy : Simplex (XQ f) m) (conds : CondTab (XQ f) n m) (ax : Tab (XQ f) n)
    (ay : Tab (XQ f) m) :
    (∀ (x : Fin n) (q : ℚ), (abduceWith wy conds ax ay).b[x] = XQ.fin q → 0 ≤ q) ∧
    (∀ q : ℚ, (abduceWith wy conds ax ay).u = XQ.fin q → 0 ≤ q) :=
  SLV.Props.C04.C04_masses_nonneg_fin _ _ _

/-- non-vacuity / FALSE before the repair: well-formed conditionals `[([0,0],1), ([0,1/2],1/2)]`, `a_Y = [1/2,1/2]` and
    the (ill-formed, finite) base rate `a_X = [3/2, -1/2]`: the un-clamped `inverse` (`Pinned.inverseNoClamp`) returns for
    `y₁` the masses `[0, -1/3]` with uncertainty `4/3 ≥ 0`; the model returns `[0, 0]`, `u = 1` -/
example :
    let conds : CondTab (XQ .f64) 2 2 := #v[⟨#v[.fin 0, .fin 0], .fin 1⟩, ⟨#v[.fin 0, .fin (1/2)], .fin (1/2)⟩]
    let ax : Tab (XQ .f64) 2 := #v[.fin (3/2), .fin (-1/2)]
    let ay : Tab (XQ .f64) 2 := #v[.fin (1/2), .fin (1/2)]
    ((Pinned.inverseNoClamp conds ax ay)[(1 : Fin 2)]).b = #v[.fin 0, .fin (-1/3)] ∧
    ((Pinned.inverseNoClamp conds ax ay)[(1 : Fin 2)]).u = .fin (4/3) ∧
    ((inverse conds ax ay)[(1 : Fin 2)]).b = #v[.fin 0, .fin 0] ∧ ((inverse conds ax ay)[(1 : Fin 2)]).u = .fin 1 := by
  decide +kernel

/-! ### 7. non-vacuity -/

/-- 2×3: two conditionals with different uncertainty; outcome `y₀` is equally likely (1/2) under both
    values of `X`, the other two outcomes are not -/
example : InvHyp (n := 2) (m := 3) ![![1/4, 1/8, 1/8], ![3/8, 1/16, 5/16]] ![1/2, 1/4]
    ![1/3, 2/3] ![1/2, 1/4, 1/4] := by
  constructor <;>
    simp [Fin.sum_univ_two, Fin.sum_univ_three, Fin.forall_fin_succ] <;> norm_num

/-- … whose base rate on `Y` satisfies the extra hypothesis of `C05_wprop_one` -/
example (f : Fmt) : ∀ y : Fin 3, f.eps < (![1/2, 1/4, 1/4] : Fin 3 → ℚ) y := by
  have := eps_lt_quarter f
  intro y; fin_cases y <;> simp <;> linarith

/-- … `y₀` satisfies the hypothesis of `C05_irrelevant`, `y₁` does not and has `P(y₁|x) > ε` -/
example : ∀ x x' : Fin 2,
    (![![1/4, 1/8, 1/8], ![3/8, 1/16, 5/16]] : Fin 2 → Fin 3 → ℚ) x 0 + (![1/2, 1/4, 1/4] : Fin 3 → ℚ) 0 * (![1/2, 1/4] : Fin 2 → ℚ) x
    = (![![1/4, 1/8, 1/8], ![3/8, 1/16, 5/16]] : Fin 2 → Fin 3 → ℚ) x' 0 + (![1/2, 1/4, 1/4] : Fin 3 → ℚ) 0 * (![1/2, 1/4] : Fin 2 → ℚ) x' := by
  intro x x'; fin_cases x <;> fin_cases x' <;> norm_num

/-- 2×2: dogmatic and uncertain conditional, nothing irrelevant -/
example : InvHyp (n := 2) (m := 2) ![![3/4, 1/4], ![1/8, 3/8]] ![0, 1/2] ![1/4, 3/4] ![1/2, 1/2] := by
  constructor <;>
    simp [Fin.sum_univ_two, Fin.forall_fin_succ] <;> norm_num

/-- 2×3 with a zero column: dogmatic conditionals under which `y₂` never occurs -/
example : InvHyp (n := 2) (m := 3) ![![1/2, 1/2, 0], ![1/4, 3/4, 0]] ![0, 0] ![1/4, 3/4]
    ![1/3, 1/3, 1/3] := by
  constructor <;>
    simp [Fin.sum_univ_two, Fin.sum_univ_three, Fin.forall_fin_succ] <;> norm_num

/-- 2×3 with a zero base rate on `y₁` (skipped by `max_uncertainty` and by `max_u_yx`) -/
example : InvHyp (n := 2) (m := 3) ![![1/2, 1/4, 0], ![0, 1/2, 1/4]] ![1/4, 1/4] ![1/3, 2/3]
    ![1/2, 0, 1/2] := by
  constructor <;>
    simp [Fin.sum_univ_two, Fin.sum_univ_three, Fin.forall_fin_succ] <;> norm_num

/-- 2×2 with a base rate on `y₀` inside the guard band (2⁻²⁴ ≤ ε at `f32`): the input on which the
    model before fix e624e49 returned a negative belief mass (SLV/Props/PinnedC05.lean) -/
example : InvHyp Witness.cb Witness.cu Witness.ax Witness.ay := Witness.hyp

/-- an opinion on `Y` for the abduction theorems -/
example : WF (n := 3) ![1/4, 1/4, 0] (1/2) ![1/2, 1/4, 1/4] := by
  constructor <;> simp [Fin.sum_univ_three, Fin.forall_fin_succ] <;> norm_num

end SLV.Props.C05
