/-
  C03 — Fusion agrees with the evidence-space specification.
  The specification is the executable `SLV.Oracle.fuseSpec` (SLV/Oracle/Fuse.lean) over `List ℚ`: opinions
  are mapped to Dirichlet evidence `r_i = W b_i / u`, evidence is added (ACm), averaged (Avg) or averaged
  with confidence weights `1-u` (Wgh) and mapped back; ECm is the uncertainty-maximised ACm result; one
  dogmatic operand decides, two dogmatic operands are averaged, base rates are the confidence/uncertainty
  weighted means (`fuseBaseRateSpec`).

  All statements are about the executable model (`fuse` in SLV/Model/Fuse.lean) at the exact semantics
  `XQ f`, for every domain size `n`, applied to lifted well-formed operands whose uncertainty is PLAIN,
  i.e. outside the two tolerance bands: `u = 0 ∨ u = 1 ∨ ε < u < 1-2ε` (`SLV.Plain`; inside the bands
  `(0, ε]` and `[1-2ε, 1)` the code treats the operand as dogmatic / vacuous, see the end of this file).

  The hypothesis `hsc` ("the per-entry shortcut of `compute_base_rate` is only taken at equal entries") that
  `C03_refines_spec`, `C03_ecm_def`, `C03_two_vacuous`, `C03_base_rates`, `C03_avg_refines_spec` carried while the
  shortcut test was `ulps_eq!` has been DROPPED: since repair c8a7116 the test is exact equality and the hypothesis
  holds by construction (`FuseQ.hsc`).

  Hypothesis that cannot be dropped:
  * `hband` (ECm only) — no fused base-rate entry in `(0, ε]`: `max_uncertainty` skips entries with
    `is_zero(a_i)` (`|a_i| ≤ ε`), the specification skips entries with `a_i ≤ 0`.
-/
import SLV.Props.C09
import SLV.Refine.FuseLemmas
import SLV.Refine.C03Lemmas
import SLV.Refine.C02Lemmas

namespace SLV.Props.C03
open SLV Scalar FuseQ
open SLV.Props.C09 (WF uhat bmax)

variable {f : Fmt} {n : Nat}

/-- the specification's fused base rate on `List.ofFn` tables (any operands) -/
theorem spec_base_rate (op : FuseOp) (same : Bool) (b1 b2 a1 a2 : Fin n → ℚ) (u1 u2 : ℚ) :
    (Oracle.fuseSpec (toOp op) same (List.ofFn b1) u1 (List.ofFn a1) (List.ofFn b2) u2 (List.ofFn a2)).2.2
      = List.ofFn (if same = true then a1 else idealA op a1 u1 a2 u2) := by
  unfold Oracle.fuseSpec
  exact specA_ofFn op same a1 a2 u1 u2

/-- MAIN THEOREM.  On plain well-formed operands `fuse` returns finite (lifted rational) data whose three
    components are exactly the specification's. -/
theorem C03_refines_spec (op : FuseOp) (same : Bool) {b1 b2 a1 a2 : Fin n → ℚ} {u1 u2 : ℚ}
    (h1 : WF b1 u1 a1) (h2 : WF b2 u2 a2) (p1 : Plain f u1) (p2 : Plain f u2)
    (hband : op = .ecm → ∀ x ∈ (Oracle.fuseSpec (toOp op) same (List.ofFn b1) u1 (List.ofFn a1)
        (List.ofFn b2) u2 (List.ofFn a2)).2.2, x = 0 ∨ f.eps < x) :
    ∃ (b : Fin n → ℚ) (u : ℚ) (a : Fin n → ℚ),
      fuse op same (⟨liftT b1, XQ.fin u1, liftT a1⟩ : Opinion (XQ f) n) ⟨liftT b2, XQ.fin u2, liftT a2⟩
        = ⟨liftT b, XQ.fin u, liftT a⟩ ∧
      List.ofFn b = (Oracle.fuseSpec (toOp op) same (List.ofFn b1) u1 (List.ofFn a1)
        (List.ofFn b2) u2 (List.ofFn a2)).1 ∧
      u = (Oracle.fuseSpec (toOp op) same (List.ofFn b1) u1 (List.ofFn a1)
        (List.ofFn b2) u2 (List.ofFn a2)).2.1 ∧
      List.ofFn a = (Oracle.fuseSpec (toOp op) same (List.ofFn b1) u1 (List.ofFn a1)
        (List.ofFn b2) u2 (List.ofFn a2)).2.2 := by
  by_cases hop : op = .ecm
  · subst hop
    have hb : ∀ i, (if same = true then a1 else idealA .ecm a1 u1 a2 u2) i = 0 ∨
        f.eps < (if same = true then a1 else idealA .ecm a1 u1 a2 u2) i := by
      intro i
      apply hband rfl
      rw [spec_base_rate, List.mem_ofFn]
      exact ⟨i, rfl⟩
    refine ⟨_, _, _, fuse_plain_ecm_of_band same h1 h2 p1 p2 hb, ?_, ?_, ?_⟩ <;>
      rw [fuseSpec_ofFn_ecm (f := f) same h1.swf h2.swf a1 a2 hb]
  · refine ⟨_, _, _, fuse_plain hop same h1.swf h2.swf p1 p2, ?_, ?_, ?_⟩ <;>
      rw [fuseSpec_ofFn_of_ne_ecm hop same h1.swf h2.swf a1 a2]

/-! ### the belief part, operator by operator (no hypothesis on the base rates) -/

/-- ACm / Avg / Wgh on plain well-formed operands: the belief part is the specification's, whatever the
    base rates are -/
theorem C03_simplex (op : FuseOp) (hop : op ≠ .ecm) (same : Bool) {b1 b2 : Fin n → ℚ} {u1 u2 : ℚ}
    (h1 : SWF b1 u1) (h2 : SWF b2 u2) (p1 : Plain f u1) (p2 : Plain f u2) (a1 a2 : Fin n → ℚ) :
    ∃ (b : Fin n → ℚ) (u : ℚ) (a : Fin n → ℚ),
      fuse op same (⟨liftT b1, XQ.fin u1, liftT a1⟩ : Opinion (XQ f) n) ⟨liftT b2, XQ.fin u2, liftT a2⟩
        = ⟨liftT b, XQ.fin u, liftT a⟩ ∧
      (List.ofFn b, u) = Oracle.fuseSimplexSpec (toOp op) (List.ofFn b1) u1 (List.ofFn b2) u2 := by
  refine ⟨_, _, _, fuse_lift hop same h1 h2 a1 a2, ?_⟩
  rw [simplexQ_plain_ideal op h1 h2 p1 p2, fuseSimplexSpec_ofFn op h1 h2]

/-- ACm of two non-dogmatic operands: the opinion of the SUM of the operands' evidence -/
theorem C03_acm_evidence (same : Bool) {b1 b2 : Fin n → ℚ} {u1 u2 : ℚ}
    (h1 : SWF b1 u1) (h2 : SWF b2 u2) (p1 : Plain f u1) (p2 : Plain f u2) (a1 a2 : Fin n → ℚ)
    (z1 : u1 ≠ 0) (z2 : u2 ≠ 0) :
    ∃ (b : Fin n → ℚ) (u : ℚ) (a : Fin n → ℚ),
      fuse .acm same (⟨liftT b1, XQ.fin u1, liftT a1⟩ : Opinion (XQ f) n) ⟨liftT b2, XQ.fin u2, liftT a2⟩
        = ⟨liftT b, XQ.fin u, liftT a⟩ ∧
      (List.ofFn b, u) = Oracle.ofEvidence
        (Oracle.zipAdd (Oracle.evidence (List.ofFn b1) u1) (Oracle.evidence (List.ofFn b2) u2)) := by
  obtain ⟨b, u, a, hf, hs⟩ := C03_simplex (f := f) .acm (by decide) same h1 h2 p1 p2 a1 a2
  refine ⟨b, u, a, hf, ?_⟩
  rw [hs]; unfold Oracle.fuseSimplexSpec
  simp only [toOp, z1, z2, and_false, if_false]

/-- Avg of two non-dogmatic operands: the opinion of the AVERAGE of the operands' evidence -/
theorem C03_avg_evidence (same : Bool) {b1 b2 : Fin n → ℚ} {u1 u2 : ℚ}
    (h1 : SWF b1 u1) (h2 : SWF b2 u2) (p1 : Plain f u1) (p2 : Plain f u2) (a1 a2 : Fin n → ℚ)
    (z1 : u1 ≠ 0) (z2 : u2 ≠ 0) :
    ∃ (b : Fin n → ℚ) (u : ℚ) (a : Fin n → ℚ),
      fuse .avg same (⟨liftT b1, XQ.fin u1, liftT a1⟩ : Opinion (XQ f) n) ⟨liftT b2, XQ.fin u2, liftT a2⟩
        = ⟨liftT b, XQ.fin u, liftT a⟩ ∧
      (List.ofFn b, u) = Oracle.ofEvidence (Oracle.scale (1/2)
        (Oracle.zipAdd (Oracle.evidence (List.ofFn b1) u1) (Oracle.evidence (List.ofFn b2) u2))) := by
  obtain ⟨b, u, a, hf, hs⟩ := C03_simplex (f := f) .avg (by decide) same h1 h2 p1 p2 a1 a2
  refine ⟨b, u, a, hf, ?_⟩
  rw [hs]; unfold Oracle.fuseSimplexSpec
  simp only [toOp, z1, z2, and_false, if_false]

/-- Wgh of two non-dogmatic, not both vacuous operands: the opinion of the confidence-weighted
    (`c = 1 - u`) average of the operands' evidence; two vacuous operands give the vacuous opinion -/
theorem C03_wgh_evidence (same : Bool) {b1 b2 : Fin n → ℚ} {u1 u2 : ℚ}
    (h1 : SWF b1 u1) (h2 : SWF b2 u2) (p1 : Plain f u1) (p2 : Plain f u2) (a1 a2 : Fin n → ℚ)
    (z1 : u1 ≠ 0) (z2 : u2 ≠ 0) (hv : ¬ (u1 = 1 ∧ u2 = 1)) :
    ∃ (b : Fin n → ℚ) (u : ℚ) (a : Fin n → ℚ),
      fuse .wgh same (⟨liftT b1, XQ.fin u1, liftT a1⟩ : Opinion (XQ f) n) ⟨liftT b2, XQ.fin u2, liftT a2⟩
        = ⟨liftT b, XQ.fin u, liftT a⟩ ∧
      (List.ofFn b, u) = Oracle.ofEvidence (Oracle.scale (1 / ((1 - u1) + (1 - u2)))
        (Oracle.zipAdd (Oracle.scale (1 - u1) (Oracle.evidence (List.ofFn b1) u1))
          (Oracle.scale (1 - u2) (Oracle.evidence (List.ofFn b2) u2)))) := by
  obtain ⟨b, u, a, hf, hs⟩ := C03_simplex (f := f) .wgh (by decide) same h1 h2 p1 p2 a1 a2
  refine ⟨b, u, a, hf, ?_⟩
  rw [hs]; unfold Oracle.fuseSimplexSpec
  simp only [toOp, z1, z2, hv, and_false, if_false]

/-- ECm is the uncertainty maximisation (`umaxSpec`) of the ACm result under the (common) fused base
    rate -/
theorem C03_ecm_def (same : Bool) {b1 b2 a1 a2 : Fin n → ℚ} {u1 u2 : ℚ}
    (h1 : WF b1 u1 a1) (h2 : WF b2 u2 a2) (p1 : Plain f u1) (p2 : Plain f u2)
    (hband : ∀ i, (if same = true then a1 else idealA .ecm a1 u1 a2 u2) i = 0 ∨
      f.eps < (if same = true then a1 else idealA .ecm a1 u1 a2 u2) i) :
    ∃ (bA : Fin n → ℚ) (uA : ℚ) (b : Fin n → ℚ) (u : ℚ) (a : Fin n → ℚ),
      fuse .acm same (⟨liftT b1, XQ.fin u1, liftT a1⟩ : Opinion (XQ f) n) ⟨liftT b2, XQ.fin u2, liftT a2⟩
        = ⟨liftT bA, XQ.fin uA, liftT a⟩ ∧
      fuse .ecm same (⟨liftT b1, XQ.fin u1, liftT a1⟩ : Opinion (XQ f) n) ⟨liftT b2, XQ.fin u2, liftT a2⟩
        = ⟨liftT b, XQ.fin u, liftT a⟩ ∧
      (List.ofFn b, u) = Oracle.umaxSpec (List.ofFn bA) uA (List.ofFn a) := by
  refine ⟨_, _, _, _, _, fuse_plain (by decide) same h1.swf h2.swf p1 p2,
    fuse_plain_ecm_of_band same h1 h2 p1 p2 hband, ?_⟩
  exact (umaxSpec_ofFn (f := f) _ _ _ hband).symm

/-! ### dogmatic and vacuous operands -/

theorem plain_zero : Plain f 0 := Or.inl rfl
theorem plain_one : Plain f 1 := Or.inr (Or.inl rfl)

/-- exactly one dogmatic operand (ACm, Avg, Wgh): its belief part is returned unchanged -/
theorem C03_one_dogmatic {op : FuseOp} (hop : op ≠ .ecm) (same : Bool) {b1 b2 : Fin n → ℚ} {u : ℚ}
    (a1 a2 : Fin n → ℚ) (hu : u ≠ 0) (pu : Plain f u) :
    (SWF b1 0 → SWF b2 u → ∃ a : Fin n → ℚ,
      fuse op same (⟨liftT b1, XQ.fin 0, liftT a1⟩ : Opinion (XQ f) n) ⟨liftT b2, XQ.fin u, liftT a2⟩
        = ⟨liftT b1, XQ.fin 0, liftT a⟩) ∧
    (SWF b1 u → SWF b2 0 → ∃ a : Fin n → ℚ,
      fuse op same (⟨liftT b1, XQ.fin u, liftT a1⟩ : Opinion (XQ f) n) ⟨liftT b2, XQ.fin 0, liftT a2⟩
        = ⟨liftT b2, XQ.fin 0, liftT a⟩) := by
  constructor
  · intro h1 h2
    refine ⟨baseRateQ f op same a1 0 a2 u, ?_⟩
    rw [fuse_lift hop same h1 h2 a1 a2, simplexQ_plain_ideal op h1 h2 plain_zero pu]
    have : idealS op b1 0 b2 u = (b1, 0) := by unfold idealS; simp [hu]
    rw [this]
  · intro h1 h2
    refine ⟨baseRateQ f op same a1 u a2 0, ?_⟩
    rw [fuse_lift hop same h1 h2 a1 a2, simplexQ_plain_ideal op h1 h2 pu plain_zero]
    have : idealS op b1 u b2 0 = (b2, 0) := by unfold idealS; simp [hu]
    rw [this]

/-- two dogmatic operands (ACm, Avg, Wgh): arithmetic mean of the belief masses AND of the base rates
    (no shortcut in this arm, so no hypothesis on the base rates); shared base rate: unchanged -/
theorem C03_two_dogmatic {op : FuseOp} (hop : op ≠ .ecm) {b1 b2 : Fin n → ℚ}
    (h1 : SWF b1 0) (h2 : SWF b2 0) (a1 a2 : Fin n → ℚ) :
    fuse op false (⟨liftT b1, XQ.fin 0, liftT a1⟩ : Opinion (XQ f) n) ⟨liftT b2, XQ.fin 0, liftT a2⟩
        = ⟨liftT (meanA b1 b2), XQ.fin 0, liftT (meanA a1 a2)⟩ ∧
    fuse op true (⟨liftT b1, XQ.fin 0, liftT a1⟩ : Opinion (XQ f) n) ⟨liftT b2, XQ.fin 0, liftT a2⟩
        = ⟨liftT (meanA b1 b2), XQ.fin 0, liftT a1⟩ ∧
    List.ofFn (meanA b1 b2) = Oracle.meanL (List.ofFn b1) (List.ofFn b2) ∧
    List.ofFn (meanA a1 a2) = Oracle.meanL (List.ofFn a1) (List.ofFn a2) := by
  have hS : simplexQ f op b1 0 b2 0 = (meanA b1 b2, 0) := by
    unfold simplexQ; rw [if_pos ⟨GDog_zero, GDog_zero⟩, dogB_zero]
  have hA : baseRateQ f op false a1 0 a2 0 = meanA a1 a2 := by
    unfold baseRateQ; simp only [Bool.false_eq_true, if_false]; rw [if_pos ⟨GDog_zero, GDog_zero⟩]
  refine ⟨?_, ?_, (meanL_ofFn _ _).symm, (meanL_ofFn _ _).symm⟩
  · rw [fuse_lift hop false h1 h2 a1 a2, hS, hA]
  · rw [fuse_lift hop true h1 h2 a1 a2, hS, baseRateQ_same]

/-- two vacuous operands, every operator (ECm included): the vacuous opinion over the mean base rate -/
theorem C03_two_vacuous (op : FuseOp) {b1 b2 a1 a2 : Fin n → ℚ}
    (h1 : WF b1 1 a1) (h2 : WF b2 1 a2) :
    fuse op false (⟨liftT b1, XQ.fin 1, liftT a1⟩ : Opinion (XQ f) n) ⟨liftT b2, XQ.fin 1, liftT a2⟩
        = ⟨liftT (fun _ => (0 : ℚ)), XQ.fin 1, liftT (meanA a1 a2)⟩ := by
  have hS : ∀ op : FuseOp, idealS op b1 1 b2 1 = ((fun _ => 0 : Fin n → ℚ), (1 : ℚ)) := by
    intro op
    unfold idealS
    simp only [one_ne_zero, and_self, if_false]
    cases op
    · dsimp only
      rw [(acmB_vac_left h1.swf).1, (acmB_vac_left (b2 := b2) h1.swf).2]
      congr 1; funext i; exact h2.swf.b_eq_zero i
    · dsimp only
      rw [(acmB_vac_left h1.swf).1, (acmB_vac_left (b2 := b2) h1.swf).2]
      congr 1; funext i; exact h2.swf.b_eq_zero i
    · dsimp only
      refine Prod.ext (funext fun i => ?_) ?_
      · simp [avgB, h1.swf.b_eq_zero i, h2.swf.b_eq_zero i]
      · simp [avgU]; norm_num
    · simp
  have hA : ∀ op : FuseOp, idealA op a1 1 a2 1 = meanA a1 a2 := by
    intro op; unfold idealA; cases op <;> simp
  by_cases hop : op = .ecm
  · subst hop
    have hd := ideal_dist (f := f) .ecm false h1 h2 plain_one plain_one
    rw [hA] at hd
    simp only [Bool.false_eq_true, if_false] at hd
    have hw : WF (fun _ : Fin n => (0 : ℚ)) 1 (meanA a1 a2) := SWF.vacuous.toWF hd.1 hd.2
    have hu : uhat f (fun _ : Fin n => (0 : ℚ)) (meanA a1 a2) 1 = 1 :=
      le_antisymm (C09.uhat_le_one _ _ _) (C09.C09_max_u_ge hw)
    rw [fuse_plain_ecm false h1 h2 plain_one plain_one
      (by rw [hS, hA]; intro i; simp only [Bool.false_eq_true, if_false]; unfold bmax; rw [hu]; simp), hS, hA]
    simp only [Bool.false_eq_true, if_false]
    rw [hu]
    congr 1
    apply liftT_congr; intro i; unfold bmax; rw [hu]; ring
  · rw [fuse_plain hop false h1.swf h2.swf plain_one plain_one, hS, hA]
    simp

/-! ### base rates -/

/-- the fused base rate is the specification's, every operator: the shared object unchanged, otherwise
    `fuseBaseRateSpec` (mean for two dogmatic / two vacuous operands and for Avg; weights
    `u2(1-u1) : u1(1-u2)` for ACm / ECm and `(1-u1) : (1-u2)` for Wgh) -/
theorem C03_base_rates (op : FuseOp) (same : Bool) {b1 b2 a1 a2 : Fin n → ℚ} {u1 u2 : ℚ}
    (h1 : WF b1 u1 a1) (h2 : WF b2 u2 a2) (p1 : Plain f u1) (p2 : Plain f u2) :
    ∃ (b : Fin n → ℚ) (u : ℚ) (a : Fin n → ℚ),
      fuse op same (⟨liftT b1, XQ.fin u1, liftT a1⟩ : Opinion (XQ f) n) ⟨liftT b2, XQ.fin u2, liftT a2⟩
        = ⟨liftT b, XQ.fin u, liftT a⟩ ∧
      List.ofFn a = (if same = true then List.ofFn a1
        else Oracle.fuseBaseRateSpec (toOp op) (List.ofFn a1) u1 (List.ofFn a2) u2) := by
  refine ⟨_, _, _, fuse_lift_all op same h1 h2, ?_⟩
  rw [fuseQ_a, baseRateQ_plain_ideal op same h1.hu h1.swf.u_le_one h2.hu h2.swf.u_le_one p1 p2,
    specA_ofFn]

/-! ### operands inside the tolerance bands

`is_vacuous()` holds on the band `[1-2ε, 1+4ε]`, `is_dogmatic()` on `[-ε, ε]`.  An operand inside a band is
handled exactly as the exactly vacuous / dogmatic one, so the result is the specification's value AT THE
REPLACED OPERAND.  For the belief part this is within `2ε` of the specification's value at the actual
operand (ACm proved below); for the base rate it is NOT close in general, because the specification's
base-rate weights `u2(1-u1) : u1(1-u2)` are discontinuous at `u1 = u2 = 1` (finding below).
Avg has no vacuity test at all, so it agrees exactly with the specification on the whole band. -/

/-- ACm / ECm / Wgh: a left operand in the vacuous band is fused exactly like the vacuous opinion with
    the same base rate -/
theorem C03_vacuous_band_eq_left {op : FuseOp} (hop : op ≠ .avg) (same : Bool)
    {b1 b2 a1 a2 : Fin n → ℚ} {u1 u2 : ℚ} (h1 : WF b1 u1 a1) (h2 : WF b2 u2 a2)
    (hv : 1 - 2 * f.eps ≤ u1) :
    fuse op same (⟨liftT b1, XQ.fin u1, liftT a1⟩ : Opinion (XQ f) n) ⟨liftT b2, XQ.fin u2, liftT a2⟩
      = fuse op same (⟨liftT (fun _ => (0 : ℚ)), XQ.fin 1, liftT a1⟩ : Opinion (XQ f) n)
          ⟨liftT b2, XQ.fin u2, liftT a2⟩ := by
  have v1 : GVac f u1 := (GVac_iff h1.swf.u_le_one).mpr hv
  have h1' : WF (fun _ : Fin n => (0 : ℚ)) 1 a1 := SWF.vacuous.toWF h1.ha0 h1.ha
  rw [fuse_lift_all op same h1 h2, fuse_lift_all op same h1' h2, fuseQ_vac_left hop same b1 a1 b2 a2 u2 v1]

/-- … and symmetrically for the right operand -/
theorem C03_vacuous_band_eq_right {op : FuseOp} (hop : op ≠ .avg) (same : Bool)
    {b1 b2 a1 a2 : Fin n → ℚ} {u1 u2 : ℚ} (h1 : WF b1 u1 a1) (h2 : WF b2 u2 a2)
    (hv : 1 - 2 * f.eps ≤ u2) :
    fuse op same (⟨liftT b1, XQ.fin u1, liftT a1⟩ : Opinion (XQ f) n) ⟨liftT b2, XQ.fin u2, liftT a2⟩
      = fuse op same (⟨liftT b1, XQ.fin u1, liftT a1⟩ : Opinion (XQ f) n)
          ⟨liftT (fun _ => (0 : ℚ)), XQ.fin 1, liftT a2⟩ := by
  have v2 : GVac f u2 := (GVac_iff h2.swf.u_le_one).mpr hv
  have h2' : WF (fun _ : Fin n => (0 : ℚ)) 1 a2 := SWF.vacuous.toWF h2.ha0 h2.ha
  rw [fuse_lift_all op same h1 h2, fuse_lift_all op same h1 h2', fuseQ_vac_right hop same b1 a1 b2 a2 u1 v2]

/-- Avg agrees with the specification on every well-formed operand pair with `u = 0 ∨ ε < u`
    (in particular on the whole vacuous band) -/
theorem C03_avg_refines_spec (same : Bool) {b1 b2 a1 a2 : Fin n → ℚ} {u1 u2 : ℚ}
    (h1 : WF b1 u1 a1) (h2 : WF b2 u2 a2) (p1 : PlainD f u1) (p2 : PlainD f u2) :
    ∃ (b : Fin n → ℚ) (u : ℚ) (a : Fin n → ℚ),
      fuse .avg same (⟨liftT b1, XQ.fin u1, liftT a1⟩ : Opinion (XQ f) n) ⟨liftT b2, XQ.fin u2, liftT a2⟩
        = ⟨liftT b, XQ.fin u, liftT a⟩ ∧
      (List.ofFn b, u, List.ofFn a) = Oracle.fuseSpec (toOp .avg) same (List.ofFn b1) u1 (List.ofFn a1)
        (List.ofFn b2) u2 (List.ofFn a2) := by
  refine ⟨_, _, _, fuse_lift (by decide) same h1.swf h2.swf a1 a2, ?_⟩
  rw [simplexQ_avg_plainD h1.swf h2.swf p1 p2,
    baseRateQ_avg_plainD same h1.hu h1.swf.u_le_one h2.hu h2.swf.u_le_one p1 p2,
    fuseSpec_ofFn_of_ne_ecm (by decide) same h1.swf h2.swf a1 a2]

/-- ACm, left operand in the vacuous band `[1-2ε, 1]`, right operand plain: the belief part returned by
    the code is within `2ε` (every mass and the uncertainty) of the specification's belief part, which is
    `(List.ofFn bs, us)` -/
theorem C03_vacuous_band_within (same : Bool) {b1 b2 : Fin n → ℚ} {u1 u2 : ℚ}
    (h1 : SWF b1 u1) (h2 : SWF b2 u2) (hv : 1 - 2 * f.eps ≤ u1) (p2 : Plain f u2) (a1 a2 : Fin n → ℚ) :
    ∃ (b : Fin n → ℚ) (u : ℚ) (a : Fin n → ℚ) (bs : Fin n → ℚ) (us : ℚ),
      fuse .acm same (⟨liftT b1, XQ.fin u1, liftT a1⟩ : Opinion (XQ f) n) ⟨liftT b2, XQ.fin u2, liftT a2⟩
        = ⟨liftT b, XQ.fin u, liftT a⟩ ∧
      (List.ofFn bs, us) = Oracle.fuseSimplexSpec (toOp .acm) (List.ofFn b1) u1 (List.ofFn b2) u2 ∧
      (∀ i, |b i - bs i| ≤ 2 * f.eps) ∧ |u - us| ≤ 2 * f.eps := by
  have he := XQ.eps_pos f
  have hl := XQ.eps_lt f
  have v1 : GVac f u1 := (GVac_iff h1.u_le_one).mpr hv
  have hu1 := h1.u_le_one
  have hd0 : 0 ≤ 1 - u1 := sub_nonneg.mpr hu1
  have z1 : u1 ≠ 0 := by intro h; rw [h] at hv; linarith
  refine ⟨_, _, _, _, _, fuse_lift (by decide) same h1 h2 a1 a2,
    (fuseSimplexSpec_ofFn .acm h1 h2).symm, ?_⟩
  rw [simplexQ_vac_left (by decide) b1 b2 u2 v1,
    simplexQ_plain_ideal .acm SWF.vacuous h2 plain_one p2]
  by_cases z2 : u2 = 0
  · subst z2
    have e1 : idealS .acm (fun _ : Fin n => (0 : ℚ)) 1 b2 0 = (b2, 0) := by unfold idealS; simp
    have e2 : idealS .acm b1 u1 b2 0 = (b2, 0) := by unfold idealS; simp [z1]
    rw [e1, e2]
    simp [he.le]
  have e1 : idealS .acm (fun _ : Fin n => (0 : ℚ)) 1 b2 u2 = (b2, u2) := by
    unfold idealS; simp only [one_ne_zero, z2, and_false, if_false]
    rw [(acmB_vac_left SWF.vacuous).1, (acmB_vac_left (b2 := b2) (SWF.vacuous (n := n))).2]
  have e2 : idealS .acm b1 u1 b2 u2 = (acmB b1 u1 b2 u2, acmU u1 u2) := by
    unfold idealS; simp only [z1, z2, and_false, if_false]
  rw [e1, e2]
  have p1 : 0 < u1 := lt_of_le_of_ne h1.hu (Ne.symm z1)
  have ht : 0 < u1 + u2 - u1 * u2 := acm_temp_pos p1 hu1 h2.hu
  have htne : u1 + u2 - u1 * u2 ≠ 0 := ne_of_gt ht
  have hu2t : u2 ≤ u1 + u2 - u1 * u2 := by nlinarith [mul_nonneg h1.hu (sub_nonneg.mpr h2.u_le_one)]
  have hd2 : 1 - u1 ≤ 2 * f.eps := by linarith
  -- any numerator `u2 * w` with `|w| ≤ 1 - u1` gives a quotient bounded by `2ε`
  have bound : ∀ w : ℚ, |w| ≤ 1 - u1 → |u2 * w / (u1 + u2 - u1 * u2)| ≤ 2 * f.eps := by
    intro w hw
    rw [abs_div, abs_of_pos ht, div_le_iff₀ ht, abs_mul, abs_of_nonneg h2.hu]
    calc u2 * |w| ≤ u2 * (1 - u1) := mul_le_mul_of_nonneg_left hw h2.hu
      _ ≤ (u1 + u2 - u1 * u2) * (1 - u1) := mul_le_mul_of_nonneg_right hu2t hd0
      _ ≤ (u1 + u2 - u1 * u2) * (2 * f.eps) := mul_le_mul_of_nonneg_left hd2 ht.le
      _ = 2 * f.eps * (u1 + u2 - u1 * u2) := by ring
  constructor
  · intro i
    have key : b2 i - acmB b1 u1 b2 u2 i
        = u2 * (b2 i * (1 - u1) - b1 i) / (u1 + u2 - u1 * u2) := by
      unfold acmB; rw [eq_div_iff htne, sub_mul, div_mul_cancel₀ _ htne]; ring
    show |b2 i - acmB b1 u1 b2 u2 i| ≤ 2 * f.eps
    rw [key]
    apply bound
    have hb1 := h1.b_le i
    have hb1' := h1.hb i
    have hb2 : b2 i ≤ 1 := by linarith [h2.b_le i, h2.hu]
    have hb2' := h2.hb i
    rw [abs_le]; constructor
    · nlinarith [mul_nonneg hb2' hd0]
    · nlinarith [mul_nonneg (sub_nonneg.mpr hb2) hd0]
  · have key : u2 - acmU u1 u2 = u2 * (u2 * (1 - u1)) / (u1 + u2 - u1 * u2) := by
      unfold acmU; rw [eq_div_iff htne, sub_mul, div_mul_cancel₀ _ htne]; ring
    show |u2 - acmU u1 u2| ≤ 2 * f.eps
    rw [key]
    apply bound
    rw [abs_of_nonneg (mul_nonneg h2.hu hd0)]
    nlinarith [mul_nonneg (sub_nonneg.mpr h2.u_le_one) hd0]

/-- FINDING (tolerance guard × discontinuous specification).  The fused BASE RATE of ACm is not close
    to the specification's when an operand lies in the vacuous band: `u1 = 1-2ε` (treated as vacuous, so
    the code returns the right operand's base rate `a2`), `u2 = 1-3ε` (plain), `a1 = (1,0)`, `a2 = (0,1)`.
    The specification weighs `a1 : a2` as `u2(1-u1) : u1(1-u2) ≈ 2 : 3`; its entry 0 is at least `1/3`,
    the code's is `0`.  (Every format; the belief parts still agree within `2ε`,
    `C03_vacuous_band_within`.) -/
theorem C03_vacuous_band_base_rate_jump (f : Fmt) :
    WF (n := 2) ![2 * f.eps, 0] (1 - 2 * f.eps) ![1, 0] ∧
    WF (n := 2) ![3 * f.eps, 0] (1 - 3 * f.eps) ![0, 1] ∧ Plain f (1 - 3 * f.eps) ∧
    (∃ (b : Fin 2 → ℚ) (u : ℚ),
      fuse .acm false (⟨liftT ![2 * f.eps, 0], XQ.fin (1 - 2 * f.eps), liftT ![1, 0]⟩ : Opinion (XQ f) 2)
          ⟨liftT ![3 * f.eps, 0], XQ.fin (1 - 3 * f.eps), liftT ![0, 1]⟩
        = ⟨liftT b, XQ.fin u, liftT ![0, 1]⟩) ∧
    (∃ s : Fin 2 → ℚ,
      Oracle.fuseBaseRateSpec (toOp .acm) (List.ofFn (![1, 0] : Fin 2 → ℚ)) (1 - 2 * f.eps)
          (List.ofFn (![0, 1] : Fin 2 → ℚ)) (1 - 3 * f.eps) = List.ofFn s ∧ 1 / 3 ≤ s 0) := by
  have he := XQ.eps_pos f
  have hl := XQ.eps_lt f
  have h1 : WF (n := 2) ![2 * f.eps, 0] (1 - 2 * f.eps) ![1, 0] := by
    constructor
    · exact Fin.forall_fin_two.mpr ⟨by simp; linarith, by simp⟩
    · linarith
    · simp [Fin.sum_univ_two]
    · exact Fin.forall_fin_two.mpr ⟨by simp, by simp⟩
    · simp [Fin.sum_univ_two]
  have h2 : WF (n := 2) ![3 * f.eps, 0] (1 - 3 * f.eps) ![0, 1] := by
    constructor
    · exact Fin.forall_fin_two.mpr ⟨by simp; linarith, by simp⟩
    · linarith
    · simp [Fin.sum_univ_two]
    · exact Fin.forall_fin_two.mpr ⟨by simp, by simp⟩
    · simp [Fin.sum_univ_two]
  refine ⟨h1, h2, Or.inr (Or.inr ⟨by linarith, by linarith⟩), ?_, ?_⟩
  · refine ⟨(simplexQ f .acm ![2 * f.eps, 0] (1 - 2 * f.eps) ![3 * f.eps, 0] (1 - 3 * f.eps)).1,
      (simplexQ f .acm ![2 * f.eps, 0] (1 - 2 * f.eps) ![3 * f.eps, 0] (1 - 3 * f.eps)).2, ?_⟩
    rw [fuse_lift (by decide) false h1.swf h2.swf]
    have nd1 : ¬ GDog f (1 - 2 * f.eps) := by
      unfold GDog; rw [abs_of_pos (by linarith)]; linarith
    have v1 : GVac f (1 - 2 * f.eps) := ⟨le_refl _, by linarith⟩
    have nv2 : ¬ GVac f (1 - 3 * f.eps) := by rintro ⟨h, _⟩; linarith
    have hA : baseRateQ f .acm false (![1, 0] : Fin 2 → ℚ) (1 - 2 * f.eps) ![0, 1] (1 - 3 * f.eps)
        = ![0, 1] := by
      unfold baseRateQ
      simp only [Bool.false_eq_true, if_false, nd1, v1, nv2, false_and, and_false, true_or, if_true]
    rw [hA]
  · refine ⟨_, fuseBaseRateSpec_ofFn .acm _ _ _ _, ?_⟩
    have z1 : (1 : ℚ) - 2 * f.eps ≠ 0 := by linarith
    have n1 : (1 : ℚ) - 2 * f.eps ≠ 1 := by linarith
    have e : idealA .acm (![1, 0] : Fin 2 → ℚ) (1 - 2 * f.eps) ![0, 1] (1 - 3 * f.eps)
        = acmA ![1, 0] (1 - 2 * f.eps) ![0, 1] (1 - 3 * f.eps) := by
      unfold idealA; simp only [z1, n1, false_and, if_false]
    rw [e]
    unfold acmA
    simp only [Matrix.cons_val_zero]
    rw [le_div_iff₀ (by nlinarith)]
    nlinarith

/-! ### non-vacuity -/

/-- all hypotheses of `C03_refines_spec` are satisfied by a non-trivial instance: ECm at f32, ternary
    domain, different base rates (one entry zero), uncertainties 1/2 and 1/4 -/
example :
    WF (n := 3) ![1/4, 1/8, 1/8] (1/2) ![1/2, 1/2, 0] ∧ WF (n := 3) ![1/2, 0, 1/4] (1/4) ![1/2, 0, 1/2] ∧
    Plain Fmt.f32 (1/2) ∧ Plain Fmt.f32 (1/4) ∧
    (FuseOp.ecm = .ecm → ∀ x ∈ (Oracle.fuseSpec (toOp .ecm) false (List.ofFn ![1/4, 1/8, 1/8]) (1/2)
        (List.ofFn (![1/2, 1/2, 0] : Fin 3 → ℚ)) (List.ofFn ![1/2, 0, 1/4]) (1/4)
        (List.ofFn (![1/2, 0, 1/2] : Fin 3 → ℚ))).2.2, x = 0 ∨ Fmt.f32.eps < x) := by
  have hl := XQ.eps_lt Fmt.f32
  have he := XQ.eps_pos Fmt.f32
  refine ⟨?_, ?_, Or.inr (Or.inr ⟨by linarith, by linarith⟩), Or.inr (Or.inr ⟨by linarith, by linarith⟩),
    ?_⟩
  · constructor <;> simp [Fin.forall_fin_succ, Fin.sum_univ_succ] <;> norm_num
  · constructor <;> simp [Fin.forall_fin_succ, Fin.sum_univ_succ] <;> norm_num
  · intro _ x hx
    rw [spec_base_rate, List.mem_ofFn] at hx
    obtain ⟨i, rfl⟩ := hx
    right
    revert i
    simp [Fin.forall_fin_succ, idealA, acmA]
    refine ⟨?_, ?_, ?_⟩ <;> norm_num <;> linarith

end SLV.Props.C03
