/-
  C05 (addendum) — the scaling factor of the inverted uncertainty, outside the guard band.

  With every base rate on `Y` above the band (`∀ y, ε < ay y`) and every `maxUyx x = min_y P(y|x)/a(y)` either
  exactly 0 or above the band, every term of the weighted proportional uncertainty is the corresponding weight
  (`weightedU x = weights x`), so `wprop` is the sum of the weights: 1 as soon as one conditional has
  `maxUyx x > ε`, and 0 when every conditional excludes an outcome (`maxUyx x = 0` for all `x`).  Hence
  `φ y = 1`, `uI y = maxUxy y` in the first case and `φ y = irrel y`, `uI y = maxUxy y · irrel y` in the second.

  Statements are about the exact-rational closed forms of SLV/Refine/C05Lemmas.lean, which `C05_refines` ties to
  the executable model `inverse`.
-/
import SLV.Props.C05

namespace SLV.Props.C05
open SLV Scalar SLV.C05 SLV.Props.C09
open SLV.C04 (Pc condTab condTab_get bRes uRes)

variable {f : Fmt} {n m : Nat}
variable {cb : Fin n → Fin m → ℚ} {cu : Fin n → ℚ} {ax : Fin n → ℚ} {ay : Fin m → ℚ}

/-! ### helper lemmas -/

/-- outside the band every term of `wprop` is the weight itself -/
theorem weightedU_eq_weights (h : InvHyp cb cu ax ay) (hay : ∀ y, f.eps < ay y)
    (hm : ∀ x, maxUyx f cb cu ay x = 0 ∨ f.eps < maxUyx f cb cu ay x) (x : Fin n) :
    weightedU f cb cu ay x = weights f cb cu ay x := by
  have hu := uyx_eq_maxUyx h hay x
  rcases hm x with h0 | hpos
  · have hu0 : uyx f cb cu ay x = 0 := by rw [hu, h0]
    unfold weightedU weights
    rw [h0, hu0]
    simp [le_of_lt (XQ.eps_pos f)]
  · have hM : 0 < maxUyx f cb cu ay x := lt_trans (XQ.eps_pos f) hpos
    unfold weightedU
    rw [if_neg (by rw [abs_of_pos hM]; exact not_le.mpr hpos), hu, mul_div_assoc,
      div_self (ne_of_gt hM), mul_one]

theorem wprop_eq_sum_weights (h : InvHyp cb cu ax ay) (hay : ∀ y, f.eps < ay y)
    (hm : ∀ x, maxUyx f cb cu ay x = 0 ∨ f.eps < maxUyx f cb cu ay x) :
    wprop f cb cu ay = ∑ x, weights f cb cu ay x := by
  unfold wprop
  exact Finset.sum_congr rfl fun x _ => weightedU_eq_weights h hay hm x

/-- a conditional that excludes an outcome whose base rate is above the band has `maxUyx x = 0` -/
theorem maxUyx_eq_zero_of_excluded (h : InvHyp cb cu ax ay) (x : Fin n)
    (hy : ∃ y, f.eps < ay y ∧ cb x y + ay y * cu x = 0) : maxUyx f cb cu ay x = 0 := by
  obtain ⟨y, hy, hz⟩ := hy
  have hle := (maxUyx_spec (f := f) (cb := cb) (cu := cu) (ay := ay) x).1 y (by
    rw [abs_of_pos (lt_trans (XQ.eps_pos f) hy)]; exact not_le.mpr hy)
  have hP : Pc cb cu ay x y = 0 := hz
  rw [hP, zero_div] at hle
  exact le_antisymm hle (maxUyx_nonneg h x)

/-- a common strict lower bound (below 1) of all ratios `P(y|x)/a(y)` is one of `maxUyx x` -/
theorem lt_maxUyx_of_forall (x : Fin n) (c : ℚ) (hc : c < 1)
    (hall : ∀ y, c < (cb x y + ay y * cu x) / ay y) : c < maxUyx f cb cu ay x := by
  rcases (maxUyx_spec (f := f) (cb := cb) (cu := cu) (ay := ay) x).2 with ⟨_, e⟩ | ⟨y, _, e⟩
  · rw [e]; exact hc
  · rw [e]; exact hall y

/-! ### 1. `wprop ∈ {0, 1}` outside the band -/

/-- first case: some conditional has `min_y P(y|x)/a(y) > ε` -/
theorem C05_wprop_one_of_exists (h : InvHyp cb cu ax ay) (hay : ∀ y, f.eps < ay y)
    (hm : ∀ x, maxUyx f cb cu ay x = 0 ∨ f.eps < maxUyx f cb cu ay x)
    (hex : ∃ x, f.eps < maxUyx f cb cu ay x) : wprop f cb cu ay = 1 := by
  obtain ⟨x0, hx0⟩ := hex
  have hS : 0 < uyxSum f cb cu ay := by
    unfold uyxSum
    refine Finset.sum_pos' (fun x _ => uyx_nonneg h x) ⟨x0, Finset.mem_univ _, ?_⟩
    rw [uyx_eq_maxUyx h hay x0]
    exact lt_trans (XQ.eps_pos f) hx0
  rw [wprop_eq_sum_weights h hay hm]
  unfold weights
  simp only [if_neg (ne_of_gt hS), ← Finset.sum_div]
  exact div_self (ne_of_gt hS)

/-- second case: every conditional excludes an outcome -/
theorem C05_wprop_zero_of_forall (hall : ∀ x, maxUyx f cb cu ay x = 0) : wprop f cb cu ay = 0 :=
  wprop_eq_zero fun x => by rw [hall x]; simpa using le_of_lt (XQ.eps_pos f)

/-- outside the guard band the weighted proportional uncertainty is 1 or 0 -/
theorem C05_wprop_zero_one (h : InvHyp cb cu ax ay) (hay : ∀ y, f.eps < ay y)
    (hm : ∀ x, maxUyx f cb cu ay x = 0 ∨ f.eps < maxUyx f cb cu ay x)
    [Decidable (∃ x, f.eps < maxUyx f cb cu ay x)] :
    wprop f cb cu ay = if (∃ x, f.eps < maxUyx f cb cu ay x) then 1 else 0 := by
  split
  · rename_i hex
    exact C05_wprop_one_of_exists h hay hm hex
  · rename_i hex
    apply C05_wprop_zero_of_forall
    intro x
    rcases hm x with h0 | hpos
    · exact h0
    · exact absurd ⟨x, hpos⟩ hex

/-- … as two implications -/
theorem C05_wprop_zero_one' (h : InvHyp cb cu ax ay) (hay : ∀ y, f.eps < ay y)
    (hm : ∀ x, maxUyx f cb cu ay x = 0 ∨ f.eps < maxUyx f cb cu ay x) :
    ((∃ x, f.eps < maxUyx f cb cu ay x) → wprop f cb cu ay = 1) ∧
    ((∀ x, maxUyx f cb cu ay x = 0) → wprop f cb cu ay = 0) :=
  ⟨C05_wprop_one_of_exists h hay hm, C05_wprop_zero_of_forall⟩

/-! ### 2. the scaling factor -/

/-- `φ y = 1` in the first case, `φ y = irrel y` in the second -/
theorem C05_phi_zero_one (h : InvHyp cb cu ax ay) (hay : ∀ y, f.eps < ay y)
    (hm : ∀ x, maxUyx f cb cu ay x = 0 ∨ f.eps < maxUyx f cb cu ay x) (y : Fin m) :
    ((∃ x, f.eps < maxUyx f cb cu ay x) → phi f cb cu ay y = 1) ∧
    ((∀ x, maxUyx f cb cu ay x = 0) → phi f cb cu ay y = irrel cb cu ay y) := by
  constructor
  · intro hex
    rw [phi_eq, C05_wprop_one_of_exists h hay hm hex]; ring
  · intro hall
    rw [phi_eq, C05_wprop_zero_of_forall hall]; ring

/-! ### 3. the uncertainty of the inverted conditional -/

/-- `uI y = maxUxy y` in the first case, `uI y = maxUxy y · irrel y` in the second -/
theorem C05_u_scaled (h : InvHyp cb cu ax ay) (hay : ∀ y, f.eps < ay y)
    (hm : ∀ x, maxUyx f cb cu ay x = 0 ∨ f.eps < maxUyx f cb cu ay x) (y : Fin m) :
    ((∃ x, f.eps < maxUyx f cb cu ay x) → uI f cb cu ax ay y = maxUxy f cb cu ax ay y) ∧
    ((∀ x, maxUyx f cb cu ay x = 0) →
      uI f cb cu ax ay y = maxUxy f cb cu ax ay y * irrel cb cu ay y) := by
  obtain ⟨p1, p2⟩ := C05_phi_zero_one (f := f) h hay hm y
  constructor
  · intro hex
    unfold uI
    rw [p1 hex, mul_one]
  · intro hall
    unfold uI
    rw [p2 hall]

/-! ### 4. non-vacuity -/

/-- second case, 3×3: three dogmatic conditionals each of which excludes one outcome; all hypotheses hold (for
    every format) and every `maxUyx x` is 0 -/
example (f : Fmt) :
    InvHyp (n := 3) (m := 3) ![![3/4, 1/4, 0], ![1/4, 0, 3/4], ![1/4, 3/4, 0]] ![0, 0, 0]
      ![1/2, 1/4, 1/4] ![1/4, 1/4, 1/2] ∧
    (∀ y : Fin 3, f.eps < (![1/4, 1/4, 1/2] : Fin 3 → ℚ) y) ∧
    (∀ x : Fin 3, maxUyx f (![![3/4, 1/4, 0], ![1/4, 0, 3/4], ![1/4, 3/4, 0]] : Fin 3 → Fin 3 → ℚ)
      ![0, 0, 0] ![1/4, 1/4, 1/2] x = 0) := by
  have he := eps_lt_quarter f
  have hI : InvHyp (n := 3) (m := 3) ![![3/4, 1/4, 0], ![1/4, 0, 3/4], ![1/4, 3/4, 0]] ![0, 0, 0]
      ![1/2, 1/4, 1/4] ![1/4, 1/4, 1/2] := by
    constructor <;> simp [Fin.sum_univ_three, Fin.forall_fin_succ] <;> norm_num
  have hay : ∀ y : Fin 3, f.eps < (![1/4, 1/4, 1/2] : Fin 3 → ℚ) y := by
    intro y; fin_cases y <;> simp <;> linarith
  refine ⟨hI, hay, fun x => maxUyx_eq_zero_of_excluded hI x ?_⟩
  match x with
  | 0 => exact ⟨2, hay 2, by norm_num [Matrix.cons_val_two, Matrix.vecHead, Matrix.vecTail]⟩
  | 1 => exact ⟨1, hay 1, by norm_num [Matrix.cons_val_two, Matrix.vecHead, Matrix.vecTail]⟩
  | 2 => exact ⟨2, hay 2, by norm_num [Matrix.cons_val_two, Matrix.vecHead, Matrix.vecTail]⟩

/-- second case, 2×2: the identity table -/
example (f : Fmt) :
    InvHyp (n := 2) (m := 2) ![![1, 0], ![0, 1]] ![0, 0] ![1/2, 1/2] ![1/2, 1/2] ∧
    (∀ y : Fin 2, f.eps < (![1/2, 1/2] : Fin 2 → ℚ) y) ∧
    (∀ x : Fin 2, maxUyx f (![![1, 0], ![0, 1]] : Fin 2 → Fin 2 → ℚ) ![0, 0] ![1/2, 1/2] x = 0) := by
  have he := eps_lt_quarter f
  have hI : InvHyp (n := 2) (m := 2) ![![1, 0], ![0, 1]] ![0, 0] ![1/2, 1/2] ![1/2, 1/2] := by
    constructor <;> simp [Fin.sum_univ_two, Fin.forall_fin_succ] <;> norm_num
  have hay : ∀ y : Fin 2, f.eps < (![1/2, 1/2] : Fin 2 → ℚ) y := by
    intro y; fin_cases y <;> simp <;> linarith
  refine ⟨hI, hay, fun x => maxUyx_eq_zero_of_excluded hI x ?_⟩
  match x with
  | 0 => exact ⟨1, hay 1, by norm_num [Matrix.cons_val_two, Matrix.vecHead, Matrix.vecTail]⟩
  | 1 => exact ⟨0, hay 0, by norm_num [Matrix.cons_val_two, Matrix.vecHead, Matrix.vecTail]⟩

/-- first case (and a mixed table), 2×2: the first (uncertain) conditional has `maxUyx = 3/4 > ε`, the second (dogmatic) excludes `y₀`
    (`maxUyx = 0`): the band-exclusion hypothesis holds and `wprop = 1` -/
example (f : Fmt) :
    InvHyp (n := 2) (m := 2) ![![1/2, 1/4], ![0, 1]] ![1/4, 0] ![1/4, 3/4] ![1/2, 1/2] ∧
    (∀ y : Fin 2, f.eps < (![1/2, 1/2] : Fin 2 → ℚ) y) ∧
    (∀ x : Fin 2, maxUyx f (![![1/2, 1/4], ![0, 1]] : Fin 2 → Fin 2 → ℚ) ![1/4, 0] ![1/2, 1/2] x = 0 ∨
      f.eps < maxUyx f (![![1/2, 1/4], ![0, 1]] : Fin 2 → Fin 2 → ℚ) ![1/4, 0] ![1/2, 1/2] x) ∧
    (∃ x : Fin 2,
      f.eps < maxUyx f (![![1/2, 1/4], ![0, 1]] : Fin 2 → Fin 2 → ℚ) ![1/4, 0] ![1/2, 1/2] x) := by
  have he := eps_lt_quarter f
  have hI : InvHyp (n := 2) (m := 2) ![![1/2, 1/4], ![0, 1]] ![1/4, 0] ![1/4, 3/4] ![1/2, 1/2] := by
    constructor <;> simp [Fin.sum_univ_two, Fin.forall_fin_succ] <;> norm_num
  have hay : ∀ y : Fin 2, f.eps < (![1/2, 1/2] : Fin 2 → ℚ) y := by
    intro y; fin_cases y <;> simp <;> linarith
  have h0 : f.eps < maxUyx f (![![1/2, 1/4], ![0, 1]] : Fin 2 → Fin 2 → ℚ) ![1/4, 0] ![1/2, 1/2] 0 := by
    refine lt_trans he (lt_maxUyx_of_forall 0 (1/4) (by norm_num) ?_)
    intro y; fin_cases y <;> norm_num
  refine ⟨hI, hay, fun x => ?_, ⟨0, h0⟩⟩
  match x with
  | 0 => right; exact h0
  | 1 =>
    left
    exact maxUyx_eq_zero_of_excluded hI 1 ⟨0, hay 0, by norm_num [Matrix.cons_val_two, Matrix.vecHead, Matrix.vecTail]⟩

end SLV.Props.C05
