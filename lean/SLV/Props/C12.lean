/-
  C12 — Binomial multiplication and comultiplication.
  "Binomial multiplication (base rates not both 1) and comultiplication (base rates not both 0) of
   well-formed opinions return well-formed opinions with base rate ax*ay, respectively ax + ay - ax*ay,
   and projected probability P(x)P(y), respectively P(x) + P(y) - P(x)P(y).  Both operators are
   commutative and associative, and they are De Morgan duals: comultiplying the negations of two opinions
   gives the negation of their product."

  All statements are about the executable model (`BOp.mul`, `BOp.comul`, `BOp.neg`, `BOp.projection`,
  `BOp.tryNew` in SLV/Model/Bi.lean; Rust: src/bi.rs:162-189) at the exact semantics `XQ f`, applied to
  lifted rational operands `bop b d u a = ⟨fin b, fin d, fin u, fin a⟩`.
  `.ok` ≙ the Rust call returns, `.error l` ≙ the `unwrap()` inside `new` panics with label `l`.

  Since repair d46c983 both operators divide the three masses by `s = b + d + u` before the checked constructor.  The closed
  forms below add up to `(b₁+u₁)(b₂+u₂) + d₁+d₂-d₁d₂` resp. `(d₁+u₁)(d₂+u₂) + b₁+b₂-b₁b₂` (`C12_mul_sum`, `C12_comul_sum`), which is
  exactly 1 when both operands add up to 1: on such operands the normalisation is the identity (`C12_eq_unnormalised`) and
  every statement below is the one proved for the un-normalised operators.  Only the two lift theorems changed (they now ask
  for operands that add up to 1; the fully general lifts with the quotient are `C12_mul_lift_gen`, `C12_comul_lift_gen`).
  Commutativity for ALL operands survives because the normaliser is symmetric.

  Since repair a66cfd4 `comul` forms the weights `a₁/a`, `a₂/a` (`a = a₁+a₂-a₁a₂`) BEFORE multiplying them with the masses
  (before: the base rates were factors of the numerators and the sum was divided by `a`; subnormal base rates lost all their bits
  in the products).  Over ℚ that is a field identity (`C12.comulD_weights`, `comulU_weights`, used once in
  `BOp.comul_fin_raw`): the closed forms and every statement below are unchanged, `C12_comul_eq_numer_first` states the exact
  agreement with the earlier text on all finite operands with `a ≠ 0`, and commutativity for ALL operands survives because
  the divisor `a` is symmetric.  Outside the domain (`a₁ = a₂ = 0`) both weights are `0/0` (`C12_domain_excluded`).

  Closed forms (x = (b₁,d₁,u₁;a₁), y = (b₂,d₂,u₂;a₂)):
    mul:   a = a₁a₂,  d = d₁+d₂-d₁d₂,
           b = b₁b₂ + ((1-a₁)a₂b₁u₂ + (1-a₂)a₁b₂u₁)/(1-a₁a₂),
           u = u₁u₂ + ((1-a₂)b₁u₂ + (1-a₁)b₂u₁)/(1-a₁a₂)
    comul: a = a₁+a₂-a₁a₂,  b = b₁+b₂-b₁b₂,
           d = d₁d₂ + (a₁(1-a₂)d₁u₂ + a₂(1-a₁)d₂u₁)/a,
           u = u₁u₂ + (a₂d₁u₂ + a₁d₂u₁)/a
-/
import SLV.Props.C10
import SLV.Refine.C12Lemmas
import SLV.Model.Pinned

namespace SLV.Props.C12
open SLV Scalar
open SLV.Props.C10 (BWF)
open SLV.C12

variable {f : Fmt}

/-- a rational binomial opinion lifted into the exact model -/
abbrev bop (b d u a : ℚ) : BOp (XQ f) := ⟨XQ.fin b, XQ.fin d, XQ.fin u, XQ.fin a⟩

variable {b₁ d₁ u₁ a₁ b₂ d₂ u₂ a₂ b₃ d₃ u₃ a₃ : ℚ}

/-! ### 0. the domain -/

/-- for base rates in [0,1] the denominator `1 - a₁a₂` of `mul` vanishes iff both base rates are 1,
    and is positive otherwise -/
theorem C12_mul_domain (h₁ : BWF b₁ d₁ u₁ a₁) (h₂ : BWF b₂ d₂ u₂ a₂) :
    (a₁ * a₂ ≠ 1 ↔ ¬ (a₁ = 1 ∧ a₂ = 1)) ∧ (a₁ * a₂ ≠ 1 → 0 < 1 - a₁ * a₂) :=
  ⟨not_congr (mul_eq_one_iff h₁.ha0 h₁.ha1 h₂.ha0 h₂.ha1),
    mul_den_pos h₁.ha0 h₁.ha1 h₂.ha0 h₂.ha1⟩

/-- for base rates in [0,1] the denominator `a₁+a₂-a₁a₂` of `comul` vanishes iff both base rates are 0,
    and is positive otherwise -/
theorem C12_comul_domain (h₁ : BWF b₁ d₁ u₁ a₁) (h₂ : BWF b₂ d₂ u₂ a₂) :
    (a₁ + a₂ - a₁ * a₂ ≠ 0 ↔ ¬ (a₁ = 0 ∧ a₂ = 0)) ∧
    (a₁ + a₂ - a₁ * a₂ ≠ 0 → 0 < a₁ + a₂ - a₁ * a₂) :=
  ⟨not_congr (comul_eq_zero_iff h₁.ha0 h₁.ha1 h₂.ha0 h₂.ha1),
    comul_den_pos h₁.ha0 h₁.ha1 h₂.ha0⟩

/-! ### 1. multiplication -/

/-- lift, no sign condition needed: for ANY rational operands that add up to 1, with `a₁a₂ ≠ 1`, both divisions of
    `mul` are finite (`XQ.div_fin`, divisor `1 - a₁a₂ ≠ 0`), the normaliser `s = b + d + u` of repair d46c983 is exactly 1
    (`C12_mul_sum`) and `mul` is the checked constructor applied to the closed forms.
    (STATEMENT CHANGED with repair d46c983: the hypotheses `hs₁`, `hs₂` are new -- the operator divides by the sum of the
    closed forms; for operands that do not add up to 1 see `C12_mul_lift_gen`.) -/
theorem C12_mul_lift (hs₁ : b₁ + d₁ + u₁ = 1) (hs₂ : b₂ + d₂ + u₂ = 1) (hne : a₁ * a₂ ≠ 1) :
    BOp.mul (bop b₁ d₁ u₁ a₁ : BOp (XQ f)) (bop b₂ d₂ u₂ a₂)
      = BOp.tryNew
          (XQ.fin (b₁ * b₂ + ((1 - a₁) * a₂ * b₁ * u₂ + (1 - a₂) * a₁ * b₂ * u₁) / (1 - a₁ * a₂)))
          (XQ.fin (d₁ + d₂ - d₁ * d₂))
          (XQ.fin (u₁ * u₂ + ((1 - a₂) * b₁ * u₂ + (1 - a₁) * b₂ * u₁) / (1 - a₁ * a₂)))
          (XQ.fin (a₁ * a₂)) :=
  BOp.mul_fin hne (mul_sum hs₁ hs₂ (fun h => hne (by linarith)))

/-- the three closed forms of the product add up to `(b₁+u₁)(b₂+u₂) + d₁ + d₂ - d₁d₂` for ANY rationals with `a₁a₂ ≠ 1`:
    this is the normaliser `s` of repair d46c983; it is 1 when both operands add up to 1 -/
theorem C12_mul_sum (hne : a₁ * a₂ ≠ 1) :
    (b₁ * b₂ + ((1 - a₁) * a₂ * b₁ * u₂ + (1 - a₂) * a₁ * b₂ * u₁) / (1 - a₁ * a₂))
        + (d₁ + d₂ - d₁ * d₂)
        + (u₁ * u₂ + ((1 - a₂) * b₁ * u₂ + (1 - a₁) * b₂ * u₁) / (1 - a₁ * a₂))
      = (b₁ + u₁) * (b₂ + u₂) + d₁ + d₂ - d₁ * d₂ ∧
    (b₁ + d₁ + u₁ = 1 → b₂ + d₂ + u₂ = 1 → (b₁ + u₁) * (b₂ + u₂) + d₁ + d₂ - d₁ * d₂ = 1) := by
  refine ⟨mul_sum_gen (d₁ := d₁) (d₂ := d₂) (fun h => hne (by linarith)), fun hs₁ hs₂ => ?_⟩
  have e₁ : b₁ + u₁ = 1 - d₁ := by linarith
  have e₂ : b₂ + u₂ = 1 - d₂ := by linarith
  rw [e₁, e₂]; ring

/-- general lift, no well-formedness needed: for ANY rational operands with `a₁a₂ ≠ 1` and a non-zero normaliser
    `S = (b₁+u₁)(b₂+u₂) + d₁ + d₂ - d₁d₂`, `mul` is the checked constructor applied to the closed forms divided by `S` -/
theorem C12_mul_lift_gen (hne : a₁ * a₂ ≠ 1) (hS : (b₁ + u₁) * (b₂ + u₂) + d₁ + d₂ - d₁ * d₂ ≠ 0) :
    BOp.mul (bop b₁ d₁ u₁ a₁ : BOp (XQ f)) (bop b₂ d₂ u₂ a₂)
      = BOp.tryNew
          (XQ.fin ((b₁ * b₂ + ((1 - a₁) * a₂ * b₁ * u₂ + (1 - a₂) * a₁ * b₂ * u₁) / (1 - a₁ * a₂))
            / ((b₁ + u₁) * (b₂ + u₂) + d₁ + d₂ - d₁ * d₂)))
          (XQ.fin ((d₁ + d₂ - d₁ * d₂) / ((b₁ + u₁) * (b₂ + u₂) + d₁ + d₂ - d₁ * d₂)))
          (XQ.fin ((u₁ * u₂ + ((1 - a₂) * b₁ * u₂ + (1 - a₁) * b₂ * u₁) / (1 - a₁ * a₂))
            / ((b₁ + u₁) * (b₂ + u₂) + d₁ + d₂ - d₁ * d₂)))
          (XQ.fin (a₁ * a₂)) :=
  BOp.mul_fin_gen hne hS

/-- the closed-form product of well-formed operands (not both base rates 1) is well-formed:
    all masses non-negative, `b + d + u = 1` exactly, base rate in [0,1] -/
theorem C12_mul_wf (h₁ : BWF b₁ d₁ u₁ a₁) (h₂ : BWF b₂ d₂ u₂ a₂) (hne : a₁ * a₂ ≠ 1) :
    BWF (b₁ * b₂ + ((1 - a₁) * a₂ * b₁ * u₂ + (1 - a₂) * a₁ * b₂ * u₁) / (1 - a₁ * a₂))
      (d₁ + d₂ - d₁ * d₂)
      (u₁ * u₂ + ((1 - a₂) * b₁ * u₂ + (1 - a₁) * b₂ * u₁) / (1 - a₁ * a₂))
      (a₁ * a₂) :=
  mul_bwf h₁ h₂ hne

/-- `mul` of well-formed operands whose base rates are not both 1 is accepted by the checked constructor
    and returns the closed forms -/
theorem C12_mul_ok (h₁ : BWF b₁ d₁ u₁ a₁) (h₂ : BWF b₂ d₂ u₂ a₂) (hne : a₁ * a₂ ≠ 1) :
    BOp.mul (bop b₁ d₁ u₁ a₁ : BOp (XQ f)) (bop b₂ d₂ u₂ a₂)
      = .ok (bop
          (b₁ * b₂ + ((1 - a₁) * a₂ * b₁ * u₂ + (1 - a₂) * a₁ * b₂ * u₁) / (1 - a₁ * a₂))
          (d₁ + d₂ - d₁ * d₂)
          (u₁ * u₂ + ((1 - a₂) * b₁ * u₂ + (1 - a₁) * b₂ * u₁) / (1 - a₁ * a₂))
          (a₁ * a₂)) :=
  BOp.mul_fin_ok h₁ h₂ hne

/-- the disbelief of the product is `1 - (1-d₁)(1-d₂)` -/
theorem C12_mul_disbelief (d₁ d₂ : ℚ) : d₁ + d₂ - d₁ * d₂ = 1 - (1 - d₁) * (1 - d₂) := by ring

/-- base rate of the product: `a₁ a₂` -/
theorem C12_mul_base_rate (h₁ : BWF b₁ d₁ u₁ a₁) (h₂ : BWF b₂ d₂ u₂ a₂) (hne : a₁ * a₂ ≠ 1) :
    (BOp.mul (bop b₁ d₁ u₁ a₁ : BOp (XQ f)) (bop b₂ d₂ u₂ a₂)).map BOp.a = .ok (XQ.fin (a₁ * a₂)) := by
  rw [C12_mul_ok h₁ h₂ hne]; rfl

/-- projected probability of the closed-form product: `P(x) P(y)` (any rationals, `a₁a₂ ≠ 1`) -/
theorem C12_mul_projection_formula (hne : a₁ * a₂ ≠ 1) :
    (b₁ * b₂ + ((1 - a₁) * a₂ * b₁ * u₂ + (1 - a₂) * a₁ * b₂ * u₁) / (1 - a₁ * a₂))
        + a₁ * a₂ * (u₁ * u₂ + ((1 - a₂) * b₁ * u₂ + (1 - a₁) * b₂ * u₁) / (1 - a₁ * a₂))
      = (b₁ + a₁ * u₁) * (b₂ + a₂ * u₂) :=
  mul_proj_gen (fun h => hne (by linarith))

/-- projected probability of the model product is the product of the projected probabilities -/
theorem C12_mul_projection (h₁ : BWF b₁ d₁ u₁ a₁) (h₂ : BWF b₂ d₂ u₂ a₂) (hne : a₁ * a₂ ≠ 1) :
    (BOp.mul (bop b₁ d₁ u₁ a₁ : BOp (XQ f)) (bop b₂ d₂ u₂ a₂)).map BOp.projection
        = .ok (XQ.fin ((b₁ + a₁ * u₁) * (b₂ + a₂ * u₂))) ∧
    (BOp.mul (bop b₁ d₁ u₁ a₁ : BOp (XQ f)) (bop b₂ d₂ u₂ a₂)).map BOp.projection
        = .ok ((bop b₁ d₁ u₁ a₁ : BOp (XQ f)).projection * (bop b₂ d₂ u₂ a₂ : BOp (XQ f)).projection) := by
  have e : (BOp.mul (bop b₁ d₁ u₁ a₁ : BOp (XQ f)) (bop b₂ d₂ u₂ a₂)).map BOp.projection
      = .ok (XQ.fin ((b₁ + a₁ * u₁) * (b₂ + a₂ * u₂))) := by
    rw [C12_mul_ok h₁ h₂ hne]
    show Except.ok (BOp.projection _) = _
    unfold BOp.projection
    simp only [XQ.mul_fin, XQ.add_fin]
    rw [C12_mul_projection_formula hne]
  refine ⟨e, ?_⟩
  rw [e]
  unfold BOp.projection
  simp only [XQ.mul_fin, XQ.add_fin]

/-! ### 2. comultiplication -/

/-- lift, no sign condition needed: for ANY rational operands that add up to 1, with `a₁+a₂-a₁a₂ ≠ 0`
    (STATEMENT CHANGED with repair d46c983: `hs₁`, `hs₂` are new, see `C12_mul_lift`; general form `C12_comul_lift_gen`) -/
theorem C12_comul_lift (hs₁ : b₁ + d₁ + u₁ = 1) (hs₂ : b₂ + d₂ + u₂ = 1) (hne : a₁ + a₂ - a₁ * a₂ ≠ 0) :
    BOp.comul (bop b₁ d₁ u₁ a₁ : BOp (XQ f)) (bop b₂ d₂ u₂ a₂)
      = BOp.tryNew
          (XQ.fin (b₁ + b₂ - b₁ * b₂))
          (XQ.fin (d₁ * d₂ + (a₁ * (1 - a₂) * d₁ * u₂ + a₂ * (1 - a₁) * d₂ * u₁) / (a₁ + a₂ - a₁ * a₂)))
          (XQ.fin (u₁ * u₂ + (a₂ * d₁ * u₂ + a₁ * d₂ * u₁) / (a₁ + a₂ - a₁ * a₂)))
          (XQ.fin (a₁ + a₂ - a₁ * a₂)) :=
  BOp.comul_fin hne (comul_sum hs₁ hs₂ hne)

/-- the three closed forms of the coproduct add up to `(d₁+u₁)(d₂+u₂) + b₁ + b₂ - b₁b₂` for ANY rationals with
    `a₁+a₂-a₁a₂ ≠ 0` (the normaliser `s` of repair d46c983); it is 1 when both operands add up to 1 -/
theorem C12_comul_sum (hne : a₁ + a₂ - a₁ * a₂ ≠ 0) :
    (b₁ + b₂ - b₁ * b₂)
        + (d₁ * d₂ + (a₁ * (1 - a₂) * d₁ * u₂ + a₂ * (1 - a₁) * d₂ * u₁) / (a₁ + a₂ - a₁ * a₂))
        + (u₁ * u₂ + (a₂ * d₁ * u₂ + a₁ * d₂ * u₁) / (a₁ + a₂ - a₁ * a₂))
      = (d₁ + u₁) * (d₂ + u₂) + b₁ + b₂ - b₁ * b₂ ∧
    (b₁ + d₁ + u₁ = 1 → b₂ + d₂ + u₂ = 1 → (d₁ + u₁) * (d₂ + u₂) + b₁ + b₂ - b₁ * b₂ = 1) := by
  refine ⟨comul_sum_gen (b₁ := b₁) (b₂ := b₂) hne, fun hs₁ hs₂ => ?_⟩
  have e₁ : d₁ + u₁ = 1 - b₁ := by linarith
  have e₂ : d₂ + u₂ = 1 - b₂ := by linarith
  rw [e₁, e₂]; ring

/-- general lift, no well-formedness needed: ANY rational operands with `a₁+a₂-a₁a₂ ≠ 0` and a non-zero normaliser -/
theorem C12_comul_lift_gen (hne : a₁ + a₂ - a₁ * a₂ ≠ 0) (hS : (d₁ + u₁) * (d₂ + u₂) + b₁ + b₂ - b₁ * b₂ ≠ 0) :
    BOp.comul (bop b₁ d₁ u₁ a₁ : BOp (XQ f)) (bop b₂ d₂ u₂ a₂)
      = BOp.tryNew
          (XQ.fin ((b₁ + b₂ - b₁ * b₂) / ((d₁ + u₁) * (d₂ + u₂) + b₁ + b₂ - b₁ * b₂)))
          (XQ.fin ((d₁ * d₂ + (a₁ * (1 - a₂) * d₁ * u₂ + a₂ * (1 - a₁) * d₂ * u₁) / (a₁ + a₂ - a₁ * a₂))
            / ((d₁ + u₁) * (d₂ + u₂) + b₁ + b₂ - b₁ * b₂)))
          (XQ.fin ((u₁ * u₂ + (a₂ * d₁ * u₂ + a₁ * d₂ * u₁) / (a₁ + a₂ - a₁ * a₂))
            / ((d₁ + u₁) * (d₂ + u₂) + b₁ + b₂ - b₁ * b₂)))
          (XQ.fin (a₁ + a₂ - a₁ * a₂)) :=
  BOp.comul_fin_gen hne hS

theorem C12_comul_wf (h₁ : BWF b₁ d₁ u₁ a₁) (h₂ : BWF b₂ d₂ u₂ a₂) (hne : a₁ + a₂ - a₁ * a₂ ≠ 0) :
    BWF (b₁ + b₂ - b₁ * b₂)
      (d₁ * d₂ + (a₁ * (1 - a₂) * d₁ * u₂ + a₂ * (1 - a₁) * d₂ * u₁) / (a₁ + a₂ - a₁ * a₂))
      (u₁ * u₂ + (a₂ * d₁ * u₂ + a₁ * d₂ * u₁) / (a₁ + a₂ - a₁ * a₂))
      (a₁ + a₂ - a₁ * a₂) :=
  comul_bwf h₁ h₂ hne

/-- `comul` of well-formed operands whose base rates are not both 0 is accepted by the checked
    constructor and returns the closed forms -/
theorem C12_comul_ok (h₁ : BWF b₁ d₁ u₁ a₁) (h₂ : BWF b₂ d₂ u₂ a₂) (hne : a₁ + a₂ - a₁ * a₂ ≠ 0) :
    BOp.comul (bop b₁ d₁ u₁ a₁ : BOp (XQ f)) (bop b₂ d₂ u₂ a₂)
      = .ok (bop
          (b₁ + b₂ - b₁ * b₂)
          (d₁ * d₂ + (a₁ * (1 - a₂) * d₁ * u₂ + a₂ * (1 - a₁) * d₂ * u₁) / (a₁ + a₂ - a₁ * a₂))
          (u₁ * u₂ + (a₂ * d₁ * u₂ + a₁ * d₂ * u₁) / (a₁ + a₂ - a₁ * a₂))
          (a₁ + a₂ - a₁ * a₂)) :=
  BOp.comul_fin_ok h₁ h₂ hne

/-- base rate of the coproduct: `a₁ + a₂ - a₁ a₂` -/
theorem C12_comul_base_rate (h₁ : BWF b₁ d₁ u₁ a₁) (h₂ : BWF b₂ d₂ u₂ a₂)
    (hne : a₁ + a₂ - a₁ * a₂ ≠ 0) :
    (BOp.comul (bop b₁ d₁ u₁ a₁ : BOp (XQ f)) (bop b₂ d₂ u₂ a₂)).map BOp.a
      = .ok (XQ.fin (a₁ + a₂ - a₁ * a₂)) := by
  rw [C12_comul_ok h₁ h₂ hne]; rfl

/-- projected probability of the closed-form coproduct: `P(x) + P(y) - P(x)P(y)`
    (needs only the two simplex sums and a non-zero divisor) -/
theorem C12_comul_projection_formula (hs₁ : b₁ + d₁ + u₁ = 1) (hs₂ : b₂ + d₂ + u₂ = 1)
    (hne : a₁ + a₂ - a₁ * a₂ ≠ 0) :
    (b₁ + b₂ - b₁ * b₂)
        + (a₁ + a₂ - a₁ * a₂) * (u₁ * u₂ + (a₂ * d₁ * u₂ + a₁ * d₂ * u₁) / (a₁ + a₂ - a₁ * a₂))
      = (b₁ + a₁ * u₁) + (b₂ + a₂ * u₂) - (b₁ + a₁ * u₁) * (b₂ + a₂ * u₂) :=
  comul_proj_gen hs₁ hs₂ hne

/-- projected probability of the model coproduct: `P(x) + P(y) - P(x)P(y)` -/
theorem C12_comul_projection (h₁ : BWF b₁ d₁ u₁ a₁) (h₂ : BWF b₂ d₂ u₂ a₂)
    (hne : a₁ + a₂ - a₁ * a₂ ≠ 0) :
    (BOp.comul (bop b₁ d₁ u₁ a₁ : BOp (XQ f)) (bop b₂ d₂ u₂ a₂)).map BOp.projection
        = .ok (XQ.fin ((b₁ + a₁ * u₁) + (b₂ + a₂ * u₂) - (b₁ + a₁ * u₁) * (b₂ + a₂ * u₂))) ∧
    (BOp.comul (bop b₁ d₁ u₁ a₁ : BOp (XQ f)) (bop b₂ d₂ u₂ a₂)).map BOp.projection
        = .ok ((bop b₁ d₁ u₁ a₁ : BOp (XQ f)).projection + (bop b₂ d₂ u₂ a₂ : BOp (XQ f)).projection
            - (bop b₁ d₁ u₁ a₁ : BOp (XQ f)).projection * (bop b₂ d₂ u₂ a₂ : BOp (XQ f)).projection) := by
  have e : (BOp.comul (bop b₁ d₁ u₁ a₁ : BOp (XQ f)) (bop b₂ d₂ u₂ a₂)).map BOp.projection
      = .ok (XQ.fin ((b₁ + a₁ * u₁) + (b₂ + a₂ * u₂) - (b₁ + a₁ * u₁) * (b₂ + a₂ * u₂))) := by
    rw [C12_comul_ok h₁ h₂ hne]
    show Except.ok (BOp.projection _) = _
    unfold BOp.projection
    simp only [XQ.mul_fin, XQ.add_fin]
    rw [C12_comul_projection_formula h₁.hs h₂.hs hne]
  refine ⟨e, ?_⟩
  rw [e]
  unfold BOp.projection
  simp only [XQ.mul_fin, XQ.add_fin, XQ.sub_fin]

/-! ### 2b. repair d46c983 is an identity in exact arithmetic -/

/-- Repair d46c983 (the result is divided by `s = b + d + u` before the checked constructor): on operands that add up to 1
    (no sign condition) inside the domain the normaliser is exactly 1 and `mul` / `comul` return -- value or error -- what
    the un-normalised operators (`Pinned.mulUnnorm`, `Pinned.comulUnnorm`) returned.  In floating point the un-normalised
    results leave the window of the self-check on plain decimal operands
    (`SLV.Props.Pinned.C12_pinned_mul_decimal_panics`, `C12_pinned_comul_decimal_panics`). -/
theorem C12_eq_unnormalised (hs₁ : b₁ + d₁ + u₁ = 1) (hs₂ : b₂ + d₂ + u₂ = 1) :
    (a₁ * a₂ ≠ 1 →
      BOp.mul (bop b₁ d₁ u₁ a₁ : BOp (XQ f)) (bop b₂ d₂ u₂ a₂)
        = Pinned.mulUnnorm (bop b₁ d₁ u₁ a₁ : BOp (XQ f)) (bop b₂ d₂ u₂ a₂)) ∧
    (a₁ + a₂ - a₁ * a₂ ≠ 0 →
      BOp.comul (bop b₁ d₁ u₁ a₁ : BOp (XQ f)) (bop b₂ d₂ u₂ a₂)
        = Pinned.comulUnnorm (bop b₁ d₁ u₁ a₁ : BOp (XQ f)) (bop b₂ d₂ u₂ a₂)) := by
  constructor
  · intro hne
    have hk : (1 : ℚ) - a₁ * a₂ ≠ 0 := fun h => hne (by linarith)
    have hna : (1 - a₁) + (1 - a₂) - (1 - a₁) * (1 - a₂) = 1 - a₁ * a₂ := by ring
    have hk' : (1 - a₁) + (1 - a₂) - (1 - a₁) * (1 - a₂) ≠ 0 := by rw [hna]; exact hk
    rw [BOp.mul_fin hne (mul_sum hs₁ hs₂ hk)]
    unfold Pinned.mulUnnorm
    simp only [XQ.one_def, XQ.mul_fin, XQ.sub_fin, XQ.add_fin, XQ.div_fin _ _ hk']
    unfold mulB mulU mulD
    rw [hna]
  · intro hne
    rw [BOp.comul_fin hne (comul_sum hs₁ hs₂ hne)]
    unfold Pinned.comulUnnorm
    simp only [XQ.one_def, XQ.mul_fin, XQ.sub_fin, XQ.add_fin, XQ.div_fin _ _ hne]
    rfl

/-! ### 2c. repair a66cfd4 is an identity in exact arithmetic -/

/-- Repair a66cfd4 (`comul` forms the weights `a₁ / a`, `a₂ / a` with `a = a₁ + a₂ - a₁ a₂` BEFORE multiplying them with the
    masses; before, the base rates were factors of the numerators and the sum was divided by `a`): on ALL finite operands
    (no well-formedness, no sign condition, any sum) with `a ≠ 0` the operator returns -- value or error -- exactly what
    the earlier text `Pinned.comulNumerFirst` returned, i.e. the repair does not change the exact semantics.  In floating
    point the earlier text loses every bit of a subnormal base rate in the products
    (`SLV.Props.Pinned.C12_pinned_comul_subnormal_wrong` / `C12_repaired_comul_subnormal`). -/
theorem C12_comul_eq_numer_first (hne : a₁ + a₂ - a₁ * a₂ ≠ 0) :
    BOp.comul (bop b₁ d₁ u₁ a₁ : BOp (XQ f)) (bop b₂ d₂ u₂ a₂)
      = Pinned.comulNumerFirst (bop b₁ d₁ u₁ a₁ : BOp (XQ f)) (bop b₂ d₂ u₂ a₂) := by
  rw [show (bop b₁ d₁ u₁ a₁ : BOp (XQ f)) = ⟨XQ.fin b₁, XQ.fin d₁, XQ.fin u₁, XQ.fin a₁⟩ from rfl,
    show (bop b₂ d₂ u₂ a₂ : BOp (XQ f)) = ⟨XQ.fin b₂, XQ.fin d₂, XQ.fin u₂, XQ.fin a₂⟩ from rfl,
    BOp.comul_fin_raw hne]
  unfold Pinned.comulNumerFirst
  simp only [XQ.one_def, XQ.mul_fin, XQ.sub_fin, XQ.add_fin, XQ.div_fin _ _ hne]
  rfl

/-! ### 3. commutativity — every operand (finite or not, well-formed or not, inside or outside the
    domain): both sides are the same value, or the same error -/

theorem C12_mul_comm (x y : BOp (XQ f)) : BOp.mul x y = BOp.mul y x := by
  unfold BOp.mul
  simp only [XQ.mul_comm' y.a x.a, XQ.mul_comm' y.b x.b, XQ.mul_comm' y.d x.d, XQ.mul_comm' y.u x.u,
    XQ.add_comm' y.d x.d,
    XQ.add_comm' (Scalar.one - y.a) (Scalar.one - x.a), XQ.mul_comm' (Scalar.one - y.a) (Scalar.one - x.a),
    XQ.add_comm' ((Scalar.one - y.a) * x.a * y.b * x.u) ((Scalar.one - x.a) * y.a * x.b * y.u),
    XQ.add_comm' ((Scalar.one - x.a) * y.b * x.u) ((Scalar.one - y.a) * x.b * y.u)]

theorem C12_comul_comm (x y : BOp (XQ f)) : BOp.comul x y = BOp.comul y x := by
  unfold BOp.comul
  -- the divisor `a` of the weights (repair a66cfd4) is the same value in both orders
  have ha : y.a + x.a - y.a * x.a = x.a + y.a - x.a * y.a := by
    rw [XQ.add_comm' y.a x.a, XQ.mul_comm' y.a x.a]
  simp only [ha]
  generalize x.a + y.a - x.a * y.a = A
  simp only [XQ.mul_comm' y.b x.b, XQ.mul_comm' y.d x.d, XQ.mul_comm' y.u x.u, XQ.add_comm' y.b x.b,
    XQ.add_comm' (y.a / A * (Scalar.one - x.a) * y.d * x.u) (x.a / A * (Scalar.one - y.a) * x.d * y.u),
    XQ.add_comm' (x.a / A * y.d * x.u) (y.a / A * x.d * y.u)]

/-! ### 4. De Morgan duality -/

/-- negation on lifted operands: `¬(b,d,u;a) = (d,b,u;1-a)` -/
theorem C12_neg (b d u a : ℚ) : BOp.neg (bop b d u a : BOp (XQ f)) = bop d b u (1 - a) :=
  BOp.neg_fin b d u a

/-- comultiplying the negations gives the negation of the product: `¬x ⊔ ¬y = ¬(x · y)` -/
theorem C12_de_morgan (h₁ : BWF b₁ d₁ u₁ a₁) (h₂ : BWF b₂ d₂ u₂ a₂) (hne : a₁ * a₂ ≠ 1) :
    BOp.comul (BOp.neg (bop b₁ d₁ u₁ a₁ : BOp (XQ f))) (BOp.neg (bop b₂ d₂ u₂ a₂))
      = (BOp.mul (bop b₁ d₁ u₁ a₁ : BOp (XQ f)) (bop b₂ d₂ u₂ a₂)).map BOp.neg := by
  have hne' : (1 - a₁) + (1 - a₂) - (1 - a₁) * (1 - a₂) ≠ 0 := by
    intro h; apply hne
    have e : (1 - a₁) + (1 - a₂) - (1 - a₁) * (1 - a₂) = 1 - a₁ * a₂ := by ring
    linarith
  rw [BOp.neg_fin, BOp.neg_fin, BOp.comul_fin_ok (bwf_neg h₁) (bwf_neg h₂) hne',
    BOp.mul_fin_ok h₁ h₂ hne]
  show _ = Except.ok (BOp.neg _)
  rw [BOp.neg_fin, comulD_neg, comulU_neg, comulA_neg, comulB_eq_mulD]

/-- the dual law: `¬x · ¬y = ¬(x ⊔ y)` -/
theorem C12_de_morgan_dual (h₁ : BWF b₁ d₁ u₁ a₁) (h₂ : BWF b₂ d₂ u₂ a₂)
    (hne : a₁ + a₂ - a₁ * a₂ ≠ 0) :
    BOp.mul (BOp.neg (bop b₁ d₁ u₁ a₁ : BOp (XQ f))) (BOp.neg (bop b₂ d₂ u₂ a₂))
      = (BOp.comul (bop b₁ d₁ u₁ a₁ : BOp (XQ f)) (bop b₂ d₂ u₂ a₂)).map BOp.neg := by
  have hne' : (1 - a₁) * (1 - a₂) ≠ 1 := by
    intro h; apply hne
    have e : (1 - a₁) * (1 - a₂) = 1 - (a₁ + a₂ - a₁ * a₂) := by ring
    linarith
  rw [BOp.neg_fin, BOp.neg_fin, BOp.mul_fin_ok (bwf_neg h₁) (bwf_neg h₂) hne',
    BOp.comul_fin_ok h₁ h₂ hne]
  show _ = Except.ok (BOp.neg _)
  have eA : 1 - comulA a₁ a₂ = (1 - a₁) * (1 - a₂) := by unfold comulA; ring
  rw [BOp.neg_fin, mulB_neg, mulU_neg, eA, ← comulB_eq_mulD]

/-! ### 5. associativity -/

/-- both groupings of a triple product of well-formed operands are accepted and return the SAME
    well-formed opinion, with base rate `a₁a₂a₃`, disbelief `1-(1-d₁)(1-d₂)(1-d₃)` and projected
    probability `P₁P₂P₃`.  `a₁a₂ ≠ 1` and `a₂a₃ ≠ 1` are what the two inner products need; the outer
    divisors `1 - a₁a₂a₃` are then automatically non-zero. -/
theorem C12_mul_assoc_value (h₁ : BWF b₁ d₁ u₁ a₁) (h₂ : BWF b₂ d₂ u₂ a₂) (h₃ : BWF b₃ d₃ u₃ a₃)
    (h12 : a₁ * a₂ ≠ 1) (h23 : a₂ * a₃ ≠ 1) :
    ∃ b u : ℚ,
      BWF b (1 - (1 - d₁) * (1 - d₂) * (1 - d₃)) u (a₁ * a₂ * a₃) ∧
      b + a₁ * a₂ * a₃ * u = (b₁ + a₁ * u₁) * (b₂ + a₂ * u₂) * (b₃ + a₃ * u₃) ∧
      (BOp.mul (bop b₁ d₁ u₁ a₁ : BOp (XQ f)) (bop b₂ d₂ u₂ a₂) >>= fun w => BOp.mul w (bop b₃ d₃ u₃ a₃))
        = .ok (bop b (1 - (1 - d₁) * (1 - d₂) * (1 - d₃)) u (a₁ * a₂ * a₃)) ∧
      (BOp.mul (bop b₂ d₂ u₂ a₂ : BOp (XQ f)) (bop b₃ d₃ u₃ a₃) >>= fun w => BOp.mul (bop b₁ d₁ u₁ a₁) w)
        = .ok (bop b (1 - (1 - d₁) * (1 - d₂) * (1 - d₃)) u (a₁ * a₂ * a₃)) := by
  -- the intermediate results are well-formed
  have w12 := mul_bwf h₁ h₂ h12
  have w23 := mul_bwf h₂ h₃ h23
  have hL : a₁ * a₂ * a₃ ≠ 1 := by
    intro h
    exact h12 ((mul_eq_one_iff w12.ha0 w12.ha1 h₃.ha0 h₃.ha1).mp h).1
  have hR : a₁ * (a₂ * a₃) ≠ 1 := by rw [← mul_assoc]; exact hL
  have wL := mul_bwf w12 h₃ hL
  have wR := mul_bwf h₁ w23 hR
  have pL := mul_proj_gen (b₁ := mulB b₁ u₁ a₁ b₂ u₂ a₂) (u₁ := mulU b₁ u₁ a₁ b₂ u₂ a₂)
    (a₁ := a₁ * a₂) (b₂ := b₃) (u₂ := u₃) (a₂ := a₃) (fun h => hL (by linarith))
  have pR := mul_proj_gen (b₁ := b₁) (u₁ := u₁) (a₁ := a₁) (b₂ := mulB b₂ u₂ a₂ b₃ u₃ a₃)
    (u₂ := mulU b₂ u₂ a₂ b₃ u₃ a₃) (a₂ := a₂ * a₃) (fun h => hR (by linarith))
  have p12 := mul_proj_gen (b₁ := b₁) (u₁ := u₁) (a₁ := a₁) (b₂ := b₂) (u₂ := u₂) (a₂ := a₂)
    (fun h => h12 (by linarith))
  have p23 := mul_proj_gen (b₁ := b₂) (u₁ := u₂) (a₁ := a₂) (b₂ := b₃) (u₂ := u₃) (a₂ := a₃)
    (fun h => h23 (by linarith))
  rw [p12] at pL
  rw [p23] at pR
  have eD : mulD (mulD d₁ d₂) d₃ = 1 - (1 - d₁) * (1 - d₂) * (1 - d₃) := by unfold mulD; ring
  have eD' : mulD d₁ (mulD d₂ d₃) = 1 - (1 - d₁) * (1 - d₂) * (1 - d₃) := by unfold mulD; ring
  have eA : a₁ * (a₂ * a₃) = a₁ * a₂ * a₃ := (mul_assoc _ _ _).symm
  rw [eD] at wL
  rw [eD', eA] at wR
  rw [eA, ← mul_assoc] at pR
  obtain ⟨eb, eu⟩ := assoc_core_mul hL pL pR wL.hs wR.hs
  refine ⟨_, _, wL, pL, ?_, ?_⟩
  · rw [BOp.mul_fin_ok h₁ h₂ h12]
    show BOp.mul _ _ = _
    rw [BOp.mul_fin_ok w12 h₃ hL, eD]
  · rw [BOp.mul_fin_ok h₂ h₃ h23]
    show BOp.mul _ _ = _
    rw [BOp.mul_fin_ok h₁ w23 hR, eD', eA, ← eb, ← eu]

/-- associativity of `mul`: `(x·y)·z = x·(y·z)` as model values -/
theorem C12_mul_assoc (h₁ : BWF b₁ d₁ u₁ a₁) (h₂ : BWF b₂ d₂ u₂ a₂) (h₃ : BWF b₃ d₃ u₃ a₃)
    (h12 : a₁ * a₂ ≠ 1) (h23 : a₂ * a₃ ≠ 1) :
    (BOp.mul (bop b₁ d₁ u₁ a₁ : BOp (XQ f)) (bop b₂ d₂ u₂ a₂) >>= fun w => BOp.mul w (bop b₃ d₃ u₃ a₃))
      = (BOp.mul (bop b₂ d₂ u₂ a₂ : BOp (XQ f)) (bop b₃ d₃ u₃ a₃) >>= fun w => BOp.mul (bop b₁ d₁ u₁ a₁) w) := by
  obtain ⟨b, u, -, -, eL, eR⟩ := C12_mul_assoc_value (f := f) h₁ h₂ h₃ h12 h23
  rw [eL, eR]

/-- both groupings of a triple coproduct of well-formed operands are accepted and return the SAME
    well-formed opinion, with base rate `1-(1-a₁)(1-a₂)(1-a₃)`, belief `1-(1-b₁)(1-b₂)(1-b₃)` and
    projected probability `1-(1-P₁)(1-P₂)(1-P₃)`. -/
theorem C12_comul_assoc_value (h₁ : BWF b₁ d₁ u₁ a₁) (h₂ : BWF b₂ d₂ u₂ a₂) (h₃ : BWF b₃ d₃ u₃ a₃)
    (h12 : a₁ + a₂ - a₁ * a₂ ≠ 0) (h23 : a₂ + a₃ - a₂ * a₃ ≠ 0) :
    ∃ d u : ℚ,
      BWF (1 - (1 - b₁) * (1 - b₂) * (1 - b₃)) d u (1 - (1 - a₁) * (1 - a₂) * (1 - a₃)) ∧
      (1 - (1 - b₁) * (1 - b₂) * (1 - b₃)) + (1 - (1 - a₁) * (1 - a₂) * (1 - a₃)) * u
        = 1 - (1 - (b₁ + a₁ * u₁)) * (1 - (b₂ + a₂ * u₂)) * (1 - (b₃ + a₃ * u₃)) ∧
      (BOp.comul (bop b₁ d₁ u₁ a₁ : BOp (XQ f)) (bop b₂ d₂ u₂ a₂)
          >>= fun w => BOp.comul w (bop b₃ d₃ u₃ a₃))
        = .ok (bop (1 - (1 - b₁) * (1 - b₂) * (1 - b₃)) d u (1 - (1 - a₁) * (1 - a₂) * (1 - a₃))) ∧
      (BOp.comul (bop b₂ d₂ u₂ a₂ : BOp (XQ f)) (bop b₃ d₃ u₃ a₃)
          >>= fun w => BOp.comul (bop b₁ d₁ u₁ a₁) w)
        = .ok (bop (1 - (1 - b₁) * (1 - b₂) * (1 - b₃)) d u (1 - (1 - a₁) * (1 - a₂) * (1 - a₃))) := by
  have w12 := comul_bwf h₁ h₂ h12
  have w23 := comul_bwf h₂ h₃ h23
  have h12' : comulA a₁ a₂ ≠ 0 := h12
  have h23' : comulA a₂ a₃ ≠ 0 := h23
  have hL : comulA a₁ a₂ + a₃ - comulA a₁ a₂ * a₃ ≠ 0 := by
    intro h
    exact h12' ((comul_eq_zero_iff w12.ha0 w12.ha1 h₃.ha0 h₃.ha1).mp h).1
  have hR : a₁ + comulA a₂ a₃ - a₁ * comulA a₂ a₃ ≠ 0 := by
    intro h
    exact h23' ((comul_eq_zero_iff h₁.ha0 h₁.ha1 w23.ha0 w23.ha1).mp h).2
  have wL := comul_bwf w12 h₃ hL
  have wR := comul_bwf h₁ w23 hR
  have pL := comul_proj_gen w12.hs h₃.hs hL
  have pR := comul_proj_gen h₁.hs w23.hs hR
  have p12 := comul_proj_gen h₁.hs h₂.hs h12
  have p23 := comul_proj_gen h₂.hs h₃.hs h23
  rw [p12] at pL
  rw [p23] at pR
  have eB : comulB (comulB b₁ b₂) b₃ = 1 - (1 - b₁) * (1 - b₂) * (1 - b₃) := by
    unfold comulB; ring
  have eB' : comulB b₁ (comulB b₂ b₃) = 1 - (1 - b₁) * (1 - b₂) * (1 - b₃) := by
    unfold comulB; ring
  have eA : comulA (comulA a₁ a₂) a₃ = 1 - (1 - a₁) * (1 - a₂) * (1 - a₃) := by
    unfold comulA; ring
  have eA' : comulA a₁ (comulA a₂ a₃) = 1 - (1 - a₁) * (1 - a₂) * (1 - a₃) := by
    unfold comulA; ring
  have eP : (b₁ + a₁ * u₁ + (b₂ + a₂ * u₂) - (b₁ + a₁ * u₁) * (b₂ + a₂ * u₂)) + (b₃ + a₃ * u₃)
        - (b₁ + a₁ * u₁ + (b₂ + a₂ * u₂) - (b₁ + a₁ * u₁) * (b₂ + a₂ * u₂)) * (b₃ + a₃ * u₃)
      = 1 - (1 - (b₁ + a₁ * u₁)) * (1 - (b₂ + a₂ * u₂)) * (1 - (b₃ + a₃ * u₃)) := by ring
  have eP' : (b₁ + a₁ * u₁) + (b₂ + a₂ * u₂ + (b₃ + a₃ * u₃) - (b₂ + a₂ * u₂) * (b₃ + a₃ * u₃))
        - (b₁ + a₁ * u₁) * (b₂ + a₂ * u₂ + (b₃ + a₃ * u₃) - (b₂ + a₂ * u₂) * (b₃ + a₃ * u₃))
      = 1 - (1 - (b₁ + a₁ * u₁)) * (1 - (b₂ + a₂ * u₂)) * (1 - (b₃ + a₃ * u₃)) := by ring
  rw [eB, eA] at wL pL
  rw [eB', eA'] at wR pR
  rw [eP] at pL
  rw [eP'] at pR
  have hA : 1 - (1 - a₁) * (1 - a₂) * (1 - a₃) ≠ 0 := by
    rw [← eA]; exact fun h => hL h
  obtain ⟨ed, eu⟩ := assoc_core_comul hA pL pR wL.hs wR.hs
  refine ⟨_, _, wL, pL, ?_, ?_⟩
  · rw [BOp.comul_fin_ok h₁ h₂ h12]
    show BOp.comul _ _ = _
    rw [BOp.comul_fin_ok w12 h₃ hL, eB, eA]
  · rw [BOp.comul_fin_ok h₂ h₃ h23]
    show BOp.comul _ _ = _
    rw [BOp.comul_fin_ok h₁ w23 hR, eB', eA', ← ed, ← eu]

/-- associativity of `comul`: `(x⊔y)⊔z = x⊔(y⊔z)` as model values -/
theorem C12_comul_assoc (h₁ : BWF b₁ d₁ u₁ a₁) (h₂ : BWF b₂ d₂ u₂ a₂) (h₃ : BWF b₃ d₃ u₃ a₃)
    (h12 : a₁ + a₂ - a₁ * a₂ ≠ 0) (h23 : a₂ + a₃ - a₂ * a₃ ≠ 0) :
    (BOp.comul (bop b₁ d₁ u₁ a₁ : BOp (XQ f)) (bop b₂ d₂ u₂ a₂)
        >>= fun w => BOp.comul w (bop b₃ d₃ u₃ a₃))
      = (BOp.comul (bop b₂ d₂ u₂ a₂ : BOp (XQ f)) (bop b₃ d₃ u₃ a₃)
        >>= fun w => BOp.comul (bop b₁ d₁ u₁ a₁) w) := by
  obtain ⟨d, u, -, -, eL, eR⟩ := C12_comul_assoc_value (f := f) h₁ h₂ h₃ h12 h23
  rw [eL, eR]

/-! ### 6. outside the domain -/

/-- both base rates 1: `mul` computes `0/0 = nan` for the belief correction, the simplex sum check
    rejects it (≙ `new` panics), for EVERY rational masses.  Likewise `comul` with both base rates 0. -/
theorem C12_domain_excluded (b₁ d₁ u₁ b₂ d₂ u₂ : ℚ) :
    BOp.mul (bop b₁ d₁ u₁ 1 : BOp (XQ f)) (bop b₂ d₂ u₂ 1) = .error .bdu ∧
    BOp.comul (bop b₁ d₁ u₁ 0 : BOp (XQ f)) (bop b₂ d₂ u₂ 0) = .error .bdu := by
  constructor
  · unfold BOp.mul
    simp only [XQ.one_def, XQ.mul_fin, XQ.sub_fin, XQ.add_fin]
    rw [XQ.div_fin_zero_zero (by ring) (by ring), XQ.fin_add_nan]
    -- the NaN belief makes the normaliser NaN, hence all three quotients
    rw [XQ.nan_add, XQ.nan_add, XQ.nan_div]
    exact BOp.tryNew_nan_b _ _ (by norm_num) (by norm_num)
  · unfold BOp.comul
    simp only [XQ.one_def, XQ.mul_fin, XQ.sub_fin, XQ.add_fin]
    -- repair a66cfd4: both weights are `0/0 = nan`, so are the disbelief, the normaliser and the three quotients
    rw [XQ.div_fin_zero_zero (by ring) (by ring)]
    simp only [XQ.nan_mul, XQ.nan_add, XQ.fin_add_nan, XQ.fin_div_nan]
    exact BOp.tryNew_nan_b _ _ (by norm_num) (by norm_num)

/-- hence, on well-formed operands, `mul` returns iff the base rates are not both 1, and `comul` returns
    iff they are not both 0 -/
theorem C12_defined_iff (h₁ : BWF b₁ d₁ u₁ a₁) (h₂ : BWF b₂ d₂ u₂ a₂) :
    ((∃ w, BOp.mul (bop b₁ d₁ u₁ a₁ : BOp (XQ f)) (bop b₂ d₂ u₂ a₂) = .ok w) ↔ ¬ (a₁ = 1 ∧ a₂ = 1)) ∧
    ((∃ w, BOp.comul (bop b₁ d₁ u₁ a₁ : BOp (XQ f)) (bop b₂ d₂ u₂ a₂) = .ok w)
      ↔ ¬ (a₁ = 0 ∧ a₂ = 0)) := by
  constructor
  · constructor
    · rintro ⟨w, hw⟩ ⟨rfl, rfl⟩
      rw [(C12_domain_excluded (f := f) b₁ d₁ u₁ b₂ d₂ u₂).1] at hw
      cases hw
    · intro h
      exact ⟨_, C12_mul_ok h₁ h₂ ((C12_mul_domain h₁ h₂).1.mpr h)⟩
  · constructor
    · rintro ⟨w, hw⟩ ⟨rfl, rfl⟩
      rw [(C12_domain_excluded (f := f) b₁ d₁ u₁ b₂ d₂ u₂).2] at hw
      cases hw
    · intro h
      exact ⟨_, C12_comul_ok h₁ h₂ ((C12_comul_domain h₁ h₂).1.mpr h)⟩

/-- the two inner-product hypotheses of `C12_mul_assoc` are both needed: with `a₁ = a₂ = 1 ≠ a₃` the
    left grouping panics in `x·y` while the right grouping `x·(y·z)` returns -/
theorem C12_mul_assoc_domain (h₁ : BWF b₁ d₁ u₁ 1) (h₂ : BWF b₂ d₂ u₂ 1) (h₃ : BWF b₃ d₃ u₃ a₃)
    (h : a₃ ≠ 1) :
    (BOp.mul (bop b₁ d₁ u₁ 1 : BOp (XQ f)) (bop b₂ d₂ u₂ 1) >>= fun w => BOp.mul w (bop b₃ d₃ u₃ a₃))
      = .error .bdu ∧
    ∃ w, (BOp.mul (bop b₂ d₂ u₂ 1 : BOp (XQ f)) (bop b₃ d₃ u₃ a₃) >>= fun w => BOp.mul (bop b₁ d₁ u₁ 1) w)
      = .ok w := by
  constructor
  · rw [(C12_domain_excluded (f := f) b₁ d₁ u₁ b₂ d₂ u₂).1]; rfl
  · have h23 : (1 : ℚ) * a₃ ≠ 1 := by rwa [one_mul]
    have w23 := mul_bwf h₂ h₃ h23
    have hR : (1 : ℚ) * (1 * a₃) ≠ 1 := by rwa [one_mul, one_mul]
    rw [BOp.mul_fin_ok h₂ h₃ h23]
    show ∃ w, BOp.mul _ _ = .ok w
    rw [BOp.mul_fin_ok h₁ w23 hR]
    exact ⟨_, rfl⟩

/-! ### 7. non-vacuity -/

/-- two non-trivial well-formed operands inside both domains -/
example : BWF (1/2) (1/5) (3/10) (2/5) ∧ BWF (3/10) (3/10) (2/5) (3/5) ∧
    (2/5 : ℚ) * (3/5) ≠ 1 ∧ (2/5 : ℚ) + 3/5 - (2/5) * (3/5) ≠ 0 := by
  refine ⟨⟨?_, ?_, ?_, ?_, ?_, ?_⟩, ⟨?_, ?_, ?_, ?_, ?_, ?_⟩, ?_, ?_⟩ <;> norm_num

/-- a third operand for the associativity statements: `a₂a₃ = 9/20 ≠ 1`, `a₂+a₃-a₂a₃ = 9/10 ≠ 0` -/
example : BWF (1/4) (1/2) (1/4) (3/4) ∧ (3/5 : ℚ) * (3/4) ≠ 1 ∧ (3/5 : ℚ) + 3/4 - (3/5) * (3/4) ≠ 0 := by
  refine ⟨⟨?_, ?_, ?_, ?_, ?_, ?_⟩, ?_, ?_⟩ <;> norm_num

/-- concrete instance of the product (the operands of the pinned-tree counterexample) -/
example :
    BOp.mul (bop (1/2) (1/5) (3/10) (2/5) : BOp (XQ f)) (bop (3/10) (3/10) (2/5) (3/5))
      = .ok (bop (501/1900) (11/25) (563/1900) (6/25)) := by
  rw [C12_mul_ok (by constructor <;> norm_num) (by constructor <;> norm_num) (by norm_num)]
  norm_num

/-- concrete instance of the coproduct -/
example :
    BOp.comul (bop (1/2) (1/5) (3/10) (2/5) : BOp (XQ f)) (bop (3/10) (3/10) (2/5) (3/5))
      = .ok (bop (13/20) (227/1900) (219/950) (19/25)) := by
  rw [C12_comul_ok (by constructor <;> norm_num) (by constructor <;> norm_num) (by norm_num)]
  norm_num

/-- the excluded corner is inhabited by well-formed operands (dogmatic base rates) -/
example : BWF (1/2) (1/5) (3/10) 1 ∧ BWF (1/2) (1/5) (3/10) 0 := by
  refine ⟨⟨?_, ?_, ?_, ?_, ?_, ?_⟩, ⟨?_, ?_, ?_, ?_, ?_, ?_⟩⟩ <;> norm_num

end SLV.Props.C12
