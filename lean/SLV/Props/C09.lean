/-
  C09 — Projection is b + a·u and uncertainty maximisation preserves it.
  Property theorems only; helper lemmas live in SLV/Refine.
  All statements are about the executable model (SLV/Model/Basic.lean) at the exact semantics `XQ f`,
  for every domain size `n` and every rational well-formed opinion.
-/
import SLV.Refine.Lift
import SLV.Refine.ClampLemmas
import SLV.Model.Pinned

namespace SLV.Props.C09
open SLV Scalar

variable {f : Fmt} {n : Nat}

/-- well-formed rational opinion -/
structure WF (b : Fin n → ℚ) (u : ℚ) (a : Fin n → ℚ) : Prop where
  hb : ∀ i, 0 ≤ b i
  hu : 0 ≤ u
  hs : ∑ i, b i + u = 1
  ha0 : ∀ i, 0 ≤ a i
  ha : ∑ i, a i = 1

theorem sum_proj {b a : Fin n → ℚ} {u : ℚ} (h : WF b u a) : ∑ i, (b i + a i * u) = 1 := by
  rw [Finset.sum_add_distrib, ← Finset.sum_mul, h.ha]
  linarith [h.hs]

/-- the model's projection of a lifted opinion is the lifted `b + a u` (the normaliser is exactly 1) -/
theorem C09_projection {b a : Fin n → ℚ} {u : ℚ} (h : WF b u a) :
    SLV.projection (liftT b : Tab (XQ f) n) (XQ.fin u) (liftT a) = liftT (fun i => b i + a i * u) := by
  unfold SLV.projection normalizeProbDist
  have e : (Vector.ofFn fun i : Fin n => (liftT b : Tab (XQ f) n)[i] + (liftT a : Tab (XQ f) n)[i] * XQ.fin u)
      = liftT (fun i => b i + a i * u) := by
    apply Vector.ext; intro i hi; simp [liftT]
  rw [e, sumLoop_liftT, sum_proj h]
  rw [liftT_map _ _ (fun q => q) (by intro q; simp)]

/-- the projection is a probability distribution -/
theorem C09_projection_dist {b a : Fin n → ℚ} {u : ℚ} (h : WF b u a) :
    (∀ i, 0 ≤ b i + a i * u) ∧ ∑ i, (b i + a i * u) = 1 :=
  ⟨fun i => add_nonneg (h.hb i) (mul_nonneg (h.ha0 i) h.hu), sum_proj h⟩

/-- candidate bound contributed by entry `i` in `max_uncertainty` -/
def cand (f : Fmt) (b a : Fin n → ℚ) (u : ℚ) (i : Fin n) : ℚ :=
  if |a i| ≤ f.eps then 1 else (b i + a i * u) / a i

/-- closed form of the model's `max_uncertainty` -/
def uhat (f : Fmt) (b a : Fin n → ℚ) (u : ℚ) : ℚ := foldMin (cand f b a u) 1

theorem maxUStep_fin (p a : ℚ) :
    maxUStep (XQ.fin p : XQ f) (XQ.fin a) = XQ.fin (if |a| ≤ f.eps then 1 else p / a) := by
  unfold maxUStep
  by_cases ha : |a| ≤ f.eps
  · by_cases hp : |p| ≤ f.eps <;> simp [ha, hp]
  · have hne : a ≠ 0 := by
      intro h0; apply ha; rw [h0]; simpa using le_of_lt (XQ.eps_pos f)
    simp [ha, XQ.div_fin _ _ hne]

theorem maxUncertainty_lift {b a : Fin n → ℚ} {u : ℚ} (h : WF b u a) :
    Simplex.maxUncertainty (⟨liftT b, XQ.fin u⟩ : Simplex (XQ f) n) (liftT a) = XQ.fin (uhat f b a u) := by
  unfold Simplex.maxUncertainty Simplex.projection
  simp only [C09_projection h]
  have : ∀ (acc : XQ f) (i : Fin n),
      Scalar.min acc (maxUStep ((liftT (fun i => b i + a i * u) : Tab (XQ f) n)[i]) ((liftT a : Tab (XQ f) n)[i]))
        = Scalar.min acc (XQ.fin (cand f b a u i)) := by
    intro acc i
    rw [liftT_getElem, liftT_getElem, maxUStep_fin]; rfl
  simp only [this]
  exact foldl_min_fin _ _

/-- the uncertainty-maximised simplex, as rational data -/
def bmax (f : Fmt) (b a : Fin n → ℚ) (u : ℚ) (i : Fin n) : ℚ := b i + a i * u - a i * uhat f b a u

/-- `Simplex::normalized` on lifted data with a non-zero total -/
theorem normalized_lift (g : Fin n → ℚ) (u : ℚ) (hs : ∑ i, g i + u ≠ 0) :
    Simplex.normalized (liftT g : Tab (XQ f) n) (XQ.fin u)
      = ⟨liftT (fun i => g i / (∑ i, g i + u)), XQ.fin (u / (∑ i, g i + u))⟩ := by
  unfold Simplex.normalized
  simp only [sumIter_liftT, XQ.add_fin, XQ.div_fin _ _ hs]
  rw [liftT_map g _ (fun q => q / (∑ i, g i + u)) (fun q => XQ.div_fin _ _ hs)]

/-- … and with total exactly one: returned unchanged -/
theorem normalized_lift_one (g : Fin n → ℚ) (u : ℚ) (hs : ∑ i, g i + u = 1) :
    Simplex.normalized (liftT g : Tab (XQ f) n) (XQ.fin u) = ⟨liftT g, XQ.fin u⟩ := by
  rw [normalized_lift g u (by rw [hs]; exact one_ne_zero), hs]
  simp

/-- for a well-formed opinion the masses `p - a·û` and `û` already sum to exactly one: the normaliser of
    `uncertainty_maximized` (repair f029db5) is 1 -/
theorem bmax_sum {b a : Fin n → ℚ} {u : ℚ} (h : WF b u a) : ∑ i, bmax f b a u i + uhat f b a u = 1 := by
  unfold bmax
  rw [Finset.sum_sub_distrib, sum_proj h, ← Finset.sum_mul, h.ha]; ring

/-- the clamped table `if b < 0 { 0 } else { b }` of `b = p[i] - a[i] * u_max` (repair 8520ade) on lifted data -/
theorem clampTab_lift (p a : Fin n → ℚ) (um : ℚ) :
    (Vector.ofFn fun i : Fin n =>
      if Scalar.lt ((liftT p : Tab (XQ f) n)[i] - (liftT a : Tab (XQ f) n)[i] * XQ.fin um) Scalar.zero
      then Scalar.zero else (liftT p : Tab (XQ f) n)[i] - (liftT a : Tab (XQ f) n)[i] * XQ.fin um)
      = liftT (fun i => max (p i - a i * um) 0) := by
  apply Vector.ext; intro i hi
  simp only [Vector.getElem_ofFn, liftT_getElem, XQ.sub_fin, XQ.mul_fin, XQ.clamp_fin]
  simp [liftT]

/-- the masses `p - a·û` after the clamp at zero of repair 8520ade -/
def bmaxC (f : Fmt) (b a : Fin n → ℚ) (u : ℚ) (i : Fin n) : ℚ := max (bmax f b a u i) 0

/-- the normaliser after the clamp: one plus what the clamp removed -/
def normC (f : Fmt) (b a : Fin n → ℚ) (u : ℚ) : ℚ := ∑ i, bmaxC f b a u i + uhat f b a u

theorem bmaxC_nonneg (b a : Fin n → ℚ) (u : ℚ) (i : Fin n) : 0 ≤ bmaxC f b a u i := le_max_right _ _

theorem normC_ge_one {b a : Fin n → ℚ} {u : ℚ} (h : WF b u a) : 1 ≤ normC f b a u := by
  have h1 := bmax_sum (f := f) h
  have h2 : ∑ i, bmax f b a u i ≤ ∑ i, bmaxC f b a u i :=
    Finset.sum_le_sum fun i _ => le_max_left _ _
  unfold normC; linarith

/-- no mass below zero: the clamp is idle and the normaliser is one -/
theorem normC_of_nonneg {b a : Fin n → ℚ} {u : ℚ} (h : WF b u a) (hnn : ∀ i, 0 ≤ bmax f b a u i) :
    bmaxC f b a u = bmax f b a u ∧ normC f b a u = 1 := by
  have e : bmaxC f b a u = bmax f b a u := funext fun i => max_eq_left (hnn i)
  refine ⟨e, ?_⟩
  unfold normC; rw [e]; exact bmax_sum h

/-- `uncertainty_maximized` on a lifted well-formed opinion, EVERY base rate (entries inside the guard band `(0, ε]`
    included): the masses `p - a·û` clamped at zero, then divided by their total with `û` (repairs f029db5, 8520ade).
    The clamp acts only on entries whose base rate lies in `(0, ε]` (`C09_max_wf`): there `p - a·û ∈ [-ε, 0)` is
    possible, and the normaliser is `1 + Σ (what was clamped away) ∈ [1, 1 + nε]`. -/
theorem C09_max_lift_clamped {b a : Fin n → ℚ} {u : ℚ} (h : WF b u a) :
    Simplex.uncertaintyMaximized (⟨liftT b, XQ.fin u⟩ : Simplex (XQ f) n) (liftT a)
      = ⟨liftT (fun i => bmaxC f b a u i / normC f b a u), XQ.fin (uhat f b a u / normC f b a u)⟩ := by
  unfold Simplex.uncertaintyMaximized
  simp only [maxUncertainty_lift h, Simplex.projection, C09_projection h]
  rw [clampTab_lift]
  have hS : ∑ i, bmaxC f b a u i + uhat f b a u ≠ 0 := ne_of_gt (lt_of_lt_of_le one_pos (normC_ge_one h))
  exact normalized_lift _ _ hS

/-- `uncertainty_maximized` on a lifted opinion returns lifted rational data: `p - a·û` and `û` themselves whenever
    none of these masses is negative (then the clamp of repair 8520ade is idle and the normaliser of repair f029db5
    is one) — always the case when no base-rate entry lies in the guard band `(0, ε]`, see `C09_max_lift_of_band`;
    `C09_max_lift_clamped` is the form without the hypothesis, `C09_max_lift_needs_nonneg` shows it cannot be dropped … -/
theorem C09_max_lift {b a : Fin n → ℚ} {u : ℚ} (h : WF b u a) (hnn : ∀ i, 0 ≤ bmax f b a u i) :
    Simplex.uncertaintyMaximized (⟨liftT b, XQ.fin u⟩ : Simplex (XQ f) n) (liftT a)
      = ⟨liftT (bmax f b a u), XQ.fin (uhat f b a u)⟩ := by
  obtain ⟨e1, e2⟩ := normC_of_nonneg (f := f) h hnn
  rw [C09_max_lift_clamped h, e1, e2]
  simp

theorem uhat_le_one (b a : Fin n → ℚ) (u : ℚ) : uhat f b a u ≤ 1 := (foldMin_spec _ _).1

/-- … whose uncertainty is at least the original one, -/
theorem C09_max_u_ge {b a : Fin n → ℚ} {u : ℚ} (h : WF b u a) : u ≤ uhat f b a u := by
  have hu1 : u ≤ 1 := by
    have := Finset.sum_nonneg (fun i (_ : i ∈ Finset.univ) => h.hb i)
    linarith [h.hs]
  rcases (foldMin_spec (cand f b a u) 1).2.2 with h1 | ⟨i, hi⟩
  · unfold uhat; rw [h1]; exact hu1
  · unfold uhat; rw [hi]; unfold cand
    split
    · exact hu1
    · rename_i hne
      have hpos : 0 < a i := by
        have h0 := h.ha0 i
        rcases lt_or_eq_of_le h0 with hlt | heq
        · exact hlt
        · exfalso; apply hne; rw [← heq]; simpa using le_of_lt (XQ.eps_pos f)
      rw [le_div_iff₀ hpos]
      nlinarith [h.hb i]

/-- … equals min(1, min over entries with base rate above ε of P(x)/a(x)), -/
theorem C09_max_u_formula {b a : Fin n → ℚ} {u : ℚ} (_h : WF b u a) :
    uhat f b a u ≤ 1 ∧
    (∀ i, f.eps < a i → uhat f b a u ≤ (b i + a i * u) / a i) ∧
    (uhat f b a u = 1 ∨ ∃ i, f.eps < a i ∧ uhat f b a u = (b i + a i * u) / a i) := by
  refine ⟨uhat_le_one b a u, ?_, ?_⟩
  · intro i hi
    have := (foldMin_spec (cand f b a u) 1).2.1 i
    unfold cand at this
    rw [if_neg (by rw [abs_of_pos (lt_trans (XQ.eps_pos f) hi)]; exact not_le.mpr hi)] at this
    exact this
  · rcases (foldMin_spec (cand f b a u) 1).2.2 with h1 | ⟨i, hi⟩
    · left; exact h1
    · unfold cand at hi
      by_cases hc : |a i| ≤ f.eps
      · left; rw [if_pos hc] at hi; exact hi
      · right
        rw [if_neg hc] at hi
        refine ⟨i, ?_, hi⟩
        have h0 := _h.ha0 i
        rw [abs_of_nonneg h0] at hc
        exact not_le.mp hc

/-- … keeps the projected probability of every value, -/
theorem C09_max_keeps_projection (b a : Fin n → ℚ) (u : ℚ) (i : Fin n) :
    bmax f b a u i + a i * uhat f b a u = b i + a i * u := by
  unfold bmax; ring

/-- … is well-formed: masses sum to one with the uncertainty, the uncertainty is in [0,1], masses are
    non-negative wherever the base rate exceeds ε, and never below -ε (entries skipped by the guard). -/
theorem C09_max_wf {b a : Fin n → ℚ} {u : ℚ} (h : WF b u a) :
    (∑ i, bmax f b a u i + uhat f b a u = 1) ∧ 0 ≤ uhat f b a u ∧ uhat f b a u ≤ 1 ∧
    (∀ i, f.eps < a i → 0 ≤ bmax f b a u i) ∧ (∀ i, -f.eps ≤ bmax f b a u i) := by
  have hge := C09_max_u_ge (f := f) h
  have hle := uhat_le_one (f := f) b a u
  refine ⟨?_, le_trans h.hu hge, hle, ?_, ?_⟩
  · unfold bmax
    rw [Finset.sum_sub_distrib, sum_proj h, ← Finset.sum_mul, h.ha]; ring
  · intro i hi
    have hpos : 0 < a i := lt_trans (XQ.eps_pos f) hi
    have := (C09_max_u_formula (f := f) h).2.1 i hi
    rw [le_div_iff₀ hpos] at this
    unfold bmax; linarith
  · intro i
    by_cases hi : f.eps < a i
    · have hpos : 0 < a i := lt_trans (XQ.eps_pos f) hi
      have := (C09_max_u_formula (f := f) h).2.1 i hi
      rw [le_div_iff₀ hpos] at this
      unfold bmax; linarith [XQ.eps_pos f]
    · have hai : a i ≤ f.eps := not_lt.mp hi
      unfold bmax
      have h1 : a i * uhat f b a u ≤ f.eps := by
        calc a i * uhat f b a u ≤ a i * 1 := mul_le_mul_of_nonneg_left hle (h.ha0 i)
          _ ≤ f.eps := by simpa using hai
      nlinarith [h.hb i, mul_nonneg (h.ha0 i) h.hu]

/-- … leaves at least one belief mass (at a value with base rate above ε) at zero unless it is vacuous, -/
theorem C09_zero_mass {b a : Fin n → ℚ} {u : ℚ} (h : WF b u a) (hlt : uhat f b a u < 1) :
    ∃ i, f.eps < a i ∧ bmax f b a u i = 0 := by
  rcases (C09_max_u_formula (f := f) h).2.2 with h1 | ⟨i, hi, he⟩
  · exact absurd h1 (ne_of_lt hlt)
  · refine ⟨i, hi, ?_⟩
    have hpos : 0 < a i := lt_trans (XQ.eps_pos f) hi
    unfold bmax; rw [he]; field_simp; ring

theorem idem_closed (b a : Fin n → ℚ) (u : ℚ) :
    uhat f (bmax f b a u) a (uhat f b a u) = uhat f b a u ∧
    ∀ i, bmax f (bmax f b a u) a (uhat f b a u) i = bmax f b a u i := by
  have key : uhat f (bmax f b a u) a (uhat f b a u) = uhat f b a u := by
    show foldMin (cand f (bmax f b a u) a (uhat f b a u)) 1 = foldMin (cand f b a u) 1
    congr 1
    funext i
    simp only [cand, C09_max_keeps_projection]
  refine ⟨key, ?_⟩
  intro i
  unfold bmax at *
  rw [key]; ring

/-- the maximised opinion is again a well-formed opinion when no base-rate entry lies in the guard
    band (0, ε] -/
theorem max_WF {b a : Fin n → ℚ} {u : ℚ} (h : WF b u a) (hband : ∀ i, a i = 0 ∨ f.eps < a i) :
    WF (bmax f b a u) (uhat f b a u) a := by
  obtain ⟨hs, h0, _, hpos, _⟩ := C09_max_wf (f := f) h
  refine ⟨?_, h0, hs, h.ha0, h.ha⟩
  intro i
  rcases hband i with hz | hgt
  · unfold bmax; rw [hz]; simpa using h.hb i
  · exact hpos i hgt

/-- without a base-rate entry in the guard band `(0, ε]` no mass `p - a·û` is negative: the clamp is idle -/
theorem C09_max_lift_of_band {b a : Fin n → ℚ} {u : ℚ} (h : WF b u a) (hband : ∀ i, a i = 0 ∨ f.eps < a i) :
    Simplex.uncertaintyMaximized (⟨liftT b, XQ.fin u⟩ : Simplex (XQ f) n) (liftT a)
      = ⟨liftT (bmax f b a u), XQ.fin (uhat f b a u)⟩ :=
  C09_max_lift h (max_WF h hband).hb

/-- … and maximising twice changes nothing (stated on the executable model; no base-rate entry in the
    guard band (0, ε], where the first pass may leave a mass in [-ε, 0)). -/
theorem C09_idempotent {b a : Fin n → ℚ} {u : ℚ} (h : WF b u a) (hband : ∀ i, a i = 0 ∨ f.eps < a i) :
    let w1 := Simplex.uncertaintyMaximized (⟨liftT b, XQ.fin u⟩ : Simplex (XQ f) n) (liftT a)
    Simplex.uncertaintyMaximized w1 (liftT a) = w1 := by
  intro w1
  have hw1 := max_WF h hband
  have e1 : w1 = ⟨liftT (bmax f b a u), XQ.fin (uhat f b a u)⟩ := C09_max_lift h hw1.hb
  rw [e1, C09_max_lift hw1 (fun i => by rw [(idem_closed (f := f) b a u).2 i]; exact hw1.hb i)]
  obtain ⟨k1, k2⟩ := idem_closed (f := f) b a u
  rw [k1]
  congr 1
  apply Vector.ext; intro i hi
  simp [liftT, k2]

/-! ### base rates that do NOT sum to one (repair f029db5)

`projection()` divides by `Σ(b + a u)`, so the projected probabilities always sum to one, and the masses
`p - a·û` sum with `û` to `1 + û (1 - Σa)`.  Before the repair that was returned as is (`Pinned.uncertaintyMaximizedUnnorm`,
witness `C09_pinned_maximized_sum_rejected` in SLV/Props/Pinned.lean); now the result is renormalised. -/

/-- the normalised projection `(b + a u) / Σ(b + a u)` -/
def projG (b a : Fin n → ℚ) (u : ℚ) (i : Fin n) : ℚ := (b i + a i * u) / ∑ j, (b j + a j * u)

/-- closed form of `max_uncertainty` over a base rate that need not sum to one -/
def uhatG (f : Fmt) (b a : Fin n → ℚ) (u : ℚ) : ℚ :=
  foldMin (fun i => if |a i| ≤ f.eps then 1 else projG b a u i / a i) 1

/-- the masses before the final normalisation: `p - a û`, clamped at zero (repair 8520ade) -/
def bmaxG (f : Fmt) (b a : Fin n → ℚ) (u : ℚ) (i : Fin n) : ℚ := max (projG b a u i - a i * uhatG f b a u) 0

theorem bmaxG_nonneg (b a : Fin n → ℚ) (u : ℚ) (i : Fin n) : 0 ≤ bmaxG f b a u i := le_max_right _ _

/-- the final normaliser `Σ(p - a û) + û` -/
def normG (f : Fmt) (b a : Fin n → ℚ) (u : ℚ) : ℚ := ∑ i, bmaxG f b a u i + uhatG f b a u

theorem projG_sum {b a : Fin n → ℚ} {u : ℚ} (hN : ∑ j, (b j + a j * u) ≠ 0) : ∑ i, projG b a u i = 1 := by
  unfold projG; simp only [div_eq_mul_inv]; rw [← Finset.sum_mul, mul_inv_cancel₀ hN]

/-- the normaliser is at least `1 + û (1 - Σa)` (the defect of the base-rate sum, scaled by the uncertainty): the
    clamp only adds to the total -/
theorem normG_ge {b a : Fin n → ℚ} {u : ℚ} (hN : ∑ j, (b j + a j * u) ≠ 0) :
    1 + uhatG f b a u * (1 - ∑ i, a i) ≤ normG f b a u := by
  have h1 : ∑ i, (projG b a u i - a i * uhatG f b a u) ≤ ∑ i, bmaxG f b a u i :=
    Finset.sum_le_sum fun i _ => le_max_left _ _
  rw [Finset.sum_sub_distrib, projG_sum hN, ← Finset.sum_mul] at h1
  unfold normG; linarith

/-- … and exactly that when no mass `p - a û` is negative (the clamp is idle) -/
theorem normG_eq {b a : Fin n → ℚ} {u : ℚ} (hN : ∑ j, (b j + a j * u) ≠ 0)
    (hnn : ∀ i, 0 ≤ projG b a u i - a i * uhatG f b a u) :
    normG f b a u = 1 + uhatG f b a u * (1 - ∑ i, a i) := by
  have e : bmaxG f b a u = fun i => projG b a u i - a i * uhatG f b a u := funext fun i => max_eq_left (hnn i)
  unfold normG; rw [e]
  rw [Finset.sum_sub_distrib, projG_sum hN, ← Finset.sum_mul]; ring

/-- the clamped masses are non-negative, so the normaliser is at least `û` -/
theorem uhatG_le_normG (b a : Fin n → ℚ) (u : ℚ) : uhatG f b a u ≤ normG f b a u := by
  have := Finset.sum_nonneg fun i (_ : i ∈ Finset.univ) => bmaxG_nonneg (f := f) b a u i
  unfold normG; linarith

theorem projection_lift_gen (b a : Fin n → ℚ) (u : ℚ) (hN : ∑ j, (b j + a j * u) ≠ 0) :
    SLV.projection (liftT b : Tab (XQ f) n) (XQ.fin u) (liftT a) = liftT (projG b a u) := by
  unfold SLV.projection normalizeProbDist
  have e : (Vector.ofFn fun i : Fin n => (liftT b : Tab (XQ f) n)[i] + (liftT a : Tab (XQ f) n)[i] * XQ.fin u)
      = liftT (fun i => b i + a i * u) := by
    apply Vector.ext; intro i hi; simp [liftT]
  rw [e, sumLoop_liftT]
  rw [liftT_map _ _ (fun q => q / ∑ j, (b j + a j * u)) (fun q => XQ.div_fin _ _ hN)]
  rfl

theorem maxUncertainty_lift_gen (b a : Fin n → ℚ) (u : ℚ) (hN : ∑ j, (b j + a j * u) ≠ 0) :
    Simplex.maxUncertainty (⟨liftT b, XQ.fin u⟩ : Simplex (XQ f) n) (liftT a) = XQ.fin (uhatG f b a u) := by
  unfold Simplex.maxUncertainty Simplex.projection
  simp only [projection_lift_gen b a u hN]
  have : ∀ (acc : XQ f) (i : Fin n),
      Scalar.min acc (maxUStep ((liftT (projG b a u) : Tab (XQ f) n)[i]) ((liftT a : Tab (XQ f) n)[i]))
        = Scalar.min acc (XQ.fin (if |a i| ≤ f.eps then 1 else projG b a u i / a i)) := by
    intro acc i
    rw [liftT_getElem, liftT_getElem, maxUStep_fin]
  simp only [this]
  exact foldl_min_fin _ _

/-- `uncertainty_maximized` on lifted data, arbitrary base rate: finite whenever both normalisers are non-zero -/
theorem max_lift_gen (b a : Fin n → ℚ) (u : ℚ) (hN : ∑ j, (b j + a j * u) ≠ 0) (hS : normG f b a u ≠ 0) :
    Simplex.uncertaintyMaximized (⟨liftT b, XQ.fin u⟩ : Simplex (XQ f) n) (liftT a)
      = ⟨liftT (fun i => bmaxG f b a u i / normG f b a u), XQ.fin (uhatG f b a u / normG f b a u)⟩ := by
  unfold Simplex.uncertaintyMaximized
  simp only [maxUncertainty_lift_gen b a u hN, Simplex.projection, projection_lift_gen b a u hN]
  rw [clampTab_lift]
  exact normalized_lift _ _ hS

theorem uhatG_le_one (b a : Fin n → ℚ) (u : ℚ) : uhatG f b a u ≤ 1 := (foldMin_spec _ _).1

theorem projG_nonneg {b a : Fin n → ℚ} {u : ℚ} (hb : ∀ i, 0 ≤ b i) (hu : 0 ≤ u) (ha0 : ∀ i, 0 ≤ a i)
    (hN : 0 < ∑ j, (b j + a j * u)) (i : Fin n) : 0 ≤ projG b a u i :=
  div_nonneg (add_nonneg (hb i) (mul_nonneg (ha0 i) hu)) hN.le

theorem uhatG_nonneg {b a : Fin n → ℚ} {u : ℚ} (hb : ∀ i, 0 ≤ b i) (hu : 0 ≤ u) (ha0 : ∀ i, 0 ≤ a i)
    (hN : 0 < ∑ j, (b j + a j * u)) : 0 ≤ uhatG f b a u := by
  unfold uhatG
  rcases (foldMin_spec (fun i => if |a i| ≤ f.eps then 1 else projG b a u i / a i) 1).2.2 with h | ⟨i, h⟩
  · rw [h]; exact zero_le_one
  · rw [h]; split
    · exact zero_le_one
    · exact div_nonneg (projG_nonneg hb hu ha0 hN i) (ha0 i)

/-- the final normaliser is positive when the base-rate entries inside the guard band `[0, ε]` (those that
    `max_uncertainty` skips) sum to less than one -/
theorem normG_pos {b a : Fin n → ℚ} {u : ℚ} (hb : ∀ i, 0 ≤ b i) (hu : 0 ≤ u) (ha0 : ∀ i, 0 ≤ a i)
    (hN : 0 < ∑ j, (b j + a j * u)) (hband : ∑ i, (if a i ≤ f.eps then a i else 0) < 1) :
    0 < normG f b a u := by
  have hU0 := uhatG_nonneg (f := f) hb hu ha0 hN
  have hP0 := projG_nonneg hb hu ha0 hN
  refine lt_of_lt_of_le ?_ (normG_ge (ne_of_gt hN))
  -- entry by entry: a_i û ≤ p_i + [a_i ≤ ε] a_i û
  have key : ∀ i, a i * uhatG f b a u ≤ projG b a u i + (if a i ≤ f.eps then a i else 0) * uhatG f b a u := by
    intro i
    by_cases hi : a i ≤ f.eps
    · rw [if_pos hi]; linarith [hP0 i]
    · rw [if_neg hi, zero_mul, add_zero]
      have hpos : 0 < a i := lt_trans (XQ.eps_pos f) (not_le.mp hi)
      have := (foldMin_spec (fun i => if |a i| ≤ f.eps then 1 else projG b a u i / a i) 1).2.1 i
      simp only [abs_of_nonneg (ha0 i), if_neg hi] at this
      have h2 : uhatG f b a u ≤ projG b a u i / a i := this
      rw [le_div_iff₀ hpos] at h2
      linarith
  have hsum := Finset.sum_le_sum (fun i (_ : i ∈ Finset.univ) => key i)
  rw [Finset.sum_add_distrib, projG_sum (ne_of_gt hN), ← Finset.sum_mul, ← Finset.sum_mul] at hsum
  rcases eq_or_lt_of_le hU0 with h0 | hpos
  · rw [← h0]; norm_num
  · nlinarith

/-- … and also whenever the base rate sums to less than two (no condition on the band) -/
theorem normG_pos_of_sum_lt_two {b a : Fin n → ℚ} {u : ℚ} (hb : ∀ i, 0 ≤ b i) (hu : 0 ≤ u)
    (ha0 : ∀ i, 0 ≤ a i) (hN : 0 < ∑ j, (b j + a j * u)) (hA : ∑ i, a i < 2) : 0 < normG f b a u := by
  have hU0 := uhatG_nonneg (f := f) hb hu ha0 hN
  have hU1 := uhatG_le_one (f := f) b a u
  refine lt_of_lt_of_le ?_ (normG_ge (ne_of_gt hN))
  rcases eq_or_lt_of_le hU1 with h1 | hlt
  · rw [h1]; linarith
  · nlinarith [mul_nonneg hU0 (sub_nonneg.mpr hA.le)]

/-- mass total of a simplex of the model -/
def total (w : Simplex (XQ f) n) : XQ f := Tab.sumIter w.b + w.u

theorem total_max_gen (b a : Fin n → ℚ) (u : ℚ) (hN : ∑ j, (b j + a j * u) ≠ 0) (hS : normG f b a u ≠ 0) :
    total (Simplex.uncertaintyMaximized (⟨liftT b, XQ.fin u⟩ : Simplex (XQ f) n) (liftT a)) = XQ.fin 1 := by
  rw [max_lift_gen b a u hN hS]
  unfold total
  simp only [sumIter_liftT, XQ.add_fin]
  congr 1
  simp only [div_eq_mul_inv]; rw [← Finset.sum_mul, ← add_mul]
  exact mul_inv_cancel₀ hS

/-- FALSE before repair f029db5, true now: for EVERY rational simplex / base rate with non-negative entries whose
    projection exists (`Σ(b + a u) > 0`; no condition `Σb + u = 1`, no condition `Σa = 1`) the masses of the maximised
    simplex and its uncertainty are finite and sum to exactly one — provided the base-rate entries inside the guard band
    `[0, ε]` sum to less than one (always the case for fewer than `1/ε` cells, see the corollaries; for `n ≥ 2/ε` cells
    all equal to `ε`, `Σa = 2`, `û = 1` the normaliser `1 + û(1 - Σa)` is zero and the result is NaN). -/
theorem C09_maximized_sums_to_one {b a : Fin n → ℚ} {u : ℚ} (hb : ∀ i, 0 ≤ b i) (hu : 0 ≤ u)
    (ha0 : ∀ i, 0 ≤ a i) (hN : 0 < ∑ j, (b j + a j * u))
    (hband : ∑ i, (if a i ≤ f.eps then a i else 0) < 1) :
    total (Simplex.uncertaintyMaximized (⟨liftT b, XQ.fin u⟩ : Simplex (XQ f) n) (liftT a)) = XQ.fin 1 :=
  total_max_gen b a u (ne_of_gt hN) (ne_of_gt (normG_pos hb hu ha0 hN hband))

/-- the same for every domain with fewer than `1/ε` cells (2^52 for binary64, 2^23 for binary32), ANY base-rate sum -/
theorem C09_maximized_sums_to_one_of_card {b a : Fin n → ℚ} {u : ℚ} (hb : ∀ i, 0 ≤ b i) (hu : 0 ≤ u)
    (ha0 : ∀ i, 0 ≤ a i) (hN : 0 < ∑ j, (b j + a j * u)) (hn : (n : ℚ) * f.eps < 1) :
    total (Simplex.uncertaintyMaximized (⟨liftT b, XQ.fin u⟩ : Simplex (XQ f) n) (liftT a)) = XQ.fin 1 := by
  apply C09_maximized_sums_to_one hb hu ha0 hN
  have : ∑ i : Fin n, (if a i ≤ f.eps then a i else 0) ≤ ∑ _i : Fin n, f.eps :=
    Finset.sum_le_sum fun i _ => by split <;> [assumption; exact (XQ.eps_pos f).le]
  rw [Finset.sum_const, Finset.card_univ, Fintype.card_fin, nsmul_eq_mul] at this
  linarith

/-- … and for every domain size when the base rate sums to less than two — in particular for every base rate that
    the checked constructors accept (`Σa` within `[1 - 2ε, 1 + 4ε]`) -/
theorem C09_maximized_sums_to_one_of_sum_lt_two {b a : Fin n → ℚ} {u : ℚ} (hb : ∀ i, 0 ≤ b i) (hu : 0 ≤ u)
    (ha0 : ∀ i, 0 ≤ a i) (hN : 0 < ∑ j, (b j + a j * u)) (hA : ∑ i, a i < 2) :
    total (Simplex.uncertaintyMaximized (⟨liftT b, XQ.fin u⟩ : Simplex (XQ f) n) (liftT a)) = XQ.fin 1 :=
  total_max_gen b a u (ne_of_gt hN) (ne_of_gt (normG_pos_of_sum_lt_two hb hu ha0 hN hA))

/-- the result in closed form, with its sign conditions: uncertainty `û / (1 + û(1 - Σa)) ≥ 0` -/
theorem C09_maximized_gen_lift {b a : Fin n → ℚ} {u : ℚ} (hb : ∀ i, 0 ≤ b i) (hu : 0 ≤ u)
    (ha0 : ∀ i, 0 ≤ a i) (hN : 0 < ∑ j, (b j + a j * u)) (hA : ∑ i, a i < 2) :
    Simplex.uncertaintyMaximized (⟨liftT b, XQ.fin u⟩ : Simplex (XQ f) n) (liftT a)
      = ⟨liftT (fun i => bmaxG f b a u i / normG f b a u), XQ.fin (uhatG f b a u / normG f b a u)⟩ ∧
    0 ≤ uhatG f b a u / normG f b a u ∧
    ∑ i, bmaxG f b a u i / normG f b a u + uhatG f b a u / normG f b a u = 1 := by
  have hS := normG_pos_of_sum_lt_two (f := f) hb hu ha0 hN hA
  refine ⟨max_lift_gen b a u (ne_of_gt hN) (ne_of_gt hS),
    div_nonneg (uhatG_nonneg hb hu ha0 hN) hS.le, ?_⟩
  simp only [div_eq_mul_inv]; rw [← Finset.sum_mul, ← add_mul]
  exact mul_inv_cancel₀ (ne_of_gt hS)

/-- FALSE before repair 8520ade (band witness below), true now: under the hypotheses of `C09_maximized_gen_lift` every
    mass of the maximised simplex is in `[0, 1]` and so is its uncertainty — `u' ≤ 1` now holds whatever the base rate
    sums to (before the repair `u'` exceeded one by `(Σa - 1)/(2 - Σa)` when base-rate entries in the guard band carried
    an excess of `Σa` over one: exactly the entries whose negative mass is now clamped) -/
theorem C09_maximized_gen_unit {b a : Fin n → ℚ} {u : ℚ} (hb : ∀ i, 0 ≤ b i) (hu : 0 ≤ u)
    (ha0 : ∀ i, 0 ≤ a i) (hN : 0 < ∑ j, (b j + a j * u)) (hA : ∑ i, a i < 2) :
    (∀ i, 0 ≤ bmaxG f b a u i / normG f b a u ∧ bmaxG f b a u i / normG f b a u ≤ 1) ∧
    0 ≤ uhatG f b a u / normG f b a u ∧ uhatG f b a u / normG f b a u ≤ 1 := by
  have hS := normG_pos_of_sum_lt_two (f := f) hb hu ha0 hN hA
  have hU0 := uhatG_nonneg (f := f) hb hu ha0 hN
  refine ⟨fun i => ⟨div_nonneg (bmaxG_nonneg b a u i) hS.le, ?_⟩, div_nonneg hU0 hS.le, ?_⟩
  · rw [div_le_one hS]
    have := Finset.single_le_sum (f := bmaxG f b a u) (fun j _ => bmaxG_nonneg b a u j) (Finset.mem_univ i)
    unfold normG; linarith
  · rw [div_le_one hS]; exact uhatG_le_normG b a u

/-! ### no mass below zero, for ALL operands of the exact semantics (repair 8520ade)

The masses `p[i] - a[i]·û` are clamped at zero before `Simplex::normalized` divides by their total with `û`.
`û` itself is NOT clamped: it is `min(1, min p/a)` and compares below zero only if a projected probability does.
`XQ.NotNeg v` is "`v < 0` is false": `v` is finite `≥ 0`, `+∞` or NaN. -/

/-- the masses handed to `Simplex::normalized` never compare below zero (any operands) -/
theorem clamped_notNeg (s : Simplex (XQ f) n) (a : Tab (XQ f) n) (i : Fin n) :
    XQ.NotNeg ((Vector.ofFn fun i : Fin n =>
      if Scalar.lt ((s.projection a)[i] - a[i] * s.maxUncertainty a) Scalar.zero then Scalar.zero
      else (s.projection a)[i] - a[i] * s.maxUncertainty a) : Tab (XQ f) n)[i] := by
  simp only [Fin.getElem_fin, Vector.getElem_ofFn]
  exact XQ.notNeg_clamp _

/-- FALSE before repair 8520ade (`C09_maximized_negative_mass_before` below), true now: for ALL operands of the exact
    semantics — no well-formedness, entries of either sign, `±∞` and NaN included — whose `max_uncertainty` does not
    compare below zero, no belief mass of `uncertainty_maximized` compares below zero, neither does its uncertainty,
    and the uncertainty does not compare above one.  (The hypothesis cannot be dropped, `C09_maximized_needs_umax_notNeg`:
    `û` is not clamped; it holds whenever no operand entry compares below zero, `C09_maximized_masses_nonneg_of_operands`.) -/
theorem C09_maximized_masses_nonneg_gen (s : Simplex (XQ f) n) (a : Tab (XQ f) n)
    (hu : XQ.NotNeg (s.maxUncertainty a)) :
    (∀ i : Fin n, XQ.NotNeg (s.uncertaintyMaximized a).b[i]) ∧ XQ.NotNeg (s.uncertaintyMaximized a).u ∧
    Scalar.lt (Scalar.one : XQ f) (s.uncertaintyMaximized a).u = false := by
  unfold Simplex.uncertaintyMaximized
  dsimp only
  obtain ⟨h1, h2⟩ := XQ.notNeg_normalized _ _ (clamped_notNeg s a) hu
  refine ⟨h1, h2, ?_⟩
  unfold Simplex.normalized
  exact XQ.not_one_lt_div_add (XQ.notNeg_sumIter _ (clamped_notNeg s a)) hu

theorem maxUStep_notNeg {p a : XQ f} (hp : XQ.NotNeg p) (ha : XQ.NotNeg a) : XQ.NotNeg (maxUStep p a) := by
  unfold maxUStep
  split
  · exact XQ.notNeg_one
  · split
    · exact XQ.notNeg_one
    · exact XQ.notNeg_div hp ha

theorem projection_notNeg {b a : Tab (XQ f) n} {u : XQ f} (hb : ∀ i : Fin n, XQ.NotNeg b[i]) (hu : XQ.NotNeg u)
    (ha : ∀ i : Fin n, XQ.NotNeg a[i]) (i : Fin n) : XQ.NotNeg (SLV.projection b u a)[i] := by
  have hraw : ∀ j : Fin n, XQ.NotNeg (Vector.ofFn fun i : Fin n => b[i] + a[i] * u)[j] := by
    intro j
    simp only [Fin.getElem_fin, Vector.getElem_ofFn]
    exact XQ.notNeg_add (hb j) (XQ.notNeg_mul (ha j) hu)
  unfold SLV.projection normalizeProbDist
  simp only [Fin.getElem_fin, Vector.getElem_map]
  exact XQ.notNeg_div (hraw i) (XQ.notNeg_sumLoop _ hraw)

theorem foldl_min_notNeg (g : Fin n → XQ f) (hg : ∀ i, XQ.NotNeg (g i)) (l : List (Fin n)) (c : XQ f)
    (hc : XQ.NotNeg c) : XQ.NotNeg (l.foldl (fun u i => Scalar.min u (g i)) c) := by
  induction l generalizing c with
  | nil => exact hc
  | cons x xs ih => rw [List.foldl_cons]; exact ih _ (XQ.notNeg_min hc (hg x))

/-- `max_uncertainty` does not compare below zero when no entry of the operand does -/
theorem maxUncertainty_notNeg {s : Simplex (XQ f) n} {a : Tab (XQ f) n} (hb : ∀ i : Fin n, XQ.NotNeg s.b[i])
    (hu : XQ.NotNeg s.u) (ha : ∀ i : Fin n, XQ.NotNeg a[i]) : XQ.NotNeg (s.maxUncertainty a) := by
  unfold Simplex.maxUncertainty Simplex.projection
  exact foldl_min_notNeg (fun i => maxUStep (SLV.projection s.b s.u a)[i] a[i])
    (fun i => maxUStep_notNeg (projection_notNeg hb hu ha i) (ha i)) _ _ XQ.notNeg_one

/-- … in particular for every simplex / base rate none of whose entries compares below zero (finite `≥ 0`, `+∞`, NaN;
    no condition on any sum) -/
theorem C09_maximized_masses_nonneg_of_operands (s : Simplex (XQ f) n) (a : Tab (XQ f) n)
    (hb : ∀ i : Fin n, XQ.NotNeg s.b[i]) (hu : XQ.NotNeg s.u) (ha : ∀ i : Fin n, XQ.NotNeg a[i]) :
    (∀ i : Fin n, XQ.NotNeg (s.uncertaintyMaximized a).b[i]) ∧ XQ.NotNeg (s.uncertaintyMaximized a).u ∧
    Scalar.lt (Scalar.one : XQ f) (s.uncertaintyMaximized a).u = false :=
  C09_maximized_masses_nonneg_gen s a (maxUncertainty_notNeg hb hu ha)

/-- non-vacuity, and what the clamp repairs: the dogmatic simplex `([0, 1], 0)` under `a = [ε, 1]` (binary64 `ε`; base
    rate sum `1 + ε`, accepted by the constructors).  `û = 1` (entry 0 is inside the guard band), so `p₀ - a₀ û = -ε`, total `1 - ε`:
    before repair 8520ade (`Pinned.uncertaintyMaximizedNoClamp`) the finite negative mass `-ε/(1-ε)` was returned
    together with the uncertainty `1/(1-ε)` above one … -/
theorem C09_maximized_negative_mass_before :
    (let w := Pinned.uncertaintyMaximizedNoClamp (⟨#v[.fin 0, .fin 1], .fin 0⟩ : Simplex (XQ .f64) 2)
        #v[.fin (Fmt.eps .f64), .fin 1]
     decide (w.b[0] = .fin (-(Fmt.eps .f64) / (1 - Fmt.eps .f64))) && Scalar.lt w.b[0] (Scalar.zero : XQ .f64)
       && decide (w.u = .fin (1 / (1 - Fmt.eps .f64))) && Scalar.lt (Scalar.one : XQ .f64) w.u) = true := by
  decide +kernel

/-- … and now the operand satisfies the hypotheses of `C09_maximized_masses_nonneg_of_operands`, the mass is exactly
    zero and the uncertainty is exactly one -/
theorem C09_maximized_negative_mass_repaired :
    (let s : Simplex (XQ .f64) 2 := ⟨#v[.fin 0, .fin 1], .fin 0⟩
     let a : Tab (XQ .f64) 2 := #v[.fin (Fmt.eps .f64), .fin 1]
     let w := s.uncertaintyMaximized a
     decide (w.b[0] = .fin 0) && decide (w.b[1] = .fin 0) && decide (w.u = .fin 1)
       && !Scalar.lt (s.maxUncertainty a) (Scalar.zero : XQ .f64)) = true := by
  decide +kernel

/-- the hypothesis of `C09_maximized_masses_nonneg_gen` cannot be dropped (`û` is not clamped): the ill-formed simplex
    `([-1, 2], 0)` under `a = [1/4, 1/4]` has `û = -4`, the clamped masses `[0, 3]` total `-1` with `û`, and the result
    is `([0, -3], 4)` -/
theorem C09_maximized_needs_umax_notNeg :
    (let s : Simplex (XQ .f64) 2 := ⟨#v[.fin (-1), .fin 2], .fin 0⟩
     let a : Tab (XQ .f64) 2 := #v[.fin (1/4), .fin (1/4)]
     let w := s.uncertaintyMaximized a
     decide (s.maxUncertainty a = .fin (-4)) && decide (w.b[0] = .fin 0) && decide (w.b[1] = .fin (-3))
       && decide (w.u = .fin 4)) = true := by
  decide +kernel

/-- the hypothesis `hnn` of `C09_max_lift` cannot be dropped: the well-formed dogmatic opinion `([0, 1], 0)` with
    `a = [ε, 1 - ε]` has `û = 1`, `p₀ - a₀ û = -ε`; the model returns the clamped, renormalised `([0, ε/(1+ε)], 1/(1+ε))`,
    not `([-ε, ε], 1)` -/
theorem C09_max_lift_needs_nonneg :
    (let w := Simplex.uncertaintyMaximized (⟨#v[.fin 0, .fin 1], .fin 0⟩ : Simplex (XQ .f64) 2)
        #v[.fin (Fmt.eps .f64), .fin (1 - Fmt.eps .f64)]
     decide (w.b[0] = .fin 0) && decide (w.b[1] = .fin (Fmt.eps .f64 / (1 + Fmt.eps .f64)))
       && decide (w.u = .fin (1 / (1 + Fmt.eps .f64)))) = true := by
  decide +kernel

/-- non-vacuity: the vacuous simplex over `a = [1/2, 1/2 + 3ε]` (binary64 ε; `Σa = 1 + 3ε`, accepted by the
    constructors) satisfies every hypothesis of the three theorems above -/
example : (∀ i, 0 ≤ (![0, 0] : Fin 2 → ℚ) i) ∧ (0 : ℚ) ≤ 1 ∧
    (∀ i, 0 ≤ (![1/2, 1/2 + 3 * Fmt.f64.eps] : Fin 2 → ℚ) i) ∧
    0 < ∑ j, ((![0, 0] : Fin 2 → ℚ) j + (![1/2, 1/2 + 3 * Fmt.f64.eps] : Fin 2 → ℚ) j * 1) ∧
    ∑ i, (if (![1/2, 1/2 + 3 * Fmt.f64.eps] : Fin 2 → ℚ) i ≤ Fmt.f64.eps
      then (![1/2, 1/2 + 3 * Fmt.f64.eps] : Fin 2 → ℚ) i else 0) < 1 ∧
    ((2 : ℕ) : ℚ) * Fmt.f64.eps < 1 ∧
    ∑ i, (![1/2, 1/2 + 3 * Fmt.f64.eps] : Fin 2 → ℚ) i < 2 := by
  simp [Fin.forall_fin_two, Fin.sum_univ_two, Fmt.eps, Fmt.mant]
  norm_num

/-- the hypotheses are satisfiable by a non-trivial opinion, and the maximiser moves it -/
example : WF (n := 2) ![1/4, 1/4] (1/2) ![1/4, 3/4] := by
  constructor <;> simp [Fin.forall_fin_two, Fin.sum_univ_two] <;> norm_num

end SLV.Props.C09
