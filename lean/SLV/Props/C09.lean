/-
  C09 — Projection is b + a·u and uncertainty maximisation preserves it.
  Property theorems only; helper lemmas live in SLV/Refine.
  All statements are about the executable model (SLV/Model/Basic.lean) at the exact semantics `XQ f`,
  for every domain size `n` and every rational well-formed opinion.
-/
import SLV.Refine.Lift

namespace SLV.Props.C09
open SLV Scalar

variable {f : Fmt} {n : Nat}

/-- well-formed rational opinion -/
structure WF (b : Fin n → ℚ) (u : ℚ) (a : Fin n → ℚ) : Prop where
  hb : ∀ i, 0 ≤ b i
  hu : 0 ≤ u
  hs : ∑ i, b i + u = 1
  ha0 : ∀ i, 0 ≤ a i
  ha : ∑ i, a i = 1

theorem sum_proj {b a : Fin n → ℚ} {u : ℚ} (h : WF b u a) : ∑ i, (b i + a i * u) = 1 := by
  rw [Finset.sum_add_distrib, ← Finset.sum_mul, h.ha]
  linarith [h.hs]

/-- the model's projection of a lifted opinion is the lifted `b + a u` (the normaliser is exactly 1) -/
theorem C09_projection {b a : Fin n → ℚ} {u : ℚ} (h : WF b u a) :
    SLV.projection (liftT b : Tab (XQ f) n) (XQ.fin u) (liftT a) = liftT (fun i => b i + a i * u) := by
  unfold SLV.projection normalizeProbDist
  have e : (Vector.ofFn fun i : Fin n => (liftT b : Tab (XQ f) n)[i] + (liftT a : Tab (XQ f) n)[i] * XQ.fin u)
      = liftT (fun i => b i + a i * u) := by
    apply Vector.ext; intro i hi; simp [liftT]
  rw [e, sumLoop_liftT, sum_proj h]
  rw [liftT_map _ _ (fun q => q) (by intro q; simp)]

/-- the projection is a probability distribution -/
theorem C09_projection_dist {b a : Fin n → ℚ} {u : ℚ} (h : WF b u a) :
    (∀ i, 0 ≤ b i + a i * u) ∧ ∑ i, (b i + a i * u) = 1 :=
  ⟨fun i => add_nonneg (h.hb i) (mul_nonneg (h.ha0 i) h.hu), sum_proj h⟩

/-- candidate bound contributed by entry `i` in `max_uncertainty` -/
def cand (f : Fmt) (b a : Fin n → ℚ) (u : ℚ) (i : Fin n) : ℚ :=
  if |a i| ≤ f.eps then 1 else (b i + a i * u) / a i

/-- closed form of the model's `max_uncertainty` -/
def uhat (f : Fmt) (b a : Fin n → ℚ) (u : ℚ) : ℚ := foldMin (cand f b a u) 1

theorem maxUStep_fin (p a : ℚ) :
    maxUStep (XQ.fin p : XQ f) (XQ.fin a) = XQ.fin (if |a| ≤ f.eps then 1 else p / a) := by
  unfold maxUStep
  by_cases ha : |a| ≤ f.eps
  · by_cases hp : |p| ≤ f.eps <;> simp [ha, hp]
  · have hne : a ≠ 0 := by
      intro h0; apply ha; rw [h0]; simpa using le_of_lt (XQ.eps_pos f)
    simp [ha, XQ.div_fin _ _ hne]

theorem maxUncertainty_lift {b a : Fin n → ℚ} {u : ℚ} (h : WF b u a) :
    Simplex.maxUncertainty (⟨liftT b, XQ.fin u⟩ : Simplex (XQ f) n) (liftT a) = XQ.fin (uhat f b a u) := by
  unfold Simplex.maxUncertainty Simplex.projection
  simp only [C09_projection h]
  have : ∀ (acc : XQ f) (i : Fin n),
      Scalar.min acc (maxUStep ((liftT (fun i => b i + a i * u) : Tab (XQ f) n)[i]) ((liftT a : Tab (XQ f) n)[i]))
        = Scalar.min acc (XQ.fin (cand f b a u i)) := by
    intro acc i
    rw [liftT_getElem, liftT_getElem, maxUStep_fin]; rfl
  simp only [this]
  exact foldl_min_fin _ _

/-- the uncertainty-maximised simplex, as rational data -/
def bmax (f : Fmt) (b a : Fin n → ℚ) (u : ℚ) (i : Fin n) : ℚ := b i + a i * u - a i * uhat f b a u

/-- `uncertainty_maximized` on a lifted opinion returns lifted rational data … -/
theorem C09_max_lift {b a : Fin n → ℚ} {u : ℚ} (h : WF b u a) :
    Simplex.uncertaintyMaximized (⟨liftT b, XQ.fin u⟩ : Simplex (XQ f) n) (liftT a)
      = ⟨liftT (bmax f b a u), XQ.fin (uhat f b a u)⟩ := by
  unfold Simplex.uncertaintyMaximized
  simp only [maxUncertainty_lift h, Simplex.projection, C09_projection h]
  congr 1
  apply Vector.ext; intro i hi
  simp [liftT, bmax]

theorem uhat_le_one (b a : Fin n → ℚ) (u : ℚ) : uhat f b a u ≤ 1 := (foldMin_spec _ _).1

/-- … whose uncertainty is at least the original one, -/
theorem C09_max_u_ge {b a : Fin n → ℚ} {u : ℚ} (h : WF b u a) : u ≤ uhat f b a u := by
  have hu1 : u ≤ 1 := by
    have := Finset.sum_nonneg (fun i (_ : i ∈ Finset.univ) => h.hb i)
    linarith [h.hs]
  rcases (foldMin_spec (cand f b a u) 1).2.2 with h1 | ⟨i, hi⟩
  · unfold uhat; rw [h1]; exact hu1
  · unfold uhat; rw [hi]; unfold cand
    split
    · exact hu1
    · rename_i hne
      have hpos : 0 < a i := by
        have h0 := h.ha0 i
        rcases lt_or_eq_of_le h0 with hlt | heq
        · exact hlt
        · exfalso; apply hne; rw [← heq]; simpa using le_of_lt (XQ.eps_pos f)
      rw [le_div_iff₀ hpos]
      nlinarith [h.hb i]

/-- … equals min(1, min over entries with base rate above ε of P(x)/a(x)), -/
theorem C09_max_u_formula {b a : Fin n → ℚ} {u : ℚ} (_h : WF b u a) :
    uhat f b a u ≤ 1 ∧
    (∀ i, f.eps < a i → uhat f b a u ≤ (b i + a i * u) / a i) ∧
    (uhat f b a u = 1 ∨ ∃ i, f.eps < a i ∧ uhat f b a u = (b i + a i * u) / a i) := by
  refine ⟨uhat_le_one b a u, ?_, ?_⟩
  · intro i hi
    have := (foldMin_spec (cand f b a u) 1).2.1 i
    unfold cand at this
    rw [if_neg (by rw [abs_of_pos (lt_trans (XQ.eps_pos f) hi)]; exact not_le.mpr hi)] at this
    exact this
  · rcases (foldMin_spec (cand f b a u) 1).2.2 with h1 | ⟨i, hi⟩
    · left; exact h1
    · unfold cand at hi
      by_cases hc : |a i| ≤ f.eps
      · left; rw [if_pos hc] at hi; exact hi
      · right
        rw [if_neg hc] at hi
        refine ⟨i, ?_, hi⟩
        have h0 := _h.ha0 i
        rw [abs_of_nonneg h0] at hc
        exact not_le.mp hc

/-- … keeps the projected probability of every value, -/
theorem C09_max_keeps_projection (b a : Fin n → ℚ) (u : ℚ) (i : Fin n) :
    bmax f b a u i + a i * uhat f b a u = b i + a i * u := by
  unfold bmax; ring

/-- … is well-formed: masses sum to one with the uncertainty, the uncertainty is in [0,1], masses are
    non-negative wherever the base rate exceeds ε, and never below -ε (entries skipped by the guard). -/
theorem C09_max_wf {b a : Fin n → ℚ} {u : ℚ} (h : WF b u a) :
    (∑ i, bmax f b a u i + uhat f b a u = 1) ∧ 0 ≤ uhat f b a u ∧ uhat f b a u ≤ 1 ∧
    (∀ i, f.eps < a i → 0 ≤ bmax f b a u i) ∧ (∀ i, -f.eps ≤ bmax f b a u i) := by
  have hge := C09_max_u_ge (f := f) h
  have hle := uhat_le_one (f := f) b a u
  refine ⟨?_, le_trans h.hu hge, hle, ?_, ?_⟩
  · unfold bmax
    rw [Finset.sum_sub_distrib, sum_proj h, ← Finset.sum_mul, h.ha]; ring
  · intro i hi
    have hpos : 0 < a i := lt_trans (XQ.eps_pos f) hi
    have := (C09_max_u_formula (f := f) h).2.1 i hi
    rw [le_div_iff₀ hpos] at this
    unfold bmax; linarith
  · intro i
    by_cases hi : f.eps < a i
    · have hpos : 0 < a i := lt_trans (XQ.eps_pos f) hi
      have := (C09_max_u_formula (f := f) h).2.1 i hi
      rw [le_div_iff₀ hpos] at this
      unfold bmax; linarith [XQ.eps_pos f]
    · have hai : a i ≤ f.eps := not_lt.mp hi
      unfold bmax
      have h1 : a i * uhat f b a u ≤ f.eps := by
        calc a i * uhat f b a u ≤ a i * 1 := mul_le_mul_of_nonneg_left hle (h.ha0 i)
          _ ≤ f.eps := by simpa using hai
      nlinarith [h.hb i, mul_nonneg (h.ha0 i) h.hu]

/-- … leaves at least one belief mass (at a value with base rate above ε) at zero unless it is vacuous, -/
theorem C09_zero_mass {b a : Fin n → ℚ} {u : ℚ} (h : WF b u a) (hlt : uhat f b a u < 1) :
    ∃ i, f.eps < a i ∧ bmax f b a u i = 0 := by
  rcases (C09_max_u_formula (f := f) h).2.2 with h1 | ⟨i, hi, he⟩
  · exact absurd h1 (ne_of_lt hlt)
  · refine ⟨i, hi, ?_⟩
    have hpos : 0 < a i := lt_trans (XQ.eps_pos f) hi
    unfold bmax; rw [he]; field_simp; ring

theorem idem_closed (b a : Fin n → ℚ) (u : ℚ) :
    uhat f (bmax f b a u) a (uhat f b a u) = uhat f b a u ∧
    ∀ i, bmax f (bmax f b a u) a (uhat f b a u) i = bmax f b a u i := by
  have key : uhat f (bmax f b a u) a (uhat f b a u) = uhat f b a u := by
    show foldMin (cand f (bmax f b a u) a (uhat f b a u)) 1 = foldMin (cand f b a u) 1
    congr 1
    funext i
    simp only [cand, C09_max_keeps_projection]
  refine ⟨key, ?_⟩
  intro i
  unfold bmax at *
  rw [key]; ring

/-- the maximised opinion is again a well-formed opinion when no base-rate entry lies in the guard
    band (0, ε] -/
theorem max_WF {b a : Fin n → ℚ} {u : ℚ} (h : WF b u a) (hband : ∀ i, a i = 0 ∨ f.eps < a i) :
    WF (bmax f b a u) (uhat f b a u) a := by
  obtain ⟨hs, h0, _, hpos, _⟩ := C09_max_wf (f := f) h
  refine ⟨?_, h0, hs, h.ha0, h.ha⟩
  intro i
  rcases hband i with hz | hgt
  · unfold bmax; rw [hz]; simpa using h.hb i
  · exact hpos i hgt

/-- … and maximising twice changes nothing (stated on the executable model; no base-rate entry in the
    guard band (0, ε], where the first pass may leave a mass in [-ε, 0)). -/
theorem C09_idempotent {b a : Fin n → ℚ} {u : ℚ} (h : WF b u a) (hband : ∀ i, a i = 0 ∨ f.eps < a i) :
    let w1 := Simplex.uncertaintyMaximized (⟨liftT b, XQ.fin u⟩ : Simplex (XQ f) n) (liftT a)
    Simplex.uncertaintyMaximized w1 (liftT a) = w1 := by
  intro w1
  have e1 : w1 = ⟨liftT (bmax f b a u), XQ.fin (uhat f b a u)⟩ := C09_max_lift h
  rw [e1, C09_max_lift (max_WF h hband)]
  obtain ⟨k1, k2⟩ := idem_closed (f := f) b a u
  rw [k1]
  congr 1
  apply Vector.ext; intro i hi
  simp [liftT, k2]

/-- the hypotheses are satisfiable by a non-trivial opinion, and the maximiser moves it -/
example : WF (n := 2) ![1/4, 1/4] (1/2) ![1/4, 3/4] := by
  constructor <;> simp [Fin.forall_fin_two, Fin.sum_univ_two] <;> norm_num

end SLV.Props.C09
