/-
  C05 on the tree before fix e624e49 (`SLV.Pinned.inverseBeforeBandFix`, kept verbatim in
  SLV/Model/Pinned.lean): `max_u_yx[x] = min_y P(y|x)/a(y)` ran over ALL values of `Y`, while
  `max_uncertainty` skips the values whose base rate passes `is_zero` (`|a(y)| ≤ ε`).  For a strictly
  positive base rate inside that band the two disagree (`u_yx[x] > max_u_yx[x]`), the term
  `weights[x]·u_yx[x]/max_u_yx[x]` exceeds `weights[x]`, `wprop > 1`, `φ y > 1`, the uncertainty of the
  inverted opinion exceeds the largest one compatible with Bayes' posterior and a belief mass is negative.

  Witness (`SLV.C05.Witness`, format `f32`, ε = 2⁻²³):
    cb = [[0, 1/2], [3/4, 1/4]],  cu = [1/2, 0],  ax = [1/2, 1/2],  ay = [2⁻²⁴, 1 - 2⁻²⁴].
  Old model, inverted opinion for `y₁`: b ≈ (0.48, -0.12), u ≈ 0.64 (the real crate returned the same values
  in f32 and f64).  Current model on the same input: b ≈ (0.6, 3.6e-9), u ≈ 0.4, well-formed
  (`C05_repaired_band_wf`, an instance of the general theorem `SLV.Props.C05.C05_wf`).
-/
import SLV.Props.C05
import SLV.Model.Pinned

namespace SLV.Props.PinnedC05
open SLV Scalar SLV.C05 SLV.Props.C09
open SLV.C04 (condTab)

/-- the model before the fix, on the witness: the inverted opinion for `y₁`, exactly -/
theorem C05_pinned_band_entry :
    let w := (SLV.Pinned.inverseBeforeBandFix (condTab Witness.cb Witness.cu Fmt.f32)
      (liftT Witness.ax) (liftT Witness.ay))[(1 : Fin 2)]
    w.b[(0 : Fin 2)] = XQ.fin (1688849717657603 / 3518436957224964) ∧
    w.b[(1 : Fin 2)] = XQ.fin (-140737474374315 / 1172812319074988) ∧
    w.u = XQ.fin (1125899831345153 / 1759218478612482) := by
  decide +kernel

/-- before the fix: well-formed conditionals, strictly positive base rates on both domains (one on
    `Y` inside the band), and an inverted opinion with a belief mass below -1/10 -/
theorem C05_pinned_wf_fails_below_band :
    ∃ (cb : Fin 2 → Fin 2 → ℚ) (cu ax ay : Fin 2 → ℚ), InvHyp cb cu ax ay ∧ (∀ y, 0 < ay y) ∧
      (∃ y, ay y ≤ Fmt.f32.eps) ∧ ∃ q : ℚ, q < -(1 / 10) ∧
        ((SLV.Pinned.inverseBeforeBandFix (condTab cb cu Fmt.f32) (liftT ax)
          (liftT ay))[(1 : Fin 2)]).b[(1 : Fin 2)] = XQ.fin q := by
  refine ⟨Witness.cb, Witness.cu, Witness.ax, Witness.ay, Witness.hyp, ?_,
    ⟨0, by norm_num [Witness.ay, Fmt.eps, Fmt.mant]⟩,
    -140737474374315 / 1172812319074988, by norm_num, C05_pinned_band_entry.2.1⟩
  intro y
  fin_cases y <;> simp [Witness.ay]

/-- after the fix: on the same input the model returns the lifted table `(bI, uI)` and every inverted
    opinion is well-formed (for both formats) -/
theorem C05_repaired_band_wf (f : Fmt) :
    inverse (condTab Witness.cb Witness.cu f) (liftT Witness.ax) (liftT Witness.ay)
      = condTab (bI f Witness.cb Witness.cu Witness.ax Witness.ay)
          (uI f Witness.cb Witness.cu Witness.ax Witness.ay) f ∧
    ∀ y, WF (bI f Witness.cb Witness.cu Witness.ax Witness.ay y)
      (uI f Witness.cb Witness.cu Witness.ax Witness.ay y) Witness.ax :=
  ⟨SLV.Props.C05.C05_refines Witness.hyp, SLV.Props.C05.C05_wf_opinion Witness.hyp⟩

/-- … explicitly at `f32`: the inverted opinion for `y₁` -/
theorem C05_repaired_band_entry :
    let w := (inverse (condTab Witness.cb Witness.cu Fmt.f32)
      (liftT Witness.ax) (liftT Witness.ay))[(1 : Fin 2)]
    w.b[(0 : Fin 2)] = XQ.fin (70835489361745607131133 / 118059150109055006015484) ∧
    w.b[(1 : Fin 2)] = XQ.fin (140737474374315 / 39353050036351668671828) ∧
    w.u = XQ.fin (23611830162548487880703 / 59029575054527503007742) := by
  decide +kernel

end SLV.Props.PinnedC05
