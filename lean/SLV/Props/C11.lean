/-
  C11 — Merging conditionals X1->Y and X2->Y (with strictly positive base rates on X1, X2 and Y) yields
  one well-formed conditional opinion on Y for every pair (x1,x2), equal to inverting both tables,
  multiplying the two inverted opinions for each y, and inverting the product table back using the
  marginal base rate of the joint variable.  Exchanging the roles of X1 and X2 yields the transposed
  table, so deduction from a product opinion does not depend on the order in which the parents are
  listed, and borrowed conditionals give the same table as owned ones.  In particular a joint value
  (x1,x2) that is impossible under every y (zero marginal base rate) receives the vacuous conditional,
  never a confident opinion decided by rounding noise.

  Property theorems only; helper lemmas and the rational closed forms live in
  SLV/Refine/C11Lemmas.lean.  The rational inputs are bundled in `D : MIn n1 n2 m`
  (`D.c1b x1 y`, `D.c1u x1` the conditionals `Y|X1`; `D.c2b`, `D.c2u` the conditionals `Y|X2`; `D.ax1`,
  `D.ax2`, `D.ay` the base rates; `D.swap` the same data with the parents exchanged) and `MHyp D` says:
  every conditional is a simplex, the three base rates are strictly positive and sum to one.
  Stage by stage (`(i, j) = idx2 k`, `k = flat2 i j = i * n2 + j` the row-major joint index; ε = `f.eps`):
    `ayOf f ax cb cu d`  closed form of `mbr(ax, conds).unwrap_or(d)`: C08's marginal base rate `may`,
                         or `d` when `mbr` is absent (all conditionals within 2ε of vacuous, or `S = 0`)
    `ay1`, `ay2`         stage 1: `ayOf` of `Y|X1` under `ax1` resp. `Y|X2` under `ax2`, fallback `ay`
                         (distributions over Y; they MAY CONTAIN ZEROS although `ay > 0`)
    `x1b y i`, `x1u y`   stage 2: C05's inverted table `X1|Y` = `bI/uI f c1b c1u ax1 ay1`; likewise `x2b`, `x2u`
    `b12 y k`, `u12 y`   stage 3: C06's product cell `bJ2/uhat2 (x1b y) (x1u y) ax1 (x2b y) (x2u y) ax2`,
                         a table `Y -> X1×X2`
    `ax12 k`             stage 4: `ayOf` of that table under `ay`, fallback the outer product `A2 ax1 ax2`
                         (a distribution over X1×X2; zeros = impossible joint values)
    `bM k y`, `uM k`     stage 5: C05's inversion back, `bI/uI f b12 u12 ay ax12`: the merged table
  All statements are about the executable model `mergeCond2` (SLV/Model/Prod.lean; Rust
  src/mul.rs:1013-1061) at the exact semantics `XQ f`, for every `n1`, `n2`, `m`.
  `validate = true` is the unlabelled family (its `product2` validates through `Opinion::new`),
  `validate = false` the labelled one (its `product2` renormalises the base rate).

  Remark ("impossible under every y").  What makes the marginal base rate of a joint value `k` zero is that
  no product cell carries BELIEF MASS on `k` (`C11_impossible_iff`: `ax12 k = 0 ↔ mbr present ∧ ∀ y,
  b12 y k = 0`), which is implied by, but weaker than, `P(x1|y) P(x2|y) = 0` for every `y`
  (`C11_impossible_of_projections`).  In the property's own example (`exD`) the cell `(x0, z1)` has
  `P(x0|y0) P(z1|y0) > 0` under the outer-product base rate, yet zero belief mass in every product
  cell, hence zero marginal base rate, a zero column in the final inversion and the vacuous conditional.
  The transposition theorems are proved on the stated domain (lifted well-formed inputs) through the
  closed forms, for `n1 ≠ n2` as well (the bijection `tr : Fin (n2 * n1) ≃ Fin (n1 * n2)`).

  Borrowed vs owned tables (`MergeJointConditions2` is implemented once for references and the owned
  variants forward to it): both are the same model value `mergeCond2`; that the two Rust entry points
  agree is carried by the correspondence check of the harness, not by a theorem.

  Link to the pinned defect: SLV/Props/Pinned.lean `C11_pinned_impossible_cell_certain` shows that the
  crate at the pinned commit (exact `== 0` test of the column in `inverse`) returns the absolutely
  certain opinion for the impossible cell (x0,z1) of the example below in binary64;
  `C11_repaired_impossible_cell_vacuous` is the repaired model on the same data, and
  `C11_example_cell_vacuous` below its exact-arithmetic counterpart.
-/
import SLV.Refine.C11Lemmas
import SLV.Props.C04
import Mathlib.Data.Fin.VecNotation
import Mathlib.Tactic.FinCases

namespace SLV.Props.C11
open SLV Scalar SLV.C11 SLV.Props.C09
open SLV.C04 (Pc condTab condTab_get bRes uRes)
open SLV.C05 (InvHyp bI uI post)
open SLV.C06 (flat2 idx2_flat2 flat2_idx2 A2 bJ2 uhat2)
open SLV.C08 (HypM AllVac S may)

variable {f : Fmt} {n1 n2 m : Nat} {D : MIn n1 n2 m}

/-! ### 1. the composition -/

section generic
variable {α : Type} [Scalar α]

/-- `merge_cond2` is, step by step: the two marginal base rates on Y (fallback `ay`), the two inverted
    tables, one product cell per value of Y (validated in the unlabelled family, first rejection wins),
    the marginal base rate of the joint variable (fallback: outer product of `ax1`, `ax2`), and the
    inversion of the joint table back under that base rate — for every scalar type and every operand -/
theorem C11_compose (validate : Bool) (yx1 : CondTab α n1 m) (yx2 : CondTab α n2 m)
    (ax1 : Tab α n1) (ax2 : Tab α n2) (ay : Tab α m) :
    mergeCond2 validate yx1 yx2 ax1 ax2 ay =
      (let ay1 := (mbr ax1 yx1).getD ay
       let ay2 := (mbr ax2 yx2).getD ay
       let x1y := inverse yx1 ax1 ay1
       let x2y := inverse yx2 ax2 ay2
       let cells : Vector (Except Label (Simplex α (n1 * n2))) m := Vector.ofFn fun y =>
         if validate then
           (product2U (Opinion.mk' x1y[y] ax1) (Opinion.mk' x2y[y] ax2)).map Opinion.simplex
         else .ok (product2L (Opinion.mk' x1y[y] ax1) (Opinion.mk' x2y[y] ax2)).simplex
       (sequenceE cells).map fun x12y =>
         let ax12 := (mbr ay x12y).getD (outer2 ax1 ax2)
         inverse x12y ay ax12) :=
  SLV.C15.mergeCond2_eq validate yx1 yx2 ax1 ax2 ay

/-- when every product cell is accepted (always, in the labelled family), the result is the inversion
    of the table of cells -/
theorem C11_compose_ok (validate : Bool) (yx1 : CondTab α n1 m) (yx2 : CondTab α n2 m)
    (ax1 : Tab α n1) (ax2 : Tab α n2) (ay : Tab α m) (x12y : CondTab α m (n1 * n2))
    (hcells : ∀ y : Fin m,
      (if validate then
        (product2U (Opinion.mk' (inverse yx1 ax1 ((mbr ax1 yx1).getD ay))[y] ax1)
          (Opinion.mk' (inverse yx2 ax2 ((mbr ax2 yx2).getD ay))[y] ax2)).map Opinion.simplex
       else .ok (product2L (Opinion.mk' (inverse yx1 ax1 ((mbr ax1 yx1).getD ay))[y] ax1)
          (Opinion.mk' (inverse yx2 ax2 ((mbr ax2 yx2).getD ay))[y] ax2)).simplex) = .ok x12y[y]) :
    mergeCond2 validate yx1 yx2 ax1 ax2 ay
      = .ok (inverse x12y ay ((mbr ay x12y).getD (outer2 ax1 ax2))) := by
  rw [SLV.C15.mergeCond2_eq]
  have hs : sequenceE (SLV.C15.mCells validate yx1 yx2 ax1 ax2 ay) = .ok x12y := by
    rw [SLV.C15.sequenceE_ok_iff]
    intro y
    rw [← hcells y]
    unfold SLV.C15.mCells
    simp only [Fin.getElem_fin, Vector.getElem_ofFn]
  rw [hs]
  rfl

end generic

/-- the composition on lifted well-formed inputs, with the closed form of every stage: both families
    return the lifted table `(bM, uM)` -/
theorem C11_refines (h : MHyp D) (v : Bool) :
    mergeCond2 v (condTab D.c1b D.c1u f) (condTab D.c2b D.c2u f) (liftT D.ax1) (liftT D.ax2)
        (liftT D.ay) = .ok (condTab (bM f D) (uM f D) f) :=
  merge_lift h v

/-- row `k` of the merged table -/
theorem C11_refines_entry (h : MHyp D) (v : Bool) (k : Fin (n1 * n2)) :
    ∃ r, mergeCond2 v (condTab D.c1b D.c1u f) (condTab D.c2b D.c2u f) (liftT D.ax1) (liftT D.ax2)
        (liftT D.ay) = .ok r ∧
      r[k] = (⟨liftT (bM f D k), XQ.fin (uM f D k)⟩ : Simplex (XQ f) m) :=
  ⟨_, C11_refines h v, condTab_get k⟩

/-! ### 2. every stage produces lifted well-formed data -/

/-- stage 1: the two base rates on Y are lifted probability distributions (C08: the marginal base rate,
    or the fallback `ay`); zero entries are possible -/
theorem C11_stage1_base_rates (h : MHyp D) :
    (mbr (liftT D.ax1 : Tab (XQ f) n1) (condTab D.c1b D.c1u f)).getD (liftT D.ay) = liftT (ay1 f D) ∧
    (mbr (liftT D.ax2 : Tab (XQ f) n2) (condTab D.c2b D.c2u f)).getD (liftT D.ay) = liftT (ay2 f D) ∧
    (∀ y, 0 ≤ ay1 f D y) ∧ ∑ y, ay1 f D y = 1 ∧ (∀ y, 0 ≤ ay2 f D y) ∧ ∑ y, ay2 f D y = 1 :=
  ⟨(stage1_lift h).1, (stage1_lift h).2, ay1_nonneg h, ay1_sum h, ay2_nonneg h, ay2_sum h⟩

/-- … in closed form: C08's marginal base rate when `mbr` is present, `ay` otherwise -/
theorem C11_stage1_char (D : MIn n1 n2 m) :
    ay1 f D = (if (∀ x, 1 - 2 * f.eps ≤ D.c1u x) ∨ ∑ x, D.ax1 x * (1 - D.c1u x) = 0 then D.ay
      else fun y => (∑ x, D.ax1 x * D.c1b x y) / ∑ x, D.ax1 x * (1 - D.c1u x)) ∧
    ay2 f D = (if (∀ x, 1 - 2 * f.eps ≤ D.c2u x) ∨ ∑ x, D.ax2 x * (1 - D.c2u x) = 0 then D.ay
      else fun y => (∑ x, D.ax2 x * D.c2b x y) / ∑ x, D.ax2 x * (1 - D.c2u x)) :=
  ⟨rfl, rfl⟩

/-- the hypotheses of C05 hold for both inversions of stage 2 (zeros in the base rate on Y allowed) and
    for the inversion back of stage 5 (where Y plays the role of the antecedent, base rate `ay > 0`, and
    the joint variable that of the consequent, base rate `ax12 ≥ 0`) -/
theorem C11_stage_hyps (h : MHyp D) :
    InvHyp D.c1b D.c1u D.ax1 (ay1 f D) ∧ InvHyp D.c2b D.c2u D.ax2 (ay2 f D) ∧
    HypM D.ay (b12 f D) (u12 f D) ∧ InvHyp (b12 f D) (u12 f D) D.ay (ax12 f D) :=
  ⟨h.inv1, h.inv2, h.hypM12, h.inv12⟩

/-- stage 2: the inverted tables are lifted tables of well-formed opinions over X1 resp. X2 -/
theorem C11_stage2_inverted (h : MHyp D) :
    inverse (condTab D.c1b D.c1u f) (liftT D.ax1) (liftT (ay1 f D)) = condTab (x1b f D) (x1u f D) f ∧
    inverse (condTab D.c2b D.c2u f) (liftT D.ax2) (liftT (ay2 f D)) = condTab (x2b f D) (x2u f D) f ∧
    (∀ y, WF (x1b f D y) (x1u f D y) D.ax1) ∧ (∀ y, WF (x2b f D y) (x2u f D y) D.ax2) :=
  ⟨(stage2_lift h).1, (stage2_lift h).2, wf1 h, wf2 h⟩

/-- stage 3: every product cell is accepted by `Opinion::new` (no panic in the unlabelled family), both
    families compute the same cell, and it is a well-formed opinion over X1×X2 -/
theorem C11_stage3_cells (h : MHyp D) (y : Fin m) :
    product2U (Opinion.mk' (condTab (x1b f D) (x1u f D) f)[y] (liftT D.ax1))
        (Opinion.mk' (condTab (x2b f D) (x2u f D) f)[y] (liftT D.ax2))
      = .ok ⟨liftT (b12 f D y), XQ.fin (u12 f D y), liftT (A2 D.ax1 D.ax2)⟩ ∧
    product2L (Opinion.mk' (condTab (x1b f D) (x1u f D) f)[y] (liftT D.ax1))
        (Opinion.mk' (condTab (x2b f D) (x2u f D) f)[y] (liftT D.ax2))
      = ⟨liftT (b12 f D y), XQ.fin (u12 f D y), liftT (A2 D.ax1 D.ax2)⟩ ∧
    WF (b12 f D y) (u12 f D y) (A2 D.ax1 D.ax2) :=
  ⟨(stage3_lift h y).1, (stage3_lift h y).2, wf12 h y⟩

/-- the table of cells collected by the model -/
theorem C11_stage3_table (h : MHyp D) (v : Bool) :
    sequenceE (SLV.C15.mCells v (condTab D.c1b D.c1u f) (condTab D.c2b D.c2u f) (liftT D.ax1)
        (liftT D.ax2) (liftT D.ay)) = .ok (condTab (b12 f D) (u12 f D) f) :=
  cells_lift h v

/-- stage 4: the base rate of the joint variable is a lifted probability distribution over X1×X2
    (zeros possible: impossible joint values) -/
theorem C11_stage4_joint_base_rate (h : MHyp D) :
    (mbr (liftT D.ay : Tab (XQ f) m) (condTab (b12 f D) (u12 f D) f)).getD
        (outer2 (liftT D.ax1) (liftT D.ax2)) = liftT (ax12 f D) ∧
    (∀ k, 0 ≤ ax12 f D k) ∧ ∑ k, ax12 f D k = 1 :=
  ⟨stage4_lift h, ax12_nonneg h, ax12_sum h⟩

/-- … in closed form -/
theorem C11_stage4_char (D : MIn n1 n2 m) :
    ax12 f D = (if (∀ y, 1 - 2 * f.eps ≤ u12 f D y) ∨ ∑ y, D.ay y * (1 - u12 f D y) = 0
      then fun k => D.ax1 (idx2 k).1 * D.ax2 (idx2 k).2
      else fun k => (∑ y, D.ay y * b12 f D y k) / ∑ y, D.ay y * (1 - u12 f D y)) :=
  rfl

/-- stage 5: the inversion back -/
theorem C11_stage5_merged (h : MHyp D) :
    inverse (condTab (b12 f D) (u12 f D) f) (liftT D.ay) (liftT (ax12 f D))
      = condTab (bM f D) (uM f D) f :=
  stage5_lift h

/-- all stages together: the intermediate data are well-formed -/
theorem C11_stage_wf (h : MHyp D) :
    ((∀ y, 0 ≤ ay1 f D y) ∧ ∑ y, ay1 f D y = 1 ∧ (∀ y, 0 ≤ ay2 f D y) ∧ ∑ y, ay2 f D y = 1) ∧
    ((∀ y, WF (x1b f D y) (x1u f D y) D.ax1) ∧ (∀ y, WF (x2b f D y) (x2u f D y) D.ax2)) ∧
    (∀ y, WF (b12 f D y) (u12 f D y) (A2 D.ax1 D.ax2)) ∧
    ((∀ k, 0 ≤ ax12 f D k) ∧ ∑ k, ax12 f D k = 1) :=
  ⟨⟨ay1_nonneg h, ay1_sum h, ay2_nonneg h, ay2_sum h⟩, ⟨wf1 h, wf2 h⟩, wf12 h,
    ⟨ax12_nonneg h, ax12_sum h⟩⟩

/-- no rejection: the unlabelled (validating) family accepts every cell -/
theorem C11_no_error (h : MHyp D) :
    ∃ r, mergeCond2 true (condTab D.c1b D.c1u f) (condTab D.c2b D.c2u f) (liftT D.ax1) (liftT D.ax2)
        (liftT D.ay) = .ok r :=
  ⟨_, C11_refines h true⟩

/-- the two families compute the same table -/
theorem C11_families_agree (h : MHyp D) :
    mergeCond2 true (condTab D.c1b D.c1u f) (condTab D.c2b D.c2u f) (liftT D.ax1) (liftT D.ax2)
        (liftT D.ay)
      = mergeCond2 false (condTab D.c1b D.c1u f) (condTab D.c2b D.c2u f) (liftT D.ax1) (liftT D.ax2)
        (liftT D.ay) := by
  rw [C11_refines h true, C11_refines h false]

/-- the merged table: one well-formed simplex over Y for every joint value `k` -/
theorem C11_wf (h : MHyp D) (k : Fin (n1 * n2)) :
    (∀ y, 0 ≤ bM f D k y) ∧ 0 ≤ uM f D k ∧ uM f D k ≤ 1 ∧ ∑ y, bM f D k y + uM f D k = 1 :=
  SLV.Props.C05.C05_wf h.inv12 k

/-- … as an opinion over Y with the supplied base rate `ay` -/
theorem C11_wf_opinion (h : MHyp D) (k : Fin (n1 * n2)) : WF (bM f D k) (uM f D k) D.ay :=
  SLV.Props.C05.C05_wf_opinion h.inv12 k

/-- … stated on the model value -/
theorem C11_wf_model (h : MHyp D) (v : Bool) :
    ∃ r, mergeCond2 v (condTab D.c1b D.c1u f) (condTab D.c2b D.c2u f) (liftT D.ax1) (liftT D.ax2)
        (liftT D.ay) = .ok r ∧
      ∀ k : Fin (n1 * n2), ∃ (b : Fin m → ℚ) (u : ℚ), r[k] = ⟨liftT b, XQ.fin u⟩ ∧
        (∀ y, 0 ≤ b y) ∧ 0 ≤ u ∧ u ≤ 1 ∧ ∑ y, b y + u = 1 :=
  ⟨_, C11_refines h v, fun k => ⟨bM f D k, uM f D k, condTab_get k, C11_wf h k⟩⟩

/-- the projection of the merged conditional for `k` under `ay` is Bayes' posterior of the joint table
    (C05): `P(y|k) = a(y) P(k|y) / Σ_y' a(y') P(k|y')` whenever some `P(k|y)` exceeds ε -/
theorem C11_bayes (h : MHyp D) (k : Fin (n1 * n2))
    (hnz : ∃ y, f.eps < b12 f D y k + ax12 f D k * u12 f D y) (y : Fin m) :
    bM f D k y + D.ay y * uM f D k
      = D.ay y * (b12 f D y k + ax12 f D k * u12 f D y)
          / ∑ y', D.ay y' * (b12 f D y' k + ax12 f D k * u12 f D y') :=
  SLV.Props.C05.C05_bayes_closed h.inv12 k hnz y

/-! ### 3. impossible joint values -/

/-- the joint base rate of `k` is zero exactly when the marginal base rate of the joint table is present
    and no value of Y puts belief mass on `k` -/
theorem C11_impossible_iff (h : MHyp D) (k : Fin (n1 * n2)) :
    ax12 f D k = 0 ↔
      ¬ ((∀ y, 1 - 2 * f.eps ≤ u12 f D y) ∨ ∑ y, D.ay y * (1 - u12 f D y) = 0) ∧
      ∀ y, b12 f D y k = 0 :=
  ax12_eq_zero_iff h k

/-- then the whole column of projected probabilities `P(k|y)` of the joint table is zero -/
theorem C11_impossible_column (h : MHyp D) (k : Fin (n1 * n2)) (hk : ax12 f D k = 0) (y : Fin m) :
    b12 f D y k + ax12 f D k * u12 f D y = 0 :=
  zero_column h k hk y

/-- a joint value with zero marginal base rate receives the vacuous conditional (the model's `is_zero`
    test of the column fires; the likelihood ratios are all 1 and `irrel = 1`) -/
theorem C11_impossible_cell_vacuous (h : MHyp D) (v : Bool) (k : Fin (n1 * n2))
    (hk : ax12 f D k = 0) :
    ∃ r, mergeCond2 v (condTab D.c1b D.c1u f) (condTab D.c2b D.c2u f) (liftT D.ax1) (liftT D.ax2)
        (liftT D.ay) = .ok r ∧ r[k] = Simplex.vacuous := by
  refine ⟨_, C11_refines h v, ?_⟩
  rw [← C11_stage5_merged h]
  exact SLV.Props.C05.C05_zero_column h.inv12 k (C11_impossible_column h k hk)

/-- … on the closed form: `u = 1`, `b = 0` -/
theorem C11_impossible_cell_closed (h : MHyp D) (k : Fin (n1 * n2)) (hk : ax12 f D k = 0) :
    uM f D k = 1 ∧ ∀ y, bM f D k y = 0 := by
  have hc : ∀ y y', b12 f D y k + ax12 f D k * u12 f D y = b12 f D y' k + ax12 f D k * u12 f D y' :=
    fun y y' => by rw [C11_impossible_column h k hk y, C11_impossible_column h k hk y']
  obtain ⟨_, _, _, hu, hb⟩ := SLV.Props.C05.C05_irrelevant_closed (f := f) h.inv12 k hc
  exact ⟨hu, hb⟩

/-- in terms of the inverted tables: if the marginal base rate of the joint table is present and for
    every `y` one of the parents' values is impossible given `y` (`P(x1|y) P(x2|y) = 0`), the cell
    `(x1, x2)` receives the vacuous conditional -/
theorem C11_impossible_of_projections (h : MHyp D) (v : Bool) (i : Fin n1) (j : Fin n2)
    (hm : ¬ ((∀ y, 1 - 2 * f.eps ≤ u12 f D y) ∨ ∑ y, D.ay y * (1 - u12 f D y) = 0))
    (hz : ∀ y, (x1b f D y i + D.ax1 i * x1u f D y) * (x2b f D y j + D.ax2 j * x2u f D y) = 0) :
    ax12 f D (flat2 i j) = 0 ∧
    ∃ r, mergeCond2 v (condTab D.c1b D.c1u f) (condTab D.c2b D.c2u f) (liftT D.ax1) (liftT D.ax2)
        (liftT D.ay) = .ok r ∧ r[flat2 i j] = Simplex.vacuous := by
  have hk : ax12 f D (flat2 i j) = 0 := by
    rw [C11_impossible_iff h]
    refine ⟨hm, fun y => ?_⟩
    have hle := b12_le (f := f) h y (flat2 i j)
    rw [idx2_flat2, ← SLV.C05.proj_bI, ← SLV.C05.proj_bI] at hle
    have e := hz y
    unfold x1b x1u x2b x2u at e
    rw [e] at hle
    exact le_antisymm hle ((wf12 h y).hb _)
  exact ⟨hk, C11_impossible_cell_vacuous h v _ hk⟩

/-! ### 4. exchanging the parents transposes the table -/

/-- the closed forms: row `(j, i)` of the table merged from `(X2, X1)` is row `(i, j)` of the table merged
    from `(X1, X2)`; the intermediate joint base rate transposes likewise -/
theorem C11_transpose_closed (h : MHyp D) (i : Fin n1) (j : Fin n2) :
    uM f D.swap (flat2 j i) = uM f D (flat2 i j) ∧
    (∀ y, bM f D.swap (flat2 j i) y = bM f D (flat2 i j) y) ∧
    ax12 f D.swap (flat2 j i) = ax12 f D (flat2 i j) := by
  refine ⟨?_, fun y => ?_, ?_⟩
  · rw [uM_swap h, tr_flat2]
  · rw [bM_swap h, tr_flat2]
  · rw [ax12_swap h]
    show ax12 f D (tr n1 n2 (flat2 j i)) = _
    rw [tr_flat2]

/-- exchanging the roles of X1 and X2 yields the transposed table: the conditional for the joint value
    `(x2, x1) = (j, i)` is the conditional for `(x1, x2) = (i, j)` of the original call, in both
    families -/
theorem C11_transpose (h : MHyp D) (v : Bool) :
    ∃ r r', mergeCond2 v (condTab D.c1b D.c1u f) (condTab D.c2b D.c2u f) (liftT D.ax1) (liftT D.ax2)
        (liftT D.ay) = .ok r ∧
      mergeCond2 v (condTab D.c2b D.c2u f) (condTab D.c1b D.c1u f) (liftT D.ax2) (liftT D.ax1)
        (liftT D.ay) = .ok r' ∧
      ∀ (i : Fin n1) (j : Fin n2), r'[flat2 j i] = r[flat2 i j] := by
  refine ⟨_, _, C11_refines h v, C11_refines (D := D.swap) h.swap v, fun i j => ?_⟩
  obtain ⟨e1, e2, _⟩ := C11_transpose_closed (f := f) h i j
  rw [condTab_get, condTab_get, e1, funext e2]

/-- … for every flat index of the swapped table -/
theorem C11_transpose_index (h : MHyp D) (v : Bool) :
    ∃ r r', mergeCond2 v (condTab D.c1b D.c1u f) (condTab D.c2b D.c2u f) (liftT D.ax1) (liftT D.ax2)
        (liftT D.ay) = .ok r ∧
      mergeCond2 v (condTab D.c2b D.c2u f) (condTab D.c1b D.c1u f) (liftT D.ax2) (liftT D.ax1)
        (liftT D.ay) = .ok r' ∧
      ∀ k' : Fin (n2 * n1), r'[k'] = r[flat2 (idx2 k').2 (idx2 k').1] := by
  obtain ⟨r, r', e1, e2, e3⟩ := C11_transpose (f := f) h v
  refine ⟨r, r', e1, e2, fun k' => ?_⟩
  have := e3 (idx2 k').2 (idx2 k').1
  simp only [flat2_idx2] at this
  exact this

/-! ### 5. deduction from a product opinion does not depend on the order of the parents -/

section deduce
variable {b1 a1 : Fin n1 → ℚ} {u1 : ℚ} {b2 a2 : Fin n2 → ℚ} {u2 : ℚ} {ad : Fin m → ℚ}

/-- deduction from the product `w1 × w2` through the table merged from `(X1, X2)` equals deduction from
    `w2 × w1` through the table merged from `(X2, X1)` (same deduced opinion on Y, for every base rate
    `ad` on Y passed to `deduce_of`), in the labelled family … -/
theorem C11_deduce_order (h : MHyp D) (hw1 : WF b1 u1 a1) (hw2 : WF b2 u2 a2)
    (had0 : ∀ y, 0 ≤ ad y) (had : ∑ y, ad y = 1) (v : Bool) :
    ∃ r r', mergeCond2 v (condTab D.c1b D.c1u f) (condTab D.c2b D.c2u f) (liftT D.ax1) (liftT D.ax2)
        (liftT D.ay) = .ok r ∧
      mergeCond2 v (condTab D.c2b D.c2u f) (condTab D.c1b D.c1u f) (liftT D.ax2) (liftT D.ax1)
        (liftT D.ay) = .ok r' ∧
      deduceOf (product2L (⟨liftT b2, XQ.fin u2, liftT a2⟩ : Opinion (XQ f) n2)
          ⟨liftT b1, XQ.fin u1, liftT a1⟩) r' (liftT ad)
        = deduceOf (product2L (⟨liftT b1, XQ.fin u1, liftT a1⟩ : Opinion (XQ f) n1)
          ⟨liftT b2, XQ.fin u2, liftT a2⟩) r (liftT ad) := by
  refine ⟨_, _, C11_refines h v, C11_refines (D := D.swap) h.swap v, ?_⟩
  rw [SLV.Props.C06.C06_labelled hw2 hw1, SLV.Props.C06.C06_labelled hw1 hw2]
  have w := SLV.Props.C06.C06_wf_opinion hw1 hw2
  have w' := SLV.Props.C06.C06_wf_opinion hw2 hw1
  have hy : SLV.C04.Hyp (bJ2 b1 u1 a1 b2 u2 a2) (A2 a1 a2) (uhat2 b1 u1 a1 b2 u2 a2)
      (bM f D) (uM f D) ad :=
    ⟨w.hb, w.hu, w.hs, w.ha0, w.ha, fun k => (C11_wf h k).1, fun k => (C11_wf h k).2.1,
      fun k => (C11_wf h k).2.2.2, had0, had⟩
  have hy' : SLV.C04.Hyp (bJ2 b2 u2 a2 b1 u1 a1) (A2 a2 a1) (uhat2 b2 u2 a2 b1 u1 a1)
      (bM f D.swap) (uM f D.swap) ad :=
    ⟨w'.hb, w'.hu, w'.hs, w'.ha0, w'.ha, fun k => (C11_wf h.swap k).1,
      fun k => (C11_wf h.swap k).2.1, fun k => (C11_wf h.swap k).2.2.2, had0, had⟩
  rw [SLV.Props.C04.C04_refines hy, SLV.Props.C04.C04_refines hy']
  have eb : bM f D.swap = fun k' => bM f D (tr n1 n2 k') :=
    funext fun k' => funext fun y => bM_swap h k' y
  have eu : uM f D.swap = fun k' => uM f D (tr n1 n2 k') := funext fun k' => uM_swap h k'
  rw [eb, eu, bJ2_swap hw1 hw2, A2_swap, SLV.Props.C06.C06_transpose_u hw1 hw2,
    bRes_relabelX (tr n1 n2) _ _ _ _ _ _ hy.npos, uRes_relabelX (tr n1 n2) _ _ _ _ _ _ hy.npos]

/-- … and in the unlabelled one (both products are accepted) -/
theorem C11_deduce_order_unlabelled (h : MHyp D) (hw1 : WF b1 u1 a1) (hw2 : WF b2 u2 a2)
    (had0 : ∀ y, 0 ≤ ad y) (had : ∑ y, ad y = 1) (v : Bool) :
    ∃ r r' p p', mergeCond2 v (condTab D.c1b D.c1u f) (condTab D.c2b D.c2u f) (liftT D.ax1)
        (liftT D.ax2) (liftT D.ay) = .ok r ∧
      mergeCond2 v (condTab D.c2b D.c2u f) (condTab D.c1b D.c1u f) (liftT D.ax2) (liftT D.ax1)
        (liftT D.ay) = .ok r' ∧
      product2U (⟨liftT b1, XQ.fin u1, liftT a1⟩ : Opinion (XQ f) n1) ⟨liftT b2, XQ.fin u2, liftT a2⟩
        = .ok p ∧
      product2U (⟨liftT b2, XQ.fin u2, liftT a2⟩ : Opinion (XQ f) n2) ⟨liftT b1, XQ.fin u1, liftT a1⟩
        = .ok p' ∧
      deduceOf p' r' (liftT ad) = deduceOf p r (liftT ad) := by
  obtain ⟨r, r', e1, e2, e3⟩ := C11_deduce_order (f := f) h hw1 hw2 had0 had v
  refine ⟨r, r', _, _, e1, e2, SLV.Props.C06.C06_unlabelled_accepts hw1 hw2,
    SLV.Props.C06.C06_unlabelled_accepts hw2 hw1, ?_⟩
  rw [SLV.Props.C06.C06_labelled hw2 hw1, SLV.Props.C06.C06_labelled hw1 hw2] at e3
  exact e3

end deduce

/-! ### 7. non-vacuity: the property's own example

  `Y|X = [(5,0,11;0), (6,6,4;0)]/16`, `Y|Z = [(5,5,3;3), (3,13,0;0)]/16`, `aX = (9,7)/16`,
  `aZ = (6,10)/16`, `aY = (7,5,4)/16` (`n1 = n2 = 2`, `m = 3`; SLV/Props/Pinned.lean has the same data in
  binary64). -/

def exD : MIn 2 2 3 :=
  ⟨![![5/16, 0, 11/16], ![6/16, 6/16, 4/16]], ![0, 0],
   ![![5/16, 5/16, 3/16], ![3/16, 13/16, 0]], ![3/16, 0],
   ![9/16, 7/16], ![6/16, 10/16], ![7/16, 5/16, 4/16]⟩

/-- the example satisfies the hypotheses of every theorem above -/
theorem exD_hyp : MHyp exD := by
  constructor <;> simp [exD, Fin.sum_univ_two, Fin.sum_univ_three, Fin.forall_fin_succ] <;> norm_num

example : MHyp exD.swap := exD_hyp.swap

/-- the base rate of the joint variable computed by stages 1–4 of the model has a zero at the joint
    value `(x0, z1)` (kernel evaluation of the model on the lifted data, both formats) -/
theorem exD_joint_base_rate_model (f : Fmt) :
    (match jointBaseRate true (condTab exD.c1b exD.c1u f) (condTab exD.c2b exD.c2u f)
        (liftT exD.ax1) (liftT exD.ax2) (liftT exD.ay) with
      | .ok a => decide (a[flat2 (0 : Fin 2) (1 : Fin 2)] = XQ.fin 0)
      | .error _ => false) = true := by
  cases f <;> decide +kernel

/-- … so the hypothesis of `C11_impossible_cell_vacuous` holds for `(x0, z1)` -/
theorem exD_joint_zero (f : Fmt) : ax12 f exD (flat2 0 1) = 0 := by
  have key := exD_joint_base_rate_model f
  rw [jointBaseRate_lift exD_hyp true] at key
  simp only [liftT_getElem, decide_eq_true_eq] at key
  exact XQ.fin.inj key

/-- … and the theorem gives the vacuous conditional for that cell -/
example (f : Fmt) : ∃ r, mergeCond2 true (condTab exD.c1b exD.c1u f) (condTab exD.c2b exD.c2u f)
    (liftT exD.ax1) (liftT exD.ax2) (liftT exD.ay) = .ok r ∧ r[flat2 (0 : Fin 2) (1 : Fin 2)] = Simplex.vacuous :=
  C11_impossible_cell_vacuous exD_hyp true _ (exD_joint_zero f)

/-- the same fact by kernel evaluation of the whole exact model (style of SLV/Props/Pinned.lean): the
    cell `(x0, z1)` of the merged table is vacuous (`u = 1`, `b = 0`), while e.g. the cell `(x0, z0)` is
    dogmatic — so the table is not vacuous throughout -/
theorem C11_example_cell_vacuous (f : Fmt) :
    (match mergeCond2 true (condTab exD.c1b exD.c1u f) (condTab exD.c2b exD.c2u f)
        (liftT exD.ax1) (liftT exD.ax2) (liftT exD.ay) with
      | .ok t => decide ((t[flat2 (0 : Fin 2) (1 : Fin 2)]).u = XQ.fin 1 ∧
          (t[flat2 (0 : Fin 2) (1 : Fin 2)]).b = Vector.replicate 3 (XQ.fin 0) ∧
          (t[flat2 (0 : Fin 2) (0 : Fin 2)]).u = XQ.fin 0)
      | .error _ => false) = true := by
  cases f <;> decide +kernel

/-- the swapped call puts that vacuous cell at `(z1, x0)` -/
theorem C11_example_swapped (f : Fmt) :
    (match mergeCond2 true (condTab exD.c2b exD.c2u f) (condTab exD.c1b exD.c1u f)
        (liftT exD.ax2) (liftT exD.ax1) (liftT exD.ay) with
      | .ok t => decide ((t[flat2 (1 : Fin 2) (0 : Fin 2)]).u = XQ.fin 1 ∧
          (t[flat2 (0 : Fin 2) (1 : Fin 2)]).u ≠ XQ.fin 1)
      | .error _ => false) = true := by
  cases f <;> decide +kernel

/-- operands for `C11_deduce_order`: opinions on X and on Z -/
example : WF (n := 2) ![1/4, 1/4] (1/2) ![9/16, 7/16] ∧ WF (n := 2) ![1/2, 1/8] (3/8) ![6/16, 10/16] := by
  constructor <;> constructor <;> norm_num [Fin.sum_univ_two, Fin.forall_fin_two]

/-- a second instance, for `C11_impossible_of_projections`: `X1 -> Y` and `X2 -> Y` both the identity
    (dogmatic), uniform base rates; the joint value `(x0, z1)` is impossible under every `y` -/
def exE : MIn 2 2 2 :=
  ⟨![![1, 0], ![0, 1]], ![0, 0], ![![1, 0], ![0, 1]], ![0, 0], ![1/2, 1/2], ![1/2, 1/2], ![1/2, 1/2]⟩

theorem exE_hyp : MHyp exE := by
  constructor <;> simp [exE, Fin.sum_univ_two, Fin.forall_fin_succ] <;> norm_num

/-- kernel evaluation of stages 1–2 of the model: `P(z1|y0) = 0` and `P(x0|y1) = 0` … -/
theorem exE_inverted_model (f : Fmt) :
    (let i1 := inverse (condTab exE.c1b exE.c1u f) (liftT exE.ax1)
        ((mbr (liftT exE.ax1) (condTab exE.c1b exE.c1u f)).getD (liftT exE.ay))
     let i2 := inverse (condTab exE.c2b exE.c2u f) (liftT exE.ax2)
        ((mbr (liftT exE.ax2) (condTab exE.c2b exE.c2u f)).getD (liftT exE.ay))
     decide ((i2[(0 : Fin 2)]).b[(1 : Fin 2)] = XQ.fin 0 ∧ (i2[(0 : Fin 2)]).u = XQ.fin 0 ∧
       (i1[(1 : Fin 2)]).b[(0 : Fin 2)] = XQ.fin 0 ∧ (i1[(1 : Fin 2)]).u = XQ.fin 0)) = true := by
  cases f <;> decide +kernel

/-- … and of stage 3: the product cell for `y0` is dogmatic -/
theorem exE_cells_model (f : Fmt) :
    (match sequenceE (SLV.C15.mCells true (condTab exE.c1b exE.c1u f) (condTab exE.c2b exE.c2u f)
        (liftT exE.ax1) (liftT exE.ax2) (liftT exE.ay)) with
      | .ok t => decide ((t[(0 : Fin 2)]).u = XQ.fin 0)
      | .error _ => false) = true := by
  cases f <;> decide +kernel

/-- the hypotheses of `C11_impossible_of_projections` hold for the cell `(x0, z1)` of `exE` -/
theorem exE_impossible (f : Fmt) :
    ¬ ((∀ y, 1 - 2 * f.eps ≤ u12 f exE y) ∨ ∑ y, exE.ay y * (1 - u12 f exE y) = 0) ∧
    ∀ y, (x1b f exE y 0 + exE.ax1 0 * x1u f exE y) * (x2b f exE y 1 + exE.ax2 1 * x2u f exE y) = 0 := by
  have k1 := exE_inverted_model f
  simp only [(stage_rows exE_hyp _).1, (stage_rows exE_hyp _).2, liftT_getElem,
    decide_eq_true_eq, XQ.fin.injEq] at k1
  obtain ⟨a1, a2, a3, a4⟩ := k1
  have k2 := exE_cells_model f
  rw [cells_lift exE_hyp true] at k2
  simp only [condTab_get, decide_eq_true_eq, XQ.fin.injEq] at k2
  constructor
  · rintro (hv | hS)
    · have := hv 0
      rw [k2] at this
      have := SLV.Props.C08.eps_small f
      linarith
    · have hle : u12 f exE 1 ≤ 1 :=
        (SLV.Props.C06.C06_wf (wf1 (f := f) exE_hyp 1) (wf2 (f := f) exE_hyp 1)).2.2.2.1
      have h0 : 0 ≤ exE.ay 1 * (1 - u12 f exE 1) :=
        mul_nonneg (le_of_lt (exE_hyp.hay 1)) (by linarith)
      rw [Fin.sum_univ_two, k2] at hS
      have : exE.ay 0 = 1/2 := by simp [exE]
      rw [this] at hS
      linarith
  · intro y
    fin_cases y
    · show _ * (x2b f exE 0 1 + exE.ax2 1 * x2u f exE 0) = 0
      rw [a1, a2]; ring
    · show (x1b f exE 1 0 + exE.ax1 0 * x1u f exE 1) * _ = 0
      rw [a3, a4]; ring

example (f : Fmt) : ∃ r, mergeCond2 false (condTab exE.c1b exE.c1u f) (condTab exE.c2b exE.c2u f)
    (liftT exE.ax1) (liftT exE.ax2) (liftT exE.ay) = .ok r ∧
    r[flat2 (0 : Fin 2) (1 : Fin 2)] = Simplex.vacuous :=
  (C11_impossible_of_projections exE_hyp false 0 1 (exE_impossible f).1 (exE_impossible f).2).2

end SLV.Props.C11
