/-
  C01 — Checked constructors admit exactly the well-formed opinions.

  "A binomial or multinomial opinion (or bare simplex) is accepted by the checked constructors exactly when
  every belief mass, the uncertainty mass and every base rate lies in [0,1], belief masses plus uncertainty
  sum to 1 and (multinomial) base rates sum to 1, up to a few units in the last place; parameter sets that
  miss any single constraint by a visible margin, or contain NaN or an infinity, are always rejected with an
  error.  The panicking constructor panics precisely when the fallible one errs, an accepted opinion stores
  the supplied numbers unchanged, and the vacuous/dogmatic predicates are true for uncertainty 1 / 0 (within
  that same tolerance) and false otherwise."

  All statements are about the executable model (`SLV/Model/Basic.lean`, `SLV/Model/Bi.lean`) at the exact
  semantics `XQ f`, for every format `f`, every domain size `n` and *arbitrary* extended inputs (finite,
  `±inf`, NaN).  With `ε = f.eps`:
    `band f q    :=  -ε ≤ q ∧ q ≤ 1 + 4ε`      (what `in_unit_interval` accepts)
    `oneBand f q :=  1 - 2ε ≤ q ∧ q ≤ 1 + 4ε`  (what `is_one` accepts)
    `inBand x    :=  ∃ q, x = fin q ∧ band f q`  (finite and in the band)
    `sumOne3 b d u := ∃ bq dq uq, b = fin bq ∧ d = fin dq ∧ u = fin uq ∧ oneBand f (bq + dq + uq)`
  (definitions in `SLV/Refine/C01Lemmas.lean`).

  `C01_new_iff` (no theorem): in the model the panicking constructors `new` are the same functions as
  `try_new`, with `.error _` standing for the panic (`try_new(..).unwrap()` in the Rust text).  The clause
  "the panicking constructor panics precisely when the fallible one errs" is therefore carried by the
  correspondence check (harness: `catch_unwind(new)` is `Err` iff `try_new` is `Err`), not by a theorem.
-/
import SLV.Refine.C01Lemmas

namespace SLV.Props.C01
open SLV Scalar

variable {f : Fmt} {n : Nat}

/-! ## 1. the scalar guards -/

/-- `in_unit_interval` accepts exactly the finite values in `[-ε, 1+4ε]`; never NaN or an infinity -/
theorem C01_inUnit_iff (x : XQ f) : Scalar.inUnit x = true ↔ ∃ q, x = XQ.fin q ∧ band f q :=
  inUnit_iff x

/-- `is_one` accepts exactly the finite values in `[1-2ε, 1+4ε]` -/
theorem C01_isOne_iff (x : XQ f) : Scalar.isOne x = true ↔ ∃ q, x = XQ.fin q ∧ oneBand f q :=
  isOne_iff x

/-- NaN and the infinities are outside every guard -/
theorem C01_guards_special :
    Scalar.inUnit (XQ.nan : XQ f) = false ∧ Scalar.inUnit (XQ.pinf : XQ f) = false ∧
    Scalar.inUnit (XQ.ninf : XQ f) = false ∧ Scalar.isOne (XQ.nan : XQ f) = false ∧
    Scalar.isOne (XQ.pinf : XQ f) = false ∧ Scalar.isOne (XQ.ninf : XQ f) = false ∧
    Scalar.isZero (XQ.nan : XQ f) = false ∧ Scalar.isZero (XQ.pinf : XQ f) = false ∧
    Scalar.isZero (XQ.ninf : XQ f) = false :=
  ⟨rfl, rfl, rfl, rfl, rfl, rfl, rfl, rfl, rfl⟩

/-- the tolerance is small: `ε ≤ 1/4` for both formats (so `[0,1] ⊆ band ⊆ [-1/4, 2]`) -/
theorem C01_eps_small (f : Fmt) : 0 < f.eps ∧ f.eps ≤ 1 / 4 := ⟨XQ.eps_pos f, eps_le f⟩

/-! ## totality: a checked constructor returns `.ok` or `.error` -/

theorem C01_total_simplex (b : Tab (XQ f) n) (u : XQ f) :
    (∃ s, Simplex.tryNew b u = .ok s) ∨ (∃ l, Simplex.tryNew b u = .error l) := by
  cases Simplex.tryNew b u with
  | ok s => exact Or.inl ⟨s, rfl⟩
  | error l => exact Or.inr ⟨l, rfl⟩

theorem C01_total_opinion (b a : Tab (XQ f) n) (u : XQ f) :
    (∃ w, Opinion.tryNew b u a = .ok w) ∨ (∃ l, Opinion.tryNew b u a = .error l) := by
  cases Opinion.tryNew b u a with
  | ok s => exact Or.inl ⟨s, rfl⟩
  | error l => exact Or.inr ⟨l, rfl⟩

/-! ## 2–4. acceptance, exactly -/

/-- `Simplex::try_new` succeeds iff all inputs are finite, every mass and `u` is in the unit band and
    `Σb + u` is in the one band. -/
theorem C01_simplex_accept_iff (b : Tab (XQ f) n) (u : XQ f) :
    (∃ s, Simplex.tryNew b u = .ok s) ↔
      ∃ (bq : Fin n → ℚ) (uq : ℚ), b = liftT bq ∧ u = XQ.fin uq ∧
        (∀ i, band f (bq i)) ∧ band f uq ∧ oneBand f (∑ i, bq i + uq) := by
  refine Iff.trans ?_ (checkSimplex_ok_iff b u)
  constructor
  · rintro ⟨s, hs⟩
    rcases unit_ok_or_error (checkSimplex b u) with h | ⟨l, h⟩
    · exact h
    · rw [simplexTryNew_err h] at hs; cases hs
  · intro h
    exact ⟨_, simplexTryNew_ok h⟩

/-- `Opinion::try_new` succeeds iff, in addition, every base rate is in the unit band and `Σa` is in the
    one band. -/
theorem C01_opinion_accept_iff (b a : Tab (XQ f) n) (u : XQ f) :
    (∃ w, Opinion.tryNew b u a = .ok w) ↔
      ∃ (bq : Fin n → ℚ) (uq : ℚ) (aq : Fin n → ℚ), b = liftT bq ∧ u = XQ.fin uq ∧ a = liftT aq ∧
        (∀ i, band f (bq i)) ∧ band f uq ∧ oneBand f (∑ i, bq i + uq) ∧
        (∀ i, band f (aq i)) ∧ oneBand f (∑ i, aq i) := by
  constructor
  · rintro ⟨w, hw⟩
    rcases unit_ok_or_error (checkSimplex b u) with h | ⟨l, h⟩
    · rcases unit_ok_or_error (checkBaseRate a) with h' | ⟨l, h'⟩
      · obtain ⟨bq, uq, hb, hu, h1, h2, h3⟩ := (checkSimplex_ok_iff b u).1 h
        obtain ⟨aq, ha, h4, h5⟩ := (checkBaseRate_ok_iff a).1 h'
        exact ⟨bq, uq, aq, hb, hu, ha, h1, h2, h3, h4, h5⟩
      · rw [opinionTryNew_err2 h h'] at hw; cases hw
    · rw [opinionTryNew_err1 h] at hw; cases hw
  · rintro ⟨bq, uq, aq, rfl, rfl, rfl, h1, h2, h3, h4, h5⟩
    exact ⟨_, opinionTryNew_ok (checkSimplex_ok bq uq h1 h2 h3) (checkBaseRate_ok aq h4 h5)⟩

/-- `Simplex1d::into_opinion` succeeds iff the base-rate conditions hold (whatever the simplex is). -/
theorem C01_into_opinion_iff (s : Simplex (XQ f) n) (a : Tab (XQ f) n) :
    (∃ w, Simplex.intoOpinion s a = .ok w) ↔
      ∃ aq : Fin n → ℚ, a = liftT aq ∧ (∀ i, band f (aq i)) ∧ oneBand f (∑ i, aq i) := by
  constructor
  · rintro ⟨w, hw⟩
    rcases unit_ok_or_error (checkBaseRate a) with h' | ⟨l, h'⟩
    · exact (checkBaseRate_ok_iff a).1 h'
    · rw [intoOpinion_err h'] at hw; cases hw
  · rintro ⟨aq, rfl, h4, h5⟩
    exact ⟨_, intoOpinion_ok (checkBaseRate_ok aq h4 h5)⟩

/-! ## 5. an accepted opinion stores the supplied numbers unchanged (any scalar semantics) -/

theorem C01_stores_simplex {α : Type} [Scalar α] (b : Tab α n) (u : α) (s : Simplex α n)
    (h : Simplex.tryNew b u = .ok s) : s = ⟨b, u⟩ := by
  unfold Simplex.tryNew at h
  split at h
  · cases h
  · cases h; rfl

theorem C01_stores_opinion {α : Type} [Scalar α] (b a : Tab α n) (u : α) (w : Opinion α n)
    (h : Opinion.tryNew b u a = .ok w) : w = ⟨b, u, a⟩ := by
  unfold Opinion.tryNew at h
  split at h
  · cases h
  · split at h
    · cases h
    · cases h; rfl

theorem C01_stores_into_opinion {α : Type} [Scalar α] (s : Simplex α n) (a : Tab α n) (w : Opinion α n)
    (h : Simplex.intoOpinion s a = .ok w) : w = ⟨s.b, s.u, a⟩ := by
  unfold Simplex.intoOpinion at h
  split at h
  · cases h
  · cases h; rfl

theorem C01_stores_bop {α : Type} [Scalar α] (b d u a : α) (w : BOp α)
    (h : BOp.tryNew b d u a = .ok w) : w = ⟨b, d, u, a⟩ := by
  unfold BOp.tryNew at h
  split at h
  · cases h
  · split at h
    · cases h
    · cases h; rfl

theorem C01_stores_bsimplex {α : Type} [Scalar α] (b d u : α) (w : α × α × α)
    (h : BOp.simplexTryNew b d u = .ok w) : w = (b, d, u) := by
  unfold BOp.simplexTryNew at h
  split at h
  · cases h
  · cases h; rfl

/-! ## 6. exactly well-formed rational data is accepted -/

theorem wf_band {g : Fin n → ℚ} {c : ℚ} (hg : ∀ i, 0 ≤ g i) (hc : 0 ≤ c) (hs : ∑ i, g i + c = 1) :
    (∀ i, band f (g i)) ∧ band f c ∧ oneBand f (∑ i, g i + c) := by
  have hp := XQ.eps_pos f
  have hsum : 0 ≤ ∑ i, g i := Finset.sum_nonneg (fun i _ => hg i)
  refine ⟨fun i => ?_, ⟨by linarith, by linarith⟩, ⟨by linarith, by linarith⟩⟩
  have : g i ≤ ∑ j, g j := Finset.single_le_sum (fun j _ => hg j) (Finset.mem_univ i)
  exact ⟨by linarith [hg i], by linarith⟩

/-- a well-formed simplex (masses and `u` non-negative, sum exactly 1) is accepted and stored as given -/
theorem C01_accepts_wf_simplex (bq : Fin n → ℚ) (uq : ℚ)
    (hb : ∀ i, 0 ≤ bq i) (hu : 0 ≤ uq) (hs : ∑ i, bq i + uq = 1) :
    Simplex.tryNew (liftT bq : Tab (XQ f) n) (XQ.fin uq) = .ok ⟨liftT bq, XQ.fin uq⟩ := by
  obtain ⟨h1, h2, h3⟩ := wf_band (f := f) hb hu hs
  exact simplexTryNew_ok (checkSimplex_ok bq uq h1 h2 h3)

/-- a well-formed opinion (additionally base rates non-negative with sum exactly 1) is accepted -/
theorem C01_accepts_wf (bq aq : Fin n → ℚ) (uq : ℚ)
    (hb : ∀ i, 0 ≤ bq i) (hu : 0 ≤ uq) (hs : ∑ i, bq i + uq = 1)
    (ha : ∀ i, 0 ≤ aq i) (hsa : ∑ i, aq i = 1) :
    Opinion.tryNew (liftT bq : Tab (XQ f) n) (XQ.fin uq) (liftT aq) =
      .ok ⟨liftT bq, XQ.fin uq, liftT aq⟩ := by
  obtain ⟨h1, h2, h3⟩ := wf_band (f := f) hb hu hs
  obtain ⟨h4, _, h5⟩ := wf_band (f := f) (c := 0) ha le_rfl (by rw [add_zero]; exact hsa)
  rw [add_zero] at h5
  exact opinionTryNew_ok (checkSimplex_ok bq uq h1 h2 h3) (checkBaseRate_ok aq h4 h5)

theorem C01_accepts_wf_into_opinion (s : Simplex (XQ f) n) (aq : Fin n → ℚ)
    (ha : ∀ i, 0 ≤ aq i) (hsa : ∑ i, aq i = 1) :
    Simplex.intoOpinion s (liftT aq) = .ok ⟨s.b, s.u, liftT aq⟩ := by
  obtain ⟨h4, _, h5⟩ := wf_band (f := f) (c := 0) ha le_rfl (by rw [add_zero]; exact hsa)
  rw [add_zero] at h5
  exact intoOpinion_ok (checkBaseRate_ok aq h4 h5)

/-- conversely an accepted opinion is well-formed up to the tolerance: entries in `[-ε, 1+4ε]`, sums in
    `[1-2ε, 1+4ε]` (restatement of `C01_opinion_accept_iff`, left to right, in interval form) -/
theorem C01_accepted_near_wf (b a : Tab (XQ f) n) (u : XQ f) (w : Opinion (XQ f) n)
    (h : Opinion.tryNew b u a = .ok w) :
    ∃ (bq : Fin n → ℚ) (uq : ℚ) (aq : Fin n → ℚ), w = ⟨liftT bq, XQ.fin uq, liftT aq⟩ ∧
      (∀ i, -f.eps ≤ bq i ∧ bq i ≤ 1 + 4 * f.eps) ∧ (-f.eps ≤ uq ∧ uq ≤ 1 + 4 * f.eps) ∧
      |∑ i, bq i + uq - 1| ≤ 4 * f.eps ∧
      (∀ i, -f.eps ≤ aq i ∧ aq i ≤ 1 + 4 * f.eps) ∧ |∑ i, aq i - 1| ≤ 4 * f.eps := by
  obtain ⟨bq, uq, aq, rfl, rfl, rfl, h1, h2, h3, h4, h5⟩ := (C01_opinion_accept_iff b a u).1 ⟨w, h⟩
  have hp := XQ.eps_pos f
  refine ⟨bq, uq, aq, C01_stores_opinion _ _ _ _ h, h1, h2, ?_, h4, ?_⟩
  · rw [abs_le]; exact ⟨by linarith [h3.1], by linarith [h3.2]⟩
  · rw [abs_le]; exact ⟨by linarith [h5.1], by linarith [h5.2]⟩

/-! ## 7. rejection: a single violated constraint, NaN or an infinity always gives an error -/

theorem not_inBand_of_margin {x : XQ f} {q : ℚ} (hx : x = XQ.fin q) (hq : ¬ band f q) : ¬ inBand x := by
  rw [hx, inBand_fin]; exact hq

theorem not_inBand_of_special {x : XQ f} (hx : x = XQ.nan ∨ x = XQ.pinf ∨ x = XQ.ninf) : ¬ inBand x := by
  rcases hx with rfl | rfl | rfl
  · exact not_inBand_nan
  · exact not_inBand_pinf
  · exact not_inBand_ninf

/-- generic form: one entry of `b`, or `u`, or one entry of `a` that is not (finite and in the band) -/
theorem C01_rejects_entry (b a : Tab (XQ f) n) (u : XQ f)
    (h : (∃ i : Fin n, ¬ inBand b[i]) ∨ ¬ inBand u ∨ (∃ i : Fin n, ¬ inBand a[i])) :
    ∃ l, Opinion.tryNew b u a = .error l := by
  rcases C01_total_opinion b a u with hok | herr
  · exfalso
    obtain ⟨bq, uq, aq, rfl, rfl, rfl, h1, h2, _, h4, _⟩ := (C01_opinion_accept_iff b a u).1 hok
    rcases h with ⟨i, hi⟩ | hu | ⟨i, hi⟩
    · exact hi ⟨bq i, liftT_getElem _ _, h1 i⟩
    · exact hu ⟨uq, rfl, h2⟩
    · exact hi ⟨aq i, liftT_getElem _ _, h4 i⟩
  · exact herr

theorem C01_rejects_entry_simplex (b : Tab (XQ f) n) (u : XQ f)
    (h : (∃ i : Fin n, ¬ inBand b[i]) ∨ ¬ inBand u) :
    ∃ l, Simplex.tryNew b u = .error l := by
  rcases C01_total_simplex b u with hok | herr
  · exfalso
    obtain ⟨bq, uq, rfl, rfl, h1, h2, _⟩ := (C01_simplex_accept_iff b u).1 hok
    rcases h with ⟨i, hi⟩ | hu
    · exact hi ⟨bq i, liftT_getElem _ _, h1 i⟩
    · exact hu ⟨uq, rfl, h2⟩
  · exact herr

/-- a belief mass outside `[-ε, 1+4ε]` — whatever the other components are -/
theorem C01_rejects_margin_b (b a : Tab (XQ f) n) (u : XQ f) (i : Fin n) (q : ℚ)
    (hb : b[i] = XQ.fin q) (hq : q < -f.eps ∨ 1 + 4 * f.eps < q) :
    (∃ l, Opinion.tryNew b u a = .error l) ∧ (∃ l, Simplex.tryNew b u = .error l) := by
  have : ¬ inBand b[i] := not_inBand_of_margin hb (by
    rintro ⟨h1, h2⟩; rcases hq with h | h <;> linarith)
  exact ⟨C01_rejects_entry b a u (Or.inl ⟨i, this⟩), C01_rejects_entry_simplex b u (Or.inl ⟨i, this⟩)⟩

/-- the uncertainty mass outside `[-ε, 1+4ε]` -/
theorem C01_rejects_margin_u (b a : Tab (XQ f) n) (q : ℚ) (hq : q < -f.eps ∨ 1 + 4 * f.eps < q) :
    (∃ l, Opinion.tryNew b (XQ.fin q) a = .error l) ∧ (∃ l, Simplex.tryNew b (XQ.fin q : XQ f) = .error l) := by
  have : ¬ inBand (XQ.fin q : XQ f) := not_inBand_of_margin rfl (by
    rintro ⟨h1, h2⟩; rcases hq with h | h <;> linarith)
  exact ⟨C01_rejects_entry b a _ (Or.inr (Or.inl this)), C01_rejects_entry_simplex b _ (Or.inr this)⟩

/-- a base rate outside `[-ε, 1+4ε]` -/
theorem C01_rejects_margin_a (b a : Tab (XQ f) n) (u : XQ f) (s : Simplex (XQ f) n) (i : Fin n) (q : ℚ)
    (ha : a[i] = XQ.fin q) (hq : q < -f.eps ∨ 1 + 4 * f.eps < q) :
    (∃ l, Opinion.tryNew b u a = .error l) ∧ (∃ l, Simplex.intoOpinion s a = .error l) := by
  have hn : ¬ inBand a[i] := not_inBand_of_margin ha (by
    rintro ⟨h1, h2⟩; rcases hq with h | h <;> linarith)
  refine ⟨C01_rejects_entry b a u (Or.inr (Or.inr ⟨i, hn⟩)), .a, ?_⟩
  exact intoOpinion_err (checkBaseRate_a a (fun h => hn (h i)))

/-- `Σb + u` outside `[1-2ε, 1+4ε]` -/
theorem C01_rejects_margin_sumBU (bq : Fin n → ℚ) (uq : ℚ) (a : Tab (XQ f) n)
    (hs : ∑ i, bq i + uq < 1 - 2 * f.eps ∨ 1 + 4 * f.eps < ∑ i, bq i + uq) :
    (∃ l, Opinion.tryNew (liftT bq) (XQ.fin uq) a = .error l) ∧
    (∃ l, Simplex.tryNew (liftT bq : Tab (XQ f) n) (XQ.fin uq) = .error l) := by
  have key : ¬ oneBand f (∑ i, bq i + uq) := by
    rintro ⟨h1, h2⟩; rcases hs with h | h <;> linarith
  constructor
  · rcases C01_total_opinion (liftT bq) a (XQ.fin uq : XQ f) with hok | herr
    · exfalso
      obtain ⟨bq', uq', aq, hb, hu, _, _, _, h3, _, _⟩ := (C01_opinion_accept_iff _ _ _).1 hok
      cases liftT_injective hb; cases hu
      exact key h3
    · exact herr
  · rcases C01_total_simplex (liftT bq) (XQ.fin uq : XQ f) with hok | herr
    · exfalso
      obtain ⟨bq', uq', hb, hu, _, _, h3⟩ := (C01_simplex_accept_iff _ _).1 hok
      cases liftT_injective hb; cases hu
      exact key h3
    · exact herr

/-- `Σa` outside `[1-2ε, 1+4ε]` -/
theorem C01_rejects_margin_sumA (b : Tab (XQ f) n) (u : XQ f) (s : Simplex (XQ f) n) (aq : Fin n → ℚ)
    (hs : ∑ i, aq i < 1 - 2 * f.eps ∨ 1 + 4 * f.eps < ∑ i, aq i) :
    (∃ l, Opinion.tryNew b u (liftT aq) = .error l) ∧ (∃ l, Simplex.intoOpinion s (liftT aq) = .error l) := by
  have key : ¬ oneBand f (∑ i, aq i) := by
    rintro ⟨h1, h2⟩; rcases hs with h | h <;> linarith
  have hbr : ∃ l, checkBaseRate (liftT aq : Tab (XQ f) n) = .error l := by
    rcases unit_ok_or_error (checkBaseRate (liftT aq : Tab (XQ f) n)) with h | h
    · exfalso
      obtain ⟨aq', ha, _, h5⟩ := (checkBaseRate_ok_iff _).1 h
      cases liftT_injective ha
      exact key h5
    · exact h
  obtain ⟨l, hl⟩ := hbr
  constructor
  · rcases unit_ok_or_error (checkSimplex b u) with h | ⟨l', h⟩
    · exact ⟨l, opinionTryNew_err2 h hl⟩
    · exact ⟨l', opinionTryNew_err1 h⟩
  · exact ⟨l, intoOpinion_err hl⟩

/-- NaN or an infinity anywhere: always an error -/
theorem C01_rejects_special (b a : Tab (XQ f) n) (u : XQ f)
    (h : (∃ i : Fin n, b[i] = XQ.nan ∨ b[i] = XQ.pinf ∨ b[i] = XQ.ninf) ∨
         (u = XQ.nan ∨ u = XQ.pinf ∨ u = XQ.ninf) ∨
         (∃ i : Fin n, a[i] = XQ.nan ∨ a[i] = XQ.pinf ∨ a[i] = XQ.ninf)) :
    ∃ l, Opinion.tryNew b u a = .error l := by
  apply C01_rejects_entry
  rcases h with ⟨i, hi⟩ | hu | ⟨i, hi⟩
  · exact Or.inl ⟨i, not_inBand_of_special hi⟩
  · exact Or.inr (Or.inl (not_inBand_of_special hu))
  · exact Or.inr (Or.inr ⟨i, not_inBand_of_special hi⟩)

theorem C01_rejects_special_simplex (b : Tab (XQ f) n) (u : XQ f)
    (h : (∃ i : Fin n, b[i] = XQ.nan ∨ b[i] = XQ.pinf ∨ b[i] = XQ.ninf) ∨
         (u = XQ.nan ∨ u = XQ.pinf ∨ u = XQ.ninf)) :
    ∃ l, Simplex.tryNew b u = .error l := by
  apply C01_rejects_entry_simplex
  rcases h with ⟨i, hi⟩ | hu
  · exact Or.inl ⟨i, not_inBand_of_special hi⟩
  · exact Or.inr (not_inBand_of_special hu)

theorem C01_rejects_special_into_opinion (s : Simplex (XQ f) n) (a : Tab (XQ f) n)
    (h : ∃ i : Fin n, a[i] = XQ.nan ∨ a[i] = XQ.pinf ∨ a[i] = XQ.ninf) :
    Simplex.intoOpinion s a = .error .a := by
  obtain ⟨i, hi⟩ := h
  exact intoOpinion_err (checkBaseRate_a a (fun h => not_inBand_of_special hi (h i)))

/-! ## 8. error labels, in first-failure order -/

/-- the only labels `Opinion::try_new` can report -/
theorem C01_error_label (b a : Tab (XQ f) n) (u : XQ f) (l : Label)
    (h : Opinion.tryNew b u a = .error l) :
    l = .b ∨ l = .u ∨ l = .sumBU ∨ l = .a ∨ l = .sumA := by
  rcases unit_ok_or_error (checkSimplex b u) with h1 | ⟨l1, h1⟩
  · rcases unit_ok_or_error (checkBaseRate a) with h2 | ⟨l2, h2⟩
    · rw [opinionTryNew_ok h1 h2] at h; cases h
    · rw [opinionTryNew_err2 h1 h2] at h; cases h
      rcases checkBaseRate_label a _ h2 with e | e <;> simp [e]
  · rw [opinionTryNew_err1 h1] at h; cases h
    rcases checkSimplex_label b u _ h1 with e | e | e <;> simp [e]

theorem C01_error_label_simplex (b : Tab (XQ f) n) (u : XQ f) (l : Label)
    (h : Simplex.tryNew b u = .error l) : l = .b ∨ l = .u ∨ l = .sumBU := by
  rcases unit_ok_or_error (checkSimplex b u) with h1 | ⟨l1, h1⟩
  · rw [simplexTryNew_ok h1] at h; cases h
  · rw [simplexTryNew_err h1] at h; cases h
    exact checkSimplex_label b u _ h1

theorem C01_error_label_into_opinion (s : Simplex (XQ f) n) (a : Tab (XQ f) n) (l : Label)
    (h : Simplex.intoOpinion s a = .error l) : l = .a ∨ l = .sumA := by
  rcases unit_ok_or_error (checkBaseRate a) with h1 | ⟨l1, h1⟩
  · rw [intoOpinion_ok h1] at h; cases h
  · rw [intoOpinion_err h1] at h; cases h
    exact checkBaseRate_label a _ h1

/-- some belief mass not (finite and in band): label `b[]`, whatever else is wrong -/
theorem C01_label_b (b a : Tab (XQ f) n) (u : XQ f) (h : ∃ i : Fin n, ¬ inBand b[i]) :
    Opinion.tryNew b u a = .error .b ∧ Simplex.tryNew b u = .error .b := by
  obtain ⟨i, hi⟩ := h
  have := checkSimplex_b b u (fun h => hi (h i))
  exact ⟨opinionTryNew_err1 this, simplexTryNew_err this⟩

/-- all belief masses fine, `u` not (finite and in band): label `u` -/
theorem C01_label_u (bq : Fin n → ℚ) (a : Tab (XQ f) n) (u : XQ f)
    (hb : ∀ i, band f (bq i)) (hu : ¬ inBand u) :
    Opinion.tryNew (liftT bq) u a = .error .u ∧ Simplex.tryNew (liftT bq) u = .error .u := by
  have := checkSimplex_u bq u hb hu
  exact ⟨opinionTryNew_err1 this, simplexTryNew_err this⟩

/-- all entries of the simplex fine, `Σb + u` outside the one band: label `sum(b)+u` -/
theorem C01_label_sumBU (bq : Fin n → ℚ) (uq : ℚ) (a : Tab (XQ f) n)
    (hb : ∀ i, band f (bq i)) (hu : band f uq) (hs : ¬ oneBand f (∑ i, bq i + uq)) :
    Opinion.tryNew (liftT bq) (XQ.fin uq) a = .error .sumBU ∧
    Simplex.tryNew (liftT bq : Tab (XQ f) n) (XQ.fin uq) = .error .sumBU := by
  have := checkSimplex_sum (f := f) bq uq hb hu hs
  exact ⟨opinionTryNew_err1 this, simplexTryNew_err this⟩

/-- simplex accepted, some base rate not (finite and in band): label `a[]` -/
theorem C01_label_a (bq : Fin n → ℚ) (uq : ℚ) (a : Tab (XQ f) n)
    (hb : ∀ i, band f (bq i)) (hu : band f uq) (hs : oneBand f (∑ i, bq i + uq))
    (ha : ∃ i : Fin n, ¬ inBand a[i]) :
    Opinion.tryNew (liftT bq) (XQ.fin uq) a = .error .a := by
  obtain ⟨i, hi⟩ := ha
  exact opinionTryNew_err2 (checkSimplex_ok bq uq hb hu hs) (checkBaseRate_a a (fun h => hi (h i)))

/-- all entries fine, `Σa` outside the one band: label `sum(a)` -/
theorem C01_label_sumA (bq aq : Fin n → ℚ) (uq : ℚ)
    (hb : ∀ i, band f (bq i)) (hu : band f uq) (hs : oneBand f (∑ i, bq i + uq))
    (ha : ∀ i, band f (aq i)) (hsa : ¬ oneBand f (∑ i, aq i)) :
    Opinion.tryNew (liftT bq : Tab (XQ f) n) (XQ.fin uq) (liftT aq) = .error .sumA :=
  opinionTryNew_err2 (checkSimplex_ok bq uq hb hu hs) (checkBaseRate_sum aq ha hsa)

/-- `into_opinion`: labels `a[]` then `sum(a)` -/
theorem C01_label_into_opinion (s : Simplex (XQ f) n) :
    (∀ a : Tab (XQ f) n, (∃ i : Fin n, ¬ inBand a[i]) → Simplex.intoOpinion s a = .error .a) ∧
    (∀ aq : Fin n → ℚ, (∀ i, band f (aq i)) → ¬ oneBand f (∑ i, aq i) →
      Simplex.intoOpinion s (liftT aq) = .error .sumA) :=
  ⟨fun a ⟨i, hi⟩ => intoOpinion_err (checkBaseRate_a a (fun h => hi (h i))),
   fun aq ha hs => intoOpinion_err (checkBaseRate_sum aq ha hs)⟩

/-! ## 9. binomial opinions -/

/-- `BSimplex::try_new` succeeds iff `b,d,u` are finite, `b+d+u` is in the one band and each is in the
    unit band -/
theorem C01_bsimplex_accept_iff (b d u : XQ f) :
    (∃ w, BOp.simplexTryNew b d u = .ok w) ↔
      ∃ bq dq uq : ℚ, b = XQ.fin bq ∧ d = XQ.fin dq ∧ u = XQ.fin uq ∧
        oneBand f (bq + dq + uq) ∧ band f bq ∧ band f dq ∧ band f uq := by
  constructor
  · rintro ⟨w, hw⟩
    rcases unit_ok_or_error (BOp.checkSimplex b d u) with h | ⟨l, h⟩
    · obtain ⟨⟨bq, dq, uq, rfl, rfl, rfl, hs⟩, hb, hd, hu⟩ := (bcheck_ok_iff b d u).1 h
      exact ⟨bq, dq, uq, rfl, rfl, rfl, hs, inBand_fin.1 hb, inBand_fin.1 hd, inBand_fin.1 hu⟩
    · rw [bsimplexTryNew_err h] at hw; cases hw
  · rintro ⟨bq, dq, uq, rfl, rfl, rfl, hs, hb, hd, hu⟩
    exact ⟨_, bsimplexTryNew_ok (bcheck_ok ⟨bq, dq, uq, rfl, rfl, rfl, hs⟩
      (inBand_fin.2 hb) (inBand_fin.2 hd) (inBand_fin.2 hu))⟩

/-- `BOpinion::try_new` -/
theorem C01_bop_accept_iff (b d u a : XQ f) :
    (∃ w, BOp.tryNew b d u a = .ok w) ↔
      ∃ bq dq uq aq : ℚ, b = XQ.fin bq ∧ d = XQ.fin dq ∧ u = XQ.fin uq ∧ a = XQ.fin aq ∧
        band f aq ∧ oneBand f (bq + dq + uq) ∧ band f bq ∧ band f dq ∧ band f uq := by
  constructor
  · rintro ⟨w, hw⟩
    by_cases ha : inBand a
    · rcases unit_ok_or_error (BOp.checkSimplex b d u) with h | ⟨l, h⟩
      · obtain ⟨⟨bq, dq, uq, rfl, rfl, rfl, hs⟩, hb, hd, hu⟩ := (bcheck_ok_iff b d u).1 h
        obtain ⟨aq, rfl, haq⟩ := ha
        exact ⟨bq, dq, uq, aq, rfl, rfl, rfl, rfl, haq, hs, inBand_fin.1 hb, inBand_fin.1 hd,
          inBand_fin.1 hu⟩
      · rw [bopTryNew_err ha h] at hw; cases hw
    · rw [bopTryNew_ba ha] at hw; cases hw
  · rintro ⟨bq, dq, uq, aq, rfl, rfl, rfl, rfl, ha, hs, hb, hd, hu⟩
    exact ⟨_, bopTryNew_ok (inBand_fin.2 ha) (bcheck_ok ⟨bq, dq, uq, rfl, rfl, rfl, hs⟩
      (inBand_fin.2 hb) (inBand_fin.2 hd) (inBand_fin.2 hu))⟩

/-- well-formed binomial data is accepted and stored as given -/
theorem C01_bop_accepts_wf (bq dq uq aq : ℚ) (hb : 0 ≤ bq) (hd : 0 ≤ dq) (hu : 0 ≤ uq)
    (hs : bq + dq + uq = 1) (ha0 : 0 ≤ aq) (ha1 : aq ≤ 1) :
    BOp.tryNew (XQ.fin bq : XQ f) (XQ.fin dq) (XQ.fin uq) (XQ.fin aq) =
      .ok ⟨XQ.fin bq, XQ.fin dq, XQ.fin uq, XQ.fin aq⟩ := by
  have hp := XQ.eps_pos f
  refine bopTryNew_ok (inBand_fin.2 ⟨by linarith, by linarith⟩)
    (bcheck_ok ⟨bq, dq, uq, rfl, rfl, rfl, ⟨by linarith, by linarith⟩⟩
      (inBand_fin.2 ⟨by linarith, by linarith⟩) (inBand_fin.2 ⟨by linarith, by linarith⟩)
      (inBand_fin.2 ⟨by linarith, by linarith⟩))

theorem C01_total_bop (b d u a : XQ f) :
    (∃ w, BOp.tryNew b d u a = .ok w) ∨ (∃ l, BOp.tryNew b d u a = .error l) := by
  cases BOp.tryNew b d u a with
  | ok s => exact Or.inl ⟨s, rfl⟩
  | error l => exact Or.inr ⟨l, rfl⟩

/-- one component not (finite and in band), or `b+d+u` not (finite and in the one band): error -/
theorem C01_bop_rejects (b d u a : XQ f)
    (h : ¬ inBand a ∨ ¬ sumOne3 b d u ∨ ¬ inBand b ∨ ¬ inBand d ∨ ¬ inBand u) :
    ∃ l, BOp.tryNew b d u a = .error l := by
  rcases C01_total_bop b d u a with hok | herr
  · exfalso
    obtain ⟨bq, dq, uq, aq, rfl, rfl, rfl, rfl, ha, hs, hb, hd, hu⟩ := (C01_bop_accept_iff b d u a).1 hok
    rcases h with h | h | h | h | h
    · exact h (inBand_fin.2 ha)
    · exact h ⟨bq, dq, uq, rfl, rfl, rfl, hs⟩
    · exact h (inBand_fin.2 hb)
    · exact h (inBand_fin.2 hd)
    · exact h (inBand_fin.2 hu)
  · exact herr

/-- NaN or an infinity in any of the four parameters: error -/
theorem C01_bop_rejects_special (b d u a : XQ f)
    (h : (b = XQ.nan ∨ b = XQ.pinf ∨ b = XQ.ninf) ∨ (d = XQ.nan ∨ d = XQ.pinf ∨ d = XQ.ninf) ∨
         (u = XQ.nan ∨ u = XQ.pinf ∨ u = XQ.ninf) ∨ (a = XQ.nan ∨ a = XQ.pinf ∨ a = XQ.ninf)) :
    ∃ l, BOp.tryNew b d u a = .error l := by
  apply C01_bop_rejects
  rcases h with h | h | h | h
  · exact Or.inr (Or.inr (Or.inl (not_inBand_of_special h)))
  · exact Or.inr (Or.inr (Or.inr (Or.inl (not_inBand_of_special h))))
  · exact Or.inr (Or.inr (Or.inr (Or.inr (not_inBand_of_special h))))
  · exact Or.inl (not_inBand_of_special h)

/-- a finite parameter outside `[-ε, 1+4ε]`, or `b+d+u` outside `[1-2ε, 1+4ε]`: error -/
theorem C01_bop_rejects_margin (bq dq uq aq : ℚ)
    (h : ¬ band f aq ∨ ¬ oneBand f (bq + dq + uq) ∨ ¬ band f bq ∨ ¬ band f dq ∨ ¬ band f uq) :
    ∃ l, BOp.tryNew (XQ.fin bq : XQ f) (XQ.fin dq) (XQ.fin uq) (XQ.fin aq) = .error l := by
  apply C01_bop_rejects
  rcases h with h | h | h | h | h
  · exact Or.inl (fun k => h (inBand_fin.1 k))
  · refine Or.inr (Or.inl ?_)
    rintro ⟨b', d', u', hb, hd, hu, hs⟩
    cases hb; cases hd; cases hu
    exact h hs
  · exact Or.inr (Or.inr (Or.inl (fun k => h (inBand_fin.1 k))))
  · exact Or.inr (Or.inr (Or.inr (Or.inl (fun k => h (inBand_fin.1 k)))))
  · exact Or.inr (Or.inr (Or.inr (Or.inr (fun k => h (inBand_fin.1 k)))))

/-- labels of `BOpinion::try_new` in first-failure order: `a`, `b+d+u`, `b`, `d`, `u` -/
theorem C01_bop_label (b d u a : XQ f) :
    (¬ inBand a → BOp.tryNew b d u a = .error .ba) ∧
    (inBand a → ¬ sumOne3 b d u → BOp.tryNew b d u a = .error .bdu) ∧
    (inBand a → sumOne3 b d u → ¬ inBand b → BOp.tryNew b d u a = .error .bb) ∧
    (inBand a → sumOne3 b d u → inBand b → ¬ inBand d → BOp.tryNew b d u a = .error .dd) ∧
    (inBand a → sumOne3 b d u → inBand b → inBand d → ¬ inBand u → BOp.tryNew b d u a = .error .u) :=
  ⟨fun h => bopTryNew_ba h,
   fun ha h => bopTryNew_err ha (bcheck_bdu h),
   fun ha h hb => bopTryNew_err ha (bcheck_bb h hb),
   fun ha h hb hd => bopTryNew_err ha (bcheck_dd h hb hd),
   fun ha h hb hd hu => bopTryNew_err ha (bcheck_u h hb hd hu)⟩

/-- labels of `BSimplex::try_new`: `b+d+u`, `b`, `d`, `u` -/
theorem C01_bsimplex_label (b d u : XQ f) :
    (¬ sumOne3 b d u → BOp.simplexTryNew b d u = .error .bdu) ∧
    (sumOne3 b d u → ¬ inBand b → BOp.simplexTryNew b d u = .error .bb) ∧
    (sumOne3 b d u → inBand b → ¬ inBand d → BOp.simplexTryNew b d u = .error .dd) ∧
    (sumOne3 b d u → inBand b → inBand d → ¬ inBand u → BOp.simplexTryNew b d u = .error .u) :=
  ⟨fun h => bsimplexTryNew_err (bcheck_bdu h),
   fun h hb => bsimplexTryNew_err (bcheck_bb h hb),
   fun h hb hd => bsimplexTryNew_err (bcheck_dd h hb hd),
   fun h hb hd hu => bsimplexTryNew_err (bcheck_u h hb hd hu)⟩

/-- the only labels the binomial constructor can report -/
theorem C01_bop_error_label (b d u a : XQ f) (l : Label) (h : BOp.tryNew b d u a = .error l) :
    l = .ba ∨ l = .bdu ∨ l = .bb ∨ l = .dd ∨ l = .u := by
  by_cases ha : inBand a
  · rcases unit_ok_or_error (BOp.checkSimplex b d u) with h1 | ⟨l1, h1⟩
    · rw [bopTryNew_ok ha h1] at h; cases h
    · rw [bopTryNew_err ha h1] at h; cases h
      exact Or.inr (bcheck_label h1)
  · rw [bopTryNew_ba ha] at h; cases h; simp

/-! ## 10. vacuous / dogmatic predicates -/

theorem C01_vacuous_iff (b : Tab (XQ f) n) (a : Tab (XQ f) n) (u : ℚ) :
    (Simplex.isVacuous (⟨b, XQ.fin u⟩ : Simplex (XQ f) n) = true ↔ oneBand f u) ∧
    (Opinion.isVacuous (⟨b, XQ.fin u, a⟩ : Opinion (XQ f) n) = true ↔ oneBand f u) := by
  constructor <;>
  · show Scalar.isOne (XQ.fin u : XQ f) = true ↔ _
    rw [isOne_iff]; exact inOneBand_fin

theorem C01_dogmatic_iff (b : Tab (XQ f) n) (a : Tab (XQ f) n) (u : ℚ) :
    (Simplex.isDogmatic (⟨b, XQ.fin u⟩ : Simplex (XQ f) n) = true ↔ |u| ≤ f.eps) ∧
    (Opinion.isDogmatic (⟨b, XQ.fin u, a⟩ : Opinion (XQ f) n) = true ↔ |u| ≤ f.eps) := by
  constructor <;>
  · show Scalar.isZero (XQ.fin u : XQ f) = true ↔ _
    rw [XQ.isZero_fin, decide_eq_true_eq]

/-- in particular: true at exactly 1 / 0, false at a visible distance -/
theorem C01_vacuous_dogmatic_exact (b : Tab (XQ f) n) :
    Simplex.isVacuous (⟨b, XQ.fin 1⟩ : Simplex (XQ f) n) = true ∧
    Simplex.isDogmatic (⟨b, XQ.fin 0⟩ : Simplex (XQ f) n) = true ∧
    (∀ u : ℚ, u < 1 - 2 * f.eps ∨ 1 + 4 * f.eps < u →
      Simplex.isVacuous (⟨b, XQ.fin u⟩ : Simplex (XQ f) n) = false) ∧
    (∀ u : ℚ, f.eps < |u| → Simplex.isDogmatic (⟨b, XQ.fin u⟩ : Simplex (XQ f) n) = false) := by
  have hp := XQ.eps_pos f
  refine ⟨((C01_vacuous_iff b b 1).1).2 ⟨by linarith, by linarith⟩,
    ((C01_dogmatic_iff b b 0).1).2 (by simpa using hp.le), ?_, ?_⟩
  · intro u hu
    rw [← Bool.not_eq_true, (C01_vacuous_iff b b u).1]
    rintro ⟨h1, h2⟩; rcases hu with h | h <;> linarith
  · intro u hu
    rw [← Bool.not_eq_true, (C01_dogmatic_iff b b u).1]
    exact not_le.mpr hu

/-- NaN / infinite uncertainty: neither vacuous nor dogmatic -/
theorem C01_vacuous_dogmatic_special (b a : Tab (XQ f) n) (u : XQ f)
    (h : u = XQ.nan ∨ u = XQ.pinf ∨ u = XQ.ninf) :
    Simplex.isVacuous (⟨b, u⟩ : Simplex (XQ f) n) = false ∧
    Simplex.isDogmatic (⟨b, u⟩ : Simplex (XQ f) n) = false ∧
    Opinion.isVacuous (⟨b, u, a⟩ : Opinion (XQ f) n) = false ∧
    Opinion.isDogmatic (⟨b, u, a⟩ : Opinion (XQ f) n) = false := by
  rcases h with rfl | rfl | rfl <;> exact ⟨rfl, rfl, rfl, rfl⟩

/-! ## non-vacuity -/

local macro "band_arith" : tactic =>
  `(tactic| (simp only [Fin.forall_fin_succ, Fin.sum_univ_three, band, oneBand]; simp;
             (repeat' apply And.intro) <;> (try norm_num) <;> linarith))

/-- a concrete accepted opinion, n = 3 -/
example : Opinion.tryNew (liftT ![1/4, 1/4, 0] : Tab (XQ f) 3) (XQ.fin (1/2)) (liftT ![1/3, 1/3, 1/3])
    = .ok ⟨liftT ![1/4, 1/4, 0], XQ.fin (1/2), liftT ![1/3, 1/3, 1/3]⟩ := by
  apply C01_accepts_wf <;> simp [Fin.forall_fin_succ, Fin.sum_univ_three] <;> norm_num

/-- accepted although not exactly well-formed: `u = -ε`, sum `1 - ε` (inside the tolerance) -/
example : ∃ w, Opinion.tryNew (liftT ![1, 0, 0] : Tab (XQ f) 3) (XQ.fin (-f.eps)) (liftT ![1/3, 1/3, 1/3])
    = .ok w := by
  have hp := XQ.eps_pos f
  rw [C01_opinion_accept_iff]
  refine ⟨_, _, _, rfl, rfl, rfl, ?_, ⟨le_rfl, by linarith⟩, ?_, ?_, ?_⟩ <;> band_arith

/-- rejected: a mass of 3 (and one of -2) although the sum is 1 -/
example : Opinion.tryNew (liftT ![3, -2, 0] : Tab (XQ f) 3) (XQ.fin 0) (liftT ![1/3, 1/3, 1/3])
    = .error .b := by
  refine (C01_label_b _ _ _ ⟨0, ?_⟩).1
  rw [liftT_getElem, inBand_fin]
  rintro ⟨_, h⟩
  have := eps_le f
  simp at h; linarith

/-- rejected: every entry in range but the sum is 5/2 -/
example : Opinion.tryNew (liftT ![1, 1, 1/2] : Tab (XQ f) 3) (XQ.fin 0) (liftT ![1/3, 1/3, 1/3])
    = .error .sumBU := by
  have hp := XQ.eps_pos f
  have he := eps_le f
  refine (C01_label_sumBU _ _ _ ?_ ⟨by linarith, by linarith⟩ ?_).1
  · band_arith
  · rintro ⟨_, h⟩
    simp [Fin.sum_univ_three] at h
    norm_num at h
    linarith

/-- rejected: NaN base rate -/
example (b : Tab (XQ f) 3) (u : XQ f) :
    ∃ l, Opinion.tryNew b u (#v[XQ.fin (1/2), XQ.nan, XQ.fin (1/2)]) = .error l :=
  C01_rejects_special _ _ _ (Or.inr (Or.inr ⟨1, Or.inl rfl⟩))

/-- binomial: accepted and rejected -/
example : BOp.tryNew (XQ.fin (1/4) : XQ f) (XQ.fin (1/4)) (XQ.fin (1/2)) (XQ.fin (1/2))
    = .ok ⟨XQ.fin (1/4), XQ.fin (1/4), XQ.fin (1/2), XQ.fin (1/2)⟩ := by
  apply C01_bop_accepts_wf <;> norm_num

example : BOp.tryNew (XQ.fin (1/4) : XQ f) (XQ.fin (1/4)) (XQ.fin (1/2)) XQ.pinf = .error .ba :=
  (C01_bop_label _ _ _ _).1 not_inBand_pinf

end SLV.Props.C01
